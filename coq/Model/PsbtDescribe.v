(* Model/PsbtDescribe.v — the DECISION LOGIC of buidl/psbt.py PSBT.describe_basic_multisig:
   PSBT.validate (the part that does not concern signatures), PSBTIn.validate, PSBTOut.validate,
   RedeemScript.get_quorum / WitnessScript.get_quorum, _describe_basic_multisig_inputs,
   _describe_basic_multisig_outputs, Tx.fee.  Definitions only.

   A PSBT is seen as the summary sees it: abstract records, scripts as command lists
   (Model/Script.v), hashes and the HD derivation as Section variables.
   Every Python exception is [Err]; checks are kept in the order of the code.

   Abstractions (tied by the correspondence harness, see harness/props/c11.py):
   - psbt_in.tx_in IS tx_obj.tx_ins[i] and psbt_out.tx_out IS tx_obj.tx_outs[i] (PSBT.parse builds them
     so); the two length checks of PSBT.validate are therefore trivially true here;
   - no partial signatures, no final scriptSig/witness (those branches of PSBT.validate are C10's);
   - scripts are command lists built by the parser (no kept [raw]); a scriptPubKey object has the
     class ScriptPubKey.parse gives it (only the five recognised patterns have an address());
   - a BIP32 path is the list of child numbers of the binary path (parse_binary_path), [derive x p] is
     what iterating HDPublicKey.child over p gives ([None] when a component is hardened);
     HDPublicKey.traverse(ltrim_path(..)) on an EMPTY trimmed path is "m/" and raises: [derive_t];
   - tx_in.value() is the cached [_value] ([None] would be a network fetch: [Err] here). *)
From V Require Import Base.Prelude Base.Ints Model.Helper Model.Script.

Definition check (b : bool) : result unit := if b then Ok tt else Err.

Definition cmd_eqb (a b : cmd) : bool :=
  match a, b with
  | Op x, Op y => x =? y
  | Push x, Push y => beq x y
  | _, _ => false
  end.

(* list[i] for a wire-supplied (possibly huge) non-negative index; negative never matches *)
Fixpoint nthz {A} (l : list A) (i : Z) : option A :=
  match l with
  | [] => None
  | x :: r => if i =? 0 then Some x else nthz r (i - 1)
  end.

Definition nth_cmd (cs : list cmd) (i : nat) : result cmd :=
  match nth_error cs i with Some c => Ok c | None => Err end.

(* commands.index(sec) succeeds *)
Definition has_key (cs : list cmd) (k : bytes) : bool := existsb (cmd_eqb (Push k)) cs.

Definition sumz (l : list Z) : Z := fold_right Z.add 0 l.

(* ---------------------------------------------------------------- quorum extraction *)
Definition last_cmd (cs : list cmd) : result cmd :=
  match rev cs with c :: _ => Ok c | [] => Err end.
Definition last2_cmd (cs : list cmd) : result cmd :=
  match rev cs with _ :: c :: _ => Ok c | _ => Err end.
Definition head_cmd (cs : list cmd) : result cmd :=
  match cs with c :: _ => Ok c | [] => Err end.

(* op.op_code_to_number: 0, and 79..96 -> op - 80 (so OP_1NEGATE = -1, OP_RESERVED = 0) *)
Definition op_code_to_number (c : cmd) : result Z :=
  match c with
  | Op o => if o =? 0 then Ok 0 else if (79 <=? o) && (o <=? 96) then Ok (o - 80) else Err
  | Push _ => Err
  end.

(* commands[1:-2] *)
Definition middle (cs : list cmd) : list cmd := skipn 1 (removelast (removelast cs)).

(* isinstance(c, bytes) and len(c) in (33, 65) *)
Definition is_key_push (c : cmd) : bool :=
  match c with Push b => (zlen b =? 33) || (zlen b =? 65) | Op _ => false end.

(* op.number_to_op_code *)
Definition number_to_op_code (n : Z) : result Z :=
  if (n <? -1) || (16 <? n) then Err else if n =? 0 then Ok 0 else Ok (n + 80).

(* RedeemScript.get_quorum: commands[-1] == 174; m from commands[0]; n = len(commands) - 3; then
   (fix 6e9e1d2) 1 <= m <= n, commands[-2] == OP_n, and the n middle commands are key pushes *)
Definition redeem_quorum (cs : list cmd) : result (Z * Z) :=
  l <- last_cmd cs ;;
  _ <- check (cmd_eqb l (Op 174)) ;;
  c0 <- head_cmd cs ;;
  m <- op_code_to_number c0 ;;
  let n := zlen cs - 3 in
  _ <- check ((1 <=? m) && (m <=? n)) ;;
  c2 <- last2_cmd cs ;;
  on <- number_to_op_code n ;;
  _ <- check (cmd_eqb c2 (Op on)) ;;
  _ <- check (forallb is_key_push (middle cs)) ;;
  Ok (m, n).

(* int(OP_CODE_NAMES[o].split("OP_")[1]): only OP_0 and OP_1..OP_16 have a numeric name *)
Definition op_name_number (o : Z) : result Z :=
  if o =? 0 then Ok 0 else if (81 <=? o) && (o <=? 96) then Ok (o - 80) else Err.

(* WitnessScript.get_quorum: last is OP_CHECKMULTISIG, commands[0] and commands[-2] are ints;
   m and n are read from those two opcodes; then (fix a89f508) 1 <= m <= n, exactly n middle
   commands, all of them key pushes *)
Definition witness_quorum (cs : list cmd) : result (Z * Z) :=
  l <- last_cmd cs ;;
  _ <- check (cmd_eqb l (Op 174)) ;;
  c0 <- head_cmd cs ;;
  c2 <- last2_cmd cs ;;
  match c0, c2 with
  | Op a, Op b =>
      m <- op_name_number a ;; n <- op_name_number b ;;
      _ <- check ((1 <=? m) && (m <=? n)) ;;
      _ <- check (zlen (middle cs) =? n) ;;
      _ <- check (forallb is_key_push (middle cs)) ;;
      Ok (m, n)
  | _, _ => Err
  end.

Definition is_prefix (a b : list Z) : bool :=
  (length a <=? length b)%nat && forallb (fun '(x, y) => x =? y) (combine a b).

(* hd.ltrim_path on a parsed binary path: valid iff fewer than 256 components; needs >= depth
   components *)
Definition ltrim (path : list Z) (depth : Z) : result (list Z) :=
  if 256 <=? zlen path then Err
  else if zlen path <? depth then Err
  else Ok (skipn (Z.to_nat depth) path).

Section Describe.
  Variable hash160 sha256 : bytes -> bytes.
  Variable xpub : Type.
  Variable derive : xpub -> list Z -> option bytes.

  (* HDPublicKey.traverse("m/" + "/".join(components)).sec(): "m/" itself raises *)
  Definition derive_t (x : xpub) (t : list Z) : option bytes :=
    match t with [] => None | _ => derive x t end.

  (* a NamedPublicKey in a named_pubs dict: the dict key, the point's sec, root fingerprint, path *)
  Record named_pub := { np_key : bytes; np_sec : bytes; np_xfp : bytes; np_path : list Z }.
  Record utxo := { u_amount : Z; u_spk : list cmd }.
  Record prevtx := { pt_hash : bytes; pt_outs : list utxo }.
  Record pin := {
    i_txid : bytes; i_index : Z;
    i_prev_tx : option prevtx;          (* non-witness UTXO *)
    i_prev_out : option utxo;           (* witness UTXO *)
    i_redeem : option (list cmd);
    i_witness : option (list cmd);
    i_pubs : list named_pub;
    i_value : option Z                  (* tx_in._value *)
  }.
  Record pout := {
    o_amount : Z; o_spk : list cmd;
    o_redeem : option (list cmd);
    o_witness : option (list cmd);
    o_pubs : list named_pub
  }.
  (* a global xpub of the PSBT (NamedHDPublicKey): fingerprint, path (depth = its length), key *)
  Record hdpub := { h_xfp : bytes; h_path : list Z; h_xpub : xpub }.
  Record psbt := { p_ins : list pin; p_outs : list pout; p_hd_pubs : list hdpub }.

  (* the hdpubkey_map dict: fingerprint -> (xpub, depth) *)
  Definition hdmap := list (bytes * (xpub * Z)).

  Definition script_h160 (cs : list cmd) : result bytes := r <- ser_cmds cs ;; Ok (hash160 r).
  Definition script_s256 (cs : list cmd) : result bytes := r <- ser_cmds cs ;; Ok (sha256 r).

  Definition keys_in (cs : list cmd) (pubs : list named_pub) : result unit :=
    check (forallb (fun np => has_key cs (np_key np)) pubs).

  (* "too many pubkeys" / "pubkey does not match the hash160" of the single-key patterns *)
  Definition single_pub_check (pubs : list named_pub) (c : result cmd) : result unit :=
    match pubs with
    | [] => Ok tt
    | [np] => c' <- c ;; check (cmd_eqb c' (Push (hash160 (np_sec np))))
    | _ => Err
    end.

  Definition opt_is (f : list cmd -> bool) (o : option (list cmd)) : bool :=
    match o with Some s => f s | None => false end.

  (* ---------------------------------------------------------------- PSBTIn.script_pubkey / validate *)
  Definition in_spk (i : pin) : result (option (list cmd)) :=
    match i_prev_tx i with
    | Some pt => match nthz (pt_outs pt) (i_index i) with
                 | Some u => Ok (Some (u_spk u)) | None => Err end
    | None => match i_prev_out i with Some u => Ok (Some (u_spk u)) | None => Ok None end
    end.

  Fixpoint cmds_eqb (a b : list cmd) : bool :=
    match a, b with
    | [], [] => true
    | x :: a', y :: b' => cmd_eqb x y && cmds_eqb a' b'
    | _, _ => false
    end.

  Definition is_some {A} (o : option A) : bool := match o with Some _ => true | None => false end.

  Definition validate_in (i : pin) : result unit :=
    ospk <- in_spk i ;;
    _ <- match i_prev_tx i with
         | Some pt => _ <- check (beq (i_txid i) (pt_hash pt)) ;;
                      _ <- check (i_index i <? zlen (pt_outs pt)) ;;
                      match i_prev_out i with
                      | Some po =>                 (* fix 0ea2164: both UTXO kinds have to agree *)
                          match nthz (pt_outs pt) (i_index i) with
                          | Some u => check ((u_amount po =? u_amount u) && cmds_eqb (u_spk po) (u_spk u))
                          | None => Err
                          end
                      | None => Ok tt
                      end
         | None => Ok tt
         end ;;
    if is_some (i_prev_out i) ||
       (is_some ospk && (is_some (i_witness i) ||
                         opt_is (fun rs => is_p2wpkh rs || is_p2wsh rs) (i_redeem i)))
    then                                            (* witness input (fixes 102feec, 0d3cb10) *)
        match ospk with
        | None => Err
        | Some spk =>
            _ <- check (is_p2sh spk || is_p2wsh spk || is_p2wpkh spk) ;;
            _ <- match i_redeem i with                      (* fixes 88bef8f, 0581ca1 *)
                 | Some rs =>
                     _ <- check (is_p2sh spk) ;;
                     _ <- check (is_p2wpkh rs || is_p2wsh rs) ;;
                     h <- script_h160 rs ;;
                     h160 <- nth_cmd spk 1 ;;
                     check (cmd_eqb (Push h) h160)
                 | None => Ok tt
                 end ;;
            match i_witness i with
            | Some ws =>
                _ <- check (is_p2wsh spk || opt_is is_p2wsh (i_redeem i)) ;;
                s256 <- match i_redeem i with
                        | Some rs => h160 <- nth_cmd spk 1 ;;
                                     h <- script_h160 rs ;;
                                     _ <- check (cmd_eqb (Push h) h160) ;;
                                     nth_cmd rs 1
                        | None => nth_cmd spk 1
                        end ;;
                h <- script_s256 ws ;;
                _ <- check (cmd_eqb (Push h) s256) ;;
                keys_in ws (i_pubs i)
            | None =>
                if is_p2wpkh spk || opt_is is_p2wpkh (i_redeem i)
                then single_pub_check (i_pubs i)          (* fix 312f8e1: where the key hash is *)
                       (if is_p2wpkh spk then nth_cmd spk 1
                        else match i_redeem i with Some rs => nth_cmd rs 1 | None => Err end)
                else Ok tt
            end
        end
    else                                            (* non-witness input *)
        match i_redeem i with
        | Some rs =>
            match ospk with
            | None => Err
            | Some spk =>
                _ <- check (is_p2sh spk) ;;
                _ <- check (negb (is_p2wsh rs || is_p2wpkh rs)) ;;
                h160 <- nth_cmd spk 1 ;;
                h <- script_h160 rs ;;
                _ <- check (cmd_eqb (Push h) h160) ;;
                keys_in rs (i_pubs i)
            end
        | None =>
            match ospk with
            | Some spk => if is_p2pkh spk then single_pub_check (i_pubs i) (nth_cmd spk 2) else Ok tt
            | None => Ok tt
            end
        end.

  (* ---------------------------------------------------------------- PSBTOut.validate *)
  Definition validate_out (o : pout) : result unit :=
    let spk := o_spk o in
    if is_p2pkh spk then
      match o_redeem o, o_witness o with
      | None, None => single_pub_check (o_pubs o) (nth_cmd spk 2)
      | _, _ => Err
      end
    else if is_p2wpkh spk then
      match o_redeem o, o_witness o with
      | None, None => single_pub_check (o_pubs o) (nth_cmd spk 1)
      | _, _ => Err
      end
    else
      match o_witness o with
      | Some ws =>
          s256 <- match o_redeem o with
                  | Some rs => _ <- check (is_p2sh spk && is_p2wsh rs) ;;      (* fix efe5d77 *)
                               h160 <- nth_cmd spk 1 ;;
                               h <- script_h160 rs ;;
                               _ <- check (cmd_eqb (Push h) h160) ;;
                               nth_cmd rs 1
                  | None => _ <- check (is_p2wsh spk) ;;                       (* fix b632a63 *)
                            nth_cmd spk 1
                  end ;;
          h <- script_s256 ws ;;
          _ <- check (cmd_eqb (Push h) s256) ;;
          keys_in ws (o_pubs o)
      | None =>
          match o_redeem o with
          | Some rs =>
              _ <- check (is_p2sh spk) ;;
              h <- script_h160 rs ;;
              c <- nth_cmd spk 1 ;;
              _ <- check (cmd_eqb (Push h) c) ;;
              if is_p2wpkh rs then single_pub_check (o_pubs o) (nth_cmd rs 1)   (* fix 312f8e1 *)
              else keys_in rs (o_pubs o)
          | None => Ok tt
          end
      end.

  (* ---------------------------------------------------------------- PSBT.validate (no signatures) *)
  (* for hd_pub in hd_pubs: if is_ancestor: verify_descendent or raise; break *)
  Fixpoint check_descendent (hs : list hdpub) (np : named_pub) : result unit :=
    match hs with
    | [] => Ok tt
    | h :: r =>
        if beq (h_xfp h) (np_xfp np) && is_prefix (h_path h) (np_path np)
        then match derive (h_xpub h) (skipn (length (h_path h)) (np_path np)) with
             | Some s => check (beq s (np_sec np))
             | None => Err
             end
        else check_descendent r np
    end.

  Fixpoint forall_res {A} (f : A -> result unit) (l : list A) : result unit :=
    match l with
    | [] => Ok tt
    | a :: r => _ <- f a ;; forall_res f r
    end.

  Definition validate_psbt (p : psbt) : result unit :=
    _ <- forall_res (fun i => _ <- validate_in i ;;
                              forall_res (check_descendent (p_hd_pubs p)) (i_pubs i)) (p_ins p) ;;
    forall_res (fun o => _ <- validate_out o ;;
                         forall_res (check_descendent (p_hd_pubs p)) (o_pubs o)) (p_outs p).

  (* ---------------------------------------------------------------- the xpub map *)
  Definition lookup_xfp (m : hdmap) (x : bytes) : option (xpub * Z) :=
    match find (fun e => beq (fst e) x) m with Some e => Some (snd e) | None => None end.

  (* dict assignment *)
  Fixpoint dict_set (m : hdmap) (k : bytes) (v : xpub * Z) : hdmap :=
    match m with
    | [] => [(k, v)]
    | (k', v') :: r => if beq k' k then (k', v) :: r else (k', v') :: dict_set r k v
    end.

  (* hdpubkey_map built from the PSBT's global xpubs *)
  Definition map_of_hd_pubs (hs : list hdpub) : hdmap :=
    fold_left (fun m h => dict_set m (h_xfp h) (h_xpub h, zlen (h_path h))) hs [].

  (* xfp lookup, ltrim_path, traverse, compare with the named key *)
  Definition check_pub (m : hdmap) (np : named_pub) : result unit :=
    match lookup_xfp m (np_xfp np) with
    | None => Err
    | Some (xp, depth) =>
        t <- ltrim (np_path np) depth ;;
        match derive_t xp t with
        | Some s => check (beq s (np_sec np))
        | None => Err
        end
    end.

  (* the loop over a change output's named keys, with xfps_seen *)
  Fixpoint check_out_pubs (m : hdmap) (seen : list bytes) (pubs : list named_pub) : result unit :=
    match pubs with
    | [] => Ok tt
    | np :: r =>
        _ <- check (negb (existsb (beq (np_xfp np)) seen)) ;;
        _ <- check_pub m np ;;
        check_out_pubs m (np_xfp np :: seen) r
    end.

  (* witness_script or redeem_script, with its class *)
  Definition pick_script (w r : option (list cmd)) : result (bool * list cmd) :=
    match w, r with
    | Some ws, _ => Ok (true, ws)
    | None, Some rs => Ok (false, rs)
    | None, None => Err
    end.

  Definition quorum_of (s : bool * list cmd) : result (Z * Z) :=
    if fst s then witness_quorum (snd s) else redeem_quorum (snd s).

  (* ---------------------------------------------------------------- _describe_basic_multisig_inputs *)
  Record in_acc := {
    a_m : option Z; a_n : option Z; a_total : Z;
    a_descs : list (Z * Z * Z);         (* quorum m, n, sats per input *)
    a_signing : bool                    (* root_paths_for_signing is non-empty *)
  }.

  (* the checks on one input, given the quorum of the previous inputs; returns (m, n, sats) *)
  Definition input_checks (hm : hdmap) (qm qn : option Z) (i : pin) : result (Z * Z * Z) :=
    _ <- validate_in i ;;
    _ <- match i_witness i, i_redeem i with Some _, Some _ => Err | _, _ => Ok tt end ;;
    s <- pick_script (i_witness i) (i_redeem i) ;;
    (* fix 786fa3c: an input with neither UTXO record has nothing its script could be checked against *)
    _ <- check (is_some (i_prev_tx i) || is_some (i_prev_out i)) ;;
    _ <- check (zlen hm =? zlen (i_pubs i)) ;;
    '(m, n) <- quorum_of s ;;
    _ <- match qm with None => Ok tt | Some m0 => check (m0 =? m) end ;;
    _ <- match qn with None => check (n =? zlen hm) | Some n0 => check (n0 =? n) end ;;
    _ <- ser_cmds (snd s) ;;                                  (* .address() *)
    _ <- forall_res (check_pub hm) (i_pubs i) ;;
    v <- match i_value i with Some v => Ok v | None => Err end ;;
    Ok (m, n, v).

  Fixpoint describe_inputs (hm : hdmap) (acc : in_acc) (ins : list pin) : result in_acc :=
    match ins with
    | [] => Ok acc
    | i :: r =>
        '(m, n, v) <- input_checks hm (a_m acc) (a_n acc) i ;;
        describe_inputs hm
          {| a_m := match a_m acc with None => Some m | q => q end;
             a_n := match a_n acc with None => Some n | q => q end;
             a_total := a_total acc + v;
             a_descs := a_descs acc ++ [(m, n, v)];
             a_signing := a_signing acc || negb (match i_pubs i with [] => true | _ => false end) |} r
    end.

  (* ---------------------------------------------------------------- _describe_basic_multisig_outputs *)
  Definition addressable (spk : list cmd) : bool :=
    is_p2pkh spk || is_p2sh spk || is_p2wpkh spk || is_p2wsh spk || is_p2tr spk.

  (* what is verified before an output that claims to be change is accepted as such *)
  Definition change_checks (hm : hdmap) (qm qn : Z) (o : pout) : result unit :=
    s <- pick_script (o_witness o) (o_redeem o) ;;
    '(m, n) <- quorum_of s ;;
    _ <- check (qm =? m) ;;
    _ <- check (qn =? n) ;;
    _ <- check (n =? zlen (o_pubs o)) ;;
    check_out_pubs hm [] (o_pubs o).

  Record out_acc := {
    b_total : Z; b_spend : Z; b_spends : Z;
    b_spend_addr : option (list cmd);
    b_change : option (Z * list cmd);          (* change_sats, change_addr once set *)
    b_descs : list (Z * bool)                  (* sats, is_change per output *)
  }.

  Definition is_nil {A} (l : list A) : bool := match l with [] => true | _ => false end.

  Fixpoint describe_outputs (hm : hdmap) (qm qn : Z) (acc : out_acc) (outs : list pout)
    : result out_acc :=
    match outs with
    | [] => Ok acc
    | o :: r =>
        _ <- validate_out o ;;
        _ <- check (addressable (o_spk o)) ;;
        if is_nil (o_pubs o) then
          let cnt := b_spends acc + 1 in
          describe_outputs hm qm qn
            {| b_total := b_total acc + o_amount o; b_spend := b_spend acc + o_amount o;
               b_spends := cnt;
               b_spend_addr := if 1 <? cnt then None else Some (o_spk o);
               b_change := b_change acc;
               b_descs := b_descs acc ++ [(o_amount o, false)] |} r
        else
          _ <- change_checks hm qm qn o ;;
          match b_change acc with
          | Some _ => Err                                       (* >1 change output *)
          | None =>
              describe_outputs hm qm qn
                {| b_total := b_total acc + o_amount o; b_spend := b_spend acc;
                   b_spends := b_spends acc; b_spend_addr := b_spend_addr acc;
                   b_change := Some (o_amount o, o_spk o);
                   b_descs := b_descs acc ++ [(o_amount o, true)] |} r
          end
    end.

  (* ---------------------------------------------------------------- Tx.fee *)
  Fixpoint input_values (ins : list pin) : result (list Z) :=
    match ins with
    | [] => Ok []
    | i :: r => match i_value i with
                | Some v => vs <- input_values r ;; Ok (v :: vs)
                | None => Err
                end
    end.

  Definition tx_fee (p : psbt) : result Z :=
    vs <- input_values (p_ins p) ;;
    Ok (sumz vs - sumz (map o_amount (p_outs p))).

  (* ---------------------------------------------------------------- describe_basic_multisig *)
  Record summary := {
    s_fee : Z; s_total_in : Z; s_total_out : Z; s_spend : Z; s_change : Z;
    s_spend_addr : option (list cmd); s_change_addr : option (list cmd);
    s_batch : bool; s_m : Z; s_n : Z;
    s_ins : list (Z * Z * Z); s_outs : list (Z * bool)
  }.

  Definition acc0 : in_acc :=
    {| a_m := None; a_n := None; a_total := 0; a_descs := []; a_signing := false |}.
  Definition out0 : out_acc :=
    {| b_total := 0; b_spend := 0; b_spends := 0; b_spend_addr := None; b_change := None;
       b_descs := [] |}.

  Definition describe (hm0 : hdmap) (p : psbt) : result summary :=
    _ <- validate_psbt p ;;
    fee <- tx_fee p ;;
    hm <- match hm0 with
          | [] => match p_hd_pubs p with [] => Err | hs => Ok (map_of_hd_pubs hs) end
          | _ => Ok hm0
          end ;;
    ia <- describe_inputs hm acc0 (p_ins p) ;;
    _ <- check (a_signing ia) ;;
    match a_m ia, a_n ia with
    | Some m, Some n =>
        oa <- describe_outputs hm m n out0 (p_outs p) ;;
        _ <- check (negb (a_total ia =? 0)) ;;      (* fee / total_input_sats: ZeroDivisionError *)
        Ok {| s_fee := fee; s_total_in := a_total ia; s_total_out := b_total oa;
              s_spend := b_spend oa;
              s_change := match b_change oa with Some (c, _) => c | None => 0 end;
              s_spend_addr := b_spend_addr oa;
              s_change_addr := match b_change oa with Some (_, a) => Some a | None => None end;
              s_batch := 1 <? b_spends oa; s_m := m; s_n := n;
              s_ins := a_descs ia; s_outs := b_descs oa |}
    | _, _ => Err
    end.
End Describe.


Arguments h_xfp {xpub} _.
Arguments h_path {xpub} _.
Arguments h_xpub {xpub} _.
Arguments Build_hdpub {xpub} _ _ _.
Arguments p_ins {xpub} _.
Arguments p_outs {xpub} _.
Arguments p_hd_pubs {xpub} _.
Arguments Build_psbt {xpub} _ _ _.
