(* Model/DescriptorText.v — the TEXT layer of buidl/descriptor.py, below and above the
   structured model of Model/Descriptor.v:
     int() / is_intable on a str (ASCII), str.split on one character, str.join,
     the key-record regular expression of parse_partial_key_record (re.match),
     parse_partial_key_record, parse_full_key_record, parse_any_key_record on text,
     the part of P2WSHSortedMulti.parse that follows the outer regular expression
     (int(quorum_m_str), key_records_str.split on a comma, parse_full_key_record on every piece,
     threshold check, constructor), the outer regular expression of P2WSHSortedMulti.parse
     (re.fullmatch since /repo dfc700c: the text must be exactly the descriptor, optionally
     followed by "#" and 8 checksum characters), P2WSHSortedMulti.parse itself, m_of_n / quorum_n.
   Definitions only.

   Text = list of code points; the model covers ASCII text (code points < 128): int() skips
   9..13 and 32, accepts one sign, single underscores between digits and at most 4300 digits
   (CPython >= 3.11); the dot of a regular expression is every character except LF (10). *)
From Coq Require Import String.
From V Require Import Base.Prelude Base.Disp Generated.DescConsts Model.Descriptor.
Open Scope Z_scope.

(* ------------------------------------------------------------------ int(s), base 10 *)
Definition is_digit (c : Z) : bool := (48 <=? c) && (c <=? 57).
Fixpoint dig_acc (acc : Z) (prevd : bool) (l : list Z) : result Z :=
  match l with
  | [] => if prevd then Ok acc else Err
  | c :: r =>
      if is_digit c then dig_acc (acc * 10 + (c - 48)) true r
      else if (c =? 95) && prevd then dig_acc acc false r
      else Err
  end.
(* the digit limit counts digit characters (leading zeros too), not underscores / sign / blanks *)
Definition dig_lim (l : list Z) : result Z :=
  if 4300 <? zlen (filter is_digit l) then Err else dig_acc 0 false l.
Definition is_ws_int (c : Z) : bool := ((9 <=? c) && (c <=? 13)) || (c =? 32).
Fixpoint lstrip_int (s : list Z) : list Z :=
  match s with
  | c :: r => if is_ws_int c then lstrip_int r else s
  | [] => []
  end.
Definition strip_int (s : list Z) : list Z := rev (lstrip_int (rev (lstrip_int s))).
Definition py_int (s : list Z) : result Z :=
  match strip_int s with
  | [] => Err
  | c :: r =>
      if c =? 43 then dig_lim r
      else if c =? 45 then v <- dig_lim r ;; Ok (- v)
      else dig_lim (c :: r)
  end.
(* helper.is_intable *)
Definition is_intable (s : list Z) : bool := match py_int s with Ok _ => true | Err => false end.

(* ------------------------------------------------------------------ split / join *)
(* s.split(sep) for a one-character separator: never the empty list *)
Fixpoint split_on (sep : Z) (s : list Z) : list (list Z) :=
  match s with
  | [] => [[]]
  | x :: r =>
      if x =? sep then [] :: split_on sep r
      else match split_on sep r with
           | c :: cs => (x :: c) :: cs
           | [] => [[x]]
           end
  end.
(* sep.join(l) *)
Fixpoint join_on (sep : Z) (l : list (list Z)) : list Z :=
  match l with
  | [] => []
  | [a] => a
  | a :: r => a ++ sep :: join_on sep r
  end.

(* ------------------------------------------------------------------ the key-record regex *)
Definition is_alnum (c : Z) : bool :=
  is_digit c || ((65 <=? c) && (c <=? 90)) || ((97 <=? c) && (c <=? 122)).

(* the text up to the first LF (what a trailing dot-star captures) *)
Fixpoint upto_nl (s : list Z) : list Z :=
  match s with
  | [] => []
  | c :: r => if c =? 10 then [] else c :: upto_nl r
  end.

(* the lazy group, the closing bracket and the last group of the key-record regex: the
   shortest LF-free prefix that is followed by a closing bracket (93) and an alphanumeric
   character; the last group runs to the end of the line *)
Fixpoint re_path_xpub (s : list Z) : option (list Z * list Z) :=
  match s with
  | [] => None
  | c :: r =>
      if (c =? 93) && (match r with x :: _ => is_alnum x | [] => false end)
      then Some ([], upto_nl r)
      else if c =? 10 then None
      else match re_path_xpub r with
           | Some (p, x) => Some (c :: p, x)
           | None => None
           end
  end.

(* the groups of the key-record regex: an opening bracket (91), 8 characters of [0-9a-f], an
   optional star (42) that is dropped (taking it or not makes no difference for success),
   then [re_path_xpub]. *)
Definition re_key_record (s : list Z) : option (list Z * list Z * list Z) :=
  match s with
  | 91 :: r =>
      let xfp := firstn 8 r in
      if xfp_re_ok xfp then
        let r1 := skipn 8 r in
        let r2 := match r1 with 42 :: t => t | _ => r1 end in
        match re_path_xpub r2 with
        | Some (p, x) => Some (xfp, p, x)
        | None => None
        end
      else None
  | _ => None
  end.

(* the text-only part of parse_full_key_record: split on the slash (47), last part a star,
   is_intable / int() of the part before it, join of the rest, the regex.  The result is the record
   of FIELDS ([kr_path] = the text between the fingerprint and the closing bracket) that
   Model/Descriptor.v [parse_rec] validates. *)
Definition fields_of_text (s : list Z) : result keyrec :=
  match rev (split_on 47 s) with
  | lst :: idx :: r =>
      if negb (beq lst [42]) then Err else
      i <- py_int idx ;;
      match re_key_record (join_on 47 (rev r)) with
      | Some (xfp, p, x) => Ok {| kr_xfp := xfp; kr_path := p; kr_xpub := x; kr_idx := i |}
      | None => Err
      end
  | _ => Err        (* parts[-2] does not exist: IndexError *)
  end.

Section Text.
Variable path_ok : list Z -> bool.
Variable hdparse : list Z -> result (list Z * Z).
Variable child_ok : list Z -> Z -> bool.

(* parse_partial_key_record: (xfp, path, xpub, network) *)
Definition parse_partial_text (s : list Z) : result (list Z * list Z * list Z * Z) :=
  match re_key_record s with
  | Some (xfp, p, x) =>
      let path := 109 :: p in
      if negb (path_ok path) then Err else
      '(_, net) <- hdparse x ;;
      Ok (xfp, path, x, net)
  | None => Err
  end.

(* parse_full_key_record: the key record (xpub_parent is the xpub AS WRITTEN) and the network *)
Definition parse_full_text (s : list Z) : result (keyrec * Z) :=
  f <- fields_of_text s ;;
  kr <- parse_rec path_ok hdparse child_ok f ;;
  '(_, net) <- hdparse (kr_xpub f) ;;
  Ok (kr, net).

(* parse_any_key_record: full, else partial; the account index is present only for a full record *)
Definition parse_any_text (s : list Z) : result (list Z * list Z * list Z * Z * option Z) :=
  match parse_full_text s with
  | Ok (kr, net) => Ok (kr_xfp kr, kr_path kr, kr_xpub kr, net, Some (kr_idx kr))
  | Err =>
      '(xfp, path, x, net) <- parse_partial_text s ;;
      Ok (xfp, path, x, net, None)
  end.

Fixpoint parse_full_all (l : list (list Z)) : result (list keyrec) :=
  match l with
  | [] => Ok []
  | s :: r => '(kr, _) <- parse_full_text s ;; t <- parse_full_all r ;; Ok (kr :: t)
  end.

(* P2WSHSortedMulti.parse after the outer regular expression has produced its groups:
   quorum_m_str (digits only), key_records_str and the checksum ([] = none) *)
Definition parse_groups (m_str krs cs : list Z) : result desc :=
  m <- py_int m_str ;;
  recs <- parse_full_all (split_on 44 krs) ;;
  if m >? zlen recs then Err else construct path_ok hdparse m recs cs false.

End Text.

(* quorum_n and m_of_n *)
Definition quorum_n (d : desc) : Z := zlen (d_recs d).
Definition m_of_n (d : desc) : list Z := dec (d_m d) ++ s2z "-of-" ++ dec (quorum_n d).

(* the key expression the constructor prints for one record (render_rec without its leading
   comma) and the key_records_str of a descriptor text *)
Definition key_expr (kr : keyrec) : list Z :=
  91 :: kr_xfp kr ++ tl (kr_path kr) ++ 93 :: kr_xpub kr ++ 47 :: dec (kr_idx kr) ++ [47; 42].
Definition records_text (recs : list keyrec) : list Z := join_on 44 (map key_expr recs).

(* ------------------------------------------------------------------ P2WSHSortedMulti.parse on text *)

(* output_record.replace(backslash slash, slash): non-overlapping, left to right *)
Fixpoint unescape (s : list Z) : list Z :=
  match s with
  | a :: t =>
      match t with
      | b :: r => if (a =? 92) && (b =? 47) then 47 :: unescape r else a :: unescape t
      | [] => [a]
      end
  | [] => []
  end.

Fixpoint strip_prefix (pre s : list Z) : option (list Z) :=
  match pre, s with
  | [], _ => Some s
  | a :: p, b :: r => if a =? b then strip_prefix p r else None
  | _ :: _, [] => None
  end.

(* the longest run of [0-9] at the start *)
Fixpoint span_digits (s : list Z) : list Z * list Z :=
  match s with
  | c :: r => if is_digit c then match span_digits r with (d, t) => (c :: d, t) end else ([], s)
  | [] => ([], [])
  end.

(* the character class of the checksum group of the regular expression (regenerated from the
   source) *)
Definition is_cs_char (c : Z) : bool := existsb (Z.eqb c) desc_regex_checksum_class.

Fixpoint starts_with (pre s : list Z) : bool :=
  match pre, s with
  | [], _ => true
  | a :: p, b :: r => (a =? b) && starts_with p r
  | _ :: _, [] => false
  end.

(* the end of a full match: the greedy middle group is as long as possible, so a text that ends
   with two closing brackets has no checksum group; otherwise it must end with two closing
   brackets, "#" and exactly desc_regex_checksum_count characters of the class.  Works on the
   reversed text. *)
Definition split_tail (body : list Z) : option (list Z * list Z) :=
  let rb := rev body in
  if starts_with [41; 41] rb then Some (rev (skipn 2 rb), [])
  else
    let n := Z.to_nat desc_regex_checksum_count in
    let cs := rev (firstn n rb) in
    if starts_with [35; 41; 41] (skipn n rb) && (length cs =? n)%nat && forallb is_cs_char cs
    then Some (rev (skipn 3 (skipn n rb)), cs)
    else None.

(* re.fullmatch of the outer regular expression: (quorum_m_str, key_records_str, checksum or []);
   the dot does not match LF *)
Definition outer_groups (s : list Z) : option (list Z * list Z * list Z) :=
  match strip_prefix (s2z "wsh(sortedmulti(") s with
  | None => None
  | Some r =>
      match span_digits r with
      | (ds, c :: body) =>
          if negb (c =? 44) then None else
          if existsb (Z.eqb 10) body then None else
          match split_tail body with
          | Some (krs, cs) => Some (ds, krs, cs)
          | None => None
          end
      | (_, []) => None
      end
  end.

Section Parse.
Variable path_ok : list Z -> bool.
Variable hdparse : list Z -> result (list Z * Z).
Variable child_ok : list Z -> Z -> bool.
(* json.loads(text)["descriptor"] when that is a str (the Specter-Desktop account map), else Err *)
Variable json_descriptor : list Z -> result (list Z).

(* P2WSHSortedMulti.parse after strip() and the JSON branch *)
Definition parse_plain (s : list Z) : result desc :=
  let s1 := unescape s in
  match outer_groups s1 with
  | None => Err
  | Some (ds, krs, cs) =>
      if existsb (Z.eqb 35) s1 && (match cs with [] => true | _ => false end) then Err
      else parse_groups path_ok hdparse child_ok ds krs cs
  end.

(* P2WSHSortedMulti.parse *)
Definition parse_text (s : list Z) : result desc :=
  let s0 := strip s in
  match s0 with
  | 123 :: _ => t <- json_descriptor s0 ;; parse_plain (strip t)
  | _ => parse_plain s0
  end.
End Parse.

(* ------------------------------------------------------------------ hd.is_valid_bip32_path *)
(* C16's own transcription (ASCII text), so that the hypotheses the round-trip theorems make
   about the path check can be PROVED for it: lower(), strip(), replace("'", "h"),
   replace("//", "/"); "m" or "m/" followed by at most 255 components, each an int() text in
   [0, 2^31) with an optional trailing "h". *)
Definition repl_c (a b : Z) (s : list Z) : list Z := map (fun c => if c =? a then b else c) s.
Fixpoint repl_dslash (s : list Z) : list Z :=
  match s with
  | a :: t =>
      match t with
      | b :: r => if (a =? 47) && (b =? 47) then 47 :: repl_dslash r else a :: repl_dslash t
      | [] => [a]
      end
  | [] => []
  end.
Definition ends_with_c (c : Z) (s : list Z) : bool :=
  match rev s with x :: _ => x =? c | [] => false end.
Definition valid_sub (c : list Z) : bool :=
  let c' := if ends_with_c 104 c then removelast c else c in
  match py_int c' with
  | Ok v => (0 <=? v) && (v <? 2147483648)
  | Err => false
  end.
Definition norm_valid (path : list Z) : list Z :=
  repl_dslash (repl_c 39 104 (strip (lower path))).
Definition is_valid_path (path : list Z) : bool :=
  let p := norm_valid path in
  if beq p [109] then true
  else if negb (starts_with [109; 47] p) then false
  else
    let subs := split_on 47 (skipn 2 p) in
    if 256 <=? zlen subs then false else forallb valid_sub subs.
