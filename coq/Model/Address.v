(* Model/Address.v — mirrors the address mapping of buidl/script.py
   (P2PKH/P2SH/P2WPKH/P2WSH/P2TR ScriptPubKey.address, address_to_script_pubkey)
   and buidl/tx.py TxOut.to_address (the script_pubkey it builds).
   Networks: 0 mainnet, 1 testnet, 2 signet, 3 regtest.  Definitions only. *)
From V Require Import Base.Prelude Base.Ints Model.Helper Model.Script Model.Base58 Model.Bech32.

Section WithHash.
Variable hash256 : bytes -> bytes.

(* `if network == "mainnet": prefix = b"\x00" else: prefix = b"\x6f"` *)
Definition p2pkh_address (h : bytes) (net : Z) : result (list Z) :=
  encode_base58_checksum hash256 ((if net =? 0 then 0 else 111) :: h).
Definition p2sh_address (h : bytes) (net : Z) : result (list Z) :=
  encode_base58_checksum hash256 ((if net =? 0 then 5 else 196) :: h).
(* SegwitPubKey.address / P2TRScriptPubKey.address: bech32 of raw_serialize() *)
Definition segwit_address (cs : list cmd) (net : Z) : result (list Z) :=
  wp <- raw_serialize (mk_script cs) ;; encode_bech32_checksum wp net.
Definition p2wpkh_address (h : bytes) (net : Z) := segwit_address (p2wpkh_script h) net.
Definition p2wsh_address (h : bytes) (net : Z) := segwit_address (p2wsh_script h) net.
Definition p2tr_address (x : bytes) (net : Z) := segwit_address (p2tr_script x) net.

Definition txt_bc1q : list Z := [98;99;49;113].
Definition txt_tb1q : list Z := [116;98;49;113].
Definition txt_bcrt1q : list Z := [98;99;114;116;49;113].
Definition txt_bc1p : list Z := [98;99;49;112].
Definition txt_tb1p : list Z := [116;98;49;112].
Definition txt_bcrt1p : list Z := [98;99;114;116;49;112].

(* `len(raw) != 21 or raw[0] not in (v1, v2)` (fix 87f2a60) *)
Definition b58_raw_bad (raw : bytes) (v1 v2 : Z) : bool :=
  negb (length raw =? 21)%nat || negb ((nth 0 raw 0 =? v1) || (nth 0 raw 0 =? v2)).

(* script.py address_to_script_pubkey: the commands of the object it returns.
   Base58 branches: raw_decode_base58, 21 bytes, version byte 0x00/0x6f (P2PKH) or
   0x05/0xc4 (P2SH) (fix 87f2a60); segwit branches decide by the length of the decoded
   program (fix adc6e07); a version-0 program of another length falls through to the final
   `raise RuntimeError`. *)
Definition address_to_script_pubkey (s : list Z) : result (list cmd) :=
  let c1 := firstn 1 s in
  if beq c1 [49] || beq c1 [109] || beq c1 [110] then
    raw <- raw_decode_base58 hash256 s ;;
    if b58_raw_bad raw 0 111 then Err else Ok (p2pkh_script (skipn 1 raw))
  else if beq c1 [50] || beq c1 [51] then
    raw <- raw_decode_base58 hash256 s ;;
    if b58_raw_bad raw 5 196 then Err else Ok (p2sh_script (skipn 1 raw))
  else if beq (firstn 4 s) txt_bc1q || beq (firstn 4 s) txt_tb1q || beq (firstn 6 s) txt_bcrt1q then
    '(_, _, h) <- decode_bech32 s ;;
    if (length h =? 20)%nat then Ok (p2wpkh_script h)
    else if (length h =? 32)%nat then Ok (p2wsh_script h)
    else Err
  else if beq (firstn 4 s) txt_bc1p || beq (firstn 4 s) txt_tb1p || beq (firstn 6 s) txt_bcrt1p then
    '(_, _, h) <- decode_bech32 s ;;
    if negb (length h =? 32)%nat then Err else Ok (p2tr_script h)
  else Err.

(* tx.py TxOut.to_address: the script_pubkey of the TxOut it returns
   (address.startswith(("bc1", "tb1", "bcrt1")) since fix 2063db4; Base58 branches check
   `len(raw) == 21 and raw[0] in (...)` since fix 87f2a60) *)
Definition to_address_spk (s : list Z) : result (list cmd) :=
  if starts_with [98;99;49] s || starts_with [116;98;49] s || starts_with [98;99;114;116;49] s then
    '(_, version, h) <- decode_bech32 s ;;
    if version =? 0 then
      if (length h =? 20)%nat then Ok (p2wpkh_script h)
      else if (length h =? 32)%nat then Ok (p2wsh_script h)
      else Err
    else if version =? 1 then
      if (length h =? 32)%nat then Ok (p2tr_script h) else Err
    else Err
  else
    match s with
    | [] => Err                                       (* address[0]: IndexError *)
    | c :: _ =>
        if (c =? 51) || (c =? 50) then
          raw <- raw_decode_base58 hash256 s ;;
          if b58_raw_bad raw 5 196 then Err else Ok (p2sh_script (skipn 1 raw))
        else if (c =? 49) || (c =? 109) || (c =? 110) then
          raw <- raw_decode_base58 hash256 s ;;
          if b58_raw_bad raw 0 111 then Err else Ok (p2pkh_script (skipn 1 raw))
        else Err
    end.

End WithHash.
