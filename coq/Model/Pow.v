(* Model/Pow.v — mirrors buidl/helper.py bits_to_target, target_to_bits,
   calculate_new_bits; buidl/block.py hash, target, check_pow; buidl/network.py
   HeadersMessage.is_valid.  Definitions only.

   bits_to_target (after the fix de6be4c) always returns a Python int or raises:
   IndexError for empty bits (bits[-1]), ValueError for a negative or an overflowing
   target.  Block.check_pow (fd08533, de6be4c) catches ValueError ONLY, so the two kinds of
   exception are kept apart in [bits_to_target_x].  The type [pynum] is kept from the time
   when exponents below 3 produced a float; [PFloat] is no longer produced. *)
From V Require Import Base.Prelude Base.Ints Model.Helper Model.Block.

Definition TWO_WEEKS : Z := 60 * 60 * 24 * 14.
Definition MAX_TARGET : Z := 65535 * 256 ^ (29 - 3).

Inductive pynum := PInt (z : Z) | PFloat (num : Z) (k : Z).   (* PFloat c k = c / 256^k, k > 0 *)

Inductive b2t := B2T_ok (t : Z) | B2T_value_error | B2T_index_error.

(* helper.py bits_to_target; any length of bits is accepted (bits[-1] on b"" raises
   IndexError, little_endian_to_int(b"") = 0) *)
Definition bits_to_target_x (bits : bytes) : b2t :=
  match rev bits with
  | [] => B2T_index_error
  | exponent :: rc =>
      let c0 := from_le (rev rc) in
      let negative := negb (Z.land c0 8388608 =? 0) in             (* coefficient & 0x800000 *)
      let coefficient := Z.land c0 8388607 in                      (* coefficient &= 0x7FFFFF *)
      let target := if exponent <? 3 then Z.shiftr coefficient (8 * (3 - exponent))
                    else coefficient * 256 ^ (exponent - 3) in
      if negative && negb (target =? 0) then B2T_value_error       (* "negative target" *)
      else if 2 ^ 256 <=? target then B2T_value_error              (* "target overflows 256 bits" *)
      else B2T_ok target
  end.

Definition bits_to_target (bits : bytes) : result pynum :=
  match bits_to_target_x bits with
  | B2T_ok t => Ok (PInt t)
  | _ => Err
  end.

Fixpoint lstrip_zero (l : bytes) : bytes :=
  match l with
  | b :: r => if b =? 0 then lstrip_zero r else l
  | [] => []
  end.

(* bytes.ljust(3, b"\x00") *)
Definition ljust3 (c : bytes) : bytes := c ++ repeatz 0 (3 - length c).

(* helper.py target_to_bits *)
Definition target_to_bits (target : Z) : result bytes :=
  raw32 <- int_to_be target 32 ;;                        (* OverflowError outside [0, 2^256) *)
  let raw := lstrip_zero raw32 in
  let big := match raw with b0 :: _ => 127 <? b0 | [] => false end in
  let exponent := if big then zlen raw + 1 else zlen raw in
  let coefficient := if big then 0 :: firstn 2 raw else firstn 3 raw in
  Ok (rev (ljust3 coefficient) ++ [exponent]).

(* helper.py calculate_new_bits *)
Definition calculate_new_bits (previous_bits : bytes) (time_differential : Z) : result bytes :=
  let td := if time_differential >? TWO_WEEKS * 4 then TWO_WEEKS * 4 else time_differential in
  let td := if td <? TWO_WEEKS / 4 then TWO_WEEKS / 4 else td in
  t <- bits_to_target previous_bits ;;
  match t with
  | PFloat _ _ => Err                                   (* not produced any more *)
  | PInt prev =>
      let new_target := prev * td / TWO_WEEKS in
      let new_target := if new_target >? MAX_TARGET then MAX_TARGET else new_target in
      target_to_bits new_target
  end.

Section WithHash.
Variable hash256 : bytes -> bytes.

(* Block.hash *)
Definition block_hash (h : header) : result bytes :=
  s <- serialize_header h ;; Ok (rev (hash256 s)).

(* Block.check_pow: serialize and hash first, then target() with ValueError -> False,
   then proof <= target *)
Definition check_pow (h : header) : result bool :=
  s <- serialize_header h ;;
  match bits_to_target_x (h_bits h) with
  | B2T_ok t => Ok (from_le (hash256 s) <=? t)
  | B2T_value_error => Ok false
  | B2T_index_error => Err
  end.

(* HeadersMessage.is_valid; [last] = None | Some hash, "if last_block and ..." tests
   truthiness (a non-empty bytes object) *)
Fixpoint headers_valid_loop (hs : list header) (last : option bytes) : result bool :=
  match hs with
  | [] => Ok true
  | h :: r =>
      ok <- check_pow h ;;
      if negb ok then Ok false
      else
        let linked := match last with
                      | Some ((_ :: _) as lb) => beq (h_prev h) lb
                      | _ => true
                      end in
        if negb linked then Ok false
        else hh <- block_hash h ;; headers_valid_loop r (Some hh)
  end.
Definition headers_is_valid (hs : list header) : result bool := headers_valid_loop hs None.
End WithHash.
