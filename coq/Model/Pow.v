(* Model/Pow.v — mirrors buidl/helper.py bits_to_target, target_to_bits,
   calculate_new_bits; buidl/block.py hash, target, check_pow; buidl/network.py
   HeadersMessage.is_valid.  Definitions only.

   Python ints are unbounded; 256 ** (exponent - 3) with exponent < 3 is a FLOAT in
   Python.  [bits_to_target] returns a [pynum]: an int, or the float c / 256^k (exact:
   c < 2^24 scaled by a power of two).  Everything that needs an int target fails
   ([Err]) on a float exactly where Python raises (float has no to_bytes). *)
From V Require Import Base.Prelude Base.Ints Model.Helper Model.Block.

Definition TWO_WEEKS : Z := 60 * 60 * 24 * 14.
Definition MAX_TARGET : Z := 65535 * 256 ^ (29 - 3).

Inductive pynum := PInt (z : Z) | PFloat (num : Z) (k : Z).   (* PFloat c k = c / 256^k, k > 0 *)

(* helper.py bits_to_target; bits[-1] on b"" raises IndexError; any length is accepted *)
Definition bits_to_target (bits : bytes) : result pynum :=
  match rev bits with
  | [] => Err
  | exponent :: rc =>
      let coefficient := from_le (rev rc) in
      if 3 <=? exponent then Ok (PInt (coefficient * 256 ^ (exponent - 3)))
      else Ok (PFloat coefficient (3 - exponent))
  end.

(* int < pynum, exact as in Python's int/float comparison *)
Definition lt_pynum (a : Z) (t : pynum) : bool :=
  match t with
  | PInt z => a <? z
  | PFloat c k => a * 256 ^ k <? c
  end.

Fixpoint lstrip_zero (l : bytes) : bytes :=
  match l with
  | b :: r => if b =? 0 then lstrip_zero r else l
  | [] => []
  end.

(* helper.py target_to_bits *)
Definition target_to_bits (target : Z) : result bytes :=
  raw32 <- int_to_be target 32 ;;
  match lstrip_zero raw32 with
  | [] => Err                                           (* raw_bytes[0]: IndexError *)
  | (b0 :: _) as raw =>
      if 127 <? b0 then Ok (rev (0 :: firstn 2 raw) ++ [zlen raw + 1])
      else Ok (rev (firstn 3 raw) ++ [zlen raw])
  end.

(* helper.py calculate_new_bits *)
Definition calculate_new_bits (previous_bits : bytes) (time_differential : Z) : result bytes :=
  let td := if time_differential >? TWO_WEEKS * 4 then TWO_WEEKS * 4 else time_differential in
  let td := if td <? TWO_WEEKS / 4 then TWO_WEEKS / 4 else td in
  t <- bits_to_target previous_bits ;;
  match t with
  | PFloat _ _ => Err                                   (* float.to_bytes: AttributeError *)
  | PInt prev =>
      let new_target := prev * td / TWO_WEEKS in
      let new_target := if new_target >? MAX_TARGET then MAX_TARGET else new_target in
      target_to_bits new_target
  end.

Section WithHash.
Variable hash256 : bytes -> bytes.

(* Block.hash *)
Definition block_hash (h : header) : result bytes :=
  s <- serialize_header h ;; Ok (rev (hash256 s)).

(* Block.check_pow: proof < target *)
Definition check_pow (h : header) : result bool :=
  s <- serialize_header h ;;
  t <- bits_to_target (h_bits h) ;;
  Ok (lt_pynum (from_le (hash256 s)) t).

(* HeadersMessage.is_valid; [last] = None | Some hash, "if last_block and ..." tests
   truthiness (a non-empty bytes object) *)
Fixpoint headers_valid_loop (hs : list header) (last : option bytes) : result bool :=
  match hs with
  | [] => Ok true
  | h :: r =>
      ok <- check_pow h ;;
      if negb ok then Ok false
      else
        let linked := match last with
                      | Some ((_ :: _) as lb) => beq (h_prev h) lb
                      | _ => true
                      end in
        if negb linked then Ok false
        else hh <- block_hash h ;; headers_valid_loop r (Some hh)
  end.
Definition headers_is_valid (hs : list header) : result bool := headers_valid_loop hs None.
End WithHash.
