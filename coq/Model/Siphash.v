(* Model/Siphash.v — mirrors buidl/siphash.py (SipHash_2_4) on unbounded Z, with exactly
   the masks the Python code applies (the double round is written fused and only
   partially masked).  Definitions only. *)
From V Require Import Base.Prelude Base.Ints.

Definition M64 : Z := 18446744073709551615.        (* 0xFFFFFFFFFFFFFFFF *)
Definition M51 : Z := 2251799813685247.            (* 0x7FFFFFFFFFFFF *)
Definition M47 : Z := 140737488355327.             (* 0x7FFFFFFFFFFF *)
Definition M43 : Z := 8796093022207.               (* 0x7FFFFFFFFFF *)
Definition M32 : Z := 4294967295.                  (* 0xFFFFFFFF *)

Definition sipstate : Type := (Z * Z * Z * Z)%type.

(* _doublesipround(v, m) *)
Definition doublesipround (v : sipstate) (m : Z) : sipstate :=
  let '(a, b, c, d0) := v in
  let d := Z.lxor d0 m in
  let e := Z.land (a + b) M64 in
  let i := Z.lxor (Z.lor (Z.shiftl (Z.land b M51) 13) (Z.shiftr b 51)) e in
  let f := c + d in
  let j := Z.land (Z.lxor (Z.lor (Z.shiftl d 16) (Z.shiftr d 48)) f) M64 in
  let h := Z.land (f + i) M64 in
  let k := Z.lor (Z.shiftl e 32) (Z.shiftr e 32) + j in
  let l := Z.lxor (Z.lor (Z.shiftl (Z.land i M47) 17) (Z.shiftr i 47)) h in
  let o := Z.land (Z.lxor (Z.lor (Z.shiftl j 21) (Z.shiftr j 43)) k) M64 in
  let p := Z.land (k + l) M64 in
  let q := Z.lxor (Z.lor (Z.shiftl (Z.land l M51) 13) (Z.shiftr l 51)) p in
  let r := Z.lor (Z.shiftl h 32) (Z.shiftr h 32) + o in
  let s := Z.land (Z.lxor (Z.lor (Z.shiftl o 16) (Z.shiftr o 48)) r) M64 in
  let t := Z.land (r + q) M64 in
  let u := Z.land (Z.lor (Z.shiftl p 32) (Z.shiftr p 32) + s) M64 in
  (Z.lxor u m,
   Z.lxor (Z.lor (Z.shiftl (Z.land q M47) 17) (Z.shiftr q 47)) t,
   Z.lor (Z.shiftl (Z.land t M32) 32) (Z.shiftr t 32),
   Z.lxor (Z.lor (Z.shiftl (Z.land s M43) 21) (Z.shiftr s 43)) u).

(* object state: v, buffered partial block s (always < 8 bytes), byte counter b *)
Record sip := { sip_v : sipstate; sip_s : bytes; sip_b : Z }.

(* for off in range(0, lim, 8): v = _doublesipround(v, unpack("<Q", s[off:off+8]));
   returns the state and the unprocessed tail s[lim:] *)
Fixpoint sip_blocks (fuel : nat) (v : sipstate) (s : bytes) : sipstate * bytes :=
  match fuel with
  | O => (v, s)
  | S f => sip_blocks f (doublesipround v (from_le (firstn 8 s))) (skipn 8 s)
  end.

(* update(s) *)
Definition sip_update (st : sip) (s : bytes) : sip :=
  let s' := sip_s st ++ s in
  let nblk := Nat.div (length s') 8 in
  let '(v, tl) := sip_blocks nblk (sip_v st) s' in
  {| sip_v := v; sip_s := tl; sip_b := sip_b st + Z.of_nat (nblk * 8) |}.

(* __init__(secret, s=b""): struct "<QQ" needs exactly 16 bytes *)
Definition sip_init (secret : bytes) : result sip :=
  if Nat.eqb (length secret) 16 then
    let k0 := from_le (firstn 8 secret) in
    let k1 := from_le (skipn 8 secret) in
    Ok {| sip_v := (Z.lxor 8317987319222330741 k0,     (* 0x736F6D6570736575 *)
                    Z.lxor 7237128888997146477 k1,     (* 0x646F72616E646F6D *)
                    Z.lxor 7816392313619706465 k0,     (* 0x6C7967656E657261 *)
                    Z.lxor 8387220255154660723 k1);    (* 0x7465646279746573 *)
          sip_s := []; sip_b := 0 |}
  else Err.

(* hash() (the assert l < 8 always holds: update keeps fewer than 8 bytes) *)
Definition sip_hash (st : sip) : Z :=
  let l := zlen (sip_s st) in
  let b := Z.lor (Z.shiftl (Z.land (sip_b st + l) 255) 56)
                 (from_le (firstn 8 (sip_s st ++ repeatz 0 8))) in
  let '(v0, v1, v2, v3) := doublesipround (sip_v st) b in
  let '(w0, w1, w2, w3) :=
    doublesipround (doublesipround (v0, v1, Z.lxor v2 255, v3) 0) 0 in
  Z.lxor (Z.lxor (Z.lxor w0 w1) w2) w3.

(* SipHash_2_4(key).update(c1).update(c2)....hash() *)
Definition siphash_chunks (key : bytes) (chunks : list bytes) : result Z :=
  st <- sip_init key ;; Ok (sip_hash (fold_left sip_update chunks st)).

(* compactfilter._siphash(key, value) *)
Definition siphash (key value : bytes) : result Z := siphash_chunks key [value].

(* digest() = struct.pack("<Q", hash()) *)
Definition siphash_digest (key value : bytes) : result bytes :=
  h <- siphash key value ;; int_to_le h 8.

(* SipHash_2_4(secret, s): __init__ ends with self.update(s) *)
Definition sip_new (secret s : bytes) : result sip :=
  st <- sip_init secret ;; Ok (sip_update st s).

(* digest() on an object *)
Definition sip_digest (st : sip) : result bytes := int_to_le (sip_hash st) 8.

(* hexdigest() = binascii.hexlify(digest()): lower-case ASCII *)
Definition hexdigit (n : Z) : Z := if n <? 10 then 48 + n else 87 + n.
Definition hexlify (b : bytes) : bytes :=
  flat_map (fun x => [hexdigit (x / 16); hexdigit (x mod 16)]) b.
Definition siphash_hexdigest (key value : bytes) : result bytes :=
  d <- siphash_digest key value ;; Ok (hexlify d).
