(* Model/HdMemo.v — HDPublicKey.raw_serialize() with its memo field [_raw] (hd.py:650-655):

     if self._raw is None:
         self._raw = self._serialize(XPUB[self.network])
     return self._raw

   The constructor sets _raw = None.  A failed _serialize leaves it None (the exception is raised
   before the assignment).  The memo is NEVER invalidated: after an in-place change of a field of
   the object the old bytes keep being returned.  Definitions only. *)
From V Require Import Base.Prelude Base.Ints Model.Pecc Model.Hd.

(* one call: the object's current fields [k] and memo -> (what the call returns, the new memo) *)
Definition raw_serialize_memo (k : hdpub) (memo : option bytes) : result bytes * option bytes :=
  match memo with
  | Some r => (Ok r, memo)
  | None => match raw_serialize_pub k with
            | Ok r => (Ok r, Some r)
            | Err => (Err, None)
            end
  end.

(* a call history on ONE object whose fields are [k] at the successive calls (the caller may have
   assigned to attributes in between) *)
Fixpoint raw_serialize_history (memo : option bytes) (ks : list hdpub) : list (result bytes) :=
  match ks with
  | [] => []
  | k :: r => let '(out, memo') := raw_serialize_memo k memo in out :: raw_serialize_history memo' r
  end.
