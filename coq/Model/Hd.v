(* Model/Hd.v — mirrors buidl/hd.py (HDPrivateKey / HDPublicKey: from_seed, child, traverse,
   the 78-byte codec with the SLIP-132 version tables, fingerprint, is_valid_bip32_path,
   ltrim_path) and buidl/blinding.py (combine_bip32_paths, blind_xpub).  Definitions only.

   Conventions specific to this file
   * text (paths) is a [list Z] of code points; the model covers ASCII text (code points
     below 128): [str.lower] is A-Z -> a-z, [str.strip] strips 9..13, 28..32.  Python's
     lower()/strip()/int() also know non-ASCII letters, spaces and digits: outside the domain.
   * [py_int] models [int(s)] in base 10 for ASCII text: surrounding whitespace (the C isspace
     set 9..13, 32 — NOT 28..31, which str.strip() does strip), one optional
     sign, digits with single underscores between digits, and at most 4300 digit characters
     (CPython >= 3.11, sys.get_int_max_str_digits() = 4300: leading zeros count, underscores,
     sign and blanks do not; int("0" * 4301) raises ValueError) — [dig_lim].
   * HMAC-SHA512 and HASH160 are Section variables.
   * Base58Check (the xprv/xpub STRING) is not part of this file: the model works on the raw
     bytes that [raw_decode_base58] returns / [encode_base58_checksum] receives.
   * networks are numbered 0 mainnet, 1 testnet, 2 signet, 3 regtest; any other number is a
     KeyError in the XPRV/XPUB dictionaries. *)
From V Require Import Base.Prelude Base.Ints Model.Pecc Generated.HdVersions.

(* ------------------------------------------------------------------ text helpers *)
Definition lower_c (c : Z) : Z := if (65 <=? c) && (c <=? 90) then c + 32 else c.
Definition lower (s : list Z) : list Z := map lower_c s.
(* s.replace(a, b) for single characters *)
Definition repl_c (a b : Z) (s : list Z) : list Z := map (fun c => if c =? a then b else c) s.
Definition is_ws (c : Z) : bool := ((9 <=? c) && (c <=? 13)) || ((28 <=? c) && (c <=? 32)).
Fixpoint lstrip (s : list Z) : list Z :=
  match s with
  | c :: r => if is_ws c then lstrip r else s
  | [] => []
  end.
Definition strip (s : list Z) : list Z := rev (lstrip (rev (lstrip s))).
(* s.replace("//", "/"): non-overlapping, left to right *)
Fixpoint repl_dslash (s : list Z) : list Z :=
  match s with
  | a :: t =>
      match t with
      | b :: r => if (a =? 47) && (b =? 47) then 47 :: repl_dslash r else a :: repl_dslash t
      | [] => [a]
      end
  | [] => []
  end.
(* s.split(sep) for a single-character separator: never returns the empty list *)
Fixpoint split_on (sep : Z) (s : list Z) : list (list Z) :=
  match s with
  | [] => [[]]
  | x :: r =>
      if x =? sep then [] :: split_on sep r
      else match split_on sep r with
           | c :: cs => (x :: c) :: cs
           | [] => [[x]]
           end
  end.
Fixpoint join (sep : Z) (l : list (list Z)) : list Z :=
  match l with
  | [] => []
  | [a] => a
  | a :: r => a ++ sep :: join sep r
  end.
Fixpoint starts_with (pre s : list Z) : bool :=
  match pre, s with
  | [], _ => true
  | a :: p', b :: s' => (a =? b) && starts_with p' s'
  | _ :: _, [] => false
  end.
Definition ends_with_c (c : Z) (s : list Z) : bool :=
  match rev s with x :: _ => x =? c | [] => false end.
Fixpoint count_c (c : Z) (s : list Z) : Z :=
  match s with
  | [] => 0
  | x :: r => (if x =? c then 1 else 0) + count_c c r
  end.

(* int(s), base 10, ASCII *)
Definition is_digit (c : Z) : bool := (48 <=? c) && (c <=? 57).
Fixpoint dig_acc (acc : Z) (prevd : bool) (l : list Z) : result Z :=
  match l with
  | [] => if prevd then Ok acc else Err
  | c :: r =>
      if is_digit c then dig_acc (acc * 10 + (c - 48)) true r
      else if (c =? 95) && prevd then dig_acc acc false r
      else Err
  end.
(* CPython >= 3.11: more than 4300 digit characters (leading zeros included, underscores not)
   -> ValueError "Exceeds the limit (4300 digits) for integer string conversion" *)
Definition max_str_digits : Z := 4300.
Definition dig_lim (l : list Z) : result Z :=
  if max_str_digits <? zlen (filter is_digit l) then Err else dig_acc 0 false l.
(* int() skips C isspace() characters only (9..13 and 32), unlike str.strip() *)
Definition is_ws_int (c : Z) : bool := ((9 <=? c) && (c <=? 13)) || (c =? 32).
Fixpoint lstrip_int (s : list Z) : list Z :=
  match s with
  | c :: r => if is_ws_int c then lstrip_int r else s
  | [] => []
  end.
Definition strip_int (s : list Z) : list Z := rev (lstrip_int (rev (lstrip_int s))).
Definition py_int (s : list Z) : result Z :=
  match strip_int s with
  | [] => Err
  | c :: r =>
      if c =? 43 then dig_lim r
      else if c =? 45 then v <- dig_lim r ;; Ok (- v)
      else dig_lim (c :: r)
  end.

(* Python l[k:] *)
Definition slice_from {A} (k : Z) (l : list A) : list A :=
  if k <? 0 then skipn (Z.to_nat (Z.max 0 (zlen l + k))) l
  else if zlen l <=? k then [] else skipn (Z.to_nat k) l.

(* ------------------------------------------------------------------ paths *)
Definition hardened : Z := 2147483648.      (* 0x80000000 *)

(* path.lower().replace("h", "'") *)
Definition norm_trav (path : list Z) : list Z := repl_c 104 39 (lower path).

(* components of a path as both traverse methods see them: startswith("m"), split("/")[1:] *)
Definition path_components (path : list Z) : result (list (list Z)) :=
  let p := norm_trav path in
  if starts_with [109] p then Ok (tl (split_on 47 p)) else Err.

(* HDPrivateKey.traverse: index of one component *)
Definition comp_index_priv (c : list Z) : result Z :=
  if ends_with_c 39 c then v <- py_int (removelast c) ;; Ok (v + hardened) else py_int c.
(* HDPublicKey.traverse: a trailing ' is refused before int() *)
Definition comp_index_pub (c : list Z) : result Z :=
  if ends_with_c 39 c then Err else py_int c.

Fixpoint mapM {A B} (f : A -> result B) (l : list A) : result (list B) :=
  match l with
  | [] => Ok []
  | a :: r => b <- f a ;; t <- mapM f r ;; Ok (b :: t)
  end.

(* the index lists the two traverse methods walk (no key involved) *)
Definition path_indexes_priv (path : list Z) : result (list Z) :=
  cs <- path_components path ;; mapM comp_index_priv cs.
Definition path_indexes_pub (path : list Z) : result (list Z) :=
  cs <- path_components path ;; mapM comp_index_pub cs.

(* is_valid_bip32_path *)
Definition norm_valid (path : list Z) : list Z :=
  repl_dslash (repl_c 39 104 (strip (lower path))).
Definition valid_sub (c : list Z) : bool :=
  let c' := if ends_with_c 104 c then removelast c else c in
  match py_int c' with
  | Ok v => (0 <=? v) && (v <? hardened)
  | Err => false
  end.
Definition is_valid_path (path : list Z) : bool :=
  let p := norm_valid path in
  if beq p [109] then true
  else if negb (starts_with [109; 47] p) then false
  else
    let subs := split_on 47 (skipn 2 p) in
    if 256 <=? zlen subs then false else forallb valid_sub subs.

(* blinding.combine_bip32_paths *)
Definition combine_paths (a b : list Z) : result (list Z) :=
  if negb (is_valid_path a) then Err
  else if negb (is_valid_path b) then Err
  else
    let a' := norm_valid a in
    let b' := norm_valid b in
    if beq a' [109] then Ok b'
    else if beq b' [109] then Ok a'
    else Ok (a' ++ 47 :: skipn 2 b').

(* hd.ltrim_path *)
Definition ltrim_path (path : list Z) (depth : Z) : result (list Z) :=
  if negb (is_valid_path path) then Err
  else
    let p := norm_valid path in
    if count_c 47 p <? depth then Err
    else Ok ([109; 47] ++ join 47 (slice_from (depth + 1) (split_on 47 p))).

(* ------------------------------------------------------------------ keys *)
Definition bitcoin_seed : bytes := [66;105;116;99;111;105;110;32;115;101;101;100].

Definition tbl_get (tbl : list bytes) (net : Z) : result bytes :=
  if (net <? 0) || (4 <=? net) then Err
  else match nth_error tbl (Z.to_nat net) with Some v => Ok v | None => Err end.
Definition mem_bytes (v : bytes) (tbl : list bytes) : bool := existsb (beq v) tbl.

(* helper.int_to_byte *)
Definition int_to_byte (n : Z) : result bytes :=
  if (255 <? n) || (n <? 0) then Err else Ok [n].
(* helper.byte_to_int: b[0] *)
Definition byte_to_int (b : bytes) : result Z :=
  match b with x :: _ => Ok x | [] => Err end.

Record hdpriv := {
  sk : Z;              (* private_key.secret *)
  sk_pt : point;       (* private_key.point *)
  sk_cc : bytes;
  sk_depth : Z;
  sk_pfp : bytes;
  sk_num : Z;
  sk_net : Z;
  sk_ver : bytes;      (* priv_version *)
  sk_pubver : bytes    (* pub.pub_version *)
}.
Record hdpub := {
  pk : point;
  pk_cc : bytes;
  pk_depth : Z;
  pk_pfp : bytes;
  pk_num : Z;
  pk_net : Z;
  pk_ver : bytes       (* pub_version *)
}.

(* HDPrivateKey.pub *)
Definition pub_of (k : hdpriv) : hdpub :=
  {| pk := sk_pt k; pk_cc := sk_cc k; pk_depth := sk_depth k; pk_pfp := sk_pfp k;
     pk_num := sk_num k; pk_net := sk_net k; pk_ver := sk_pubver k |}.

Section Hd.
Variable C : curve.
Variable hmac512 : bytes -> bytes -> bytes.
Variable hash160 : bytes -> bytes.
Let n := cn C.

(* HDPublicKey.__init__ *)
Definition mk_pub (P : point) (cc : bytes) (depth : Z) (pfp : bytes) (num net : Z)
           (pubver : option bytes) : result hdpub :=
  pv <- match pubver with Some v => Ok v | None => tbl_get tbl_xpub net end ;;
  Ok {| pk := P; pk_cc := cc; pk_depth := depth; pk_pfp := pfp; pk_num := num; pk_net := net;
        pk_ver := pv |}.

(* PrivateKey(secret) followed by HDPrivateKey.__init__ *)
Definition mk_priv (secret : Z) (cc : bytes) (depth : Z) (pfp : bytes) (num net : Z)
           (ver pubver : option bytes) : result hdpriv :=
  P <- pubkey C secret ;;
  v <- match ver with Some v => Ok v | None => tbl_get tbl_xprv net end ;;
  pv <- match pubver with Some v => Ok v | None => tbl_get tbl_xpub net end ;;
  Ok {| sk := secret; sk_pt := P; sk_cc := cc; sk_depth := depth; sk_pfp := pfp; sk_num := num;
        sk_net := net; sk_ver := v; sk_pubver := pv |}.

(* HDPrivateKey.from_seed *)
Definition from_seed (seed : bytes) (net : Z) (ver pubver : option bytes) : result hdpriv :=
  let h := hmac512 bitcoin_seed seed in
  mk_priv (from_be (firstn 32 h)) (skipn 32 h) 0 [0;0;0;0] 0 net ver pubver.

(* HDPublicKey.fingerprint: hash160(sec)[:4] *)
Definition fingerprint_pt (P : point) : result bytes :=
  s <- sec P true ;; Ok (firstn 4 (hash160 s)).

(* HDPrivateKey.child.  NOTE: no "IL >= n" test and no "next index" rule; a child secret
   of 0 makes PrivateKey() raise. *)
Definition child_priv (k : hdpriv) (index : Z) : result hdpriv :=
  if index <? 0 then Err
  else
    data <- (if hardened <=? index then
               a <- int_to_be (sk k) 33 ;; b <- int_to_be index 4 ;; Ok (a ++ b)
             else
               s <- sec (sk_pt k) true ;; b <- int_to_be index 4 ;; Ok (s ++ b)) ;;
    let h := hmac512 (sk_cc k) data in
    let secret := (from_be (firstn 32 h) + sk k) mod n in
    P <- pubkey C secret ;;
    fp <- fingerprint_pt (sk_pt k) ;;
    Ok {| sk := secret; sk_pt := P; sk_cc := skipn 32 h; sk_depth := sk_depth k + 1;
          sk_pfp := fp; sk_num := index; sk_net := sk_net k; sk_ver := sk_ver k;
          sk_pubver := sk_pubver k |}.

(* HDPublicKey.child *)
Definition child_pub (k : hdpub) (index : Z) : result hdpub :=
  if hardened <=? index then Err
  else if index <? 0 then Err
  else
    s <- sec (pk k) true ;;
    b <- int_to_be index 4 ;;
    let h := hmac512 (pk_cc k) (s ++ b) in
    P <- padd_int C (pk k) (from_be (firstn 32 h)) ;;
    fp <- fingerprint_pt (pk k) ;;
    Ok {| pk := P; pk_cc := skipn 32 h; pk_depth := pk_depth k + 1; pk_pfp := fp;
          pk_num := index; pk_net := pk_net k; pk_ver := pk_ver k |}.

(* index-list derivation *)
Fixpoint derive_priv (k : hdpriv) (idxs : list Z) : result hdpriv :=
  match idxs with
  | [] => Ok k
  | i :: r => k' <- child_priv k i ;; derive_priv k' r
  end.
Fixpoint derive_pub (k : hdpub) (idxs : list Z) : result hdpub :=
  match idxs with
  | [] => Ok k
  | i :: r => k' <- child_pub k i ;; derive_pub k' r
  end.

(* the loops of the two traverse methods: component parsing and derivation interleaved *)
Fixpoint trav_priv_loop (k : hdpriv) (cs : list (list Z)) : result hdpriv :=
  match cs with
  | [] => Ok k
  | c :: r => i <- comp_index_priv c ;; k' <- child_priv k i ;; trav_priv_loop k' r
  end.
Fixpoint trav_pub_loop (k : hdpub) (cs : list (list Z)) : result hdpub :=
  match cs with
  | [] => Ok k
  | c :: r => i <- comp_index_pub c ;; k' <- child_pub k i ;; trav_pub_loop k' r
  end.
Definition traverse_priv (k : hdpriv) (path : list Z) : result hdpriv :=
  cs <- path_components path ;; trav_priv_loop k cs.
Definition traverse_pub (k : hdpub) (path : list Z) : result hdpub :=
  cs <- path_components path ;; trav_pub_loop k cs.

(* ---------------- the 78-byte codec ---------------- *)
(* HDPrivateKey.raw_serialize(version) *)
Definition ser_priv (k : hdpriv) (ver : bytes) : result bytes :=
  d <- int_to_byte (sk_depth k) ;;
  c <- int_to_be (sk_num k) 4 ;;
  s <- int_to_be (sk k) 33 ;;
  Ok (ver ++ d ++ sk_pfp k ++ c ++ sk_cc k ++ s).
(* HDPrivateKey.xprv(version) before Base58Check *)
Definition xprv_raw (k : hdpriv) (ver : option bytes) : result bytes :=
  ser_priv k (match ver with Some v => v | None => sk_ver k end).

(* HDPublicKey._serialize(version) *)
Definition ser_pub (k : hdpub) (ver : bytes) : result bytes :=
  d <- int_to_byte (pk_depth k) ;;
  c <- int_to_be (pk_num k) 4 ;;
  s <- sec (pk k) true ;;
  Ok (ver ++ d ++ pk_pfp k ++ c ++ pk_cc k ++ s).
(* HDPublicKey.xpub(version) before Base58Check *)
Definition xpub_raw (k : hdpub) (ver : option bytes) : result bytes :=
  ser_pub k (match ver with Some v => v | None => pk_ver k end).
(* HDPublicKey.raw_serialize(): always the DEFAULT version of the network *)
Definition raw_serialize_pub (k : hdpub) : result bytes :=
  v <- tbl_get tbl_xpub (pk_net k) ;; ser_pub k v.

(* HDPrivateKey.raw_parse(stream, network) *)
Definition raw_parse_priv (s : bytes) (net : option Z) : result hdpriv :=
  let '(ver, s1) := read 4 s in
  net' <- (if mem_bytes ver all_testnet_xprvs then Ok (match net with Some x => x | None => 1 end)
           else if mem_bytes ver all_mainnet_xprvs then Ok 0
           else Err) ;;
  let '(d, s2) := read 1 s1 in
  depth <- byte_to_int d ;;
  let '(pfp, s3) := read 4 s2 in
  let '(cnb, s4) := read 4 s3 in
  let '(cc, s5) := read 32 s4 in
  let '(z, s6) := read 1 s5 in
  zb <- byte_to_int z ;;
  if negb (zb =? 0) then Err
  else
    let '(kb, _) := read 32 s6 in
    mk_priv (from_be kb) cc depth pfp (from_be cnb) net' (Some ver) None.

(* HDPrivateKey.parse after raw_decode_base58 *)
Definition parse_priv (raw : bytes) : result hdpriv :=
  if negb (length raw =? 78)%nat then Err else raw_parse_priv raw None.

(* HDPublicKey.raw_parse(stream, network) *)
Definition raw_parse_pub (s : bytes) (net : option Z) : result hdpub :=
  let '(ver, s1) := read 4 s in
  net' <- (if mem_bytes ver all_testnet_xpubs then Ok (match net with Some x => x | None => 1 end)
           else if mem_bytes ver all_mainnet_xpubs then Ok 0
           else Err) ;;
  let '(d, s2) := read 1 s1 in
  depth <- byte_to_int d ;;
  let '(pfp, s3) := read 4 s2 in
  let '(cnb, s4) := read 4 s3 in
  let '(cc, s5) := read 32 s4 in
  let '(pb, _) := read 33 s5 in
  P <- parse_point C pb ;;
  mk_pub P cc depth pfp (from_be cnb) net' (Some ver).

Definition parse_pub (raw : bytes) : result hdpub :=
  if negb (length raw =? 78)%nat then Err else raw_parse_pub raw None.

(* ---------------- blinding.blind_xpub (on the raw 78 bytes of both xpubs) ---------------- *)
Definition blind_xpub (raw : bytes) (starting_path secret_path : list Z)
  : result (bytes * list Z) :=
  k <- parse_pub raw ;;
  if negb (pk_depth k =? count_c 47 starting_path) then Err
  else
    c <- traverse_pub k secret_path ;;
    x <- xpub_raw c None ;;
    full <- combine_paths starting_path secret_path ;;
    Ok (x, full).

End Hd.
