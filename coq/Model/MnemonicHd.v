(* Model/MnemonicHd.v — the outermost entry points of C14, as a user calls them:

     HDPrivateKey.from_mnemonic(mnemonic, password, path, network, priv_version, pub_version)
     HDPrivateKey.from_mnemonic(...).xprv() / .xpub()
     HDPrivateKey.generate(password, extra_entropy, network, priv_version, pub_version)

   i.e. buidl/hd.py from_mnemonic in full: checksum validation, normalisation, the KDF of
   Model/Pbkdf2.v, then HDPrivateKey.from_seed and traverse(path) of the BIP32 model of C08
   (Model/Hd.v, used as it is) and the Base58Check string of Model/HdStr.v.  Definitions only. *)
From V Require Import Base.Prelude Base.Ints Model.Pecc Model.Base58 Model.Hd Model.HdStr.
From V Require Model.Mnemonic Model.Pbkdf2.

Section MnemonicHd.
  Variable C : curve.
  Variable sha256 : bytes -> bytes.
  Variable hmac512 : bytes -> bytes -> bytes.
  Variable hash160 : bytes -> bytes.
  Variable hash256 : bytes -> bytes.
  Variable words : list (list Z).

  Definition hd_from_mnemonic (m : list Z) (password : bytes) (path : list Z) (net : Z)
             (ver pubver : option bytes) : result hdpriv :=
    seed <- Pbkdf2.mnemonic_seed sha256 hmac512 words m password ;;
    root <- Hd.from_seed C hmac512 seed net ver pubver ;;
    traverse_priv C hmac512 hash160 root path.

  (* what the observation point of the property shows: the key and its two strings *)
  Definition hd_from_mnemonic_strings (m : list Z) (password : bytes) (path : list Z) (net : Z)
             (ver pubver : option bytes) : result (hdpriv * list Z * list Z) :=
    k <- hd_from_mnemonic m password path net ver pubver ;;
    xprv <- xprv_str hash256 k None ;;
    xpub <- xpub_str hash256 (pub_of k) None ;;
    Ok (k, xprv, xpub).

  (* generate(): secure_mnemonic(extra_entropy=...) with the default 256 bits, then
     from_mnemonic with the default path "m"; randbits and the clock are inputs *)
  Definition hd_generate (password : bytes) (extra rnd t : Z) (net : Z) (ver pubver : option bytes)
    : result (list Z * hdpriv) :=
    m <- Mnemonic.secure_mnemonic sha256 words 256 extra rnd t ;;
    k <- hd_from_mnemonic m password [109] net ver pubver ;;
    Ok (m, k).
End MnemonicHd.
