(* Model/OpMode.v — the FAILURE MODE of the op code functions of buidl/op.py and of
   Script.evaluate (buidl/script.py): a second, finer mirror of the same Python code in which
   "the function returns False" ([MFalse]) and "the function raises" ([MRaise e]) are different
   results (Model/Op.v maps both to [Err]).  Definitions only; Proofs/OpModeP.v proves that this
   model collapses to Model/Op.v / Model/Interp.v and says exactly where it raises.

   The Python functions first test a guard ([len(stack) < k] -> return False) and then access the
   list; the accesses are modelled by the primitives below, which raise IndexError exactly where
   the Python list operation does, INDEPENDENTLY of the guard.  That the guards make the accesses
   safe is a theorem, not part of the model.

   Stacks are lists with the TOP FIRST (Model/Op.v). *)
From V Require Import Base.Prelude Base.Ints Model.Script Model.Op Model.Interp.

Inductive exn : Type :=
| EKey        (* KeyError: op_lookup[command] for a command that is not in the table *)
| EIndex      (* IndexError: pop from an empty list / index out of range *)
| EValue      (* ValueError: Locktime(n) / Sequence(n) out of range, `<` on incomparable lock times *)
| ESigOp.     (* a signature op code (172-175): its failure mode is not modelled here (C06) *)

Inductive mres (A : Type) : Type :=
| MOk (a : A)
| MFalse               (* the op code function returns False *)
| MRaise (e : exn).    (* the op code function raises *)
Arguments MOk {A} a.
Arguments MFalse {A}.
Arguments MRaise {A} e.

Definition mbind {A B} (r : mres A) (f : A -> mres B) : mres B :=
  match r with MOk a => f a | MFalse => MFalse | MRaise e => MRaise e end.
Notation "x <~ e ;; f" := (mbind e (fun x => f))
  (at level 61, e at next level, right associativity).
Notation "' p <~ e ;; f" := (mbind e (fun x => let p := x in f))
  (at level 61, p pattern, e at next level, right associativity).

(* ------------------------------------------------------------------ Python list primitives *)

(* stack.pop() *)
Definition m_pop (s : stack) : mres (bytes * stack) :=
  match s with [] => MRaise EIndex | x :: r => MOk (x, r) end.

(* stack[i] for a NEGATIVE literal or computed index i = -k-1 (k >= 0 counts from the top) and
   for a non-negative one (counts from the bottom) *)
Definition m_index (s : stack) (i : Z) : mres bytes :=
  let pos := if i <? 0 then nth_error s (Z.to_nat (- i - 1)) else nth_error (rev s) (Z.to_nat i) in
  if (i <? - zlen s) || (zlen s <=? i) then MRaise EIndex
  else match pos with Some x => MOk x | None => MRaise EIndex end.

(* stack.pop(i), same index convention; the list without that element *)
Definition m_pop_at (s : stack) (i : Z) : mres (bytes * stack) :=
  if (i <? - zlen s) || (zlen s <=? i) then MRaise EIndex
  else if i <? 0
       then match nth_error s (Z.to_nat (- i - 1)) with
            | Some x => MOk (x, remove_nth (Z.to_nat (- i - 1)) s)
            | None => MRaise EIndex
            end
       else match nth_error (rev s) (Z.to_nat i) with
            | Some x => MOk (x, rev (remove_nth (Z.to_nat i) (rev s)))
            | None => MRaise EIndex
            end.

(* slices never raise: stack[-k:] = the top k items (fewer when the stack is shorter),
   stack[-k:-j] = the items k-1 .. j from the top *)
Definition top_slice (k : nat) (s : stack) : stack := firstn k s.
Definition mid_slice (k j : nat) (s : stack) : stack := firstn (k - j) (skipn j s).

(* stack.insert(-2, x): before the second item from the top; at the bottom of a shorter list *)
Definition insert_m2 (x : bytes) (s : stack) : stack :=
  match s with a :: b :: r => a :: b :: x :: r | _ => s ++ [x] end.

(* ------------------------------------------------------------------ plain op codes *)

Definition guard {A} (short : bool) (k : mres A) : mres A := if short then MFalse else k.

Definition m_push_num (n : Z) (s : stack) : mres stack := MOk (encode_num n :: s).
Definition m_nop (s : stack) : mres stack := MOk s.

Definition m_verify (s : stack) : mres stack :=
  guard (zlen s <? 1) ('(e, r) <~ m_pop s ;; if decode_num e =? 0 then MFalse else MOk r).
Definition m_return (s : stack) : mres stack := MFalse.

Definition m_toaltstack (s a : stack) : mres (stack * stack) :=
  guard (zlen s <? 1) ('(e, r) <~ m_pop s ;; MOk (r, e :: a)).
Definition m_fromaltstack (s a : stack) : mres (stack * stack) :=
  guard (zlen a <? 1) ('(e, r) <~ m_pop a ;; MOk (e :: s, r)).

Definition m_2drop (s : stack) : mres stack :=
  guard (zlen s <? 2) ('(_, r) <~ m_pop s ;; '(_, r') <~ m_pop r ;; MOk r').
Definition m_2dup (s : stack) : mres stack := guard (zlen s <? 2) (MOk (top_slice 2 s ++ s)).
Definition m_3dup (s : stack) : mres stack := guard (zlen s <? 3) (MOk (top_slice 3 s ++ s)).
Definition m_2over (s : stack) : mres stack := guard (zlen s <? 4) (MOk (mid_slice 4 2 s ++ s)).
Definition m_2rot (s : stack) : mres stack := guard (zlen s <? 6) (MOk (mid_slice 6 4 s ++ s)).
(* stack[-4:] = stack[-2:] + stack[-4:-2] *)
Definition m_2swap (s : stack) : mres stack :=
  guard (zlen s <? 4) (MOk (mid_slice 4 2 s ++ top_slice 2 s ++ skipn 4 s)).
Definition m_ifdup (s : stack) : mres stack :=
  guard (zlen s <? 1)
    (e <~ m_index s (-1) ;;
     if negb (decode_num e =? 0) then (e' <~ m_index s (-1) ;; MOk (e' :: s)) else MOk s).
Definition m_depth (s : stack) : mres stack := MOk (encode_num (zlen s) :: s).
Definition m_drop (s : stack) : mres stack := guard (zlen s <? 1) ('(_, r) <~ m_pop s ;; MOk r).
Definition m_dup (s : stack) : mres stack := guard (zlen s <? 1) (e <~ m_index s (-1) ;; MOk (e :: s)).
(* stack[-2:] = stack[-1:] *)
Definition m_nip (s : stack) : mres stack := guard (zlen s <? 2) (MOk (top_slice 1 s ++ skipn 2 s)).
Definition m_over (s : stack) : mres stack := guard (zlen s <? 2) (e <~ m_index s (-2) ;; MOk (e :: s)).

Definition m_pick (s : stack) : mres stack :=
  guard (zlen s <? 1)
    ('(e, r) <~ m_pop s ;;
     let n := decode_num e in
     if (n <? 0) || (zlen r <? n + 1) then MFalse
     else x <~ m_index r (- n - 1) ;; MOk (x :: r)).
Definition m_roll (s : stack) : mres stack :=
  guard (zlen s <? 1)
    ('(e, r) <~ m_pop s ;;
     let n := decode_num e in
     if (n <? 0) || (zlen r <? n + 1) then MFalse
     else if n =? 0 then MOk r
     else '(x, r') <~ m_pop_at r (- n - 1) ;; MOk (x :: r')).
Definition m_rot (s : stack) : mres stack :=
  guard (zlen s <? 3) ('(x, r) <~ m_pop_at s (-3) ;; MOk (x :: r)).
Definition m_swap (s : stack) : mres stack :=
  guard (zlen s <? 2) ('(x, r) <~ m_pop_at s (-2) ;; MOk (x :: r)).
Definition m_tuck (s : stack) : mres stack :=
  guard (zlen s <? 2) (e <~ m_index s (-1) ;; MOk (insert_m2 e s)).
Definition m_size (s : stack) : mres stack :=
  guard (zlen s <? 1) (e <~ m_index s (-1) ;; MOk (encode_num (zlen e) :: s)).

Definition m_equal (s : stack) : mres stack :=
  guard (zlen s <? 2) ('(a, r) <~ m_pop s ;; '(b, r') <~ m_pop r ;; MOk (enc_bool (beq a b) :: r')).
(* `f(stack) and g(stack)` *)
Definition m_and (f g : stack -> mres stack) (s : stack) : mres stack := s' <~ f s ;; g s'.
Definition m_equalverify := m_and m_equal m_verify.

Definition m_un (f : Z -> Z) (s : stack) : mres stack :=
  guard (zlen s <? 1) ('(e, r) <~ m_pop s ;; MOk (encode_num (f (decode_num e)) :: r)).
Definition m_bin (f : Z -> Z -> Z) (s : stack) : mres stack :=
  guard (zlen s <? 2)
    ('(e1, r) <~ m_pop s ;; '(e2, r') <~ m_pop r ;; MOk (encode_num (f (decode_num e1) (decode_num e2)) :: r')).
Definition m_within (s : stack) : mres stack :=
  guard (zlen s <? 3)
    ('(mx, r) <~ m_pop s ;; '(mn, r1) <~ m_pop r ;; '(el, r2) <~ m_pop r1 ;;
     MOk (enc_bool ((decode_num el >=? decode_num mn) && (decode_num el <? decode_num mx)) :: r2)).
Definition m_hash (h : bytes -> bytes) (s : stack) : mres stack :=
  guard (zlen s <? 1) ('(e, r) <~ m_pop s ;; MOk (h e :: r)).

(* ------------------------------------------------------------------ OP_IF / OP_NOTIF *)

(* if len(stack) < 1: return False; <scan>; if not found: return False; element = stack.pop() *)
Definition m_if_gen (neg : bool) (s : stack) (items : list cmd) : mres (stack * list cmd) :=
  guard (zlen s <? 1)
    match if_scan items O true [] [] with
    | None => MFalse
    | Some (t, f, rest) =>
        '(e, r) <~ m_pop s ;;
        MOk (r, (if xorb (decode_num e =? 0) neg then f else t) ++ rest)
    end.

(* ------------------------------------------------------------------ time locks *)

(* Locktime(n) / Sequence(n): ValueError outside 0 .. 2^32-1 *)
Definition m_u32 (n : Z) : mres Z := if (n <? 0) || (n >? MAX_LOCKTIME) then MRaise EValue else MOk n.

(* Locktime.__lt__ / Sequence.__lt__ between two objects of the class: ValueError when not comparable *)
Definition m_locktime_lt (a b : Z) : mres bool :=
  if lt_comparable a b then MOk (a <? b) else MRaise EValue.
Definition m_sequence_lt (a b : Z) : mres bool :=
  if sq_comparable a b then MOk (Z.land a SEQ_MASK <? Z.land b SEQ_MASK) else MRaise EValue.

Definition m_checklocktimeverify (c : txctx) (s : stack) : mres stack :=
  if t_sequence c =? MAX_SEQUENCE then MFalse
  else guard (zlen s <? 1)
    (e <~ m_index s (-1) ;;
     if (5 <? length e)%nat then MFalse else
     let element := decode_num e in
     if element <? 0 then MFalse
     else sl <~ m_u32 element ;;
          if negb (lt_comparable (t_locktime c) sl) then MFalse
          else lt <~ m_locktime_lt (t_locktime c) sl ;; if lt then MFalse else MOk s).

Definition m_checksequenceverify (c : txctx) (s : stack) : mres stack :=
  guard (zlen s <? 1)
    (e <~ m_index s (-1) ;;
     if (5 <? length e)%nat then MFalse else
     let element := decode_num e in
     if element <? 0 then MFalse
     else if negb (Z.land element SEQ_DISABLE =? 0) then MOk s
     else if negb (sq_relative (t_sequence c)) then MFalse
     else if t_version c <? 2 then MFalse
     else sq <~ m_u32 element ;;
          if negb (sq_comparable (t_sequence c) sq) then MFalse
          else lt <~ m_sequence_lt (t_sequence c) sq ;; if lt then MFalse else MOk s).

(* ------------------------------------------------------------------ OP_CODE_FUNCTIONS *)

Inductive mopfn : Type :=
| GStack (f : stack -> mres stack)
| GIf (neg : bool)
| GAlt (f : stack -> stack -> mres (stack * stack))
| GTx (f : txctx -> stack -> mres stack).

Section Table.
  Variables ripemd160 sha1 sha256 hash160 hash256 : bytes -> bytes.

  (* None = KeyError.  The signature op codes are in the table; their results are C06's. *)
  Definition m_functions (o : Z) : option mopfn :=
    if (172 <=? o) && (o <=? 175) then Some (GTx (fun _ _ => MRaise ESigOp))
    else if o =? 0 then Some (GStack (m_push_num 0))
    else if o =? 79 then Some (GStack (m_push_num (-1)))
    else if (81 <=? o) && (o <=? 96) then Some (GStack (m_push_num (o - 80)))
    else if o =? 97 then Some (GStack m_nop)
    else if o =? 99 then Some (GIf false)
    else if o =? 100 then Some (GIf true)
    else if o =? 105 then Some (GStack m_verify)
    else if o =? 106 then Some (GStack m_return)
    else if o =? 107 then Some (GAlt m_toaltstack)
    else if o =? 108 then Some (GAlt m_fromaltstack)
    else if o =? 109 then Some (GStack m_2drop)
    else if o =? 110 then Some (GStack m_2dup)
    else if o =? 111 then Some (GStack m_3dup)
    else if o =? 112 then Some (GStack m_2over)
    else if o =? 113 then Some (GStack m_2rot)
    else if o =? 114 then Some (GStack m_2swap)
    else if o =? 115 then Some (GStack m_ifdup)
    else if o =? 116 then Some (GStack m_depth)
    else if o =? 117 then Some (GStack m_drop)
    else if o =? 118 then Some (GStack m_dup)
    else if o =? 119 then Some (GStack m_nip)
    else if o =? 120 then Some (GStack m_over)
    else if o =? 121 then Some (GStack m_pick)
    else if o =? 122 then Some (GStack m_roll)
    else if o =? 123 then Some (GStack m_rot)
    else if o =? 124 then Some (GStack m_swap)
    else if o =? 125 then Some (GStack m_tuck)
    else if o =? 130 then Some (GStack m_size)
    else if o =? 135 then Some (GStack m_equal)
    else if o =? 136 then Some (GStack m_equalverify)
    else if o =? 139 then Some (GStack (m_un (fun x => x + 1)))
    else if o =? 140 then Some (GStack (m_un (fun x => x - 1)))
    else if o =? 143 then Some (GStack (m_un (fun x => - x)))
    else if o =? 144 then Some (GStack (m_un (fun x => if x <? 0 then - x else x)))
    else if o =? 145 then Some (GStack (m_un (fun x => if x =? 0 then 1 else 0)))
    else if o =? 146 then Some (GStack (m_un (fun x => if x =? 0 then 0 else 1)))
    else if o =? 147 then Some (GStack (m_bin (fun e1 e2 => e1 + e2)))
    else if o =? 148 then Some (GStack (m_bin (fun e1 e2 => e2 - e1)))
    else if o =? 154 then Some (GStack (m_bin (fun e1 e2 => b2z (negb (e1 =? 0) && negb (e2 =? 0)))))
    else if o =? 155 then Some (GStack (m_bin (fun e1 e2 => b2z (negb (e1 =? 0) || negb (e2 =? 0)))))
    else if o =? 156 then Some (GStack (m_bin (fun e1 e2 => b2z (e1 =? e2))))
    else if o =? 157 then Some (GStack (m_and (m_bin (fun e1 e2 => b2z (e1 =? e2))) m_verify))
    else if o =? 158 then Some (GStack (m_bin (fun e1 e2 => b2z (negb (e1 =? e2)))))
    else if o =? 159 then Some (GStack (m_bin (fun e1 e2 => b2z (e2 <? e1))))
    else if o =? 160 then Some (GStack (m_bin (fun e1 e2 => b2z (e2 >? e1))))
    else if o =? 161 then Some (GStack (m_bin (fun e1 e2 => b2z (e2 <=? e1))))
    else if o =? 162 then Some (GStack (m_bin (fun e1 e2 => b2z (e2 >=? e1))))
    else if o =? 163 then Some (GStack (m_bin (fun e1 e2 => if e1 <? e2 then e1 else e2)))
    else if o =? 164 then Some (GStack (m_bin (fun e1 e2 => if e1 >? e2 then e1 else e2)))
    else if o =? 165 then Some (GStack m_within)
    else if o =? 166 then Some (GStack (m_hash ripemd160))
    else if o =? 167 then Some (GStack (m_hash sha1))
    else if o =? 168 then Some (GStack (m_hash sha256))
    else if o =? 169 then Some (GStack (m_hash hash160))
    else if o =? 170 then Some (GStack (m_hash hash256))
    else if o =? 176 then Some (GStack m_nop)
    else if o =? 177 then Some (GTx m_checklocktimeverify)
    else if o =? 178 then Some (GTx m_checksequenceverify)
    else if (179 <=? o) && (o <=? 185) then Some (GStack m_nop)
    else None.
End Table.

(* ------------------------------------------------------------------ Script.evaluate *)

(* True / False / an exception escapes / a P2SH or witness special case is entered *)
Inductive xoutcome : Type := XTrue | XFalse | XRaise (e : exn) | XSpecial.

Definition m_final_test (s : stack) : xoutcome :=
  if zlen s =? 0 then XFalse
  else match m_pop s with
       | MOk (e, _) => if decode_num e =? 0 then XFalse else XTrue
       | MFalse => XFalse
       | MRaise e => XRaise e
       end.

Section Eval.
  Variable table : Z -> option mopfn.
  Variable c : txctx.
  Variables allow_p2sh allow_witness : bool.

  Definition m_exec_op (o : Z) (rest : list cmd) (s a : stack) : mres (list cmd * stack * stack) :=
    match table o with
    | None => MRaise EKey
    | Some (GIf neg) => '(s', rest') <~ m_if_gen neg s rest ;; MOk (rest', s', a)
    | Some (GAlt f) => '(s', a') <~ f s a ;; MOk (rest, s', a')
    | Some (GTx f) => s' <~ f c s ;; MOk (rest, s', a)
    | Some (GStack f) => s' <~ f s ;; MOk (rest, s', a)
    end.

  Fixpoint m_eval_loop (fuel : nat) (cmds : list cmd) (s a : stack) : xoutcome :=
    match cmds with
    | [] => m_final_test s
    | cm :: rest =>
        match fuel with
        | O => XFalse
        | S f =>
            match cm with
            | Op o =>
                match m_exec_op o rest s a with
                | MOk (rest', s', a') => m_eval_loop f rest' s' a'
                | MFalse => XFalse                         (* if not operation(...): return False *)
                | MRaise e => XRaise e
                end
            | Push b =>
                let s' := b :: s in
                if special_after_push allow_p2sh allow_witness rest s' then XSpecial
                else m_eval_loop f rest s' a
            end
        end
    end.

  Definition m_evaluate (cmds : list cmd) : xoutcome := m_eval_loop (length cmds) cmds [] [].
End Eval.

(* forgetting the failure mode *)
Definition collapse {A} (r : mres A) : result A :=
  match r with MOk a => Ok a | MFalse => Err | MRaise _ => Err end.
Definition xcollapse (x : xoutcome) : outcome :=
  match x with XTrue => OTrue | XFalse => OFalse | XRaise _ => OFalse | XSpecial => OSpecial end.
