(* Model/TxStream.v — positional model of io.BytesIO for the one place of the transaction codec
   that is not a forward-only reader: Tx.parse (buidl/tx.py:169) sniffs byte 5 with
   s.read(4); s.read(1) and then steps BACK with s.seek(-5, 1).  Everything else in the codec
   only calls read(n), so it is a function of the bytes that are left ([st_run]).
   Also: several transactions back to back in one stream, Tx.parse_hex, Tx.clone,
   Script.parse_hex / __add__ / __eq__.  Definitions only. *)
From V Require Import Base.Prelude Base.Ints Model.Helper Model.Script Model.Tx Model.Fetcher.

(* a BytesIO: the whole buffer and the current position *)
Record stream := { st_data : bytes; st_pos : nat }.

(* what read() would return *)
Definition st_rest (st : stream) : bytes := skipn (st_pos st) (st_data st).

(* BytesIO.read(n): at most n bytes, the position advances by what was actually read
   (a position beyond the end of the buffer stays where it is) *)
Definition st_read (n : nat) (st : stream) : bytes * stream :=
  let k := Nat.min n (length (st_rest st)) in
  (firstn k (st_rest st), {| st_data := st_data st; st_pos := (st_pos st + k)%nat |}).

(* BytesIO.seek(off, 1): relative seek, a negative result is clamped to 0 (it does not raise) *)
Definition st_seek_cur (off : Z) (st : stream) : stream :=
  {| st_data := st_data st; st_pos := Z.to_nat (Z.max 0 (Z.of_nat (st_pos st) + off)) |}.

(* a forward-only parser (a function of the remaining bytes returning what it left) run on a
   stream: the position advances by the number of bytes it consumed *)
Definition st_run {A} (p : bytes -> result (A * bytes)) (st : stream) : result (A * stream) :=
  '(x, r) <- p (st_rest st) ;;
  Ok (x, {| st_data := st_data st;
            st_pos := (st_pos st + (length (st_rest st) - length r))%nat |}).

(* Tx.parse(s) on a stream at any position *)
Definition tx_parse_st (st : stream) : result (tx * stream) :=
  let '(_, st1) := st_read 4 st in
  let '(m, st2) := st_read 1 st1 in
  let st3 := st_seek_cur (-5) st2 in
  if beq m [0] then st_run parse_segwit st3 else st_run parse_legacy st3.

(* the stream holding pre ++ s, positioned at the first byte of s *)
Definition st_at (pre s : bytes) : stream := {| st_data := pre ++ s; st_pos := length pre |}.

(* k consecutive Tx.parse calls on one stream (transactions back to back, as in a block) *)
Fixpoint tx_parse_seq (k : nat) (st : stream) : result (list tx * stream) :=
  match k with
  | O => Ok ([], st)
  | S k' =>
      '(t, st1) <- tx_parse_st st ;;
      '(ts, st2) <- tx_parse_seq k' st1 ;;
      Ok (t :: ts, st2)
  end.

(* b"".join(t.serialize() for t in txs) *)
Fixpoint ser_txs (l : list tx) : result bytes :=
  match l with
  | [] => Ok []
  | t :: r => a <- tx_serialize t ;; b <- ser_txs r ;; Ok (a ++ b)
  end.

(* ---- other entry points of the same codec ---- *)

(* Tx.parse_hex(s): bytes.fromhex(s) (no strip), a fresh BytesIO, Tx.parse; what is left in
   the stream is dropped *)
Definition tx_parse_hex (s : list Z) : result tx :=
  raw <- fromhex s ;; '(t, _) <- tx_parse raw ;; Ok t.

(* Tx.clone(): parse(BytesIO(self.serialize())) (the _value/_script_pubkey memo fields that are
   copied afterwards are not part of this model) *)
Definition tx_clone (t : tx) : result tx :=
  b <- tx_serialize t ;; '(t', _) <- tx_parse b ;; Ok t'.

(* Script.parse_hex(hex_str) = Script.parse(raw=bytes.fromhex(hex_str)) *)
Definition script_parse_hex (s : list Z) : result script :=
  raw <- fromhex s ;; parse_raw raw.

(* Script.__add__: a new Script of the concatenated commands; .raw of the operands is dropped *)
Definition script_add (a b : script) : script := mk_script (s_cmds a ++ s_cmds b).

(* Script.__eq__: compares the command lists only (.raw is ignored) *)
Definition cmd_eqb (x y : cmd) : bool :=
  match x, y with
  | Op a, Op b => a =? b
  | Push a, Push b => beq a b
  | _, _ => false
  end.
Fixpoint cmds_eqb (a b : list cmd) : bool :=
  match a, b with
  | [], [] => true
  | x :: a', y :: b' => cmd_eqb x y && cmds_eqb a' b'
  | _, _ => false
  end.
Definition script_eqb (a b : script) : bool := cmds_eqb (s_cmds a) (s_cmds b).

(* Script.parse(stream=None, raw=None): the argument check.  A BytesIO is always truthy, bytes
   are truthy when non-empty: both given (raw non-empty) -> ValueError; raw given -> the stream is
   not touched (also for raw = b"" next to a stream); neither -> ValueError *)
Definition script_parse_args (stream raw : option bytes) : result (script * option bytes) :=
  match stream, raw with
  | Some _, Some (_ :: _) => Err
  | _, Some r => sc <- parse_raw r ;; Ok (sc, stream)
  | Some s, None => '(sc, rest) <- parse_script s ;; Ok (sc, Some rest)
  | None, None => Err
  end.

(* constructor defaults: TxIn(prev_tx, prev_index) has an empty scriptSig, sequence 0xffffffff and
   an empty witness; Tx(version, ins, outs) has locktime 0 and segwit=False *)
Definition txin_default (prev_tx : bytes) (prev_index : Z) : txin :=
  {| i_prev_tx := prev_tx; i_prev_index := prev_index; i_script := mk_script [];
     i_sequence := 4294967295; i_witness := [] |}.
Definition tx_default (version : Z) (ins : list txin) (outs : list txout) : tx :=
  {| t_version := version; t_ins := ins; t_outs := outs; t_locktime := 0; t_segwit := false |}.
