(* Model/SighashAbs.v — the consensus transaction DENOTED by a buidl Tx object (Model/Tx.v record),
   used to state the C05 theorems and to feed the extracted specifications from the harness:
   scripts become their raw serialisation, prev_tx (kept in display order by the library) becomes
   the wire-order hash, and every integer field is checked to be in the range of its wire type.
   [abs_tx t = Ok ct] reads "t is a well-formed transaction and denotes ct"; where it is Err the
   library cannot serialise the object either (lemmas in Proofs/SighashP.v).  Definitions only. *)
From V Require Import Base.Prelude Base.Ints Model.Helper Model.Script Model.Tx Model.Sighash
  Spec.TxData.

Definition in_u32 (n : Z) : bool := (0 <=? n) && (n <? 4294967296).
Definition in_u64 (n : Z) : bool := (0 <=? n) && (n <? 18446744073709551616).

(* a script denotes its raw serialisation (which must have a CompactSize length) *)
Definition abs_script (sc : script) : result bytes :=
  r <- raw_serialize sc ;; if in_u64 (zlen r) then Ok r else Err.

Definition abs_in (i : txin) : result ctxin :=
  if in_u32 (i_prev_index i) && in_u32 (i_sequence i) then
    s <- abs_script (i_script i) ;;
    Ok {| ci_prevout := {| op_hash := rev (i_prev_tx i); op_n := i_prev_index i |};
          ci_script_sig := s; ci_sequence := i_sequence i |}
  else Err.

Definition abs_out (o : txout) : result ctxout :=
  if in_u64 (o_amount o) then
    s <- abs_script (o_script o) ;; Ok {| co_value := o_amount o; co_script := s |}
  else Err.

Definition abs_spent (s : spent) : result coin :=
  if in_u64 (sp_value s) then
    b <- abs_script (sp_script s) ;; Ok {| cn_value := sp_value s; cn_script := b |}
  else Err.

Fixpoint abs_list {A B} (f : A -> result B) (l : list A) : result (list B) :=
  match l with
  | [] => Ok []
  | x :: r => y <- f x ;; ys <- abs_list f r ;; Ok (y :: ys)
  end.

Definition abs_tx (t : tx) : result ctransaction :=
  if in_u32 (t_version t) && in_u32 (t_locktime t) &&
     in_u64 (zlen (t_ins t)) && in_u64 (zlen (t_outs t)) then
    vin <- abs_list abs_in (t_ins t) ;;
    vout <- abs_list abs_out (t_outs t) ;;
    Ok {| ct_version := t_version t; ct_vin := vin; ct_vout := vout; ct_locktime := t_locktime t |}
  else Err.

(* the last push of a scriptSig, as the raw redeem script of BIP16 *)
Definition last_push (sc : script) : option bytes :=
  match nth_last 0 (s_cmds sc) with
  | Some (Push b) => Some b
  | _ => None
  end.
