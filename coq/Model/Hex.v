(* Model/Hex.v — bytes.fromhex / bytes.hex as used by Block.parse_header(hex=...) (C19).
   Definitions only. *)
From V Require Import Base.Prelude Base.Ints Model.Helper Model.Block.

(* Py_ISSPACE: \t \n \v \f \r and the blank; skipped by bytes.fromhex between byte pairs *)
Definition hex_space (c : Z) : bool := ((9 <=? c) && (c <=? 13)) || (c =? 32).
Definition hex_val (c : Z) : option Z :=
  if (48 <=? c) && (c <=? 57) then Some (c - 48)
  else if (97 <=? c) && (c <=? 102) then Some (c - 87)
  else if (65 <=? c) && (c <=? 70) then Some (c - 55)
  else None.

(* bytes.fromhex(text): ValueError on a non-hex character or an odd digit *)
Fixpoint hex_decode (s : list Z) : result bytes :=
  match s with
  | [] => Ok []
  | c :: r =>
      if hex_space c then hex_decode r
      else match hex_val c, r with
           | Some h, d :: r' =>
               match hex_val d with
               | Some l => t <- hex_decode r' ;; Ok (16 * h + l :: t)
               | None => Err
               end
           | _, _ => Err
           end
  end.

(* bytes.hex() *)
Definition hex_digit (n : Z) : Z := if n <? 10 then 48 + n else 87 + n.
Definition hex_encode (b : bytes) : list Z :=
  flat_map (fun x => [hex_digit (x / 16); hex_digit (x mod 16)]) b.

(* Block.parse_header(hex=text): `if hex:` is false for the empty text, and then the stream
   (None) is read — AttributeError *)
Definition parse_header_hex (text : list Z) : result (header * bytes) :=
  match text with
  | [] => Err
  | _ => b <- hex_decode text ;; Ok (parse_header b)
  end.

(* CFilterMessage.__eq__ on (filter_type, block_hash, filter_bytes); CFilterMessage.hash() *)
Definition cfilter_eq (a b : Z * bytes * bytes) : bool :=
  let '(t1, bh1, fb1) := a in let '(t2, bh2, fb2) := b in
  (t1 =? t2) && beq bh1 bh2 && beq fb1 fb2.
