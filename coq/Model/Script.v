(* Model/Script.v — mirrors buidl/script.py: Script.parse / raw_serialize / serialize,
   the standard-pattern predicates and ScriptPubKey.parse.  Definitions only. *)
From V Require Import Base.Prelude Base.Ints Model.Helper.

Inductive cmd : Type :=
| Op (o : Z)          (* an int in the command list *)
| Push (b : bytes).   (* a bytes element *)

(* a Script object: commands and the optional .raw kept when the parse was inexact *)
Record script := { s_cmds : list cmd; s_raw : option bytes }.
Definition mk_script (c : list cmd) : script := {| s_cmds := c; s_raw := None |}.

(* the while loop of Script.parse over the raw bytes; [count] is the declared
   consumption, which can run ahead of the real position on short reads.
   fuel = number of raw bytes (every iteration consumes at least one). *)
Fixpoint parse_loop (fuel : nat) (s : bytes) (count len : Z) (acc : list cmd)
  : result (list cmd * Z) :=
  if len <=? count then Ok (rev acc, count)
  else match fuel with
       | O => Err
       | S f =>
           match s with
           | [] => Err                                  (* current[0] IndexError *)
           | b :: r =>
               let c := count + 1 in
               if (1 <=? b) && (b <=? 75) then
                 let '(d, r') := readz b r in parse_loop f r' (c + b) len (Push d :: acc)
               else if b =? 76 then
                 let dl := from_le (firstn 1 r) in
                 let '(d, r') := readz dl (skipn 1 r) in
                 parse_loop f r' (c + dl + 1) len (Push d :: acc)
               else if b =? 77 then
                 let dl := from_le (firstn 2 r) in
                 let '(d, r') := readz dl (skipn 2 r) in
                 parse_loop f r' (c + dl + 2) len (Push d :: acc)
               else if b =? 78 then
                 let dl := from_le (firstn 4 r) in
                 let '(d, r') := readz dl (skipn 4 r) in
                 parse_loop f r' (c + dl + 4) len (Push d :: acc)
               else parse_loop f r c len (Op b :: acc)
           end
       end.

(* Script.parse(raw=...) *)
Definition parse_raw (raw : bytes) : result script :=
  '(cs, count) <- parse_loop (length raw) raw 0 (zlen raw) [] ;;
  Ok {| s_cmds := cs; s_raw := if count =? zlen raw then None else Some raw |}.

(* kept as an alias: Helper.read_varstr itself now models the OverflowError that
   BytesIO.read(n) raises for n > sys.maxsize = 2^63 - 1 *)
Definition read_varstr_py (s : bytes) : result (bytes * bytes) := read_varstr s.

(* Script.parse(stream) *)
Definition parse_script (s : bytes) : result (script * bytes) :=
  '(raw, rest) <- read_varstr s ;;
  sc <- parse_raw raw ;; Ok (sc, rest).

(* Script.raw_serialize (after the fix: a 75-byte element is a direct push) *)
Definition ser_cmd (c : cmd) : result bytes :=
  match c with
  | Op o => if (o <? 0) || (255 <? o) then Err else Ok [o]
  | Push b =>
      let l := zlen b in
      if l <=? 75 then Ok (l :: b)
      else if l <? 256 then Ok (76 :: l :: b)
      else if l <=? 520 then Ok (77 :: to_le 2 l ++ b)
      else Err
  end.
Fixpoint ser_cmds (cs : list cmd) : result bytes :=
  match cs with
  | [] => Ok []
  | c :: r => a <- ser_cmd c ;; b <- ser_cmds r ;; Ok (a ++ b)
  end.
Definition raw_serialize (sc : script) : result bytes :=
  match s_raw sc with
  | Some ((_ :: _) as raw) => Ok raw        (* `if self.raw:` — an empty raw is falsy *)
  | _ => ser_cmds (s_cmds sc)
  end.
Definition serialize_script (sc : script) : result bytes :=
  r <- raw_serialize sc ;; encode_varstr r.

(* pattern predicates *)
Definition is_p2pkh (cs : list cmd) : bool :=
  match cs with
  | [Op 118; Op 169; Push h; Op 136; Op 172] => (length h =? 20)%nat
  | _ => false
  end.
Definition is_p2sh (cs : list cmd) : bool :=
  match cs with [Op 169; Push h; Op 135] => (length h =? 20)%nat | _ => false end.
Definition is_p2wpkh (cs : list cmd) : bool :=
  match cs with [Op 0; Push h] => (length h =? 20)%nat | _ => false end.
Definition is_p2wsh (cs : list cmd) : bool :=
  match cs with [Op 0; Push h] => (length h =? 32)%nat | _ => false end.
Definition is_p2tr (cs : list cmd) : bool :=
  match cs with [Op 81; Push h] => (length h =? 32)%nat | _ => false end.

(* ScriptPubKey.parse: a recognised pattern is rebuilt as a fresh object (raw dropped) *)
Definition parse_script_pubkey (s : bytes) : result (script * bytes) :=
  '(sc, rest) <- parse_script s ;;
  let cs := s_cmds sc in
  if is_p2pkh cs || is_p2sh cs || is_p2wpkh cs || is_p2wsh cs || is_p2tr cs
  then Ok (mk_script cs, rest) else Ok (sc, rest).

Definition p2pkh_script (h : bytes) : list cmd := [Op 118; Op 169; Push h; Op 136; Op 172].
Definition p2sh_script (h : bytes) : list cmd := [Op 169; Push h; Op 135].
Definition p2wpkh_script (h : bytes) : list cmd := [Op 0; Push h].
Definition p2wsh_script (h : bytes) : list cmd := [Op 0; Push h].
Definition p2tr_script (x : bytes) : list cmd := [Op 81; Push x].
