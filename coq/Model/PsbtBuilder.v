(* Model/PsbtBuilder.v — buidl/psbt_helper.py create_multisig_psbt (script_type "p2sh") together with the
   parts of PSBT.create / PSBT.update / PSBTIn.update / PSBTOut.update it exercises, over the abstract
   records of Model/PsbtDescribe.v.  Definitions only.

   What is abstracted (supplied by the correspondence harness from the implementation's own code):
   - HDPublicKey.parse of the xpub strings (a record arrives as fingerprint, base path, xpub, its depth and
     network) and Tx.parse_hex of the previous transactions (hash and outputs);
   - _safe_get_child_hdpubkey + NamedHDPublicKey.from_hd_pub for a (fingerprint, root path) pair: [bderive]
     gives the child's SEC key and the parsed path, [None] when that code raises (string handling of
     get_unhardened_child_path and the BIP32 arithmetic are not modelled here);
   - address_to_script_pubkey of the output addresses (an output arrives as its scriptPubKey); comparing two
     addresses is comparing the scriptPubKeys they encode.
   Domain: at least one input; previous-output indices >= 0; fingerprints of 4 bytes; pairwise different
   records (the hd_pubs dictionary is not de-duplicated here). *)
From V Require Import Base.Prelude Base.Ints Model.Helper Model.Script Model.PsbtDescribe.

(* bytes, lexicographic: the order of sorted(pubkey_hexes) *)
Fixpoint ble (a b : bytes) : bool :=
  match a, b with
  | [], _ => true
  | _ :: _, [] => false
  | x :: a', y :: b' => if x <? y then true else if y <? x then false else ble a' b'
  end.
Fixpoint insert_b (x : bytes) (l : list bytes) : list bytes :=
  match l with
  | [] => [x]
  | y :: r => if ble x y then x :: l else y :: insert_b x r
  end.
Definition isort (l : list bytes) : list bytes := fold_right insert_b [] l.

(* a Python dict with bytes keys as an association list in insertion order *)
Fixpoint dset {V} (m : list (bytes * V)) (k : bytes) (v : V) : list (bytes * V) :=
  match m with
  | [] => [(k, v)]
  | (k', v') :: r => if beq k' k then (k', v) :: r else (k', v') :: dset r k v
  end.
Definition dget {V} (m : list (bytes * V)) (k : bytes) : option V :=
  match find (fun e => beq (fst e) k) m with Some e => Some (snd e) | None => None end.
Definition dict_of {V} (l : list (bytes * V)) : list (bytes * V) :=
  fold_left (fun m e => dset m (fst e) (snd e)) l [].

Section Builder.
  Variable hash160 sha256 : bytes -> bytes.
  Variable xpub : Type.
  Variable derive : xpub -> list Z -> option bytes.
  Variable bderive : bytes -> bytes -> option (bytes * list Z).

  (* public_key_records entry, after HDPublicKey.parse *)
  Record brec := { r_xfp : bytes; r_path : list Z; r_xpub : xpub; r_depth : Z; r_net : Z }.
  (* input_dict: quorum_m, path_dict items, prev_tx_dict (parsed tx, hash_hex, output_idx, output_sats) *)
  Record bin := { bi_m : Z; bi_paths : list (bytes * bytes); bi_prev : prevtx; bi_hash : bytes;
                  bi_idx : Z; bi_sats : Z }.
  (* output_dict: sats, address (as scriptPubKey), quorum_m / path_dict items ([bo_m] < 0: no path_dict key) *)
  Record bout := { bo_sats : Z; bo_spk : list cmd; bo_m : Z; bo_paths : list (bytes * bytes) }.

  (* the three lookup dictionaries handed to PSBT.create *)
  Record lookups := {
    l_tx : list (bytes * prevtx);           (* tx hash -> transaction *)
    l_pub : list (bytes * named_pub);       (* sec -> NamedHDPublicKey *)
    l_redeem : list (bytes * list cmd)      (* hash160 -> RedeemScript *)
  }.

  (* for xfp_hex, root_path in path_dict.items(): derive, name, register in pubkey_lookup *)
  Fixpoint derive_keys (paths : list (bytes * bytes)) (pubs : list (bytes * named_pub))
    : result (list named_pub * list (bytes * named_pub)) :=
    match paths with
    | [] => Ok ([], pubs)
    | (xfp, rp) :: r =>
        match bderive xfp rp with
        | None => Err
        | Some (sec, comps) =>
            let np := {| np_key := sec; np_sec := sec; np_xfp := xfp; np_path := comps |} in
            '(nps, pubs') <- derive_keys r (dset pubs sec np) ;;
            Ok (np :: nps, pubs')
        end
    end.

  (* RedeemScript.create_p2sh_multisig(quorum_m, pubkey_hexes, sort_keys=True) *)
  Definition mk_multisig (m : Z) (secs : list bytes) : result (list cmd) :=
    _ <- check ((1 <=? m) && (m <=? zlen secs)) ;;
    om <- number_to_op_code m ;;
    on <- number_to_op_code (zlen secs) ;;
    Ok (Op om :: map Push (isort secs) ++ [Op on; Op 174]).

  (* one input_dict: returns the outpoint data and the amount *)
  Definition build_in (lk : lookups) (i : bin) : result (lookups * Z) :=
    let pt := bi_prev i in
    _ <- check (beq (bi_hash i) (pt_hash pt)) ;;
    '(nps, pubs) <- derive_keys (dict_of (bi_paths i)) (l_pub lk) ;;
    u <- match nthz (pt_outs pt) (bi_idx i) with Some u => Ok u | None => Err end ;;
    _ <- check (bi_sats i =? u_amount u) ;;
    _ <- check (addressable (u_spk u)) ;;                 (* utxo.script_pubkey.address() *)
    rs <- mk_multisig (bi_m i) (map np_sec nps) ;;
    ser <- ser_cmds rs ;;
    _ <- check (cmds_eqb (u_spk u) (p2sh_script (hash160 ser))) ;;   (* expected_addr, and the re-check *)
    Ok ({| l_tx := dset (l_tx lk) (pt_hash pt) pt; l_pub := pubs;
           l_redeem := dset (l_redeem lk) (hash160 ser) rs |}, u_amount u).

  Fixpoint build_ins (lk : lookups) (ins : list bin) : result (lookups * list Z) :=
    match ins with
    | [] => Ok (lk, [])
    | i :: r => '(lk1, v) <- build_in lk i ;; '(lk2, vs) <- build_ins lk1 r ;; Ok (lk2, v :: vs)
    end.

  Definition is_change_dict (o : bout) : bool := (0 <=? bo_m o) && negb (is_nil (dict_of (bo_paths o))).

  Definition build_out (lk : lookups) (o : bout) : result lookups :=
    if is_change_dict o then
      '(nps, pubs) <- derive_keys (dict_of (bo_paths o)) (l_pub lk) ;;
      rs <- mk_multisig (bo_m o) (map np_sec nps) ;;
      ser <- ser_cmds rs ;;
      _ <- check (cmds_eqb (bo_spk o) (p2sh_script (hash160 ser))) ;;  (* redeem_script.address() != address *)
      Ok {| l_tx := l_tx lk; l_pub := pubs; l_redeem := dset (l_redeem lk) (hash160 ser) rs |}
    else Ok lk.

  Fixpoint build_outs (lk : lookups) (outs : list bout) : result lookups :=
    match outs with
    | [] => Ok lk
    | o :: r => lk1 <- build_out lk o ;; build_outs lk1 r
    end.

  (* for command in script.commands: named_pub = pubkey_lookup.get(command); named_pubs[sec] = point *)
  Fixpoint named_from (pubs : list (bytes * named_pub)) (cs : list cmd) (acc : list (bytes * named_pub))
    : list (bytes * named_pub) :=
    match cs with
    | [] => acc
    | Push b :: r =>
        match dget pubs b with
        | Some np => named_from pubs r (dset acc (np_sec np) np)
        | None => named_from pubs r acc
        end
    | Op _ :: r => named_from pubs r acc
    end.

  Definition push_at (cs : list cmd) (k : nat) : result bytes :=
    match nth_error cs k with Some (Push b) => Ok b | _ => Err end.

  (* PSBTIn.update on a fresh PSBTIn(tx_in) *)
  Definition update_in (lk : lookups) (i : bin) : result pin :=
    let txid := pt_hash (bi_prev i) in
    let blank := {| i_txid := txid; i_index := bi_idx i; i_prev_tx := None; i_prev_out := None;
                    i_redeem := None; i_witness := None; i_pubs := []; i_value := None |} in
    match dget (l_tx lk) txid with
    | None => Ok blank
    | Some pt =>
        u <- match nthz (pt_outs pt) (bi_idx i) with Some u => Ok u | None => Err end ;;
        let spk := u_spk u in
        let valued := {| i_txid := txid; i_index := bi_idx i; i_prev_tx := None; i_prev_out := None;
                         i_redeem := None; i_witness := None; i_pubs := []; i_value := Some (u_amount u) |} in
        if is_p2sh spk then
          h <- push_at spk 1 ;;
          match dget (l_redeem lk) h with
          | None => Ok valued
          | Some rs =>
              if is_p2wpkh rs || is_p2wsh rs then Err      (* never a multisig script: not modelled *)
              else Ok {| i_txid := txid; i_index := bi_idx i; i_prev_tx := Some pt; i_prev_out := None;
                         i_redeem := Some rs; i_witness := None;
                         i_pubs := map snd (named_from (l_pub lk) rs []);
                         i_value := Some (u_amount u) |}
          end
        else Err                                            (* the builder only lets p2sh UTXOs through *)
    end.

  (* PSBTOut.update on a fresh PSBTOut(tx_out) *)
  Definition update_out (lk : lookups) (o : bout) : result pout :=
    let spk := bo_spk o in
    let plain := {| o_amount := bo_sats o; o_spk := spk; o_redeem := None; o_witness := None; o_pubs := [] |} in
    if is_p2sh spk then
      h <- push_at spk 1 ;;
      match dget (l_redeem lk) h with
      | None => Ok plain
      | Some rs =>
          if is_p2wpkh rs || is_p2wsh rs then Err          (* never a multisig script: not modelled *)
          else Ok {| o_amount := bo_sats o; o_spk := spk; o_redeem := Some rs; o_witness := None;
                     o_pubs := map snd (named_from (l_pub lk) rs []) |}
      end
    else if is_p2wpkh spk then
      h <- push_at spk 1 ;;
      match dget (l_pub lk) h with
      | Some np => Ok {| o_amount := bo_sats o; o_spk := spk; o_redeem := None; o_witness := None;
                         o_pubs := [np] |}
      | None => Ok plain
      end
    else if is_p2wsh spk then Ok plain                       (* witness_lookup is empty *)
    else if is_p2pkh spk then
      h <- push_at spk 2 ;;
      match dget (l_pub lk) h with
      | Some np => Ok {| o_amount := bo_sats o; o_spk := spk; o_redeem := None; o_witness := None;
                         o_pubs := [np] |}
      | None => Ok plain
      end
    else Ok plain.

  Fixpoint map_res {A B} (f : A -> result B) (l : list A) : result (list B) :=
    match l with
    | [] => Ok []
    | a :: r => b <- f a ;; t <- map_res f r ;; Ok (b :: t)
    end.

  Definition all_same_net (rs : list brec) : bool :=
    match rs with
    | [] => true
    | r0 :: _ => forallb (fun r => r_net r =? r_net r0) rs
    end.

  Definition lk0 : lookups := {| l_tx := []; l_pub := []; l_redeem := [] |}.

  Definition create_psbt (recs : list brec) (ins : list bin) (outs : list bout) (fee : Z)
    : result (psbt xpub) :=
    (* NamedHDPublicKey.from_hd_pub on every record: depth = number of path components; one network *)
    _ <- check (forallb (fun r => r_depth r =? zlen (r_path r)) recs) ;;
    _ <- check (all_same_net recs) ;;
    '(lk1, vals) <- build_ins lk0 ins ;;
    lk2 <- build_outs lk1 outs ;;
    _ <- check (fee =? sumz vals - sumz (map bo_sats outs)) ;;
    (* PSBT.create: update when tx_lookup or pubkey_lookup is non-empty, then hd_pubs, then validate *)
    pins <- (if is_nil (l_tx lk2) && is_nil (l_pub lk2)
             then map_res (update_in lk0) ins else map_res (update_in lk2) ins) ;;
    pouts <- (if is_nil (l_tx lk2) && is_nil (l_pub lk2)
              then map_res (update_out lk0) outs else map_res (update_out lk2) outs) ;;
    let p := {| p_ins := pins; p_outs := pouts;
                p_hd_pubs := map (fun r => {| h_xfp := r_xfp r; h_path := r_path r; h_xpub := r_xpub r |}) recs |} in
    _ <- validate_psbt hash160 sha256 xpub derive p ;;
    Ok p.
End Builder.

Arguments r_xfp {xpub} _.
Arguments r_path {xpub} _.
Arguments r_xpub {xpub} _.
Arguments r_depth {xpub} _.
Arguments r_net {xpub} _.
Arguments Build_brec {xpub} _ _ _ _ _.
