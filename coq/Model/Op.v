(* Model/Op.v — mirrors buidl/op.py (as of the fix: commits): the script-number codec, every
   op code function of OP_CODE_FUNCTIONS / TAPROOT_OP_CODE_FUNCTIONS, the OP_IF / OP_NOTIF
   command-list splicing, OP_CHECKLOCKTIMEVERIFY / OP_CHECKSEQUENCEVERIFY with the comparison
   rules of buidl/timelock.py.  Definitions only.

   CONVENTIONS
   * A stack is a [list bytes] with the TOP FIRST (head of the list = Python's stack[-1]);
     the dispatcher reverses when talking to the Python side.  The alt stack likewise.
   * An op code function returning False and an op code function raising are both [Err]
     (Script.evaluate stops in either case; the stack it leaves behind is never looked at).
   * Hashes are section variables; the signature op codes (172-175, 186) take their verdicts
     from the record [sigops] (for C07 they are outside the op code set; the C06 model
     instantiates the record with the real signature checks). *)
From V Require Import Base.Prelude Base.Ints Model.Script.

Definition stack := list bytes.

(* ------------------------------------------------------------------ number codec *)

(* the loop  while abs_num: result.append(abs_num & 0xFF); abs_num >>= 8   (abs_num >= 0,
   so & 0xFF is mod 256 and >> 8 is / 256); fuel = bit length of the number *)
Fixpoint mag_le (fuel : nat) (a : Z) : bytes :=
  match fuel with
  | O => []
  | S f => if a =? 0 then [] else (a mod 256) :: mag_le f (a / 256)
  end.
Definition mag_fuel (a : Z) : nat := S (Z.to_nat (Z.log2 a)).

(* the treatment of the last byte:
     if result[-1] & 0x80: result.append(0x80 if negative else 0)
     elif negative: result[-1] |= 0x80 *)
Fixpoint sign_fix (neg : bool) (l : bytes) : bytes :=
  match l with
  | [] => []
  | [b] => if 128 <=? b then [b; if neg then 128 else 0] else [if neg then b + 128 else b]
  | b :: r => b :: sign_fix neg r
  end.

Definition encode_num (num : Z) : bytes :=
  if num =? 0 then [] else sign_fix (num <? 0) (mag_le (mag_fuel (Z.abs num)) (Z.abs num)).

(* decode_num: the magnitude (last byte & 0x7f as the most significant digit) and the sign bit *)
Fixpoint decode_mag (e : bytes) : Z * bool :=
  match e with
  | [] => (0, false)
  | [b] => if 128 <=? b then (b - 128, true) else (b, false)
  | b :: r => let '(m, s) := decode_mag r in (b + 256 * m, s)
  end.
Definition decode_num (e : bytes) : Z :=
  let '(m, s) := decode_mag e in if s then - m else m.

(* ------------------------------------------------------------------ plain op codes *)

Definition op_push_num (n : Z) (s : stack) : result stack := Ok (encode_num n :: s).
Definition op_nop (s : stack) : result stack := Ok s.

Definition op_verify (s : stack) : result stack :=
  match s with
  | [] => Err
  | e :: r => if decode_num e =? 0 then Err else Ok r
  end.
Definition op_return (s : stack) : result stack := Err.

Definition op_toaltstack (s a : stack) : result (stack * stack) :=
  match s with [] => Err | e :: r => Ok (r, e :: a) end.
Definition op_fromaltstack (s a : stack) : result (stack * stack) :=
  match a with [] => Err | e :: r => Ok (e :: s, r) end.

Definition op_2drop (s : stack) : result stack :=
  match s with _ :: _ :: r => Ok r | _ => Err end.
Definition op_2dup (s : stack) : result stack :=
  match s with a :: b :: r => Ok (a :: b :: a :: b :: r) | _ => Err end.
Definition op_3dup (s : stack) : result stack :=
  match s with a :: b :: c :: r => Ok (a :: b :: c :: a :: b :: c :: r) | _ => Err end.
(* stack.extend(stack[-4:-2]) *)
Definition op_2over (s : stack) : result stack :=
  match s with a :: b :: c :: d :: r => Ok (c :: d :: a :: b :: c :: d :: r) | _ => Err end.
(* stack.extend(stack[-6:-4])  — copies the third pair instead of moving it *)
Definition op_2rot (s : stack) : result stack :=
  match s with
  | a :: b :: c :: d :: e :: f :: r => Ok (e :: f :: a :: b :: c :: d :: e :: f :: r)
  | _ => Err
  end.
(* stack[-4:] = stack[-2:] + stack[-4:-2] *)
Definition op_2swap (s : stack) : result stack :=
  match s with a :: b :: c :: d :: r => Ok (c :: d :: a :: b :: r) | _ => Err end.
Definition op_ifdup (s : stack) : result stack :=
  match s with
  | [] => Err
  | e :: r => if negb (decode_num e =? 0) then Ok (e :: e :: r) else Ok (e :: r)
  end.
Definition op_depth (s : stack) : result stack := Ok (encode_num (zlen s) :: s).
Definition op_drop (s : stack) : result stack :=
  match s with [] => Err | _ :: r => Ok r end.
Definition op_dup (s : stack) : result stack :=
  match s with [] => Err | e :: r => Ok (e :: e :: r) end.
(* stack[-2:] = stack[-1:] *)
Definition op_nip (s : stack) : result stack :=
  match s with a :: _ :: r => Ok (a :: r) | _ => Err end.
Definition op_over (s : stack) : result stack :=
  match s with a :: b :: r => Ok (b :: a :: b :: r) | _ => Err end.

(* n = decode_num(stack.pop()); if n < 0 or len(stack) < n + 1: return False;
   stack.append(stack[-n - 1]) *)
Definition op_pick (s : stack) : result stack :=
  match s with
  | [] => Err
  | e :: r =>
      let n := decode_num e in
      if (n <? 0) || (zlen r <? n + 1) then Err
      else match nth_error r (Z.to_nat n) with Some x => Ok (x :: r) | None => Err end
  end.

(* list.pop(i): the list without its i-th element *)
Fixpoint remove_nth {A} (n : nat) (l : list A) : list A :=
  match l, n with
  | [], _ => []
  | _ :: r, O => r
  | x :: r, S k => x :: remove_nth k r
  end.

Definition op_roll (s : stack) : result stack :=
  match s with
  | [] => Err
  | e :: r =>
      let n := decode_num e in
      if (n <? 0) || (zlen r <? n + 1) then Err
      else if n =? 0 then Ok r
      else match nth_error r (Z.to_nat n) with
           | Some x => Ok (x :: remove_nth (Z.to_nat n) r)
           | None => Err
           end
  end.
(* stack.append(stack.pop(-3)) *)
Definition op_rot (s : stack) : result stack :=
  match s with a :: b :: c :: r => Ok (c :: a :: b :: r) | _ => Err end.
Definition op_swap (s : stack) : result stack :=
  match s with a :: b :: r => Ok (b :: a :: r) | _ => Err end.
(* stack.insert(-2, stack[-1]) *)
Definition op_tuck (s : stack) : result stack :=
  match s with a :: b :: r => Ok (a :: b :: a :: r) | _ => Err end.
Definition op_size (s : stack) : result stack :=
  match s with [] => Err | e :: r => Ok (encode_num (zlen e) :: e :: r) end.

Definition enc_bool (b : bool) : bytes := encode_num (if b then 1 else 0).

Definition op_equal (s : stack) : result stack :=
  match s with a :: b :: r => Ok (enc_bool (beq a b) :: r) | _ => Err end.
Definition op_equalverify (s : stack) : result stack := s' <- op_equal s ;; op_verify s'.

(* element = decode_num(stack.pop()); stack.append(encode_num(f element)) *)
Definition un_op (f : Z -> Z) (s : stack) : result stack :=
  match s with [] => Err | e :: r => Ok (encode_num (f (decode_num e)) :: r) end.
Definition op_1add := un_op (fun x => x + 1).
Definition op_1sub := un_op (fun x => x - 1).
Definition op_negate := un_op (fun x => - x).
Definition op_abs := un_op (fun x => if x <? 0 then - x else x).
Definition op_not := un_op (fun x => if x =? 0 then 1 else 0).
Definition op_0notequal := un_op (fun x => if x =? 0 then 0 else 1).

(* element1 = decode_num(stack.pop()); element2 = decode_num(stack.pop()) *)
Definition bin_op (f : Z -> Z -> Z) (s : stack) : result stack :=
  match s with
  | e1 :: e2 :: r => Ok (encode_num (f (decode_num e1) (decode_num e2)) :: r)
  | _ => Err
  end.
Definition b2z (b : bool) : Z := if b then 1 else 0.
Definition op_add := bin_op (fun e1 e2 => e1 + e2).
Definition op_sub := bin_op (fun e1 e2 => e2 - e1).
Definition op_booland := bin_op (fun e1 e2 => b2z (negb (e1 =? 0) && negb (e2 =? 0))).
Definition op_boolor := bin_op (fun e1 e2 => b2z (negb (e1 =? 0) || negb (e2 =? 0))).
Definition op_numequal := bin_op (fun e1 e2 => b2z (e1 =? e2)).
Definition op_numequalverify (s : stack) : result stack := s' <- op_numequal s ;; op_verify s'.
Definition op_numnotequal := bin_op (fun e1 e2 => b2z (negb (e1 =? e2))).
Definition op_lessthan := bin_op (fun e1 e2 => b2z (e2 <? e1)).
Definition op_greaterthan := bin_op (fun e1 e2 => b2z (e2 >? e1)).
Definition op_lessthanorequal := bin_op (fun e1 e2 => b2z (e2 <=? e1)).
Definition op_greaterthanorequal := bin_op (fun e1 e2 => b2z (e2 >=? e1)).
Definition op_min := bin_op (fun e1 e2 => if e1 <? e2 then e1 else e2).
Definition op_max := bin_op (fun e1 e2 => if e1 >? e2 then e1 else e2).
Definition op_within (s : stack) : result stack :=
  match s with
  | mx :: mn :: el :: r =>
      let maximum := decode_num mx in
      let minimum := decode_num mn in
      let element := decode_num el in
      Ok (enc_bool ((element >=? minimum) && (element <? maximum)) :: r)
  | _ => Err
  end.

Definition op_hash (h : bytes -> bytes) (s : stack) : result stack :=
  match s with [] => Err | e :: r => Ok (h e :: r) end.

(* ------------------------------------------------------------------ OP_IF / OP_NOTIF *)

(* The scan of op_if over the remaining command list.  [need] is num_endifs_needed - 1,
   [cur] says whether current_array is true_items, [t]/[f] are the two arrays (reversed).
   One item is popped per iteration, so the loop is the structural recursion on [items]
   (its fuel is the length of the command list). *)
Fixpoint if_scan (items : list cmd) (need : nat) (cur : bool) (t f : list cmd)
  : option (list cmd * list cmd * list cmd) :=
  match items with
  | [] => None                                            (* not found *)
  | it :: rest =>
      let keep := if cur then if_scan rest need cur (it :: t) f
                  else if_scan rest need cur t (it :: f) in
      match it with
      | Op 99 | Op 100 =>
          if cur then if_scan rest (S need) cur (it :: t) f
          else if_scan rest (S need) cur t (it :: f)
      | Op 103 =>
          match need with
          | O => if_scan rest need (negb cur) t f        (* every OP_ELSE toggles *)
          | S _ => keep
          end
      | Op 104 =>
          match need with
          | O => Some (rev t, rev f, rest)                (* found *)
          | S k => if cur then if_scan rest k cur (it :: t) f
                   else if_scan rest k cur t (it :: f)
          end
      | _ => keep
      end
  end.

(* op_if (neg = false) / op_notif (neg = true): new stack and new command list *)
Definition op_if_gen (neg : bool) (s : stack) (items : list cmd) : result (stack * list cmd) :=
  match s with
  | [] => Err
  | e :: r =>
      match if_scan items O true [] [] with
      | None => Err
      | Some (t, f, rest) =>
          let zero := decode_num e =? 0 in
          Ok (r, (if xorb zero neg then f else t) ++ rest)
      end
  end.
Definition op_if := op_if_gen false.
Definition op_notif := op_if_gen true.

(* ------------------------------------------------------------------ time locks *)

Record txctx := { t_locktime : Z; t_sequence : Z; t_version : Z }.

Definition MAX_LOCKTIME : Z := 4294967295.
Definition MAX_SEQUENCE : Z := 4294967295.
Definition BLOCK_LIMIT : Z := 500000000.
Definition SEQ_DISABLE : Z := 2147483648.       (* 1 << 31 *)
Definition SEQ_TIME : Z := 4194304.             (* 1 << 22 *)
Definition SEQ_MASK : Z := 65535.

(* Locktime.is_comparable *)
Definition lt_comparable (a b : Z) : bool :=
  ((a <? BLOCK_LIMIT) && (b <? BLOCK_LIMIT)) || ((a >=? BLOCK_LIMIT) && (b >=? BLOCK_LIMIT)).

Definition op_checklocktimeverify (c : txctx) (s : stack) : result stack :=
  if t_sequence c =? MAX_SEQUENCE then Err
  else match s with
       | [] => Err
       | e :: _ =>
           if (5 <? length e)%nat then Err else             (* len(stack[-1]) > 5 *)
           let element := decode_num e in
           if element <? 0 then Err
           else if element >? MAX_LOCKTIME then Err          (* Locktime(element) raises *)
           else if negb (lt_comparable (t_locktime c) element) then Err
           else if t_locktime c <? element then Err
           else Ok s
       end.

(* Sequence.is_relative / is_relative_time / is_relative_block *)
Definition sq_relative (x : Z) : bool := Z.land x SEQ_DISABLE =? 0.
Definition sq_relative_time (x : Z) : bool := sq_relative x && negb (Z.land x SEQ_TIME =? 0).
Definition sq_relative_block (x : Z) : bool := sq_relative x && negb (sq_relative_time x).
Definition sq_comparable (a b : Z) : bool :=
  (sq_relative_block a && sq_relative_block b) || (sq_relative_time a && sq_relative_time b).

Definition op_checksequenceverify (c : txctx) (s : stack) : result stack :=
  match s with
  | [] => Err
  | e :: _ =>
      if (5 <? length e)%nat then Err else                         (* len(stack[-1]) > 5 *)
      let element := decode_num e in
      if element <? 0 then Err
      else if negb (Z.land element SEQ_DISABLE =? 0) then Ok s     (* NOP (BIP112) *)
      else if negb (sq_relative (t_sequence c)) then Err
      else if t_version c <? 2 then Err
      else if element >? MAX_SEQUENCE then Err                     (* Sequence(element) raises *)
      else if negb (sq_comparable (t_sequence c) element) then Err
      else if Z.land (t_sequence c) SEQ_MASK <? Z.land element SEQ_MASK then Err
      else Ok s
  end.

(* ------------------------------------------------------------------ signature op codes *)

(* Verdicts of the signature checks, supplied from outside.  [Err] = the Python code raises. *)
Record sigops := {
  (* op_checksig: sec public key, signature with its hash-type byte -> point.verify(z, sig) *)
  so_checksig : bytes -> bytes -> result bool;
  (* op_checkmultisig: public keys and signatures in pop order; Ok false = "return False"
     (bad order / ValueError / SyntaxError), Err = any other exception *)
  so_multisig : list bytes -> list bytes -> result bool;
  (* S256Point.parse_xonly succeeds *)
  so_xonly_ok : bytes -> bool;
  (* x-only key, 64-byte signature (hash type stripped), hash type -> verify_schnorr *)
  so_schnorr : bytes -> bytes -> Z -> result bool
}.

Definition op_checksig (so : sigops) (s : stack) : result stack :=
  match s with
  | sec :: sg :: r =>
      match sg with
      | [] => Err                                             (* tmp[-1] IndexError *)
      | _ => b <- so_checksig so sec sg ;; Ok (enc_bool b :: r)
      end
  | _ => Err
  end.
Definition op_checksigverify (so : sigops) (s : stack) : result stack :=
  s' <- op_checksig so s ;; op_verify s'.

(* for _ in range(n): out.append(stack.pop())  — n <= 0 pops nothing; popping from an empty
   list raises *)
Fixpoint pop_n (n : nat) (s : stack) : result (list bytes * stack) :=
  match n with
  | O => Ok ([], s)
  | S k => match s with
           | [] => Err
           | x :: r => '(l, r') <- pop_n k r ;; Ok (x :: l, r')
           end
  end.

Definition op_checkmultisig (so : sigops) (s : stack) : result stack :=
  match s with
  | [] => Err
  | e :: s1 =>
      let n := decode_num e in
      if zlen s1 <? n + 1 then Err
      else
        '(secs, s2) <- pop_n (Z.to_nat n) s1 ;;
        match s2 with
        | [] => Err                                           (* stack.pop() on [] *)
        | em :: s3 =>
            let m := decode_num em in
            if zlen s3 <? m + 1 then Err
            else
              '(sigs, s4) <- pop_n (Z.to_nat m) s3 ;;
              if existsb (fun sg => match sg with [] => true | _ => false end) sigs then Err
              else match s4 with
                   | [] => Err                                (* the extra element *)
                   | _ :: s5 =>
                       ok <- so_multisig so secs sigs ;;
                       if ok then Ok (encode_num 1 :: s5) else Err
                   end
        end
  end.
Definition op_checkmultisigverify (so : sigops) (s : stack) : result stack :=
  s' <- op_checkmultisig so s ;; op_verify s'.

Definition schnorr_split (sg : bytes) : bytes * Z :=
  if (length sg =? 65)%nat then (removelast sg, last sg 0) else (sg, 0).

(* BIP341 "signature validation rules" as op.py applies them to a non-empty signature: 64 bytes
   (SIGHASH_DEFAULT), or 65 bytes whose last byte is one of 01 02 03 81 82 83; anything else makes
   the op code return False *)
Definition schnorr_ht_defined (ht : Z) : bool :=
  (ht =? 1) || (ht =? 2) || (ht =? 3) || (ht =? 129) || (ht =? 130) || (ht =? 131).
Definition schnorr_form_ok (sg : bytes) : bool :=
  (length sg =? 64)%nat || ((length sg =? 65)%nat && schnorr_ht_defined (last sg 0)).

Definition op_checksig_schnorr (so : sigops) (s : stack) : result stack :=
  match s with
  | pk :: sg :: r =>
      if negb (so_xonly_ok so pk) then Err
      else match sg with
           | [] => Ok (encode_num 0 :: r)
           | _ => if negb (schnorr_form_ok sg) then Err
                  else let '(sg', ht) := schnorr_split sg in
                       b <- so_schnorr so pk sg' ht ;; Ok (enc_bool b :: r)
           end
  | _ => Err
  end.
Definition op_checksigverify_schnorr (so : sigops) (s : stack) : result stack :=
  s' <- op_checksig_schnorr so s ;; op_verify s'.
Definition op_checksigadd_schnorr (so : sigops) (s : stack) : result stack :=
  match s with
  | pk :: en :: sg :: r =>
      let n := decode_num en in
      if negb (so_xonly_ok so pk) then Err
      else match sg with
           | [] => Ok (encode_num n :: r)
           | _ => if negb (schnorr_form_ok sg) then Err
                  else let '(sg', ht) := schnorr_split sg in
                       b <- so_schnorr so pk sg' ht ;; Ok (encode_num (if b then n + 1 else n) :: r)
           end
  | _ => Err
  end.
Definition op_success (s : stack) : result stack := Ok s.

(* ------------------------------------------------------------------ dispatch tables *)

(* the four call shapes Script.evaluate distinguishes *)
Inductive opfn : Type :=
| FStack (f : stack -> result stack)                       (* operation(stack) *)
| FIf (neg : bool)                                         (* operation(stack, commands) *)
| FAlt (f : stack -> stack -> result (stack * stack))      (* operation(stack, altstack) *)
| FTx (f : txctx -> stack -> result stack).                (* operation(stack, tx_obj, input_index) *)

Section Tables.
  Variables ripemd160 sha1 sha256 hash160 hash256 : bytes -> bytes.
  Variable so : sigops.

  (* the entries shared by both tables *)
  Definition common_functions (o : Z) : option opfn :=
    if o =? 0 then Some (FStack (op_push_num 0))
    else if o =? 79 then Some (FStack (op_push_num (-1)))
    else if (81 <=? o) && (o <=? 96) then Some (FStack (op_push_num (o - 80)))
    else if o =? 97 then Some (FStack op_nop)
    else if o =? 99 then Some (FIf false)
    else if o =? 100 then Some (FIf true)
    else if o =? 105 then Some (FStack op_verify)
    else if o =? 106 then Some (FStack op_return)
    else if o =? 107 then Some (FAlt op_toaltstack)
    else if o =? 108 then Some (FAlt op_fromaltstack)
    else if o =? 109 then Some (FStack op_2drop)
    else if o =? 110 then Some (FStack op_2dup)
    else if o =? 111 then Some (FStack op_3dup)
    else if o =? 112 then Some (FStack op_2over)
    else if o =? 113 then Some (FStack op_2rot)
    else if o =? 114 then Some (FStack op_2swap)
    else if o =? 115 then Some (FStack op_ifdup)
    else if o =? 116 then Some (FStack op_depth)
    else if o =? 117 then Some (FStack op_drop)
    else if o =? 118 then Some (FStack op_dup)
    else if o =? 119 then Some (FStack op_nip)
    else if o =? 120 then Some (FStack op_over)
    else if o =? 121 then Some (FStack op_pick)
    else if o =? 122 then Some (FStack op_roll)
    else if o =? 123 then Some (FStack op_rot)
    else if o =? 124 then Some (FStack op_swap)
    else if o =? 125 then Some (FStack op_tuck)
    else if o =? 130 then Some (FStack op_size)
    else if o =? 135 then Some (FStack op_equal)
    else if o =? 136 then Some (FStack op_equalverify)
    else if o =? 139 then Some (FStack op_1add)
    else if o =? 140 then Some (FStack op_1sub)
    else if o =? 143 then Some (FStack op_negate)
    else if o =? 144 then Some (FStack op_abs)
    else if o =? 145 then Some (FStack op_not)
    else if o =? 146 then Some (FStack op_0notequal)
    else if o =? 147 then Some (FStack op_add)
    else if o =? 148 then Some (FStack op_sub)
    else if o =? 154 then Some (FStack op_booland)
    else if o =? 155 then Some (FStack op_boolor)
    else if o =? 156 then Some (FStack op_numequal)
    else if o =? 157 then Some (FStack op_numequalverify)
    else if o =? 158 then Some (FStack op_numnotequal)
    else if o =? 159 then Some (FStack op_lessthan)
    else if o =? 160 then Some (FStack op_greaterthan)
    else if o =? 161 then Some (FStack op_lessthanorequal)
    else if o =? 162 then Some (FStack op_greaterthanorequal)
    else if o =? 163 then Some (FStack op_min)
    else if o =? 164 then Some (FStack op_max)
    else if o =? 165 then Some (FStack op_within)
    else if o =? 166 then Some (FStack (op_hash ripemd160))
    else if o =? 167 then Some (FStack (op_hash sha1))
    else if o =? 168 then Some (FStack (op_hash sha256))
    else if o =? 169 then Some (FStack (op_hash hash160))
    else if o =? 170 then Some (FStack (op_hash hash256))
    else if o =? 176 then Some (FStack op_nop)
    else if o =? 177 then Some (FTx op_checklocktimeverify)
    else if o =? 178 then Some (FTx op_checksequenceverify)
    else if (179 <=? o) && (o <=? 185) then Some (FStack op_nop)
    else None.

  (* OP_CODE_FUNCTIONS; None = KeyError *)
  Definition op_code_functions (o : Z) : option opfn :=
    if o =? 172 then Some (FTx (fun _ => op_checksig so))
    else if o =? 173 then Some (FTx (fun _ => op_checksigverify so))
    else if o =? 174 then Some (FTx (fun _ => op_checkmultisig so))
    else if o =? 175 then Some (FTx (fun _ => op_checkmultisigverify so))
    else common_functions o.

  (* TAPROOT_OP_CODE_FUNCTIONS *)
  Definition taproot_op_code_functions (o : Z) : option opfn :=
    if o =? 172 then Some (FTx (fun _ => op_checksig_schnorr so))
    else if o =? 173 then Some (FTx (fun _ => op_checksigverify_schnorr so))
    else if (o =? 174) || (o =? 175) then Some (FStack op_return)
    else if o =? 186 then Some (FTx (fun _ => op_checksigadd_schnorr so))
    else if (o =? 80) || (o =? 98) || ((126 <=? o) && (o <=? 129)) || ((131 <=? o) && (o <=? 134))
            || (o =? 137) || (o =? 138) || (o =? 141) || (o =? 142)
            || ((149 <=? o) && (o <=? 153)) || ((187 <=? o) && (o <=? 254))
    then Some (FStack op_success)
    else common_functions o.
End Tables.

(* a signature oracle for users that stay outside the signature op codes *)
Definition no_sigops : sigops :=
  {| so_checksig := fun _ _ => Err; so_multisig := fun _ _ => Err;
     so_xonly_ok := fun _ => false; so_schnorr := fun _ _ _ => Err |}.
