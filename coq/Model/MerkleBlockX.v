(* Model/MerkleBlockX.v — further entry points of buidl/merkleblock.py and buidl/network.py
   on top of Model/MerkleBlock.v and Model/Pow.v.  Definitions only.

   * MerkleTree.populate_tree POPS from the two list objects it is given (flag_bits.pop(0),
     hashes.pop(0)).  [populate_tree_mut] / [populate_tree_rec_mut] also return what is left
     in the caller's lists after a successful call.
   * MerkleBlock.parse(stream) followed by .is_valid() and .proved_txs(): the composition
     a light client runs on a received "merkleblock" message.
   * HeadersMessage.parse(stream) followed by .is_valid(). *)
From V Require Import Base.Prelude Base.Ints Model.Helper Model.Block Model.Merkle Model.MerkleBlock
  Model.Pow Model.Network.

Section MBX.
Variable hash256 : bytes -> bytes.

(* MerkleTree(total).populate_tree(flag_bits, hashes)
   -> (root(), proved_txs, flag_bits afterwards, hashes afterwards) *)
Definition populate_tree_mut (total : Z) (bits : list Z) (hs : list bytes)
  : result (bytes * list bytes * list Z * list bytes) :=
  t <- mt_init total ;;
  if negb (all32 hs) then Err else
  '(t', bits', hs') <- populate_loop hash256 (populate_fuel total) t bits hs ;;
  if leftover_ok bits' hs' then
    root <- get_node (mt_nodes t') 0 0 ;;
    match root with Some r => Ok (r, mt_proved t', bits', hs') | None => Err end
  else Err.

Definition populate_tree_rec_mut (total : Z) (bits : list Z) (hs : list bytes)
  : result (bytes * list bytes * list Z * list bytes) :=
  if total <? 1 then Err
  else if negb (all32 hs) then Err
  else
    '(root, proved, bits', hs') <- traverse hash256 (Z.to_nat total) (max_depth total) 0 bits hs ;;
    if leftover_ok bits' hs' then Ok (root, proved, bits', hs') else Err.

(* mb = MerkleBlock.parse(s); mb.is_valid(), mb.proved_txs() *)
Definition mb_parse_is_valid (s : bytes) : result (bool * list bytes) :=
  '(hdr, total, hashes, flags, _) <- mb_parse s ;;
  mb_is_valid hash256 (h_root hdr) total hashes flags.

(* HeadersMessage.parse(s).is_valid() *)
Definition headers_parse_is_valid (s : bytes) : result bool :=
  '(hs, _) <- headers_parse s ;; headers_is_valid hash256 hs.
End MBX.
