(* Model/Bloom.v — mirrors buidl/bloomfilter.py (BloomFilter.add / filter_bytes / filterload)
   and helper.bit_field_to_bytes.  Definitions only. *)
From V Require Import Base.Prelude Base.Ints Model.Helper Model.Murmur.

Definition BIP37_CONSTANT : Z := 4221880213.   (* 0xFBA4C795 *)

Record bloom := { bf_size : Z; bf_bits : list Z; bf_fc : Z; bf_tweak : Z }.

(* BloomFilter(size, function_count, tweak): bit_field = [0] * (size * 8)
   (a negative size gives the empty list) *)
Definition bloom_new (size fc tweak : Z) : bloom :=
  {| bf_size := size; bf_bits := repeatz 0 (Z.to_nat (size * 8)); bf_fc := fc; bf_tweak := tweak |}.

Fixpoint set_nth (n : nat) (l : list Z) : list Z :=
  match l, n with
  | [], _ => []
  | _ :: r, O => 1 :: r
  | x :: r, S k => x :: set_nth k r
  end.

(* the bit index of hash function i *)
Definition bloom_index (size tweak : Z) (item : bytes) (i : Z) : Z :=
  murmur3 item (i * BIP37_CONSTANT + tweak) mod (size * 8).

(* self.bit_field[bit] = 1: IndexError outside [-len, len); h % 0 raises ZeroDivisionError *)
Definition bloom_set (size : Z) (bits : list Z) (bit : Z) : result (list Z) :=
  if size * 8 =? 0 then Err
  else if (0 <=? bit) && (bit <? zlen bits) then Ok (set_nth (Z.to_nat bit) bits)
  else if (bit <? 0) && (- zlen bits <=? bit) then Ok (set_nth (Z.to_nat (zlen bits + bit)) bits)
  else Err.

(* for i in range(function_count), i counted upwards from [i] with [n] iterations left *)
Fixpoint bloom_add_loop (n : nat) (i : Z) (size tweak : Z) (item : bytes) (bits : list Z)
  : result (list Z) :=
  match n with
  | O => Ok bits
  | S k =>
      bits' <- bloom_set size bits (bloom_index size tweak item i) ;;
      bloom_add_loop k (i + 1) size tweak item bits'
  end.

Definition bloom_add (b : bloom) (item : bytes) : result bloom :=
  bits <- bloom_add_loop (Z.to_nat (bf_fc b)) 0 (bf_size b) (bf_tweak b) item (bf_bits b) ;;
  Ok {| bf_size := bf_size b; bf_bits := bits; bf_fc := bf_fc b; bf_tweak := bf_tweak b |}.

(* helper.bit_field_to_bytes: bit i of the field is bit (i mod 8) of byte (i div 8) *)
Fixpoint bits_le_byte (l : list Z) (w : Z) : Z :=
  match l with
  | [] => 0
  | b :: r => (if b =? 0 then 0 else w) + bits_le_byte r (2 * w)
  end.
Fixpoint bit_field_bytes (fuel : nat) (l : list Z) : bytes :=
  match fuel with
  | O => []
  | S f => bits_le_byte (firstn 8 l) 1 :: bit_field_bytes f (skipn 8 l)
  end.
Definition bit_field_to_bytes (l : list Z) : result bytes :=
  if Nat.eqb (Nat.modulo (length l) 8) 0 then Ok (bit_field_bytes (Nat.div (length l) 8) l) else Err.

Definition int_to_byte (n : Z) : result bytes :=
  if (n >? 255) || (n <? 0) then Err else Ok [n].

(* filterload(flag).payload *)
Definition filterload (b : bloom) (flag : Z) : result bytes :=
  sz <- encode_varint (bf_size b) ;;
  fb <- bit_field_to_bytes (bf_bits b) ;;
  fc <- int_to_le (bf_fc b) 4 ;;
  tw <- int_to_le (bf_tweak b) 4 ;;
  fl <- int_to_byte flag ;;
  Ok (sz ++ fb ++ fc ++ tw ++ fl).

(* membership as a BIP37 peer evaluates it: all function_count bits are set *)
Fixpoint bloom_all_set (n : nat) (i : Z) (size tweak : Z) (item : bytes) (bits : list Z) : bool :=
  match n with
  | O => true
  | S k => (nth (Z.to_nat (bloom_index size tweak item i)) bits 0 =? 1)
           && bloom_all_set k (i + 1) size tweak item bits
  end.
