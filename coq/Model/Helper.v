(* Model/Helper.v — mirrors buidl/helper.py: compact-size integers, var-strings.
   Definitions only. *)
From V Require Import Base.Prelude Base.Ints.

(* s.read(n) for an integer n coming from the wire: never builds a huge nat *)
Definition readz (n : Z) (s : bytes) : bytes * bytes :=
  if n <? 0 then ([], s)  (* not reachable from the parsers: lengths come from from_le *)
  else if zlen s <=? n then (s, [])
  else (firstn (Z.to_nat n) s, skipn (Z.to_nat n) s).

(* helper.py encode_varint *)
Definition encode_varint (i : Z) : result bytes :=
  if i <? 0 then Err                         (* bytes([i]) raises ValueError *)
  else if i <? 253 then Ok [i]
  else if i <? 65536 then Ok (253 :: to_le 2 i)
  else if i <? 4294967296 then Ok (254 :: to_le 4 i)
  else if i <? 18446744073709551616 then Ok (255 :: to_le 8 i)
  else Err.

(* helper.py read_varint: the 2/4/8-byte reads are silent short reads *)
Definition read_varint (s : bytes) : result (Z * bytes) :=
  match s with
  | [] => Err
  | i :: r =>
      if i =? 253 then Ok (from_le (firstn 2 r), skipn 2 r)
      else if i =? 254 then Ok (from_le (firstn 4 r), skipn 4 r)
      else if i =? 255 then Ok (from_le (firstn 8 r), skipn 8 r)
      else Ok (i, r)
  end.

Definition encode_varstr (b : bytes) : result bytes :=
  l <- encode_varint (zlen b) ;; Ok (l ++ b).

(* BytesIO.read(n) raises OverflowError for n > sys.maxsize = 2^63 - 1 *)
Definition read_varstr (s : bytes) : result (bytes * bytes) :=
  '(n, r) <- read_varint s ;;
  if 9223372036854775808 <=? n then Err else Ok (readz n r).
