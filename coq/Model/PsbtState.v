(* Model/PsbtState.v — PSBT.validate() as a STATE TRANSFORMER of the unsigned transaction
   (buidl/psbt.py:259).  To evaluate a final scriptSig the method writes it (and the final
   witness) into self.tx_obj.tx_ins[i], calls verify_input(i) and only on success puts
   Script() / Witness() back; when the check fails the ValueError leaves the transaction modified.
   [validate_state] returns the verdict of validate together with the transaction object as it
   is afterwards.  Observation convention: a TxIn whose .witness was left as None is reported with
   an empty item list.  Definitions only. *)
From V Require Import Base.Prelude Base.Ints Model.Helper Model.Script Model.Tx Model.Psbt.

Section State.
Variable hash160 sha256 hash256 : bytes -> bytes.
Variable sig_parse_ok : bytes -> bytes -> bool.
Variable ecdsa_verify : bytes -> Z -> bytes -> bool.
Variable sighash_legacy : tx -> Z -> option script -> result Z.
Variable sighash_segwit : tx -> Z -> option script -> option script -> result Z.
Variable verify_input : tx -> Z -> script -> option (list bytes) -> result bool.
Variable descends : hd_pub -> bytes -> bytes -> bool.

Definition with_final (ti : txin) (ss : script) (w : option (list bytes)) : txin :=
  {| i_prev_tx := i_prev_tx ti; i_prev_index := i_prev_index ti; i_script := ss;
     i_sequence := i_sequence ti; i_witness := match w with Some x => x | None => [] end |}.

(* tx_in.script_sig = Script(); tx_in.witness = Witness() *)
Definition cleared (ti : txin) : txin := with_final ti (mk_script []) None.

(* one iteration of the input loop: verdict and the TxIn afterwards *)
Definition in_state (t : tx) (hds : list hd_pub) (i : Z) (st : psbt_in) (ti : txin)
  : result unit * txin :=
  match in_validate hash160 sha256 hash256 st ti with
  | Err => (Err, ti)
  | Ok _ =>
      match s_cmds (i_script ti) with
      | _ :: _ => (Err, ti)
      | [] =>
          let rest (ti' : txin) :=
            (_ <- all_ok (sig_check sig_parse_ok ecdsa_verify sighash_legacy sighash_segwit t i st ti)
                         (pi_sigs st) ;;
             all_ok (fun e => hd_check descends hds (fst e) (snd e)) (pi_named st), ti') in
          match pi_script_sig st with
          | None => rest ti
          | Some ss =>
              match verify_input t i ss (pi_witness st) with
              | Ok true => rest (cleared ti)
              | _ => (Err, with_final ti ss (pi_witness st))
              end
          end
      end
  end.

Fixpoint ins_state (t : tx) (hds : list hd_pub) (i : Z) (ins : list psbt_in) (tis : list txin)
  : result unit * list txin :=
  match ins, tis with
  | [], _ => (match tis with [] => Ok tt | _ => Err end, tis)
  | _ :: _, [] => (Err, [])
  | st :: r, ti :: r' =>
      match in_state t hds i st ti with
      | (Ok _, ti') => let '(v, l) := ins_state t hds (i + 1) r r' in (v, ti' :: l)
      | (Err, ti') => (Err, ti' :: r')
      end
  end.

Definition with_tx_ins (t : tx) (l : list txin) : tx :=
  {| t_version := t_version t; t_ins := l; t_outs := t_outs t; t_locktime := t_locktime t;
     t_segwit := t_segwit t |}.

Definition validate_state (p : psbt) : result unit * tx :=
  if negb (length (t_ins (p_tx p)) =? length (p_ins p))%nat then (Err, p_tx p)
  else
    let '(v, l) := ins_state (p_tx p) (dvals (p_hd p)) 0 (p_ins p) (t_ins (p_tx p)) in
    let t' := with_tx_ins (p_tx p) l in
    match v with
    | Err => (Err, t')
    | Ok _ =>
        (_ <- check (length (t_outs (p_tx p)) =? length (p_outs p))%nat ;;
         outs_validate hash160 sha256 descends (dvals (p_hd p)) (p_outs p) (t_outs (p_tx p)), t')
    end.

End State.
