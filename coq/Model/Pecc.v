(* Model/Pecc.v — mirrors buidl/pecc.py (FieldElement, Point, S256Point, Signature,
   SchnorrSignature, PrivateKey) generically over a curve record.  Definitions only.
   The same code is run on small curves inside the kernel and, extracted, on secp256k1. *)
From V Require Import Base.Prelude Base.Ints.

Record curve := { cp : Z; ca : Z; cb : Z; cn : Z; cgx : Z; cgy : Z }.

Definition secp256k1 : curve := {|
  cp := 115792089237316195423570985008687907853269984665640564039457584007908834671663;
  ca := 0; cb := 7;
  cn := 115792089237316195423570985008687907852837564279074904382605163141518161494337;
  cgx := 55066263022277343669578718895168534326250603453777594175500187360389116729240;
  cgy := 32670510020758816978083085130507043184471273380659243275938904335757337482424 |}.

(* Python pow(b, e, m) for e >= 0 *)
Fixpoint modpow_pos (b : Z) (e : positive) (m : Z) : Z :=
  match e with
  | xH => b mod m
  | xO e' => let r := modpow_pos b e' m in (r * r) mod m
  | xI e' => let r := modpow_pos b e' m in ((r * r) mod m * b) mod m
  end.
Definition modpow (b e m : Z) : Z :=
  match e with
  | Z0 => 1 mod m
  | Zpos p => modpow_pos b p m
  | Zneg _ => 0    (* never used with a negative exponent *)
  end.

Section Curve.
Variable C : curve.
Let p := cp C.

(* FieldElement arithmetic (operands already in range) *)
Definition fadd (a b : Z) : Z := (a + b) mod p.
Definition fsub (a b : Z) : Z := (a - b) mod p.
Definition fmul (a b : Z) : Z := (a * b) mod p.
Definition finv (a : Z) : Z := modpow a (p - 2) p.
Definition fdiv (a b : Z) : Z := (a * finv b) mod p.
(* FieldElement.__pow__: a non-negative exponent is used as is, a negative one is reduced mod p-1 *)
Definition fpow (a n : Z) : Z :=
  if 0 <=? n then modpow a n p else modpow a (n mod (p - 1)) p.
Definition felem_ok (a : Z) : bool := (0 <=? a) && (a <? p).

(* a point: None is the point at infinity *)
Definition point := option (Z * Z).

(* `self.y**2 != self.x**3 + a * x + b`: `**` is FieldElement.__pow__ *)
Definition on_curve (x y : Z) : bool :=
  fpow y 2 =? fadd (fadd (fpow x 3) (fmul (ca C) x)) (cb C).

(* Point.__init__: raises ValueError when the equation does not hold *)
Definition mk_point (x y : Z) : result point :=
  if on_curve x y then Ok (Some (x, y)) else Err.

(* Point.__add__ *)
Definition padd (P Q : point) : result point :=
  match P, Q with
  | None, _ => Ok Q
  | _, None => Ok P
  | Some (x1, y1), Some (x2, y2) =>
      if (x1 =? x2) && negb (y1 =? y2) then Ok None
      else if negb (x1 =? x2) then
        let s := fdiv (fsub y2 y1) (fsub x2 x1) in
        let x := fsub (fsub (fpow s 2) x1) x2 in
        let y := fsub (fmul s (fsub x1 x)) y1 in
        mk_point x y
      else if y1 =? 0 then Ok None
      else
        let s := fdiv (fadd (fmul 3 (fpow x1 2)) (ca C)) (fmul 2 y1) in
        let x := fsub (fpow s 2) (fmul 2 x1) in
        let y := fsub (fmul s (fsub x1 x)) y1 in
        mk_point x y
  end.

(* Point.__rmul__: LSB-first double-and-add; the doubling after the last bit is executed too *)
Fixpoint rmul_pos (k : positive) (cur res : point) : result point :=
  match k with
  | xH => res' <- padd res cur ;; _ <- padd cur cur ;; Ok res'
  | xO k' => cur' <- padd cur cur ;; rmul_pos k' cur' res
  | xI k' => res' <- padd res cur ;; cur' <- padd cur cur ;; rmul_pos k' cur' res'
  end.
(* generic Point.__rmul__ (coefficient >= 0; a negative one loops forever in Python) *)
Definition rmul_raw (k : Z) (P : point) : result point :=
  match k with
  | Z0 => Ok None
  | Zpos q => rmul_pos q P None
  | Zneg _ => Err
  end.
(* S256Point.__rmul__: coefficient reduced mod n first *)
Definition rmul (k : Z) (P : point) : result point := rmul_raw (k mod cn C) P.

Definition G : point := Some (cgx C, cgy C).
Definition pneg (P : point) : result point := rmul (-1) P.

(* S256Point.__add__ with an int on the right: P + t*G *)
Definition padd_int (P : point) (t : Z) : result point := tg <- rmul t G ;; padd P tg.

(* S256Point.parity (AttributeError on the point at infinity -> Err) *)
Definition parity (P : point) : result Z :=
  match P with None => Err | Some (_, y) => Ok (y mod 2) end.
Definition even_point (P : point) : result point :=
  par <- parity P ;; if par =? 1 then pneg P else Ok P.

(* S256Field.sqrt: (p+1)/4 power, checked *)
Definition fsqrt (a : Z) : result Z :=
  let s := fpow a ((p + 1) / 4) in
  if fmul s s =? a then Ok s else Err.

(* S256Point(x, y) from ints: S256Field range checks, then the curve equation *)
Definition mk_point_int (x y : Z) : result point :=
  if felem_ok x && felem_ok y then mk_point x y else Err.

(* sec / xonly *)
Definition sec (P : point) (compressed : bool) : result bytes :=
  match P with
  | None => Err
  | Some (x, y) =>
      if compressed then Ok ((if y mod 2 =? 1 then 3 else 2) :: to_be 32 x)
      else Ok (4 :: to_be 32 x ++ to_be 32 y)
  end.
Definition xonly (P : point) : bytes :=
  match P with None => to_be 32 0 | Some (x, _) => to_be 32 x end.

(* parse_sec (after the fix: prefix and length are checked) *)
Definition parse_sec (b : bytes) : result point :=
  match b with
  | [] => Err
  | pre :: rest =>
      if (pre =? 4) && (length b =? 65)%nat then
        mk_point_int (from_be (firstn 32 rest)) (from_be (skipn 32 rest))
      else if negb ((pre =? 2) || (pre =? 3)) || negb (length b =? 33)%nat then Err
      else
        let x := from_be rest in
        if negb (felem_ok x) then Err
        else
          beta <- fsqrt (fadd (fpow x 3) (cb C)) ;;
          let even_beta := if beta mod 2 =? 0 then beta else p - beta in
          let odd_beta := if beta mod 2 =? 0 then p - beta else beta in
          (* S256Field(P - beta.num) raises for beta = 0 *)
          if negb (felem_ok even_beta) || negb (felem_ok odd_beta) then Err
          else mk_point x (if pre =? 2 then even_beta else odd_beta)
  end.

Definition parse_xonly (b : bytes) : result point :=
  let n := from_be b in
  if n =? 0 then Ok None
  else if negb (felem_ok n) then Err
  else
    beta <- fsqrt (fadd (fpow n 3) (cb C)) ;;
    if beta mod 2 =? 1 then
      (if felem_ok (p - beta) then mk_point n (p - beta) else Err)
    else mk_point n beta.

(* S256Point.parse *)
Definition parse_point (b : bytes) : result point :=
  if (length b =? 32)%nat then parse_xonly b
  else if (length b =? 33)%nat || (length b =? 65)%nat then parse_sec b
  else Err.

(* ---------------- ECDSA ---------------- *)
Let n := cn C.

(* S256Point.verify(z, sig) *)
Definition ecdsa_verify (P : point) (z r s : Z) : result bool :=
  if (r <? 1) || (n <=? r) || (s <? 1) || (n <=? s) then Ok false
  else
    let s_inv := modpow s (n - 2) n in
    let u := (z * s_inv) mod n in
    let v := (r * s_inv) mod n in
    uG <- rmul u G ;; vP <- rmul v P ;; total <- padd uG vP ;;
    match total with
    | None => Ok false
    | Some (x, _) => Ok (x mod n =? r)
    end.

Section Hmac.
Variable hmac256 : bytes -> bytes -> bytes.

(* PrivateKey.deterministic_k: RFC 6979 HMAC-DRBG; the retry loop runs on fuel *)
Fixpoint det_k_loop (fuel : nat) (k v : bytes) : result Z :=
  match fuel with
  | O => Err
  | S f =>
      let v1 := hmac256 k v in
      let cand := from_be v1 in
      if (1 <=? cand) && (cand <? n) then Ok cand
      else
        let k2 := hmac256 k (v1 ++ [0]) in
        let v2 := hmac256 k2 v1 in
        det_k_loop f k2 v2
  end.

Definition deterministic_k (fuel : nat) (secret z : Z) : result Z :=
  let z1 := if n <=? z then z - n else z in
  zb <- int_to_be z1 32 ;;
  sb <- int_to_be secret 32 ;;
  let k0 := repeatz 0 32 in
  let v0 := repeatz 1 32 in
  let k1 := hmac256 k0 (v0 ++ [0] ++ sb ++ zb) in
  let v1 := hmac256 k1 v0 in
  let k2 := hmac256 k1 (v1 ++ [1] ++ sb ++ zb) in
  let v2 := hmac256 k2 v1 in
  det_k_loop fuel k2 v2.

(* PrivateKey.sign with a given nonce *)
Definition ecdsa_sign_k (secret z k : Z) : result (Z * Z) :=
  kG <- rmul k G ;;
  match kG with
  | None => Err                           (* .x.num on None *)
  | Some (r, _) =>
      let k_inv := modpow k (n - 2) n in
      let s := ((z + r * secret) * k_inv) mod n in
      Ok (r, if n / 2 <? s then n - s else s)
  end.

Definition ecdsa_sign (fuel : nat) (secret z : Z) : result (Z * Z) :=
  k <- deterministic_k fuel secret z ;; ecdsa_sign_k secret z k.
End Hmac.

(* Signature.der *)
Fixpoint der_strip (fuel : nat) (b : bytes) : result bytes :=
  match fuel with
  | O => Err
  | S f =>
      match b with
      | [] => Err
      | b0 :: rest =>
          if b0 =? 0 then
            match rest with
            | [] => Err                                   (* rbin[1] IndexError *)
            | b1 :: _ => if 128 <=? b1 then Ok b else der_strip f rest
            end
          else Ok b
      end
  end.
Definition der_int (v : Z) : result bytes :=
  b <- int_to_be v 32 ;;
  let b1 := match b with b0 :: _ => if 128 <=? b0 then 0 :: b else b | [] => b end in
  b2 <- der_strip 40 b1 ;;
  Ok (2 :: zlen b2 :: b2).
Definition der (r s : Z) : result bytes :=
  rb <- der_int r ;; sb <- der_int s ;;
  let body := rb ++ sb in
  Ok (48 :: zlen body :: body).

(* Signature.parse *)
Definition der_parse (sig : bytes) : result (Z * Z) :=
  match sig with
  | compound :: ln :: marker :: rlen :: s1 =>
      if negb (compound =? 48) then Err
      else if negb (ln + 2 =? zlen sig) then Err
      else if negb (marker =? 2) then Err
      else
        let rb := firstn (Z.to_nat rlen) s1 in
        let s2 := skipn (Z.to_nat rlen) s1 in
        if (length rb =? 0)%nat then Err          (* int("", 16) *)
        else
          match s2 with
          | marker2 :: slen :: s3 =>
              if negb (marker2 =? 2) then Err
              else
                let sb := firstn (Z.to_nat slen) s3 in
                if (length sb =? 0)%nat then Err
                else if negb (zlen sig =? 6 + rlen + slen) then Err
                else Ok (from_be rb, from_be sb)
          | _ => Err
          end
  | _ => Err
  end.

(* ---------------- BIP340 ---------------- *)
Section Tagged.
Variable sha256 : bytes -> bytes.
Definition tagged_hash (tag msg : bytes) : bytes :=
  let t := sha256 tag in sha256 (t ++ t ++ msg).

Definition tag_aux : bytes := [66;73;80;48;51;52;48;47;97;117;120].               (* BIP0340/aux *)
Definition tag_challenge : bytes := [66;73;80;48;51;52;48;47;99;104;97;108;108;101;110;103;101].
Definition tag_nonce : bytes := [66;73;80;48;51;52;48;47;110;111;110;99;101].
Definition tag_taptweak : bytes := [84;97;112;84;119;101;97;107].
Definition tag_tapleaf : bytes := [84;97;112;76;101;97;102].
Definition tag_tapbranch : bytes := [84;97;112;66;114;97;110;99;104].
Definition tag_tapsighash : bytes := [84;97;112;83;105;103;104;97;115;104].
Definition tag_keyagg_list : bytes := [75;101;121;65;103;103;32;108;105;115;116].
Definition tag_keyagg_coef : bytes :=
  [75;101;121;65;103;103;32;99;111;101;102;102;105;99;105;101;110;116].
Definition tag_musig_nonce : bytes := [77;117;83;105;103;47;110;111;110;99;101;99;111;101;102].

Fixpoint xor_bytes (a b : bytes) : bytes :=
  match a, b with
  | x :: a', y :: b' => Z.lxor x y :: xor_bytes a' b'
  | _, _ => []
  end.

(* SchnorrSignature(r, s) / parse / serialize *)
Definition schnorr_parse (sig : bytes) : result (point * Z) :=
  let rb := firstn 32 sig in
  let sb := firstn 32 (skipn 32 sig) in
  r <- parse_point rb ;;
  let s := from_be sb in
  if n <=? s then Err else Ok (r, s).

Definition schnorr_serialize (r : point) (s : Z) : result bytes :=
  sb <- int_to_be s 32 ;; Ok (xonly r ++ sb).

(* S256Point.verify_schnorr(msg, sig) *)
Definition schnorr_verify (P : point) (msg : bytes) (r : point) (s : Z) : result bool :=
  pt <- even_point P ;;
  match r with
  | None => Ok false
  | Some _ =>
      let e := from_be (tagged_hash tag_challenge (xonly r ++ xonly pt ++ msg)) mod n in
      eP <- rmul (- e) pt ;;
      res <- padd_int eP s ;;
      match res with
      | None => Ok false
      | Some (x, y) => if y mod 2 =? 1 then Ok false else Ok (beq (xonly res) (xonly r))
      end
  end.

(* PrivateKey(secret): range check and public point *)
Definition pubkey (secret : Z) : result point :=
  if (n - 1 <? secret) || (secret <? 1) then Err else rmul secret G.

Definition even_secret (secret : Z) : result Z :=
  P <- pubkey secret ;; par <- parity P ;; Ok (if par =? 1 then n - secret else secret).

(* PrivateKey.bip340_k *)
Definition bip340_k (secret : Z) (msg aux : bytes) : result Z :=
  P <- pubkey secret ;;
  e <- even_secret secret ;;
  if negb (length msg =? 32)%nat || negb (length aux =? 32)%nat then Err
  else
    eb <- int_to_be e 32 ;;
    let t := xor_bytes eb (tagged_hash tag_aux aux) in
    Ok (from_be (tagged_hash tag_nonce (t ++ xonly P ++ msg)) mod n).

(* PrivateKey.sign_schnorr -> 64-byte serialisation *)
Definition schnorr_sign (secret : Z) (msg aux : bytes) : result bytes :=
  P <- pubkey secret ;;
  e <- even_secret secret ;;
  k0 <- bip340_k secret msg aux ;;
  r0 <- rmul k0 G ;;
  par <- parity r0 ;;
  let k := if par =? 1 then n - k0 else k0 in
  r <- (if par =? 1 then rmul k G else Ok r0) ;;
  let h := from_be (tagged_hash tag_challenge (xonly r ++ xonly P ++ msg)) mod n in
  let s := (k + e * h) mod n in
  if n <=? s then Err
  else
    ok <- schnorr_verify P msg r s ;;
    if ok then schnorr_serialize r s else Err.
End Tagged.

End Curve.
