(* Model/CFilter.v — mirrors the keyed part of buidl/compactfilter.py: hash_to_range,
   hashed_items, encode_gcs, CompactFilter (constructor, parse, compute_hash,
   __contains__).  SipHash is a Section variable here (instantiated with Model/Siphash.v
   in the dispatcher) so that the theorems hold for every keyed hash.  Definitions only. *)
From Coq Require Import Sorting.Mergesort Orders.
From V Require Import Base.Prelude Base.Ints Model.Helper Model.Gcs.

(* sorted(list of ints) *)
Module ZLeBool <: TotalLeBool.
  Definition t := Z.
  Definition leb (x y : Z) : bool := x <=? y.
  Theorem leb_total : forall x y, leb x y = true \/ leb y x = true.
  Proof. intros x y. unfold leb. destruct (x <=? y) eqn:E; [now left|right]. apply Z.leb_le. apply Z.leb_gt in E. lia. Qed.
End ZLeBool.
Module ZSort := Sort ZLeBool.
Definition zsort (l : list Z) : list Z := ZSort.sort l.

Fixpoint map_res {A B} (f : A -> result B) (l : list A) : result (list B) :=
  match l with
  | [] => Ok []
  | x :: r => y <- f x ;; ys <- map_res f r ;; Ok (y :: ys)
  end.

Section WithSip.
Variable sip : bytes -> bytes -> result Z.   (* _siphash(key, value); Err = the ValueError on a bad key *)

(* hash_to_range(key, value, f) = _siphash(key, value) * f >> 64 *)
Definition hash_to_range (key value : bytes) (f : Z) : result Z :=
  h <- sip key value ;; Ok (Z.shiftr (h * f) 64).

(* hashed_items(key, items): N = len(items), F = N * M *)
Definition hashed_items (key : bytes) (items : list bytes) : result (list Z) :=
  let f := zlen items * GOLOMB_M in
  l <- map_res (fun it => hash_to_range key it f) items ;; Ok (zsort l).

Definition encode_gcs (key : bytes) (items : list bytes) : result bytes :=
  l <- hashed_items key items ;; serialize_gcs l.

(* CompactFilter: f from the number of decoded elements (duplicates included), hashes as a set
   (modelled as the list; only membership is observed) *)
Record cfilter := { cf_key : bytes; cf_f : Z; cf_hashes : list Z }.

Definition cf_new (key : bytes) (hashes : list Z) : cfilter :=
  {| cf_key := key; cf_f := zlen hashes * GOLOMB_M; cf_hashes := hashes |}.

Definition cf_parse (key filter_bytes : bytes) : result cfilter :=
  l <- decode_gcs filter_bytes ;; Ok (cf_new key l).

Definition cf_compute_hash (cf : cfilter) (raw : bytes) : result Z :=
  hash_to_range (cf_key cf) raw (cf_f cf).

Definition zmem (x : Z) (l : list Z) : bool := existsb (Z.eqb x) l.

(* __contains__ (on the raw serialisation of the script) *)
Definition cf_contains (cf : cfilter) (raw : bytes) : result bool :=
  h <- cf_compute_hash cf raw ;; Ok (zmem h (cf_hashes cf)).

(* __init__ also keeps self.items = sorted(hashes), every decoded value, duplicates included;
   serialize() = serialize_gcs(self.items); hash() = hash256(serialize()) *)
Definition cf_items (cf : cfilter) : list Z := zsort (cf_hashes cf).
Definition cf_serialize (cf : cfilter) : result bytes := serialize_gcs (cf_items cf).
Definition cf_hash (hash256 : bytes -> bytes) (cf : cfilter) : result bytes :=
  b <- cf_serialize cf ;; Ok (hash256 b).

(* build, parse, query *)
Definition cf_build_query (key : bytes) (items : list bytes) (raw : bytes) : result bool :=
  fb <- encode_gcs key items ;; cf <- cf_parse key fb ;; cf_contains cf raw.
End WithSip.
