(* Model/Taproot.v — mirrors buidl/taproot.py (TapLeaf, TapBranch, ControlBlock),
   the taproot parts of buidl/pecc.py (S256Point.tweak / tweaked_key, PrivateKey.tweaked_key),
   buidl/witness.py (has_annex, control_block, tap_script) and the commitment check of the
   p2tr branch of Script.evaluate.  Definitions only. *)
From V Require Import Base.Prelude Base.Ints Model.Helper Model.Script Model.Pecc.

(* bytes.__lt__: lexicographic, a proper prefix is smaller *)
Fixpoint blt (a b : bytes) : bool :=
  match a, b with
  | _, [] => false
  | [], _ :: _ => true
  | x :: a', y :: b' => if x <? y then true else if y <? x then false else blt a' b'
  end.

(* helper.int_to_byte: ValueError outside 0..255 *)
Definition int_to_byte (n : Z) : result bytes :=
  if (255 <? n) || (n <? 0) then Err else Ok [n].

(* list equality of script commands: Script.__eq__ compares .commands only (not .raw);
   an int never equals a bytes object *)
Definition cmd_eqb (a b : cmd) : bool :=
  match a, b with
  | Op x, Op y => x =? y
  | Push x, Push y => beq x y
  | _, _ => false
  end.
Fixpoint cmds_eqb (a b : list cmd) : bool :=
  match a, b with
  | [], [] => true
  | x :: a', y :: b' => cmd_eqb x y && cmds_eqb a' b'
  | _, _ => false
  end.

(* a TapLeaf: leaf version and tap script *)
Definition leaf := (Z * script)%type.
(* TapLeaf.__eq__ *)
Definition leaf_eqb (a b : leaf) : bool :=
  (fst a =? fst b) && cmds_eqb (s_cmds (snd a)) (s_cmds (snd b)).

Inductive taptree : Type :=
| Leaf (v : Z) (sc : script)
| Branch (l r : taptree).

(* .leaves() *)
Fixpoint leaves (t : taptree) : list leaf :=
  match t with
  | Leaf v sc => [(v, sc)]
  | Branch l r => leaves l ++ leaves r
  end.

(* ControlBlock(tapleaf_version, parity, internal_pubkey, hashes) *)
Record control_block := {
  cb_version : Z; cb_parity : Z; cb_key : point; cb_hashes : list bytes }.

Section Taproot.
Variable C : curve.
Variable sha256 : bytes -> bytes.
Let n := cn C.

Definition hash_tapleaf := tagged_hash sha256 tag_tapleaf.
Definition hash_tapbranch := tagged_hash sha256 tag_tapbranch.
Definition hash_taptweak := tagged_hash sha256 tag_taptweak.

(* the bytes hashed by TapLeaf.hash: version byte || compact_size(script) || script *)
Definition leaf_preimage (v : Z) (sc : script) : result bytes :=
  vb <- int_to_byte v ;; s <- serialize_script sc ;; Ok (vb ++ s).
(* TapLeaf.hash *)
Definition tap_leaf_hash (v : Z) (sc : script) : result bytes :=
  pre <- leaf_preimage v sc ;; Ok (hash_tapleaf pre).

(* the ordered concatenation hashed for a branch *)
Definition branch_preimage (a b : bytes) : bytes := if blt a b then a ++ b else b ++ a.
Definition branch_hash (a b : bytes) : bytes := hash_tapbranch (branch_preimage a b).

(* TapLeaf.hash / TapBranch.hash *)
Fixpoint tree_hash (t : taptree) : result bytes :=
  match t with
  | Leaf v sc => tap_leaf_hash v sc
  | Branch l r => lh <- tree_hash l ;; rh <- tree_hash r ;; Ok (branch_hash lh rh)
  end.

(* `leaf in node.leaves()` *)
Definition leaf_in (lf : leaf) (t : taptree) : bool := existsb (leaf_eqb lf) (leaves t).

(* TapLeaf.path_hashes (always []) / TapBranch.path_hashes (None when the leaf is in
   neither subtree; `[*None, ...]` would be a TypeError, which cannot happen because
   membership in .leaves() was tested first) *)
Fixpoint path_hashes (t : taptree) (lf : leaf) : result (option (list bytes)) :=
  match t with
  | Leaf _ _ => Ok (Some [])
  | Branch l r =>
      if leaf_in lf l then
        pl <- path_hashes l lf ;;
        match pl with
        | None => Err
        | Some ph => rh <- tree_hash r ;; Ok (Some (ph ++ [rh]))
        end
      else if leaf_in lf r then
        pr <- path_hashes r lf ;;
        match pr with
        | None => Err
        | Some ph => lh <- tree_hash l ;; Ok (Some (ph ++ [lh]))
        end
      else Ok None
  end.

(* S256Point.tweak *)
Definition tweak (P : point) (root : bytes) : bytes := hash_taptweak (xonly P ++ root).
(* S256Point.tweaked_key(merkle_root) *)
Definition tweaked_key (P : point) (root : bytes) : result point :=
  let t := from_be (tweak P root) in
  ep <- even_point C P ;; padd_int C ep t.

(* PrivateKey.tweaked_key(merkle_root): the new secret; PrivateKey(new_secret) raises for 0 *)
Definition priv_tweaked_key (secret : Z) (root : bytes) : result Z :=
  P <- pubkey C secret ;;
  e <- even_secret C secret ;;
  let t := from_be (tweak P root) in
  let ns := (e + t) mod n in
  _ <- pubkey C ns ;; Ok ns.

(* TapLeaf.external_pubkey / TapBranch.external_pubkey *)
Definition tree_external_pubkey (t : taptree) (P : point) : result point :=
  h <- tree_hash t ;; tweaked_key P h.

(* TapLeaf.control_block(internal_pubkey, tap_leaf) and TapBranch.control_block(internal_pubkey, leaf);
   None when the leaf is not in the tree.  The version recorded is the version of the
   QUERIED leaf for a branch and of the node itself for a leaf (equal by TapLeaf.__eq__). *)
Definition tree_control_block (t : taptree) (P : point) (lf : leaf) : result (option control_block) :=
  match t with
  | Leaf v sc =>
      if negb (leaf_eqb lf (v, sc)) then Ok None
      else
        Q <- tree_external_pubkey t P ;; par <- parity Q ;;
        Ok (Some {| cb_version := v; cb_parity := par; cb_key := P; cb_hashes := [] |})
  | Branch _ _ =>
      if negb (leaf_in lf t) then Ok None
      else
        Q <- tree_external_pubkey t P ;; par <- parity Q ;;
        ph <- path_hashes t lf ;;
        match ph with
        | None => Err     (* unreachable: the leaf is in .leaves() *)
        | Some hs => Ok (Some {| cb_version := fst lf; cb_parity := par; cb_key := P; cb_hashes := hs |})
        end
  end.

(* the loop of ControlBlock.merkle_root *)
Fixpoint fold_path (cur : bytes) (hs : list bytes) : bytes :=
  match hs with
  | [] => cur
  | h :: r => fold_path (branch_hash cur h) r
  end.
(* ControlBlock.merkle_root(tap_script) *)
Definition cb_merkle_root (cb : control_block) (sc : script) : result bytes :=
  lh <- tap_leaf_hash (cb_version cb) sc ;; Ok (fold_path lh (cb_hashes cb)).
(* ControlBlock.external_pubkey(tap_script) *)
Definition cb_external_pubkey (cb : control_block) (sc : script) : result point :=
  root <- cb_merkle_root cb sc ;; tweaked_key (cb_key cb) root.

(* ControlBlock.serialize *)
Definition cb_serialize (cb : control_block) : result bytes :=
  b0 <- int_to_byte (cb_version cb + cb_parity cb) ;;
  Ok (b0 ++ xonly (cb_key cb) ++ concat (cb_hashes cb)).

(* b[33+32i : 65+32i] for i in range(m) *)
Fixpoint chunks32 (m : nat) (b : bytes) : list bytes :=
  match m with
  | O => []
  | S k => firstn 32 b :: chunks32 k (skipn 32 b)
  end.

(* ControlBlock.parse *)
Definition cb_parse (b : bytes) : result control_block :=
  let len := zlen b in
  if negb (len mod 32 =? 1) then Err
  else if (len <? 33) || (33 + 128 * 32 <? len) then Err
  else
    match b with
    | [] => Err
    | b0 :: rest =>
        k <- parse_xonly C (firstn 32 rest) ;;
        let m := Z.to_nat ((len - 33) / 32) in
        Ok {| cb_version := Z.land b0 254; cb_parity := Z.land b0 1; cb_key := k;
              cb_hashes := chunks32 m (skipn 32 rest) |}
    end.

(* ---- witness.py ---- *)
Definition last_item (items : list bytes) : bytes := last items [].

(* Witness.has_annex (after the fix: at least two items) *)
Definition has_annex (items : list bytes) : bool :=
  (2 <=? length items)%nat &&
  match last_item items with
  | [] => false
  | b0 :: _ => b0 =? 80
  end.

(* items[-k] (IndexError -> Err) *)
Definition item_from_end (items : list bytes) (k : nat) : result bytes :=
  if (length items <? k)%nat then Err
  else match nth_error items (length items - k) with Some x => Ok x | None => Err end.

(* Witness.control_block() *)
Definition witness_control_block (items : list bytes) : result control_block :=
  raw <- item_from_end items (if has_annex items then 2 else 1) ;; cb_parse raw.

(* Witness.tap_script(): Script.parse(BytesIO(encode_varstr(raw))) *)
Definition witness_tap_script (items : list bytes) : result script :=
  raw <- item_from_end items (if has_annex items then 3 else 2) ;;
  s <- encode_varstr raw ;;
  '(sc, _) <- parse_script s ;; Ok sc.

(* the commitment check of the script-path branch of Script.evaluate (witness v1):
   Err = exception, Ok false = "bad tweak point (parity)".  [q] is the 32-byte program. *)
Definition script_path_commit_check (q : bytes) (items : list bytes) : result bool :=
  match items with
  | [] => Ok false
  | _ =>
      let items' := if has_annex items then removelast items else items in
      if (length items' <=? 1)%nat then Err     (* key path: not this function *)
      else
        cb <- witness_control_block items' ;;
        sc <- witness_tap_script items' ;;
        tp <- cb_external_pubkey cb sc ;;
        par <- parity tp ;;
        if negb (par =? cb_parity cb) then Ok false
        else Ok (beq (xonly tp) q)
  end.

(* TapBranch.combine(nodes): halves recursively; fuel = len(nodes).  An empty list
   recurses forever in Python (RecursionError) -> Err *)
Fixpoint combine_nodes (fuel : nat) (nodes : list taptree) : result taptree :=
  match fuel with
  | O => Err
  | S f =>
      match nodes with
      | [x] => Ok x
      | _ =>
          let half := Nat.div2 (length nodes) in
          l <- combine_nodes f (firstn half nodes) ;;
          r <- combine_nodes f (skipn half nodes) ;;
          Ok (Branch l r)
      end
  end.

End Taproot.
