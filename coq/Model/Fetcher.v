(* Model/Fetcher.v — mirrors TxFetcher.fetch (buidl/tx.py:62) from the response bytes on:
   response.decode("utf-8").strip(), bytes.fromhex, Tx.parse, the id comparison with the
   requested (textual) id, and the class-level cache.  Definitions only. *)
From V Require Import Base.Prelude Base.Ints Model.Helper Model.Script Model.Tx.

(* ---- bytes.decode("utf-8"), strict: the result is the list of code points ---- *)
Definition cont (b : Z) : bool := (128 <=? b) && (b <=? 191).
Definition inr (lo hi b : Z) : bool := (lo <=? b) && (b <=? hi).

Fixpoint utf8_decode (s : bytes) : result (list Z) :=
  match s with
  | [] => Ok []
  | b0 :: r =>
      if b0 <? 128 then t <- utf8_decode r ;; Ok (b0 :: t)
      else if inr 194 223 b0 then
        match r with
        | b1 :: r1 =>
            if cont b1 then t <- utf8_decode r1 ;; Ok ((b0 - 192) * 64 + (b1 - 128) :: t) else Err
        | _ => Err
        end
      else if inr 224 239 b0 then
        match r with
        | b1 :: b2 :: r2 =>
            let lo := if b0 =? 224 then 160 else 128 in
            let hi := if b0 =? 237 then 159 else 191 in
            if inr lo hi b1 && cont b2 then
              t <- utf8_decode r2 ;; Ok ((b0 - 224) * 4096 + (b1 - 128) * 64 + (b2 - 128) :: t)
            else Err
        | _ => Err
        end
      else if inr 240 244 b0 then
        match r with
        | b1 :: b2 :: b3 :: r3 =>
            let lo := if b0 =? 240 then 144 else 128 in
            let hi := if b0 =? 244 then 143 else 191 in
            if inr lo hi b1 && cont b2 && cont b3 then
              t <- utf8_decode r3 ;;
              Ok ((b0 - 240) * 262144 + (b1 - 128) * 4096 + (b2 - 128) * 64 + (b3 - 128) :: t)
            else Err
        | _ => Err
        end
      else Err
  end.

(* str.strip(): Py_UNICODE_ISSPACE *)
Definition uspace (c : Z) : bool :=
  inr 9 13 c || inr 28 32 c || (c =? 133) || (c =? 160) || (c =? 5760) || inr 8192 8202 c ||
  (c =? 8232) || (c =? 8233) || (c =? 8239) || (c =? 8287) || (c =? 12288).
Fixpoint lstrip (s : list Z) : list Z :=
  match s with c :: r => if uspace c then lstrip r else s | [] => [] end.
Definition strip (s : list Z) : list Z := rev (lstrip (rev (lstrip s))).

(* bytes.fromhex on a str: ASCII whitespace (Py_ISSPACE) is skipped between byte pairs only *)
Definition aspace (c : Z) : bool := inr 9 13 c || (c =? 32).
Definition hexval (c : Z) : option Z :=
  if inr 48 57 c then Some (c - 48)
  else if inr 97 102 c then Some (c - 87)
  else if inr 65 70 c then Some (c - 55)
  else None.
Fixpoint fromhex (s : list Z) : result bytes :=
  match s with
  | [] => Ok []
  | c :: r =>
      if aspace c then fromhex r
      else match hexval c, r with
           | Some h, d :: r' =>
               match hexval d with
               | Some l => t <- fromhex r' ;; Ok (16 * h + l :: t)
               | None => Err
               end
           | _, _ => Err
           end
  end.

(* bytes.hex() *)
Definition hexdig (n : Z) : Z := if n <? 10 then 48 + n else 87 + n.
Definition hexlify (b : bytes) : list Z := flat_map (fun x => [hexdig (x / 16); hexdig (x mod 16)]) b.

Section WithHash.
Variable hash256 : bytes -> bytes.

(* Tx.id() *)
Definition tx_id (t : tx) : result (list Z) := h <- tx_hash hash256 t ;; Ok (hexlify h).

(* the network part of TxFetcher.fetch: [resp] is what urlopen(...).read() returned,
   [id] the requested id (code points of the str) *)
Definition fetch_text (resp : bytes) (id : list Z) : result tx :=
  txt <- utf8_decode resp ;;
  raw <- fromhex (strip txt) ;;
  '(t, _) <- tx_parse raw ;;
  computed <- tx_id t ;;
  if beq computed id then Ok t else Err.

(* the class-level cache: association list, newest binding first *)
Definition cache := list (list Z * tx).
Fixpoint lookup (c : cache) (id : list Z) : option tx :=
  match c with
  | [] => None
  | (k, t) :: r => if beq k id then Some t else lookup r id
  end.

(* TxFetcher.fetch(tx_id, fresh): the response is consulted only on a miss or when fresh *)
Definition fetch_step (c : cache) (fresh : bool) (resp : bytes) (id : list Z) : cache * result tx :=
  match (if fresh then None else lookup c id) with
  | Some t => (c, Ok t)
  | None =>
      match fetch_text resp id with
      | Ok t => ((id, t) :: c, Ok t)
      | Err => (c, Err)
      end
  end.

Fixpoint fetch_run (c : cache) (ops : list (bool * bytes * list Z)) : list (result tx) :=
  match ops with
  | [] => []
  | (fresh, resp, id) :: r =>
      let '(c', o) := fetch_step c fresh resp id in o :: fetch_run c' r
  end.
End WithHash.
