(* Model/Tx.v — mirrors buidl/tx.py (Tx / TxIn / TxOut codec, txid, fetcher check) and
   buidl/witness.py (Witness codec).  Definitions only. *)
From V Require Import Base.Prelude Base.Ints Model.Helper Model.Script.

Record txin := {
  i_prev_tx : bytes; i_prev_index : Z; i_script : script; i_sequence : Z; i_witness : list bytes }.
Record txout := { o_amount : Z; o_script : script }.
Record tx := {
  t_version : Z; t_ins : list txin; t_outs : list txout; t_locktime : Z; t_segwit : bool }.

(* ---- Witness ---- *)
Fixpoint witness_items (items : list bytes) : result bytes :=
  match items with
  | [] => Ok []
  | it :: r => a <- encode_varstr it ;; b <- witness_items r ;; Ok (a ++ b)
  end.
Definition witness_serialize (items : list bytes) : result bytes :=
  n <- encode_varint (zlen items) ;; b <- witness_items items ;; Ok (n ++ b).

(* n items; fuel = remaining bytes (every item needs at least its varint byte) *)
Fixpoint witness_loop (fuel : nat) (n : Z) (s : bytes) (acc : list bytes)
  : result (list bytes * bytes) :=
  if n <=? 0 then Ok (rev acc, s)
  else match fuel with
       | O => Err
       | S f => '(it, r) <- read_varstr s ;; witness_loop f (n - 1) r (it :: acc)
       end.
Definition witness_parse (s : bytes) : result (list bytes * bytes) :=
  '(n, r) <- read_varint s ;; witness_loop (length r) n r [].

(* ---- TxIn / TxOut ---- *)
Definition txin_parse (s : bytes) : result (txin * bytes) :=
  let '(pt, s1) := read 32 s in
  let '(pi, s2) := read 4 s1 in
  '(sc, s3) <- parse_script s2 ;;
  let '(sq, s4) := read 4 s3 in
  Ok ({| i_prev_tx := rev pt; i_prev_index := from_le pi; i_script := sc;
         i_sequence := from_le sq; i_witness := [] |}, s4).

Definition txin_serialize (i : txin) : result bytes :=
  pi <- int_to_le (i_prev_index i) 4 ;;
  sc <- serialize_script (i_script i) ;;
  sq <- int_to_le (i_sequence i) 4 ;;
  Ok (rev (i_prev_tx i) ++ pi ++ sc ++ sq).

Definition txout_parse (s : bytes) : result (txout * bytes) :=
  let '(am, s1) := read 8 s in
  '(sc, s2) <- parse_script_pubkey s1 ;;
  Ok ({| o_amount := from_le am; o_script := sc |}, s2).

Definition txout_serialize (o : txout) : result bytes :=
  am <- int_to_le (o_amount o) 8 ;;
  sc <- serialize_script (o_script o) ;;
  Ok (am ++ sc).

Fixpoint ins_loop (fuel : nat) (n : Z) (s : bytes) (acc : list txin)
  : result (list txin * bytes) :=
  if n <=? 0 then Ok (rev acc, s)
  else match fuel with
       | O => Err
       | S f => '(i, r) <- txin_parse s ;; ins_loop f (n - 1) r (i :: acc)
       end.
Fixpoint outs_loop (fuel : nat) (n : Z) (s : bytes) (acc : list txout)
  : result (list txout * bytes) :=
  if n <=? 0 then Ok (rev acc, s)
  else match fuel with
       | O => Err
       | S f => '(o, r) <- txout_parse s ;; outs_loop f (n - 1) r (o :: acc)
       end.

Fixpoint ser_ins (l : list txin) : result bytes :=
  match l with [] => Ok [] | i :: r => a <- txin_serialize i ;; b <- ser_ins r ;; Ok (a ++ b) end.
Fixpoint ser_outs (l : list txout) : result bytes :=
  match l with [] => Ok [] | o :: r => a <- txout_serialize o ;; b <- ser_outs r ;; Ok (a ++ b) end.
Fixpoint ser_wits (l : list txin) : result bytes :=
  match l with
  | [] => Ok []
  | i :: r => a <- witness_serialize (i_witness i) ;; b <- ser_wits r ;; Ok (a ++ b)
  end.

(* one witness per input, in order *)
Fixpoint wits_loop (ins : list txin) (s : bytes) (acc : list txin) : result (list txin * bytes) :=
  match ins with
  | [] => Ok (rev acc, s)
  | i :: r =>
      '(w, s1) <- witness_parse s ;;
      wits_loop r s1 ({| i_prev_tx := i_prev_tx i; i_prev_index := i_prev_index i;
                         i_script := i_script i; i_sequence := i_sequence i; i_witness := w |} :: acc)
  end.

(* ---- Tx ---- *)
Definition parse_legacy (s : bytes) : result (tx * bytes) :=
  let '(v, s1) := read 4 s in
  '(ni, s2) <- read_varint s1 ;;
  '(ins, s3) <- ins_loop (length s2) ni s2 [] ;;
  '(no, s4) <- read_varint s3 ;;
  '(outs, s5) <- outs_loop (length s4) no s4 [] ;;
  let '(lt, s6) := read 4 s5 in
  Ok ({| t_version := from_le v; t_ins := ins; t_outs := outs; t_locktime := from_le lt;
         t_segwit := false |}, s6).

Definition parse_segwit (s : bytes) : result (tx * bytes) :=
  let '(v, s1) := read 4 s in
  let '(marker, s1') := read 2 s1 in
  if negb (beq marker [0; 1]) then Err
  else
    '(ni, s2) <- read_varint s1' ;;
    '(ins, s3) <- ins_loop (length s2) ni s2 [] ;;
    '(no, s4) <- read_varint s3 ;;
    '(outs, s5) <- outs_loop (length s4) no s4 [] ;;
    '(ins', s6) <- wits_loop ins s5 [] ;;
    let '(lt, s7) := read 4 s6 in
    Ok ({| t_version := from_le v; t_ins := ins'; t_outs := outs; t_locktime := from_le lt;
           t_segwit := true |}, s7).

(* Tx.parse: sniff byte 5 (s.read(4); s.read(1)), then s.seek(-5, 1).  On a BytesIO a
   relative seek before the start is clamped to 0 (it does not raise), so a stream shorter
   than 5 bytes goes to parse_legacy, which fails in read_varint (lemma tx_parse_short). *)
Definition tx_parse (s : bytes) : result (tx * bytes) :=
  match nth_error s 4 with
  | Some 0 => parse_segwit s
  | _ => parse_legacy s
  end.

Definition serialize_legacy (t : tx) : result bytes :=
  v <- int_to_le (t_version t) 4 ;;
  ni <- encode_varint (zlen (t_ins t)) ;;
  ins <- ser_ins (t_ins t) ;;
  no <- encode_varint (zlen (t_outs t)) ;;
  outs <- ser_outs (t_outs t) ;;
  lt <- int_to_le (t_locktime t) 4 ;;
  Ok (v ++ ni ++ ins ++ no ++ outs ++ lt).

Definition serialize_segwit (t : tx) : result bytes :=
  v <- int_to_le (t_version t) 4 ;;
  ni <- encode_varint (zlen (t_ins t)) ;;
  ins <- ser_ins (t_ins t) ;;
  no <- encode_varint (zlen (t_outs t)) ;;
  outs <- ser_outs (t_outs t) ;;
  w <- ser_wits (t_ins t) ;;
  lt <- int_to_le (t_locktime t) 4 ;;
  Ok (v ++ [0; 1] ++ ni ++ ins ++ no ++ outs ++ w ++ lt).

Definition tx_serialize (t : tx) : result bytes :=
  if t_segwit t then serialize_segwit t else serialize_legacy t.

Section WithHash.
Variable hash256 : bytes -> bytes.

(* Tx.hash(): byte-reversed hash256 of the legacy serialisation *)
Definition tx_hash (t : tx) : result bytes :=
  b <- serialize_legacy t ;; Ok (rev (hash256 b)).

(* TxFetcher.fetch on a decoded response: parse, compare ids (after the fix the id of
   the parsed transaction is what is compared), cache on success *)
Definition fetch_check (raw : bytes) (tx_id : bytes) : result tx :=
  '(t, _) <- tx_parse raw ;;
  h <- tx_hash t ;;
  if beq h tx_id then Ok t else Err.
End WithHash.
