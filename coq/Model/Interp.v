(* Model/Interp.v — mirrors Script.evaluate(tx_obj, input_index, allow_p2sh, allow_witness)
   (buidl/script.py) up to the point where it enters one of its P2SH / witness-v0 / witness-v1
   special cases.  Definitions only.

   The special cases are triggered by the SHAPE of the command list / stack right after a
   data push, provided the corresponding keyword flag is set (both default to True); property
   C07 excludes those byte patterns, so the model returns the distinguished outcome [OSpecial]
   exactly when Script.evaluate would enter one of them:
     (a) allow_p2sh and the remaining commands are exactly [0xa9, <20 bytes>, 0x87]   (P2SH)
     (b) allow_witness and the stack is [b"", <20 bytes>] or [b"", <32 bytes>]   (p2wpkh / p2wsh)
     (c) allow_witness and the stack is [b"\x01", <32 bytes>]                         (p2tr)
   (Each rule fires at most once in the Python code; the model stops at the first one, so the
   flags never change here.)  With both flags False no byte pattern is special and [OSpecial]
   is never returned.
   Stacks have the TOP FIRST (see Model/Op.v).  [OFalse] = evaluate returns False or raises. *)
From V Require Import Base.Prelude Base.Ints Model.Script Model.Op.

Inductive outcome : Type := OTrue | OFalse | OSpecial.

(* stack == [bottom, top] in Python order  <->  [top; bottom] here *)
Definition special_stack (s : stack) : bool :=
  match s with
  | [x; []] => (length x =? 20)%nat || (length x =? 32)%nat
  | [x; [1]] => (length x =? 32)%nat
  | _ => false
  end.

Definition special_after_push (allow_p2sh allow_witness : bool) (rest : list cmd) (s : stack) : bool :=
  (allow_p2sh && is_p2sh rest) || (allow_witness && special_stack s).

(* the test after the loop: empty stack -> False; decode_num(stack.pop()) == 0 -> False *)
Definition final_test (s : stack) : outcome :=
  match s with
  | [] => OFalse
  | e :: _ => if decode_num e =? 0 then OFalse else OTrue
  end.

Section Eval.
  Variable table : Z -> option opfn.          (* op_lookup *)
  Variable c : txctx.
  Variables allow_p2sh allow_witness : bool.

  (* one integer command; returns the new stacks and the new command list *)
  Definition exec_op (o : Z) (rest : list cmd) (s a : stack)
    : result (list cmd * stack * stack) :=
    match table o with
    | None => Err                                            (* KeyError *)
    | Some (FIf neg) => '(s', rest') <- op_if_gen neg s rest ;; Ok (rest', s', a)
    | Some (FAlt f) => '(s', a') <- f s a ;; Ok (rest, s', a')
    | Some (FTx f) => s' <- f c s ;; Ok (rest, s', a)
    | Some (FStack f) => s' <- f s ;; Ok (rest, s', a)
    end.

  (* while len(commands) > 0.  Every iteration removes the first command; OP_IF / OP_NOTIF
     replace the rest by a list that is never longer, so the length of the command list is a
     strictly decreasing measure and [fuel] = that length suffices (Proofs/InterpP.v). *)
  Fixpoint eval_loop (fuel : nat) (cmds : list cmd) (s a : stack) : outcome :=
    match cmds with
    | [] => final_test s
    | cm :: rest =>
        match fuel with
        | O => OFalse
        | S f =>
            match cm with
            | Op o =>
                match exec_op o rest s a with
                | Err => OFalse
                | Ok (rest', s', a') => eval_loop f rest' s' a'
                end
            | Push b =>
                let s' := b :: s in
                if special_after_push allow_p2sh allow_witness rest s' then OSpecial else eval_loop f rest s' a
            end
        end
    end.

  Definition evaluate (cmds : list cmd) : outcome := eval_loop (length cmds) cmds [] [].
End Eval.
