(* Model/Bech32.v — mirrors buidl/bech32.py: bech32_polymod, hrp_expand, bech32 / bech32m
   create and verify checksum, group_32, convertbits, bc32encode / bc32decode,
   cbor_encode / cbor_decode, encode_bech32_checksum, decode_bech32.
   Text = list of code points; networks are numbered 0 mainnet, 1 testnet, 2 signet,
   3 regtest.  Definitions only. *)
From V Require Import Base.Prelude Base.Ints Base.Lfsr Model.Helper Model.Base58.

(* "qpzry9x8gf2tvdw0s3jn54khce6mua7l" *)
Definition bech32_alphabet : list Z :=
  [113;112;122;114;121;57;120;56;103;102;50;116;118;100;119;48;
   115;51;106;110;53;52;107;104;99;101;54;109;117;97;55;108].

Definition GEN : list Z := [996825010; 642813549; 513874426; 1027748829; 705979059].
Definition BECH32M_CONSTANT : Z := 734539939.      (* 0x2BC830A3 *)
Definition BC32_CONSTANT : Z := 1073741823.        (* 0x3FFFFFFF *)

(* chk = (chk & 0x1FFFFFF) << 5 ^ v, then ^= GEN[i] for the set bits i of chk >> 25 *)
Definition pm_step : Z -> Z -> Z := step GEN 25 5.
Definition bech32_polymod (values : list Z) : Z := fold_left pm_step values 1.

(* [x >> 5 for x in b] + [0] + [x & 31 for x in b] *)
Definition hrp_expand (s : list Z) : list Z :=
  map (fun x => Z.shiftr x 5) s ++ [0] ++ map (fun x => Z.land x 31) s.

Definition zeros6 : list Z := [0;0;0;0;0;0].
(* [(polymod >> 5 * (5 - i)) & 31 for i in range(6)] *)
Definition chk_syms (pm : Z) : list Z :=
  map (fun i => Z.land (Z.shiftr pm (5 * (5 - i))) 31) [0;1;2;3;4;5].

Definition verify_checksum (const : Z) (hrp data : list Z) : bool :=
  bech32_polymod (hrp_expand hrp ++ data) =? const.
Definition create_checksum (const : Z) (hrp data : list Z) : list Z :=
  chk_syms (Z.lxor (bech32_polymod ((hrp_expand hrp ++ data) ++ zeros6)) const).

Definition bech32_verify_checksum := verify_checksum 1.
Definition bech32_create_checksum := create_checksum 1.
Definition bech32m_verify_checksum := verify_checksum BECH32M_CONSTANT.
Definition bech32m_create_checksum := create_checksum BECH32M_CONSTANT.

(* ---- group_32 ---- *)

(* `while unused_bits > 5:` — (unused_bits, current, result reversed) *)
Fixpoint g32_while (fuel : nat) (unused current : Z) (acc : list Z) : result (Z * Z * list Z) :=
  if 5 <? unused then
    match fuel with
    | O => Err
    | S f => let u := unused - 5 in
             g32_while f u (Z.land current (Z.ones u)) (Z.shiftr current u :: acc)
    end
  else Ok (unused, current, acc).

Fixpoint g32_loop (s : bytes) (unused current : Z) (acc : list Z) : result (Z * Z * list Z) :=
  match s with
  | [] => Ok (unused, current, acc)
  | c :: r =>
      '(u, cur, acc') <- g32_while (Z.to_nat (unused + 8)) (unused + 8)
                                   (Z.shiftl current 8 + c) acc ;;
      g32_loop r u cur acc'
  end.

Definition group_32 (s : bytes) : result (list Z) :=
  '(u, cur, acc) <- g32_loop s 0 0 [] ;;
  Ok (rev' (Z.shiftl cur (5 - u) :: acc)).

(* ---- convertbits ---- *)

(* `while bits >= tobits:` — (bits, ret reversed) *)
Fixpoint cb_while (fuel : nat) (tb acc bits : Z) (ret : list Z) : result (Z * list Z) :=
  if bits <? tb then Ok (bits, ret)
  else match fuel with
       | O => Err
       | S f => cb_while f tb acc (bits - tb)
                         (Z.land (Z.shiftr acc (bits - tb)) (Z.ones tb) :: ret)
       end.

(* the for loop; None = the early `return None` *)
Fixpoint cb_loop (fb tb : Z) (data : list Z) (acc bits : Z) (ret : list Z)
  : result (option (Z * Z * list Z)) :=
  match data with
  | [] => Ok (Some (acc, bits, ret))
  | v :: r =>
      if (v <? 0) || negb (Z.shiftr v fb =? 0) then Ok None
      else
        let acc' := Z.land (Z.lor (Z.shiftl acc fb) v) (Z.ones (fb + tb - 1)) in
        '(bits', ret') <- cb_while (Z.to_nat (bits + fb)) tb acc' (bits + fb) ret ;;
        cb_loop fb tb r acc' bits' ret'
  end.

Definition convertbits (data : list Z) (fb tb : Z) (pad : bool) : result (option (list Z)) :=
  st <- cb_loop fb tb data 0 0 [] ;;
  match st with
  | None => Ok None
  | Some (acc, bits, ret) =>
      let last := Z.land (Z.shiftl acc (tb - bits)) (Z.ones tb) in
      if pad then
        (if bits =? 0 then Ok (Some (rev' ret)) else Ok (Some (rev' (last :: ret))))
      else if (fb <=? bits) || negb (last =? 0) then Ok None
      else Ok (Some (rev' ret))
  end.

(* ---- alphabet ---- *)

(* BECH32_ALPHABET[n] with Python's negative indices; IndexError otherwise *)
Definition bech32_char (n : Z) : result Z :=
  if (0 <=? n) && (n <? 32) then Ok (nth (Z.to_nat n) bech32_alphabet 0)
  else if (-32 <=? n) && (n <? 0) then Ok (nth (Z.to_nat (32 + n)) bech32_alphabet 0)
  else Err.

Fixpoint mapr {A B} (f : A -> result B) (l : list A) : result (list B) :=
  match l with
  | [] => Ok []
  | x :: r => y <- f x ;; t <- mapr f r ;; Ok (y :: t)
  end.

Definition encode_bech32 (nums : list Z) : result (list Z) := mapr bech32_char nums.
Definition bech32_index (c : Z) : result Z := index_of c bech32_alphabet 0.

(* ---- bc32 ---- *)

Definition bc32encode (data : bytes) : result (list Z) :=
  o <- convertbits data 8 5 true ;;
  match o with
  | None => Err                                        (* [0] + None: TypeError *)
  | Some dd =>
      let pm := Z.lxor (bech32_polymod (0 :: dd ++ zeros6)) BC32_CONSTANT in
      encode_bech32 (dd ++ chk_syms pm)
  end.

(* ASCII str.lower() / str.upper() (inputs of the model are ASCII) *)
Definition lower_c (c : Z) : Z := if (65 <=? c) && (c <=? 90) then c + 32 else c.
Definition upper_c (c : Z) : Z := if (97 <=? c) && (c <=? 122) then c - 32 else c.
Definition lower (s : list Z) : list Z := map lower_c s.
Definition upper (s : list Z) : list Z := map upper_c s.

(* res[:-6] *)
Definition drop_last6 {A} (l : list A) : list A := firstn (length l - 6)%nat l.

(* None = the function returned None; Err = it raised *)
Definition bc32decode (s : list Z) : result (option bytes) :=
  if negb (beq (lower s) s) && negb (beq (upper s) s) then Ok None
  else
    let s := lower s in
    if negb (forallb (fun c => existsb (Z.eqb c) bech32_alphabet) s) then Ok None
    else
      res <- mapr bech32_index s ;;
      if negb (bech32_polymod (0 :: res) =? BC32_CONSTANT) then Ok None
      else
        o <- convertbits (drop_last6 res) 5 8 false ;;
        match o with
        | None => Err                                  (* bytes(None): TypeError *)
        | Some b => Ok (Some b)
        end.

(* ---- CBOR byte strings ---- *)

Definition cbor_encode (data : bytes) : result bytes :=
  let l := zlen data in
  if l <=? 23 then Ok ((64 + l) :: data)
  else if l <=? 255 then Ok (88 :: l :: data)
  else if l <=? 65535 then Ok (89 :: to_be 2 l ++ data)
  else p <- int_to_be l 4 ;; Ok (96 :: p ++ data).     (* OverflowError from 2^32 on *)

(* s.read(n) never fails: short reads are silent.  None = `return None` *)
Definition cbor_decode (data : bytes) : result (option bytes) :=
  match data with
  | [] => Err                                           (* s.read(1)[0]: IndexError *)
  | b :: s =>
      if (64 <=? b) && (b <? 88) then Ok (Some (fst (readz (b - 64) s)))
      else if b =? 88 then
        match s with
        | [] => Err
        | l :: s' => Ok (Some (fst (readz l s')))
        end
      else if b =? 89 then Ok (Some (fst (readz (from_be (firstn 2 s)) (skipn 2 s))))
      else if b =? 96 then Ok (Some (fst (readz (from_be (firstn 4 s)) (skipn 4 s))))
      else Ok None
  end.

(* ---- segwit addresses ---- *)

Definition hrp_bc : list Z := [98;99].
Definition hrp_tb : list Z := [116;98].
Definition hrp_bcrt : list Z := [98;99;114;116].

(* PREFIX.get(network) *)
Definition prefix_of (net : Z) : result (list Z) :=
  if net =? 0 then Ok hrp_bc
  else if (net =? 1) || (net =? 2) then Ok hrp_tb
  else if net =? 3 then Ok hrp_bcrt
  else Err.

(* NET_FOR_PREFIX.get(hrp): signet is not in the inverse table *)
Definition net_for_prefix (hrp : list Z) : result Z :=
  if beq hrp hrp_bc then Ok 0
  else if beq hrp hrp_tb then Ok 1
  else if beq hrp hrp_bcrt then Ok 3
  else Err.

Definition encode_bech32_checksum (s : bytes) (net : Z) : result (list Z) :=
  prefix <- prefix_of net ;;
  match s with
  | v0 :: len :: rest =>
      let version := if 0 <? v0 then v0 - 80 else v0 in
      g <- group_32 (fst (readz len rest)) ;;
      let data := version :: g in
      let checksum := if version =? 0 then bech32_create_checksum prefix data
                      else bech32m_create_checksum prefix data in
      t <- encode_bech32 (data ++ checksum) ;;
      Ok (prefix ++ [49] ++ t)
  | _ => Err                                            (* s[0] / s[1]: IndexError *)
  end.

Fixpoint starts_with (p s : list Z) : bool :=
  match p, s with
  | [], _ => true
  | x :: p', y :: s' => (x =? y) && starts_with p' s'
  | _ :: _, [] => false
  end.

(* first occurrence of c *)
Fixpoint split_at (c : Z) (s : list Z) : option (list Z * list Z) :=
  match s with
  | [] => None
  | x :: r => if x =? c then Some ([], r)
              else match split_at c r with
                   | Some (a, b) => Some (x :: a, b)
                   | None => None
                   end
  end.

(* `hrp, raw_data = s.split("1")`: exactly one '1' or ValueError *)
Definition split_one (s : list Z) : result (list Z * list Z) :=
  match split_at 49 s with
  | None => Err
  | Some (a, b) => if existsb (Z.eqb 49) b then Err else Ok (a, b)
  end.

(* for digit in data[1:-6]: number = (number << 5) + digit *)
Definition number_of (ds : list Z) : Z := fold_left (fun n d => Z.shiftl n 5 + d) ds 0.

(* regtest_prefix + "1" *)
Definition hrp_bcrt1 : list Z := [98;99;114;116;49].

(* decode_bech32 after the fixes 00bc7dc (the regtest branch requires "bcrt1") and cfb8181
   (BIP173 padding: at most 4 bits, all zero; checked before the shift and before to_bytes) *)
Definition decode_bech32 (s : list Z) : result (Z * Z * bytes) :=
  '(hrp, raw_data) <- (if starts_with hrp_bcrt1 s then Ok (hrp_bcrt, skipn 5 s)
                       else split_one s) ;;
  network <- net_for_prefix hrp ;;
  data <- mapr bech32_index raw_data ;;
  match data with
  | [] => Err                                           (* data[0]: IndexError *)
  | version :: _ =>
      let ok := if version =? 0 then bech32_verify_checksum hrp data
                else bech32m_verify_checksum hrp data in
      if negb ok then Err
      else
        let number := number_of (firstn (length data - 7)%nat (skipn 1 data)) in
        let num_bytes := (zlen data - 7) * 5 / 8 in
        let bits_to_ignore := (zlen data - 7) * 5 mod 8 in
        (* if bits_to_ignore > 4 or number & ((1 << bits_to_ignore) - 1): raise *)
        if (4 <? bits_to_ignore) || negb (Z.land number (Z.shiftl 1 bits_to_ignore - 1) =? 0)
        then Err
        else
        let number := Z.shiftr number bits_to_ignore in
        if num_bytes <? 0 then Err                       (* to_bytes(negative length) *)
        else
          h <- int_to_be number (Z.to_nat num_bytes) ;;
          if (num_bytes <? 2) || (40 <? num_bytes) then Err
          else Ok (network, version, h)
  end.
