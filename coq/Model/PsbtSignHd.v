(* Model/PsbtSignHd.v — mirrors PSBT.sign(hd_priv) (buidl/psbt.py:435): for every input and every
   BIP32 derivation of it whose root fingerprint (first four bytes of the raw path) equals the
   fingerprint of hd_priv, the private key at that path signs the input and the signature is stored
   under the SEC of THAT key (private_key.point.sec(), which need not be the dictionary key of the
   derivation).  Oracles: [derive raw_path] = hd_priv.traverse(path).private_key.point.sec() (Err if
   traverse raises) and the two signature producers of Model/PsbtSign.v.  Dictionaries are walked in
   key order; the result does not depend on the order (same key -> same signature; any failure fails
   the call).  Definitions only. *)
From V Require Import Base.Prelude Base.Ints Model.Helper Model.Script Model.Tx Model.Psbt Model.PsbtSign.

Section SignHd.
Variable sign_segwit : bytes -> tx -> Z -> option script -> option script -> result bytes.
Variable sign_legacy : bytes -> tx -> Z -> option script -> result bytes.
Variable derive : bytes -> result bytes.

Fixpoint sign_hd_named (fp : bytes) (t : tx) (i : Z) (ti : txin) (named : dict bytes) (st : psbt_in) (b : bool)
  : result (psbt_in * bool) :=
  match named with
  | [] => Ok (st, b)
  | (_, path) :: r =>
      if beq (firstn 4 path) fp then
        sec <- derive path ;;
        sg <- sig_for sign_segwit sign_legacy sec t i st ti ;;
        sign_hd_named fp t i ti r (set_sigs st (dset sec sg (pi_sigs st))) true
      else sign_hd_named fp t i ti r st b
  end.

Fixpoint sign_hd_ins (fp : bytes) (t : tx) (i : Z) (ins : list psbt_in) (tis : list txin)
  : result (list psbt_in * bool) :=
  match ins, tis with
  | [], _ => Ok ([], false)
  | st :: r, ti :: r' =>
      '(st', b) <- sign_hd_named fp t i ti (pi_named st) st false ;;
      '(r'', b') <- sign_hd_ins fp t (i + 1) r r' ;;
      Ok (st' :: r'', b || b')
  | _ :: _, [] => Err
  end.

Definition sign_hd (fp : bytes) (p : psbt) : result (psbt * bool) :=
  '(ins, b) <- sign_hd_ins fp (p_tx p) 0 (p_ins p) (t_ins (p_tx p)) ;;
  Ok (with_ins p ins, b).
End SignHd.
