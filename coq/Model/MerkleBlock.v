(* Model/MerkleBlock.v — mirrors buidl/merkleblock.py.  Definitions only.

   MerkleTree.populate_tree is modelled twice:
   * [populate_tree]     — the FAITHFUL cursor machine: node table, current depth/index,
                           one loop iteration per [populate_loop] step, explicit fuel;
   * [populate_tree_rec] — the equivalent recursive depth-first traversal, on which the
                           BIP37 theorems are proved.
   Heights: height = max_depth - depth (leaves have height 0). *)
From V Require Import Base.Prelude Base.Ints Model.Helper Model.Block Model.Merkle.

(* int.bit_length() for a non-negative int *)
Definition bit_length (z : Z) : Z := if z <=? 0 then 0 else Z.log2 z + 1.

(* math.ceil(total / 2 ** h): the float division is exact for total < 2^53 (the wire
   format limits total to 2^32 - 1) *)
Definition width (n h : nat) : nat := ((n + 2 ^ h - 1) / 2 ^ h)%nat.

(* self.max_depth = (self.total - 1).bit_length() *)
Definition max_depth (total : Z) : nat := Z.to_nat (bit_length (total - 1)).

(* for h in hashes: if len(h) != 32: raise ValueError *)
Definition all32 (hs : list bytes) : bool := forallb (fun h => (length h =? 32)%nat) hs.

Section MB.
Variable hash256 : bytes -> bytes.

(* ------------------------------------------------------------------ *)
(* the cursor machine *)

Record mtree := {
  mt_maxd : nat;
  mt_nodes : list (list (option bytes));     (* nodes[depth][index], None = not yet known *)
  mt_d : nat;                                (* current_depth *)
  mt_i : nat;                                (* current_index *)
  mt_proved : list bytes }.

(* MerkleTree.__init__ *)
Definition mt_init (total : Z) : result mtree :=
  if total <? 1 then Err
  else
    let n := Z.to_nat total in
    let md := max_depth total in
    Ok {| mt_maxd := md;
          mt_nodes := map (fun depth => repeat None (width n (md - depth))) (seq 0 (S md));
          mt_d := 0; mt_i := 0; mt_proved := [] |}.

Definition get_node (nodes : list (list (option bytes))) (d i : nat) : result (option bytes) :=
  match nth_error nodes d with
  | Some lvl => match nth_error lvl i with Some v => Ok v | None => Err end
  | None => Err
  end.

Fixpoint set_nth {A} (l : list A) (i : nat) (v : A) : result (list A) :=
  match l, i with
  | [], _ => Err
  | _ :: r, O => Ok (v :: r)
  | x :: r, S j => r' <- set_nth r j v ;; Ok (x :: r')
  end.

Definition set_node (nodes : list (list (option bytes))) (d i : nat) (v : bytes)
  : result (list (list (option bytes))) :=
  match nth_error nodes d with
  | Some lvl => lvl' <- set_nth lvl i (Some v) ;; set_nth nodes d lvl'
  | None => Err
  end.

(* set_current_node(v); up()   [up at depth 0 makes current_depth -1 in Python; the loop
   then stops because the root is set, so [pred] is indistinguishable] *)
Definition set_up (t : mtree) (v : bytes) (proved : list bytes) : result mtree :=
  nodes' <- set_node (mt_nodes t) (mt_d t) (mt_i t) v ;;
  Ok {| mt_maxd := mt_maxd t; mt_nodes := nodes'; mt_d := pred (mt_d t);
        mt_i := Nat.div (mt_i t) 2; mt_proved := proved |}.

Definition go (t : mtree) (i : nat) : mtree :=
  {| mt_maxd := mt_maxd t; mt_nodes := mt_nodes t; mt_d := S (mt_d t); mt_i := i;
     mt_proved := mt_proved t |}.

(* the while loop of populate_tree: one iteration per unit of fuel *)
Fixpoint populate_loop (fuel : nat) (t : mtree) (bits : list Z) (hs : list bytes)
  : result (mtree * list Z * list bytes) :=
  match fuel with
  | O => Err
  | S f =>
      root <- get_node (mt_nodes t) 0 0 ;;
      match root with
      | Some _ => Ok (t, bits, hs)
      | None =>
          if (mt_d t =? mt_maxd t)%nat then
            (* leaf: flag_bits.pop(0) then hashes.pop(0) *)
            match bits, hs with
            | b :: bits', x :: hs' =>
                t' <- set_up t x (if b =? 1 then mt_proved t ++ [rev x] else mt_proved t) ;;
                populate_loop f t' bits' hs'
            | _, _ => Err
            end
          else
            left <- get_node (mt_nodes t) (S (mt_d t)) (2 * mt_i t) ;;
            match left with
            | None =>
                match bits with
                | [] => Err
                | b :: bits' =>
                    if b =? 0 then
                      match hs with
                      | x :: hs' => t' <- set_up t x (mt_proved t) ;; populate_loop f t' bits' hs'
                      | [] => Err
                      end
                    else populate_loop f (go t (2 * mt_i t)) bits' hs
                end
            | Some l =>
                match nth_error (mt_nodes t) (S (mt_d t)) with
                | None => Err
                | Some lvl =>
                    if (2 * mt_i t + 1 <? length lvl)%nat then
                      right <- get_node (mt_nodes t) (S (mt_d t)) (2 * mt_i t + 1) ;;
                      match right with
                      | None => populate_loop f (go t (2 * mt_i t + 1)) bits hs
                      | Some r =>
                          t' <- set_up t (merkle_parent hash256 l r) (mt_proved t) ;;
                          populate_loop f t' bits hs
                      end
                    else
                      t' <- set_up t (merkle_parent hash256 l l) (mt_proved t) ;;
                      populate_loop f t' bits hs
                end
            end
      end
  end.

(* the two checks after the loop *)
Definition leftover_ok (bits : list Z) (hs : list bytes) : bool :=
  match hs with
  | [] => forallb (fun b => b =? 0) bits
  | _ :: _ => false
  end.

(* every node is visited at most three times *)
Definition populate_fuel (total : Z) : nat :=
  (3 * (2 * Z.to_nat total + max_depth total + 1) + 1)%nat.

(* MerkleTree(total).populate_tree(flag_bits, hashes) -> (root(), proved_txs).
   Since 5e35f6e the method first checks that EVERY given hash is 32 bytes long (ValueError
   otherwise), before the loop. *)
Definition populate_tree (total : Z) (bits : list Z) (hs : list bytes)
  : result (bytes * list bytes) :=
  t <- mt_init total ;;
  if negb (all32 hs) then Err else
  '(t', bits', hs') <- populate_loop (populate_fuel total) t bits hs ;;
  if leftover_ok bits' hs' then
    root <- get_node (mt_nodes t') 0 0 ;;
    match root with Some r => Ok (r, mt_proved t') | None => Err end
  else Err.

(* ------------------------------------------------------------------ *)
(* the same traversal, recursively: returns (hash of the node, proved ids, rest of the
   flag bits, rest of the hashes) *)
Fixpoint traverse (n : nat) (h pos : nat) (bits : list Z) (hs : list bytes)
  : result (bytes * list bytes * list Z * list bytes) :=
  match h with
  | O =>
      match bits, hs with
      | b :: bits', x :: hs' => Ok (x, (if b =? 1 then [rev x] else []), bits', hs')
      | _, _ => Err
      end
  | S h' =>
      match bits with
      | [] => Err
      | b :: bits' =>
          if b =? 0 then
            match hs with
            | x :: hs' => Ok (x, [], bits', hs')
            | [] => Err
            end
          else
            '(l, m1, bits1, hs1) <- traverse n h' (2 * pos) bits' hs ;;
            if (2 * pos + 1 <? width n h')%nat then
              '(r, m2, bits2, hs2) <- traverse n h' (2 * pos + 1) bits1 hs1 ;;
              Ok (merkle_parent hash256 l r, m1 ++ m2, bits2, hs2)
            else Ok (merkle_parent hash256 l l, m1, bits1, hs1)
      end
  end.

Definition populate_tree_rec (total : Z) (bits : list Z) (hs : list bytes)
  : result (bytes * list bytes) :=
  if total <? 1 then Err
  else if negb (all32 hs) then Err
  else
    '(root, proved, bits', hs') <- traverse (Z.to_nat total) (max_depth total) 0 bits hs ;;
    if leftover_ok bits' hs' then Ok (root, proved) else Err.

(* ------------------------------------------------------------------ *)
(* MerkleBlock.is_valid (and the proved_txs() it leaves behind) *)
Definition mb_is_valid_with (populate : Z -> list Z -> list bytes -> result (bytes * list bytes))
  (hdr_root : bytes) (total : Z) (hashes : list bytes) (flags : bytes)
  : result (bool * list bytes) :=
  let bits := bytes_to_bit_field flags in
  let hs := map (@rev Z) hashes in
  '(root, proved) <- populate total bits hs ;;
  Ok (beq (rev root) hdr_root, proved).

Definition mb_is_valid := mb_is_valid_with populate_tree.
Definition mb_is_valid_rec := mb_is_valid_with populate_tree_rec.
End MB.

(* MerkleBlock.parse -> (header, total, hashes, flags, rest of the stream).
   The hash loop reads silently short; when more hashes are announced than the stream
   holds the stream is exhausted afterwards and read_varint raises IndexError. *)
Fixpoint read_hashes (k : nat) (s : bytes) (acc : list bytes) : list bytes * bytes :=
  match k with
  | O => (rev acc, s)
  | S k' => let '(h, s') := read 32 s in read_hashes k' s' (rev h :: acc)
  end.

Definition mb_parse (s : bytes) : result (header * Z * list bytes * bytes * bytes) :=
  let '(hdr, s1) := parse_header s in
  let '(tb, s2) := read 4 s1 in
  let total := from_le tb in
  '(num, s3) <- read_varint s2 ;;
  if zlen s3 <? 32 * num then Err
  else
    let '(hashes, s4) := read_hashes (Z.to_nat num) s3 [] in
    '(flen, s5) <- read_varint s4 ;;
    if 9223372036854775808 <=? flen then Err     (* BytesIO.read(n > sys.maxsize): OverflowError *)
    else
      let '(flags, s6) := readz flen s5 in
      Ok (hdr, total, hashes, flags, s6).
