(* Model/Wire.v — the glue of buidl/network.py around the codecs of Model/Network.v:
   helper.int_to_byte / byte_to_int, VerAckMessage, GenericMessage, the default
   VersionMessage() (nonce drawn with randint(0, 2**64 - 1)), and SimpleNode.send / read /
   wait_for / handshake on an in-memory stream (the socket is replaced by a byte list in, a
   list of sent envelopes out).  Definitions only. *)
From V Require Import Base.Prelude Base.Ints Model.Helper Model.Block Model.Gcs Model.Network.

(* helper.py int_to_byte: ValueError outside 0..255 *)
Definition int_to_byte (n : Z) : result bytes :=
  if (n >? 255) || (n <? 0) then Err else Ok [n].
(* helper.py byte_to_int: b[0] (IndexError on the empty string) *)
Definition byte_to_int (b : bytes) : result Z :=
  match b with [] => Err | x :: _ => Ok x end.

(* the class attributes `command` *)
Definition cmd_version : bytes := [118; 101; 114; 115; 105; 111; 110].            (* b"version" *)
Definition cmd_verack : bytes := [118; 101; 114; 97; 99; 107].                    (* b"verack" *)
Definition cmd_ping : bytes := [112; 105; 110; 103].                              (* b"ping" *)
Definition cmd_pong : bytes := [112; 111; 110; 103].                              (* b"pong" *)
Definition cmd_headers : bytes := [104; 101; 97; 100; 101; 114; 115].             (* b"headers" *)
Definition cmd_cfilter : bytes := [99; 102; 105; 108; 116; 101; 114].             (* b"cfilter" *)
Definition cmd_cfheaders : bytes := [99; 102; 104; 101; 97; 100; 101; 114; 115].  (* b"cfheaders" *)
Definition cmd_cfcheckpt : bytes := [99; 102; 99; 104; 101; 99; 107; 112; 116].   (* b"cfcheckpt" *)

(* b"/programmingblockchain:0.1/" *)
Definition default_user_agent : bytes :=
  [47; 112; 114; 111; 103; 114; 97; 109; 109; 105; 110; 103; 98; 108; 111; 99; 107; 99; 104;
   97; 105; 110; 58; 48; 46; 49; 47].

(* VersionMessage() with every argument left at its default: timestamp = int(time.time()) = now,
   nonce = int_to_little_endian(randint(0, 2**64 - 1), 8) where r is what randint returned
   (randint is inclusive on both ends: 0 <= r <= randint_hi) *)
Definition randint_lo : Z := 0.
Definition randint_hi : Z := 18446744073709551615.     (* 2**64 - 1 *)
Definition version_default (now r : Z) : result version_msg :=
  n <- int_to_le r 8 ;;
  Ok {| vm_version := 70015; vm_services := 0; vm_timestamp := now;
        vm_recv_services := 0; vm_recv_ip := [0; 0; 0; 0]; vm_recv_port := 8333;
        vm_send_services := 0; vm_send_ip := [0; 0; 0; 0]; vm_send_port := 8333;
        vm_nonce := n; vm_user_agent := default_user_agent; vm_latest_block := 0;
        vm_relay := true |}.

(* the messages that have a parse classmethod in network.py / compactfilter.py *)
Inductive message :=
| MVerAck
| MPing (nonce : bytes)
| MPong (nonce : bytes)
| MHeaders (hs : list header)
| MCFilter (t : Z) (block_hash filter_bytes : bytes) (items : list Z)
| MCFHeaders (t : Z) (stop prev : bytes) (hashes : list bytes)
| MCFCheckPt (t : Z) (stop : bytes) (headers : list bytes).

Definition msg_command (m : message) : bytes :=
  match m with
  | MVerAck => cmd_verack | MPing _ => cmd_ping | MPong _ => cmd_pong
  | MHeaders _ => cmd_headers | MCFilter _ _ _ _ => cmd_cfilter
  | MCFHeaders _ _ _ _ => cmd_cfheaders | MCFCheckPt _ _ _ => cmd_cfcheckpt
  end.

(* the payload that carries the message: serialize() where the class has one (verack, ping,
   pong), the layout a peer uses otherwise *)
Definition msg_payload (m : message) : result bytes :=
  match m with
  | MVerAck => Ok []
  | MPing n => Ok (ping_serialize n)
  | MPong n => Ok (ping_serialize n)
  | MHeaders hs => headers_layout hs
  | MCFilter t bh fb _ => cfilter_layout t bh fb
  | MCFHeaders t stop prev hs => cfheaders_layout t stop prev hs
  | MCFCheckPt t stop hs => cfcheckpt_layout t stop hs
  end.

(* command_to_class[command].parse(envelope.stream()): bytes left in the payload are ignored *)
Definition msg_parse (cmd payload : bytes) : result message :=
  if beq cmd cmd_verack then Ok MVerAck
  else if beq cmd cmd_ping then Ok (MPing (fst (ping_parse payload)))
  else if beq cmd cmd_pong then Ok (MPong (fst (ping_parse payload)))
  else if beq cmd cmd_headers then '(hs, _) <- headers_parse payload ;; Ok (MHeaders hs)
  else if beq cmd cmd_cfilter then
    '(t, bh, fb, items, _) <- cfilter_parse payload ;; Ok (MCFilter t bh fb items)
  else if beq cmd cmd_cfheaders then
    '(t, stop, prev, hs, _) <- cfheaders_parse payload ;; Ok (MCFHeaders t stop prev hs)
  else if beq cmd cmd_cfcheckpt then
    '(t, stop, hs, _) <- cfcheckpt_parse payload ;; Ok (MCFCheckPt t stop hs)
  else Err.

Section WithHash.
Variable hash256 : bytes -> bytes.

(* SimpleNode.send(message): NetworkEnvelope(message.command, message.serialize()).serialize()
   handed to socket.sendall; an exception in message.serialize() propagates *)
Definition node_send (net : Z) (command : bytes) (payload : result bytes) : result bytes :=
  p <- payload ;; env_serialize hash256 net command p.

(* SimpleNode.wait_for: read envelopes until the command is one of [wanted]; a version is
   answered with verack, a ping with pong(payload) — also when that envelope ends the loop.
   Result: the envelope that ended the loop, the unread stream, everything sent.  The loop
   runs at least once; every envelope takes bytes off the stream, so [fuel] > |stream| never
   runs out (Proofs/WireP.v wait_loop_fuel). *)
Fixpoint wait_loop (fuel : nat) (net : Z) (wanted : list bytes) (s : bytes) (sent : list bytes)
  : result (bytes * bytes * bytes * list bytes) :=
  match fuel with
  | O => Err
  | S f =>
      '(cmd, payload, rest) <- env_parse hash256 net s ;;
      sent' <- (if beq cmd cmd_version then
                  e <- node_send net cmd_verack (Ok []) ;; Ok (sent ++ [e])
                else if beq cmd cmd_ping then
                  e <- node_send net cmd_pong (Ok (ping_serialize payload)) ;; Ok (sent ++ [e])
                else Ok sent) ;;
      if existsb (beq cmd) wanted then Ok (cmd, payload, rest, sent')
      else wait_loop f net wanted rest sent'
  end.

Definition node_wait_for (net : Z) (wanted : list bytes) (s : bytes)
  : result (bytes * bytes * bytes * list bytes) :=
  wait_loop (S (length s)) net wanted s [].

(* node.wait_for(Class, ...) as the caller sees it: the parsed message *)
Definition node_wait_for_msg (net : Z) (wanted : list bytes) (s : bytes)
  : result (message * bytes * list bytes) :=
  '(cmd, payload, rest, sent) <- node_wait_for net wanted s ;;
  m <- msg_parse cmd payload ;; Ok (m, rest, sent).

(* SimpleNode.handshake(): send VersionMessage(), wait for verack *)
Definition node_handshake (net now r : Z) (s : bytes) : result (bytes * list bytes) :=
  v <- node_send net cmd_version (m <- version_default now r ;; version_serialize m) ;;
  '(_, _, rest, sent) <- node_wait_for net [cmd_verack] s ;;
  Ok (rest, v :: sent).
End WithHash.
