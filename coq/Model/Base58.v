(* Model/Base58.v — mirrors buidl/helper.py encode_base58, encode_base58_checksum,
   raw_decode_base58, decode_base58 and the WIF codec of buidl/pecc.py
   (PrivateKey.wif / PrivateKey.parse; of the constructor only the range check
   1 <= secret < N is modelled, not secret*G).  Text = list of code points.
   Definitions only. *)
From V Require Import Base.Prelude Base.Ints.

(* "123456789ABCDEFGHJKLMNPQRSTUVWXYZabcdefghijkmnopqrstuvwxyz" *)
Definition b58_alphabet : list Z :=
  [49;50;51;52;53;54;55;56;57;
   65;66;67;68;69;70;71;72;74;75;76;77;78;80;81;82;83;84;85;86;87;88;89;90;
   97;98;99;100;101;102;103;104;105;106;107;109;110;111;112;113;114;115;116;117;118;119;120;121;122].

(* BASE58_ALPHABET[mod] for 0 <= mod < 58 *)
Definition b58_char (d : Z) : Z := nth (Z.to_nat d) b58_alphabet 0.

(* str.index(c): position of the first occurrence, ValueError when absent *)
Fixpoint index_of (c : Z) (l : list Z) (i : Z) : result Z :=
  match l with
  | [] => Err
  | x :: r => if x =? c then Ok i else index_of c r (i + 1)
  end.
Definition b58_index (c : Z) : result Z := index_of c b58_alphabet 0.

(* `while num > 0: num, mod = divmod(num, B); out = [mod] + out`
   (fuel = an upper bound of the number of digits; Err when it runs out) *)
Fixpoint digits_be (B : Z) (fuel : nat) (num : Z) (acc : list Z) : result (list Z) :=
  if num <=? 0 then Ok acc
  else match fuel with
       | O => Err
       | S f => digits_be B f (num / B) (num mod B :: acc)
       end.

(* the leading `for c in s: if c == 0: count += 1 else: break` *)
Fixpoint count_lz (s : bytes) : nat :=
  match s with
  | b :: r => if b =? 0 then S (count_lz r) else O
  | [] => O
  end.

(* encode_base58: int(s.hex(), 16) raises ValueError on the empty string;
   58^2 > 256, so 2*len(s) digits always suffice *)
Definition encode_base58 (s : bytes) : result (list Z) :=
  match s with
  | [] => Err
  | _ =>
      ds <- digits_be 58 (2 * length s)%nat (from_be s) [] ;;
      Ok (repeatz 49 (count_lz s) ++ map b58_char ds)
  end.

Section WithHash.
Variable hash256 : bytes -> bytes.

Definition encode_base58_checksum (raw : bytes) : result (list Z) :=
  encode_base58 (raw ++ firstn 4 (hash256 raw)).

(* the for loop of raw_decode_base58: (num, number of prefix zero bytes) *)
Fixpoint b58_dec_loop (s : list Z) (num : Z) (prefix : nat) : result (Z * nat) :=
  match s with
  | [] => Ok (num, prefix)
  | c :: r =>
      if (num =? 0) && (c =? 49) then b58_dec_loop r num (S prefix)
      else i <- b58_index c ;; b58_dec_loop r (58 * num + i) prefix
  end.

(* `while num > 0: byte_array.insert(0, num & 255); num >>= 8` *)
Fixpoint bytes_be_min (fuel : nat) (num : Z) (acc : bytes) : result bytes :=
  if num <=? 0 then Ok acc
  else match fuel with
       | O => Err
       | S f => bytes_be_min f (Z.shiftr num 8) (Z.land num 255 :: acc)
       end.

(* prefix + bytes(byte_array); num < 58^len(s) <= 256^len(s) bounds the loop *)
Definition b58_to_bytes (s : list Z) : result bytes :=
  '(num, prefix) <- b58_dec_loop s 0 0 ;;
  body <- bytes_be_min (length s) num [] ;;
  Ok (repeatz 0 prefix ++ body).

(* combined[-4:] / combined[:-4] (for fewer than 4 bytes: everything / nothing) *)
Definition last4 (c : bytes) : bytes := skipn (length c - 4)%nat c.
Definition but_last4 (c : bytes) : bytes := firstn (length c - 4)%nat c.

Definition raw_decode_base58 (s : list Z) : result bytes :=
  combined <- b58_to_bytes s ;;
  if beq (firstn 4 (hash256 (but_last4 combined))) (last4 combined)
  then Ok (but_last4 combined) else Err.

(* decode_base58(s) = raw_decode_base58(s)[1:] *)
Definition decode_base58 (s : list Z) : result bytes :=
  r <- raw_decode_base58 s ;; Ok (skipn 1 r).

(* ---- WIF (pecc.py PrivateKey.wif / parse) ---- *)

Definition secp_n : Z :=
  115792089237316195423570985008687907852837564279074904382605163141518161494337.

(* PrivateKey.__init__: secret > N-1 or secret < 1 raise *)
Definition privkey_ok (secret : Z) : bool := (1 <=? secret) && (secret <=? secp_n - 1).

(* PrivateKey(secret, network).wif(compressed); mainnet <-> 0x80, every other network 0xef *)
Definition wif_encode (secret : Z) (mainnet compressed : bool) : result (list Z) :=
  if privkey_ok secret then
    sb <- int_to_be secret 32 ;;
    encode_base58_checksum
      ((if mainnet then 128 else 239) :: sb ++ (if compressed then [1] else []))
  else Err.

(* PrivateKey.parse: (secret, is_mainnet, compressed); "testnet" stands for every
   non-mainnet network.  Since fix 6e4d66f the payload must have 34 bytes (compressed, last
   byte 1) or 33 bytes (uncompressed). *)
Definition wif_parse (wif : list Z) : result (Z * bool * bool) :=
  raw <- raw_decode_base58 wif ;;
  '(compressed, raw1) <-
      (if (length raw =? 34)%nat then
         (if nth 33 raw 0 =? 1 then Ok (true, firstn 33 raw) else Err)
       else if (length raw =? 33)%nat then Ok (false, raw)
       else Err) ;;                                  (* fix 6e4d66f: "Invalid WIF" *)
  let secret := from_be (skipn 1 raw1) in
  match raw1 with
  | [] => Err                                      (* raw[0] IndexError *)
  | p :: _ =>
      mainnet <- (if p =? 239 then Ok false else if p =? 128 then Ok true else Err) ;;
      if privkey_ok secret then Ok (secret, mainnet, compressed) else Err
  end.

End WithHash.
