(* Model/EcdsaApi.v — the user-facing ECDSA entry points of buidl/pecc.py that are compositions of the
   functions of Model/Pecc.v (definitions only):

     PrivateKey(secret).sign(z)                      priv_sign
     PrivateKey(secret).sign(z).der()                sign_der
     PrivateKey(secret).sign_message(m)              sign_message        (z = big-endian hash256(m))
     point.verify(z, Signature.parse(b))             verify_der
     point.verify_message(m, Signature(r, s))        verify_message
     S256Point.parse(sec).verify(z, Signature.parse(b))   verify_wire
     Signature.parse(b).der()                        der_reencode

   hash256 and HMAC are parameters; the retry loop of deterministic_k runs on [fuel]. *)
From V Require Import Base.Prelude Base.Ints Model.Pecc.

Section Api.
Variable C : curve.
Variable hmac256 : bytes -> bytes -> bytes.
Variable hash256 : bytes -> bytes.
Variable fuel : nat.

(* PrivateKey.__init__ (range check, secret * G) followed by .sign(z) *)
Definition priv_sign (secret z : Z) : result (Z * Z) :=
  _ <- pubkey C secret ;; ecdsa_sign C hmac256 fuel secret z.

(* ... .sign(z).der() *)
Definition sign_der (secret z : Z) : result bytes :=
  '(r, s) <- priv_sign secret z ;; der r s.

(* big_endian_to_int(hash256(message)) *)
Definition msg_digest (m : bytes) : Z := from_be (hash256 m).

(* PrivateKey.sign_message / S256Point.verify_message *)
Definition sign_message (secret : Z) (m : bytes) : result (Z * Z) :=
  priv_sign secret (msg_digest m).
Definition verify_message (P : point) (m : bytes) (r s : Z) : result bool :=
  ecdsa_verify C P (msg_digest m) r s.

(* point.verify(z, Signature.parse(b)) *)
Definition verify_der (P : point) (z : Z) (b : bytes) : result bool :=
  '(r, s) <- der_parse b ;; ecdsa_verify C P z r s.

(* both arguments from the wire: S256Point.parse(sec).verify(z, Signature.parse(b)) *)
Definition verify_wire (sec_bin : bytes) (z : Z) (b : bytes) : result bool :=
  P <- parse_point C sec_bin ;; verify_der P z b.

(* sign_message(m).der()  and  point.verify_message(m, Signature.parse(b)) *)
Definition sign_message_der (secret : Z) (m : bytes) : result bytes :=
  sign_der secret (msg_digest m).
Definition verify_message_der (P : point) (m : bytes) (b : bytes) : result bool :=
  verify_der P (msg_digest m) b.

End Api.

(* Signature.parse(b).der(): re-encoding of whatever the parser accepted *)
Definition der_reencode (b : bytes) : result bytes :=
  '(r, s) <- der_parse b ;; der r s.
