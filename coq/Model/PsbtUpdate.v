(* Model/PsbtUpdate.v — mirrors the Updater: PSBTIn.update (buidl/psbt.py:1448), PSBTOut.update (:1862)
   and PSBT.update (:418).  The four lookups are dictionaries with bytes keys:
     tx_lookup       prev_tx id          -> Tx
     pubkey_lookup   hash160 / SEC bytes -> (named_pub.sec(), named_pub.point.raw_path)
     redeem_lookup   hash160             -> RedeemScript
     witness_lookup  sha256              -> WitnessScript
   An int command looked up in a dictionary with bytes keys gives None.  Tx, TxOut, Script and the
   NamedPublicKey objects are always true in Python.  Not modelled: the private caches
   tx_in._value / tx_in._script_pubkey the method also fills.  Definitions only. *)
From V Require Import Base.Prelude Base.Ints Model.Helper Model.Script Model.Tx Model.Psbt.

Definition pk_lookup := dict (bytes * bytes).

Definition cmd_get {V} (m : dict V) (c : cmd) : option V :=
  match c with Push b => dget m b | Op _ => None end.

(* commands[i] (IndexError -> Err) *)
Definition cmd_nth (cs : list cmd) (i : nat) : result cmd :=
  match nth_error cs i with Some c => Ok c | None => Err end.

(* named_pub = pubkey_lookup.get(command); if named_pub: named_pubs[named_pub.sec()] = named_pub.point *)
Definition named_add (pk : pk_lookup) (c : cmd) (named : dict bytes) : dict bytes :=
  match cmd_get pk c with
  | Some (sec, path) => dset sec path named
  | None => named
  end.
Definition named_add_all (pk : pk_lookup) (cs : list cmd) (named : dict bytes) : dict bytes :=
  fold_left (fun acc c => named_add pk c acc) cs named.

Definition orelse_opt {A} (x y : option A) : option A := match x with Some _ => x | None => y end.

Definition in_update (txl : dict tx) (pk : pk_lookup) (rl wl : dict script) (st : psbt_in) (ti : txin)
  : result psbt_in :=
  let prev_tx := orelse_opt (pi_prev_tx st) (dget txl (i_prev_tx ti)) in
  prev_out <- match prev_tx with
              | Some t => match nthz (t_outs t) (i_prev_index ti) with
                          | Some o => Ok (Some o)
                          | None => Err
                          end
              | None => Ok (pi_prev_out st)
              end ;;
  match prev_out with
  | None => Ok st
  | Some po =>
      let cs := s_cmds (o_script po) in
      redeem <- (if is_p2sh cs then h <- cmd_nth cs 1 ;; Ok (orelse_opt (pi_redeem st) (cmd_get rl h))
                 else Ok (pi_redeem st)) ;;
      let st1 := set_redeem st redeem in
      if is_p2sh cs && negb (is_some redeem) then Ok st1
      else if is_p2wpkh cs || opt_is is_p2wpkh redeem then
        h160 <- (if is_p2wpkh cs then cmd_nth cs 1
                 else match redeem with Some r => cmd_nth (s_cmds r) 1 | None => Err end) ;;
        Ok (set_named (set_prev_out st1 (Some po)) (named_add pk h160 (pi_named st)))
      else if is_p2wsh cs || opt_is is_p2wsh redeem then
        s256 <- (if is_p2wsh cs then cmd_nth cs 1
                 else match redeem with Some r => cmd_nth (s_cmds r) 1 | None => Err end) ;;
        let ws := orelse_opt (pi_wscript st) (cmd_get wl s256) in
        let st2 := set_wscript (set_prev_out st1 (Some po)) ws in
        match ws with
        | Some w => Ok (set_named st2 (named_add_all pk (s_cmds w) (pi_named st)))
        | None => Ok st2
        end
      else if is_p2sh cs then
        match redeem with
        | Some r => Ok (set_named (set_prev_tx st1 prev_tx) (named_add_all pk (s_cmds r) (pi_named st)))
        | None => Err
        end
      else if is_p2pkh cs then
        h <- cmd_nth cs 2 ;;
        Ok (set_named (set_prev_tx st1 prev_tx) (named_add pk h (pi_named st)))
      else Err
  end.

Definition out_update (pk : pk_lookup) (rl wl : dict script) (st : psbt_out) (to : txout) : result psbt_out :=
  let cs := s_cmds (o_script to) in
  (* since 33b84c2 a RedeemScript the output already carries is kept (as PSBTIn.update does) *)
  redeem <- (if is_p2sh cs then h <- cmd_nth cs 1 ;; Ok (orelse_opt (po_redeem st) (cmd_get rl h))
             else Ok (po_redeem st)) ;;
  let st1 := {| po_redeem := redeem; po_wscript := po_wscript st; po_named := po_named st;
                po_extra := po_extra st |} in
  let with_named (s : psbt_out) n :=
    {| po_redeem := po_redeem s; po_wscript := po_wscript s; po_named := n; po_extra := po_extra s |} in
  if is_p2sh cs && negb (is_some redeem) then Ok st1
  else if is_p2wpkh cs || opt_is is_p2wpkh redeem then
    h160 <- match redeem with Some r => cmd_nth (s_cmds r) 1 | None => cmd_nth cs 1 end ;;
    Ok (with_named st1 (named_add pk h160 (po_named st)))
  else if is_p2wsh cs || opt_is is_p2wsh redeem then
    s256 <- match redeem with Some r => cmd_nth (s_cmds r) 1 | None => cmd_nth cs 1 end ;;
    match cmd_get wl s256 with
    | Some w => Ok {| po_redeem := redeem; po_wscript := Some w;
                      po_named := named_add_all pk (s_cmds w) (po_named st); po_extra := po_extra st |}
    | None => Ok st1
    end
  else if is_p2sh cs then
    match redeem with
    | Some r => Ok (with_named st1 (named_add_all pk (s_cmds r) (po_named st)))
    | None => Err
    end
  else if is_p2pkh cs then
    h <- cmd_nth cs 2 ;; Ok (with_named st1 (named_add pk h (po_named st)))
  else Ok st1.

Fixpoint ins_update (txl : dict tx) (pk : pk_lookup) (rl wl : dict script) (ins : list psbt_in) (tis : list txin)
  : result (list psbt_in) :=
  match ins, tis with
  | [], _ => Ok []
  | st :: r, ti :: r' => a <- in_update txl pk rl wl st ti ;; b <- ins_update txl pk rl wl r r' ;; Ok (a :: b)
  | _ :: _, [] => Err
  end.
Fixpoint outs_update (pk : pk_lookup) (rl wl : dict script) (outs : list psbt_out) (tos : list txout)
  : result (list psbt_out) :=
  match outs, tos with
  | [], _ => Ok []
  | st :: r, to :: r' => a <- out_update pk rl wl st to ;; b <- outs_update pk rl wl r r' ;; Ok (a :: b)
  | _ :: _, [] => Err
  end.

(* PSBT.update *)
Definition psbt_update (txl : dict tx) (pk : pk_lookup) (rl wl : dict script) (p : psbt) : result psbt :=
  ins <- ins_update txl pk rl wl (p_ins p) (t_ins (p_tx p)) ;;
  outs <- outs_update pk rl wl (p_outs p) (t_outs (p_tx p)) ;;
  Ok {| p_tx := p_tx p; p_ins := ins; p_outs := outs; p_hd := p_hd p; p_extra := p_extra p |}.
