(* Model/Pbkdf2.v — mirrors the vendored buidl/pbkdf2.py PBKDF2 class (file-like
   object with a buffer and a block counter), buidl/helper.py hmac_sha512_kdf and the
   seed -> (key, chain code) step of buidl/hd.py HDPrivateKey.from_seed/from_mnemonic.
   The PRF (HMAC) is a Section variable.  Definitions only. *)
From V Require Import Base.Prelude Base.Ints Model.Mnemonic.

(* binxor: bytes([x ^ y for (x, y) in zip(a, b)]) — truncates to the shorter *)
Fixpoint binxor (a b : bytes) : bytes :=
  match a, b with
  | x :: a', y :: b' => Z.lxor x y :: binxor a' b'
  | _, _ => []
  end.

(* Python slices buf[:n] and buf[n:] for any integer n (negative counts from the end) *)
Definition slice_to (n : Z) (l : bytes) : bytes :=
  if n <? 0 then firstn (Z.to_nat (zlen l + n)) l else firstn (Z.to_nat n) l.
Definition slice_from (n : Z) (l : bytes) : bytes :=
  if n <? 0 then skipn (Z.to_nat (zlen l + n)) l else skipn (Z.to_nat n) l.

Section PBKDF2.
  Variable prf : bytes -> bytes -> bytes.     (* _pseudorandom(key, msg) *)

  Record pstate := { p_pass : bytes; p_salt : bytes; p_iter : Z; p_buf : bytes; p_block : Z }.

  (* _setup: passphrase and salt already encoded; iterations < 1 raises ValueError *)
  Definition pb_init (pass salt : bytes) (iterations : Z) : result pstate :=
    if iterations <? 1 then Err
    else Ok {| p_pass := pass; p_salt := salt; p_iter := iterations; p_buf := []; p_block := 0 |}.

  (* for j in range(2, 1 + iterations): U = prf(P, U); result = binxor(result, U) *)
  Fixpoint f_loop (P U res : bytes) (n : nat) : bytes :=
    match n with
    | O => res
    | S k => let U' := prf P U in f_loop P U' (binxor res U') k
    end.

  (* __f(i); pack("!L", i) is the 4-byte big-endian encoding (1 <= i <= 0xffffffff is
     guaranteed by the caller's check) *)
  Definition pb_f (P S : bytes) (iterations i : Z) : bytes :=
    let U := prf P (S ++ to_be 4 i) in
    f_loop P U U (Z.to_nat (iterations - 1)).

  (* the while loop of read; fuel is an artefact of the model (see Pbkdf2P.read_fuel_enough):
     blocks are accumulated in order *)
  Fixpoint read_loop (fuel : nat) (P S : bytes) (c : Z) (size n i : Z) (acc : bytes)
    : result (bytes * Z) :=
    if size <? n then
      match fuel with
      | O => Err
      | S k =>
          let i' := i + 1 in
          if (i' >? 4294967295) || (i' <? 1) then Err   (* OverflowError("derived key too long") *)
          else
            let blk := pb_f P S c i' in
            read_loop k P S c (size + zlen blk) n i' (acc ++ blk)
      end
    else Ok (acc, i).

  (* read(bytes) -> (retval, new state) *)
  Definition pb_read (st : pstate) (n : Z) : result (bytes * pstate) :=
    '(buf, i) <- read_loop (Z.to_nat n) (p_pass st) (p_salt st) (p_iter st)
                           (zlen (p_buf st)) n (p_block st) (p_buf st) ;;
    Ok (slice_to n buf,
        {| p_pass := p_pass st; p_salt := p_salt st; p_iter := p_iter st;
           p_buf := slice_from n buf; p_block := i |}).

  Fixpoint pb_reads (st : pstate) (ns : list Z) : result (list bytes) :=
    match ns with
    | [] => Ok []
    | n :: r => '(b, st') <- pb_read st n ;; t <- pb_reads st' r ;; Ok (b :: t)
    end.

  (* PBKDF2(P, S, c).read(n) *)
  Definition pbkdf2_read (P S : bytes) (c n : Z) : result bytes :=
    st <- pb_init P S c ;; '(b, _) <- pb_read st n ;; Ok b.
End PBKDF2.

Definition PBKDF2_ROUNDS : Z := 2048.
Definition secp256k1_N : Z :=
  0xFFFFFFFFFFFFFFFFFFFFFFFFFFFFFFFEBAAEDCE6AF48A03BBFD25E8CD0364141.
Definition s_mnemonic : bytes := [109; 110; 101; 109; 111; 110; 105; 99].            (* b"mnemonic" *)
Definition s_bitcoin_seed : bytes := [66; 105; 116; 99; 111; 105; 110; 32; 115; 101; 101; 100].

Section Seed.
  Variable sha256 : bytes -> bytes.
  Variable hmac_sha512 : bytes -> bytes -> bytes.
  Variable words : list text.

  (* helper.py hmac_sha512_kdf(msg, salt) *)
  Definition hmac_sha512_kdf (msg salt : bytes) : result bytes :=
    pbkdf2_read hmac_sha512 msg salt PBKDF2_ROUNDS 64.

  (* hd.py from_seed up to PrivateKey(secret): (secret, chain_code); PrivateKey raises
     outside [1, N-1] *)
  Definition from_seed (seed : bytes) : result (Z * bytes) :=
    let h := hmac_sha512 s_bitcoin_seed seed in
    let secret := from_be (firstn 32 h) in
    if (secret >? secp256k1_N - 1) || (secret <? 1) then Err
    else Ok (secret, skipn 32 h).

  (* hd.py from_mnemonic with path "m": the normalized mnemonic is a str of code points
     below 128 for the shipped list (MnemonicP.bip39_ascii), so its UTF-8 encoding is
     the code-point list itself *)
  Definition mnemonic_seed (m : text) (password : bytes) : result bytes :=
    _ <- mnemonic_to_bytes sha256 words m ;;
    norm <- mapM (wl_normalize words) (split_ws m) ;;
    hmac_sha512_kdf (join_sp norm) (s_mnemonic ++ password).

  Definition from_mnemonic (m : text) (password : bytes) : result (bytes * Z * bytes) :=
    seed <- mnemonic_seed m password ;;
    '(k, c) <- from_seed seed ;;
    Ok (seed, k, c).
End Seed.
