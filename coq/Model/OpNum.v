(* Model/OpNum.v — mirrors the small-number helpers at the top of buidl/op.py:
   number_to_op_code_byte, number_to_op_code, op_code_to_number, encode_minimal_num.
   [Err] = ValueError("Not a valid OP code").  Definitions only. *)
From V Require Import Base.Prelude Base.Ints Model.Script Model.Op.

Definition number_to_op_code_byte (n : Z) : result bytes :=
  if (n <? -1) || (n >? 16) then Err
  else if n >? 0 then Ok [80 + n]
  else if n =? 0 then Ok [0]
  else Ok [79].

Definition number_to_op_code (n : Z) : result Z :=
  if (n <? -1) || (n >? 16) then Err
  else if n =? 0 then Ok 0 else Ok (n + 80).

(* `op_code not in (0, 79, 80, 81, ..., 96)` — the tuple contains 80 (OP_RESERVED) *)
Definition op_code_to_number (o : Z) : result Z :=
  if (o =? 0) || ((79 <=? o) && (o <=? 96)) then (if o =? 0 then Ok 0 else Ok (o - 80)) else Err.

(* -1 .. 16: the op code; every other number: the bytes of its serialisation (a data push) *)
Definition encode_minimal_num (n : Z) : result cmd :=
  if (-1 <=? n) && (n <=? 16) then (o <- number_to_op_code n ;; Ok (Op o))
  else Ok (Push (encode_num n)).
