(* Model/HdText.v — the path TEXTS the library itself writes (C08), definitions only.

   * [dec n] is str(n) / f"{n}" of a Python int (decimal, "-" for negatives, no padding).
   * [path_text m mark idxs] is the canonical spelling of an index list: the letter [m]
     ("m" = 109 or "M" = 77), then one "/<number>" per index, a hardened index i >= 2^31 being
     written as the number i - 2^31 followed by [mark] ("'" = 39, "h" = 104 or "H" = 72).
     This is what "/".join(["m", ...]) produces and what every BIP32 document writes.
   * [secure_secret_path_of depth draws] is blinding.secure_secret_path(depth) as a function of
     the values secrets.randbelow(2**31 - 1) returned (the draws are an input: randomness is
     not modelled): the isinstance / depth >= 32 / depth < 1 checks, then
     "/".join(["m"] + [str(r) for r in draws]).
   * [get_private_key_path] is the f-string of HDPrivateKey.get_private_key:
     f"m/{purpose}/{coin}/{account_num}'/{chain}/{address_num}" with coin = "0'" on mainnet and
     "1'" otherwise, chain = "0" if is_external else "1". *)
From V Require Import Base.Prelude Base.Ints Model.Hd.

(* digits of n >= 0, most significant first, in front of [acc]; [fuel] bounds the number of
   digits (Z.log2 n + 1 is always enough) *)
Fixpoint dec_digits (fuel : nat) (n : Z) (acc : list Z) : list Z :=
  match fuel with
  | O => acc
  | S f => if n <? 10 then (48 + n) :: acc else dec_digits f (n / 10) ((48 + n mod 10) :: acc)
  end.
Definition dec_fuel (n : Z) : nat := S (Z.to_nat (Z.log2 n)).
Definition dec (n : Z) : list Z :=
  if n <? 0 then 45 :: dec_digits (dec_fuel (- n)) (- n) [] else dec_digits (dec_fuel n) n [].

(* one component: hardened indexes are written relative to 2^31 with the mark *)
Definition comp_text (mark : Z) (i : Z) : list Z :=
  if hardened <=? i then dec (i - hardened) ++ [mark] else dec i.
Definition path_text (m mark : Z) (idxs : list Z) : list Z :=
  join 47 ([m] :: map (comp_text mark) idxs).

(* blinding.secure_secret_path(depth), given the successive results of randbelow(2**31 - 1) *)
Definition secure_secret_path_of (depth : Z) (draws : list Z) : result (list Z) :=
  if 32 <=? depth then Err
  else if depth <? 1 then Err
  else if negb (zlen draws =? depth) then Err      (* the loop makes exactly [depth] draws *)
  else Ok (join 47 ([109] :: map dec draws)).

(* HDPrivateKey.get_private_key: the path it hands to self.traverse *)
Definition get_private_key_path (purpose : list Z) (net : Z) (account_num : Z) (is_external : bool)
           (address_num : Z) : list Z :=
  let coin := if net =? 0 then [48; 39] else [49; 39] in
  let chain := if is_external then [48] else [49] in
  [109; 47] ++ purpose ++ [47] ++ coin ++ [47] ++ dec account_num ++ [39; 47] ++ chain ++ [47] ++
  dec address_num.
