(* Model/Base64.v — mirrors helper.base64_encode / helper.base64_decode (buidl/helper.py:338), i.e.
   base64.b64encode(b).decode("ascii") and base64.b64decode(s) in its default NON-validating mode
   (binascii.a2b_base64, CPython 3.12): characters outside the alphabet are skipped, a '=' counts as
   padding only after at least two data characters of a quad, and a complete padding STOPS the
   scan (whatever follows is ignored).  Text is a list of code points.  Definitions only. *)
From V Require Import Base.Prelude Base.Ints Model.Helper.

Definition b64_char (i : Z) : Z :=
  if i <? 26 then 65 + i
  else if i <? 52 then 71 + i
  else if i <? 62 then i - 4
  else if i =? 62 then 43 else 47.

Definition b64_val (c : Z) : option Z :=
  if (65 <=? c) && (c <=? 90) then Some (c - 65)
  else if (97 <=? c) && (c <=? 122) then Some (c - 71)
  else if (48 <=? c) && (c <=? 57) then Some (c + 4)
  else if c =? 43 then Some 62
  else if c =? 47 then Some 63
  else None.

(* b64encode: RFC 4648 section 4, with padding *)
Fixpoint b64_encode (b : bytes) : list Z :=
  match b with
  | [] => []
  | [x] => [b64_char (x / 4); b64_char ((x mod 4) * 16); 61; 61]
  | [x; y] => [b64_char (x / 4); b64_char ((x mod 4) * 16 + y / 16); b64_char ((y mod 16) * 4); 61]
  | x :: y :: z :: r =>
      b64_char (x / 4) :: b64_char ((x mod 4) * 16 + y / 16)
        :: b64_char ((y mod 16) * 4 + z / 64) :: b64_char (z mod 64) :: b64_encode r
  end.

(* binascii.a2b_base64(s, strict_mode=False): quad_pos, leftchar, pads; output reversed in [acc] *)
Fixpoint b64_loop (s : list Z) (qp left pads : Z) (acc : list Z) : result bytes :=
  match s with
  | [] => if qp =? 0 then Ok (rev acc) else Err      (* "Incorrect padding" / "1 more than a multiple of 4" *)
  | c :: r =>
      if c =? 61 then
        if (2 <=? qp) && (4 <=? qp + (pads + 1)) then Ok (rev acc)          (* goto done *)
        else b64_loop r qp left (if 2 <=? qp then pads + 1 else pads) acc
      else
        match b64_val c with
        | None => b64_loop r qp left pads acc
        | Some v =>
            if qp =? 0 then b64_loop r 1 v 0 acc
            else if qp =? 1 then b64_loop r 2 (v mod 16) 0 ((left * 4 + v / 16) :: acc)
            else if qp =? 2 then b64_loop r 3 (v mod 4) 0 ((left * 16 + v / 4) :: acc)
            else b64_loop r 0 0 0 ((left * 64 + v) :: acc)
        end
  end.

(* b64decode(s) for a bytes-like argument *)
Definition b64_decode_bytes (s : list Z) : result bytes := b64_loop s 0 0 0 [].

(* b64decode(s) for a str argument: s.encode("ascii") first (ValueError on a non-ASCII character) *)
Definition b64_decode_str (s : list Z) : result bytes :=
  if existsb (fun c => 128 <=? c) s then Err else b64_decode_bytes s.
