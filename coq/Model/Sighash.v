(* Model/Sighash.v — mirrors buidl/tx.py Tx.sig_hash_legacy / hash_prevouts / hash_sequence /
   hash_outputs / sig_hash_bip143 / sha_prevouts … sha_outputs / sig_hash_bip341 / sig_hash,
   buidl/witness.py Witness.has_annex / control_block / tap_script / tap_leaf and
   buidl/taproot.py TapLeaf.hash, ControlBlock.parse (the checks only), as the code is after the
   fix: commits 6fa6c1d e9f9502 b2ceef3 6995972 574593a 796d51d 9c0cf6b.  Definitions only.

   Conventions.
   * The amount and scriptPubKey of the outputs being spent are extra inputs ([spent], one per
     input): Python reads them through TxIn.value() / TxIn.script_pubkey(), which only return the
     pre-set fields `_value` / `_script_pubkey` (no fetch is modelled here; C04 owns the fetcher).
   * input_index is a [nat]: a negative Python index (which would wrap around in
     `self.tx_ins[input_index]`) is outside the model's domain.
   * Every builder returns the PREIMAGE (the byte string that is handed to the hash function);
     the digest is the hash of it.  hash256, sha256 and the two tagged hashes are Section
     variables; [xonly_ok b] says whether S256Point.parse_xonly(b) succeeds (ControlBlock.parse
     calls it; the curve code is modelled in Model/Pecc.v and plugged in by the dispatcher).
   * The memo fields `_hash_prevouts` … `_sha_outputs` are state: every accessor takes the memo
     record and returns the new one.  The accessors assign the field and then return what they
     READ BACK from the field, exactly like the Python (`return self._hash_prevouts`). *)
From V Require Import Base.Prelude Base.Ints Model.Helper Model.Script Model.Tx.

(* spent output of an input: TxIn._value, TxIn._script_pubkey *)
Record spent := { sp_value : Z; sp_script : script }.

(* hash-type tests as written: `hash_type & 3` (BIP341 builder), `hash_type & 0x1F` (legacy and
   BIP143 builders, after fix 9c0cf6b), `hash_type & SIGHASH_ANYONECANPAY` *)
Definition ht_base (ht : Z) : Z := Z.land ht 3.
Definition ht_base5 (ht : Z) : Z := Z.land ht 31.
Definition ht_acp (ht : Z) : bool := negb (Z.land ht 128 =? 0).
Definition ht_none_or_single (ht : Z) : bool := (ht_base ht =? 2) || (ht_base ht =? 3).
Definition ht_none_or_single5 (ht : Z) : bool := (ht_base5 ht =? 2) || (ht_base5 ht =? 3).

(* helper.int_to_byte: bytes([n]) with an explicit range check *)
Definition int_to_byte (n : Z) : result bytes :=
  if (n <? 0) || (255 <? n) then Err else Ok [n].

(* items[-1-k] *)
Definition nth_last {A} (k : nat) (l : list A) : option A := nth_error (rev l) k.

(* Script() *)
Definition empty_script : script := mk_script [].

(* RedeemScript.convert / WitnessScript.convert / Witness.tap_script:
   cls.parse(BytesIO(encode_varstr(raw))) *)
Definition script_convert (raw : bytes) : result script :=
  e <- encode_varstr raw ;;
  '(sc, _) <- parse_script e ;; Ok sc.

(* Witness.has_annex (after the fix: at least two items) *)
Definition has_annex (w : list bytes) : bool :=
  (2 <=? length w)%nat &&
  match nth_last 0 w with
  | Some (b :: _) => b =? 80
  | _ => false
  end.

(* the memo fields of a Tx object (None = Python None).  `_sha_sequence` is initialised by
   __init__ but never written: the accessor assigns `_sha_sequences` (sic), modelled as
   m_sha_sequences. *)
Record memo := {
  m_hash_prevouts : option bytes; m_hash_sequence : option bytes; m_hash_outputs : option bytes;
  m_sha_prevouts : option bytes; m_sha_amounts : option bytes; m_sha_script_pubkeys : option bytes;
  m_sha_sequences : option bytes; m_sha_outputs : option bytes }.
Definition memo_empty : memo :=
  {| m_hash_prevouts := None; m_hash_sequence := None; m_hash_outputs := None;
     m_sha_prevouts := None; m_sha_amounts := None; m_sha_script_pubkeys := None;
     m_sha_sequences := None; m_sha_outputs := None |}.

(* reading a memo field into `s += …`: None would raise TypeError *)
Definition rd (o : option bytes) : result bytes := match o with Some b => Ok b | None => Err end.

Section WithHashes.
Variable hash256 : bytes -> bytes.
Variable sha256 : bytes -> bytes.
Variable hash_tapsighash : bytes -> bytes.
Variable hash_tapleaf : bytes -> bytes.
Variable xonly_ok : bytes -> bool.

(* ------------------------------------------------------------------ *)
(* legacy                                                             *)

(* the TxIn built inside the loop, serialised only where the code serialises it *)
Definition legacy_txin (ht : Z) (idx : nat) (code : script) (i : nat) (ti : txin) : result bytes :=
  let me := (i =? idx)%nat in
  let new_in := {| i_prev_tx := i_prev_tx ti; i_prev_index := i_prev_index ti;
                   i_script := if me then code else empty_script;
                   i_sequence := if me then i_sequence ti
                                 else if ht_none_or_single5 ht then 0 else i_sequence ti;
                   i_witness := [] |} in
  if ht_acp ht then (if me then txin_serialize new_in else Ok [])
  else txin_serialize new_in.

Fixpoint legacy_ins (ht : Z) (idx : nat) (code : script) (i : nat) (l : list txin) : result bytes :=
  match l with
  | [] => Ok []
  | ti :: r => a <- legacy_txin ht idx code i ti ;; b <- legacy_ins ht idx code (S i) r ;; Ok (a ++ b)
  end.

Definition null_txout : bytes := [255; 255; 255; 255; 255; 255; 255; 255; 0].

(* SIGHASH_SINGLE branch of the output loop: placeholders, then the output, then `break` *)
Fixpoint legacy_single_outs (idx i : nat) (l : list txout) : result bytes :=
  match l with
  | [] => Ok []
  | o :: r =>
      if (i =? idx)%nat then txout_serialize o
      else b <- legacy_single_outs idx (S i) r ;; Ok (null_txout ++ b)
  end.

Definition legacy_outs (ht : Z) (idx : nat) (l : list txout) : result bytes :=
  if ht_base5 ht =? 2 then encode_varint 0
  else if ht_base5 ht =? 3 then
    n <- encode_varint (Z.of_nat idx + 1) ;; b <- legacy_single_outs idx 0 l ;; Ok (n ++ b)
  else n <- encode_varint (zlen l) ;; b <- ser_outs l ;; Ok (n ++ b).

(* None = the early `return DEFAULT` (no preimage).  [code] is what the caller's
   `redeem_script if redeem_script else tx_in.script_pubkey()` evaluates to; a Script object is
   always truthy (the class defines neither __bool__ nor __len__). *)
Definition legacy_preimage (t : tx) (idx : nat) (code : script) (ht : Z) : result (option bytes) :=
  if (length (t_ins t) <=? idx)%nat then Ok None
  else if (ht_base5 ht =? 3) && (length (t_outs t) <=? idx)%nat then Ok None
  else
    v <- int_to_le (t_version t) 4 ;;
    ni <- (if ht_acp ht then encode_varint 1 else encode_varint (zlen (t_ins t))) ;;
    ins <- legacy_ins ht idx code 0 (t_ins t) ;;
    outs <- legacy_outs ht idx (t_outs t) ;;
    lt <- int_to_le (t_locktime t) 4 ;;
    h <- int_to_le ht 4 ;;
    Ok (Some (v ++ ni ++ ins ++ outs ++ lt ++ h)).

Definition legacy_default : Z := 2 ^ 248.

(* Tx.sig_hash_legacy(input_index, redeem_script, hash_type); the spent scriptPubKey is looked
   up only when no redeem script is passed and the input is in range *)
Definition sig_hash_legacy (t : tx) (sp : list spent) (idx : nat) (redeem : option script) (ht : Z)
  : result (option bytes * Z) :=
  code <- match redeem with
          | Some r => Ok r
          | None => match nth_error sp idx with
                    | Some s => Ok (sp_script s)
                    | None => if (length (t_ins t) <=? idx)%nat then Ok empty_script else Err
                    end
          end ;;
  p <- legacy_preimage t idx code ht ;;
  match p with
  | None => Ok (None, legacy_default)
  | Some s => Ok (Some s, from_be (hash256 s))
  end.

(* ------------------------------------------------------------------ *)
(* BIP143                                                             *)

Fixpoint prevouts_seqs (l : list txin) : result (bytes * bytes) :=
  match l with
  | [] => Ok ([], [])
  | ti :: r =>
      pi <- int_to_le (i_prev_index ti) 4 ;;
      sq <- int_to_le (i_sequence ti) 4 ;;
      '(p, s) <- prevouts_seqs r ;;
      Ok (rev (i_prev_tx ti) ++ pi ++ p, sq ++ s)
  end.

Definition hash_prevouts (t : tx) (m : memo) : result (memo * bytes) :=
  '(p, s) <- prevouts_seqs (t_ins t) ;;
  let m' := {| m_hash_prevouts := Some (hash256 p); m_hash_sequence := Some (hash256 s);
               m_hash_outputs := m_hash_outputs m;
               m_sha_prevouts := m_sha_prevouts m; m_sha_amounts := m_sha_amounts m;
               m_sha_script_pubkeys := m_sha_script_pubkeys m;
               m_sha_sequences := m_sha_sequences m; m_sha_outputs := m_sha_outputs m |} in
  b <- rd (m_hash_prevouts m') ;; Ok (m', b).

Definition hash_sequence (t : tx) (m : memo) : result (memo * bytes) :=
  '(m', _) <- hash_prevouts t m ;;
  b <- rd (m_hash_sequence m') ;; Ok (m', b).

Definition hash_outputs (t : tx) (m : memo) : result (memo * bytes) :=
  o <- ser_outs (t_outs t) ;;
  let m' := {| m_hash_prevouts := m_hash_prevouts m; m_hash_sequence := m_hash_sequence m;
               m_hash_outputs := Some (hash256 o);
               m_sha_prevouts := m_sha_prevouts m; m_sha_amounts := m_sha_amounts m;
               m_sha_script_pubkeys := m_sha_script_pubkeys m;
               m_sha_sequences := m_sha_sequences m; m_sha_outputs := m_sha_outputs m |} in
  b <- rd (m_hash_outputs m') ;; Ok (m', b).

Definition zero32 : bytes := repeatz 0 32.

(* `h160 = script.commands[1]; P2PKHScriptPubKey(h160)` (TypeError unless bytes) *)
Definition p2pkh_of_second (sc : script) : result script :=
  match nth_error (s_cmds sc) 1 with
  | Some (Push h) => Ok (mk_script (p2pkh_script h))
  | _ => Err
  end.

Definition bip143_script_code (redeem wscript : option script) (spk : option script) : result script :=
  match wscript with
  | Some w => Ok w
  | None =>
      match redeem with
      | Some r => p2pkh_of_second r
      | None => match spk with Some s => p2pkh_of_second s | None => Err end
      end
  end.

(* Tx.sig_hash_bip143(input_index, redeem_script, witness_script, hash_type): preimage *)
Definition bip143_preimage (t : tx) (sp : list spent) (idx : nat) (redeem wscript : option script)
  (ht : Z) (m : memo) : result (memo * bytes) :=
  match nth_error (t_ins t) idx with
  | None => Err
  | Some ti =>
      v <- int_to_le (t_version t) 4 ;;
      '(m1, hp) <- (if negb (ht_acp ht) then hash_prevouts t m else Ok (m, zero32)) ;;
      '(m2, hs) <- (if negb (ht_acp ht) && negb (ht_none_or_single5 ht)
                    then hash_sequence t m1 else Ok (m1, zero32)) ;;
      pi <- int_to_le (i_prev_index ti) 4 ;;
      code <- bip143_script_code redeem wscript (option_map sp_script (nth_error sp idx)) ;;
      sc <- serialize_script code ;;
      val <- match nth_error sp idx with Some s => int_to_le (sp_value s) 8 | None => Err end ;;
      sq <- int_to_le (i_sequence ti) 4 ;;
      '(m3, ho) <- (if negb (ht_none_or_single5 ht) then hash_outputs t m2
                    else if (ht_base5 ht =? 3) && (idx <? length (t_outs t))%nat then
                      match nth_error (t_outs t) idx with
                      | Some o => so <- txout_serialize o ;; Ok (m2, hash256 so)
                      | None => Err
                      end
                    else Ok (m2, zero32)) ;;
      lt <- int_to_le (t_locktime t) 4 ;;
      h <- int_to_le ht 4 ;;
      Ok (m3, v ++ hp ++ hs ++ rev (i_prev_tx ti) ++ pi ++ sc ++ val ++ sq ++ ho ++ lt ++ h)
  end.

Definition sig_hash_bip143 (t : tx) (sp : list spent) (idx : nat) (redeem wscript : option script)
  (ht : Z) (m : memo) : result (memo * (bytes * Z)) :=
  '(m', s) <- bip143_preimage t sp idx redeem wscript ht m ;;
  Ok (m', (s, from_be (hash256 s))).

(* ------------------------------------------------------------------ *)
(* BIP341                                                             *)

(* the loop of sha_prevouts: prevouts, amounts, scriptPubKeys, sequences *)
Fixpoint sha_parts (l : list txin) (i : nat) (sp : list spent)
  : result (bytes * bytes * bytes * bytes) :=
  match l with
  | [] => Ok ([], [], [], [])
  | ti :: r =>
      pi <- int_to_le (i_prev_index ti) 4 ;;
      s <- match nth_error sp i with Some s => Ok s | None => Err end ;;
      am <- int_to_le (sp_value s) 8 ;;
      sc <- serialize_script (sp_script s) ;;
      sq <- int_to_le (i_sequence ti) 4 ;;
      '(p, a, k, q) <- sha_parts r (S i) sp ;;
      Ok (rev (i_prev_tx ti) ++ pi ++ p, am ++ a, sc ++ k, sq ++ q)
  end.

Definition sha_prevouts (t : tx) (sp : list spent) (m : memo) : result (memo * bytes) :=
  '(p, a, k, q) <- sha_parts (t_ins t) 0 sp ;;
  let m' := {| m_hash_prevouts := m_hash_prevouts m; m_hash_sequence := m_hash_sequence m;
               m_hash_outputs := m_hash_outputs m;
               m_sha_prevouts := Some (sha256 p); m_sha_amounts := Some (sha256 a);
               m_sha_script_pubkeys := Some (sha256 k);
               m_sha_sequences := Some (sha256 q); m_sha_outputs := m_sha_outputs m |} in
  b <- rd (m_sha_prevouts m') ;; Ok (m', b).
Definition sha_amounts (t : tx) (sp : list spent) (m : memo) : result (memo * bytes) :=
  '(m', _) <- sha_prevouts t sp m ;; b <- rd (m_sha_amounts m') ;; Ok (m', b).
Definition sha_script_pubkeys (t : tx) (sp : list spent) (m : memo) : result (memo * bytes) :=
  '(m', _) <- sha_prevouts t sp m ;; b <- rd (m_sha_script_pubkeys m') ;; Ok (m', b).
Definition sha_sequences (t : tx) (sp : list spent) (m : memo) : result (memo * bytes) :=
  '(m', _) <- sha_prevouts t sp m ;; b <- rd (m_sha_sequences m') ;; Ok (m', b).
Definition sha_outputs (t : tx) (m : memo) : result (memo * bytes) :=
  o <- ser_outs (t_outs t) ;;
  let m' := {| m_hash_prevouts := m_hash_prevouts m; m_hash_sequence := m_hash_sequence m;
               m_hash_outputs := m_hash_outputs m;
               m_sha_prevouts := m_sha_prevouts m; m_sha_amounts := m_sha_amounts m;
               m_sha_script_pubkeys := m_sha_script_pubkeys m;
               m_sha_sequences := m_sha_sequences m; m_sha_outputs := Some (sha256 o) |} in
  b <- rd (m_sha_outputs m') ;; Ok (m', b).

(* ControlBlock.parse: the checks, and the only field used here (tapleaf_version) *)
Definition control_block_version (b : bytes) : result Z :=
  let n := zlen b in
  if negb (n mod 32 =? 1) then Err
  else if (n <? 33) || (33 + 128 * 32 <? n) then Err
  else match b with
       | [] => Err
       | b0 :: r => if xonly_ok (firstn 32 r) then Ok (Z.land b0 254) else Err
       end.

(* Witness.control_block / tap_script / tap_leaf, TapLeaf.hash *)
Definition tap_leaf_preimage (w : list bytes) : result bytes :=
  let k := if has_annex w then 1%nat else 0%nat in
  cb <- match nth_last k w with Some b => Ok b | None => Err end ;;
  ver <- control_block_version cb ;;
  raw <- match nth_last (S k) w with Some b => Ok b | None => Err end ;;
  ts <- script_convert raw ;;
  vb <- int_to_byte ver ;;
  sc <- serialize_script ts ;;
  Ok (vb ++ sc).

(* Tx.sig_hash_bip341(input_index, ext_flag, hash_type): the message handed to hash_tapsighash *)
Definition bip341_preimage (t : tx) (sp : list spent) (idx : nat) (ext_flag : Z) (ht : Z) (m : memo)
  : result (memo * bytes) :=
  match nth_error (t_ins t) idx with
  | None => Err
  | Some ti =>
      hb <- int_to_byte ht ;;
      v <- int_to_le (t_version t) 4 ;;
      lt <- int_to_le (t_locktime t) 4 ;;
      '(m1, ins) <- (if negb (ht_acp ht) then
                       '(ma, a) <- sha_prevouts t sp m ;;
                       '(mb, b) <- sha_amounts t sp ma ;;
                       '(mc, c) <- sha_script_pubkeys t sp mb ;;
                       '(md, d) <- sha_sequences t sp mc ;;
                       Ok (md, a ++ b ++ c ++ d)
                     else Ok (m, [])) ;;
      '(m2, outs) <- (if negb (ht_none_or_single ht) then sha_outputs t m1 else Ok (m1, [])) ;;
      let annex := has_annex (i_witness ti) in
      st <- int_to_byte (ext_flag * 2 + (if annex then 1 else 0)) ;;
      inp <- (if ht_acp ht then
                pi <- int_to_le (i_prev_index ti) 4 ;;
                s <- match nth_error sp idx with Some s => Ok s | None => Err end ;;
                am <- int_to_le (sp_value s) 8 ;;
                sc <- serialize_script (sp_script s) ;;
                sq <- int_to_le (i_sequence ti) 4 ;;
                Ok (rev (i_prev_tx ti) ++ pi ++ am ++ sc ++ sq)
              else int_to_le (Z.of_nat idx) 4) ;;
      anx <- (if annex then
                match nth_last 0 (i_witness ti) with
                | Some a => e <- encode_varstr a ;; Ok (sha256 e)
                | None => Err
                end
              else Ok []) ;;
      single <- (if ht_base ht =? 3 then
                   match nth_error (t_outs t) idx with
                   | Some o => so <- txout_serialize o ;; Ok (sha256 so)
                   | None => Err                      (* IndexError *)
                   end
                 else Ok []) ;;
      ext <- (if ext_flag =? 1 then
                lp <- tap_leaf_preimage (i_witness ti) ;;
                Ok (hash_tapleaf lp ++ [0; 255; 255; 255; 255])
              else Ok []) ;;
      (* after fix 796d51d: the annex comes before the single output *)
      Ok (m2, [0] ++ hb ++ v ++ lt ++ ins ++ outs ++ st ++ inp ++ anx ++ single ++ ext)
  end.

Definition sig_hash_bip341 (t : tx) (sp : list spent) (idx : nat) (ext_flag : Z) (ht : Z) (m : memo)
  : result (memo * (bytes * bytes)) :=
  '(m', s) <- bip341_preimage t sp idx ext_flag ht m ;;
  Ok (m', (s, hash_tapsighash s)).

(* ------------------------------------------------------------------ *)
(* Tx.sig_hash: the dispatch                                          *)

Inductive plan : Type :=
| PLegacy (redeem : option script)
| PBip143 (redeem wscript : option script)
| PBip341 (ext_flag : Z).

Definition opt_is (p : list cmd -> bool) (o : option script) : bool :=
  match o with Some s => p (s_cmds s) | None => false end.

Definition sig_hash_plan (ti : txin) (spk : script) : result plan :=
  let c := s_cmds spk in
  redeem <- (if is_p2sh c then
               match nth_last 0 (s_cmds (i_script ti)) with
               | Some (Push raw) => r <- script_convert raw ;; Ok (Some r)
               | _ => Err            (* empty scriptSig: IndexError; an opcode: TypeError *)
               end
             else Ok None) ;;
  wscript <- (if is_p2wsh c || opt_is is_p2wsh redeem then
                match nth_last 0 (i_witness ti) with
                | Some raw => w <- script_convert raw ;; Ok (Some w)
                | None => Err
                end
              else Ok None) ;;
  if is_p2wpkh c || opt_is is_p2wpkh redeem || is_p2wsh c || opt_is is_p2wsh redeem
  then Ok (PBip143 redeem wscript)
  else if is_p2tr c then
    let n := zlen (i_witness ti) - (if has_annex (i_witness ti) then 1 else 0) in
    Ok (PBip341 (if 1 <? n then 1 else 0))
  else Ok (PLegacy redeem).

(* digests as returned by the library: ints for legacy/BIP143, bytes for BIP341 *)
Inductive digest : Type := DInt (z : Z) | DBytes (b : bytes).

(* algorithm tag, preimage (None for the legacy constant), digest *)
Record sh_out := { so_alg : Z; so_pre : option bytes; so_digest : digest }.

Definition sig_hash (t : tx) (sp : list spent) (idx : nat) (ht : Z) (m : memo)
  : result (memo * sh_out) :=
  match nth_error (t_ins t) idx, nth_error sp idx with
  | Some ti, Some s =>
      pl <- sig_hash_plan ti (sp_script s) ;;
      match pl with
      | PBip143 redeem wscript =>
          '(m', (p, d)) <- sig_hash_bip143 t sp idx redeem wscript ht m ;;
          Ok (m', {| so_alg := 143; so_pre := Some p; so_digest := DInt d |})
      | PBip341 ext =>
          '(m', (p, d)) <- sig_hash_bip341 t sp idx ext ht m ;;
          Ok (m', {| so_alg := 341; so_pre := Some p; so_digest := DBytes d |})
      | PLegacy redeem =>
          '(p, d) <- sig_hash_legacy t sp idx redeem ht ;;
          Ok (m, {| so_alg := 0; so_pre := p; so_digest := DInt d |})
      end
  | _, _ => Err
  end.

(* ------------------------------------------------------------------ *)
(* A Tx object with its memo fields, and the operations of a history   *)

Record txobj := { ob_tx : tx; ob_spent : list spent; ob_memo : memo }.

Inductive alg : Type :=
| ALegacy (redeem : option script)
| ABip143 (redeem wscript : option script)
| ABip341 (ext_flag : Z)
| ADispatch.

Inductive op : Type :=
| Query (a : alg) (idx : nat) (ht : Z)
| EditOutput (k : nat) (o : txout)             (* tx.tx_outs[k] = o  (append when k = len) *)
| EditInput (k : nat) (i : txin) (s : spent)   (* tx.tx_ins[k] = i, with its spent output *)
| EditSequence (k : nat) (sq : Z)              (* tx.tx_ins[k].sequence = Sequence(sq) *)
| EditLocktime (lt : Z)                        (* tx.locktime = Locktime(lt) *)
| EditWitness (k : nat) (w : list bytes).      (* tx.tx_ins[k].witness = Witness(w) *)

Fixpoint set_nth {A} (k : nat) (x : A) (l : list A) : list A :=
  match k, l with
  | O, [] => [x]
  | O, _ :: r => x :: r
  | S k', y :: r => y :: set_nth k' x r
  | S _, [] => []
  end.
Fixpoint upd_nth {A} (k : nat) (f : A -> A) (l : list A) : list A :=
  match k, l with
  | O, y :: r => f y :: r
  | S k', y :: r => y :: upd_nth k' f r
  | _, [] => []
  end.

Definition with_ins (t : tx) (l : list txin) : tx :=
  {| t_version := t_version t; t_ins := l; t_outs := t_outs t; t_locktime := t_locktime t;
     t_segwit := t_segwit t |}.
Definition with_outs (t : tx) (l : list txout) : tx :=
  {| t_version := t_version t; t_ins := t_ins t; t_outs := l; t_locktime := t_locktime t;
     t_segwit := t_segwit t |}.
Definition with_locktime (t : tx) (lt : Z) : tx :=
  {| t_version := t_version t; t_ins := t_ins t; t_outs := t_outs t; t_locktime := lt;
     t_segwit := t_segwit t |}.
Definition in_with_seq (sq : Z) (i : txin) : txin :=
  {| i_prev_tx := i_prev_tx i; i_prev_index := i_prev_index i; i_script := i_script i;
     i_sequence := sq; i_witness := i_witness i |}.
Definition in_with_wit (w : list bytes) (i : txin) : txin :=
  {| i_prev_tx := i_prev_tx i; i_prev_index := i_prev_index i; i_script := i_script i;
     i_sequence := i_sequence i; i_witness := w |}.

(* an edit changes the fields and leaves the memo alone (nothing in the library resets it) *)
Definition apply_edit (o : op) (t : tx) (sp : list spent) : tx * list spent :=
  match o with
  | Query _ _ _ => (t, sp)
  | EditOutput k x => (with_outs t (set_nth k x (t_outs t)), sp)
  | EditInput k i s => (with_ins t (set_nth k i (t_ins t)), set_nth k s sp)
  | EditSequence k sq => (with_ins t (upd_nth k (in_with_seq sq) (t_ins t)), sp)
  | EditLocktime lt => (with_locktime t lt, sp)
  | EditWitness k w => (with_ins t (upd_nth k (in_with_wit w) (t_ins t)), sp)
  end.

(* one query on given fields and memo: new memo and what the call returned *)
Definition run_query (a : alg) (t : tx) (sp : list spent) (idx : nat) (ht : Z) (m : memo)
  : memo * result sh_out :=
  let r :=
    match a with
    | ALegacy redeem =>
        '(p, d) <- sig_hash_legacy t sp idx redeem ht ;;
        Ok (m, {| so_alg := 0; so_pre := p; so_digest := DInt d |})
    | ABip143 redeem wscript =>
        '(m', (p, d)) <- sig_hash_bip143 t sp idx redeem wscript ht m ;;
        Ok (m', {| so_alg := 143; so_pre := Some p; so_digest := DInt d |})
    | ABip341 ext =>
        '(m', (p, d)) <- sig_hash_bip341 t sp idx ext ht m ;;
        Ok (m', {| so_alg := 341; so_pre := Some p; so_digest := DBytes d |})
    | ADispatch => sig_hash t sp idx ht m
    end in
  match r with
  | Ok (m', o) => (m', Ok o)
  | Err => (m, Err)      (* an exception: which memo fields were already assigned is not
                            tracked — they are write-only, see Proofs/SighashP.v *)
  end.

(* step: edits return nothing (None), queries return the library's result *)
Definition step (st : txobj) (o : op) : txobj * option (result sh_out) :=
  match o with
  | Query a idx ht =>
      let '(m', r) := run_query a (ob_tx st) (ob_spent st) idx ht (ob_memo st) in
      ({| ob_tx := ob_tx st; ob_spent := ob_spent st; ob_memo := m' |}, Some r)
  | _ =>
      let '(t', sp') := apply_edit o (ob_tx st) (ob_spent st) in
      ({| ob_tx := t'; ob_spent := sp'; ob_memo := ob_memo st |}, None)
  end.

(* run a history, collecting the outputs of the queries in order *)
Fixpoint run (st : txobj) (ops : list op) : txobj * list (result sh_out) :=
  match ops with
  | [] => (st, [])
  | o :: r =>
      let '(st1, out) := step st o in
      let '(st2, outs) := run st1 r in
      (st2, match out with Some x => x :: outs | None => outs end)
  end.

End WithHashes.
