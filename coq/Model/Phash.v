(* Model/Phash.v — buidl/phash.py: tagged_hash with the module-level TAG_HASH_CACHE as
   explicit state; plus the byte-level call sequences of the Schnorr API (what a caller
   of S256Point.parse / SchnorrSignature.parse / verify_schnorr executes).
   Definitions only. *)
From V Require Import Base.Prelude Base.Ints Model.Pecc.

Section Phash.
Variable sha256 : bytes -> bytes.

(* TAG_HASH_CACHE: dict tag -> sha256(tag) * 2 ; newest binding first *)
Definition cache := list (bytes * bytes).

Fixpoint cache_get (c : cache) (tag : bytes) : option bytes :=
  match c with
  | [] => None
  | (t, v) :: r => if beq t tag then Some v else cache_get r tag
  end.

(* def tagged_hash(tag, msg):
     if TAG_HASH_CACHE.get(tag) is None:
         TAG_HASH_CACHE[tag] = hashlib.sha256(tag).digest() * 2
     return hashlib.sha256(TAG_HASH_CACHE[tag] + msg).digest()                      *)
Definition th_step (c : cache) (call : bytes * bytes) : cache * bytes :=
  let '(tag, msg) := call in
  match cache_get c tag with
  | Some pre => (c, sha256 (pre ++ msg))
  | None =>
      let d := sha256 tag in
      let pre := d ++ d in
      ((tag, pre) :: c, sha256 (pre ++ msg))
  end.

(* a history of calls, threading the cache; returns the final cache and all digests *)
Fixpoint th_run (c : cache) (calls : list (bytes * bytes)) : cache * list bytes :=
  match calls with
  | [] => (c, [])
  | call :: rest =>
      let '(c1, d) := th_step c call in
      let '(c2, ds) := th_run c1 rest in
      (c2, d :: ds)
  end.

End Phash.

Section SchnorrBytes.
Variable C : curve.
Variable sha256 : bytes -> bytes.

(* S256Point.parse(pk).verify_schnorr(msg, SchnorrSignature.parse(sig)) *)
Definition schnorr_verify_bytes (pk msg sig : bytes) : result bool :=
  P <- parse_point C pk ;;
  '(r, s) <- schnorr_parse C sig ;;
  schnorr_verify C sha256 P msg r s.

(* "accepted": the call returns True (False and every exception are rejections) *)
Definition schnorr_accepts (pk msg sig : bytes) : bool :=
  match schnorr_verify_bytes pk msg sig with Ok true => true | _ => false end.

End SchnorrBytes.

(* ------------------------------------------------------------------------------------------
   The object-level Schnorr API (what sign_schnorr returns before .serialize(), the aux=None
   default, SchnorrSignature.__eq__) and the same functions with TAG_HASH_CACHE threaded
   through as explicit state.  Definitions only. *)
Section SchnorrApi.
Variable C : curve.
Variable sha256 : bytes -> bytes.
Let n := cn C.

(* `if aux is None: aux = b"\x00" * 32` (PrivateKey.bip340_k; sign_schnorr passes aux on) *)
Definition aux_default (aux : option bytes) : bytes :=
  match aux with Some a => a | None => repeatz 0 32 end.
Definition bip340_k_opt (secret : Z) (msg : bytes) (aux : option bytes) : result Z :=
  bip340_k C sha256 secret msg (aux_default aux).
Definition schnorr_sign_opt (secret : Z) (msg : bytes) (aux : option bytes) : result bytes :=
  schnorr_sign C sha256 secret msg (aux_default aux).

(* PrivateKey.sign_schnorr as it returns: the SchnorrSignature object (r, s) *)
Definition schnorr_sign_obj (secret : Z) (msg aux : bytes) : result (point * Z) :=
  P <- pubkey C secret ;;
  e <- even_secret C secret ;;
  k0 <- bip340_k C sha256 secret msg aux ;;
  r0 <- rmul C k0 (G C) ;;
  par <- parity r0 ;;
  let k := if par =? 1 then n - k0 else k0 in
  r <- (if par =? 1 then rmul C k (G C) else Ok r0) ;;
  let h := from_be (tagged_hash sha256 tag_challenge (xonly r ++ xonly P ++ msg)) mod n in
  let s := (k + e * h) mod n in
  if n <=? s then Err
  else
    ok <- schnorr_verify C sha256 P msg r s ;;
    if ok then Ok (r, s) else Err.

(* S256Point.__eq__ (x == x and y == y; FieldElement.__eq__(None) is False) *)
Definition pt_eq (P Q : point) : bool :=
  match P, Q with
  | None, None => true
  | Some (x, y), Some (x', y') => (x =? x') && (y =? y')
  | _, _ => false
  end.
(* SchnorrSignature.__eq__ *)
Definition schnorr_sig_eq (a b : point * Z) : bool :=
  pt_eq (fst a) (fst b) && (snd a =? snd b).
(* SchnorrSignature.parse(a) == SchnorrSignature.parse(b) *)
Definition schnorr_parse_eq (a b : bytes) : result bool :=
  x <- schnorr_parse C a ;; y <- schnorr_parse C b ;; Ok (schnorr_sig_eq x y).
(* SchnorrSignature.parse(sig).serialize() *)
Definition schnorr_reserialize (sig : bytes) : result bytes :=
  '(r, s) <- schnorr_parse C sig ;; schnorr_serialize r s.

(* point.verify_schnorr(msg, SchnorrSignature.parse(sig)) on a point OBJECT given by its
   coordinates (any point the constructor accepts, either parity; [] = infinity) *)
Definition schnorr_verify_point (P : point) (msg sig : bytes) : result bool :=
  '(r, s) <- schnorr_parse C sig ;; schnorr_verify C sha256 P msg r s.

(* ---- the same code with the tag cache as state ---- *)
Definition th (c : cache) (tag msg : bytes) : cache * bytes := th_step sha256 c (tag, msg).

(* the part of verify_schnorr after the challenge hash *)
Definition schnorr_verify_tail (pt r : point) (s : Z) (h : bytes) : result bool :=
  let e := from_be h mod n in
  eP <- rmul C (- e) pt ;;
  res <- padd_int C eP s ;;
  match res with
  | None => Ok false
  | Some (x, y) => if y mod 2 =? 1 then Ok false else Ok (beq (xonly res) (xonly r))
  end.

Definition schnorr_verify_st (c : cache) (P : point) (msg : bytes) (r : point) (s : Z)
  : cache * result bool :=
  match even_point C P with
  | Err => (c, Err)
  | Ok pt =>
      match r with
      | None => (c, Ok false)
      | Some _ =>
          let '(c1, h) := th c tag_challenge (xonly r ++ xonly pt ++ msg) in
          (c1, schnorr_verify_tail pt r s h)
      end
  end.

Definition bip340_k_st (c : cache) (secret : Z) (msg aux : bytes) : cache * result Z :=
  match pubkey C secret with
  | Err => (c, Err)
  | Ok P =>
      match even_secret C secret with
      | Err => (c, Err)
      | Ok e =>
          if negb (length msg =? 32)%nat || negb (length aux =? 32)%nat then (c, Err)
          else
            match int_to_be e 32 with
            | Err => (c, Err)
            | Ok eb =>
                let '(c1, ha) := th c tag_aux aux in
                let t := xor_bytes eb ha in
                let '(c2, hn) := th c1 tag_nonce (t ++ xonly P ++ msg) in
                (c2, Ok (from_be hn mod n))
            end
      end
  end.

Definition schnorr_sign_st (c : cache) (secret : Z) (msg aux : bytes) : cache * result bytes :=
  match pubkey C secret with
  | Err => (c, Err)
  | Ok P =>
      match even_secret C secret with
      | Err => (c, Err)
      | Ok e =>
          let '(c1, kr) := bip340_k_st c secret msg aux in
          match kr with
          | Err => (c1, Err)
          | Ok k0 =>
              match rmul C k0 (G C) with
              | Err => (c1, Err)
              | Ok r0 =>
                  match parity r0 with
                  | Err => (c1, Err)
                  | Ok par =>
                      let k := if par =? 1 then n - k0 else k0 in
                      match (if par =? 1 then rmul C k (G C) else Ok r0) with
                      | Err => (c1, Err)
                      | Ok r =>
                          let '(c2, hh) := th c1 tag_challenge (xonly r ++ xonly P ++ msg) in
                          let h := from_be hh mod n in
                          let s := (k + e * h) mod n in
                          if n <=? s then (c2, Err)
                          else
                            let '(c3, okr) := schnorr_verify_st c2 P msg r s in
                            (c3, ok <- okr ;; if ok then schnorr_serialize r s else Err)
                      end
                  end
              end
          end
      end
  end.

(* parse + parse + verify with the cache as state *)
Definition schnorr_verify_bytes_st (c : cache) (pk msg sig : bytes) : cache * result bool :=
  match parse_point C pk with
  | Err => (c, Err)
  | Ok P =>
      match schnorr_parse C sig with
      | Err => (c, Err)
      | Ok (r, s) => schnorr_verify_st c P msg r s
      end
  end.

(* a session: any interleaving of tagged_hash calls, sign_schnorr(...).serialize() and
   S256Point.parse(pk).verify_schnorr(msg, SchnorrSignature.parse(sig)), sharing the cache *)
Inductive api_call :=
  | CallHash (tag msg : bytes)
  | CallSign (d : Z) (m a : bytes)
  | CallVerify (pk m sig : bytes).
Inductive api_out := OutHash (h : bytes) | OutSign (r : result bytes) | OutVerify (r : result bool).

Definition api_step (c : cache) (call : api_call) : cache * api_out :=
  match call with
  | CallHash t m => let '(c1, h) := th c t m in (c1, OutHash h)
  | CallSign d m a => let '(c1, r) := schnorr_sign_st c d m a in (c1, OutSign r)
  | CallVerify pk m sig => let '(c1, r) := schnorr_verify_bytes_st c pk m sig in (c1, OutVerify r)
  end.
Definition api_pure (call : api_call) : api_out :=
  match call with
  | CallHash t m => OutHash (tagged_hash sha256 t m)
  | CallSign d m a => OutSign (schnorr_sign C sha256 d m a)
  | CallVerify pk m sig => OutVerify (schnorr_verify_bytes C sha256 pk m sig)
  end.
Fixpoint api_run (c : cache) (calls : list api_call) : cache * list api_out :=
  match calls with
  | [] => (c, [])
  | call :: rest =>
      let '(c1, o) := api_step c call in
      let '(c2, os) := api_run c1 rest in
      (c2, o :: os)
  end.


End SchnorrApi.

(* the canonical 64-byte form of a signature string of at least 32 bytes, as SchnorrSignature.parse
   reads it: the first 32 bytes, and bytes 32..63 (a short tail is what BytesIO.read(32) returns)
   as a big-endian integer *)
Definition sig_canon (sig : bytes) : bytes :=
  firstn 32 sig ++ to_be 32 (from_be (firstn 32 (skipn 32 sig))).
