(* Model/Phash.v — buidl/phash.py: tagged_hash with the module-level TAG_HASH_CACHE as
   explicit state; plus the byte-level call sequences of the Schnorr API (what a caller
   of S256Point.parse / SchnorrSignature.parse / verify_schnorr executes).
   Definitions only. *)
From V Require Import Base.Prelude Base.Ints Model.Pecc.

Section Phash.
Variable sha256 : bytes -> bytes.

(* TAG_HASH_CACHE: dict tag -> sha256(tag) * 2 ; newest binding first *)
Definition cache := list (bytes * bytes).

Fixpoint cache_get (c : cache) (tag : bytes) : option bytes :=
  match c with
  | [] => None
  | (t, v) :: r => if beq t tag then Some v else cache_get r tag
  end.

(* def tagged_hash(tag, msg):
     if TAG_HASH_CACHE.get(tag) is None:
         TAG_HASH_CACHE[tag] = hashlib.sha256(tag).digest() * 2
     return hashlib.sha256(TAG_HASH_CACHE[tag] + msg).digest()                      *)
Definition th_step (c : cache) (call : bytes * bytes) : cache * bytes :=
  let '(tag, msg) := call in
  match cache_get c tag with
  | Some pre => (c, sha256 (pre ++ msg))
  | None =>
      let d := sha256 tag in
      let pre := d ++ d in
      ((tag, pre) :: c, sha256 (pre ++ msg))
  end.

(* a history of calls, threading the cache; returns the final cache and all digests *)
Fixpoint th_run (c : cache) (calls : list (bytes * bytes)) : cache * list bytes :=
  match calls with
  | [] => (c, [])
  | call :: rest =>
      let '(c1, d) := th_step c call in
      let '(c2, ds) := th_run c1 rest in
      (c2, d :: ds)
  end.

End Phash.

Section SchnorrBytes.
Variable C : curve.
Variable sha256 : bytes -> bytes.

(* S256Point.parse(pk).verify_schnorr(msg, SchnorrSignature.parse(sig)) *)
Definition schnorr_verify_bytes (pk msg sig : bytes) : result bool :=
  P <- parse_point C pk ;;
  '(r, s) <- schnorr_parse C sig ;;
  schnorr_verify C sha256 P msg r s.

(* "accepted": the call returns True (False and every exception are rejections) *)
Definition schnorr_accepts (pk msg sig : bytes) : bool :=
  match schnorr_verify_bytes pk msg sig with Ok true => true | _ => false end.

End SchnorrBytes.
