(* Model/BcurStr.v — the STRING layer of buidl/bcur.py: what _parse_bcur_helper does with the
   text before the header checks (lower, strip, startswith("ur:bytes/"), split("/"),
   split("of"), is_intable / int()), the f-strings of BCURSingle.encode / BCURMulti.encode
   (including str(int)), and the outermost functions on strings:
   BCURSingle(...).encode / BCURSingle.parse / BCURMulti(...).encode / BCURMulti.parse.

   Text = list of code points.  The model covers ASCII text (code points below 128):
   str.lower is A-Z -> a-z, str.strip strips 9..13 and 28..32, int() skips 9..13 and 32 only
   (CPython: int("\x1c1") raises although "\x1c1".strip() == "1"), accepts one sign and single
   underscores between digits, and refuses more than 4300 digits (CPython >= 3.11 default of
   sys.get_int_max_str_digits()).  Definitions only. *)
From V Require Import Base.Prelude Base.Ints Model.Helper Model.Base58 Model.Bech32 Model.Bcur.

(* ---- str.strip() ---- *)
Definition is_ws (c : Z) : bool := ((9 <=? c) && (c <=? 13)) || ((28 <=? c) && (c <=? 32)).
Fixpoint lstrip (s : list Z) : list Z :=
  match s with
  | c :: r => if is_ws c then lstrip r else s
  | [] => []
  end.
Definition rstrip (s : list Z) : list Z := rev (lstrip (rev s)).
Definition strip (s : list Z) : list Z := rstrip (lstrip s).

(* ---- s.split(sep), one-character separator: never the empty list ---- *)
Definition cons_hd (x : Z) (l : list (list Z)) : list (list Z) :=
  match l with
  | c :: cs => (x :: c) :: cs
  | [] => [[x]]
  end.
Fixpoint split_on (sep : Z) (s : list Z) : list (list Z) :=
  match s with
  | [] => [[]]
  | x :: r => if x =? sep then [] :: split_on sep r else cons_hd x (split_on sep r)
  end.

(* ---- s.split("of"): non-overlapping occurrences, left to right ---- *)
Fixpoint split_of (s : list Z) : list (list Z) :=
  match s with
  | [] => [[]]
  | x :: r =>
      match r with
      | y :: r' => if (x =? 111) && (y =? 102) then [] :: split_of r'
                   else cons_hd x (split_of r)
      | [] => [[x]]
      end
  end.

(* ---- int(s), base 10 ---- *)
Definition is_digit (c : Z) : bool := (48 <=? c) && (c <=? 57).
Fixpoint dig_acc (acc : Z) (prevd : bool) (l : list Z) : result Z :=
  match l with
  | [] => if prevd then Ok acc else Err
  | c :: r =>
      if is_digit c then dig_acc (acc * 10 + (c - 48)) true r
      else if (c =? 95) && prevd then dig_acc acc false r
      else Err
  end.
(* the digit limit counts digit characters (leading zeros too), not underscores / sign / spaces *)
Definition dig_lim (l : list Z) : result Z :=
  if 4300 <? zlen (filter is_digit l) then Err else dig_acc 0 false l.
Definition is_ws_int (c : Z) : bool := ((9 <=? c) && (c <=? 13)) || (c =? 32).
Fixpoint lstrip_int (s : list Z) : list Z :=
  match s with
  | c :: r => if is_ws_int c then lstrip_int r else s
  | [] => []
  end.
Definition strip_int (s : list Z) : list Z := rev (lstrip_int (rev (lstrip_int s))).
Definition py_int (s : list Z) : result Z :=
  match strip_int s with
  | [] => Err
  | c :: r =>
      if c =? 43 then dig_lim r
      else if c =? 45 then v <- dig_lim r ;; Ok (- v)
      else dig_lim (c :: r)
  end.

(* ---- str(n) ---- *)
Fixpoint dec_aux (fuel : nat) (n : Z) (acc : list Z) : list Z :=
  match fuel with
  | O => acc
  | S f => let acc' := (48 + n mod 10) :: acc in
           if n <? 10 then acc' else dec_aux f (n / 10) acc'
  end.
(* n >= 0; a number has at most log2 n + 1 decimal digits *)
Definition str_nat (n : Z) : list Z := dec_aux (S (Z.to_nat (Z.log2 n))) n [].
Definition str_int (n : Z) : list Z := if n <? 0 then 45 :: str_nat (- n) else str_nat n.

(* ---- _parse_bcur_helper up to the header checks ---- *)

(* "ur:bytes/" *)
Definition ur_prefix : list Z := [117;114;58;98;121;116;101;115;47].

(* xofy.split("of") must have two elements, both is_intable; x = int(..), y = int(..) *)
Definition parse_xofy (xofy : list Z) : result (Z * Z) :=
  match split_of xofy with
  | [a; b] => x <- py_int a ;; y <- py_int b ;; Ok (x, y)
  | _ => Err
  end.

(* bcur_parts = string.split("/"): 2, 3 or 4 elements *)
Definition fields_of_segs (segs : list (list Z)) : result part :=
  match segs with
  | [_; payload] =>
      Ok {| p_form := 2; p_x := 1; p_y := 1; p_chk := []; p_payload := payload |}
  | [_; chk; payload] =>
      Ok {| p_form := 3; p_x := 1; p_y := 1; p_chk := chk; p_payload := payload |}
  | [_; xofy; chk; payload] =>
      '(x, y) <- parse_xofy xofy ;;
      Ok {| p_form := 4; p_x := x; p_y := y; p_chk := chk; p_payload := payload |}
  | _ => Err
  end.

(* on string = bcur_string.lower().strip() *)
Definition str_core (string : list Z) : result part :=
  if negb (starts_with ur_prefix string) then Err
  else fields_of_segs (split_on 47 string).

Definition str_fields (s : list Z) : result part := str_core (strip (lower s)).

(* _parse_bcur_helper(bcur_string): (payload, checksum, x, y) *)
Definition parse_helper_str (s : list Z) : result (list Z * option (list Z) * Z * Z) :=
  p <- str_fields s ;; parse_part p.

(* ---- the f-strings of encode ---- *)
Definition fmt_part (p : part) : list Z :=
  if p_form p =? 2 then ur_prefix ++ p_payload p
  else if p_form p =? 3 then ur_prefix ++ p_chk p ++ 47 :: p_payload p
  else ur_prefix ++ str_int (p_x p) ++ [111; 102] ++ str_int (p_y p) ++
       47 :: p_chk p ++ 47 :: p_payload p.

Section WithHash.
Variable sha256 : bytes -> bytes.

(* BCURSingle(text_b64).encode(use_checksum) *)
Definition single_encode_str (data : bytes) (use_checksum : bool) : result (list Z) :=
  p <- single_encode sha256 data use_checksum ;; Ok (fmt_part p).

(* BCURMulti(text_b64).encode(max_size_per_chunk, animate) *)
Definition multi_encode_str (data : bytes) (max_size : Z) (animate : bool) : result (list (list Z)) :=
  ps <- multi_encode sha256 data max_size animate ;; Ok (map fmt_part ps).

(* BCURSingle.parse(to_parse): the payload bytes of the object it returns *)
Definition single_parse_str (s : list Z) : result bytes :=
  '(payload, checksum, x, y) <- parse_helper_str s ;;
  if negb (x =? 1) || negb (y =? 1) then Err
  else
    oe <- bcur_decode sha256 payload checksum ;;
    match oe with
    | None => Err
    | Some data => _ <- bcur_init sha256 data (Some payload) checksum ;; Ok data
    end.

(* the for loop of BCURMulti.parse over the strings *)
Fixpoint mp_loop_str (ss : list (list Z)) (cnt : Z) (gchk : option (list Z)) (gy : Z)
                     (acc : list (list Z)) : result (option (list Z) * list (list Z)) :=
  match ss with
  | [] => Ok (gchk, rev' acc)
  | s :: r =>
      '(payload, checksum, x, y) <- parse_helper_str s ;;
      if negb (cnt + 1 =? x) then Err
      else if cnt =? 0 then mp_loop_str r (cnt + 1) checksum y (payload :: acc)
      else if negb (match checksum, gchk with
                    | Some a, Some b => beq a b
                    | None, None => true
                    | _, _ => false
                    end) then Err
      else if negb (y =? gy) then Err
      else mp_loop_str r (cnt + 1) gchk gy (payload :: acc)
  end.

(* BCURMulti.parse(to_parse): the payload bytes of the object it returns *)
Definition multi_parse_str (ss : list (list Z)) : result bytes :=
  '(gchk, payloads) <- mp_loop_str ss 0 (Some []) 0 [] ;;
  oe <- bcur_decode sha256 (concat payloads) gchk ;;
  match oe with
  | None => Err
  | Some data => _ <- bcur_init sha256 data None gchk ;; Ok data
  end.

End WithHash.
