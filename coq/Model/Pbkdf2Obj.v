(* Model/Pbkdf2Obj.v — the rest of the vendored PBKDF2 class of buidl/pbkdf2.py around
   Model/Pbkdf2.v (which has the buffer / block counter / read / __f): the `closed` flag,
   close(), hexread() and a whole session of calls on one object.  An exception raised by a
   call (ValueError on a closed object, OverflowError "derived key too long") leaves the
   object as it was: read() assigns __buf / __blockNum only at its end.  Definitions only. *)
From V Require Import Base.Prelude Base.Ints Model.Mnemonic Model.Pbkdf2.

(* binascii.b2a_hex(s).decode("us-ascii"): two lower-case hex digits per octet *)
Definition hex_digit (d : Z) : Z := if d <? 10 then 48 + d else 87 + d.
Definition hex_of (b : bytes) : text :=
  flat_map (fun x => [hex_digit (x / 16); hex_digit (x mod 16)]) b.

(* one call on the object *)
Inductive pop := PRead (n : Z) | PHexRead (n : Z) | PClose.

Record pobj := { po_state : pstate; po_closed : bool }.

Section Obj.
  Variable prf : bytes -> bytes -> bytes.

  (* PBKDF2(passphrase, salt, iterations, ...) *)
  Definition po_new (pass salt : bytes) (iterations : Z) : result pobj :=
    st <- pb_init pass salt iterations ;; Ok {| po_state := st; po_closed := false |}.

  (* read(n): "file-like object is closed" comes first *)
  Definition po_read (o : pobj) (n : Z) : result (bytes * pobj) :=
    if po_closed o then Err
    else '(b, st') <- pb_read prf (po_state o) n ;;
         Ok (b, {| po_state := st'; po_closed := false |}).

  (* hexread(octets) = b2a_hex(self.read(octets)) *)
  Definition po_hexread (o : pobj) (n : Z) : result (text * pobj) :=
    '(b, o') <- po_read o n ;; Ok (hex_of b, o').

  (* close(): idempotent; the attributes are deleted, only `closed` is observable afterwards *)
  Definition po_close (o : pobj) : pobj := {| po_state := po_state o; po_closed := true |}.

  (* a session: the result of every call in order (close() returns None -> the empty value) *)
  Fixpoint po_run (o : pobj) (ops : list pop) : list (result bytes) :=
    match ops with
    | [] => []
    | PRead n :: r =>
        match po_read o n with
        | Ok (b, o') => Ok b :: po_run o' r
        | Err => Err :: po_run o r
        end
    | PHexRead n :: r =>
        match po_hexread o n with
        | Ok (h, o') => Ok h :: po_run o' r
        | Err => Err :: po_run o r
        end
    | PClose :: r => Ok [] :: po_run (po_close o) r
    end.

  Definition po_session (pass salt : bytes) (iterations : Z) (ops : list pop)
    : result (list (result bytes)) :=
    o <- po_new pass salt iterations ;; Ok (po_run o ops).
End Obj.

(* the shape of a session used in the theorems: reads / hexreads, then close, then anything *)
Definition rd_op (p : bool * Z) : pop := if fst p then PHexRead (snd p) else PRead (snd p).
Definition rd_out (p : bool * Z) (b : bytes) : result bytes := Ok (if fst p then hex_of b else b).
Definition closed_result (op : pop) : result bytes := match op with PClose => Ok [] | _ => Err end.
