(* Model/Murmur.v — mirrors buidl/helper.py murmur3(data, seed) on unbounded Z, with the
   masks exactly where the Python code has them (most intermediate values are NOT
   reduced; only the operands of right shifts and the result are).  Definitions only. *)
From V Require Import Base.Prelude Base.Ints.

Definition MM32 : Z := 4294967295.      (* 0xFFFFFFFF *)
Definition MC1 : Z := 3432918353.       (* 0xCC9E2D51 *)
Definition MC2 : Z := 461845907.        (* 0x1B873593 *)

(* k1 *= c1; k1 = (k1 << 15) | ((k1 & 0xFFFFFFFF) >> 17); k1 *= c2 *)
Definition mm_scramble (k1 : Z) : Z :=
  let k1 := k1 * MC1 in
  let k1 := Z.lor (Z.shiftl k1 15) (Z.shiftr (Z.land k1 MM32) 17) in
  k1 * MC2.

(* one iteration of the 4-byte block loop *)
Definition mm_block (h1 d0 d1 d2 d3 : Z) : Z :=
  let k1 := Z.lor (Z.lor (Z.lor (Z.land d0 255) (Z.shiftl (Z.land d1 255) 8))
                         (Z.shiftl (Z.land d2 255) 16)) (Z.shiftl d3 24) in
  let h1 := Z.lxor h1 (mm_scramble k1) in
  let h1 := Z.lor (Z.shiftl h1 13) (Z.shiftr (Z.land h1 MM32) 19) in
  h1 * 5 + 3864292196.                  (* 0xE6546B64 *)

(* the loop over range(0, roundedEnd, 4); returns h1 and the tail data[roundedEnd:] *)
Fixpoint mm_body (data : bytes) (h1 : Z) : Z * bytes :=
  match data with
  | d0 :: d1 :: d2 :: d3 :: rest => mm_body rest (mm_block h1 d0 d1 d2 d3)
  | tail => (h1, tail)
  end.

(* the three fall-through ifs on val = length & 3 *)
Definition mm_tail (h1 : Z) (tail : bytes) : Z :=
  match tail with
  | [t0] => Z.lxor h1 (mm_scramble (Z.lor 0 (Z.land t0 255)))
  | [t0; t1] => Z.lxor h1 (mm_scramble (Z.lor (Z.lor 0 (Z.shiftl (Z.land t1 255) 8)) (Z.land t0 255)))
  | [t0; t1; t2] =>
      Z.lxor h1 (mm_scramble (Z.lor (Z.lor (Z.shiftl (Z.land t2 255) 16) (Z.shiftl (Z.land t1 255) 8))
                                    (Z.land t0 255)))
  | _ => h1
  end.

Definition mm_fmix (h1 : Z) : Z :=
  let h1 := Z.lxor h1 (Z.shiftr (Z.land h1 MM32) 16) in
  let h1 := h1 * 2246822507 in          (* 0x85EBCA6B *)
  let h1 := Z.lxor h1 (Z.shiftr (Z.land h1 MM32) 13) in
  let h1 := h1 * 3266489909 in          (* 0xC2B2AE35 *)
  let h1 := Z.lxor h1 (Z.shiftr (Z.land h1 MM32) 16) in
  Z.land h1 MM32.

Definition murmur3 (data : bytes) (seed : Z) : Z :=
  let '(h1, tail) := mm_body data seed in
  let h1 := mm_tail h1 tail in
  let h1 := Z.lxor h1 (zlen data) in
  mm_fmix h1.
