(* Model/Difficulty.v — buidl/block.py Block.difficulty:  lowest / self.target()  with
   lowest = 0xFFFF * 256 ** (0x1D - 3).  Definitions only.

   Both operands are Python ints, so `/` is int true division: CPython (long_true_divide)
   returns the double NEAREST to the exact quotient, ties to even.  target() is below 2^256
   (bits_to_target refuses more) and at least 1 here (0 raises ZeroDivisionError), so the
   quotient lies between 2^-33 and 2^224: always a normal double, no overflow, no underflow.
   The double is represented by (m, e) = m * 2^e with 2^52 <= m <= 2^53. *)
From V Require Import Base.Prelude Base.Ints Model.Helper Model.Block Model.Pow.

Definition LOWEST : Z := 65535 * 256 ^ (29 - 3).

(* the numerator is scaled by 2^DK so that every intermediate exponent is positive *)
Definition DK : Z := 400.

(* nearest double to a / b (ties to even) for 0 < a, 0 < b < 2^256 *)
Definition rn_div (a b : Z) : Z * Z :=
  let N := a * 2 ^ DK in
  let d := Z.log2 N - Z.log2 b in
  let L := if N <? b * 2 ^ d then d - 1 else d in          (* floor (log2 (N / b)) *)
  let s := L - 52 in
  let den := b * 2 ^ s in
  let q := N / den in
  let r := N mod den in
  let up := (den <? 2 * r) || ((2 * r =? den) && Z.odd q) in
  ((if up then q + 1 else q), s - DK).

(* float.as_integer_ratio(): lowest terms, the denominator a power of two *)
Definition ratio_of (me : Z * Z) : Z * Z :=
  let '(m, e) := me in
  if 0 <=? e then (m * 2 ^ e, 1)
  else let g := Z.gcd m (2 ^ (- e)) in (m / g, 2 ^ (- e) / g).

(* Block.difficulty() as (mantissa, exponent) *)
Definition difficulty (bits : bytes) : result (Z * Z) :=
  match bits_to_target_x bits with
  | B2T_ok t => if t =? 0 then Err else Ok (rn_div LOWEST t)     (* ZeroDivisionError *)
  | _ => Err                                                     (* ValueError / IndexError *)
  end.
