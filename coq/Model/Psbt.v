(* Model/Psbt.v — mirrors buidl/psbt.py: the PSBT key-value codec (global / input / output
   maps), validate, combine, finalize, final_tx.  Definitions only.

   Representation choices (see harness/manifest/C10.json):
   * a Python dict with bytes keys is a strictly sorted association list ([dset] inserts in
     order, later writes replace); the serialiser sorts every dict it walks, the few places
     that depend on insertion order are listed in the manifest;
   * hashes, the ECDSA check, the signature hashes, script evaluation of a finalised input and
     BIP32 public derivation are Section variables (oracles): every theorem holds for all
     of them;
   * [create] / [update] / [sign] are object plumbing around these functions and are tied to
     the code by the correspondence workflow cases only. *)
From V Require Import Base.Prelude Base.Ints Model.Helper Model.Script Model.Tx.

(* ------------------------------------------------------------------ *)
(* bytes ordering (Python's bytes comparison) and sorted dictionaries  *)

Fixpoint bcmp (a b : bytes) : comparison :=
  match a, b with
  | [], [] => Eq
  | [], _ :: _ => Lt
  | _ :: _, [] => Gt
  | x :: a', y :: b' => match x ?= y with Eq => bcmp a' b' | c => c end
  end.

Definition dict (V : Type) := list (bytes * V).

Section Dict.
Context {V : Type}.

Fixpoint dget (m : dict V) (k : bytes) : option V :=
  match m with
  | [] => None
  | (k', v) :: r => match bcmp k k' with Eq => Some v | _ => dget r k end
  end.

(* d[k] = v *)
Fixpoint dset (k : bytes) (v : V) (m : dict V) : dict V :=
  match m with
  | [] => [(k, v)]
  | (k', v') :: r =>
      match bcmp k k' with
      | Lt => (k, v) :: m
      | Eq => (k, v) :: r
      | Gt => (k', v') :: dset k v r
      end
  end.

(* {**lo, **hi}: entries of hi win *)
Definition dunion (lo hi : dict V) : dict V :=
  fold_left (fun acc kv => dset (fst kv) (snd kv) acc) hi lo.

Definition dkeys (m : dict V) : list bytes := map fst m.
Definition dvals (m : dict V) : list V := map snd m.
End Dict.

(* Python truthiness of the values that the code tests with `if x:` / `d.get(k)` *)
Definition truthy_bytes (o : option bytes) : bool :=
  match o with Some (_ :: _) => true | _ => false end.
Definition truthy_int (o : option Z) : bool :=
  match o with Some z => negb (z =? 0) | None => false end.
Definition truthy_wit (o : option (list bytes)) : bool :=
  match o with Some (_ :: _) => true | _ => false end.
Definition is_some {A} (o : option A) : bool := match o with Some _ => true | None => false end.

(* serialize_key_value *)
Definition kv (k v : bytes) : result bytes :=
  a <- encode_varstr k ;; b <- encode_varstr v ;; Ok (a ++ b).

Fixpoint concat_res (l : list (result bytes)) : result bytes :=
  match l with
  | [] => Ok []
  | r :: t => a <- r ;; b <- concat_res t ;; Ok (a ++ b)
  end.

(* ------------------------------------------------------------------ *)
(* (a) the generic key-value map layer: what every parser does with a key type it does
   not know (the `extra_map` branch): entries (key, value) as var-strings, terminated by
   an empty key; a key whose earlier value is non-empty is a duplicate. *)

Definition kv_serialize (m : dict bytes) : result bytes :=
  b <- concat_res (map (fun e => kv (fst e) (snd e)) m) ;; Ok (b ++ [0]).

Fixpoint kv_loop (fuel : nat) (s : bytes) (acc : dict bytes) : result (dict bytes * bytes) :=
  match fuel with
  | O => Err
  | S f =>
      '(key, s1) <- read_varstr s ;;
      match key with
      | [] => Ok (acc, s1)
      | _ :: _ =>
          if truthy_bytes (dget acc key) then Err
          else '(v, s2) <- read_varstr s1 ;; kv_loop f s2 (dset key v acc)
      end
  end.
Definition kv_parse (s : bytes) : result (dict bytes * bytes) := kv_loop (S (length s)) s [].

(* ------------------------------------------------------------------ *)
(* BIP32 derivation records                                            *)

Inductive net := Mainnet | Testnet.
Definition net_eqb (a b : net) : bool :=
  match a, b with Mainnet, Mainnet | Testnet, Testnet => true | _, _ => false end.

Definition hardened : Z := 2147483648.

(* the child numbers of a binary path (4-byte little-endian groups) *)
Fixpoint path_children (fuel : nat) (b : bytes) : list Z :=
  match fuel with
  | O => []
  | S f => match b with
           | [] => []
           | _ => from_le (firstn 4 b) :: path_children f (skipn 4 b)
           end
  end.

(* parse_binary_path: only its failure matters *)
Definition bin_path_ok (b : bytes) : bool := (Nat.modulo (length b) 4 =? 0)%nat.

(* helper.path_network on the parsed path; components[2] of a one-component path with a
   purpose of 44'/84'/48' is an IndexError *)
Definition path_network (cs : list Z) : result net :=
  match cs with
  | [] => Ok Mainnet
  | c1 :: r =>
      if (c1 =? hardened + 44) || (c1 =? hardened + 84) || (c1 =? hardened + 48) then
        match r with
        | [] => Err
        | c2 :: _ => Ok (if c2 =? hardened + 1 then Testnet else Mainnet)
        end
      else Ok Mainnet
  end.

(* add_raw_path_data on a NamedPublicKey: returns the network attribute *)
Definition raw_path_net (raw_path : bytes) (network : option net) : result net :=
  let bin := skipn 4 raw_path in
  if negb (bin_path_ok bin) then Err
  else match network with
       | Some n => Ok n
       | None => path_network (path_children (length bin) bin)
       end.

Definition mainnet_xpubs : list bytes :=
  [[4;136;178;30]; [4;157;124;178]; [4;178;71;70]; [2;149;180;63]; [2;170;126;211]].
Definition testnet_xpubs : list bytes :=
  [[4;53;135;207]; [4;74;82;98]; [4;95;28;246]; [2;66;137;239]; [2;87;84;131]].
Definition xpub_version (n : net) : bytes :=
  match n with Mainnet => [4;136;178;30] | Testnet => [4;53;135;207] end.
Definition mem_bytes (b : bytes) (l : list bytes) : bool := existsb (beq b) l.

(* a global xpub record: [hd_key] is raw_serialize() (78 bytes), [hd_path] is raw_path *)
Record hd_pub := { hd_key : bytes; hd_path : bytes }.

(* ------------------------------------------------------------------ *)
(* records                                                             *)

Record psbt_in := {
  pi_prev_tx : option tx;
  pi_prev_out : option txout;
  pi_sigs : dict bytes;                (* sec -> signature || hash type byte *)
  pi_hash_type : option Z;
  pi_redeem : option script;
  pi_wscript : option script;
  pi_named : dict bytes;               (* sec -> raw_path *)
  pi_script_sig : option script;
  pi_witness : option (list bytes);
  pi_extra : dict bytes }.

Record psbt_out := {
  po_redeem : option script;
  po_wscript : option script;
  po_named : dict bytes;
  po_extra : dict bytes }.

Record psbt := {
  p_tx : tx;
  p_ins : list psbt_in;
  p_outs : list psbt_out;
  p_hd : dict hd_pub;
  p_extra : dict bytes }.

Definition empty_in : psbt_in :=
  {| pi_prev_tx := None; pi_prev_out := None; pi_sigs := []; pi_hash_type := None;
     pi_redeem := None; pi_wscript := None; pi_named := []; pi_script_sig := None;
     pi_witness := None; pi_extra := [] |}.
Definition empty_out : psbt_out :=
  {| po_redeem := None; po_wscript := None; po_named := []; po_extra := [] |}.

Definition set_prev_tx (st : psbt_in) (v : option tx) : psbt_in :=
  {| pi_prev_tx := v; pi_prev_out := pi_prev_out st; pi_sigs := pi_sigs st;
     pi_hash_type := pi_hash_type st; pi_redeem := pi_redeem st; pi_wscript := pi_wscript st;
     pi_named := pi_named st; pi_script_sig := pi_script_sig st; pi_witness := pi_witness st;
     pi_extra := pi_extra st |}.
Definition set_prev_out (st : psbt_in) (v : option txout) : psbt_in :=
  {| pi_prev_tx := pi_prev_tx st; pi_prev_out := v; pi_sigs := pi_sigs st;
     pi_hash_type := pi_hash_type st; pi_redeem := pi_redeem st; pi_wscript := pi_wscript st;
     pi_named := pi_named st; pi_script_sig := pi_script_sig st; pi_witness := pi_witness st;
     pi_extra := pi_extra st |}.
Definition set_sigs (st : psbt_in) (v : dict bytes) : psbt_in :=
  {| pi_prev_tx := pi_prev_tx st; pi_prev_out := pi_prev_out st; pi_sigs := v;
     pi_hash_type := pi_hash_type st; pi_redeem := pi_redeem st; pi_wscript := pi_wscript st;
     pi_named := pi_named st; pi_script_sig := pi_script_sig st; pi_witness := pi_witness st;
     pi_extra := pi_extra st |}.
Definition set_hash_type (st : psbt_in) (v : option Z) : psbt_in :=
  {| pi_prev_tx := pi_prev_tx st; pi_prev_out := pi_prev_out st; pi_sigs := pi_sigs st;
     pi_hash_type := v; pi_redeem := pi_redeem st; pi_wscript := pi_wscript st;
     pi_named := pi_named st; pi_script_sig := pi_script_sig st; pi_witness := pi_witness st;
     pi_extra := pi_extra st |}.
Definition set_redeem (st : psbt_in) (v : option script) : psbt_in :=
  {| pi_prev_tx := pi_prev_tx st; pi_prev_out := pi_prev_out st; pi_sigs := pi_sigs st;
     pi_hash_type := pi_hash_type st; pi_redeem := v; pi_wscript := pi_wscript st;
     pi_named := pi_named st; pi_script_sig := pi_script_sig st; pi_witness := pi_witness st;
     pi_extra := pi_extra st |}.
Definition set_wscript (st : psbt_in) (v : option script) : psbt_in :=
  {| pi_prev_tx := pi_prev_tx st; pi_prev_out := pi_prev_out st; pi_sigs := pi_sigs st;
     pi_hash_type := pi_hash_type st; pi_redeem := pi_redeem st; pi_wscript := v;
     pi_named := pi_named st; pi_script_sig := pi_script_sig st; pi_witness := pi_witness st;
     pi_extra := pi_extra st |}.
Definition set_named (st : psbt_in) (v : dict bytes) : psbt_in :=
  {| pi_prev_tx := pi_prev_tx st; pi_prev_out := pi_prev_out st; pi_sigs := pi_sigs st;
     pi_hash_type := pi_hash_type st; pi_redeem := pi_redeem st; pi_wscript := pi_wscript st;
     pi_named := v; pi_script_sig := pi_script_sig st; pi_witness := pi_witness st;
     pi_extra := pi_extra st |}.
Definition set_script_sig (st : psbt_in) (v : option script) : psbt_in :=
  {| pi_prev_tx := pi_prev_tx st; pi_prev_out := pi_prev_out st; pi_sigs := pi_sigs st;
     pi_hash_type := pi_hash_type st; pi_redeem := pi_redeem st; pi_wscript := pi_wscript st;
     pi_named := pi_named st; pi_script_sig := v; pi_witness := pi_witness st;
     pi_extra := pi_extra st |}.
Definition set_witness (st : psbt_in) (v : option (list bytes)) : psbt_in :=
  {| pi_prev_tx := pi_prev_tx st; pi_prev_out := pi_prev_out st; pi_sigs := pi_sigs st;
     pi_hash_type := pi_hash_type st; pi_redeem := pi_redeem st; pi_wscript := pi_wscript st;
     pi_named := pi_named st; pi_script_sig := pi_script_sig st; pi_witness := v;
     pi_extra := pi_extra st |}.
Definition set_extra (st : psbt_in) (v : dict bytes) : psbt_in :=
  {| pi_prev_tx := pi_prev_tx st; pi_prev_out := pi_prev_out st; pi_sigs := pi_sigs st;
     pi_hash_type := pi_hash_type st; pi_redeem := pi_redeem st; pi_wscript := pi_wscript st;
     pi_named := pi_named st; pi_script_sig := pi_script_sig st; pi_witness := pi_witness st;
     pi_extra := v |}.

(* list indexing with an integer index (tx_outs[prev_index]; prev_index >= 0) *)
Definition nthz {A} (l : list A) (i : Z) : option A :=
  if (i <? 0) || (zlen l <=? i) then None else nth_error l (Z.to_nat i).

Definition cmd_is_push (c : cmd) (b : bytes) : bool :=
  match c with Push x => beq x b | Op _ => false end.
(* commands.index(sec) succeeds *)
Definition in_cmds (cs : list cmd) (b : bytes) : bool := existsb (fun c => cmd_is_push c b) cs.
(* commands[i] != b  (an int never equals bytes; a missing index is an IndexError) *)
Definition cmd_at_is (cs : list cmd) (i : nat) (b : bytes) : result bool :=
  match nth_error cs i with Some c => Ok (cmd_is_push c b) | None => Err end.

(* ------------------------------------------------------------------ *)
Section Oracles.
Variable hash160 sha256 hash256 : bytes -> bytes.
(* S256Point.parse accepts this 33-byte SEC string *)
Variable sec_ok : bytes -> bool.

(* PSBTIn.script_pubkey() *)
Definition in_script_pubkey (st : psbt_in) (ti : txin) : result (option script) :=
  match pi_prev_tx st with
  | Some pt => match nthz (t_outs pt) (i_prev_index ti) with
               | Some o => Ok (Some (o_script o))
               | None => Err
               end
  | None => match pi_prev_out st with
            | Some o => Ok (Some (o_script o))
            | None => Ok None
            end
  end.

Definition opt_is (f : list cmd -> bool) (o : option script) : bool :=
  match o with Some s => f (s_cmds s) | None => false end.

Definition script_h160 (s : script) : result bytes := r <- raw_serialize s ;; Ok (hash160 r).
Definition script_s256 (s : script) : result bytes := r <- raw_serialize s ;; Ok (sha256 r).

Definition check (b : bool) : result unit := if b then Ok tt else Err.

(* `len(named_pubs) > 1` / `== 1` with the hash160 comparison against commands[idx] *)
Definition single_key_check (named : dict bytes) (cs : list cmd) (idx : nat) : result unit :=
  match named with
  | [] => Ok tt
  | [(sec, _)] => ok <- cmd_at_is cs idx (hash160 sec) ;; check ok
  | _ => Err
  end.

(* Script.__eq__: the command lists are equal (an int never equals bytes) *)
Definition cmd_eqb (a b : cmd) : bool :=
  match a, b with
  | Op x, Op y => x =? y
  | Push x, Push y => beq x y
  | _, _ => false
  end.
Fixpoint cmds_eqb (a b : list cmd) : bool :=
  match a, b with
  | [], [] => true
  | x :: a', y :: b' => cmd_eqb x y && cmds_eqb a' b'
  | _, _ => false
  end.

Definition is_witness_prog (cs : list cmd) : bool := is_p2wpkh cs || is_p2wsh cs.

(* PSBTIn.validate *)
Definition in_validate (st : psbt_in) (ti : txin) : result unit :=
  ospk <- in_script_pubkey st ti ;;
  _ <- match pi_prev_tx st with
       | Some pt =>
           h <- tx_hash hash256 pt ;;
           _ <- check (beq (i_prev_tx ti) h) ;;
           match pi_prev_out st, nthz (t_outs pt) (i_prev_index ti) with
           | Some po, Some utxo =>
               check ((o_amount po =? o_amount utxo)
                      && cmds_eqb (s_cmds (o_script po)) (s_cmds (o_script utxo)))
           | Some _, None => Err
           | None, _ => Ok tt
           end
       | None => Ok tt
       end ;;
  if is_some (pi_prev_out st)
     || (is_some ospk && (is_some (pi_wscript st) || opt_is is_witness_prog (pi_redeem st))) then
    match ospk with
    | None => Err
    | Some spk =>
        let cs := s_cmds spk in
        _ <- check (is_p2sh cs || is_p2wsh cs || is_p2wpkh cs) ;;
        _ <- match pi_redeem st with
             | Some rs =>
                 _ <- check (is_p2sh cs) ;;
                 _ <- check (is_witness_prog (s_cmds rs)) ;;
                 h <- script_h160 rs ;;
                 ok <- cmd_at_is cs 1 h ;;
                 check ok
             | None => Ok tt
             end ;;
        match pi_wscript st with
        | Some ws =>
            _ <- check (is_p2wsh cs || opt_is is_p2wsh (pi_redeem st)) ;;
            s256_ok <-
              match pi_redeem st with
              | Some rs =>
                  h <- script_h160 rs ;;
                  ok <- cmd_at_is cs 1 h ;;
                  _ <- check ok ;;
                  w <- script_s256 ws ;;
                  cmd_at_is (s_cmds rs) 1 w
              | None =>
                  w <- script_s256 ws ;;
                  cmd_at_is cs 1 w
              end ;;
            _ <- check s256_ok ;;
            check (forallb (in_cmds (s_cmds ws)) (dkeys (pi_named st)))
        | None =>
            if is_p2wpkh cs then single_key_check (pi_named st) cs 1
            else match pi_redeem st with
                 | Some rs => if is_p2wpkh (s_cmds rs) then single_key_check (pi_named st) (s_cmds rs) 1
                              else Ok tt
                 | None => Ok tt
                 end
        end
    end
  else
    match pi_redeem st with
    | Some rs =>
        match ospk with
        | None => Err
        | Some spk =>
            let cs := s_cmds spk in
            _ <- check (is_p2sh cs) ;;
            _ <- check (negb (is_p2wsh (s_cmds rs) || is_p2wpkh (s_cmds rs))) ;;
            h <- script_h160 rs ;;
            ok <- cmd_at_is cs 1 h ;;
            _ <- check ok ;;
            check (forallb (in_cmds (s_cmds rs)) (dkeys (pi_named st)))
        end
    | None =>
        match ospk with
        | Some spk => if is_p2pkh (s_cmds spk) then single_key_check (pi_named st) (s_cmds spk) 2
                      else Ok tt
        | None => Ok tt
        end
    end.

(* PSBTOut.validate *)
Definition out_validate (st : psbt_out) (to : txout) : result unit :=
  let cs := s_cmds (o_script to) in
  if is_p2pkh cs then
    _ <- check (negb (is_some (po_redeem st)) && negb (is_some (po_wscript st))) ;;
    single_key_check (po_named st) cs 2
  else if is_p2wpkh cs then
    _ <- check (negb (is_some (po_redeem st)) && negb (is_some (po_wscript st))) ;;
    single_key_check (po_named st) cs 1
  else match po_wscript st with
       | Some ws =>
           s256_ok <-
             match po_redeem st with
             | Some rs =>
                 _ <- check (is_p2sh cs && is_p2wsh (s_cmds rs)) ;;
                 h <- script_h160 rs ;;
                 ok <- cmd_at_is cs 1 h ;;
                 _ <- check ok ;;
                 w <- script_s256 ws ;;
                 cmd_at_is (s_cmds rs) 1 w
             | None => _ <- check (is_p2wsh cs) ;; w <- script_s256 ws ;; cmd_at_is cs 1 w
             end ;;
           _ <- check s256_ok ;;
           check (forallb (in_cmds (s_cmds ws)) (dkeys (po_named st)))
       | None =>
           match po_redeem st with
           | Some rs =>
               _ <- check (is_p2sh cs) ;;
               h <- script_h160 rs ;;
               ok <- cmd_at_is cs 1 h ;;
               _ <- check ok ;;
               if is_p2wpkh (s_cmds rs) then single_key_check (po_named st) (s_cmds rs) 1
               else check (forallb (in_cmds (s_cmds rs)) (dkeys (po_named st)))
           | None => Ok tt
           end
       end.

(* ---- (b) parsers ---- *)

(* NamedPublicKey.parse(key, s, network) for a 34-byte key; returns (sec, raw_path) *)
Definition named_parse (key_rest : bytes) (s : bytes) (network : option net)
  : result (bytes * bytes * bytes) :=
  _ <- check (sec_ok key_rest) ;;
  '(raw_path, s1) <- read_varstr s ;;
  _ <- raw_path_net raw_path network ;;
  Ok (key_rest, raw_path, s1).

(* the while loop of PSBTIn.parse; every iteration consumes at least one byte *)
Fixpoint in_loop (fuel : nat) (network : option net) (ti : txin) (s : bytes) (st : psbt_in)
  : result (psbt_in * bytes) :=
  match fuel with
  | O => Err
  | S f =>
      '(key, s1) <- read_varstr s ;;
      match key with
      | [] => Ok (st, s1)
      | t :: kr =>
          let one := match kr with [] => true | _ => false end in
          if t =? 0 then
            _ <- check one ;;
            _ <- check (negb (is_some (pi_prev_tx st))) ;;
            '(tx_len, s2) <- read_varint s1 ;;
            '(pt, s3) <- tx_parse s2 ;;
            ser <- tx_serialize pt ;;
            _ <- check (zlen ser =? tx_len) ;;
            _ <- check (is_some (nthz (t_outs pt) (i_prev_index ti))) ;;
            in_loop f network ti s3 (set_prev_tx st (Some pt))
          else if t =? 1 then
            '(out_len, s2) <- read_varint s1 ;;
            _ <- check one ;;
            _ <- check (negb (is_some (pi_prev_out st))) ;;
            '(po, s3) <- txout_parse s2 ;;
            ser <- txout_serialize po ;;
            _ <- check (zlen ser =? out_len) ;;
            in_loop f network ti s3 (set_prev_out st (Some po))
          else if t =? 2 then
            _ <- check (negb (truthy_bytes (dget (pi_sigs st) kr))) ;;
            '(v, s2) <- read_varstr s1 ;;
            in_loop f network ti s2 (set_sigs st (dset kr v (pi_sigs st)))
          else if t =? 3 then
            _ <- check one ;;
            _ <- check (negb (truthy_int (pi_hash_type st))) ;;
            '(v, s2) <- read_varstr s1 ;;
            _ <- check (length v =? 4)%nat ;;         (* since afccdfa: a 32-bit little endian integer *)
            in_loop f network ti s2 (set_hash_type st (Some (from_le v)))
          else if t =? 4 then
            _ <- check one ;;
            _ <- check (negb (is_some (pi_redeem st))) ;;
            '(sc, s2) <- parse_script s1 ;;
            in_loop f network ti s2 (set_redeem st (Some sc))
          else if t =? 5 then
            _ <- check one ;;
            _ <- check (negb (is_some (pi_wscript st))) ;;
            '(sc, s2) <- parse_script s1 ;;
            in_loop f network ti s2 (set_wscript st (Some sc))
          else if t =? 6 then
            _ <- check (length key =? 34)%nat ;;
            '(sec, raw_path, s2) <- named_parse kr s1 network ;;
            in_loop f network ti s2 (set_named st (dset sec raw_path (pi_named st)))
          else if t =? 7 then
            _ <- check one ;;
            _ <- check (negb (is_some (pi_script_sig st))) ;;
            '(sc, s2) <- parse_script s1 ;;
            in_loop f network ti s2 (set_script_sig st (Some sc))
          else if t =? 8 then
            _ <- check one ;;
            _ <- check (negb (truthy_wit (pi_witness st))) ;;
            '(_, s2) <- read_varint s1 ;;
            '(w, s3) <- witness_parse s2 ;;
            in_loop f network ti s3 (set_witness st (Some w))
          else
            _ <- check (negb (truthy_bytes (dget (pi_extra st) key))) ;;
            '(v, s2) <- read_varstr s1 ;;
            in_loop f network ti s2 (set_extra st (dset key v (pi_extra st)))
      end
  end.

(* PSBTIn.parse: the loop, then the constructor's validate() *)
Definition in_parse (network : option net) (ti : txin) (s : bytes) : result (psbt_in * bytes) :=
  '(st, r) <- in_loop (S (length s)) network ti s empty_in ;;
  _ <- in_validate st ti ;;
  Ok (st, r).

Fixpoint out_loop (fuel : nat) (network : option net) (s : bytes) (st : psbt_out)
  : result (psbt_out * bytes) :=
  match fuel with
  | O => Err
  | S f =>
      '(key, s1) <- read_varstr s ;;
      match key with
      | [] => Ok (st, s1)
      | t :: kr =>
          let one := match kr with [] => true | _ => false end in
          if t =? 0 then
            _ <- check one ;;
            _ <- check (negb (is_some (po_redeem st))) ;;
            '(sc, s2) <- parse_script s1 ;;
            out_loop f network s2 {| po_redeem := Some sc; po_wscript := po_wscript st;
                                     po_named := po_named st; po_extra := po_extra st |}
          else if t =? 1 then
            _ <- check one ;;
            _ <- check (negb (is_some (po_wscript st))) ;;
            '(sc, s2) <- parse_script s1 ;;
            out_loop f network s2 {| po_redeem := po_redeem st; po_wscript := Some sc;
                                     po_named := po_named st; po_extra := po_extra st |}
          else if t =? 2 then
            _ <- check (length key =? 34)%nat ;;
            '(sec, raw_path, s2) <- named_parse kr s1 network ;;
            out_loop f network s2 {| po_redeem := po_redeem st; po_wscript := po_wscript st;
                                     po_named := dset sec raw_path (po_named st);
                                     po_extra := po_extra st |}
          else
            _ <- check (negb (truthy_bytes (dget (po_extra st) key))) ;;
            '(v, s2) <- read_varstr s1 ;;
            out_loop f network s2 {| po_redeem := po_redeem st; po_wscript := po_wscript st;
                                     po_named := po_named st;
                                     po_extra := dset key v (po_extra st) |}
      end
  end.

Definition out_parse (network : option net) (to : txout) (s : bytes) : result (psbt_out * bytes) :=
  '(st, r) <- out_loop (S (length s)) network s empty_out ;;
  _ <- out_validate st to ;;
  Ok (st, r).

(* NamedHDPublicKey.parse(key, s, network) for a 79-byte key.  The version bytes select
   nothing but acceptance: raw_serialize() re-emits XPUB[network]. *)
Definition hd_parse (key : bytes) (s : bytes) (network : option net)
  : result (hd_pub * net * bytes) :=
  let body := skipn 1 key in
  let version := firstn 4 body in
  _ <- check (mem_bytes version testnet_xpubs || mem_bytes version mainnet_xpubs) ;;
  _ <- check (sec_ok (skipn 45 body)) ;;
  let depth := nth 4 body 0 in
  '(raw_path, s1) <- read_varstr s ;;
  let bin := skipn 4 raw_path in
  _ <- check (bin_path_ok bin) ;;
  _ <- check (depth =? zlen bin / 4) ;;
  n <- match network with
       | Some n => Ok n
       | None => path_network (path_children (length bin) bin)
       end ;;
  Ok ({| hd_key := xpub_version n ++ skipn 4 body; hd_path := raw_path |}, n, s1).

Record gstate := { g_tx : option tx; g_hd : dict hd_pub; g_extra : dict bytes; g_net : option net }.

Fixpoint global_loop (fuel : nat) (s : bytes) (st : gstate) : result (gstate * bytes) :=
  match fuel with
  | O => Err
  | S f =>
      '(key, s1) <- read_varstr s ;;
      match key with
      | [] => Ok (st, s1)
      | t :: kr =>
          if t =? 0 then
            _ <- check (match kr with [] => true | _ => false end) ;;
            _ <- check (negb (is_some (g_tx st))) ;;
            '(_, s2) <- read_varint s1 ;;
            '(tx0, s3) <- parse_legacy s2 ;;
            global_loop f s3 {| g_tx := Some tx0; g_hd := g_hd st; g_extra := g_extra st;
                                g_net := g_net st |}
          else if t =? 1 then
            _ <- check (length key =? 79)%nat ;;
            '(h, n, s2) <- hd_parse key s1 (g_net st) ;;
            global_loop f s2 {| g_tx := g_tx st; g_hd := dset (hd_key h) h (g_hd st);
                                g_extra := g_extra st; g_net := Some n |}
          else
            _ <- check (negb (truthy_bytes (dget (g_extra st) key))) ;;
            '(v, s2) <- read_varstr s1 ;;
            global_loop f s2 {| g_tx := g_tx st; g_hd := g_hd st;
                                g_extra := dset key v (g_extra st); g_net := g_net st |}
      end
  end.

(* the MixedNetwork loop after each PSBTIn.parse / PSBTOut.parse *)
Fixpoint mix_rest (n : net) (l : list bytes) : result (option net) :=
  match l with
  | [] => Ok (Some n)
  | q :: l' => m <- raw_path_net q None ;; if net_eqb m n then mix_rest n l' else Err
  end.
Definition mix_net (network : option net) (paths : list bytes) : result (option net) :=
  match network with
  | Some _ => Ok network           (* every record took the given network: no mismatch *)
  | None =>
      match paths with
      | [] => Ok None
      | p :: r => n <- raw_path_net p None ;; mix_rest n r
      end
  end.

Fixpoint ins_parse (network : option net) (tis : list txin) (s : bytes) (acc : list psbt_in)
  : result (list psbt_in * option net * bytes) :=
  match tis with
  | [] => Ok (rev acc, network, s)
  | ti :: r =>
      '(pin, s1) <- in_parse network ti s ;;
      n <- mix_net network (dvals (pi_named pin)) ;;
      ins_parse n r s1 (pin :: acc)
  end.

Fixpoint outs_parse (network : option net) (tos : list txout) (s : bytes) (acc : list psbt_out)
  : result (list psbt_out * option net * bytes) :=
  match tos with
  | [] => Ok (rev acc, network, s)
  | to :: r =>
      '(pout, s1) <- out_parse network to s ;;
      n <- mix_net network (dvals (po_named pout)) ;;
      outs_parse n r s1 (pout :: acc)
  end.

(* ---- (e) PSBT.validate ---- *)
(* oracles: point/signature parsing, ECDSA verification, signature hashes, evaluation of a
   finalised input, BIP32 descent *)
Variable sig_parse_ok : bytes -> bytes -> bool.               (* sec, DER *)
Variable ecdsa_verify : bytes -> Z -> bytes -> bool.          (* sec, z, DER *)
Variable sighash_legacy : tx -> Z -> option script -> result Z.
Variable sighash_segwit : tx -> Z -> option script -> option script -> result Z.
Variable verify_input : tx -> Z -> script -> option (list bytes) -> result bool.
Variable descends : hd_pub -> bytes -> bytes -> bool.         (* xpub, sec, raw_path *)
Variable verify_tx : tx -> bool.

Fixpoint is_prefix (a b : bytes) : bool :=
  match a, b with
  | [], _ => true
  | x :: a', y :: b' => (x =? y) && is_prefix a' b'
  | _ :: _, [] => false
  end.

(* for hd_pub in hd_pubs.values(): if is_ancestor: verify or raise; break *)
Fixpoint hd_check (hds : list hd_pub) (sec raw_path : bytes) : result unit :=
  match hds with
  | [] => Ok tt
  | h :: r => if is_prefix (hd_path h) raw_path then check (descends h sec raw_path)
              else hd_check r sec raw_path
  end.

Fixpoint all_ok {A} (f : A -> result unit) (l : list A) : result unit :=
  match l with [] => Ok tt | a :: r => _ <- f a ;; all_ok f r end.

Definition drop_last (b : bytes) : bytes := firstn (length b - 1) b.

(* PSBTIn.use_segwit_signature *)
Definition use_segwit (st : psbt_in) (ti : txin) : result bool :=
  if is_some (pi_wscript st) || truthy_wit (pi_witness st) then Ok true
  else if opt_is is_witness_prog (pi_redeem st) then Ok true
  else ospk <- in_script_pubkey st ti ;; Ok (opt_is is_witness_prog ospk).

(* which signature hash the partial signatures of this input are checked against:
   Some true = BIP143, Some false = legacy, None = not checked (no UTXO attached) *)
Definition sig_mode (st : psbt_in) (ti : txin) : result (option bool) :=
  match pi_prev_out st with
  | Some _ => Ok (Some true)
  | None =>
      match pi_prev_tx st with
      | Some _ => sw <- use_segwit st ti ;; Ok (Some sw)
      | None => Ok None
      end
  end.

Definition sig_check (t : tx) (i : Z) (st : psbt_in) (ti : txin) (e : bytes * bytes) : result unit :=
  let '(sec, sg) := e in
  let der := drop_last sg in
  _ <- check (sig_parse_ok sec der) ;;
  mode <- sig_mode st ti ;;
  match mode with
  | Some true =>
      z <- sighash_segwit t i (pi_redeem st) (pi_wscript st) ;;
      check (ecdsa_verify sec z der)
  | Some false => z <- sighash_legacy t i (pi_redeem st) ;; check (ecdsa_verify sec z der)
  | None => Ok tt
  end.

Definition in_full_validate (t : tx) (hds : list hd_pub) (i : Z) (st : psbt_in) (ti : txin)
  : result unit :=
  _ <- in_validate st ti ;;
  _ <- check (match s_cmds (i_script ti) with [] => true | _ => false end) ;;
  _ <- match pi_script_sig st with
       | Some ss => ok <- verify_input t i ss (pi_witness st) ;; check ok
       | None => Ok tt
       end ;;
  _ <- all_ok (sig_check t i st ti) (pi_sigs st) ;;
  all_ok (fun e => hd_check hds (fst e) (snd e)) (pi_named st).

Fixpoint ins_validate (t : tx) (hds : list hd_pub) (i : Z) (ins : list psbt_in) (tis : list txin)
  : result unit :=
  match ins, tis with
  | [], [] => Ok tt
  | st :: r, ti :: r' => _ <- in_full_validate t hds i st ti ;; ins_validate t hds (i + 1) r r'
  | _, _ => Err
  end.

Fixpoint outs_validate (hds : list hd_pub) (outs : list psbt_out) (tos : list txout) : result unit :=
  match outs, tos with
  | [], [] => Ok tt
  | st :: r, to :: r' =>
      _ <- out_validate st to ;;
      _ <- all_ok (fun e => hd_check hds (fst e) (snd e)) (po_named st) ;;
      outs_validate hds r r'
  | _, _ => Err
  end.

Definition validate (p : psbt) : result unit :=
  _ <- check (length (t_ins (p_tx p)) =? length (p_ins p))%nat ;;
  _ <- ins_validate (p_tx p) (dvals (p_hd p)) 0 (p_ins p) (t_ins (p_tx p)) ;;
  _ <- check (length (t_outs (p_tx p)) =? length (p_outs p))%nat ;;
  outs_validate (dvals (p_hd p)) (p_outs p) (t_outs (p_tx p)).

Definition magic : bytes := [112; 115; 98; 116; 255].

(* PSBT.parse(s, network=None) *)
Definition psbt_parse (s : bytes) : result (psbt * option net) :=
  let '(m, s0) := read 5 s in
  _ <- check (beq (firstn 4 m) (firstn 4 magic)) ;;
  _ <- check (beq (skipn 4 m) [255]) ;;
  '(g, s1) <- global_loop (S (length s0)) s0
               {| g_tx := None; g_hd := []; g_extra := []; g_net := None |} ;;
  match g_tx g with
  | None => Err
  | Some t =>
      '(ins, n1, s2) <- ins_parse (g_net g) (t_ins t) s1 [] ;;
      '(outs, n2, s3) <- outs_parse n1 (t_outs t) s2 [] ;;
      let p := {| p_tx := t; p_ins := ins; p_outs := outs; p_hd := g_hd g; p_extra := g_extra g |} in
      _ <- validate p ;;
      Ok (p, n2)
  end.

(* ---- serialisers ---- *)

(* the sig keys in script order: `for command in commands: if self.sigs.get(command)` *)
Definition script_sig_keys (cs : list cmd) (sigs : dict bytes) : list bytes :=
  flat_map (fun c => match c with
                     | Push b => if truthy_bytes (dget sigs b) then [b] else []
                     | Op _ => []
                     end) cs.

Definition sig_keys (st : psbt_in) : list bytes :=
  match pi_wscript st with
  | Some ws => script_sig_keys (s_cmds ws) (pi_sigs st)
  | None =>
      match pi_redeem st with
      | Some rs => if negb (is_p2wpkh (s_cmds rs)) then script_sig_keys (s_cmds rs) (pi_sigs st)
                   else dkeys (pi_sigs st)
      | None => dkeys (pi_sigs st)
      end
  end.

Definition opt_ser {A} (o : option A) (f : A -> result bytes) : result bytes :=
  match o with Some a => f a | None => Ok [] end.

Definition dget_or_empty (m : dict bytes) (k : bytes) : bytes :=
  match dget m k with Some v => v | None => [] end.

Definition in_serialize (st : psbt_in) : result bytes :=
  utxo <- match pi_prev_tx st with
          | Some pt => b <- tx_serialize pt ;; kv [0] b
          | None => opt_ser (pi_prev_out st) (fun o => b <- txout_serialize o ;; kv [1] b)
          end ;;
  sigs <- concat_res (map (fun k => kv (2 :: k) (dget_or_empty (pi_sigs st) k)) (sig_keys st)) ;;
  ht <- (if truthy_int (pi_hash_type st)
         then opt_ser (pi_hash_type st) (fun h => b <- int_to_le h 4 ;; kv [3] b) else Ok []) ;;
  rs <- opt_ser (pi_redeem st) (fun sc => b <- raw_serialize sc ;; kv [4] b) ;;
  ws <- opt_ser (pi_wscript st) (fun sc => b <- raw_serialize sc ;; kv [5] b) ;;
  np <- concat_res (map (fun e => kv (6 :: fst e) (snd e)) (pi_named st)) ;;
  ss <- opt_ser (pi_script_sig st) (fun sc => b <- raw_serialize sc ;; kv [7] b) ;;
  wi <- (if truthy_wit (pi_witness st)
         then opt_ser (pi_witness st) (fun w => b <- witness_serialize w ;; kv [8] b) else Ok []) ;;
  ex <- concat_res (map (fun e => kv (fst e) (snd e)) (pi_extra st)) ;;
  Ok (utxo ++ sigs ++ ht ++ rs ++ ws ++ np ++ ss ++ wi ++ ex ++ [0]).

Definition out_serialize (st : psbt_out) : result bytes :=
  rs <- opt_ser (po_redeem st) (fun sc => b <- raw_serialize sc ;; kv [0] b) ;;
  ws <- opt_ser (po_wscript st) (fun sc => b <- raw_serialize sc ;; kv [1] b) ;;
  np <- concat_res (map (fun e => kv (2 :: fst e) (snd e)) (po_named st)) ;;
  ex <- concat_res (map (fun e => kv (fst e) (snd e)) (po_extra st)) ;;
  Ok (rs ++ ws ++ np ++ ex ++ [0]).

Definition hd_serialize (h : hd_pub) : result bytes := kv (1 :: hd_key h) (hd_path h).

(* the global map: the unsigned transaction is always serialize_legacy (BIP174) *)
Definition global_serialize (p : psbt) : result bytes :=
  t <- serialize_legacy (p_tx p) ;;
  txkv <- kv [0] t ;;
  hds <- concat_res (map hd_serialize (dvals (p_hd p))) ;;
  ex <- concat_res (map (fun e => kv (fst e) (snd e)) (p_extra p)) ;;
  Ok (txkv ++ hds ++ ex ++ [0]).

Definition psbt_serialize (p : psbt) : result bytes :=
  g <- global_serialize p ;;
  ins <- concat_res (map in_serialize (p_ins p)) ;;
  outs <- concat_res (map out_serialize (p_outs p)) ;;
  Ok (magic ++ g ++ ins ++ outs).

(* ---- (c) combine ---- *)

(* `if self.x is None and other.x: self.x = other.x` *)
Definition take {A} (truthy : A -> bool) (mine other : option A) : option A :=
  match mine with
  | Some _ => mine
  | None => match other with Some x => if truthy x then other else None | None => None end
  end.
Definition always {A} (_ : A) : bool := true.

Definition in_combine (a b : psbt_in) : psbt_in :=
  {| pi_prev_tx := take always (pi_prev_tx a) (pi_prev_tx b);
     pi_prev_out := take always (pi_prev_out a) (pi_prev_out b);
     pi_sigs := dunion (pi_sigs a) (pi_sigs b);
     pi_hash_type := take (fun z => negb (z =? 0)) (pi_hash_type a) (pi_hash_type b);
     pi_redeem := take always (pi_redeem a) (pi_redeem b);
     pi_wscript := take always (pi_wscript a) (pi_wscript b);
     pi_named := dunion (pi_named b) (pi_named a);
     pi_script_sig := take always (pi_script_sig a) (pi_script_sig b);
     pi_witness := take (fun w => match w with [] => false | _ => true end)
                        (pi_witness a) (pi_witness b);
     pi_extra := dunion (pi_extra b) (pi_extra a) |}.

Definition out_combine (a b : psbt_out) : psbt_out :=
  {| po_redeem := take always (po_redeem a) (po_redeem b);
     po_wscript := take always (po_wscript a) (po_wscript b);
     po_named := dunion (po_named b) (po_named a);
     po_extra := dunion (po_extra b) (po_extra a) |}.

(* zip(self.xs, other.xs): the surplus of self is kept unchanged *)
Fixpoint zip_with {A} (f : A -> A -> A) (a b : list A) : list A :=
  match a, b with
  | x :: a', y :: b' => f x y :: zip_with f a' b'
  | _, _ => a
  end.

Definition comb (a b : psbt) : psbt :=
  {| p_tx := p_tx a;
     p_ins := zip_with in_combine (p_ins a) (p_ins b);
     p_outs := zip_with out_combine (p_outs a) (p_outs b);
     p_hd := dunion (p_hd b) (p_hd a);
     p_extra := dunion (p_extra b) (p_extra a) |}.

Definition combine (a b : psbt) : result psbt :=
  ha <- tx_hash hash256 (p_tx a) ;;
  hb <- tx_hash hash256 (p_tx b) ;;
  _ <- check (beq ha hb) ;;
  Ok (comb a b).

(* ---- (d) finalize ---- *)

Definition op_code_to_number (c : cmd) : result Z :=
  match c with
  | Op o => if o =? 0 then Ok 0 else if (79 <=? o) && (o <=? 96) then Ok (o - 80) else Err
  | Push _ => Err
  end.

(* the signature-collecting loops.  [skip_ints]: the p2sh loop `continue`s on an int command
   before the `break` test, the p2wsh loop does not. *)
Fixpoint collect_sigs (skip_ints : bool) (cs : list cmd) (sigs : dict bytes) (num : Z)
  (acc : list bytes) : list bytes :=
  match cs with
  | [] => rev acc
  | c :: r =>
      match c with
      | Op _ => if skip_ints then collect_sigs skip_ints r sigs num acc
                else if num <=? zlen acc then rev acc else collect_sigs skip_ints r sigs num acc
      | Push b =>
          let acc' := match dget sigs b with Some sg => sg :: acc | None => acc end in
          if num <=? zlen acc' then rev acc' else collect_sigs skip_ints r sigs num acc'
      end
  end.

Definition finalized (st : psbt_in) (ss : script) (w : option (list bytes)) : psbt_in :=
  {| pi_prev_tx := pi_prev_tx st; pi_prev_out := pi_prev_out st; pi_sigs := [];
     pi_hash_type := None; pi_redeem := None; pi_wscript := None; pi_named := [];
     pi_script_sig := Some ss; pi_witness := w; pi_extra := pi_extra st |}.

Definition redeem_script_sig (o : option script) : result script :=
  match o with
  | Some rs => r <- raw_serialize rs ;; Ok (mk_script [Push r])
  | None => Ok (mk_script [])
  end.

Definition in_finalize (st : psbt_in) (ti : txin) : result psbt_in :=
  ospk <- in_script_pubkey st ti ;;
  match ospk with
  | None => Err
  | Some spk =>
      let cs := s_cmds spk in
      _ <- check (negb (is_p2sh cs) || is_some (pi_redeem st)) ;;
      if is_p2wpkh cs || opt_is is_p2wpkh (pi_redeem st) then
        match pi_sigs st with
        | [(sec, sg)] => ss <- redeem_script_sig (pi_redeem st) ;;
                         Ok (finalized st ss (Some [sg; sec]))
        | _ => Err
        end
      else if is_p2wsh cs || opt_is is_p2wsh (pi_redeem st) then
        match pi_wscript st with
        | None => Err
        | Some ws =>
            c0 <- match s_cmds ws with c :: _ => Ok c | [] => Err end ;;
            num <- op_code_to_number c0 ;;
            _ <- check (num <=? zlen (pi_sigs st)) ;;
            let got := collect_sigs false (s_cmds ws) (pi_sigs st) num [] in
            _ <- check (num <=? zlen got) ;;
            raw <- raw_serialize ws ;;
            ss <- redeem_script_sig (pi_redeem st) ;;
            Ok (finalized st ss (Some ([] :: got ++ [raw])))
        end
      else if is_p2sh cs then
        match pi_redeem st with
        | None => Err
        | Some rs =>
            c0 <- match s_cmds rs with c :: _ => Ok c | [] => Err end ;;
            num <- op_code_to_number c0 ;;
            _ <- check (num <=? zlen (pi_sigs st)) ;;
            let got := collect_sigs true (s_cmds rs) (pi_sigs st) num [] in
            _ <- check (num <=? zlen got) ;;
            raw <- raw_serialize rs ;;
            Ok (finalized st (mk_script (Op 0 :: map Push got ++ [Push raw])) (pi_witness st))
        end
      else if is_p2pkh cs then
        match pi_sigs st with
        | [(sec, sg)] => Ok (finalized st (mk_script [Push sg; Push sec]) (pi_witness st))
        | _ => Err
        end
      else Err
  end.

Fixpoint ins_finalize (ins : list psbt_in) (tis : list txin) : result (list psbt_in) :=
  match ins with
  | [] => Ok []
  | st :: r =>
      match tis with
      | [] => Err                       (* not reachable after validate *)
      | ti :: r' => a <- in_finalize st ti ;; b <- ins_finalize r r' ;; Ok (a :: b)
      end
  end.

Definition finalize (p : psbt) : result psbt :=
  ins <- ins_finalize (p_ins p) (t_ins (p_tx p)) ;;
  Ok {| p_tx := p_tx p; p_ins := ins; p_outs := p_outs p; p_hd := p_hd p; p_extra := p_extra p |}.

(* Tx.clone(): parse(serialize()) *)
Definition tx_clone (t : tx) : result tx := b <- tx_serialize t ;; '(t', _) <- tx_parse b ;; Ok t'.

Fixpoint fill_ins (segwit : bool) (tis : list txin) (ins : list psbt_in) : result (list txin) :=
  match tis, ins with
  | ti :: r, st :: r' =>
      match pi_script_sig st with
      | None => Err        (* tx_in.script_sig = None: verify() raises or fails *)
      | Some ss =>
          rest <- fill_ins segwit r r' ;;
          Ok ({| i_prev_tx := i_prev_tx ti; i_prev_index := i_prev_index ti; i_script := ss;
                 i_sequence := i_sequence ti;
                 i_witness := if segwit then match pi_witness st with Some w => w | None => [] end
                              else i_witness ti |} :: rest)
      end
  | _, _ => Ok tis
  end.

(* the transaction final_tx() assembles, before verify() *)
Definition assemble_tx (p : psbt) : result tx :=
  t <- tx_clone (p_tx p) ;;
  let segwit := t_segwit t || existsb (fun st => truthy_wit (pi_witness st)) (p_ins p) in
  ins <- fill_ins segwit (t_ins t) (p_ins p) ;;
  Ok {| t_version := t_version t; t_ins := ins; t_outs := t_outs t; t_locktime := t_locktime t;
        t_segwit := segwit |}.

Definition final_tx (p : psbt) : result tx :=
  t <- assemble_tx p ;; if verify_tx t then Ok t else Err.

End Oracles.
