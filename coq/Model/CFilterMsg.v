(* Model/CFilterMsg.v — the BIP157 message classes of buidl/compactfilter.py on top of the wire parsers of
   Model/Network.v: CFilterMessage (key derivation block_hash[::-1][:16], __contains__, hash) and
   CFHeadersMessage.last_header.  Definitions only. *)
From V Require Import Base.Prelude Base.Ints Model.Helper Model.Gcs Model.Network Model.CFilter.

(* CFilterMessage.__init__: self.cf = CompactFilter.parse(block_hash[::-1][:16], filter_bytes) *)
Definition cfmsg_key (block_hash : bytes) : bytes := firstn 16 (rev block_hash).

Section WithSip.
Variable sip : bytes -> bytes -> result Z.

(* CFilterMessage.parse(s).__contains__(script)  (raw = script.raw_serialize()) *)
Definition cfmsg_contains (s raw : bytes) : result bool :=
  '(t, bh, fb, items, rest) <- cfilter_parse s ;;
  cf_contains sip (cf_new (cfmsg_key bh) items) raw.

(* CFilterMessage(filter_type, block_hash, filter_bytes).__contains__(script): the constructor decodes *)
Definition cfmsg_new_contains (block_hash fb raw : bytes) : result bool :=
  cf <- cf_parse (cfmsg_key block_hash) fb ;; cf_contains sip cf raw.
End WithSip.

(* CFilterMessage.parse(s).hash() = hash256(filter_bytes) *)
Definition cfmsg_hash (hash256 : bytes -> bytes) (s : bytes) : result bytes :=
  '(t, bh, fb, items, rest) <- cfilter_parse s ;; Ok (hash256 fb).

(* CFHeadersMessage.parse(s).last_header *)
Definition cfheaders_last (hash256 : bytes -> bytes) (s : bytes) : result bytes :=
  '(t, stop, prev, hs, rest) <- cfheaders_parse s ;; Ok (cfheader_chain hash256 prev hs).

(* the filter headers of a run of blocks, from the filters themselves (BIP157):
   header_i = hash256(hash256(filter_i) ++ header_{i-1}) *)
Definition filter_headers_from (hash256 : bytes -> bytes) (prev : bytes) (filters : list bytes) : bytes :=
  cfheader_chain hash256 prev (map hash256 filters).
