(* Model/Timelock.v — mirrors the classes Locktime and Sequence of buidl/timelock.py (the op codes
   CHECKLOCKTIMEVERIFY / CHECKSEQUENCEVERIFY of Model/Op.v use their comparison rules; here is
   the class API itself).  An object of either class is its integer value ([Z]); a constructor
   returns [Err] where the Python code raises ValueError.  Definitions only.  The constants and
   [lt_comparable], [sq_relative], [sq_relative_time], [sq_relative_block], [sq_comparable] are
   those of Model/Op.v. *)
From V Require Import Base.Prelude Base.Ints Model.Script Model.Op.

(* Locktime.__new__(n) / Sequence.__new__(n): ValueError outside 0 .. 2^32-1 *)
Definition lt_new (n : Z) : result Z := if (n <? 0) || (n >? MAX_LOCKTIME) then Err else Ok n.
Definition sq_new (n : Z) : result Z := if (n <? 0) || (n >? MAX_SEQUENCE) then Err else Ok n.
(* the defaults: Locktime() = 0, Sequence() = MAX_SEQUENCE *)
Definition lt_default : result Z := lt_new 0.
Definition sq_default : result Z := sq_new MAX_SEQUENCE.

(* parse(s) = cls(little_endian_to_int(s.read(4))) — a short read is silent *)
Definition lt_parse (s : bytes) : result Z := lt_new (from_le (firstn 4 s)).
Definition sq_parse (s : bytes) : result Z := sq_new (from_le (firstn 4 s)).
(* serialize() = int_to_little_endian(self, 4) *)
Definition lt_serialize (n : Z) : result bytes := int_to_le n 4.
Definition sq_serialize (n : Z) : result bytes := int_to_le n 4.

(* Locktime.block_height / mtp: None when of the other type *)
Definition lt_block_height (n : Z) : option Z := if n <? BLOCK_LIMIT then Some n else None.
Definition lt_mtp (n : Z) : option Z := if n >=? BLOCK_LIMIT then Some n else None.

(* Locktime.__lt__(other): against a plain int the int order; against a Locktime the int order
   when comparable, ValueError otherwise *)
Definition lt_lt_int (a b : Z) : bool := a <? b.
Definition lt_lt (a b : Z) : result bool := if lt_comparable a b then Ok (a <? b) else Err.

(* Sequence *)
Definition sq_from_relative_time (num_seconds : Z) : result Z := sq_new (Z.lor SEQ_TIME (num_seconds / 512)).
Definition sq_from_relative_blocks (num_blocks : Z) : result Z := sq_new num_blocks.
Definition sq_is_rbf_able (n : Z) : bool := n <? MAX_SEQUENCE.
Definition sq_is_max (n : Z) : bool := n =? MAX_SEQUENCE.
(* relative_blocks / relative_time: None when not of that type *)
Definition sq_relative_blocks (n : Z) : option Z :=
  if sq_relative_block n then Some (Z.land n SEQ_MASK) else None.
Definition sq_relative_seconds (n : Z) : option Z :=
  if sq_relative_time n then Some (Z.shiftl (Z.land n SEQ_MASK) 9) else None.
Definition sq_lt_int (a b : Z) : bool := a <? b.
Definition sq_lt (a b : Z) : result bool :=
  if sq_comparable a b then Ok (Z.land a SEQ_MASK <? Z.land b SEQ_MASK) else Err.
