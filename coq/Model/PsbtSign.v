(* Model/PsbtSign.v — mirrors PSBT.sign_with_private_keys (buidl/psbt.py): the Signer's object
   plumbing.  For every private key, in the order given, every input whose derivation dictionary
   names the key's compressed SEC receives  sigs[sec] = get_sig_segwit / get_sig_legacy  (chosen by
   PSBTIn.use_segwit_signature()).  The two signature producers are Section variables: what
   Tx.get_sig_segwit(i, key, redeem_script, witness_script) / Tx.get_sig_legacy(i, key,
   redeem_script) return for the key with that SEC (deterministic RFC 6979 ECDSA; the arguments are
   exactly the ones the code passes, so the producers cannot see the partial signatures already
   present).  Definitions only. *)
From V Require Import Base.Prelude Base.Ints Model.Helper Model.Script Model.Tx Model.Psbt.

Section Sign.
Variable sign_segwit : bytes -> tx -> Z -> option script -> option script -> result bytes.
Variable sign_legacy : bytes -> tx -> Z -> option script -> result bytes.

(* the signature the Signer computes for input i *)
Definition sig_for (sec : bytes) (t : tx) (i : Z) (st : psbt_in) (ti : txin) : result bytes :=
  sw <- use_segwit st ti ;;
  if sw then sign_segwit sec t i (pi_redeem st) (pi_wscript st)
  else sign_legacy sec t i (pi_redeem st).

(* `if psbt_in.named_pubs.get(point.sec()):` — a NamedPublicKey object is always true *)
Definition sign_in (sec : bytes) (t : tx) (i : Z) (st : psbt_in) (ti : txin)
  : result (psbt_in * bool) :=
  if is_some (dget (pi_named st) sec) then
    sg <- sig_for sec t i st ti ;;
    Ok (set_sigs st (dset sec sg (pi_sigs st)), true)
  else Ok (st, false).

(* enumerate(self.psbt_ins); every PSBTIn carries its own tx_in *)
Fixpoint sign_ins (sec : bytes) (t : tx) (i : Z) (ins : list psbt_in) (tis : list txin)
  : result (list psbt_in * bool) :=
  match ins, tis with
  | [], _ => Ok ([], false)
  | st :: r, ti :: r' =>
      '(st', b) <- sign_in sec t i st ti ;;
      '(r'', b') <- sign_ins sec t (i + 1) r r' ;;
      Ok (st' :: r'', b || b')
  | _ :: _, [] => Err               (* more maps than transaction inputs: not reachable after validate *)
  end.

Definition with_ins (p : psbt) (ins : list psbt_in) : psbt :=
  {| p_tx := p_tx p; p_ins := ins; p_outs := p_outs p; p_hd := p_hd p; p_extra := p_extra p |}.

(* one private key *)
Definition sign_key (sec : bytes) (p : psbt) : result (psbt * bool) :=
  '(ins, b) <- sign_ins sec (p_tx p) 0 (p_ins p) (t_ins (p_tx p)) ;;
  Ok (with_ins p ins, b).

(* sign_with_private_keys(private_keys): returns the PSBT and the `signed` flag *)
Fixpoint sign_keys (secs : list bytes) (p : psbt) : result (psbt * bool) :=
  match secs with
  | [] => Ok (p, false)
  | sec :: r =>
      '(p1, b) <- sign_key sec p ;;
      '(p2, b') <- sign_keys r p1 ;;
      Ok (p2, b || b')
  end.

End Sign.
