(* Model/FetcherNet.v — TxFetcher.fetch(tx_id, network, fresh) with the network argument
   (buidl/tx.py:43 URL, :54 get_url, :63 fetch): which URL is requested, when a request is made at
   all, the class-level cache — keyed by tx_id ONLY — and the .network attribute that every call
   writes on the (cached) transaction it returns.  Definitions only. *)
From Coq Require Import String.
From V Require Import Base.Prelude Base.Ints Base.Disp Model.Helper Model.Script Model.Tx Model.Fetcher.
Open Scope string_scope.
Open Scope Z_scope.

(* URL[network]; any other network: ValueError *)
Definition get_url (net : list Z) : result (list Z) :=
  if beq net (s2z "mainnet") then Ok (s2z "https://blockstream.info/api")
  else if beq net (s2z "testnet") then Ok (s2z "https://blockstream.info/testnet/api")
  else if beq net (s2z "signet") then Ok (s2z "https://mempool.space/signet/api")
  else Err.

Definition fetch_url (base id : list Z) : list Z := base ++ s2z "/tx/" ++ id ++ s2z "/hex".

Section WithHash.
Variable hash256 : bytes -> bytes.

(* cache: tx_id -> (transaction, its current .network); newest binding first *)
Definition ncache := list (list Z * (tx * list Z)).
Fixpoint nlookup (c : ncache) (id : list Z) : option (tx * list Z) :=
  match c with
  | [] => None
  | (k, v) :: r => if beq k id then Some v else nlookup r id
  end.

(* one call.  [resp] is what the server would answer if asked.  Result: the new cache, what the
   call returns (the transaction and the .network it carries) and the URL that was requested
   (None: no request was made). *)
Definition fetch_net_step (c : ncache) (fresh : bool) (resp : bytes) (id net : list Z)
  : ncache * result (tx * list Z) * option (list Z) :=
  match (if fresh then None else nlookup c id) with
  | Some (t, _) =>
      (* cache hit: no request, the network name is not even looked up; the cached object gets
         .network = network *)
      ((id, (t, net)) :: c, Ok (t, net), None)
  | None =>
      match get_url net with
      | Err => (c, Err, None)
      | Ok base =>
          let url := fetch_url base id in
          match fetch_text hash256 resp id with
          | Ok t => ((id, (t, net)) :: c, Ok (t, net), Some url)
          | Err => (c, Err, Some url)
          end
      end
  end.

(* Python list indexing l[i]: a negative index counts from the end; IndexError outside *)
Definition py_index {A} (l : list A) (i : Z) : result A :=
  let n := zlen l in
  let j := if i <? 0 then i + n else i in
  if (j <? 0) || (n <=? j) then Err
  else match nth_error l (Z.to_nat j) with Some x => Ok x | None => Err end.

(* TxIn.value(network) / TxIn.script_pubkey(network) on an input whose memo fields are unset
   (buidl/tx.py:911-934): tx = TxFetcher.fetch(self.prev_tx.hex(), network=network), then
   tx.tx_outs[self.prev_index]; value() returns its amount, script_pubkey() its script *)
Definition txin_prevout (c : ncache) (i : txin) (net : list Z) (resp : bytes)
  : ncache * result txout * option (list Z) :=
  let '(c', r, u) := fetch_net_step c false resp (hexlify (i_prev_tx i)) net in
  (c', ('(t, _) <- r ;; py_index (t_outs t) (i_prev_index i)), u).

Fixpoint fetch_net_run (c : ncache) (ops : list (bool * bytes * list Z * list Z))
  : list (result (tx * list Z) * option (list Z)) :=
  match ops with
  | [] => []
  | (fresh, resp, id, net) :: r =>
      let '(c', o, u) := fetch_net_step c fresh resp id net in (o, u) :: fetch_net_run c' r
  end.
End WithHash.
