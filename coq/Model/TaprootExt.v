(* Model/TaprootExt.v — further entry points of buidl/taproot.py and buidl/witness.py on top of
   Model/Taproot.v (which is shared with other properties and is not changed):
   ControlBlock.__eq__, TapLeaf.control_block(internal_pubkey) with tap_leaf=None,
   TapScript.tap_leaf(), Witness.tap_leaf().  Definitions only. *)
From V Require Import Base.Prelude Base.Ints Model.Helper Model.Script Model.Pecc Model.Taproot.

(* ControlBlock.__eq__: `self.serialize() == other.serialize()`; an exception raised by either
   serialize() propagates *)
Definition cb_eqb (a b : control_block) : result bool :=
  sa <- cb_serialize a ;; sb <- cb_serialize b ;; Ok (beq sa sb).

(* TapScript.tap_leaf(): TapLeaf(self) with the default leaf version 0xC0 *)
Definition tapscript_tap_leaf (sc : script) : leaf := (192, sc).

Section TaprootExt.
Variable C : curve.
Variable sha256 : bytes -> bytes.

(* TapLeaf.control_block(internal_pubkey) — tap_leaf left at its default None: the
   `tap_leaf != self` test is skipped *)
Definition leaf_control_block_default (v : Z) (sc : script) (P : point) : result control_block :=
  Q <- tree_external_pubkey C sha256 (Leaf v sc) P ;; par <- parity Q ;;
  Ok {| cb_version := v; cb_parity := par; cb_key := P; cb_hashes := [] |}.

(* Witness.tap_leaf(): `self.control_block().tapleaf_version` is evaluated first, then
   `self.tap_script()`; TapLeaf(script, version) *)
Definition witness_tap_leaf (items : list bytes) : result leaf :=
  cb <- witness_control_block C items ;;
  sc <- witness_tap_script items ;;
  Ok (cb_version cb, sc).

(* Witness.tap_leaf().hash() *)
Definition witness_tap_leaf_hash (items : list bytes) : result bytes :=
  lf <- witness_tap_leaf items ;; tap_leaf_hash sha256 (fst lf) (snd lf).

End TaprootExt.
