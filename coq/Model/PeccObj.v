(* Model/PeccObj.v — the OBJECT layer of buidl/pecc.py that Model/Pecc.v abstracts away:
   FieldElement objects carry their own prime, Point objects carry their own a and b, so operands of
   two fields / two curves can meet.  Mirrors FieldElement.__init__/__eq__/__ne__/__add__/__sub__/
   __mul__/__truediv__/__pow__/__rmul__, Point.__init__/__eq__/__ne__/__add__/__rmul__,
   S256Point.__eq__/__ne__ and S256Point.combine.  Definitions only.
   (Proofs/PeccObjP.v shows that on operands of ONE curve this layer computes exactly Model/Pecc.v.) *)
From V Require Import Base.Prelude Base.Ints Model.Pecc.

(* a FieldElement object: (num, prime) *)
Definition fe := (Z * Z)%type.

(* FieldElement(num, prime): ValueError unless 0 <= num < prime *)
Definition fe_mk (num prime : Z) : result fe :=
  if (prime <=? num) || (num <? 0) then Err else Ok (num, prime).

(* `a == b` where either side may be None.  FieldElement.__eq__: other None -> False, else num and prime;
   None == FieldElement falls back to the reflected call (False); None == None is True *)
Definition ofe_eqb (a b : option fe) : bool :=
  match a, b with
  | None, None => true
  | Some (x, p), Some (y, q) => (x =? y) && (p =? q)
  | _, _ => false
  end.
(* `a != b`: FieldElement.__ne__ is `not (self == other)`; None != x likewise through the reflected call *)
Definition ofe_neb (a b : option fe) : bool := negb (ofe_eqb a b).
Definition fe_eqb (a b : fe) : bool := ofe_eqb (Some a) (Some b).
Definition fe_neb (a b : fe) : bool := negb (fe_eqb a b).

(* __add__ / __sub__ / __mul__ / __truediv__: TypeError when the primes differ; the result goes through
   the constructor again (self.__class__(num, prime)) *)
Definition fe_add (a b : fe) : result fe :=
  let '(x, p) := a in let '(y, q) := b in
  if negb (p =? q) then Err else fe_mk ((x + y) mod p) p.
Definition fe_sub (a b : fe) : result fe :=
  let '(x, p) := a in let '(y, q) := b in
  if negb (p =? q) then Err else fe_mk ((x - y) mod p) p.
Definition fe_mul (a b : fe) : result fe :=
  let '(x, p) := a in let '(y, q) := b in
  if negb (p =? q) then Err else fe_mk ((x * y) mod p) p.
Definition fe_div (a b : fe) : result fe :=
  let '(x, p) := a in let '(y, q) := b in
  if negb (p =? q) then Err else fe_mk ((x * modpow y (p - 2) p) mod p) p.
(* __pow__: n >= 0 used as is, n < 0 reduced mod prime-1 (ZeroDivisionError in F_1) *)
Definition fe_pow (a : fe) (n : Z) : result fe :=
  let '(x, p) := a in
  if 0 <=? n then fe_mk (modpow x n p) p
  else if p - 1 =? 0 then Err
  else fe_mk (modpow x (n mod (p - 1)) p) p.
(* coefficient * element *)
Definition fe_rmul (k : Z) (a : fe) : result fe :=
  let '(x, p) := a in fe_mk ((x * k) mod p) p.

(* a Point object: coordinates (None, None = infinity) and its own curve coefficients *)
Record gpoint := { gxy : option (fe * fe); ga : fe; gb : fe }.

(* Point(x, y, a, b).  (None, None) is accepted without any check; exactly one None raises TypeError
   (None ** 2); otherwise `self.y**2 != self.x**3 + a * x + b` with the FieldElement operators:
   TypeError across fields, ValueError off the curve *)
Definition gp_mk (x y : option fe) (a b : fe) : result gpoint :=
  match x, y with
  | None, None => Ok {| gxy := None; ga := a; gb := b |}
  | Some x, Some y =>
      y2 <- fe_pow y 2 ;;
      x3 <- fe_pow x 3 ;;
      ax <- fe_mul a x ;;
      s <- fe_add x3 ax ;;
      rhs <- fe_add s b ;;
      if fe_neb y2 rhs then Err else Ok {| gxy := Some (x, y); ga := a; gb := b |}
  | _, _ => Err
  end.

Definition gx (P : gpoint) : option fe := match gxy P with Some (x, _) => Some x | None => None end.
Definition gy (P : gpoint) : option fe := match gxy P with Some (_, y) => Some y | None => None end.

(* Point.__eq__: x, y, a, b *)
Definition gp_eqb (P Q : gpoint) : bool :=
  ofe_eqb (gx P) (gx Q) && ofe_eqb (gy P) (gy Q) && fe_eqb (ga P) (ga Q) && fe_eqb (gb P) (gb Q).
Definition gp_neb (P Q : gpoint) : bool := negb (gp_eqb P Q).

(* Point.__add__ *)
Definition gp_add (P Q : gpoint) : result gpoint :=
  if fe_neb (ga P) (ga Q) || fe_neb (gb P) (gb Q) then Err
  else
    match gxy P, gxy Q with
    | None, _ => Ok Q
    | _, None => Ok P
    | Some (x1, y1), Some (x2, y2) =>
        if fe_eqb x1 x2 && fe_neb y1 y2 then Ok {| gxy := None; ga := ga P; gb := gb P |}
        else if fe_neb x1 x2 then
          dy <- fe_sub y2 y1 ;; dx <- fe_sub x2 x1 ;; s <- fe_div dy dx ;;
          s2 <- fe_pow s 2 ;; t <- fe_sub s2 x1 ;; x <- fe_sub t x2 ;;
          d <- fe_sub x1 x ;; m <- fe_mul s d ;; y <- fe_sub m y1 ;;
          gp_mk (Some x) (Some y) (ga P) (gb P)
        else
          z <- fe_rmul 0 x1 ;;
          if fe_eqb y1 z then Ok {| gxy := None; ga := ga P; gb := gb P |}
          else
            xx <- fe_pow x1 2 ;; t3 <- fe_rmul 3 xx ;; num <- fe_add t3 (ga P) ;;
            den <- fe_rmul 2 y1 ;; s <- fe_div num den ;;
            s2 <- fe_pow s 2 ;; tx <- fe_rmul 2 x1 ;; x <- fe_sub s2 tx ;;
            d <- fe_sub x1 x ;; m <- fe_mul s d ;; y <- fe_sub m y1 ;;
            gp_mk (Some x) (Some y) (ga P) (gb P)
    end.

(* Point.__rmul__ (coefficient >= 0; a negative one does not terminate) *)
Fixpoint gp_rmul_pos (k : positive) (cur res : gpoint) : result gpoint :=
  match k with
  | xH => res' <- gp_add res cur ;; _ <- gp_add cur cur ;; Ok res'
  | xO k' => cur' <- gp_add cur cur ;; gp_rmul_pos k' cur' res
  | xI k' => res' <- gp_add res cur ;; cur' <- gp_add cur cur ;; gp_rmul_pos k' cur' res'
  end.
Definition gp_rmul (k : Z) (P : gpoint) : result gpoint :=
  match k with
  | Z0 => Ok {| gxy := None; ga := ga P; gb := gb P |}
  | Zpos q => gp_rmul_pos q P {| gxy := None; ga := ga P; gb := gb P |}
  | Zneg _ => Err
  end.

(* ---------------- S256Point ---------------- *)
(* S256Point.__eq__: x and y only (both operands are S256Field coordinates or None);
   __ne__ is inherited from Point: not (self == other) *)
Definition s_eqb (P Q : point) : bool :=
  match P, Q with
  | None, None => true
  | Some (x1, y1), Some (x2, y2) => (x1 =? x2) && (y1 =? y2)
  | _, _ => false
  end.
Definition s_neb (P Q : point) : bool := negb (s_eqb P Q).

(* S256Point.combine(points): left fold of + from points[0]; IndexError on the empty list *)
Fixpoint sum_from (C : curve) (acc : point) (ps : list point) : result point :=
  match ps with
  | [] => Ok acc
  | q :: r => a <- padd C acc q ;; sum_from C a r
  end.
Definition combine (C : curve) (ps : list point) : result point :=
  match ps with
  | [] => Err
  | p0 :: r => sum_from C p0 r
  end.
