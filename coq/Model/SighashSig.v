(* Model/SighashSig.v — C05, "the digest the library signs and VERIFIES": the places of the library
   that choose a hash type, ask Tx.sig_hash* for the digest and hand it to a signature primitive.

     buidl/op.py   op_checksig, op_checkmultisig, op_checksig_schnorr, op_checksigadd_schnorr
                   (the op codes themselves are Model/Op.v, written against the verdict record
                   [sigops]; HERE the record is instantiated for a Tx object: every verdict is
                   "verify against tx_obj.sig_hash(input_index, hash type byte of THIS signature)")
     buidl/tx.py   Tx.get_sig_legacy / get_sig_segwit / get_sig_taproot, check_sig_legacy /
                   check_sig_segwit, TxIn.finalize_p2pkh / finalize_p2wpkh / finalize_p2tr_keypath,
                   Tx.sign_p2pkh / sign_p2wpkh / sign_p2sh_p2wpkh / sign_p2tr_keypath / sign_input,
                   Tx.verify_input (= Model/Verify.v verify_input run with the record above)

   The signature primitives (buidl/pecc.py: S256Point.parse / verify / verify_schnorr,
   Signature.parse, SchnorrSignature.parse, PrivateKey.sign / sign_schnorr, point.sec) are external
   calls from the point of view of C05 (properties C01–C03 own them): they are the fields of the
   record [sigprims]; [pecc_prims] instantiates the record with Model/Pecc.v (what the dispatcher
   runs against the implementation).  A primitive receives the value Tx.sig_hash returned, whatever
   its Python type ([digest]: int for legacy / BIP143, bytes for BIP341).

   Definitions only.  An op code function that returns False and one that raises are both [Err]
   (Model/Op.v convention). *)
From V Require Import Base.Prelude Base.Ints Model.Helper Model.Script Model.Op Model.Interp
  Model.Pecc Model.Taproot Model.Verify Model.Tx Model.Sighash.

Record sigprims := {
  (* S256Point.parse(sec) succeeds (op_checkmultisig parses every key first) *)
  pr_sec_ok : bytes -> bool;
  (* S256Point.parse(sec); Signature.parse(der); point.verify(z, sig) *)
  pr_ecdsa : bytes -> bytes -> digest -> result bool;
  (* S256Point.parse_xonly(pk); SchnorrSignature.parse(sig); point.verify_schnorr(msg, sig) *)
  pr_schnorr : bytes -> bytes -> digest -> result bool;
  (* PrivateKey(secret).sign(z).der() *)
  pr_sign : Z -> digest -> result bytes;
  (* PrivateKey(secret).sign_schnorr(msg, aux).serialize() *)
  pr_sign_schnorr : Z -> digest -> bytes -> result bytes;
  (* PrivateKey(secret).point.sec(compressed) *)
  pr_sec : Z -> bool -> result bytes
}.

Definition is_ok_true (r : result bool) : bool := match r with Ok true => true | _ => false end.

Section Sites.
(* the order of these declarations is the order of the parameters of every definition below *)
Variables hash256 sha256 hash_tapsighash hash_tapleaf : bytes -> bytes.
Variable xonly_ok : bytes -> bool.          (* S256Point.parse_xonly succeeds *)
Variable pr : sigprims.
Variable C : curve.                         (* only Script.evaluate's taproot commitment check uses it *)
Variables ripemd160 sha1 hash160 : bytes -> bytes.

Notation SIG_HASH := (sig_hash hash256 sha256 hash_tapsighash hash_tapleaf xonly_ok).

(* ------------------------------------------------------------------ the verifying sites *)
Section OnTx.
Variable t : tx.
Variable sp : list spent.
Variable idx : nat.
Variable m : memo.                           (* the memo fields of the Tx object at that moment *)

(* z = tx_obj.sig_hash(input_index, hash_type) *)
Definition tx_digest (ht : Z) : result digest :=
  '(_, o) <- SIG_HASH t sp idx ht m ;; Ok (so_digest o).

(* op_checksig / one round of op_checkmultisig:  der, hash_type = tmp[:-1], tmp[-1] *)
Definition tx_checksig (sec sg : bytes) : result bool :=
  d <- tx_digest (last sg 0) ;; pr_ecdsa pr sec (removelast sg) d.

(* op_checksig_schnorr / op_checksigadd_schnorr, after the hash type was split off *)
Definition tx_schnorr (pk sg : bytes) (ht : Z) : result bool :=
  d <- tx_digest ht ;; pr_schnorr pr pk sg d.

Definition tx_sigops : sigops :=
  {| so_checksig := tx_checksig;
     so_multisig := so_multisig_loop (pr_sec_ok pr) (fun k sg => is_ok_true (tx_checksig k sg));
     so_xonly_ok := xonly_ok;
     so_schnorr := tx_schnorr |}.

(* the four op code functions as op.py runs them on (stack, tx_obj, input_index) *)
Definition tx_op_checksig : stack -> result stack := op_checksig tx_sigops.
Definition tx_op_checkmultisig : stack -> result stack := op_checkmultisig tx_sigops.
Definition tx_op_checksig_schnorr : stack -> result stack := op_checksig_schnorr tx_sigops.
Definition tx_op_checksigadd_schnorr : stack -> result stack := op_checksigadd_schnorr tx_sigops.

(* Tx.check_sig_legacy / check_sig_segwit (point and signature given by their encodings) *)
Definition check_sig_legacy (sec der : bytes) (redeem : option script) : result bool :=
  '(_, z) <- sig_hash_legacy hash256 t sp idx redeem 1 ;; pr_ecdsa pr sec der (DInt z).
Definition check_sig_segwit (sec der : bytes) (redeem wscript : option script) : result bool :=
  '(_, (_, z)) <- sig_hash_bip143 hash256 t sp idx redeem wscript 1 m ;; pr_ecdsa pr sec der (DInt z).

(* ------------------------------------------------------------------ the signing sites *)

(* Tx.get_sig_legacy: SIGHASH_ALL, `der + int_to_byte(SIGHASH_ALL)` *)
Definition get_sig_legacy (secret : Z) (redeem : option script) : result bytes :=
  '(_, z) <- sig_hash_legacy hash256 t sp idx redeem 1 ;;
  der <- pr_sign pr secret (DInt z) ;;
  b <- int_to_byte 1 ;; Ok (der ++ b).

(* Tx.get_sig_segwit *)
Definition get_sig_segwit (secret : Z) (redeem wscript : option script) : result bytes :=
  '(_, (_, z)) <- sig_hash_bip143 hash256 t sp idx redeem wscript 1 m ;;
  der <- pr_sign pr secret (DInt z) ;;
  b <- int_to_byte 1 ;; Ok (der ++ b).

(* Tx.get_sig_taproot: the hash type byte is appended unless it is 0 (`if hash_type:`) *)
Definition get_sig_taproot (secret : Z) (ext_flag ht : Z) (aux : bytes) : result bytes :=
  '(_, (_, msg)) <- sig_hash_bip341 sha256 hash_tapsighash hash_tapleaf xonly_ok t sp idx ext_flag ht m ;;
  sg <- pr_sign_schnorr pr secret (DBytes msg) aux ;;
  if ht =? 0 then Ok sg else b <- int_to_byte ht ;; Ok (sg ++ b).

(* Tx.verify_input(input_index): TxIn lookup, then Script.evaluate with this Tx object *)
Definition tx_verify_input : result outcome :=
  match nth_error (t_ins t) idx, nth_error sp idx with
  | Some ti, Some s =>
      Ok (verify_input C ripemd160 sha1 sha256 hash160 hash256 tx_sigops
            {| Op.t_locktime := t_locktime t; Op.t_sequence := i_sequence ti;
               Op.t_version := t_version t |}
            (i_witness ti) (s_cmds (i_script ti)) (s_cmds (sp_script s)))
  | _, _ => Err
  end.
End OnTx.

(* ------------------------------------------------------------------ finalize_* (TxIn) *)

Definition in_with_script (sc : script) (i : txin) : txin :=
  {| i_prev_tx := i_prev_tx i; i_prev_index := i_prev_index i; i_script := sc;
     i_sequence := i_sequence i; i_witness := i_witness i |}.

(* self.script_sig = Script([sig, sec]) *)
Definition finalize_p2pkh (sg sec : bytes) (i : txin) : txin :=
  in_with_script (mk_script [Push sg; Push sec]) i.

(* script_sig = Script([redeem.raw_serialize()]) or Script(); witness = Witness([sig, sec]) *)
Definition finalize_p2wpkh (sg sec : bytes) (redeem : option script) (i : txin) : result txin :=
  sc <- match redeem with
        | Some r => raw <- raw_serialize r ;; Ok (mk_script [Push raw])
        | None => Ok empty_script
        end ;;
  Ok (in_with_wit [sg; sec] (in_with_script sc i)).

(* witness = Witness([sig]) *)
Definition finalize_p2tr_keypath (sg : bytes) (i : txin) : txin := in_with_wit [sg] i.

Definition tx_upd_in (t : tx) (idx : nat) (f : txin -> txin) : tx :=
  with_ins t (upd_nth idx f (t_ins t)).

(* ------------------------------------------------------------------ Tx.sign_*            *)
(* Each returns the transaction after the call and what verify_input said.  `self.tx_ins[i]`
   raises for an index out of range. *)

Definition in_range (t : tx) (idx : nat) : result unit :=
  match nth_error (t_ins t) idx with Some _ => Ok tt | None => Err end.

Definition sign_p2pkh (t : tx) (sp : list spent) (idx : nat) (m : memo) (secret : Z) (compressed : bool)
  : result (tx * outcome) :=
  sg <- get_sig_legacy t sp idx secret None ;;
  sec <- pr_sec pr secret compressed ;;
  _ <- in_range t idx ;;
  let t' := tx_upd_in t idx (finalize_p2pkh sg sec) in
  o <- tx_verify_input t' sp idx m ;; Ok (t', o).

Definition sign_p2wpkh (t : tx) (sp : list spent) (idx : nat) (m : memo) (secret : Z) (compressed : bool)
  : result (tx * outcome) :=
  sg <- get_sig_segwit t sp idx m secret None None ;;
  sec <- pr_sec pr secret compressed ;;
  ti <- match nth_error (t_ins t) idx with Some ti => Ok ti | None => Err end ;;
  ti' <- finalize_p2wpkh sg sec None ti ;;
  let t' := tx_upd_in t idx (fun _ => ti') in
  o <- tx_verify_input t' sp idx m ;; Ok (t', o).

(* private_key.point.p2sh_p2wpkh_redeem_script(): OP_0 <hash160 of the COMPRESSED sec> *)
Definition key_redeem_script (secret : Z) : result script :=
  sec <- pr_sec pr secret true ;; Ok (mk_script (p2wpkh_script (hash160 sec))).

Definition sign_p2sh_p2wpkh (t : tx) (sp : list spent) (idx : nat) (m : memo) (secret : Z)
  (compressed : bool) : result (tx * outcome) :=
  redeem <- key_redeem_script secret ;;
  sg <- get_sig_segwit t sp idx m secret (Some redeem) None ;;
  sec <- pr_sec pr secret compressed ;;
  ti <- match nth_error (t_ins t) idx with Some ti => Ok ti | None => Err end ;;
  ti' <- finalize_p2wpkh sg sec (Some redeem) ti ;;
  let t' := tx_upd_in t idx (fun _ => ti') in
  o <- tx_verify_input t' sp idx m ;; Ok (t', o).

Definition sign_p2tr_keypath (t : tx) (sp : list spent) (idx : nat) (m : memo) (secret : Z)
  (ht : Z) (aux : bytes) : result (tx * outcome) :=
  sg <- get_sig_taproot t sp idx m secret 0 ht aux ;;
  _ <- in_range t idx ;;
  let t' := tx_upd_in t idx (finalize_p2tr_keypath sg) in
  o <- tx_verify_input t' sp idx m ;; Ok (t', o).

(* Tx.sign_input(input_index, private_key, redeem_script=None, hash_type=SIGHASH_ALL); the
   taproot branch signs with aux = 32 zero bytes (the default of sign_p2tr_keypath) *)
Definition sign_input (t : tx) (sp : list spent) (idx : nat) (m : memo) (secret : Z)
  (compressed : bool) (redeem : option script) (ht : Z) : result (tx * outcome) :=
  match nth_error (t_ins t) idx, nth_error sp idx with
  | Some _, Some s =>
      let c := s_cmds (sp_script s) in
      if is_p2pkh c then sign_p2pkh t sp idx m secret compressed
      else if is_p2wpkh c then sign_p2wpkh t sp idx m secret compressed
      else if opt_is is_p2wpkh redeem then sign_p2sh_p2wpkh t sp idx m secret compressed
      else if is_p2tr c then sign_p2tr_keypath t sp idx m secret ht (repeatz 0 32)
      else Err
  | _, _ => Err
  end.

(* several Tx.sign_input calls on ONE object, in the given order, then Tx.verify_input for every
   input: (input index, secret, compressed, redeem script, hash type) per step.  Returns the final
   transaction, what each sign_input call returned and the final verdict on every input. *)
Fixpoint sign_many (t : tx) (sp : list spent) (m : memo)
  (steps : list (nat * Z * bool * option script * Z)) : result (tx * list outcome) :=
  match steps with
  | [] => Ok (t, [])
  | (idx, secret, compressed, redeem, ht) :: r =>
      '(t', o) <- sign_input t sp idx m secret compressed redeem ht ;;
      '(t'', os) <- sign_many t' sp m r ;;
      Ok (t'', o :: os)
  end.

Fixpoint verify_all (t : tx) (sp : list spent) (m : memo) (n : nat) : result (list outcome) :=
  match n with
  | O => Ok []
  | S k => os <- verify_all t sp m k ;; o <- tx_verify_input t sp k m ;; Ok (os ++ [o])
  end.

Definition sign_many_verify_all (t : tx) (sp : list spent) (m : memo)
  (steps : list (nat * Z * bool * option script * Z)) : result (tx * list outcome * list outcome) :=
  '(t', os) <- sign_many t sp m steps ;;
  vs <- verify_all t' sp m (length (t_ins t')) ;;
  Ok (t', os, vs).

End Sites.

(* ------------------------------------------------------------------ the primitives of buidl/pecc.py *)
Section PeccPrims.
Variable C : curve.
Variable hmac256 : bytes -> bytes -> bytes.
Variable sha256 : bytes -> bytes.
Variable fuel_k : nat.                       (* iterations allowed to RFC 6979's retry loop *)

Definition ecdsa_range_bad (r s : Z) : bool :=
  (r <? 1) || (cn C <=? r) || (s <? 1) || (cn C <=? s).

(* point.verify(z, sig) with whatever Tx.sig_hash returned: with a bytes object `z * s_inv`
   (a sequence repetition with a 256-bit count) raises, but only after the range test *)
Definition pecc_ecdsa (sec der : bytes) (d : digest) : result bool :=
  P <- parse_point C sec ;;
  '(r, s) <- der_parse der ;;
  match d with
  | DInt z => ecdsa_verify C P z r s
  | DBytes _ => if ecdsa_range_bad r s then Ok false else Err
  end.

(* point.verify_schnorr(msg, sig): with an int, `r.xonly() + point.xonly() + msg` raises, after
   the parity flip and the test for R at infinity *)
Definition pecc_schnorr (pk sg : bytes) (d : digest) : result bool :=
  P <- parse_xonly C pk ;;
  '(r, s) <- schnorr_parse C sg ;;
  match d with
  | DBytes msg => schnorr_verify C sha256 P msg r s
  | DInt _ => _ <- even_point C P ;; match r with None => Ok false | Some _ => Err end
  end.

Definition pecc_sign (secret : Z) (d : digest) : result bytes :=
  _ <- pubkey C secret ;;
  match d with
  | DInt z => '(r, s) <- ecdsa_sign C hmac256 fuel_k secret z ;; der r s
  | DBytes _ => Err
  end.

Definition pecc_sign_schnorr (secret : Z) (d : digest) (aux : bytes) : result bytes :=
  match d with
  | DBytes msg => schnorr_sign C sha256 secret msg aux
  | DInt _ => Err
  end.

Definition pecc_sec (secret : Z) (compressed : bool) : result bytes :=
  P <- pubkey C secret ;; sec P compressed.

Definition pecc_prims : sigprims :=
  {| pr_sec_ok := fun b => match parse_point C b with Ok _ => true | Err => false end;
     pr_ecdsa := pecc_ecdsa; pr_schnorr := pecc_schnorr;
     pr_sign := pecc_sign; pr_sign_schnorr := pecc_sign_schnorr; pr_sec := pecc_sec |}.
End PeccPrims.
