(* Model/Bcur.v — mirrors buidl/bcur.py: bcur_encode / bcur_decode, the checks of
   _parse_bcur_helper on the header fields, BCURSingle.encode / parse and
   BCURMulti.encode / parse.

   This file works on the header fields [part] of a BCUR string: the form (2, 3 or 4
   slash-separated segments: "ur:bytes/<payload>", "ur:bytes/<checksum>/<payload>",
   "ur:bytes/<x>of<y>/<checksum>/<payload>"), x, y, checksum text and payload text.
   The string operations of _parse_bcur_helper (lower, strip, startswith, split("/"),
   split("of"), int()) and the f-strings of encode are modelled in Model/BcurStr.v, which
   builds the functions on real strings from the ones defined here (the harness exercises both
   layers: fields formatted by the harness, and the strings themselves).  lower() is ASCII.
   The base64 wrapping of BCURSingle/BCURMulti (binascii) is not modelled: payloads
   are byte strings.  Definitions only. *)
From V Require Import Base.Prelude Base.Ints Model.Helper Model.Base58 Model.Bech32.

Record part := { p_form : Z; p_x : Z; p_y : Z; p_chk : list Z; p_payload : list Z }.

Section WithHash.
Variable sha256 : bytes -> bytes.

Definition bcur_encode (data : bytes) : result (list Z * list Z) :=
  cbor <- cbor_encode data ;;
  enc <- bc32encode cbor ;;
  enc_hash <- bc32encode (sha256 cbor) ;;
  Ok (enc, enc_hash).

(* cbor = bc32decode(data) may be None: sha256(None) / BytesIO(None).read(1)[0] raise *)
Definition bcur_decode (data : list Z) (checksum : option (list Z)) : result (option bytes) :=
  oc <- bc32decode data ;;
  match oc with
  | None => Err
  | Some cbor =>
      _ <- match checksum with
           | None => Ok tt
           | Some c =>
               oh <- bc32decode c ;;
               match oh with
               | Some h => if beq h (sha256 cbor) then Ok tt else Err
               | None => Err
               end
           end ;;
      cbor_decode cbor
  end.

Definition only_bech32 (s : list Z) : bool :=
  forallb (fun c => existsb (Z.eqb c) bech32_alphabet) (lower s).

(* _parse_bcur_helper after the split: (payload, checksum, x, y) *)
Definition parse_part (p : part) : result (list Z * option (list Z) * Z * Z) :=
  let payload := lower (p_payload p) in
  let chk := lower (p_chk p) in
  '(checksum, x, y) <-
     (if p_form p =? 2 then Ok (None, 1, 1)
      else if p_form p =? 3 then Ok (Some chk, 1, 1)
      else if p_form p =? 4 then
        (if p_y p <? p_x p then Err else Ok (Some chk, p_x p, p_y p))
      else Err) ;;
  _ <- match checksum with
       | Some ((_ :: _) as c) =>                        (* `if checksum:` *)
           if negb (length c =? 58)%nat then Err
           else if negb (only_bech32 c) then Err else Ok tt
       | _ => Ok tt
       end ;;
  if negb (only_bech32 payload) then Err else Ok (payload, checksum, x, y).

(* `if x and x != y` on strings: truthiness = non-empty *)
Definition truthy_differs (given : option (list Z)) (computed : list Z) : bool :=
  match given with
  | Some ((_ :: _) as g) => negb (beq g computed)
  | _ => false
  end.

(* BCURSingle.__init__ / BCURMulti.__init__: recompute and compare *)
Definition bcur_init (data : bytes) (encoded checksum : option (list Z)) : result (list Z * list Z) :=
  '(enc, enc_hash) <- bcur_encode data ;;
  if truthy_differs encoded enc then Err
  else if truthy_differs checksum enc_hash then Err
  else Ok (enc, enc_hash).

(* BCURSingle(text_b64).encode(use_checksum) *)
Definition single_encode (data : bytes) (use_checksum : bool) : result part :=
  '(enc, enc_hash) <- bcur_init data None None ;;
  Ok (if use_checksum
      then {| p_form := 3; p_x := 1; p_y := 1; p_chk := enc_hash; p_payload := enc |}
      else {| p_form := 2; p_x := 1; p_y := 1; p_chk := []; p_payload := enc |}).

(* BCURSingle.parse: the payload bytes of the object it returns *)
Definition single_parse (p : part) : result bytes :=
  '(payload, checksum, x, y) <- parse_part p ;;
  if negb (x =? 1) || negb (y =? 1) then Err
  else
    oe <- bcur_decode payload checksum ;;
    match oe with
    | None => Err                                     (* b2a_base64(None): TypeError *)
    | Some data => _ <- bcur_init data (Some payload) checksum ;; Ok data
    end.

(* ceil(a / b) for b <> 0 *)
Definition cdiv (a b : Z) : Z := - ((- a) / b).

(* self.encoded[cnt*cl : (cnt+1)*cl] for cnt = 0 .. n-1, consumed left to right *)
Fixpoint chunks (n cl : nat) (s : list Z) : list (list Z) :=
  match n with
  | O => []
  | S m => firstn cl s :: chunks m cl (skipn cl s)
  end.

Fixpoint number_parts (cs : list (list Z)) (cnt y : Z) (chk : list Z) : list part :=
  match cs with
  | [] => []
  | c :: r => {| p_form := 4; p_x := cnt + 1; p_y := y; p_chk := chk; p_payload := c |}
              :: number_parts r (cnt + 1) y chk
  end.

(* BCURMulti(text_b64).encode(max_size_per_chunk, animate) *)
Definition multi_encode (data : bytes) (max_size : Z) (animate : bool) : result (list part) :=
  '(enc, enc_hash) <- bcur_init data None None ;;
  n <- (if animate then
          (if max_size =? 0 then Err else Ok (cdiv (zlen enc) max_size))
        else Ok 1) ;;
  if n =? 0 then Err                                  (* ZeroDivisionError *)
  else
    let cl := cdiv (zlen enc) n in
    if n <? 0 then Ok []                              (* range(negative) is empty *)
    else Ok (number_parts (chunks (Z.to_nat n) (Z.to_nat cl) enc) 0 n enc_hash).

(* the for loop of BCURMulti.parse *)
Fixpoint mp_loop (ps : list part) (cnt : Z) (gchk : option (list Z)) (gy : Z)
                 (acc : list (list Z)) : result (option (list Z) * list (list Z)) :=
  match ps with
  | [] => Ok (gchk, rev' acc)
  | p :: r =>
      '(payload, checksum, x, y) <- parse_part p ;;
      if negb (cnt + 1 =? x) then Err
      else if cnt =? 0 then mp_loop r (cnt + 1) checksum y (payload :: acc)
      else if negb (match checksum, gchk with
                    | Some a, Some b => beq a b
                    | None, None => true
                    | _, _ => false
                    end) then Err
      else if negb (y =? gy) then Err
      else mp_loop r (cnt + 1) gchk gy (payload :: acc)
  end.

(* BCURMulti.parse: the payload bytes of the object it returns *)
Definition multi_parse (ps : list part) : result bytes :=
  '(gchk, payloads) <- mp_loop ps 0 (Some []) 0 [] ;;
  oe <- bcur_decode (concat payloads) gchk ;;
  match oe with
  | None => Err
  | Some data => _ <- bcur_init data None gchk ;; Ok data
  end.

End WithHash.
