(* Model/Musig.v — mirrors buidl/taproot.py: MultiSigTapScript, MuSigTapScript (key
   aggregation, nonce aggregation, partial signatures, get_signature) and the
   TapRootMultiSig tree generators over itertools.combinations.  Definitions only. *)
From V Require Import Base.Prelude Base.Ints Model.Helper Model.Script Model.Pecc Model.Taproot.

(* sorted() on bytes objects: any correct sort gives the same list; insertion sort here *)
Definition ble (a b : bytes) : bool := negb (blt b a).
Fixpoint insert_sorted (x : bytes) (l : list bytes) : list bytes :=
  match l with
  | [] => [x]
  | y :: t => if ble x y then x :: l else y :: insert_sorted x t
  end.
Fixpoint sort_bytes (l : list bytes) : list bytes :=
  match l with
  | [] => []
  | x :: t => insert_sorted x (sort_bytes t)
  end.

Fixpoint mapM {A B} (f : A -> result B) (l : list A) : result (list B) :=
  match l with
  | [] => Ok []
  | x :: t => y <- f x ;; r <- mapM f t ;; Ok (y :: r)
  end.

(* itertools.combinations(pool, k): k-subsequences in lexicographic order of positions *)
Fixpoint combos {A} (l : list A) (k : nat) : list (list A) :=
  match l, k with
  | _, O => [[]]
  | [], S _ => []
  | x :: t, S k' => map (cons x) (combos t k') ++ combos t k
  end.

(* op.number_to_op_code *)
Definition number_to_op_code (k : Z) : result Z :=
  if (k <? -1) || (16 <? k) then Err else if k =? 0 then Ok 0 else Ok (k + 80).

(* op.encode_num for a non-negative number: minimal little-endian, a 0 byte appended when
   the top bit is set.  fuel = 9 bytes is enough for the 32-bit locktime/sequence values *)
Fixpoint le_minimal (fuel : nat) (v : Z) : bytes :=
  match fuel with
  | O => []
  | S f => if v =? 0 then [] else (v mod 256) :: le_minimal f (v / 256)
  end.
Definition encode_num_nonneg (v : Z) : bytes :=
  let b := le_minimal 9 v in
  match rev b with
  | [] => []
  | top :: _ => if 128 <=? top then b ++ [0] else b
  end.
(* op.encode_minimal_num: an op code (int) for -1..16, else a pushed element *)
Definition encode_minimal_num (v : Z) : result cmd :=
  if (-1 <=? v) && (v <=? 16) then o <- number_to_op_code v ;; Ok (Op o)
  else Ok (Push (encode_num_nonneg v)).

(* the optional timelock of a tap script: None | locktime v | sequence v *)
Inductive lock : Type := NoLock | LockTime (v : Z) | LockSeq (v : Z).
(* locktime_commands / sequence_commands; Locktime()/Sequence() raise outside [0, 2^32-1] *)
Definition lock_cmds (lk : lock) : result (list cmd) :=
  match lk with
  | NoLock => Ok []
  | LockTime v => if (v <? 0) || (4294967295 <? v) then Err
                  else c <- encode_minimal_num v ;; Ok [c; Op 177; Op 117]
  | LockSeq v => if (v <? 0) || (4294967295 <? v) then Err
                 else c <- encode_minimal_num v ;; Ok [c; Op 178; Op 117]
  end.

Record musig := {
  ms_xonlys : list bytes;      (* sorted x-only encodings of the keys *)
  ms_points : list point;      (* parse_xonly of them: the even-y lifts *)
  ms_coefs : list Z;           (* KeyAgg coefficients, the second one forced to 1 *)
  ms_point : point             (* aggregate point *)
}.

Section Musig.
Variable C : curve.
Variable sha256 : bytes -> bytes.
Let n := cn C.

Definition hash_keyagglist := tagged_hash sha256 tag_keyagg_list.
Definition hash_keyaggcoef := tagged_hash sha256 tag_keyagg_coef.
Definition hash_musignonce := tagged_hash sha256 tag_musig_nonce.
Definition hash_challenge := tagged_hash sha256 tag_challenge.

(* S256Point.combine: left fold of __add__ from the first element (IndexError on []) *)
Fixpoint sum_from (acc : point) (ps : list point) : result point :=
  match ps with
  | [] => Ok acc
  | q :: r => a <- padd C acc q ;; sum_from a r
  end.
Definition combine_points (ps : list point) : result point :=
  match ps with
  | [] => Err
  | p0 :: r => sum_from p0 r
  end.

(* MultiSigTapScript(points, k, locktime, sequence).commands *)
Definition multisig_cmds (lk : lock) (pts : list point) (k : Z) : result (list cmd) :=
  pre <- lock_cmds lk ;;
  let xs := sort_bytes (map (xonly) pts) in
  _ <- mapM (parse_xonly C) xs ;;
  match xs with
  | [] => Err
  | x0 :: rest =>
      let base := pre ++ [Push x0; Op 172] in
      if (1 <? length pts)%nat then
        o <- number_to_op_code k ;;
        Ok (base ++ flat_map (fun x => [Push x; Op 186]) rest ++ [Op o; Op 135])
      else Ok base
  end.

(* self.coefs[1] = 1 (IndexError for a single key) *)
Definition set_second (l : list Z) : result (list Z) :=
  match l with
  | a :: _ :: t => Ok (a :: 1 :: t)
  | _ => Err
  end.

(* zip(coefs, points) -> c * p *)
Fixpoint scaled (cs : list Z) (ps : list point) : result (list point) :=
  match cs, ps with
  | c :: cs', p :: ps' => q <- rmul C c p ;; r <- scaled cs' ps' ;; Ok (q :: r)
  | _, _ => Ok []
  end.

(* MuSigTapScript.__init__: aggregation *)
Definition musig_init (pts : list point) : result musig :=
  match pts with
  | [] => Err
  | _ =>
      let xs := sort_bytes (map xonly pts) in
      lifted <- mapM (parse_xonly C) xs ;;
      let commitment := hash_keyagglist (concat xs) in
      let coefs0 := map (fun b => from_be (hash_keyaggcoef (commitment ++ b))) xs in
      coefs <- set_second coefs0 ;;
      sc <- scaled coefs lifted ;;
      agg <- combine_points sc ;;
      Ok {| ms_xonlys := xs; ms_points := lifted; ms_coefs := coefs; ms_point := agg |}
  end.

(* MuSigTapScript.commands *)
Definition musig_cmds (lk : lock) (pts : list point) : result (list cmd) :=
  pre <- lock_cmds lk ;;
  ms <- musig_init pts ;;
  Ok (pre ++ [Push (xonly (ms_point ms)); Op 172]).

(* coef_lookup = {b: c for c, b in zip(coefs, xonlys)}: the last entry wins *)
Fixpoint lookup_last (b : bytes) (ks : list bytes) (vs : list Z) : option Z :=
  match ks, vs with
  | k :: ks', v :: vs' =>
      match lookup_last b ks' vs' with
      | Some r => Some r
      | None => if beq k b then Some v else None
      end
  | _, _ => None
  end.
Definition coef_lookup (ms : musig) (b : bytes) : result Z :=
  match lookup_last b (ms_xonlys ms) (ms_coefs ms) with Some c => Ok c | None => Err end.

(* generate_nonces with the two randbelow(N) values given *)
Definition nonce_points (k1 k2 : Z) : result (point * point) :=
  r1 <- rmul C k1 (G C) ;; r2 <- rmul C k2 (G C) ;; Ok (r1, r2).

(* nonce_sums *)
Definition nonce_sums (pairs : list (point * point)) : result (point * point) :=
  s1 <- combine_points (map fst pairs) ;;
  s2 <- combine_points (map snd pairs) ;; Ok (s1, s2).

(* compute_coefficient (not reduced mod N) *)
Definition compute_coefficient (ms : musig) (sums : point * point) (msg : bytes) : result Z :=
  a <- sec (fst sums) true ;; b <- sec (snd sums) true ;;
  Ok (from_be (hash_musignonce (a ++ b ++ xonly (ms_point ms) ++ msg))).

Definition compute_k (ms : musig) (ks : Z * Z) (sums : point * point) (msg : bytes) : result Z :=
  h <- compute_coefficient ms sums msg ;; Ok ((fst ks + h * snd ks) mod n).

Definition compute_r (ms : musig) (sums : point * point) (msg : bytes) : result point :=
  h <- compute_coefficient ms sums msg ;;
  hs2 <- rmul C h (snd sums) ;;
  combine_points [fst sums; hs2].

(* the external key both sign and get_signature use: `if merkle_root:` — b"" is falsy *)
Definition musig_external (ms : musig) (root : bytes) : result point :=
  match root with
  | [] => even_point C (ms_point ms)
  | _ => tweaked_key C sha256 (ms_point ms) root
  end.

Definition challenge (r ext : point) (msg : bytes) : Z :=
  from_be (hash_challenge (xonly r ++ xonly ext ++ msg)) mod n.

(* MuSigTapScript.sign(private_key, k, r, sig_hash, merkle_root) *)
Definition musig_sign (ms : musig) (secret k : Z) (r : point) (msg root : bytes) : result Z :=
  ext <- musig_external ms root ;;
  let e := challenge r ext msg in
  P <- pubkey C secret ;;
  h <- coef_lookup ms (xonly P) ;;
  let c := (h * e) mod n in
  rpar <- parity r ;; epar <- parity ext ;;
  let k_real := if rpar =? epar then k else - k in
  qpar <- parity (ms_point ms) ;; ppar <- parity P ;;
  let sk := if qpar =? ppar then secret else - secret in
  Ok ((k_real + c * sk) mod n).

(* the s value of get_signature *)
Definition musig_final_s (ms : musig) (s_sum : Z) (r : point) (msg root : bytes) : result Z :=
  match root with
  | [] => _ <- even_point C (ms_point ms) ;; Ok (s_sum mod n)
  | _ =>
      ext <- tweaked_key C sha256 (ms_point ms) root ;;
      let t := from_be (tweak sha256 (ms_point ms) root) in
      let e := challenge r ext msg in
      epar <- parity ext ;;
      if epar =? 0 then Ok ((s_sum + e * t) mod n) else Ok ((- s_sum - e * t) mod n)
  end.

(* MuSigTapScript.get_signature: (parsed r, s); Err when the self-verification fails *)
Definition musig_get_signature (ms : musig) (s_sum : Z) (r : point) (msg root : bytes)
  : result (point * Z) :=
  ext <- musig_external ms root ;;
  s <- musig_final_s ms s_sum r msg root ;;
  sb <- int_to_be s 32 ;;
  '(r', s') <- schnorr_parse C (xonly r ++ sb) ;;
  ok <- schnorr_verify C sha256 ext msg r' s' ;;
  if ok then Ok (r', s') else Err.

(* a whole signing session: participants (secret, (k1, k2)), all of them signing *)
Definition musig_session_r (ms : musig) (parts : list (Z * (Z * Z))) (msg : bytes)
  : result ((point * point) * point) :=
  nps <- mapM (fun p => nonce_points (fst (snd p)) (snd (snd p))) parts ;;
  sums <- nonce_sums nps ;;
  r <- compute_r ms sums msg ;; Ok (sums, r).

Definition musig_partials (ms : musig) (parts : list (Z * (Z * Z))) (sums : point * point)
  (r : point) (msg root : bytes) : result (list Z) :=
  mapM (fun p => k <- compute_k ms (snd p) sums msg ;; musig_sign ms (fst p) k r msg root) parts.

Definition zsum (l : list Z) : Z := fold_right Z.add 0 l.

Definition musig_session (parts : list (Z * (Z * Z))) (msg root : bytes) : result (point * Z) :=
  pts <- mapM (fun p => pubkey C (fst p)) parts ;;
  ms <- musig_init pts ;;
  '(sums, r) <- musig_session_r ms parts msg ;;
  ps <- musig_partials ms parts sums r msg root ;;
  musig_get_signature ms (zsum ps) r msg root.

(* ---------------- TapRootMultiSig ---------------- *)
(* tap_script.tap_leaf(): leaf version 0xC0 *)
Definition tap_leaf_of (cs : list cmd) : taptree := Leaf 192 (mk_script cs).

(* __init__: n >= k >= 1, and the default internal key (raises for one key) *)
Definition trms_init (pts : list point) (k : Z) : result point :=
  if (zlen pts <? k) || (k <? 1) then Err
  else ms <- musig_init pts ;; Ok (ms_point ms).

Definition single_leaf (pts : list point) (k : Z) (lk : lock) : result taptree :=
  cs <- multisig_cmds lk pts k ;; Ok (tap_leaf_of cs).

Definition multi_leaf_list (pts : list point) (k : Z) (lk : lock) : result (list taptree) :=
  mapM (fun sub => cs <- multisig_cmds lk sub k ;; Ok (tap_leaf_of cs)) (combos pts (Z.to_nat k)).
Definition musig_leaf_list (pts : list point) (k : Z) (lk : lock) : result (list taptree) :=
  mapM (fun sub => cs <- musig_cmds lk sub ;; Ok (tap_leaf_of cs)) (combos pts (Z.to_nat k)).

Definition multi_leaf_tree (pts : list point) (k : Z) (lk : lock) : result taptree :=
  ls <- multi_leaf_list pts k lk ;; combine_nodes (length ls) ls.
Definition musig_tree (pts : list point) (k : Z) (lk : lock) : result taptree :=
  ls <- musig_leaf_list pts k lk ;; combine_nodes (length ls) ls.

Definition musig_and_single_leaf_tree (pts : list point) (k : Z) (lk : lock) : result taptree :=
  a <- single_leaf pts k lk ;; b <- musig_tree pts k lk ;; Ok (Branch a b).
Definition everything_tree (pts : list point) (k : Z) (lk : lock) : result taptree :=
  a <- single_leaf pts k lk ;; b <- multi_leaf_tree pts k lk ;; c <- musig_tree pts k lk ;;
  Ok (Branch a (Branch b c)).

(* degrading_multisig_tree: num_keys_needed = k, k-1, ..., 1; kind 0 = no interval given,
   1 = sequence_block_interval, 2 = sequence_time_interval (an interval of 0 is falsy) *)
Definition degrading_seq (kind interval : Z) (k num : Z) : result lock :=
  if num =? k then Ok NoLock
  else if (kind =? 1) && negb (interval =? 0) then
    let v := interval * (k - num) in
    if (v <? 0) || (4294967295 <? v) then Err else Ok (LockSeq v)
  else if (kind =? 2) && negb (interval =? 0) then
    let v := Z.lor 4194304 ((interval * (k - num)) / 512) in
    if (interval * (k - num) <? 0) || (4294967295 <? v) then Err else Ok (LockSeq v)
  else Ok NoLock.

Fixpoint degrading_leaves (pts : list point) (kind interval k : Z) (cnt : nat) (num : Z)
  : result (list taptree) :=
  match cnt with
  | O => Ok []
  | S c =>
      lk <- degrading_seq kind interval k num ;;
      ls <- mapM (fun sub => cs <- multisig_cmds lk sub num ;; Ok (tap_leaf_of cs))
                 (combos pts (Z.to_nat num)) ;;
      rest <- degrading_leaves pts kind interval k c (num - 1) ;;
      Ok (ls ++ rest)
  end.
Definition degrading_multisig_tree (pts : list point) (k kind interval : Z) : result taptree :=
  ls <- degrading_leaves pts kind interval k (Z.to_nat k) k ;; combine_nodes (length ls) ls.

End Musig.

(* ---------------- Tx.initialize_p2tr_multisig / Tx.finalize_p2tr_multisig (buidl/tx.py) ----------------
   The part of a TxIn these two methods touch: witness.items and tap_script (None, or a
   MultiSigTapScript of which only .points — the x-only lifts of its sorted keys — is used). *)
Record tap_in := { ti_items : list bytes; ti_points : option (list point) }.

Section TapMultisigTx.
Variable C : curve.
Variable sha256 : bytes -> bytes.
(* Tx.sig_hash(input_index, hash_type) of the transaction being signed: an external call (C05) *)
Variable sighash : Z -> result bytes.

(* MultiSigTapScript(points, k).points *)
Definition multisig_points (pts : list point) : result (list point) :=
  match pts with
  | [] => Err
  | _ => mapM (parse_xonly C) (sort_bytes (map xonly pts))
  end.

(* initialize_p2tr_multisig(input_index, control_block, tap_script).  [ms_pts] = Some tap_script.points when
   type(tap_script) is MultiSigTapScript, None for any other tap script.  Nothing at all happens when the witness
   is not empty.  The witness is assigned BEFORE the type check: (new state, RuntimeError raised?).
   Err = raw_serialize / ControlBlock.serialize raised (state unchanged). *)
Definition init_p2tr_multisig (st : tap_in) (cb : control_block) (sc : script)
  (ms_pts : option (list point)) : result (tap_in * bool) :=
  match ti_items st with
  | [] =>
      raw <- raw_serialize sc ;; cbs <- cb_serialize cb ;;
      match ms_pts with
      | Some ps => Ok ({| ti_items := [raw; cbs]; ti_points := Some ps |}, false)
      | None => Ok ({| ti_items := [raw; cbs]; ti_points := ti_points st |}, true)
      end
  | _ => Ok (st, false)
  end.

(* one (point, non-empty signature) test of the inner loop: 64 bytes -> SIGHASH_DEFAULT, 65 bytes -> the last
   byte is the hash type, any other length raises; SchnorrSignature.parse, then sig_hash, then verify_schnorr *)
Definition fin_check (P : point) (sg : bytes) : result bool :=
  if (length sg =? 64)%nat then
    '(r, s) <- schnorr_parse C sg ;; msg <- sighash 0 ;; schnorr_verify C sha256 P msg r s
  else if (length sg =? 65)%nat then
    '(r, s) <- schnorr_parse C (removelast sg) ;; msg <- sighash (last sg 0) ;;
    schnorr_verify C sha256 P msg r s
  else Err.

(* `for sig in sigs: ... break / else: b""`: the first signature that verifies for the point, b"" when none does *)
Fixpoint fin_find (P : point) (sigs : list bytes) : result bytes :=
  match sigs with
  | [] => Ok []
  | [] :: r => fin_find P r
  | sg :: r => ok <- fin_check P sg ;; if ok then Ok sg else fin_find P r
  end.

(* `for point in tap_script.points: ... items.insert(0, slot)`.  (items, completed?): an exception in the inner
   loop leaves the slots inserted so far in the witness *)
Fixpoint fin_loop (pts : list point) (sigs : list bytes) (items : list bytes) : list bytes * bool :=
  match pts with
  | [] => (items, true)
  | P :: r =>
      match fin_find P sigs with
      | Ok s => fin_loop r sigs (s :: items)
      | Err => (items, false)
      end
  end.

(* finalize_p2tr_multisig(input_index, sigs) up to the final `return self.verify_input(input_index)`:
   Err = RuntimeError("initialize single leaf multisig first") *)
Definition finalize_p2tr_multisig (st : tap_in) (sigs : list bytes) : result (list bytes * bool) :=
  if (length (ti_items st) <? 2)%nat then Err
  else match ti_points st with
       | None => Err
       | Some pts => Ok (fin_loop pts sigs (ti_items st))
       end.

End TapMultisigTx.
