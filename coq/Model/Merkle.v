(* Model/Merkle.v — mirrors buidl/helper.py merkle_parent, merkle_parent_level,
   merkle_root, bytes_to_bit_field, bit_field_to_bytes.  Definitions only.

   merkle_parent_level MUTATES its argument (hashes.append(hashes[-1]) on odd
   levels).  The mutation is explicit here: the functions return the result AND the
   final contents of the list object that was passed in. *)
From V Require Import Base.Prelude Base.Ints.

Section Merkle.
Variable hash256 : bytes -> bytes.

(* helper.py merkle_parent *)
Definition merkle_parent (h1 h2 : bytes) : bytes := hash256 (h1 ++ h2).

(* for i in range(0, len(hashes), 2): merkle_parent(hashes[i], hashes[i+1])
   (only ever run on a list of even length) *)
Fixpoint pair_up (l : list bytes) : list bytes :=
  match l with
  | a :: b :: r => merkle_parent a b :: pair_up r
  | _ => []
  end.

(* helper.py merkle_parent_level -> (parent level, the argument list after the call) *)
Definition merkle_parent_level (hashes : list bytes) : result (list bytes * list bytes) :=
  if (length hashes =? 1)%nat then Err
  else
    let hashes' := if Nat.odd (length hashes) then hashes ++ [last hashes []] else hashes in
    Ok (pair_up hashes', hashes').

(* helper.py merkle_root: current_level initially ALIASES the argument, so the first
   iteration mutates the caller's list; later iterations mutate the temporaries.
   Returns (root, the argument list after the call).  fuel: every iteration at least
   halves a length >= 2. *)
Fixpoint merkle_root_loop (fuel : nat) (cur : list bytes) : result (bytes * list bytes) :=
  match fuel with
  | O => Err
  | S f =>
      if (1 <? length cur)%nat then
        '(parent, cur') <- merkle_parent_level cur ;;
        '(r, _) <- merkle_root_loop f parent ;;
        Ok (r, cur')
      else
        match cur with
        | x :: _ => Ok (x, cur)
        | [] => Err                       (* current_level[0] on [] : IndexError *)
        end
  end.

Definition merkle_root (hashes : list bytes) : result (bytes * list bytes) :=
  merkle_root_loop (S (length hashes)) hashes.

(* block.py Block.validate_merkle_root (tx_hashes in display order) *)
Definition validate_merkle_root (hdr_root : bytes) (tx_hashes : list bytes) : result bool :=
  '(root, _) <- merkle_root (map (@rev Z) tx_hashes) ;;
  Ok (beq (rev root) hdr_root).
End Merkle.

(* helper.py bytes_to_bit_field: 8 bits per byte, least significant first *)
Fixpoint byte_bits (k : nat) (b : Z) : list Z :=
  match k with
  | O => []
  | S k' => Z.land b 1 :: byte_bits k' (Z.shiftr b 1)
  end.
Definition bytes_to_bit_field (bs : bytes) : list Z := flat_map (byte_bits 8) bs.

(* helper.py bit_field_to_bytes: a bit is set when the entry is truthy *)
Fixpoint pack_byte (bits : list Z) (i : Z) : Z :=
  match bits with
  | [] => 0
  | b :: r => (if b =? 0 then 0 else Z.shiftl 1 i) + pack_byte r (i + 1)
  end.
Fixpoint pack_bits (fuel : nat) (bits : list Z) : bytes :=
  match fuel with
  | O => []
  | S f =>
      match bits with
      | [] => []
      | _ => pack_byte (firstn 8 bits) 0 :: pack_bits f (skipn 8 bits)
      end
  end.
Definition bit_field_to_bytes (bits : list Z) : result bytes :=
  if (Nat.modulo (length bits) 8 =? 0)%nat then Ok (pack_bits (length bits) bits) else Err.
