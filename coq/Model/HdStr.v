(* Model/HdStr.v — the STRING layer of extended keys: xprv()/xpub() = Base58Check of the 78 raw
   bytes, parse() = raw_decode_base58 followed by the 78-byte parser.  Base58Check is the model
   of C09 (Model/Base58.v); hash256 is a Section variable. *)
From V Require Import Base.Prelude Base.Ints Model.Pecc Model.Base58 Model.Hd.

Section HdStr.
Variable C : curve.
Variable hash256 : bytes -> bytes.

(* HDPrivateKey.xprv(version) *)
Definition xprv_str (k : hdpriv) (ver : option bytes) : result (list Z) :=
  raw <- xprv_raw k ver ;; encode_base58_checksum hash256 raw.
(* HDPublicKey.xpub(version) *)
Definition xpub_str (k : hdpub) (ver : option bytes) : result (list Z) :=
  raw <- xpub_raw k ver ;; encode_base58_checksum hash256 raw.
(* HDPrivateKey.parse(s) *)
Definition parse_priv_str (s : list Z) : result hdpriv :=
  raw <- raw_decode_base58 hash256 s ;; parse_priv C raw.
(* HDPublicKey.parse(s) *)
Definition parse_pub_str (s : list Z) : result hdpub :=
  raw <- raw_decode_base58 hash256 s ;; parse_pub C raw.
End HdStr.
