(* Model/PsbtB64.v — PSBT.parse_base64 / PSBT.serialize_base64 (buidl/psbt.py:543, :609): the base64
   text layer around parse / serialize.  Definitions only. *)
From V Require Import Base.Prelude Base.Ints Model.Helper Model.Script Model.Tx Model.Psbt Model.Base64.

(* PSBT.serialize_base64(): base64_encode(self.serialize()) as text (code points) *)
Definition psbt_serialize_base64 (p : psbt) : result (list Z) :=
  b <- psbt_serialize p ;; Ok (b64_encode b).

Section B64.
Variable hash160 sha256 hash256 : bytes -> bytes.
Variable sec_ok : bytes -> bool.
Variable sig_parse_ok : bytes -> bytes -> bool.
Variable ecdsa_verify : bytes -> Z -> bytes -> bool.
Variable sighash_legacy : tx -> Z -> option script -> result Z.
Variable sighash_segwit : tx -> Z -> option script -> option script -> result Z.
Variable verify_input : tx -> Z -> script -> option (list bytes) -> result bool.
Variable descends : hd_pub -> bytes -> bytes -> bool.

(* PSBT.parse_base64(b64): BytesIO(base64_decode(b64)) then parse; [is_str] tells whether the
   argument is a str (ASCII check) or a bytes-like object *)
Definition psbt_parse_base64 (is_str : bool) (s : list Z) : result (psbt * option net) :=
  b <- (if is_str then b64_decode_str s else b64_decode_bytes s) ;;
  psbt_parse hash160 sha256 hash256 sec_ok sig_parse_ok ecdsa_verify sighash_legacy sighash_segwit
             verify_input descends b.
End B64.
