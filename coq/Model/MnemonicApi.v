(* Model/MnemonicApi.v — glue of buidl/mnemonic.py, buidl/pbkdf2.py and buidl/helper.py that
   Model/Mnemonic.v and Model/Pbkdf2.v leave out:
     * PBKDF2._setup: a str passphrase is encoded as UTF-8 (from_mnemonic passes the normalised
       mnemonic as a str) — utf8_encode, hmac_sha512_kdf on a str, the seed with that step;
     * WordList.__getitem__(int) with Python's negative indices, WordList.__contains__.
   Definitions only. *)
From V Require Import Base.Prelude Base.Ints Model.Mnemonic Model.Pbkdf2.

(* str.encode("UTF-8") of one code point; lone surrogates raise UnicodeEncodeError *)
Definition utf8_char (c : Z) : result bytes :=
  if c <? 0 then Err
  else if c <? 128 then Ok [c]
  else if c <? 2048 then Ok [192 + c / 64; 128 + c mod 64]
  else if c <? 65536 then
    if (55296 <=? c) && (c <=? 57343) then Err
    else Ok [224 + c / 4096; 128 + (c / 64) mod 64; 128 + c mod 64]
  else if c <? 1114112 then
    Ok [240 + c / 262144; 128 + (c / 4096) mod 64; 128 + (c / 64) mod 64; 128 + c mod 64]
  else Err.

Fixpoint utf8_encode (s : text) : result bytes :=
  match s with
  | [] => Ok []
  | c :: r => b <- utf8_char c ;; t <- utf8_encode r ;; Ok (b ++ t)
  end.

(* WordList.__getitem__(int): self.words[key] *)
Definition wl_getitem_int (ws : list text) (i : Z) : result text :=
  let n := zlen ws in
  if (i <? - n) || (n <=? i) then Err else wl_word ws (if i <? 0 then i + n else i).

Section Api.
  Variable sha256 : bytes -> bytes.
  Variable hmac_sha512 : bytes -> bytes -> bytes.
  Variable words : list text.

  (* helper.hmac_sha512_kdf(msg : str, salt : bytes) *)
  Definition hmac_sha512_kdf_str (msg : text) (salt : bytes) : result bytes :=
    p <- utf8_encode msg ;; hmac_sha512_kdf hmac_sha512 p salt.

  (* the first four statements of hd.py from_mnemonic with the encoding step spelled out *)
  Definition mnemonic_seed_utf8 (m : text) (password : bytes) : result bytes :=
    _ <- mnemonic_to_bytes sha256 words m ;;
    norm <- mapM (wl_normalize words) (split_ws m) ;;
    hmac_sha512_kdf_str (join_sp norm) (s_mnemonic ++ password).
End Api.
