(* Model/Shamir.v — mirrors buidl/shamir.py (SLIP39): RS1024 checksum, Share
   (header bit packing, parse, mnemonic), ShareSet (GF(256) tables, interpolate, digest,
   recover_secret, split_secret, Feistel _crypt, the consistency checks of __init__,
   recover, generate_shares, recover_mnemonic).  HMAC-SHA256, SHA-256 and
   hashlib.pbkdf2_hmac("sha256", ...) are Section variables; the randomness consumed by
   split_secret / generate_shares is an explicit argument.  Definitions only. *)
From V Require Import Base.Prelude Base.Ints Model.Mnemonic.

(* ---------------------------------------------------------------- RS1024 *)

Definition RS_GEN : list Z :=
  [0xE0E040; 0x1C1C080; 0x3838100; 0x7070200; 0xE0E0009;
   0x1C0C2412; 0x38086C24; 0x3090FC48; 0x21B1F890; 0x3F3F120].

(* for i in range(10): chk ^= GEN[i] if ((b >> i) & 1) else 0 *)
Fixpoint rs_gen_fold (b i : Z) (gen : list Z) (chk : Z) : Z :=
  match gen with
  | [] => chk
  | g :: r => rs_gen_fold b (i + 1) r (if Z.testbit b i then Z.lxor chk g else chk)
  end.

Definition rs_step (chk v : Z) : Z :=
  let b := Z.shiftr chk 20 in
  rs_gen_fold b 0 RS_GEN (Z.lxor (Z.shiftl (Z.land chk 0xFFFFF) 10) v).

Definition rs1024_polymod (values : list Z) : Z := fold_left rs_step values 1.

Definition rs1024_verify_checksum (cs data : list Z) : bool :=
  rs1024_polymod (cs ++ data) =? 1.

Definition rs1024_create_checksum (cs data : list Z) : list Z :=
  let polymod := Z.lxor (rs1024_polymod ((cs ++ data) ++ [0; 0; 0])) 1 in
  [Z.land (Z.shiftr polymod 20) 1023; Z.land (Z.shiftr polymod 10) 1023;
   Z.land (Z.shiftr polymod 0) 1023].

Definition s_shamir : bytes := [115; 104; 97; 109; 105; 114].     (* b"shamir" *)

(* ---------------------------------------------------------------- Share *)

Record share := {
  sh_bits : Z;      (* share_bit_length *)
  sh_id : Z;
  sh_exp : Z;
  sh_gi : Z;        (* group_index *)
  sh_gt : Z;        (* group_threshold *)
  sh_gc : Z;        (* group_count *)
  sh_mi : Z;        (* member_index *)
  sh_mt : Z;        (* member_threshold *)
  sh_value : Z;
  sh_bytes : bytes
}.

(* Share.__init__ (id and exponent are not range-checked by the code) *)
Definition mk_share (bits id e gi gt gc mi mt value : Z) : result share :=
  if (gi <? 0) || (gi >? 15) then Err else
  if (gt <? 1) || (gt >? gc) then Err else
  if (gc <? 1) || (gc >? 16) then Err else
  if (mi <? 0) || (mi >? 15) then Err else
  if (mt <? 1) || (mt >? 16) then Err else
  if bits / 8 <? 0 then Err else                       (* negative length: ValueError *)
  b <- int_to_be value (Z.to_nat (bits / 8)) ;;
  Ok {| sh_bits := bits; sh_id := id; sh_exp := e; sh_gi := gi; sh_gt := gt; sh_gc := gc;
        sh_mi := mi; sh_mt := mt; sh_value := value; sh_bytes := b |}.

Definition nth_idx (l : list Z) (i : nat) : result Z :=
  match nth_error l i with Some x => Ok x | None => Err end.

(* indices -> share (Share.parse after the dict lookups) *)
Definition share_of_indices (indices : list Z) : result share :=
  if negb (rs1024_verify_checksum s_shamir indices) then Err else
  i0 <- nth_idx indices 0 ;; i1 <- nth_idx indices 1 ;;
  i2 <- nth_idx indices 2 ;; i3 <- nth_idx indices 3 ;;
  let id := Z.lor (Z.shiftl i0 5) (Z.shiftr i1 5) in
  let e := Z.land i1 31 in
  let gi := Z.shiftr i2 6 in
  let gt := Z.land (Z.shiftr i2 2) 15 + 1 in
  let gc := Z.lor (Z.shiftl (Z.land i2 3) 2) (Z.shiftr i3 8) + 1 in
  let mi := Z.land (Z.shiftr i3 4) 15 in
  let mt := Z.land i3 15 + 1 in
  (* indices[4:-3] *)
  let body := firstn (length indices - 7) (skipn 4 indices) in
  let value := fold_left (fun v i => Z.lor (Z.shiftl v 10) i) body 0 in
  let bits := (zlen indices - 7) * 10 / 16 * 16 in
  if bits <? 0 then Err else                          (* value >> negative: ValueError *)
  if negb (Z.shiftr value bits =? 0) then Err else    (* "Share not 0-padded properly" *)
  if (zlen indices - 7) * 10 - bits >? 8 then Err else (* "Invalid padding length" (ec24589) *)
  if bits <? 128 then Err else
  mk_share bits id e gi gt gc mi mt value.

(* share -> indices (Share.mnemonic before the word lookups) *)
Definition share_indices (s : share) : list Z :=
  let a := Z.lor (Z.shiftl (sh_id s) 5) (sh_exp s) in
  let a := Z.lor (Z.shiftl a 4) (sh_gi s) in
  let a := Z.lor (Z.shiftl a 4) (sh_gt s - 1) in
  let a := Z.lor (Z.shiftl a 4) (sh_gc s - 1) in
  let a := Z.lor (Z.shiftl a 4) (sh_mi s) in
  let a := Z.lor (Z.shiftl a 4) (sh_mt s - 1) in
  let padding := (- sh_bits s) mod 10 in                 (* -share_bit_length % 10 (ddaa02c) *)
  let a := Z.lor (Z.shiftl a (padding + sh_bits s)) (sh_value s) in
  let num_words := 4 + (padding + sh_bits s) / 10 in
  let indices := map (fun i => Z.land (Z.shiftr a (10 * (num_words - i - 1))) 1023)
                     (map Z.of_nat (seq 0 (Z.to_nat num_words))) in
  indices ++ rs1024_create_checksum s_shamir indices.

(* ---------------------------------------------------------------- GF(256) tables *)

Fixpoint upd (l : list Z) (i : nat) (v : Z) : list Z :=
  match l, i with
  | [], _ => []
  | _ :: r, O => v :: r
  | x :: r, S k => x :: upd r k v
  end.

(* ShareSet._load: for i in range(255): exp[i] = cur; log2[cur] = i; cur = (cur<<1)^cur; ... *)
Fixpoint load_loop (n : nat) (i cur : Z) (exp log : list Z) : list Z * list Z :=
  match n with
  | O => (exp, log)
  | S k =>
      let exp' := upd exp (Z.to_nat i) cur in
      let log' := upd log (Z.to_nat cur) i in
      let c1 := Z.lxor (Z.shiftl cur 1) cur in
      let c2 := if c1 >? 255 then Z.lxor c1 283 else c1 in       (* 0x11B *)
      load_loop k (i + 1) c2 exp' log'
  end.

Definition gf_tables : list Z * list Z := load_loop 255 0 1 (repeatz 0 255) (repeatz 0 256).
Definition exp_tbl : list Z := fst gf_tables.
Definition log_tbl : list Z := snd gf_tables.
Definition gexp (a : Z) : Z := nth (Z.to_nat a) exp_tbl 0.
Definition glog (a : Z) : Z := nth (Z.to_nat a) log_tbl 0.

Definition zsum (l : list Z) : Z := fold_left Z.add l 0.

Fixpoint zip_with {A B C} (f : A -> B -> C) (a : list A) (b : list B) : list C :=
  match a, b with
  | x :: a', y :: b' => f x y :: zip_with f a' b'
  | _, _ => []
  end.

Definition in_byte (z : Z) : bool := (0 <=? z) && (z <? 256).

(* one pass of the loop body of interpolate: the Lagrange coefficient (as a logarithm)
   for the share at sx and the update of result *)
Definition interp_log (x : Z) (sd : list (Z * bytes)) (sx : Z) : Z :=
  let log_product := zsum (map (fun p => glog (Z.lxor (fst p) x)) sd) in
  let log_numerator := log_product - glog (Z.lxor sx x) in
  let log_denominator := zsum (map (fun p => glog (Z.lxor sx (fst p))) sd) in
  (log_numerator - log_denominator) mod 255.

Definition interp_term (lg : Z) (y c : Z) : Z :=
  Z.lxor c (if y >? 0 then gexp ((glog y + lg) mod 255) else 0).

Definition interp_core (x : Z) (sd : list (Z * bytes)) : bytes :=
  let len0 := match sd with [] => O | p :: _ => length (snd p) end in
  fold_left (fun result p => zip_with (interp_term (interp_log x sd (fst p))) (snd p) result)
            sd (repeatz 0 len0).

(* interpolate(x, share_data): IndexError on an empty list or when an index x_i ^ x,
   x_i ^ x_j falls outside the 256-entry log table (negative values, which Python would
   wrap, never occur: indices are >= 0 by Share.__init__ and x is 254, 255 or a share index) *)
Definition interpolate (x : Z) (sd : list (Z * bytes)) : result bytes :=
  match sd with
  | [] => Err
  | _ =>
      if forallb (fun p => in_byte (Z.lxor (fst p) x) &&
                           forallb (fun q => in_byte (Z.lxor (fst p) (fst q))) sd) sd
      then Ok (interp_core x sd) else Err
  end.

Fixpoint zrange (a : Z) (n : nat) : list Z :=
  match n with O => [] | S k => a :: zrange (a + 1) k end.

(* take n bytes of the random stream (Err = the harness supplied too few) *)
Definition take_rnd (n : Z) (rnd : bytes) : result (bytes * bytes) :=
  if (n <? 0) || (zlen rnd <? n) then Err
  else Ok (firstn (Z.to_nat n) rnd, skipn (Z.to_nat n) rnd).

Fixpoint take_shares (cnt : nat) (i : Z) (nb : Z) (rnd : bytes) : result (list (Z * bytes) * bytes) :=
  match cnt with
  | O => Ok ([], rnd)
  | S k => '(b, rnd') <- take_rnd nb rnd ;;
           '(t, rnd'') <- take_shares k (i + 1) nb rnd' ;;
           Ok ((i, b) :: t, rnd'')
  end.

Definition all_same (l : list Z) : bool :=
  match l with [] => true | a :: r => forallb (Z.eqb a) r end.

Fixpoint nodup_pairs (l : list (Z * Z)) : bool :=
  match l with
  | [] => true
  | p :: r => negb (existsb (fun q => (fst p =? fst q) && (snd p =? snd q)) r) && nodup_pairs r
  end.

Record shareset := {
  ss_shares : list share; ss_id : Z; ss_salt : bytes; ss_exp : Z; ss_gt : Z; ss_gc : Z; ss_bits : Z
}.

(* ShareSet.__init__ *)
Definition shareset_init (shares : list share) : result shareset :=
  if (1 <? zlen shares) &&
     negb (all_same (map sh_id shares) && all_same (map sh_exp shares) &&
           all_same (map sh_gt shares) && all_same (map sh_gc shares) &&
           (match shares with s :: _ => sh_gt s <=? sh_gc s | [] => true end) &&
           all_same (map sh_bits shares) &&
           nodup_pairs (map (fun s => (sh_gi s, sh_mi s)) shares))
  then Err else
  match shares with
  | [] => Err                                           (* shares[0]: IndexError *)
  | s :: _ =>
      idb <- int_to_be (sh_id s) 2 ;;
      Ok {| ss_shares := shares; ss_id := sh_id s; ss_salt := s_shamir ++ idb;
            ss_exp := sh_exp s; ss_gt := sh_gt s; ss_gc := sh_gc s; ss_bits := sh_bits s |}
  end.

Section Shamir.
  Variable sha256 : bytes -> bytes.
  Variable hmac_sha256 : bytes -> bytes -> bytes.
  (* hashlib.pbkdf2_hmac("sha256", password, salt, iterations, dklen); Err = it raises *)
  Variable kdf : bytes -> bytes -> Z -> Z -> result bytes.
  Variable bip39 slip39 : list text.

  (* Share.parse *)
  Definition share_parse (m : text) : result share :=
    indices <- mapM (wl_index slip39) (split_ws m) ;;
    share_of_indices indices.

  (* Share.mnemonic *)
  Definition share_mnemonic (s : share) : result text :=
    ws <- mapM (wl_word slip39) (share_indices s) ;;
    Ok (join_sp ws).

  Definition digest (random shared_secret : bytes) : bytes :=
    firstn 4 (hmac_sha256 random shared_secret).

  Definition recover_secret (sd : list (Z * bytes)) : result bytes :=
    shared_secret <- interpolate 255 sd ;;
    digest_share <- interpolate 254 sd ;;
    let dg := firstn 4 digest_share in
    let random := skipn 4 digest_share in
    if beq dg (digest random shared_secret) then Ok shared_secret else Err.

  (* the Feistel loop; indices are the round bytes *)
  Fixpoint crypt_rounds (idxs : list Z) (passphrase salt : bytes) (iters half : Z)
           (left right : bytes) : result (bytes * bytes) :=
    match idxs with
    | [] => Ok (left, right)
    | i :: r =>
        f <- kdf (i :: passphrase) (salt ++ right) iters half ;;
        crypt_rounds r passphrase salt iters half right (zip_with Z.lxor left f)
    end.

  Definition crypt (payload : bytes) (id e : Z) (passphrase : bytes) (idxs : list Z) : result bytes :=
    if Z.odd (zlen payload) then Err else
    let half := Z.to_nat (zlen payload / 2) in
    let left := firstn half payload in
    let right := skipn half payload in
    idb <- int_to_be id 2 ;;
    (* 2500 << negative: ValueError, evaluated inside the loop: not with an empty round list *)
    if (e <? 0) && (match idxs with [] => false | _ => true end) then Err else
    '(l, r) <- crypt_rounds idxs passphrase (s_shamir ++ idb) (Z.shiftl 2500 e)
                            (zlen payload / 2) left right ;;
    Ok (r ++ l).

  Definition encrypt (payload : bytes) (id e : Z) (passphrase : bytes) : result bytes :=
    crypt payload id e passphrase [0; 1; 2; 3].
  Definition decrypt (ss : shareset) (secret passphrase : bytes) : result bytes :=
    crypt secret (ss_id ss) (ss_exp ss) passphrase [3; 2; 1; 0].

  (* ShareSet.recover *)
  Fixpoint collect_groups (shares : list share) (idxs : list Z) : result (list (Z * bytes)) :=
    match idxs with
    | [] => Ok []
    | i :: r =>
        let group := filter (fun s => sh_gi s =? i) shares in
        match group with
        | [] => collect_groups shares r
        | g0 :: _ =>
            if negb (all_same (map sh_mt group)) then Err else
            let mt := sh_mt g0 in
            if mt =? 1 then
              rest <- collect_groups shares r ;; Ok ((i, sh_bytes g0) :: rest)
            else if mt >? zlen group then Err
            else
              sec <- recover_secret (map (fun s => (sh_mi s, sh_bytes s)) group) ;;
              rest <- collect_groups shares r ;; Ok ((i, sec) :: rest)
        end
    end.

  Definition recover (ss : shareset) (passphrase : bytes) : result bytes :=
    (* groups[share.group_index]: IndexError when group_index >= group_count *)
    if existsb (fun s => ss_gc ss <=? sh_gi s) (ss_shares ss) then Err else
    sd <- collect_groups (ss_shares ss) (zrange 0 (Z.to_nat (ss_gc ss))) ;;
    if ss_gt ss =? 1 then
      match sd with [] => Err | p :: _ => decrypt ss (snd p) passphrase end
    else if ss_gt ss >? zlen sd then Err
    else sec <- recover_secret sd ;; decrypt ss sec passphrase.

  (* ShareSet.split_secret; rnd = the successive randbits(8) results *)
  Definition split_secret (secret : bytes) (k n : Z) (rnd : bytes) : result (list (Z * bytes)) :=
    if n <? 1 then Err else if n >? 16 then Err else
    if k <? 1 then Err else if k >? n then Err else
    let nb := zlen secret in
    if negb ((nb =? 16) || (nb =? 32)) then Err else
    if k =? 1 then Ok (map (fun i => (i, secret)) (zrange 0 (Z.to_nat n)))
    else
      '(random, rnd1) <- take_rnd (nb - 4) rnd ;;
      let digest_share := digest random secret ++ random in
      '(share_data, _) <- take_shares (Z.to_nat (k - 2)) 0 nb rnd1 ;;
      let base := share_data ++ [(254, digest_share); (255, secret)] in
      more <- mapM (fun i => y <- interpolate i base ;; Ok (i, y))
                   (zrange (k - 2) (Z.to_nat (n - (k - 2)))) ;;
      Ok (share_data ++ more).

  (* ShareSet.generate_shares; id = randbits(15), rnd = the later randbits(8) results *)
  Definition generate_shares (mnemonic : text) (k n : Z) (passphrase : bytes) (e : Z)
             (id : Z) (rnd : bytes) : result (list text) :=
    secret <- mnemonic_to_bytes sha256 bip39 mnemonic ;;
    let num_bits := zlen secret * 8 in
    if negb ((num_bits =? 128) || (num_bits =? 256)) then Err else
    encrypted <- encrypt secret id e passphrase ;;
    data <- split_secret encrypted k n rnd ;;
    mapM (fun p => s <- mk_share num_bits id e (fst p) k n 0 1 (from_be (snd p)) ;;
                   share_mnemonic s) data.

  (* ShareSet.recover_mnemonic *)
  Definition recover_mnemonic (ms : list text) (passphrase : bytes) : result text :=
    shares <- mapM share_parse ms ;;
    ss <- shareset_init shares ;;
    secret <- recover ss passphrase ;;
    bytes_to_mnemonic sha256 bip39 secret (ss_bits ss).
End Shamir.
