(* Model/Descriptor.v — mirrors buidl/descriptor.py (as it is now):
     calc_poly_mod, calc_core_checksum, is_valid_xfp_hex,
     P2WSHSortedMulti.__init__ (validation loop, key-record sorting, text generation,
       checksum comparison), the validation part of parse_full_key_record /
       parse_partial_key_record / P2WSHSortedMulti.parse *after* the regular
       expressions have cut the text into fields, and get_address.
   Definitions only.

   As of /repo 03838d6 the constructor also rejects m > n and account indexes outside
   [0, 2^31), stores the fingerprint in lower case and the path as "m" + path.strip()[1:].

   Text is a [list Z] of code points.  The constants (both charsets, the constants
   of calc_poly_mod) come from Generated/DescConsts.v, which harness/gen_coq_c16.py
   regenerates from the source of descriptor.py on every check run.

   What lives in other modules of the library is a Section variable here (the
   dispatcher instantiates it with values computed by the implementation's own
   code, the theorems hold for every instantiation):
     path_ok   — hd.is_valid_bip32_path on a text;
     hdparse   — HDPublicKey.parse(xpub) followed by re-encoding without the SLIP-132
                 version (`xpub_to_use`), together with the network (0 mainnet,
                 1 testnet); Err when parse raises ValueError;
     child_ok  — HDPublicKey.parse(xpub).child(i).xpub() does not raise
                 (parse_full_key_record computes xpub_child);
     derive    — HDPublicKey.parse(xpub).child(a).child(i).sec();
     sha256, p2wsh_address (P2WSHScriptPubKey(h).address(network)).
   The regular expressions themselves (re.match with greedy `.*`) are NOT modelled:
   they are tied to [parse_struct] by the correspondence check only. *)
From Coq Require Import String.
From V Require Import Base.Prelude Base.Disp Generated.DescConsts.
Open Scope Z_scope.

(* ------------------------------------------------------------------ checksum *)

(* str.find(ch) for a one-character needle: first index or -1 *)
Fixpoint find_from (i : Z) (l : list Z) (ch : Z) : Z :=
  match l with
  | [] => -1
  | x :: r => if x =? ch then i else find_from (i + 1) r ch
  end.
Definition str_find (l : list Z) (ch : Z) : Z := find_from 0 l ch.

(* calc_poly_mod *)
Definition poly_mod (c v : Z) : Z :=
  let c0 := Z.shiftr c desc_top_shift in
  let c1 := Z.lxor (Z.shiftl (Z.land c desc_low_mask) desc_shl) v in
  fold_left (fun acc bg => if Z.land c0 (fst bg) =? 0 then acc else Z.lxor acc (snd bg))
            desc_gen c1.

(* one iteration of the `for ch in output_descriptor` loop, state (c, cls, clscount) *)
Definition feed (st : Z * Z * Z) (pos : Z) : Z * Z * Z :=
  let '(c, cls, cnt) := st in
  let c := poly_mod c (Z.land pos 31) in
  let cls := cls * 3 + Z.shiftr pos 5 in
  let cnt := cnt + 1 in
  if cnt =? 3 then (poly_mod c cls, 0, 0) else (c, cls, cnt).

Fixpoint cc_loop (st : Z * Z * Z) (text : list Z) : result (Z * Z * Z) :=
  match text with
  | [] => Ok st
  | ch :: r =>
      let pos := str_find desc_input_charset ch in
      if pos =? -1 then Err else cc_loop (feed st pos) r
  end.

(* the 40-bit value `c` after `c ^= 1` *)
Definition checksum_value (text : list Z) : result Z :=
  '(c, cls, cnt) <- cc_loop (1, 0, 0) text ;;
  let c := if cnt >? 0 then poly_mod c cls else c in
  let c := Nat.iter 8 (fun c => poly_mod c 0) c in
  Ok (Z.lxor c 1).

Definition checksum_chars (c : Z) : list Z :=
  map (fun j => nth (Z.to_nat (Z.land (Z.shiftr c (5 * (7 - j))) 31)) desc_checksum_charset 0)
      [0; 1; 2; 3; 4; 5; 6; 7].

(* calc_core_checksum *)
Definition desc_checksum (text : list Z) : result (list Z) :=
  c <- checksum_value text ;; Ok (checksum_chars c).

(* ------------------------------------------------------------------ small text helpers *)

(* f"{n}" for an int *)
Fixpoint uint_digits (d : Decimal.uint) : list Z :=
  match d with
  | Decimal.Nil => []
  | Decimal.D0 r => 48 :: uint_digits r
  | Decimal.D1 r => 49 :: uint_digits r
  | Decimal.D2 r => 50 :: uint_digits r
  | Decimal.D3 r => 51 :: uint_digits r
  | Decimal.D4 r => 52 :: uint_digits r
  | Decimal.D5 r => 53 :: uint_digits r
  | Decimal.D6 r => 54 :: uint_digits r
  | Decimal.D7 r => 55 :: uint_digits r
  | Decimal.D8 r => 56 :: uint_digits r
  | Decimal.D9 r => 57 :: uint_digits r
  end.
Definition dec (z : Z) : list Z :=
  match Z.to_int z with
  | Decimal.Pos d => uint_digits d
  | Decimal.Neg d => 45 :: uint_digits d
  end.

(* comparison of str / bytes / hex text: lexicographic on the elements, a proper prefix is smaller *)
Fixpoint lex_leb (a b : list Z) : bool :=
  match a, b with
  | [], _ => true
  | _ :: _, [] => false
  | x :: a', y :: b' => if x <? y then true else if y <? x then false else lex_leb a' b'
  end.

(* sorted(l, key=...) — stable; insertion sort from the right is stable *)
Section Sort.
Context {A : Type}.
Variable key : A -> list Z.
Fixpoint insert_by (x : A) (l : list A) : list A :=
  match l with
  | [] => [x]
  | y :: r => if lex_leb (key x) (key y) then x :: l else y :: insert_by x r
  end.
Fixpoint sort_by (l : list A) : list A :=
  match l with
  | [] => []
  | x :: r => insert_by x (sort_by r)
  end.
End Sort.

(* str.lower() and str.strip() on ASCII text: A-Z -> a-z; strip removes 9..13 and 28..32 *)
Definition lower_c (c : Z) : Z := if (65 <=? c) && (c <=? 90) then c + 32 else c.
Definition lower (s : list Z) : list Z := map lower_c s.
Definition is_ws (c : Z) : bool := ((9 <=? c) && (c <=? 13)) || ((28 <=? c) && (c <=? 32)).
Fixpoint lstrip (s : list Z) : list Z :=
  match s with
  | c :: r => if is_ws c then lstrip r else s
  | [] => []
  end.
Definition strip (s : list Z) : list Z := rev (lstrip (rev (lstrip s))).

(* is_valid_xfp_hex: len(s) == 8 and re.match("^[0-9a-f]*$", s.lower()).
   `$` also matches just before a trailing "\n" (Python re), which is mirrored.
   str.lower() maps exactly A-F onto a-f among the characters that end up in [0-9a-f]. *)
Definition hex_lower_char (c : Z) : bool := ((48 <=? c) && (c <=? 57)) || ((97 <=? c) && (c <=? 102)).
Definition hex_any_char (c : Z) : bool := hex_lower_char c || ((65 <=? c) && (c <=? 70)).
Definition xfp_ok (s : list Z) : bool :=
  (length s =? 8)%nat &&
  (forallb hex_any_char s ||
   (match rev s with 10 :: r => forallb hex_any_char r | _ => false end)).
(* the group ([0-9a-f]{8}) of the key-record regex *)
Definition xfp_re_ok (s : list Z) : bool := (length s =? 8)%nat && forallb hex_lower_char s.

(* ------------------------------------------------------------------ key records and the descriptor *)

Record keyrec := { kr_xfp : list Z; kr_path : list Z; kr_xpub : list Z; kr_idx : Z }.

Record desc := {
  d_m : Z;                 (* quorum_m *)
  d_recs : list keyrec;    (* key_records (xpub_parent is the re-encoded xpub) *)
  d_text : list Z;         (* descriptor_text *)
  d_checksum : list Z;     (* checksum *)
  d_net : Z                (* network: 0 mainnet, 1 testnet *)
}.

(* ",[{xfp}{path[1:]}]{xpub_parent}/{account_index}/*" *)
Definition render_rec (kr : keyrec) : list Z :=
  s2z ",[" ++ kr_xfp kr ++ tl (kr_path kr) ++ s2z "]" ++ kr_xpub kr ++ s2z "/" ++ dec (kr_idx kr)
  ++ s2z "/*".

Definition render_text (m : Z) (recs : list keyrec) : list Z :=
  s2z "wsh(sortedmulti(" ++ dec m ++ concat (map render_rec recs) ++ s2z "))".

(* __repr__ *)
Definition desc_repr (d : desc) : list Z := d_text d ++ s2z "#" ++ d_checksum d.

Section Desc.
Variable path_ok : list Z -> bool.
Variable hdparse : list Z -> result (list Z * Z).
Variable child_ok : list Z -> Z -> bool.

(* the account index the constructor accepts: an int in [0, 2^31) *)
Definition idx_ok (i : Z) : bool := (0 <=? i) && (i <? 2147483648).

(* the `for key_record in key_records` loop of __init__; [net] is the network of the
   records seen so far (None before the first).  The saved record has the path rewritten to
   "m" + path.strip()[1:] and the fingerprint in lower case. *)
Fixpoint check_recs (net : option Z) (l : list keyrec) : result (list keyrec * option Z) :=
  match l with
  | [] => Ok ([], net)
  | kr :: r =>
      if negb (path_ok (kr_path kr)) then Err else
      if negb (xfp_ok (kr_xfp kr)) then Err else
      if negb (idx_ok (kr_idx kr)) then Err else
      '(xp, n) <- hdparse (kr_xpub kr) ;;
      let same := match net with None => true | Some n0 => n0 =? n end in
      if negb same then Err else
      '(rs, nf) <- check_recs (Some (match net with None => n | Some n0 => n0 end)) r ;;
      Ok ({| kr_xfp := lower (kr_xfp kr); kr_path := 109 :: tl (strip (kr_path kr)); kr_xpub := xp;
             kr_idx := kr_idx kr |} :: rs, nf)
  end.

(* P2WSHSortedMulti.__init__(quorum_m, key_records, checksum, sort_key_records) *)
Definition construct (m : Z) (recs : list keyrec) (checksum : list Z) (sort_flag : bool)
  : result desc :=
  if m <? 1 then Err else
  match recs with [] => Err | _ =>
    if m >? zlen recs then Err else
    '(rs, net) <- check_recs None recs ;;
    let rs := if sort_flag then sort_by kr_xpub rs else rs in
    let text := render_text m rs in
    cs <- desc_checksum text ;;
    match checksum with
    | [] => Ok {| d_m := m; d_recs := rs; d_text := text; d_checksum := cs;
                  d_net := match net with Some n => n | None => 0 end |}
    | _ => if beq cs checksum
           then Ok {| d_m := m; d_recs := rs; d_text := text; d_checksum := cs;
                      d_net := match net with Some n => n | None => 0 end |}
           else Err
    end
  end.

(* parse_full_key_record after the split / regex produced (xfp, path tail, xpub, index):
   path = "m" + tail must be a valid path, the xpub must parse, the child must exist. *)
Definition parse_rec (f : keyrec) : result keyrec :=
  if negb (xfp_re_ok (kr_xfp f)) then Err else
  let path := 109 :: kr_path f in
  if negb (path_ok path) then Err else
  _ <- hdparse (kr_xpub f) ;;
  if negb (child_ok (kr_xpub f) (kr_idx f)) then Err else
  Ok {| kr_xfp := kr_xfp f; kr_path := path; kr_xpub := kr_xpub f; kr_idx := kr_idx f |}.

Fixpoint parse_recs (l : list keyrec) : result (list keyrec) :=
  match l with
  | [] => Ok []
  | f :: r => a <- parse_rec f ;; b <- parse_recs r ;; Ok (a :: b)
  end.

(* P2WSHSortedMulti.parse once the regular expression has produced quorum_m,
   the key-record fields ([kr_path] holds the text between the fingerprint and "]")
   and the optional checksum ([] = no "#" in the record) *)
Definition parse_struct (m : Z) (fields : list keyrec) (checksum : list Z) : result desc :=
  recs <- parse_recs fields ;;
  if m >? zlen recs then Err else construct m recs checksum false.

(* the fields the regular expressions cut out of repr(d) *)
Definition fields_of (d : desc) : list keyrec :=
  map (fun kr => {| kr_xfp := kr_xfp kr; kr_path := tl (kr_path kr); kr_xpub := kr_xpub kr;
                    kr_idx := kr_idx kr |}) (d_recs d).

(* ------------------------------------------------------------------ get_address *)
Variable derive : list Z -> Z -> Z -> result bytes.
Variable sha256 : bytes -> bytes.
Variable p2wsh_address : bytes -> Z -> list Z.

(* Script.raw_serialize on the command list get_address builds (ints are op codes, bytes
   are pushed elements).  Same definition as Model/Script.v [ser_cmds] (C04); repeated here
   so that this file depends on Base/ only. *)
Inductive cmd : Type :=
| Op (o : Z)
| Push (b : bytes).

Definition ser_cmd (c : cmd) : result bytes :=
  match c with
  | Op o => if (o <? 0) || (255 <? o) then Err else Ok [o]
  | Push b =>
      let l := zlen b in
      if l <=? 75 then Ok (l :: b)
      else if l <? 256 then Ok (76 :: l :: b)
      else if l <=? 520 then Ok (77 :: l mod 256 :: l / 256 :: b)
      else Err
  end.
Fixpoint ser_cmds (cs : list cmd) : result bytes :=
  match cs with
  | [] => Ok []
  | c :: r => a <- ser_cmd c ;; b <- ser_cmds r ;; Ok (a ++ b)
  end.

(* op.number_to_op_code *)
Definition number_to_op_code (n : Z) : result Z :=
  if (n <? -1) || (16 <? n) then Err else if n =? 0 then Ok 0 else Ok (n + 80).

Fixpoint child_keys (recs : list keyrec) (is_change : bool) (offset : Z) : result (list bytes) :=
  match recs with
  | [] => Ok []
  | kr :: r =>
      let account := if is_change then kr_idx kr + 1 else kr_idx kr in
      k <- derive (kr_xpub kr) account offset ;;
      ks <- child_keys r is_change offset ;;
      Ok (k :: ks)
  end.

Definition multisig_cmds (m : Z) (keys : list bytes) (n : Z) : result (list cmd) :=
  om <- number_to_op_code m ;;
  on <- number_to_op_code n ;;
  Ok (Op om :: map Push keys ++ [Op on; Op 174]).

(* the witness script bytes of get_address (WitnessScript(commands).raw_serialize()) *)
Definition witness_script (d : desc) (offset : Z) (is_change sort_keys : bool) : result bytes :=
  if offset <? 0 then Err else
  keys <- child_keys (d_recs d) is_change offset ;;
  let keys := if sort_keys then sort_by (fun k => k) keys else keys in
  cmds <- multisig_cmds (d_m d) keys (zlen (d_recs d)) ;;
  ser_cmds cmds.

Definition get_address (d : desc) (offset : Z) (is_change sort_keys : bool) : result (list Z) :=
  ws <- witness_script d offset is_change sort_keys ;;
  Ok (p2wsh_address (sha256 ws) (d_net d)).

End Desc.
