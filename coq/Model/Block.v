(* Model/Block.v — mirrors buidl/block.py header codec.  Definitions only. *)
From V Require Import Base.Prelude Base.Ints Model.Helper.

Record header := {
  h_version : Z; h_prev : bytes; h_root : bytes; h_time : Z; h_bits : bytes; h_nonce : bytes }.

(* Block.parse_header: every read is a silent short read *)
Definition parse_header (s : bytes) : header * bytes :=
  let '(v, s1) := read 4 s in
  let '(p, s2) := read 32 s1 in
  let '(m, s3) := read 32 s2 in
  let '(t, s4) := read 4 s3 in
  let '(b, s5) := read 4 s4 in
  let '(n, s6) := read 4 s5 in
  ({| h_version := from_le v; h_prev := rev p; h_root := rev m;
      h_time := from_le t; h_bits := b; h_nonce := n |}, s6).

(* Block.serialize: int_to_little_endian raises outside [0, 2^32) *)
Definition serialize_header (h : header) : result bytes :=
  v <- int_to_le (h_version h) 4 ;;
  t <- int_to_le (h_time h) 4 ;;
  Ok (v ++ rev (h_prev h) ++ rev (h_root h) ++ t ++ h_bits h ++ h_nonce h).

Definition header_wf (h : header) : Prop :=
  0 <= h_version h < 4294967296 /\ 0 <= h_time h < 4294967296 /\
  length (h_prev h) = 32%nat /\ length (h_root h) = 32%nat /\
  length (h_bits h) = 4%nat /\ length (h_nonce h) = 4%nat /\
  bytes_ok (h_prev h) /\ bytes_ok (h_root h) /\ bytes_ok (h_bits h) /\ bytes_ok (h_nonce h).
