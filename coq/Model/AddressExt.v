(* Model/AddressExt.v — the other entry points of buidl/script.py that produce or consume an
   address (C09):
     RedeemScript.address, WitnessScript.address, WitnessScript.p2sh_address,
     SegwitPubKey.p2sh_address (hash the serialised script, then P2SH / P2WSH address),
     ScriptPubKey.parse(stream).address(network): the class chosen by the pattern predicates
       decides which address() runs; an unrecognised script stays a plain ScriptPubKey, which has
       no address() (AttributeError),
     address_to_script_pubkey(a).serialize().
   Networks: 0 mainnet, 1 testnet, 2 signet, 3 regtest.  Definitions only. *)
From V Require Import Base.Prelude Base.Ints Model.Helper Model.Script Model.Base58 Model.Bech32
  Model.Address.

Section WithHash.
Variable hash256 : bytes -> bytes.
Variable hash160 : bytes -> bytes.
Variable sha256 : bytes -> bytes.

(* RedeemScript(cs).address(network) = P2SHScriptPubKey(hash160(raw_serialize())).address(network) *)
Definition redeem_script_address (cs : list cmd) (net : Z) : result (list Z) :=
  raw <- raw_serialize (mk_script cs) ;; p2sh_address hash256 (hash160 raw) net.

(* WitnessScript(cs).address(network): bech32 of P2WSHScriptPubKey(sha256(raw_serialize())) *)
Definition witness_script_address (cs : list cmd) (net : Z) : result (list Z) :=
  raw <- raw_serialize (mk_script cs) ;; segwit_address (p2wsh_script (sha256 raw)) net.

(* WitnessScript(cs).p2sh_address(network): the P2WSH scriptPubKey used as a RedeemScript *)
Definition witness_script_p2sh_address (cs : list cmd) (net : Z) : result (list Z) :=
  raw <- raw_serialize (mk_script cs) ;; redeem_script_address (p2wsh_script (sha256 raw)) net.

(* SegwitPubKey.p2sh_address(network) = RedeemScript(self.commands).address(network) *)
Definition segwit_p2sh_address (cs : list cmd) (net : Z) : result (list Z) :=
  redeem_script_address cs net.

(* <typed ScriptPubKey>.address(network) for the object ScriptPubKey.parse builds from the
   command list cs *)
Definition spk_address (cs : list cmd) (net : Z) : result (list Z) :=
  if is_p2pkh cs then
    match cs with [_; _; Push h; _; _] => p2pkh_address hash256 h net | _ => Err end
  else if is_p2sh cs then
    match cs with [_; Push h; _] => p2sh_address hash256 h net | _ => Err end
  else if is_p2wpkh cs || is_p2wsh cs || is_p2tr cs then segwit_address cs net
  else Err.                                        (* plain ScriptPubKey: no address() *)

(* ScriptPubKey.parse(BytesIO(s)).address(network) *)
Definition spk_bytes_address (s : bytes) (net : Z) : result (list Z) :=
  '(sc, _) <- parse_script_pubkey s ;; spk_address (s_cmds sc) net.

(* address_to_script_pubkey(a).serialize() *)
Definition address_to_spk_bytes (a : list Z) : result bytes :=
  cs <- address_to_script_pubkey hash256 a ;; serialize_script (mk_script cs).

End WithHash.
