(* Model/Mnemonic.v — mirrors buidl/mnemonic.py: WordList (dict lookup incl. the
   four-letter prefixes, normalize), bytes_to_mnemonic, mnemonic_to_bytes,
   secure_mnemonic.  Text is a list of code points.  Definitions only. *)
From V Require Import Base.Prelude Base.Ints.

Notation text := (list Z) (only parsing).

(* ---------------------------------------------------------------- str.split() / " ".join *)

(* exactly the code points c with chr(c).isspace() in CPython 3 *)
Definition is_space (c : Z) : bool :=
  ((9 <=? c) && (c <=? 13)) || ((28 <=? c) && (c <=? 32)) || (c =? 133) || (c =? 160) ||
  (c =? 5760) || ((8192 <=? c) && (c <=? 8202)) || (c =? 8232) || (c =? 8233) ||
  (c =? 8239) || (c =? 8287) || (c =? 12288).

(* cur: current word, reversed *)
Fixpoint split_aux (cur : text) (s : text) : list text :=
  match s with
  | [] => match cur with [] => [] | _ => [rev cur] end
  | c :: r =>
      if is_space c then
        match cur with [] => split_aux [] r | _ => rev cur :: split_aux [] r end
      else split_aux (c :: cur) r
  end.

Definition split_ws (s : text) : list text := split_aux [] s.

Fixpoint join_sp (ws : list text) : text :=
  match ws with
  | [] => []
  | [w] => w
  | w :: r => w ++ 32 :: join_sp r
  end.

(* ---------------------------------------------------------------- WordList *)

(* does the word at some position put `key` into the lookup dict?  (the word itself,
   and its first four characters when it is longer than four) *)
Definition key_hit (w key : text) : bool :=
  beq w key || ((4 <? zlen w) && beq (firstn 4 w) key).

(* the dict is filled in list order, later entries overwrite earlier ones *)
Fixpoint lookup_from (ws : list text) (i : Z) (key : text) (acc : option Z) : option Z :=
  match ws with
  | [] => acc
  | w :: r => lookup_from r (i + 1) key (if key_hit w key then Some i else acc)
  end.

(* WordList[str]: KeyError -> Err *)
Definition wl_index (ws : list text) (key : text) : result Z :=
  match lookup_from ws 0 key None with Some i => Ok i | None => Err end.

(* WordList[int] for 0 <= i < len (negative Python indices never reach this: callers mask) *)
Definition wl_word (ws : list text) (i : Z) : result text :=
  if (0 <=? i) && (i <? zlen ws) then
    match nth_error ws (Z.to_nat i) with Some w => Ok w | None => Err end
  else Err.

(* str.lower() restricted to ASCII (normalize is only reached by from_mnemonic after
   mnemonic_to_bytes has accepted every word, i.e. every word is a dict key) *)
Definition lower_ascii (w : text) : text :=
  map (fun c => if (65 <=? c) && (c <=? 90) then c + 32 else c) w.

Definition wl_normalize (ws : list text) (w : text) : result text :=
  i <- wl_index ws (lower_ascii w) ;; wl_word ws i.

Definition wl_contains (ws : list text) (w : text) : bool := existsb (beq w) ws.

(* ---------------------------------------------------------------- BIP39 *)

Definition valid_num_bits (nb : Z) : bool :=
  (nb =? 128) || (nb =? 160) || (nb =? 192) || (nb =? 224) || (nb =? 256).
Definition valid_num_words (nw : Z) : bool :=
  (nw =? 12) || (nw =? 15) || (nw =? 18) || (nw =? 21) || (nw =? 24).

(* h[0]: IndexError on an empty digest *)
Definition first_byte (h : bytes) : result Z :=
  match h with [] => Err | x :: _ => Ok x end.

(* the loop of bytes_to_mnemonic: current = all_bits & 2047; insert at front; all_bits >>= 11 *)
Fixpoint groups11 (n : nat) (all_bits : Z) (acc : list Z) : list Z :=
  match n with
  | O => acc
  | S k => groups11 k (Z.shiftr all_bits 11) (Z.land all_bits 2047 :: acc)
  end.

Fixpoint mapM {A B} (f : A -> result B) (l : list A) : result (list B) :=
  match l with
  | [] => Ok []
  | a :: r => b <- f a ;; t <- mapM f r ;; Ok (b :: t)
  end.

Section Mnemonic.
  Variable sha256 : bytes -> bytes.
  Variable words : list text.      (* BIP39.words *)

  (* bytes_to_mnemonic up to the word indices *)
  Definition bytes_to_indices (b : bytes) (num_bits : Z) : result (list Z) :=
    if negb (valid_num_bits num_bits) then Err else
    let preseed := from_be b in
    let ncs := num_bits / 32 in
    h0 <- first_byte (sha256 b) ;;
    let checksum := Z.shiftr h0 (8 - ncs) in
    let all_bits := Z.lor (Z.shiftl preseed ncs) checksum in
    Ok (groups11 (Z.to_nat ((num_bits + ncs) / 11)) all_bits []).

  Definition bytes_to_mnemonic (b : bytes) (num_bits : Z) : result text :=
    idx <- bytes_to_indices b num_bits ;;
    ws <- mapM (wl_word words) idx ;;
    Ok (join_sp ws).

  (* mnemonic_to_bytes from the word indices on *)
  Definition indices_to_bytes (idx : list Z) : result bytes :=
    let nw := zlen idx in
    if negb (valid_num_words nw) then Err else
    let all_bits := fold_left (fun acc i => Z.shiftl acc 11 + i) idx 0 in
    let ncs := nw / 3 in
    let checksum := Z.land all_bits (Z.shiftl 1 ncs - 1) in
    let all_bits' := Z.shiftr all_bits ncs in
    let num_bytes := (nw * 11 - ncs) / 8 in
    s <- int_to_be all_bits' (Z.to_nat num_bytes) ;;
    h0 <- first_byte (sha256 s) ;;
    if checksum =? Z.shiftr h0 (8 - ncs) then Ok s else Err.

  (* the length check comes before the dict lookups, as in the code *)
  Definition mnemonic_to_bytes (m : text) : result bytes :=
    let ws := split_ws m in
    if negb (valid_num_words (zlen ws)) then Err else
    idx <- mapM (wl_index words) ws ;;
    indices_to_bytes idx.

  (* len(bin(x)) for x >= 0 *)
  Definition len_bin (x : Z) : Z := 2 + (if x =? 0 then 1 else Z.log2 x + 1).

  (* secure_mnemonic with randbits(num_bits) = rnd and int(time()*1_000_000) = t *)
  Definition secure_mnemonic (num_bits extra rnd t : Z) : result text :=
    if negb (valid_num_bits num_bits) then Err else
    if extra <? 0 then Err else
    let extra1 := if len_bin extra >? num_bits + 2
                  then Z.land extra (Z.shiftl 1 num_bits - 1) else extra in
    let extra2 := Z.lxor extra1 t in
    let preseed := Z.lxor rnd extra2 in
    s <- int_to_be preseed (Z.to_nat (num_bits / 8)) ;;
    m <- bytes_to_mnemonic s num_bits ;;
    s' <- mnemonic_to_bytes m ;;
    if beq s' s then Ok m else Err.
End Mnemonic.
