(* Model/Verify.v — mirrors Tx.verify_input (buidl/tx.py) and the complete Script.evaluate
   (buidl/script.py) including the P2SH / witness-v0 / witness-v1 rules, as repaired by the
   fix: commit "verify_input applies the p2sh/witness rules according to the output being
   spent": each rule is enabled by a flag computed from the spent output and fires at most
   once.  Also the concrete signature/key matching loop of OP_CHECKMULTISIG.  Definitions only.

   Stacks have the TOP FIRST (see Model/Op.v).  An outcome is OTrue (evaluate returned True)
   or OFalse (it returned False or raised). *)
From V Require Import Base.Prelude Base.Ints Model.Helper Model.Script Model.Op Model.Interp
  Model.Pecc Model.Taproot.

(* ------------------------------------------------------------------ OP_CHECKMULTISIG loop *)

(* `while points: point = points.pop(0); if point.verify(z, sig): break  else: return False`
   [ver k sg] = "key k verifies signature sg".  Returns the keys left after the match. *)
Fixpoint find_key (ver : bytes -> bytes -> bool) (sg : bytes) (keys : list bytes)
  : option (list bytes) :=
  match keys with
  | [] => None
  | k :: r => if ver k sg then Some r else find_key ver sg r
  end.

(* `for der_signature, hash_type in der_signatures: ...` *)
Fixpoint match_sigs (ver : bytes -> bytes -> bool) (sigs keys : list bytes) : bool :=
  match sigs with
  | [] => true
  | sg :: r =>
      match find_key ver sg keys with
      | None => false
      | Some keys' => match_sigs ver r keys'
      end
  end.

(* op_checkmultisig's verdict: every public key must parse (ValueError -> return False),
   then the matching loop *)
Definition so_multisig_loop (sec_ok : bytes -> bool) (ver : bytes -> bytes -> bool)
  (secs sigs : list bytes) : result bool :=
  if forallb sec_ok secs then Ok (match_sigs ver sigs secs) else Ok false.

(* ------------------------------------------------------------------ the interpreter *)

Record flags := { f_p2sh : bool; f_wit : bool; f_tap : bool }.

Section Verify.
Variable C : curve.
Variables ripemd160 sha1 sha256 hash160 hash256 : bytes -> bytes.
Variable so : sigops.
Variable c : txctx.
(* the witness items of the input; Script.evaluate uses None for an empty witness *)
Variable witness : list bytes.

Definition table (tap : bool) : Z -> option opfn :=
  if tap then taproot_op_code_functions ripemd160 sha1 sha256 hash160 hash256 so
  else op_code_functions ripemd160 sha1 sha256 hash160 hash256 so.

(* Script.parse(BytesIO(encode_varstr(raw))).commands *)
Definition parse_cmds (raw : bytes) : result (list cmd) :=
  s <- encode_varstr raw ;; '(sc, _) <- parse_script s ;; Ok (s_cmds sc).

(* the p2sh rule, applied when the flag is set and the remaining commands are
   OP_HASH160 <20 bytes> OP_EQUAL; [s] is the stack after the push (the element on top) *)
Definition p2sh_rule (rest : list cmd) (s : stack) (fl : flags)
  : result (list cmd * stack * flags) :=
  match rest, s with
  | [Op 169; Push h; Op 135], b :: s0 =>
      if f_p2sh fl && (length h =? 20)%nat then
        if beq (hash160 b) h then
          cs <- parse_cmds b ;;
          Ok (cs, s0, {| f_p2sh := false; f_wit := f_wit fl; f_tap := f_tap fl |})
        else Err                                           (* op_verify fails: bad p2sh h160 *)
      else Ok (rest, s, fl)
  | _, _ => Ok (rest, s, fl)
  end.

(* the witness program rules; [s] in Python order is [b"", x] or [b"\x01", x] *)
Definition witness_rule (rest : list cmd) (s : stack) (fl : flags)
  : result (list cmd * stack * flags) :=
  if negb (f_wit fl) then Ok (rest, s, fl)
  else
    let fl' := {| f_p2sh := f_p2sh fl; f_wit := false; f_tap := f_tap fl |} in
    match s with
    | [x; []] =>
        if (length x =? 20)%nat then
          match witness with
          | [] => Err                                       (* witness is None *)
          | _ => Ok (rest ++ map Push witness ++ p2pkh_script x, [], fl')
          end
        else if (length x =? 32)%nat then
          match witness with
          | [] => Err
          | _ =>
              let ws := last witness [] in
              if beq x (sha256 ws) then
                cs <- parse_cmds ws ;;
                Ok (rest ++ map Push (removelast witness) ++ cs, [], fl')
              else Err                                      (* bad sha256 *)
          end
        else Ok (rest, s, fl)
    | [x; [1]] =>
        if (length x =? 32)%nat then
          match witness with
          | [] => Err                                       (* len(None) *)
          | _ =>
              let items := if has_annex witness then removelast witness else witness in
              match items with
              | [] => Err
              | [sg] =>
                  (* key path: stack[0] = sig; op_checksig_schnorr; its return value is ignored *)
                  s' <- op_checksig_schnorr so [x; sg] ;;
                  Ok (rest, s', fl')
              | _ =>
                  ok <- script_path_commit_check C sha256 x witness ;;
                  if ok then
                    ts <- witness_tap_script items ;;
                    Ok (map Push (firstn (length items - 2) items) ++ s_cmds ts, [],
                        {| f_p2sh := f_p2sh fl; f_wit := false; f_tap := true |})
                  else Err
              end
          end
        else Ok (rest, s, fl)
    | _ => Ok (rest, s, fl)
    end.

Definition after_push (rest : list cmd) (s : stack) (fl : flags)
  : result (list cmd * stack * flags) :=
  '(rest1, s1, fl1) <- p2sh_rule rest s fl ;; witness_rule rest1 s1 fl1.

Fixpoint vloop (fuel : nat) (cmds : list cmd) (s a : stack) (fl : flags) : outcome :=
  match cmds with
  | [] => final_test s
  | cm :: rest =>
      match fuel with
      | O => OFalse
      | S f =>
          match cm with
          | Op o =>
              match exec_op (table (f_tap fl)) c o rest s a with
              | Err => OFalse
              | Ok (rest', s', a') => vloop f rest' s' a' fl
              end
          | Push b =>
              match after_push rest (b :: s) fl with
              | Err => OFalse
              | Ok (rest', s', fl') => vloop f rest' s' a fl'
              end
          end
      end
  end.

(* enough for every command ever on the list: the rules append at most the witness items
   and the commands parsed from one pushed element / witness item each *)
Definition push_size (cm : cmd) : nat := match cm with Op _ => 1 | Push b => S (length b) end.
Definition total_size (cmds : list cmd) : nat := fold_right (fun cm n => (push_size cm + n)%nat) 0%nat cmds.
Definition witness_size : nat := fold_right (fun b n => (S (length b) + n)%nat) 0%nat witness.
Definition fuel_for (cmds : list cmd) : nat := (2 * total_size cmds + 2 * witness_size + 64)%nat.

Definition evaluate_full (cmds : list cmd) (allow_p2sh allow_witness : bool) : outcome :=
  vloop (fuel_for cmds) cmds [] [] {| f_p2sh := allow_p2sh; f_wit := allow_witness; f_tap := false |}.

(* Tx.verify_input *)
Definition is_int_above_96 (cm : cmd) : bool := match cm with Op o => 96 <? o | Push _ => false end.

Definition verify_input (script_sig script_pubkey : list cmd) : outcome :=
  if is_p2wpkh script_pubkey || is_p2wsh script_pubkey || is_p2tr script_pubkey then
    match script_sig with
    | [] => evaluate_full (script_sig ++ script_pubkey) false true
    | _ => OFalse
    end
  else if is_p2sh script_pubkey then
    match last script_sig (Op 0) with
    | Push b =>
        match script_sig with
        | [] => OFalse
        | _ =>
            if existsb is_int_above_96 script_sig then OFalse
            else
              match parse_cmds b with
              | Err => OFalse
              | Ok r =>
                  if is_p2wpkh r || is_p2wsh r then
                    (if (length script_sig =? 1)%nat
                     then evaluate_full (script_sig ++ script_pubkey) true true
                     else OFalse)
                  else evaluate_full (script_sig ++ script_pubkey) true false
              end
        end
    | Op _ => OFalse
    end
  else evaluate_full (script_sig ++ script_pubkey) false false.

End Verify.
