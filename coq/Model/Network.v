(* Model/Network.v — mirrors buidl/network.py and the message classes of
   buidl/compactfilter.py.  Definitions only. *)
From V Require Import Base.Prelude Base.Ints Model.Helper Model.Block Model.Gcs.

Definition magic_of (net : Z) : bytes :=
  if net =? 0 then [249; 190; 180; 217]        (* mainnet f9beb4d9 *)
  else if net =? 1 then [11; 17; 9; 7]         (* testnet 0b110907 *)
  else if net =? 2 then [10; 3; 207; 64]       (* signet  0a03cf40 *)
  else [250; 191; 181; 218].                   (* regtest fabfb5da *)

Fixpoint lstrip0 (l : bytes) : bytes :=
  match l with
  | b :: r => if b =? 0 then lstrip0 r else l
  | [] => []
  end.
Definition strip0 (l : bytes) : bytes := rev (lstrip0 (rev (lstrip0 l))).

Section WithHash.
Variable hash256 : bytes -> bytes.

(* NetworkEnvelope.serialize *)
Definition env_serialize (net : Z) (cmd payload : bytes) : result bytes :=
  len <- int_to_le (zlen payload) 4 ;;
  Ok (magic_of net ++ cmd ++ repeatz 0 (12 - length cmd) ++ len
      ++ firstn 4 (hash256 payload) ++ payload).

(* NetworkEnvelope.parse -> (command, payload, rest of stream) *)
Definition env_parse (net : Z) (s : bytes) : result (bytes * bytes * bytes) :=
  let '(magic, s1) := read 4 s in
  if beq magic [] then Err
  else if negb (beq magic (magic_of net)) then Err
  else
    let '(c, s2) := read 12 s1 in
    let '(lb, s3) := read 4 s2 in
    let plen := from_le lb in
    let '(ck, s4) := read 4 s3 in
    let '(payload, s5) := readz plen s4 in
    if negb (zlen payload =? plen) then Err
    else if beq (firstn 4 (hash256 payload)) ck then Ok (strip0 c, payload, s5)
    else Err.

(* CFHeadersMessage: last_header = fold of hash256(filter_hash + current) *)
Definition cfheader_chain (prev : bytes) (hashes : list bytes) : bytes :=
  fold_left (fun cur fh => hash256 (fh ++ cur)) hashes prev.
End WithHash.

(* VersionMessage.serialize *)
Record version_msg := {
  vm_version : Z; vm_services : Z; vm_timestamp : Z;
  vm_recv_services : Z; vm_recv_ip : bytes; vm_recv_port : Z;
  vm_send_services : Z; vm_send_ip : bytes; vm_send_port : Z;
  vm_nonce : bytes; vm_user_agent : bytes; vm_latest_block : Z; vm_relay : bool }.

Definition ip_prefix : bytes := repeatz 0 10 ++ [255; 255].

Definition version_serialize (m : version_msg) : result bytes :=
  v <- int_to_le (vm_version m) 4 ;;
  sv <- int_to_le (vm_services m) 8 ;;
  ts <- int_to_le (vm_timestamp m) 8 ;;
  rs <- int_to_le (vm_recv_services m) 8 ;;
  rp <- int_to_le (vm_recv_port m) 2 ;;
  ss <- int_to_le (vm_send_services m) 8 ;;
  sp <- int_to_le (vm_send_port m) 2 ;;
  ual <- encode_varint (zlen (vm_user_agent m)) ;;
  lb <- int_to_le (vm_latest_block m) 4 ;;
  Ok (v ++ sv ++ ts ++ rs ++ ip_prefix ++ vm_recv_ip m ++ rp ++ ss ++ ip_prefix
      ++ vm_send_ip m ++ sp ++ vm_nonce m ++ ual ++ vm_user_agent m ++ lb
      ++ [if vm_relay m then 1 else 0]).

(* GetHeadersMessage.serialize *)
Definition getheaders_serialize (version num_hashes : Z) (start_block end_block : bytes)
  : result bytes :=
  v <- int_to_le version 4 ;;
  n <- encode_varint num_hashes ;;
  Ok (v ++ n ++ rev start_block ++ rev end_block).

(* HeadersMessage.parse *)
(* fuel = remaining bytes: every iteration needs at least the one varint byte, so
   when the fuel is gone the stream is empty and read_varint raises *)
Fixpoint headers_loop (fuel : nat) (n : Z) (s : bytes) (acc : list header)
  : result (list header * bytes) :=
  if n <=? 0 then Ok (rev acc, s)
  else match fuel with
       | O => Err
       | S f =>
           let '(h, s1) := parse_header s in
           '(ntx, s2) <- read_varint s1 ;;
           if ntx =? 0 then headers_loop f (n - 1) s2 (h :: acc) else Err
       end.
Definition headers_parse (s : bytes) : result (list header * bytes) :=
  '(n, s1) <- read_varint s ;; headers_loop (length s1) n s1 [].

(* the layout a peer uses to send headers (no serialiser exists in the library) *)
Fixpoint headers_body (hs : list header) : result bytes :=
  match hs with
  | [] => Ok []
  | h :: r => b <- serialize_header h ;; rest <- headers_body r ;; Ok (b ++ [0] ++ rest)
  end.
Definition headers_layout (hs : list header) : result bytes :=
  n <- encode_varint (zlen hs) ;; b <- headers_body hs ;; Ok (n ++ b).

(* GetDataMessage.serialize *)
Fixpoint getdata_items (items : list (Z * bytes)) : result bytes :=
  match items with
  | [] => Ok []
  | (t, id) :: r => tb <- int_to_le t 4 ;; rest <- getdata_items r ;; Ok (tb ++ rev id ++ rest)
  end.
Definition getdata_serialize (items : list (Z * bytes)) : result bytes :=
  n <- encode_varint (zlen items) ;; b <- getdata_items items ;; Ok (n ++ b).

(* Ping / Pong *)
Definition ping_parse (s : bytes) : bytes * bytes := read 8 s.
Definition ping_serialize (nonce : bytes) : bytes := nonce.

(* GetCFilters / GetCFHeaders: filter_type.to_bytes(1,"big") + le4(height) + rev(stop) *)
Definition getcfilters_serialize (ftype height : Z) (stop : bytes) : result bytes :=
  t <- int_to_be ftype 1 ;; h <- int_to_le height 4 ;; Ok (t ++ h ++ rev stop).
Definition getcfcheckpt_serialize (ftype : Z) (stop : bytes) : result bytes :=
  t <- int_to_be ftype 1 ;; Ok (t ++ rev stop).

(* CFilterMessage.parse -> (type, block_hash, filter_bytes, decoded hashes, rest);
   the constructor decodes the GCS and so raises on an undecodable filter *)
Definition cfilter_parse (s : bytes) : result (Z * bytes * bytes * list Z * bytes) :=
  match s with
  | [] => Err
  | t :: s1 =>
      let '(bh, s2) := read 32 s1 in
      '(fb, s3) <- read_varstr s2 ;;
      items <- decode_gcs fb ;;
      Ok (t, rev bh, fb, items, s3)
  end.
Definition cfilter_layout (t : Z) (block_hash fb : bytes) : result bytes :=
  f <- encode_varstr fb ;; Ok ([t] ++ rev block_hash ++ f).

(* CFHeadersMessage.parse / CFCheckPointMessage.parse *)
Fixpoint read_hashes (n : nat) (s : bytes) (acc : list bytes) : list bytes * bytes :=
  match n with
  | O => (rev acc, s)
  | S k => let '(h, s1) := read 32 s in read_hashes k s1 (h :: acc)
  end.

Definition cfheaders_parse (s : bytes) : result (Z * bytes * bytes * list bytes * bytes) :=
  match s with
  | [] => Err
  | t :: s1 =>
      let '(stop, s2) := read 32 s1 in
      let '(prev, s3) := read 32 s2 in
      '(n, s4) <- read_varint s3 ;;
      let '(hs, s5) := read_hashes (Z.to_nat n) s4 [] in
      Ok (t, rev stop, prev, hs, s5)
  end.
Definition cfheaders_layout (t : Z) (stop prev : bytes) (hs : list bytes) : result bytes :=
  n <- encode_varint (zlen hs) ;; Ok ([t] ++ rev stop ++ prev ++ n ++ concat hs).

Definition cfcheckpt_parse (s : bytes) : result (Z * bytes * list bytes * bytes) :=
  match s with
  | [] => Err
  | t :: s1 =>
      let '(stop, s2) := read 32 s1 in
      '(n, s3) <- read_varint s2 ;;
      let '(hs, s4) := read_hashes (Z.to_nat n) s3 [] in
      Ok (t, rev stop, hs, s4)
  end.
Definition cfcheckpt_layout (t : Z) (stop : bytes) (hs : list bytes) : result bytes :=
  n <- encode_varint (zlen hs) ;; Ok ([t] ++ rev stop ++ n ++ concat hs).
