(* Model/IfCount.v — counting OP_ENDIF (104) and the conditional openers OP_IF (99) / OP_NOTIF (100) in a
   command list; used to state when the scan of op_if / op_notif can succeed (Proofs/IfScanCountP.v). *)
From V Require Import Base.Prelude Base.Ints Model.Script.

Definition is_endif (c : cmd) : bool := match c with Op o => o =? 104 | Push _ => false end.
Definition is_open (c : cmd) : bool := match c with Op o => (o =? 99) || (o =? 100) | Push _ => false end.
Definition n_endif (l : list cmd) : nat := length (filter is_endif l).
Definition n_open (l : list cmd) : nat := length (filter is_open l).
