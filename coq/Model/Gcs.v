(* Model/Gcs.v — mirrors buidl/compactfilter.py: Golomb-Rice coding, bit packing,
   GCS (de)serialisation.  Definitions only. *)
From V Require Import Base.Prelude Base.Ints Model.Helper.

Definition GOLOMB_P : nat := 19.
Definition GOLOMB_M : Z := 784931.

(* encode_golomb(x, p): q ones, a zero, then the p low bits MSB first *)
Fixpoint low_bits (p : nat) (x : Z) : list Z :=
  match p with
  | O => []
  | S k => (if Z.testbit x (Z.of_nat k) then 1 else 0) :: low_bits k x
  end.

Definition encode_golomb (x : Z) (p : nat) : list Z :=
  repeatz 1 (Z.to_nat (Z.shiftr x (Z.of_nat p))) ++ [0] ++ low_bits p x.

(* decode_golomb(bits, p): IndexError when the bits run out -> Err *)
Fixpoint golomb_unary (bits : list Z) (q : Z) : result (Z * list Z) :=
  match bits with
  | [] => Err
  | b :: r => if b =? 0 then Ok (q, r) else golomb_unary r (q + 1)
  end.

Fixpoint golomb_rem (p : nat) (bits : list Z) (r : Z) : result (Z * list Z) :=
  match p with
  | O => Ok (r, bits)
  | S k =>
      match bits with
      | [] => Err
      | b :: t => golomb_rem k t (if b =? 1 then 2 * r + 1 else 2 * r)
      end
  end.

Definition decode_golomb (bits : list Z) (p : nat) : result (Z * list Z) :=
  '(q, b1) <- golomb_unary bits 0 ;;
  '(r, b2) <- golomb_rem p b1 0 ;;
  Ok (Z.shiftl q (Z.of_nat p) + r, b2).

(* unpack_bits: every byte MSB first *)
Definition byte_bits (b : Z) : list Z :=
  map (fun i => if Z.testbit b i then 1 else 0) [7; 6; 5; 4; 3; 2; 1; 0].
Definition unpack_bits (bs : bytes) : list Z := flat_map byte_bits bs.

(* pack_bits: pad with zeros to a multiple of 8, big-endian *)
Fixpoint bits_to_int (bits : list Z) (acc : Z) : Z :=
  match bits with
  | [] => acc
  | b :: r => bits_to_int r (if b =? 0 then 2 * acc else 2 * acc + 1)
  end.
Definition pad8 (bits : list Z) : list Z :=
  bits ++ repeatz 0 (Nat.modulo (8 - Nat.modulo (length bits) 8) 8).
Definition pack_bits (bits : list Z) : bytes :=
  let b := pad8 bits in to_be (Nat.div (length b) 8) (bits_to_int b 0).

(* serialize_gcs(sorted_items) *)
Fixpoint gcs_deltas (items : list Z) (last : Z) : list Z :=
  match items with
  | [] => []
  | x :: r => encode_golomb (x - last) GOLOMB_P ++ gcs_deltas r x
  end.
Definition serialize_gcs (items : list Z) : result bytes :=
  n <- encode_varint (zlen items) ;; Ok (n ++ pack_bits (gcs_deltas items 0)).

(* decode_gcs: n values; fuel = number of bits (every value consumes >= 1 bit;
   with no bits left decode_golomb raises IndexError) *)
Fixpoint gcs_loop (fuel : nat) (n : Z) (bits : list Z) (cur : Z) (acc : list Z)
  : result (list Z) :=
  if n <=? 0 then Ok (rev acc)
  else match fuel with
       | O => Err
       | S f =>
           '(d, bits') <- decode_golomb bits GOLOMB_P ;;
           gcs_loop f (n - 1) bits' (cur + d) ((cur + d) :: acc)
       end.

Definition decode_gcs (gcs : bytes) : result (list Z) :=
  '(n, r) <- read_varint gcs ;;
  let bits := unpack_bits r in
  gcs_loop (length bits) n bits 0 [].
