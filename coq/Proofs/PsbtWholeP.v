(* Proofs/PsbtWholeP.v — PSBT.parse (PSBT.serialize p) = p on canonical, validated PSBTs,
   hence re-serialisation is the identity on them. *)
From V Require Import Base.Prelude Base.Ints Model.Helper Model.Script Model.Tx Model.Psbt
  Proofs.HelperP Proofs.PsbtDictP Proofs.PsbtKvP Proofs.PsbtFinalP Proofs.PsbtCodecP.

Definition net_inv (N : net) (o : option net) : Prop := o = None \/ o = Some N.

(* every derivation path of the PSBT names the same network N (cf. K-C10-xpub-network-order) *)
Definition path_on (N : net) (path : bytes) : Prop := raw_path_net path None = Ok N.

Lemma path_on_any N path o : path_on N path -> net_inv N o -> raw_path_net path o = Ok N.
Proof.
  intros H [->| ->]; [exact H|]. unfold path_on, raw_path_net in *.
  destruct (negb (bin_path_ok (skipn 4 path))); [discriminate|reflexivity].
Qed.

Lemma mix_rest_same N paths : Forall (path_on N) paths -> mix_rest N paths = Ok (Some N).
Proof.
  induction 1 as [|p r Hp Hr IH]; cbn; [reflexivity|].
  unfold path_on in Hp. rewrite Hp. cbn. destruct N; cbn; exact IH.
Qed.

Lemma mix_net_inv N o paths :
  net_inv N o -> Forall (path_on N) paths -> exists o', mix_net o paths = Ok o' /\ net_inv N o'.
Proof.
  intros [->| ->] H.
  - destruct H as [|p r Hp Hr]; cbn; [exists None; split; [reflexivity|now left]|].
    unfold path_on in Hp. rewrite Hp. cbn. rewrite (mix_rest_same N r Hr).
    exists (Some N). split; [reflexivity|now right].
  - exists (Some N). split; [reflexivity|now right].
Qed.

(* ---- the global map ---- *)
Section Global.
Variable sec_ok : bytes -> bool.
Variable N : net.

Notation GL := (global_loop sec_ok).
Definition greach := reach (fun f s st => GL f s st).

Definition g_set_tx st v := {| g_tx := v; g_hd := g_hd st; g_extra := g_extra st; g_net := g_net st |}.
Definition g_set_hd st v n := {| g_tx := g_tx st; g_hd := v; g_extra := g_extra st; g_net := n |}.
Definition g_set_extra st v := {| g_tx := g_tx st; g_hd := g_hd st; g_extra := v; g_net := g_net st |}.

Ltac fuel_step fuel Hf f :=
  destruct fuel as [|f]; [cbn in Hf; lia|]; exists f; split;
  [ cbn [length] in Hf; repeat rewrite app_length in Hf; cbn [length] in Hf; lia | ].

Lemma g_step_tx t ser e rest st :
  serialize_legacy t = Ok ser -> small ser -> (forall r, parse_legacy (ser ++ r) = Ok (t, r)) ->
  kv [0] ser = Ok e -> g_tx st = None ->
  greach (e ++ rest) st rest (g_set_tx st (Some t)).
Proof.
  intros Hser Hsm Hp He Hn fuel Hf.
  apply kv_key1 in He as [ev [Hev ->]]. destruct (encode_varstr_split ser ev Hev Hsm) as [l [-> Hl]].
  fuel_step fuel Hf f.
  cbn [app global_loop]. rewrite read_varstr_key1. cbn [bind Z.eqb check]. rewrite Hn. cbn [is_some negb check bind].
  rewrite <- app_assoc, Hl. cbn [bind]. rewrite Hp. reflexivity.
Qed.

Definition hd_ok (e : bytes * hd_pub) : Prop :=
  let h := snd e in
  fst e = hd_key h /\ length (hd_key h) = 78%nat /\ firstn 4 (hd_key h) = xpub_version N /\
  sec_ok (skipn 45 (hd_key h)) = true /\ small (hd_path h) /\ path_on N (hd_path h) /\
  nth 4 (hd_key h) 0 = zlen (skipn 4 (hd_path h)) / 4.

Lemma xpub_version_known : mem_bytes (xpub_version N) testnet_xpubs || mem_bytes (xpub_version N) mainnet_xpubs = true.
Proof. destruct N; reflexivity. Qed.

Lemma g_step_hd k h e rest st :
  hd_ok (k, h) -> net_inv N (g_net st) -> kv (1 :: hd_key h) (hd_path h) = Ok e ->
  greach (e ++ rest) st rest (g_set_hd st (dset k h (g_hd st)) (Some N)).
Proof.
  intros (Hk & Hl & Hv & Hs & Hp & Hn & Hd) Hinv He fuel Hf. cbn [fst snd] in *.
  assert (Hks : small (1 :: hd_key h)) by (unfold small, zlen; cbn [length]; rewrite Hl; lia).
  destruct (kv_split (1 :: hd_key h) (hd_path h) e rest Hks Hp He) as [ev [R1 [R2 Hlen]]].
  destruct fuel as [|f]; [lia|]. exists f. split; [rewrite app_length in Hf; lia|].
  cbn [global_loop]. rewrite R1. cbn [bind Z.eqb Pos.eqb]. cbn [length]. rewrite Hl. cbn [Nat.eqb check bind].
  unfold hd_parse. change (skipn 1 (1 :: hd_key h)) with (hd_key h). cbv zeta. rewrite Hv, xpub_version_known. cbn [check bind]. rewrite Hs. cbn [check bind].
  rewrite R2. cbn [bind].
  pose proof Hn as Hn'. unfold path_on, raw_path_net in Hn'.
  destruct (bin_path_ok (skipn 4 (hd_path h))) eqn:Eb; cbn [negb] in Hn'; [|discriminate].
  cbn [check bind]. rewrite Hd, Z.eqb_refl. cbn [check bind].
  assert (En : match g_net st with
               | Some n => Ok n
               | None => path_network (path_children (length (skipn 4 (hd_path h))) (skipn 4 (hd_path h)))
               end = Ok N).
  { destruct Hinv as [-> | ->]; [exact Hn'|reflexivity]. }
  rewrite En. cbn [bind].
  assert (Eh : {| hd_key := xpub_version N ++ skipn 4 (hd_key h); hd_path := hd_path h |} = h).
  { rewrite <- Hv, firstn_skipn. destruct h; reflexivity. }
  rewrite Eh. rewrite Hk. reflexivity.
Qed.

Definition unknown_global (k : bytes) : Prop :=
  match k with t :: _ => t <> 0 /\ t <> 1 | [] => False end.

Lemma g_step_extra k v e rest st :
  unknown_global k -> small k -> small v -> kv k v = Ok e -> truthy_bytes (dget (g_extra st) k) = false ->
  greach (e ++ rest) st rest (g_set_extra st (dset k v (g_extra st))).
Proof.
  intros Hu Hk Hv He Hd fuel Hf.
  destruct (kv_split k v e rest Hk Hv He) as [ev [R1 [R2 Hlen]]].
  destruct fuel as [|f]; [lia|]. exists f. split; [rewrite app_length in Hf; lia|].
  cbn [global_loop]. rewrite R1. cbn [bind]. destruct k as [|t kr]; [contradiction|].
  destruct Hu as (H0 & H1).
  destruct (t =? 0) eqn:E0; [apply Z.eqb_eq in E0; contradiction|].
  destruct (t =? 1) eqn:E1; [apply Z.eqb_eq in E1; contradiction|].
  rewrite Hd. cbn [negb check bind]. rewrite R2. reflexivity.
Qed.

Lemma g_hd_list (l : dict hd_pub) : dsorted l -> Forall hd_ok l ->
  forall b rest st, concat_res (map hd_serialize (dvals l)) = Ok b -> net_inv N (g_net st) ->
  greach (b ++ rest) st rest
         (g_set_hd st (dins (g_hd st) l) (match l with [] => g_net st | _ => Some N end)).
Proof.
  intros Hs. induction Hs as [|k h r Hall Hs IH]; intros Hok b rest st Hb Hinv.
  - cbn in Hb. inversion Hb; subst. destruct st; apply reach_refl.
  - inversion Hok as [|? ? Hkh Hok']; subst.
    cbn [dvals map concat_res snd] in Hb. unfold hd_serialize at 1 in Hb.
    destruct (kv (1 :: hd_key h) (hd_path h)) as [e|] eqn:Ee; cbn [bind] in Hb; [|discriminate].
    fold (dvals r) in Hb.
    destruct (concat_res (map hd_serialize (dvals r))) as [b'|] eqn:Eb; cbn [bind] in Hb; [|discriminate].
    inversion Hb; subst b. rewrite <- app_assoc.
    eapply reach_trans; [apply (g_step_hd k h e (b' ++ rest) st Hkh Hinv Ee)|].
    specialize (IH Hok' b' rest (g_set_hd st (dset k h (g_hd st)) (Some N)) eq_refl).
    cbn in IH. specialize (IH (or_intror eq_refl)).
    destruct r; exact IH.
Qed.

Lemma g_extra_list l : dsorted l ->
  Forall (fun e => unknown_global (fst e) /\ small (fst e) /\ small (snd e)) l ->
  forall b rest st, concat_res (map (fun e => kv (fst e) (snd e)) l) = Ok b ->
  (forall k, In k (dkeys l) -> dget (g_extra st) k = None) ->
  greach (b ++ rest) st rest (g_set_extra st (dins (g_extra st) l)).
Proof.
  intros Hs. induction Hs as [|k v r Hall Hs IH]; intros Hok b rest st Hb Hfresh.
  - cbn in Hb. inversion Hb; subst. destruct st; apply reach_refl.
  - inversion Hok as [|? ? (Hu & Hk & Hv) Hok']; subst. cbn [fst snd] in *.
    cbn [map concat_res fst snd] in Hb.
    destruct (kv k v) as [e|] eqn:Ee; cbn [bind] in Hb; [|discriminate].
    destruct (concat_res (map (fun e0 => kv (fst e0) (snd e0)) r)) as [b'|] eqn:Eb; cbn [bind] in Hb; [|discriminate].
    inversion Hb; subst b. rewrite <- app_assoc.
    eapply reach_trans.
    + apply (g_step_extra k v e (b' ++ rest) st Hu Hk Hv Ee).
      rewrite (Hfresh k) by (cbn; now left). reflexivity.
    + specialize (IH Hok' b' rest (g_set_extra st (dset k v (g_extra st))) eq_refl).
      cbn in IH. apply IH. intros k1 Hin. rewrite dget_dset_other.
      * apply Hfresh. cbn. now right.
      * intros ->. unfold dkeys in Hin. apply in_map_iff in Hin as [[k2 v2] [E2 Hin]]. cbn in E2. subst k2.
        rewrite Forall_forall in Hall. specialize (Hall _ Hin). cbn in Hall. rewrite bcmp_refl in Hall. discriminate.
Qed.

Record canon_global (p : psbt) : Prop := {
  cg_tx : legacy_exact (p_tx p);
  cg_hd_sorted : dsorted (p_hd p);
  cg_hd_ok : Forall hd_ok (p_hd p);
  cg_extra_sorted : dsorted (p_extra p);
  cg_extra_ok : Forall (fun e => unknown_global (fst e) /\ small (fst e) /\ small (snd e)) (p_extra p) }.

Lemma global_loop_roundtrip p b :
  canon_global p -> global_serialize p = Ok b ->
  forall rest fuel, (length (b ++ rest) < fuel)%nat ->
  exists o, net_inv N o /\
    GL fuel (b ++ rest) {| g_tx := None; g_hd := []; g_extra := []; g_net := None |}
    = Ok ({| g_tx := Some (p_tx p); g_hd := p_hd p; g_extra := p_extra p; g_net := o |}, rest).
Proof.
  intros [(ser & Hser & Hsm & Hp) Chs Chok Ces Ceok] Hb rest fuel Hf.
  unfold global_serialize in Hb. rewrite Hser in Hb. cbn [bind] in Hb.
  apply bind_ok in Hb as [txkv [Htx Hb]]. apply bind_ok in Hb as [hds [Hhd Hb]].
  apply bind_ok in Hb as [ex [Hex Hb]]. inversion Hb; subst b.
  set (st0 := {| g_tx := None; g_hd := []; g_extra := []; g_net := None |}).
  set (o := match p_hd p with [] => None | _ => Some N end).
  set (st3 := {| g_tx := Some (p_tx p); g_hd := p_hd p; g_extra := p_extra p; g_net := o |}).
  assert (R : greach ((txkv ++ hds ++ ex ++ [0]) ++ rest) st0 (0 :: rest) st3).
  { rewrite <- !app_assoc.
    eapply reach_trans with (s2 := hds ++ ex ++ [0] ++ rest) (st2 := g_set_tx st0 (Some (p_tx p))).
    { apply (g_step_tx (p_tx p) ser txkv _ st0 Hser Hsm Hp Htx eq_refl). }
    eapply reach_trans with (s2 := ex ++ [0] ++ rest)
                            (st2 := {| g_tx := Some (p_tx p); g_hd := p_hd p; g_extra := []; g_net := o |}).
    { pose proof (g_hd_list (p_hd p) Chs Chok hds (ex ++ [0] ++ rest) (g_set_tx st0 (Some (p_tx p))) Hhd
                    (or_introl eq_refl)) as L.
      cbn in L. rewrite dins_nil_sorted in L by exact Chs. exact L. }
    pose proof (g_extra_list (p_extra p) Ces Ceok ex ([0] ++ rest)
                  {| g_tx := Some (p_tx p); g_hd := p_hd p; g_extra := []; g_net := o |} Hex
                  (fun _ _ => eq_refl)) as L.
    cbn in L. rewrite dins_nil_sorted in L by exact Ces. exact L. }
  destruct (R fuel Hf) as [f' [Hf' E]]. exists o. split.
  - subst o. destruct (p_hd p); [now left|now right].
  - fold st0. rewrite E. destruct f' as [|f'']; [cbn in Hf'; lia|].
    cbn [global_loop]. rewrite read_varstr_zero. reflexivity.
Qed.
End Global.

(* ---- inputs and outputs in sequence ---- *)
Section Whole.
Variable hash160 sha256 hash256 : bytes -> bytes.
Variable sec_ok : bytes -> bool.
Variable sig_parse_ok : bytes -> bytes -> bool.
Variable ecdsa_verify : bytes -> Z -> bytes -> bool.
Variable sighash_legacy : tx -> Z -> option script -> result Z.
Variable sighash_segwit : tx -> Z -> option script -> option script -> result Z.
Variable verify_input : tx -> Z -> script -> option (list bytes) -> result bool.
Variable descends : hd_pub -> bytes -> bytes -> bool.
Variable N : net.

Notation val := (validate hash160 sha256 hash256 sig_parse_ok ecdsa_verify
                   sighash_legacy sighash_segwit verify_input descends).
Notation PARSE := (psbt_parse hash160 sha256 hash256 sec_ok sig_parse_ok ecdsa_verify
                     sighash_legacy sighash_segwit verify_input descends).

(* canonical input / output under either network state the parser can be in *)
Definition can_in (ti : txin) (st : psbt_in) : Prop :=
  (forall o, net_inv N o -> canon_in sec_ok o ti st) /\ Forall (path_on N) (dvals (pi_named st)).
Definition can_out (st : psbt_out) : Prop :=
  (forall o, net_inv N o -> canon_out sec_ok o st) /\ Forall (path_on N) (dvals (po_named st)).

Lemma ins_parse_roundtrip : forall ins tis,
  Forall2 (fun st ti => can_in ti st /\ in_validate hash160 sha256 hash256 st ti = Ok tt) ins tis ->
  forall b rest o acc, concat_res (map in_serialize ins) = Ok b -> net_inv N o ->
  exists o', net_inv N o' /\
    ins_parse hash160 sha256 hash256 sec_ok o tis (b ++ rest) acc = Ok (rev acc ++ ins, o', rest).
Proof.
  induction 1 as [|st ti ins tis [[Hc Hpaths] Hv] Hrest IH]; intros b rest o acc Hb Ho.
  - cbn in Hb. inversion Hb; subst. exists o. split; [exact Ho|]. cbn. now rewrite app_nil_r.
  - cbn [map concat_res] in Hb.
    destruct (in_serialize st) as [b1|] eqn:E1; cbn [bind] in Hb; [|discriminate].
    destruct (concat_res (map in_serialize ins)) as [b2|] eqn:E2; cbn [bind] in Hb; [|discriminate].
    inversion Hb; subst b.
    cbn [ins_parse]. unfold in_parse. rewrite <- app_assoc.
    rewrite (in_loop_roundtrip sec_ok o ti st b1 (Hc o Ho) E1 (b2 ++ rest) _ (Nat.lt_succ_diag_r _)).
    cbn [bind]. rewrite Hv. cbn [bind].
    destruct (mix_net_inv N o (dvals (pi_named st)) Ho Hpaths) as [o1 [Hm Ho1]].
    rewrite Hm. cbn [bind].
    destruct (IH b2 rest o1 (st :: acc) eq_refl Ho1) as [o' [Ho' E]].
    exists o'. split; [exact Ho'|]. rewrite E. cbn [rev]. now rewrite <- app_assoc.
Qed.

Lemma outs_parse_roundtrip : forall outs tos,
  Forall2 (fun st to => can_out st /\ out_validate hash160 sha256 st to = Ok tt) outs tos ->
  forall b rest o acc, concat_res (map out_serialize outs) = Ok b -> net_inv N o ->
  exists o', net_inv N o' /\
    outs_parse hash160 sha256 sec_ok o tos (b ++ rest) acc = Ok (rev acc ++ outs, o', rest).
Proof.
  induction 1 as [|st to outs tos [[Hc Hpaths] Hv] Hrest IH]; intros b rest o acc Hb Ho.
  - cbn in Hb. inversion Hb; subst. exists o. split; [exact Ho|]. cbn. now rewrite app_nil_r.
  - cbn [map concat_res] in Hb.
    destruct (out_serialize st) as [b1|] eqn:E1; cbn [bind] in Hb; [|discriminate].
    destruct (concat_res (map out_serialize outs)) as [b2|] eqn:E2; cbn [bind] in Hb; [|discriminate].
    inversion Hb; subst b.
    cbn [outs_parse]. unfold out_parse. rewrite <- app_assoc.
    rewrite (out_loop_roundtrip sec_ok o st b1 (Hc o Ho) E1 (b2 ++ rest) _ (Nat.lt_succ_diag_r _)).
    cbn [bind]. rewrite Hv. cbn [bind].
    destruct (mix_net_inv N o (dvals (po_named st)) Ho Hpaths) as [o1 [Hm Ho1]].
    rewrite Hm. cbn [bind].
    destruct (IH b2 rest o1 (st :: acc) eq_refl Ho1) as [o' [Ho' E]].
    exists o'. split; [exact Ho'|]. rewrite E. cbn [rev]. now rewrite <- app_assoc.
Qed.

(* what validate establishes for the single maps *)
Lemma ins_validate_each t hds : forall ins tis i0,
  ins_validate hash160 sha256 hash256 sig_parse_ok ecdsa_verify sighash_legacy sighash_segwit
               verify_input descends t hds i0 ins tis = Ok tt ->
  Forall2 (fun st ti => in_validate hash160 sha256 hash256 st ti = Ok tt) ins tis.
Proof.
  induction ins as [|st ins IH]; intros [|ti tis] i0 H; cbn in H; try discriminate; [constructor|].
  apply bind_ok in H as [u [H1 H]]. destruct u. constructor; [|eapply IH; exact H].
  unfold in_full_validate in H1. apply bind_ok in H1 as [u [H1 _]]. destruct u. exact H1.
Qed.

Lemma outs_validate_each hds : forall outs tos,
  outs_validate hash160 sha256 descends hds outs tos = Ok tt ->
  Forall2 (fun st to => out_validate hash160 sha256 st to = Ok tt) outs tos.
Proof.
  induction outs as [|st outs IH]; intros [|to tos] H; cbn in H; try discriminate; [constructor|].
  apply bind_ok in H as [u [H1 H]]. destruct u. apply bind_ok in H as [u [_ H]].
  constructor; [exact H1|eapply IH; exact H].
Qed.

Lemma Forall2_and {A B} (P Q : A -> B -> Prop) l l' :
  Forall2 P l l' -> Forall2 Q l l' -> Forall2 (fun a b => P a b /\ Q a b) l l'.
Proof. intros H. induction H; intros H'; inversion H'; subst; constructor; auto. Qed.

Record canonical (p : psbt) : Prop := {
  cn_global : canon_global sec_ok N p;
  cn_ins : Forall2 (fun st ti => can_in ti st) (p_ins p) (t_ins (p_tx p));
  cn_outs : Forall2 (fun st (_ : txout) => can_out st) (p_outs p) (t_outs (p_tx p)) }.

(* (2) parse inverts serialize on canonical, validated PSBTs *)
Lemma psbt_parse_serialize p b :
  canonical p -> val p = Ok tt -> psbt_serialize p = Ok b ->
  exists o, PARSE b = Ok (p, o).
Proof.
  intros [Cg Ci Co] Hval Hb.
  unfold psbt_serialize in Hb. apply bind_ok in Hb as [g [Hg Hb]].
  apply bind_ok in Hb as [ins [Hins Hb]]. apply bind_ok in Hb as [outs [Houts Hb]]. inversion Hb; subst b.
  unfold psbt_parse.
  change (read 5 (112 :: 115 :: 98 :: 116 :: 255 :: g ++ ins ++ outs)) with (magic, g ++ ins ++ outs).
  cbv beta iota zeta.
  rewrite (eq_refl : check (beq (firstn 4 magic) (firstn 4 magic)) = Ok tt).
  rewrite (eq_refl : check (beq (skipn 4 magic) [255]) = Ok tt). cbn [bind].
  destruct (global_loop_roundtrip sec_ok N p g Cg Hg (ins ++ outs) _ (Nat.lt_succ_diag_r _)) as [o0 [Ho0 EG]].
  rewrite EG. cbn [bind g_tx g_net g_hd g_extra].
  pose proof Hval as Hv. unfold validate in Hv.
  apply bind_ok in Hv as [u0 [_ Hv]]. apply bind_ok in Hv as [u1 [Hvi Hv]]. destruct u1.
  apply bind_ok in Hv as [u2 [_ Hvo]].
  apply ins_validate_each in Hvi. apply outs_validate_each in Hvo.
  destruct (ins_parse_roundtrip (p_ins p) (t_ins (p_tx p)) (Forall2_and _ _ _ _ Ci Hvi) ins outs o0 [] Hins Ho0)
    as [o1 [Ho1 EI]].
  rewrite EI. cbn [bind rev app].
  assert (Co' : Forall2 (fun st to => can_out st /\ out_validate hash160 sha256 st to = Ok tt)
                        (p_outs p) (t_outs (p_tx p))) by (apply Forall2_and; assumption).
  destruct (outs_parse_roundtrip (p_outs p) (t_outs (p_tx p)) Co' outs [] o1 [] Houts Ho1) as [o2 [Ho2 EO]].
  rewrite app_nil_r in EO. rewrite EO. cbn [bind rev app].
  assert (Ep : {| p_tx := p_tx p; p_ins := p_ins p; p_outs := p_outs p; p_hd := p_hd p; p_extra := p_extra p |} = p)
    by (destruct p; reflexivity).
  rewrite Ep, Hval. cbn [bind]. eauto.
Qed.

Lemma psbt_reserialize_idempotent p b :
  canonical p -> val p = Ok tt -> psbt_serialize p = Ok b ->
  exists p' o, PARSE b = Ok (p', o) /\ psbt_serialize p' = Ok b.
Proof.
  intros C V S. destruct (psbt_parse_serialize p b C V S) as [o E]. exists p, o. auto.
Qed.
End Whole.
