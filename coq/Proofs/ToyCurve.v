(* Proofs/ToyCurve.v — the toy curve y^2 = x^3 + 7 over F_43: 31 points (prime order),
   generator (2,12), p = 43 = 3 mod 4 (so the (p+1)/4 square root works as on secp256k1).
   [group_laws toy] and [scalar_laws toy] are proved by exhaustive kernel computation
   (all points / pairs / triples, all scalars of a full period 0..30; all integers follow
   because rmul reduces mod n — see Proofs/CurveSweep.v).  Protocol theorems that assume
   [scalar_laws C] are instantiated here to show their hypotheses are satisfiable. *)
From Coq Require Import Znumtheory.
From V Require Import Base.Prelude Base.Ints Model.Pecc Proofs.GroupHyp Proofs.CurveSweep.

Definition toy : curve := {| cp := 43; ca := 0; cb := 7; cn := 31; cgx := 2; cgy := 12 |}.

Lemma toy_p_prime_b : prime_b (cp toy) = true. Proof. vm_cast_no_check (eq_refl true). Qed.
Lemma toy_n_prime_b : prime_b (cn toy) = true. Proof. vm_cast_no_check (eq_refl true). Qed.
Lemma toy_p_prime : prime (cp toy). Proof. apply prime_b_sound, toy_p_prime_b. Qed.
Lemma toy_n_prime : prime (cn toy). Proof. apply prime_b_sound, toy_n_prime_b. Qed.
Lemma toy_p_mod4 : cp toy mod 4 = 3. Proof. reflexivity. Qed.

(* 30 affine points + infinity *)
Lemma toy_points_count : length (points toy) = 31%nat. Proof. vm_compute. reflexivity. Qed.

Lemma toy_G_valid_b : validb toy (G toy) = true. Proof. vm_cast_no_check (eq_refl true). Qed.
Lemma toy_G_not_inf : G toy <> None. Proof. discriminate. Qed.

Lemma toy_add_ok : chk_add_ok toy = true. Proof. vm_cast_no_check (eq_refl true). Qed.
Lemma toy_comm : chk_comm toy = true. Proof. vm_cast_no_check (eq_refl true). Qed.
Lemma toy_assoc : chk_assoc toy = true. Proof. vm_cast_no_check (eq_refl true). Qed.
Lemma toy_neg : chk_neg toy = true. Proof. vm_cast_no_check (eq_refl true). Qed.
Lemma toy_double : chk_double toy = true. Proof. vm_cast_no_check (eq_refl true). Qed.
Lemma toy_order : chk_order toy = true. Proof. vm_cast_no_check (eq_refl true). Qed.
Lemma toy_G_order : chk_G_order toy = true. Proof. vm_cast_no_check (eq_refl true). Qed.
Lemma toy_mul_ok : chk_mul_ok toy = true. Proof. vm_cast_no_check (eq_refl true). Qed.
Lemma toy_mul_add : chk_mul_add toy = true. Proof. vm_cast_no_check (eq_refl true). Qed.
Lemma toy_mul_mul : chk_mul_mul toy = true. Proof. vm_cast_no_check (eq_refl true). Qed.
Lemma toy_mul_addT : chk_mul_addT toy = true. Proof. vm_cast_no_check (eq_refl true). Qed.
Lemma toy_mul_neg1 : chk_mul_neg1 toy = true. Proof. vm_cast_no_check (eq_refl true). Qed.
Lemma toy_mul_1 : chk_mul_1 toy = true. Proof. vm_cast_no_check (eq_refl true). Qed.
Lemma toy_no_y0 : chk_no_y0 toy = true. Proof. vm_cast_no_check (eq_refl true). Qed.
Lemma toy_same_x : chk_same_x toy = true. Proof. vm_cast_no_check (eq_refl true). Qed.

Theorem toy_group_laws : group_laws toy.
Proof.
  apply group_laws_of_checks.
  - exact toy_p_prime_b.
  - reflexivity.
  - exact toy_n_prime_b.
  - reflexivity.
  - exact toy_G_valid_b.
  - exact toy_G_not_inf.
  - exact toy_add_ok.
  - exact toy_comm.
  - exact toy_assoc.
  - exact toy_neg.
  - exact toy_order.
  - exact toy_G_order.
Qed.

Theorem toy_scalar_laws : scalar_laws toy.
Proof.
  apply scalar_laws_of_checks.
  - exact toy_p_prime_b.
  - reflexivity.
  - exact toy_n_prime_b.
  - reflexivity.
  - exact toy_G_valid_b.
  - exact toy_G_not_inf.
  - exact toy_add_ok.
  - exact toy_comm.
  - exact toy_assoc.
  - exact toy_neg.
  - exact toy_G_order.
  - exact toy_mul_ok.
  - exact toy_mul_add.
  - exact toy_mul_mul.
  - exact toy_mul_addT.
  - exact toy_mul_neg1.
  - exact toy_mul_1.
  - exact toy_no_y0.
  - exact toy_same_x.
Qed.

(* handy concrete facts for instantiations *)
Lemma toy_G_valid : valid toy (G toy).
Proof. apply validb_valid, toy_G_valid_b. Qed.

Print Assumptions toy_group_laws.
Print Assumptions toy_scalar_laws.
