(* Proofs/PsbtUpdateValidP.v — the Updater on a blank input map (what the Creator hands over) with
   CONSISTENT lookups leaves an input that PSBTIn.validate accepts, for every script type:
   what update() adds is consistent with the transaction. *)
From V Require Import Base.Prelude Base.Ints Model.Helper Model.Script Model.Tx Model.Psbt
  Model.PsbtUpdate Proofs.PsbtDictP Proofs.PsbtFinalP Proofs.PsbtFinal2P Proofs.P2shP Proofs.VerifyNestedP.

Definition pk_cmds_ok (pk : pk_lookup) (cs : list cmd) : Prop :=
  forall c sec path, In c cs -> cmd_get pk c = Some (sec, path) -> c = Push sec.

Section UV.
Variable hash160 sha256 hash256 : bytes -> bytes.

Record lookups_ok (txl : dict tx) (pk : pk_lookup) (rl wl : dict script) : Prop := {
  (* tx_lookup[id] has that id *)
  lk_tx : forall k t, dget txl k = Some t -> tx_hash hash256 t = Ok k;
  (* redeem_lookup[h] hashes to h, witness_lookup[s] hashes to s *)
  lk_redeem : forall h r, dget rl h = Some r -> script_h160 hash160 r = Ok h;
  lk_witness : forall s w, dget wl s = Some w -> script_s256 sha256 w = Ok s;
  (* pubkey_lookup[hash160(sec)] is the key with that hash, pubkey_lookup[sec] is the key sec *)
  lk_pk_hash : forall h sec path, length h = 20%nat -> dget pk h = Some (sec, path) -> hash160 sec = h;
  lk_pk_wit : forall s w, dget wl s = Some w -> pk_cmds_ok pk (s_cmds w);
  lk_pk_red : forall h r, dget rl h = Some r ->
                is_p2wpkh (s_cmds r) = false -> is_p2wsh (s_cmds r) = false -> pk_cmds_ok pk (s_cmds r) }.

Lemma dkeys_dset {V} k (v : V) m x : In x (dkeys (dset k v m)) -> x = k \/ In x (dkeys m).
Proof.
  induction m as [|[k0 v0] r IH]; cbn.
  - intros [<-|[]]. now left.
  - destruct (bcmp k k0) eqn:E; cbn.
    + intros [<-|H]; [now left|]. right. now right.
    + intros [<-|[<-|H]]; [now left|right; now left|right; now right].
    + intros [<-|H]; [right; now left|]. destruct (IH H) as [->|H']; [now left|right; now right].
Qed.

Lemma in_cmds_push cs b : In (Push b) cs -> in_cmds cs b = true.
Proof.
  intros H. unfold in_cmds. apply existsb_exists. exists (Push b). split; [exact H|]. cbn. apply beq_refl.
Qed.

Lemma named_add_all_in_script pk cs0 : forall cs acc,
  pk_cmds_ok pk cs0 -> incl cs cs0 ->
  (forall k, In k (dkeys acc) -> in_cmds cs0 k = true) ->
  forall k, In k (dkeys (named_add_all pk cs acc)) -> in_cmds cs0 k = true.
Proof.
  unfold named_add_all. induction cs as [|c r IH]; intros acc Hok Hi Ha k Hk; cbn [fold_left] in Hk; [now apply Ha|].
  apply (IH (named_add pk c acc)); try assumption.
  - intros x Hx. apply Hi. now right.
  - intros x Hx. unfold named_add in Hx. destruct (cmd_get pk c) as [[sec path]|] eqn:E; [|now apply Ha].
    apply dkeys_dset in Hx as [->|Hx]; [|now apply Ha].
    apply in_cmds_push. rewrite <- (Hok c sec path); [apply Hi; now left|apply Hi; now left|exact E].
Qed.

Lemma forallb_in_cmds pk cs :
  pk_cmds_ok pk cs -> forallb (in_cmds cs) (dkeys (named_add_all pk cs [])) = true.
Proof.
  intros H. apply forallb_forall. intros k Hk.
  eapply named_add_all_in_script; eauto; [apply incl_refl|intros x []].
Qed.

(* the single-key derivation check after named_add *)
Lemma single_key_after_add pk cs idx h :
  nth_error cs idx = Some (Push h) -> length h = 20%nat ->
  (forall sec path, dget pk h = Some (sec, path) -> hash160 sec = h) ->
  single_key_check hash160 (named_add pk (Push h) []) cs idx = Ok tt.
Proof.
  intros Hn Hl Hpk. unfold named_add. cbn [cmd_get]. destruct (dget pk h) as [[sec path]|] eqn:E; [|reflexivity].
  cbn [dset single_key_check]. unfold cmd_at_is. rewrite Hn. cbn [bind cmd_is_push].
  rewrite (Hpk sec path eq_refl). now rewrite beq_refl.
Qed.


Definition mk_in ptx pout redeem wscript named : psbt_in :=
  {| pi_prev_tx := ptx; pi_prev_out := pout; pi_sigs := []; pi_hash_type := None; pi_redeem := redeem;
     pi_wscript := wscript; pi_named := named; pi_script_sig := None; pi_witness := None; pi_extra := [] |}.

Notation inval := (in_validate hash160 sha256 hash256).

Ltac unf := unfold in_validate, in_script_pubkey, mk_in;
  cbn [pi_prev_tx pi_prev_out pi_sigs pi_hash_type pi_redeem pi_wscript pi_named pi_script_sig pi_witness pi_extra
       is_some opt_is orb andb bind check negb].

Lemma L_none ti redeem_none : redeem_none = None -> inval (mk_in None None redeem_none None []) ti = Ok tt.
Proof. intros ->. reflexivity. Qed.

Lemma wpkh_not_others cs : is_p2wpkh cs = true -> is_p2sh cs = false /\ is_p2wsh cs = false.
Proof. intros H. destruct (is_p2wpkh_inv _ H) as [p [-> L]]. cbn. rewrite L. split; reflexivity. Qed.

Lemma wsh_not_others cs : is_p2wsh cs = true -> is_p2sh cs = false /\ is_p2wpkh cs = false.
Proof. intros H. destruct (is_p2wsh_inv _ H) as [p [-> L]]. cbn. rewrite L. split; reflexivity. Qed.

Lemma L_wpkh ti po named :
  is_p2wpkh (s_cmds (o_script po)) = true ->
  single_key_check hash160 named (s_cmds (o_script po)) 1 = Ok tt ->
  inval (mk_in None (Some po) None None named) ti = Ok tt.
Proof.
  intros Hw Hk. destruct (wpkh_not_others _ Hw) as [H1 H2]. unf. rewrite H1, H2, Hw. cbn [orb check bind]. exact Hk.
Qed.

Lemma L_wsh_bare ti po :
  is_p2wsh (s_cmds (o_script po)) = true -> inval (mk_in None (Some po) None None []) ti = Ok tt.
Proof.
  intros Hw. destruct (wsh_not_others _ Hw) as [H1 H2]. unf. rewrite H1, H2, Hw. reflexivity.
Qed.

Lemma L_wsh ti po x w named :
  s_cmds (o_script po) = p2wsh_script x -> length x = 32%nat ->
  script_s256 sha256 w = Ok x -> forallb (in_cmds (s_cmds w)) (dkeys named) = true ->
  inval (mk_in None (Some po) None (Some w) named) ti = Ok tt.
Proof.
  intros Hc Hl Hs Hf. unf. rewrite Hc. unfold p2wsh_script. cbn [is_p2sh is_p2wsh is_p2wpkh]. rewrite Hl.
  cbn [Nat.eqb orb check bind]. rewrite Hs. cbn [bind]. unfold cmd_at_is. cbn [nth_error cmd_is_push bind].
  rewrite beq_refl. cbn [check bind]. rewrite Hf. reflexivity.
Qed.

Lemma L_sh_wpkh ti po h r named :
  s_cmds (o_script po) = p2sh_script h -> length h = 20%nat ->
  is_p2wpkh (s_cmds r) = true -> script_h160 hash160 r = Ok h ->
  single_key_check hash160 named (s_cmds r) 1 = Ok tt ->
  inval (mk_in None (Some po) (Some r) None named) ti = Ok tt.
Proof.
  intros Hc Hl Hw Hh Hk. unf. rewrite Hc. unfold p2sh_script. cbn [is_p2sh is_p2wsh is_p2wpkh]. rewrite Hl.
  cbn [Nat.eqb orb check bind]. unfold is_witness_prog. rewrite Hw. cbn [orb check bind]. rewrite Hh. cbn [bind].
  unfold cmd_at_is. cbn [nth_error cmd_is_push bind]. rewrite beq_refl. cbn [check bind]. exact Hk.
Qed.

Lemma L_sh_wsh_bare ti po h r :
  s_cmds (o_script po) = p2sh_script h -> length h = 20%nat ->
  is_p2wsh (s_cmds r) = true -> script_h160 hash160 r = Ok h ->
  inval (mk_in None (Some po) (Some r) None []) ti = Ok tt.
Proof.
  intros Hc Hl Hw Hh. destruct (wsh_not_others _ Hw) as [_ H2].
  unf. rewrite Hc. unfold p2sh_script. cbn [is_p2sh is_p2wsh is_p2wpkh]. rewrite Hl.
  cbn [Nat.eqb orb check bind]. unfold is_witness_prog. rewrite Hw, H2. cbn [orb check bind]. rewrite Hh. cbn [bind].
  unfold cmd_at_is. cbn [nth_error cmd_is_push bind]. rewrite beq_refl. reflexivity.
Qed.

Lemma L_sh_wsh ti po h r x w named :
  s_cmds (o_script po) = p2sh_script h -> length h = 20%nat ->
  s_cmds r = p2wsh_script x -> length x = 32%nat -> script_h160 hash160 r = Ok h ->
  script_s256 sha256 w = Ok x -> forallb (in_cmds (s_cmds w)) (dkeys named) = true ->
  inval (mk_in None (Some po) (Some r) (Some w) named) ti = Ok tt.
Proof.
  intros Hc Hl Hr Hlx Hh Hs Hf.
  unf. rewrite Hc, Hr. unfold p2sh_script, p2wsh_script, is_witness_prog. cbn [is_p2sh is_p2wsh is_p2wpkh]. rewrite Hl, Hlx.
  cbn [Nat.eqb orb check bind]. rewrite Hh. cbn [bind].
  unfold cmd_at_is. cbn [nth_error cmd_is_push bind]. rewrite beq_refl. cbn [check bind].
  rewrite Hs. cbn [bind]. rewrite beq_refl. cbn [check bind]. rewrite Hf. reflexivity.
Qed.

Lemma L_sh ti t po h r named :
  tx_hash hash256 t = Ok (i_prev_tx ti) -> nthz (t_outs t) (i_prev_index ti) = Some po ->
  s_cmds (o_script po) = p2sh_script h -> length h = 20%nat ->
  is_p2wpkh (s_cmds r) = false -> is_p2wsh (s_cmds r) = false -> script_h160 hash160 r = Ok h ->
  forallb (in_cmds (s_cmds r)) (dkeys named) = true ->
  inval (mk_in (Some t) None (Some r) None named) ti = Ok tt.
Proof.
  intros Ht Hn Hc Hl H1 H2 Hh Hf.
  unf. rewrite Hn. cbn [bind]. rewrite Ht. cbn [bind]. rewrite beq_refl. cbn [check bind].
  unfold is_witness_prog. rewrite H1, H2. cbn [orb andb]. rewrite Hc. unfold p2sh_script. cbn [is_p2sh]. rewrite Hl.
  cbn [Nat.eqb check bind negb]. rewrite Hh. cbn [bind].
  unfold cmd_at_is. cbn [nth_error cmd_is_push bind]. rewrite beq_refl. cbn [check bind]. rewrite Hf. reflexivity.
Qed.

Lemma L_pkh ti t po named :
  tx_hash hash256 t = Ok (i_prev_tx ti) -> nthz (t_outs t) (i_prev_index ti) = Some po ->
  is_p2pkh (s_cmds (o_script po)) = true ->
  single_key_check hash160 named (s_cmds (o_script po)) 2 = Ok tt ->
  inval (mk_in (Some t) None None None named) ti = Ok tt.
Proof.
  intros Ht Hn Hp Hk.
  unf. rewrite Hn. cbn [bind]. rewrite Ht. cbn [bind]. rewrite beq_refl. cbn [check bind].
  rewrite Hp. exact Hk.
Qed.

Lemma is_p2pkh_inv cs : is_p2pkh cs = true -> exists h, cs = p2pkh_script h /\ length h = 20%nat.
Proof.
  intros H. destruct cs as [|[a|?] cs]; [discriminate H| |discriminate H].
  assert (Ha : a = 118).
  { destruct a as [|a|a]; try (cbn in H; discriminate H);
      repeat (destruct a as [a|a|]; try (cbn in H; discriminate H)); reflexivity. }
  subst a. destruct cs as [|[b|?] cs]; try discriminate H.
  assert (Hb : b = 169).
  { destruct b as [|b|b]; try (cbn in H; discriminate H);
      repeat (destruct b as [b|b|]; try (cbn in H; discriminate H)); reflexivity. }
  subst b. destruct cs as [|[?|h] cs]; try discriminate H.
  destruct cs as [|[c|?] cs]; try discriminate H.
  assert (Hc : c = 136).
  { destruct c as [|c|c]; try (cbn in H; discriminate H);
      repeat (destruct c as [c|c|]; try (cbn in H; discriminate H)); reflexivity. }
  subst c. destruct cs as [|[d|?] cs]; try discriminate H.
  assert (Hd : d = 172).
  { destruct d as [|d|d]; try (cbn in H; discriminate H);
      repeat (destruct d as [d|d|]; try (cbn in H; discriminate H)); reflexivity. }
  subst d. destruct cs; [|discriminate H]. exists h. split; [reflexivity|]. cbn in H. now apply Nat.eqb_eq.
Qed.

Theorem in_update_blank_validates txl pk rl wl ti st' :
  lookups_ok txl pk rl wl ->
  in_update txl pk rl wl empty_in ti = Ok st' -> inval st' ti = Ok tt.
Proof.
  intros [Ktx Krd Kwt Kph Kpw Kpr] H. unfold in_update in H.
  cbn [empty_in pi_prev_tx pi_prev_out pi_redeem pi_wscript pi_named orelse_opt] in H.
  destruct (dget txl (i_prev_tx ti)) as [t|] eqn:Et.
  2:{ cbn [bind] in H. inversion H; subst. reflexivity. }
  destruct (nthz (t_outs t) (i_prev_index ti)) as [po|] eqn:En; [|discriminate].
  cbn [bind] in H. pose proof (Ktx _ _ Et) as Htx.
  destruct (is_p2sh (s_cmds (o_script po))) eqn:Psh.
  - (* P2SH output *)
    destruct (is_p2sh_inv _ Psh) as (h & Ecs & Lh). apply Nat.eqb_eq in Lh.
    rewrite Ecs in H. cbn [cmd_nth nth_error bind cmd_get] in H.
    destruct (dget rl h) as [r|] eqn:Er; cbn [is_some negb andb opt_is orb is_p2wpkh is_p2wsh] in H.
    2:{ inversion H; subst. reflexivity. }
    pose proof (Krd _ _ Er) as Hh.
    destruct (is_p2wpkh (s_cmds r)) eqn:Rw.
    + (* P2SH-P2WPKH *)
      destruct (is_p2wpkh_inv _ Rw) as [p [Ers Lp]]. rewrite Ers in H. cbn [p2wpkh_script cmd_nth nth_error bind] in H.
      inversion H; subst st'. clear H.
      apply (L_sh_wpkh ti po h r (named_add pk (Push p) [])); try assumption.
      rewrite Ers. apply single_key_after_add; [reflexivity|exact Lp|]. intros sec path. now apply Kph.
    + destruct (is_p2wsh (s_cmds r)) eqn:Rs.
      * (* P2SH-P2WSH *)
        destruct (is_p2wsh_inv _ Rs) as [x [Ers Lx]]. rewrite Ers in H. cbn [p2wsh_script cmd_nth nth_error bind cmd_get] in H.
        destruct (dget wl x) as [w|] eqn:Ew; inversion H; subst st'; clear H.
        -- apply (L_sh_wsh ti po h r x w (named_add_all pk (s_cmds w) [])); try assumption.
           ++ now apply Kwt.
           ++ apply forallb_in_cmds. eapply Kpw; eauto.
        -- apply (L_sh_wsh_bare ti po h r); assumption.
      * (* bare P2SH *)
        inversion H; subst st'. clear H.
        apply (L_sh ti t po h r (named_add_all pk (s_cmds r) [])); try assumption.
        apply forallb_in_cmds. eapply Kpr; eauto.
  - (* not P2SH: no RedeemScript *)
    cbn [bind andb opt_is orb] in H.
    destruct (is_p2wpkh (s_cmds (o_script po))) eqn:Pw.
    + destruct (is_p2wpkh_inv _ Pw) as [p [Ecs Lp]]. rewrite Ecs in H. cbn [p2wpkh_script cmd_nth nth_error bind] in H.
      inversion H; subst st'. clear H.
      apply (L_wpkh ti po (named_add pk (Push p) [])); [exact Pw|].
      rewrite Ecs. apply single_key_after_add; [reflexivity|exact Lp|]. intros sec path. now apply Kph.
    + cbn [orb] in H. destruct (is_p2wsh (s_cmds (o_script po))) eqn:Ps.
      * destruct (is_p2wsh_inv _ Ps) as [x [Ecs Lx]]. rewrite Ecs in H. cbn [p2wsh_script cmd_nth nth_error bind cmd_get] in H.
        destruct (dget wl x) as [w|] eqn:Ew; inversion H; subst st'; clear H.
        -- apply (L_wsh ti po x w (named_add_all pk (s_cmds w) [])); try assumption.
           ++ now apply Kwt.
           ++ apply forallb_in_cmds. eapply Kpw; eauto.
        -- apply (L_wsh_bare ti po); exact Ps.
      * destruct (is_p2pkh (s_cmds (o_script po))) eqn:Pk; [|discriminate].
        destruct (is_p2pkh_inv _ Pk) as [p [Ecs Lp]]. rewrite Ecs in H. cbn [p2pkh_script cmd_nth nth_error bind] in H.
        inversion H; subst st'. clear H.
        apply (L_pkh ti t po (named_add pk (Push p) [])); try assumption.
        rewrite Ecs. apply single_key_after_add; [reflexivity|exact Lp|]. intros sec path. now apply Kph.
Qed.

Notation outval := (out_validate hash160 sha256).

Ltac unfo := unfold out_validate;
  cbn [po_redeem po_wscript po_named po_extra is_some opt_is orb andb bind check negb].

Theorem out_update_blank_validates txl pk rl wl to st' :
  lookups_ok txl pk rl wl ->
  out_update pk rl wl empty_out to = Ok st' -> outval st' to = Ok tt.
Proof.
  intros [Ktx Krd Kwt Kph Kpw Kpr] H. unfold out_update in H.
  cbn [empty_out po_redeem po_wscript po_named po_extra] in H.
  destruct (is_p2sh (s_cmds (o_script to))) eqn:Psh.
  - destruct (is_p2sh_inv _ Psh) as (h & Ecs & Lh). apply Nat.eqb_eq in Lh.
    rewrite Ecs in H. cbn [cmd_nth nth_error bind cmd_get orelse_opt] in H.
    destruct (dget rl h) as [r|] eqn:Er; cbn [is_some negb andb opt_is orb is_p2wpkh is_p2wsh] in H.
    2:{ inversion H; subst. unfo. rewrite Ecs. reflexivity. }
    pose proof (Krd _ _ Er) as Hh.
    destruct (is_p2wpkh (s_cmds r)) eqn:Rw.
    + destruct (is_p2wpkh_inv _ Rw) as [p [Ers Lp]]. rewrite Ers in H. cbn [p2wpkh_script cmd_nth nth_error bind] in H.
      inversion H; subst st'. clear H. unfo. rewrite Ecs. cbn [is_p2pkh is_p2wpkh is_p2sh]. rewrite Lh. cbn [Nat.eqb check bind].
      rewrite Hh. cbn [bind]. unfold cmd_at_is at 1. cbn [nth_error cmd_is_push bind]. rewrite beq_refl. cbn [check bind].
      rewrite Rw. rewrite Ers. apply single_key_after_add; [reflexivity|exact Lp|]. intros sec path. now apply Kph.
    + destruct (is_p2wsh (s_cmds r)) eqn:Rs.
      * destruct (is_p2wsh_inv _ Rs) as [x [Ers Lx]]. rewrite Ers in H. cbn [p2wsh_script cmd_nth nth_error bind cmd_get] in H.
        destruct (dget wl x) as [w|] eqn:Ew; inversion H; subst st'; clear H; unfo; rewrite Ecs;
          cbn [is_p2pkh is_p2wpkh is_p2sh]; rewrite Lh; cbn [Nat.eqb check bind andb].
        -- rewrite Rs. cbn [check bind]. rewrite Hh. cbn [bind]. unfold cmd_at_is at 1. cbn [nth_error cmd_is_push bind].
           rewrite beq_refl. cbn [check bind]. rewrite (Kwt _ _ Ew). cbn [bind]. rewrite Ers. unfold cmd_at_is, p2wsh_script.
           cbn [nth_error cmd_is_push bind]. rewrite beq_refl. cbn [check bind].
           rewrite forallb_in_cmds; [reflexivity|]. eapply Kpw; eauto.
        -- rewrite Hh. cbn [bind]. unfold cmd_at_is. cbn [nth_error cmd_is_push bind]. rewrite beq_refl. cbn [check bind].
           rewrite Rw. reflexivity.
      * inversion H; subst st'. clear H. unfo. rewrite Ecs. cbn [is_p2pkh is_p2wpkh is_p2sh]. rewrite Lh. cbn [Nat.eqb check bind].
        rewrite Hh. cbn [bind]. unfold cmd_at_is. cbn [nth_error cmd_is_push bind]. rewrite beq_refl. cbn [check bind].
        rewrite Rw. rewrite forallb_in_cmds; [reflexivity|]. eapply Kpr; eauto.
  - cbn [bind andb opt_is orb] in H.
    destruct (is_p2wpkh (s_cmds (o_script to))) eqn:Pw.
    + destruct (is_p2wpkh_inv _ Pw) as [p [Ecs Lp]]. rewrite Ecs in H. cbn [p2wpkh_script cmd_nth nth_error bind] in H.
      inversion H; subst st'. clear H. unfo. rewrite Ecs. unfold p2wpkh_script. cbn [is_p2pkh is_p2wpkh]. rewrite Lp.
      cbn [Nat.eqb check bind]. apply single_key_after_add; [reflexivity|exact Lp|]. intros sec path. now apply Kph.
    + cbn [orb] in H. destruct (is_p2wsh (s_cmds (o_script to))) eqn:Ps.
      * destruct (is_p2wsh_inv _ Ps) as [x [Ecs Lx]]. rewrite Ecs in H. cbn [p2wsh_script cmd_nth nth_error bind cmd_get] in H.
        destruct (dget wl x) as [w|] eqn:Ew; inversion H; subst st'; clear H; unfo; rewrite Ecs; unfold p2wsh_script;
          cbn [is_p2pkh is_p2wpkh is_p2wsh]; rewrite Lx; cbn [Nat.eqb check bind].
        -- rewrite (Kwt _ _ Ew). cbn [bind]. unfold cmd_at_is. cbn [nth_error cmd_is_push bind]. rewrite beq_refl.
           cbn [check bind]. rewrite forallb_in_cmds; [reflexivity|]. eapply Kpw; eauto.
        -- reflexivity.
      * destruct (is_p2pkh (s_cmds (o_script to))) eqn:Pk.
        -- destruct (is_p2pkh_inv _ Pk) as [p [Ecs Lp]]. rewrite Ecs in H. cbn [p2pkh_script cmd_nth nth_error bind] in H.
           inversion H; subst st'. clear H. unfo. rewrite Ecs. unfold p2pkh_script. cbn [is_p2pkh]. rewrite Lp.
           cbn [Nat.eqb check bind]. apply single_key_after_add; [reflexivity|exact Lp|]. intros sec path. now apply Kph.
        -- inversion H; subst st'. clear H. unfo. rewrite Pk, Pw. reflexivity.
Qed.
End UV.
