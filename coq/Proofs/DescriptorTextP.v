(* Proofs/DescriptorTextP.v — the text layer of buidl/descriptor.py (Model/DescriptorText.v):
   int() reads back what an f-string prints, split / join, the key-record regular expression
   on the text the constructor prints, and the refinement of the structured parser
   (Model/Descriptor.v parse_struct) by the parser on text (parse_groups). *)
From Coq Require Import String Permutation DecimalPos DecimalFacts.
From V Require Import Base.Prelude Base.Disp Generated.DescConsts Model.Descriptor
  Model.DescriptorText Proofs.DescChecksumP Proofs.DescDetectP Proofs.DescriptorP.
Open Scope Z_scope.

(* ------------------------------------------------------------------ f"{n}" and int() *)

Definition digitP (c : Z) : Prop := 48 <= c <= 57.

Lemma digit_is c : digitP c -> is_digit c = true.
Proof. unfold digitP, is_digit. intros H. apply andb_true_iff. split; apply Z.leb_le; lia. Qed.

Lemma uint_digits_digits d : Forall digitP (uint_digits d).
Proof. induction d; cbn [uint_digits]; constructor; auto; unfold digitP; lia. Qed.

Lemma uint_digits_length d : length (uint_digits d) = Decimal.nb_digits d.
Proof. induction d; cbn [uint_digits Decimal.nb_digits length]; congruence. Qed.

(* the accumulator loop of int() on a digit string is Pos.of_uint_acc *)
Lemma dig_acc_pos d : forall acc,
  dig_acc (Z.pos acc) true (uint_digits d) = Ok (Z.pos (Pos.of_uint_acc d acc)).
Proof.
  induction d; intros acc; cbn [uint_digits Pos.of_uint_acc]; [reflexivity| | | | | | | | | |];
    cbn [dig_acc]; (rewrite digit_is by (unfold digitP; lia));
    match goal with
    | |- dig_acc ?a true _ = Ok (Z.pos (Pos.of_uint_acc _ ?b)) =>
        replace a with (Z.pos b) by lia; apply IHd
    end.
Qed.

Lemma dig_acc_zero d : forall p, p = true \/ d <> Decimal.Nil ->
  dig_acc 0 p (uint_digits d) = Ok (Z.of_N (Pos.of_uint d)).
Proof.
  induction d; intros p Hp; cbn [uint_digits Pos.of_uint].
  - destruct Hp as [->|N]; [reflexivity|congruence].
  - cbn [dig_acc]. rewrite digit_is by (unfold digitP; lia). change (0 * 10 + (48 - 48)) with 0.
    apply IHd. now left.
  - cbn [dig_acc]. rewrite digit_is by (unfold digitP; lia). exact (dig_acc_pos d 1).
  - cbn [dig_acc]. rewrite digit_is by (unfold digitP; lia). exact (dig_acc_pos d 2).
  - cbn [dig_acc]. rewrite digit_is by (unfold digitP; lia). exact (dig_acc_pos d 3).
  - cbn [dig_acc]. rewrite digit_is by (unfold digitP; lia). exact (dig_acc_pos d 4).
  - cbn [dig_acc]. rewrite digit_is by (unfold digitP; lia). exact (dig_acc_pos d 5).
  - cbn [dig_acc]. rewrite digit_is by (unfold digitP; lia). exact (dig_acc_pos d 6).
  - cbn [dig_acc]. rewrite digit_is by (unfold digitP; lia). exact (dig_acc_pos d 7).
  - cbn [dig_acc]. rewrite digit_is by (unfold digitP; lia). exact (dig_acc_pos d 8).
  - cbn [dig_acc]. rewrite digit_is by (unfold digitP; lia). exact (dig_acc_pos d 9).
Qed.

(* number of decimal digits of a positive number: at most its number of bits *)
Lemma little_double_digits d :
  (Decimal.nb_digits (Decimal.Little.double d) <= S (Decimal.nb_digits d))%nat /\
  (Decimal.nb_digits (Decimal.Little.succ_double d) <= S (Decimal.nb_digits d))%nat.
Proof.
  induction d as [|d [I1 I2]|d [I1 I2]|d [I1 I2]|d [I1 I2]|d [I1 I2]|d [I1 I2]|d [I1 I2]|d [I1 I2]
                  |d [I1 I2]|d [I1 I2]];
    cbn [Decimal.Little.double Decimal.Little.succ_double Decimal.nb_digits]; split; lia.
Qed.

Lemma to_little_uint_digits p : (Decimal.nb_digits (Pos.to_little_uint p) <= Pos.size_nat p)%nat.
Proof.
  induction p as [p IH|p IH|]; cbn [Pos.to_little_uint Pos.size_nat].
  - pose proof (proj2 (little_double_digits (Pos.to_little_uint p))). lia.
  - pose proof (proj1 (little_double_digits (Pos.to_little_uint p))). lia.
  - cbn. lia.
Qed.

Lemma size_nat_bound p : forall n, Z.pos p < 2 ^ Z.of_nat n -> (Pos.size_nat p <= n)%nat.
Proof.
  induction p as [p IH|p IH|]; intros n H; cbn [Pos.size_nat].
  - destruct n as [|n]; [cbn in H; lia|]. rewrite Nat2Z.inj_succ, Z.pow_succ_r in H by lia.
    specialize (IH n). lia.
  - destruct n as [|n]; [cbn in H; lia|]. rewrite Nat2Z.inj_succ, Z.pow_succ_r in H by lia.
    specialize (IH n). lia.
  - destruct n as [|n]; [cbn in H; lia|]. lia.
Qed.

Lemma to_uint_digits p : Z.pos p < 2 ^ 4300 ->
  (Decimal.nb_digits (Pos.to_uint p) <= 4300)%nat.
Proof.
  intros H. unfold Pos.to_uint. rewrite nb_digits_rev.
  pose proof (to_little_uint_digits p).
  pose proof (size_nat_bound p 4300 ltac:(exact H)). lia.
Qed.

Lemma to_uint_nonnil p : Pos.to_uint p <> Decimal.Nil.
Proof.
  intros E. pose proof (Unsigned.of_to p) as H. rewrite E in H. cbn in H. discriminate.
Qed.

Lemma filter_digits s : Forall digitP s -> filter is_digit s = s.
Proof.
  induction 1 as [|c s Hc _ IH]; [reflexivity|]. cbn [filter]. now rewrite (digit_is c Hc), IH.
Qed.

Lemma dig_lim_to_uint p : Z.pos p < 2 ^ 4300 ->
  dig_lim (uint_digits (Pos.to_uint p)) = Ok (Z.pos p).
Proof.
  intros H. unfold dig_lim.
  rewrite (filter_digits _ (uint_digits_digits _)). unfold zlen. rewrite uint_digits_length.
  pose proof (to_uint_digits p H) as L.
  destruct (Z.ltb_spec 4300 (Z.of_nat (Decimal.nb_digits (Pos.to_uint p)))); [lia|].
  rewrite (dig_acc_zero _ false (or_intror (to_uint_nonnil p))), Unsigned.of_to. reflexivity.
Qed.

Lemma lstrip_int_hd c s : is_ws_int c = false -> lstrip_int (c :: s) = c :: s.
Proof. intros H. cbn [lstrip_int]. now rewrite H. Qed.

Lemma strip_int_ends s : s <> [] ->
  is_ws_int (hd 0 s) = false -> is_ws_int (hd 0 (rev s)) = false -> strip_int s = s.
Proof.
  intros NE H1 H2. unfold strip_int. destruct s as [|c s]; [congruence|].
  cbn [hd] in H1. rewrite (lstrip_int_hd c s H1).
  destruct (rev (c :: s)) as [|e t] eqn:E.
  { apply (f_equal (@length Z)) in E. rewrite rev_length in E. discriminate. }
  cbn [hd] in H2. rewrite (lstrip_int_hd e t H2), <- E. apply rev_involutive.
Qed.

Lemma digit_not_ws c : digitP c -> is_ws_int c = false.
Proof.
  unfold digitP, is_ws_int. intros H.
  destruct (Z.leb_spec 9 c), (Z.leb_spec c 13), (Z.eqb_spec c 32); cbn; try reflexivity; lia.
Qed.

Lemma hd_rev_digits (s : list Z) : s <> [] -> Forall digitP s -> digitP (hd 0 (rev s)).
Proof.
  intros NE F. assert (F' : Forall digitP (rev s)) by (apply Forall_rev; exact F).
  destruct (rev s) as [|e t] eqn:E.
  - apply (f_equal (@length Z)) in E. rewrite rev_length in E. destruct s; [congruence|discriminate].
  - inversion F'; assumption.
Qed.

Lemma uint_digits_nonnil d : d <> Decimal.Nil -> uint_digits d <> [].
Proof. destruct d; cbn; congruence. Qed.

(* int(f"{z}") == z (the bound is CPython's limit of 4300 digits; 2^4300 has 1295 digits) *)
Theorem py_int_dec z : - 2 ^ 4300 < z < 2 ^ 4300 -> py_int (dec z) = Ok z.
Proof.
  intros Hz. unfold dec, Z.to_int. destruct z as [|p|p].
  - vm_compute. reflexivity.
  - set (ds := uint_digits (Pos.to_uint p)).
    assert (NE : ds <> []) by (apply uint_digits_nonnil, to_uint_nonnil).
    assert (F : Forall digitP ds) by apply uint_digits_digits.
    unfold py_int. rewrite (strip_int_ends ds NE).
    + destruct ds as [|c r] eqn:E; [congruence|]. inversion F as [|? ? Hc _]; subst.
      destruct (Z.eqb_spec c 43) as [X|_]; [unfold digitP in Hc; lia|].
      destruct (Z.eqb_spec c 45) as [X|_]; [unfold digitP in Hc; lia|].
      rewrite <- E. apply dig_lim_to_uint. lia.
    + destruct ds; [congruence|]. inversion F; subst. now apply digit_not_ws.
    + apply digit_not_ws, hd_rev_digits; assumption.
  - set (ds := uint_digits (Pos.to_uint p)).
    assert (NE : ds <> []) by (apply uint_digits_nonnil, to_uint_nonnil).
    assert (F : Forall digitP ds) by apply uint_digits_digits.
    unfold py_int. rewrite (strip_int_ends (45 :: ds)); [|discriminate|reflexivity|].
    + change (45 =? 43) with false. change (45 =? 45) with true. cbn iota.
      unfold ds. rewrite dig_lim_to_uint by lia. reflexivity.
    + cbn [rev]. destruct (rev ds) as [|e t] eqn:E.
      * apply (f_equal (@length Z)) in E. rewrite rev_length in E. destruct ds; [congruence|discriminate].
      * cbn [app hd]. pose proof (hd_rev_digits ds NE F) as H. rewrite E in H. now apply digit_not_ws.
Qed.

Lemma dec_chars z : Forall (fun c => digitP c \/ c = 45) (dec z).
Proof.
  unfold dec. destruct (Z.to_int z) as [d|d].
  - eapply Forall_impl; [|apply uint_digits_digits]. intros; now left.
  - constructor; [now right|]. eapply Forall_impl; [|apply uint_digits_digits]. intros; now left.
Qed.

Lemma dec_no (sep : Z) z : sep <> 45 -> ~ digitP sep -> Forall (fun c => c <> sep) (dec z).
Proof.
  intros N1 N2. eapply Forall_impl; [|apply dec_chars]. intros c [H|H] E; subst; auto.
Qed.

(* ------------------------------------------------------------------ split / join *)

Lemma split_on_nonempty sep s : split_on sep s <> [].
Proof.
  induction s as [|x r IH]; cbn [split_on]; [discriminate|].
  destruct (x =? sep); [discriminate|]. destruct (split_on sep r); [congruence|discriminate].
Qed.

Lemma split_on_app sep a b :
  split_on sep (a ++ sep :: b) = split_on sep a ++ split_on sep b.
Proof.
  induction a as [|x a IH]; cbn [app split_on].
  - now rewrite Z.eqb_refl.
  - destruct (x =? sep); [now rewrite IH|]. rewrite IH.
    destruct (split_on sep a) as [|c cs] eqn:E; [now apply split_on_nonempty in E|]. reflexivity.
Qed.

Lemma split_on_nosep sep s : Forall (fun c => c <> sep) s -> split_on sep s = [s].
Proof.
  induction 1 as [|x s Hx _ IH]; [reflexivity|]. cbn [split_on].
  destruct (Z.eqb_spec x sep); [congruence|]. now rewrite IH.
Qed.

Lemma join_split sep s : join_on sep (split_on sep s) = s.
Proof.
  induction s as [|x r IH]; [reflexivity|]. cbn [split_on].
  destruct (Z.eqb_spec x sep) as [->|N].
  - destruct (split_on sep r) as [|c cs] eqn:E; [now apply split_on_nonempty in E|].
    cbn [join_on app]. cbn [join_on] in IH. now rewrite IH.
  - destruct (split_on sep r) as [|c cs] eqn:E; [now apply split_on_nonempty in E|].
    destruct cs as [|c2 cs]; cbn [join_on] in *; [now rewrite IH|].
    cbn [app]. now rewrite IH.
Qed.

Lemma split_join sep l : l <> [] -> Forall (Forall (fun c => c <> sep)) l ->
  split_on sep (join_on sep l) = l.
Proof.
  induction l as [|a l IH]; [congruence|]. intros _ F. inversion F as [|? ? Fa Fl]; subst.
  destruct l as [|b l]; [cbn [join_on]; now apply split_on_nosep|].
  change (join_on sep (a :: b :: l)) with (a ++ sep :: join_on sep (b :: l)).
  rewrite split_on_app, (split_on_nosep _ _ Fa), IH by (auto; discriminate). reflexivity.
Qed.

(* ------------------------------------------------------------------ the printed text *)

Lemma render_rec_key_expr kr : render_rec kr = 44 :: key_expr kr.
Proof.
  unfold render_rec, key_expr. change (s2z ",[") with [44; 91]. change (s2z "]") with [93].
  change (s2z "/") with [47]. change (s2z "/*") with [47; 42].
  cbn [app]. repeat (rewrite <- ?app_assoc; cbn [app]). reflexivity.
Qed.

Lemma concat_render_recs recs :
  recs <> [] -> concat (map render_rec recs) = 44 :: records_text recs.
Proof.
  unfold records_text. induction recs as [|kr recs IH]; [congruence|]. intros _.
  cbn [map concat]. rewrite render_rec_key_expr.
  destruct recs as [|k2 recs]; [cbn; now rewrite app_nil_r|].
  rewrite IH by discriminate. cbn [map join_on app]. reflexivity.
Qed.

(* the text is  wsh(sortedmulti(  m  ,  key expressions joined by commas  ))  *)
Theorem render_text_shape m recs : recs <> [] ->
  render_text m recs = s2z "wsh(sortedmulti(" ++ dec m ++ 44 :: records_text recs ++ s2z "))".
Proof.
  intros NE. unfold render_text. rewrite (concat_render_recs recs NE). cbn [app].
  reflexivity.
Qed.

(* ------------------------------------------------------------------ one key record as text *)

(* what the record must look like so that its printed form is read back field by field:
   a lower-case fingerprint, a path "m" ++ t where t has no closing bracket, LF, comma,
   backslash or "#" and does not begin with a star, an xpub text that begins with an
   alphanumeric character and has no slash, LF, comma, backslash or "#" (Base58 text has
   none), an index int() can read back. *)
Definition tchar (c : Z) : Prop := c <> 93 /\ c <> 10 /\ c <> 44 /\ c <> 92 /\ c <> 35.
Definition xchar (c : Z) : Prop := c <> 47 /\ c <> 10 /\ c <> 44 /\ c <> 92 /\ c <> 35.
Definition text_safe (kr : keyrec) : Prop :=
  xfp_re_ok (kr_xfp kr) = true /\
  (exists t, kr_path kr = 109 :: t /\ Forall tchar t /\ hd 0 t <> 42) /\
  (exists a x, kr_xpub kr = a :: x /\ is_alnum a = true /\ Forall xchar (a :: x)) /\
  - 2 ^ 4300 < kr_idx kr < 2 ^ 4300.

Definition field_of (kr : keyrec) : keyrec :=
  {| kr_xfp := kr_xfp kr; kr_path := tl (kr_path kr); kr_xpub := kr_xpub kr; kr_idx := kr_idx kr |}.

Lemma upto_nl_id x : Forall (fun c => c <> 10) x -> upto_nl x = x.
Proof.
  induction 1 as [|c x Hc _ IH]; [reflexivity|]. cbn [upto_nl].
  destruct (Z.eqb_spec c 10); [congruence|]. now rewrite IH.
Qed.

Lemma re_path_xpub_app t a x :
  Forall (fun c => c <> 93 /\ c <> 10) t -> is_alnum a = true -> Forall (fun c => c <> 10) (a :: x) ->
  re_path_xpub (t ++ 93 :: a :: x) = Some (t, a :: x).
Proof.
  intros Ft Ha Fx. induction Ft as [|c t [H1 H2] _ IH]; cbn [app re_path_xpub].
  - rewrite Z.eqb_refl, Ha. cbn [andb]. now rewrite (upto_nl_id _ Fx).
  - destruct (Z.eqb_spec c 93); [congruence|]. cbn [andb].
    destruct (Z.eqb_spec c 10); [congruence|]. now rewrite IH.
Qed.

Lemma xfp_re_ok_length s : xfp_re_ok s = true -> length s = 8%nat.
Proof. unfold xfp_re_ok. intros H. apply andb_true_iff in H as [H _]. now apply Nat.eqb_eq. Qed.

Lemma re_key_record_printed xfp t a x :
  xfp_re_ok xfp = true -> Forall (fun c => c <> 93 /\ c <> 10) t -> hd 0 t <> 42 ->
  is_alnum a = true -> Forall (fun c => c <> 10) (a :: x) ->
  re_key_record (91 :: xfp ++ t ++ 93 :: a :: x) = Some (xfp, t, a :: x).
Proof.
  intros Hx Ft Hs Ha Fx. pose proof (xfp_re_ok_length _ Hx) as L.
  assert (F8 : firstn 8 (xfp ++ t ++ 93 :: a :: x) = xfp).
  { rewrite <- L. rewrite firstn_app, Nat.sub_diag, firstn_all. cbn [firstn]. apply app_nil_r. }
  assert (S8 : skipn 8 (xfp ++ t ++ 93 :: a :: x) = t ++ 93 :: a :: x).
  { rewrite <- L. rewrite skipn_app, Nat.sub_diag, skipn_all. reflexivity. }
  unfold re_key_record. cbv zeta. rewrite F8, S8, Hx.
  assert (E : match t ++ 93 :: a :: x with 42 :: t0 => t0 | _ => t ++ 93 :: a :: x end = t ++ 93 :: a :: x).
  { destruct t as [|c t]; [reflexivity|]. cbn [hd] in Hs. cbn [app].
    destruct c as [|p|p]; try reflexivity.
    do 6 (destruct p as [p|p|]; try reflexivity). congruence. }
  rewrite E, (re_path_xpub_app t a x Ft Ha Fx). reflexivity.
Qed.

Lemma Forall_weaken {A} (P Q : A -> Prop) l : (forall a, P a -> Q a) -> Forall P l -> Forall Q l.
Proof. intros H F. eapply Forall_impl; eauto. Qed.

(* the text-only part of parse_full_key_record reads the printed key expression back *)
Theorem fields_of_text_key_expr kr : text_safe kr -> fields_of_text (key_expr kr) = Ok (field_of kr).
Proof.
  intros [Hx [[t [Hp [Ft Hs]]] [[a [x [Hk [Ha Fx]]]] Hi]]].
  unfold fields_of_text, key_expr. rewrite Hp, Hk. cbn [tl].
  set (P := 91 :: kr_xfp kr ++ t ++ 93 :: a :: x).
  assert (ES : (91 :: kr_xfp kr ++ t ++ 93 :: (a :: x) ++ 47 :: dec (kr_idx kr) ++ [47; 42])
               = P ++ 47 :: (dec (kr_idx kr) ++ 47 :: [42])).
  { unfold P. cbn [app]. repeat (rewrite <- ?app_assoc; cbn [app]). reflexivity. }
  rewrite ES, split_on_app, split_on_app.
  rewrite (split_on_nosep 47 (dec (kr_idx kr))) by (apply dec_no; [lia|unfold digitP; lia]).
  change (split_on 47 [42]) with [[42]].
  rewrite !rev_app_distr. cbn [rev app]. change (beq [42] [42]) with true. cbn [negb].
  rewrite (py_int_dec _ Hi). cbn [bind]. rewrite rev_involutive, join_split. unfold P.
  rewrite re_key_record_printed; auto.
  - unfold field_of. rewrite Hp, Hk. reflexivity.
  - eapply Forall_weaken; [|exact Ft]. unfold tchar. intros c H; tauto.
  - eapply Forall_weaken; [|exact Fx]. unfold xchar. intros c H; tauto.
Qed.

(* the characters of a printed key expression *)
Definition clean (c : Z) : Prop := c <> 44 /\ c <> 92 /\ c <> 35 /\ c <> 10.

Lemma xfp_clean s : xfp_re_ok s = true -> Forall clean s.
Proof.
  unfold xfp_re_ok. intros H. apply andb_true_iff in H as [_ H]. rewrite forallb_forall in H.
  apply Forall_forall. intros c Hc. specialize (H c Hc). unfold hex_lower_char in H. unfold clean.
  destruct (Z.leb_spec 48 c), (Z.leb_spec c 57), (Z.leb_spec 97 c), (Z.leb_spec c 102);
    cbn in H; try discriminate; lia.
Qed.

Lemma dec_clean z : Forall clean (dec z).
Proof.
  eapply Forall_weaken; [|apply dec_chars]. unfold clean, digitP. intros c [H|H]; lia.
Qed.

Lemma key_expr_clean kr : text_safe kr -> Forall clean (key_expr kr).
Proof.
  intros [Hx [[t [Hp [Ft Hs]]] [[a [x [Hk [Ha Fx]]]] Hi]]]. unfold key_expr. rewrite Hp, Hk. cbn [tl].
  constructor; [unfold clean; lia|]. apply Forall_app. split; [now apply xfp_clean|].
  apply Forall_app. split; [eapply Forall_weaken; [|exact Ft]; unfold tchar, clean; intros c H; tauto|].
  constructor; [unfold clean; lia|].
  apply Forall_app. split; [eapply Forall_weaken; [|exact Fx]; unfold xchar, clean; intros c H; tauto|].
  constructor; [unfold clean; lia|]. apply Forall_app. split; [apply dec_clean|].
  repeat constructor; unfold clean; lia.
Qed.

Lemma key_expr_no_comma kr : text_safe kr -> Forall (fun c => c <> 44) (key_expr kr).
Proof. intros H. eapply Forall_weaken; [|apply (key_expr_clean kr H)]. unfold clean. intros c X; tauto. Qed.

Lemma join_on_Forall (Q : Z -> Prop) sep l : Q sep -> Forall (Forall Q) l -> Forall Q (join_on sep l).
Proof.
  intros Hs. induction 1 as [|a l Ha _ IH]; [constructor|].
  destruct l as [|b l]; [exact Ha|].
  change (join_on sep (a :: b :: l)) with (a ++ sep :: join_on sep (b :: l)).
  apply Forall_app. split; [exact Ha|]. constructor; [exact Hs|exact IH].
Qed.

Lemma records_text_chars recs : Forall text_safe recs ->
  Forall (fun c => c <> 92 /\ c <> 35 /\ c <> 10) (records_text recs).
Proof.
  intros F. unfold records_text. apply join_on_Forall; [lia|].
  apply Forall_map. eapply Forall_weaken; [|exact F]. intros kr H.
  eapply Forall_weaken; [|apply (key_expr_clean kr H)]. unfold clean. intros c X; tauto.
Qed.

(* ------------------------------------------------------------------ text parser refines the structured parser *)
Section TextP.
Variable path_ok : list Z -> bool.
Variable hdparse : list Z -> result (list Z * Z).
Variable child_ok : list Z -> Z -> bool.

Lemma parse_rec_hdparse f kr : parse_rec path_ok hdparse child_ok f = Ok kr ->
  exists r, hdparse (kr_xpub f) = Ok r.
Proof.
  unfold parse_rec. destruct (negb (xfp_re_ok (kr_xfp f))); [discriminate|].
  destruct (negb (path_ok (109 :: kr_path f))); [discriminate|].
  destruct (hdparse (kr_xpub f)) as [r|]; [|discriminate]. intros _. now exists r.
Qed.

Lemma parse_full_all_fields texts fields :
  Forall2 (fun s f => fields_of_text s = Ok f) texts fields ->
  parse_full_all path_ok hdparse child_ok texts = parse_recs path_ok hdparse child_ok fields.
Proof.
  induction 1 as [|s f texts fields Hs _ IH]; [reflexivity|].
  cbn [parse_full_all parse_recs]. unfold parse_full_text. rewrite Hs. cbn [bind].
  destruct (parse_rec path_ok hdparse child_ok f) as [kr|] eqn:E; [|reflexivity]. cbn [bind].
  destruct (parse_rec_hdparse _ _ E) as [[xp net] Hr]. rewrite Hr. cbn [bind]. now rewrite IH.
Qed.

(* P2WSHSortedMulti.parse after the outer regex, on the groups of a printed descriptor, is the
   structured parser on the fields *)
Theorem parse_groups_printed m recs cs :
  recs <> [] -> Forall text_safe recs -> - 2 ^ 4300 < m < 2 ^ 4300 ->
  parse_groups path_ok hdparse child_ok (dec m) (records_text recs) cs =
  parse_struct path_ok hdparse child_ok m (map field_of recs) cs.
Proof.
  intros NE F Hm. unfold parse_groups, parse_struct, records_text.
  rewrite (py_int_dec m Hm). cbn [bind]. rewrite split_join.
  - rewrite (parse_full_all_fields (map key_expr recs) (map field_of recs)); [reflexivity|].
    clear NE. induction F as [|kr recs Hk _ IH]; cbn [map]; constructor; auto.
    now apply fields_of_text_key_expr.
  - destruct recs; [congruence|discriminate].
  - apply Forall_map. eapply Forall_weaken; [|exact F]. apply key_expr_no_comma.
Qed.

Lemma fields_of_map d : fields_of d = map field_of (d_recs d).
Proof. reflexivity. Qed.

(* ---- the hypotheses about hd.py under which a constructed descriptor is text-safe ---- *)
(* valid paths contain no closing bracket, comma, backslash, "#" or star *)
Definition pchar (c : Z) : Prop := c <> 93 /\ c <> 44 /\ c <> 92 /\ c <> 35 /\ c <> 42.
Definition path_chars_ok : Prop := forall p, path_ok p = true -> Forall pchar p.
(* the re-encoded xpub is non-empty alphanumeric text (Base58) *)
Definition hd_alnum : Prop :=
  forall x xp n, hdparse x = Ok (xp, n) -> xp <> [] /\ forallb is_alnum xp = true.

Lemma lstrip_Forall (Q : Z -> Prop) s : Forall Q s -> Forall Q (lstrip s).
Proof.
  induction 1 as [|c s Hc Hs IH]; [constructor|]. cbn [lstrip].
  destruct (is_ws c); [exact IH|now constructor].
Qed.

Lemma strip_Forall (Q : Z -> Prop) s : Forall Q s -> Forall Q (strip s).
Proof. intros H. unfold strip. apply Forall_rev, lstrip_Forall, Forall_rev, lstrip_Forall, H. Qed.

Lemma tl_Forall {A} (Q : A -> Prop) s : Forall Q s -> Forall Q (tl s).
Proof. destruct 1; [constructor|assumption]. Qed.

Lemma alnum_xchar c : is_alnum c = true -> xchar c.
Proof.
  unfold is_alnum, is_digit, xchar. intros H.
  destruct (Z.leb_spec 48 c), (Z.leb_spec c 57), (Z.leb_spec 65 c), (Z.leb_spec c 90),
    (Z.leb_spec 97 c), (Z.leb_spec c 122); cbn in H; try discriminate; lia.
Qed.

Lemma in_render_rec_path kr c : In c (tl (kr_path kr)) -> In c (render_rec kr).
Proof.
  intros H. unfold render_rec. apply in_or_app. right. apply in_or_app. right.
  apply in_or_app. now left.
Qed.

Lemma constructed_text_safe m recs cs srt d :
  path_chars_ok -> hd_alnum ->
  construct path_ok hdparse m recs cs srt = Ok d -> Forall text_safe (d_recs d).
Proof.
  intros HPC HA H. apply Forall_forall. intros kr Hk.
  destruct (construct_ok _ _ _ _ _ _ _ H) as [_ [_ [n [_ [_ [_ [_ [T [C _]]]]]]]]].
  destruct (constructed_recs _ _ _ _ _ _ _ H kr Hk) as [kr0 [xp [I0 [E [P0 [X0 [J0 [H0 XR]]]]]]]].
  assert (NL : forall c, In c (tl (kr_path kr)) -> c <> 10).
  { intros c Hc E10. subst c.
    assert (X : in_core_charset 10 = true).
    { apply (checksum_ok_chars (d_text d) (d_checksum d) 10 C). rewrite T.
      apply (in_render_text _ _ kr 10 Hk). now apply in_render_rec_path. }
    vm_compute in X. discriminate. }
  subst kr. cbn [mk_norm kr_xfp kr_path kr_xpub kr_idx tl] in *.
  split; [exact XR|]. split.
  - exists (tl (strip (kr_path kr0))). split; [reflexivity|].
    assert (FP : Forall pchar (tl (strip (kr_path kr0)))) by (apply tl_Forall, strip_Forall, HPC, P0).
    split.
    + apply Forall_forall. intros c Hc. rewrite Forall_forall in FP. specialize (FP c Hc).
      specialize (NL c Hc). unfold pchar in FP. unfold tchar. tauto.
    + destruct (tl (strip (kr_path kr0))) as [|c t]; [cbn; lia|]. inversion FP as [|? ? Hc _]; subst.
      cbn [hd]. unfold pchar in Hc. tauto.
  - split.
    + destruct (HA _ _ _ H0) as [NE AL]. destruct xp as [|a x]; [congruence|].
      exists a, x. split; [reflexivity|]. cbn [forallb] in AL. apply andb_true_iff in AL as [A1 A2].
      split; [exact A1|]. constructor; [now apply alnum_xchar|].
      apply Forall_forall. intros c Hc. rewrite forallb_forall in A2. now apply alnum_xchar, A2.
    + unfold idx_ok in J0. apply andb_true_iff in J0 as [J1 J2].
      apply Z.leb_le in J1. apply Z.ltb_lt in J2.
      assert (2147483648 < 2 ^ 4300) by (apply (Z.lt_trans _ (2 ^ 32)); [lia|apply Z.pow_lt_mono_r; lia]).
      cbn [mk_norm kr_idx]. lia.
Qed.

(* (3) at the level of the TEXT the regular expression hands over: the groups of the
   constructor's own output are read back to the same descriptor *)
Theorem parse_groups_roundtrip m recs cs srt d :
  hd_idempotent hdparse -> path_norm_ok path_ok -> path_chars_ok -> hd_alnum ->
  construct path_ok hdparse m recs cs srt = Ok d -> m < 2 ^ 4300 ->
  Forall (fun kr => child_ok (kr_xpub kr) (kr_idx kr) = true) (d_recs d) ->
  d_text d = s2z "wsh(sortedmulti(" ++ dec (d_m d) ++ 44 :: records_text (d_recs d) ++ s2z "))" /\
  parse_groups path_ok hdparse child_ok (dec (d_m d)) (records_text (d_recs d)) (d_checksum d) = Ok d /\
  parse_groups path_ok hdparse child_ok (dec (d_m d)) (records_text (d_recs d)) [] = Ok d.
Proof.
  intros HI HPN HPC HA HC Hm2 HCh.
  destruct (construct_ok _ _ _ _ _ _ _ HC) as [M1 [NE [n [HF [R [M [N [T [C _]]]]]]]]].
  pose proof (constructed_text_safe _ _ _ _ _ HPC HA HC) as HS.
  assert (NE2 : d_recs d <> []).
  { intros E. pose proof (construct_recs_length _ _ _ _ _ _ _ HC) as L. rewrite E in L.
    unfold zlen in L. destruct recs; [congruence|cbn in L; lia]. }
  destruct (descriptor_text_roundtrip path_ok hdparse child_ok m recs cs srt d HI HPN HC HCh) as [P1 P2].
  split; [rewrite T, M; now apply render_text_shape|].
  rewrite !parse_groups_printed, <- fields_of_map; auto; rewrite M; lia.
Qed.
End TextP.
