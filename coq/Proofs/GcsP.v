(* Proofs/GcsP.v — Golomb-Rice codec, bit packing and GCS (de)serialisation round trips. *)
From V Require Import Base.Prelude Base.Ints Model.Helper Model.Gcs Proofs.HelperP.

Definition bit01 (b : Z) : Prop := b = 0 \/ b = 1.
Definition bits01 (l : list Z) : Prop := Forall bit01 l.

(* ---------------- Golomb-Rice ---------------- *)

Lemma golomb_unary_ones n : forall q r, golomb_unary (repeatz 1 n ++ 0 :: r) q = Ok (q + Z.of_nat n, r).
Proof.
  induction n as [|n IH]; intros q r.
  - cbn. f_equal. f_equal. lia.
  - cbn [repeatz app golomb_unary]. change (1 =? 0) with false. cbv iota.
    rewrite IH. f_equal. f_equal. lia.
Qed.

Lemma mod_pow2_succ x k : 0 <= k ->
  x mod 2 ^ (k + 1) = (if Z.testbit x k then 1 else 0) * 2 ^ k + x mod 2 ^ k.
Proof.
  intros Hk. rewrite Z.pow_add_r by lia. change (2 ^ 1) with 2.
  rewrite Z.rem_mul_r by (try apply Z.pow_nonzero; try apply Z.pow_pos_nonneg; lia).
  destruct (Z.testbit x k) eqn:E.
  - apply Z.testbit_true in E; [|lia]. rewrite E. lia.
  - apply Z.testbit_false in E; [|lia]. rewrite E. lia.
Qed.

Lemma golomb_rem_low_bits p x : forall rest r,
  golomb_rem p (low_bits p x ++ rest) r = Ok (r * 2 ^ Z.of_nat p + x mod 2 ^ Z.of_nat p, rest).
Proof.
  induction p as [|k IH]; intros rest r.
  - cbn [low_bits app golomb_rem]. change (2 ^ Z.of_nat 0) with 1. rewrite Z.mod_1_r. f_equal. f_equal. lia.
  - cbn [low_bits app golomb_rem]. rewrite IH. f_equal. f_equal.
    rewrite Nat2Z.inj_succ, <- Z.add_1_r.
    rewrite (mod_pow2_succ x (Z.of_nat k)) by lia.
    rewrite Z.pow_add_r by lia. change (2 ^ 1) with 2.
    destruct (Z.testbit x (Z.of_nat k)); [change (1 =? 1) with true | change (0 =? 1) with false]; cbv iota; lia.
Qed.

Lemma golomb_roundtrip x p rest :
  0 <= x -> decode_golomb (encode_golomb x p ++ rest) p = Ok (x, rest).
Proof.
  intros Hx. unfold decode_golomb, encode_golomb.
  rewrite <- !app_assoc. cbn [app].
  rewrite golomb_unary_ones. cbn [bind].
  rewrite golomb_rem_low_bits. cbn [bind]. f_equal. f_equal.
  rewrite Z2Nat.id by (apply Z.shiftr_nonneg; lia).
  rewrite Z.shiftl_mul_pow2, Z.shiftr_div_pow2 by lia.
  pose proof (Z.pow_pos_nonneg 2 (Z.of_nat p)).
  rewrite (Z.div_mod x (2 ^ Z.of_nat p)) at 3 by lia. lia.
Qed.

Lemma low_bits_01 p x : bits01 (low_bits p x).
Proof. induction p; cbn; constructor; auto. destruct (Z.testbit _ _); [right|left]; reflexivity. Qed.

Lemma repeatz_01 b n : bit01 b -> bits01 (repeatz b n).
Proof. intros H. induction n; cbn; constructor; auto. Qed.

Lemma encode_golomb_01 x p : bits01 (encode_golomb x p).
Proof.
  unfold encode_golomb, bits01. rewrite !Forall_app. repeat split.
  - apply repeatz_01. now right.
  - constructor; [now left|constructor].
  - apply low_bits_01.
Qed.

Lemma encode_golomb_length x p : (1 <= length (encode_golomb x p))%nat.
Proof. unfold encode_golomb. rewrite !app_length. cbn. lia. Qed.

(* ---------------- bit packing ---------------- *)

Lemma bits_to_int_acc l : forall acc,
  bits_to_int l acc = acc * 2 ^ Z.of_nat (length l) + bits_to_int l 0.
Proof.
  induction l as [|b r IH]; intros acc.
  - cbn. lia.
  - cbn [bits_to_int length]. rewrite IH. rewrite (IH (if b =? 0 then 2 * 0 else 2 * 0 + 1)).
    rewrite Nat2Z.inj_succ, Z.pow_succ_r by lia. destruct (b =? 0); lia.
Qed.

Lemma bits_to_int_app a b :
  bits_to_int (a ++ b) 0 = bits_to_int a 0 * 2 ^ Z.of_nat (length b) + bits_to_int b 0.
Proof.
  revert b. induction a as [|x a IH]; intros b.
  - cbn. lia.
  - cbn [app bits_to_int]. rewrite bits_to_int_acc, (bits_to_int_acc a).
    rewrite IH. rewrite app_length, Nat2Z.inj_add, Z.pow_add_r by lia. lia.
Qed.

Lemma bits_to_int_bound l : 0 <= bits_to_int l 0 < 2 ^ Z.of_nat (length l).
Proof.
  induction l as [|b r IH].
  - cbn. lia.
  - cbn [bits_to_int length]. rewrite bits_to_int_acc. rewrite Nat2Z.inj_succ, Z.pow_succ_r by lia.
    destruct (b =? 0); lia.
Qed.

Lemma to_be_S k n : to_be (S k) n = to_be k (n / 256) ++ [n mod 256].
Proof. reflexivity. Qed.

Lemma unpack_bits_app a b : unpack_bits (a ++ b) = unpack_bits a ++ unpack_bits b.
Proof. unfold unpack_bits. now rewrite flat_map_app. Qed.

Lemma byte_bits_of_bits t : length t = 8%nat -> bits01 t -> byte_bits (bits_to_int t 0) = t.
Proof.
  intros L H.
  do 8 (destruct t as [|? t]; [discriminate|]). destruct t; [|discriminate]. clear L.
  repeat match goal with H : bits01 (_ :: _) |- _ => inversion H; clear H; subst end.
  repeat match goal with H : Forall _ (_ :: _) |- _ => inversion H; clear H; subst end.
  repeat match goal with H : bit01 _ |- _ => destruct H; subst end; reflexivity.
Qed.

Lemma unpack_to_be k : forall l, length l = (8 * k)%nat -> bits01 l ->
  unpack_bits (to_be k (bits_to_int l 0)) = l.
Proof.
  induction k as [|k IH]; intros l L H.
  - destruct l; [reflexivity|discriminate].
  - pose proof (firstn_skipn (8 * k) l) as Hs.
    assert (La : length (firstn (8 * k) l) = (8 * k)%nat) by (rewrite firstn_length; lia).
    assert (Lt : length (skipn (8 * k) l) = 8%nat) by (rewrite skipn_length; lia).
    revert La Lt Hs. generalize (firstn (8 * k) l) as a. generalize (skipn (8 * k) l) as t.
    intros t a La Lt Hs. subst l.
    apply Forall_app in H as [Ha Ht].
    rewrite to_be_S, bits_to_int_app, Lt. change (2 ^ Z.of_nat 8) with 256.
    pose proof (bits_to_int_bound t) as Bt. rewrite Lt in Bt. change (2 ^ Z.of_nat 8) with 256 in Bt.
    rewrite Z.div_add_l by lia. rewrite Z.div_small by lia. rewrite Z.add_0_r.
    rewrite Z.add_comm, Z.mod_add by lia. rewrite Z.mod_small by lia.
    rewrite unpack_bits_app. rewrite (IH a La Ha). f_equal.
    unfold unpack_bits. cbn [flat_map]. rewrite app_nil_r. now apply byte_bits_of_bits.
Qed.

Lemma pad8_length l : exists k, length (pad8 l) = (8 * k)%nat.
Proof.
  unfold pad8. rewrite app_length, repeatz_length.
  set (n := length l). exists (Nat.div (n + (8 - n mod 8) mod 8) 8).
  pose proof (Nat.mod_upper_bound n 8 ltac:(lia)) as Hb.
  pose proof (Nat.div_mod n 8 ltac:(lia)) as Hd.
  destruct (Nat.eq_dec (n mod 8) 0) as [E|E].
  - rewrite E. change ((8 - 0) mod 8)%nat with 0%nat. rewrite Nat.add_0_r.
    rewrite Hd at 1. rewrite E, Nat.add_0_r.
    rewrite Hd at 2. rewrite E, Nat.add_0_r. rewrite Nat.mul_comm, Nat.div_mul by lia. lia.
  - rewrite (Nat.mod_small (8 - n mod 8) 8) by lia.
    replace (n + (8 - n mod 8))%nat with ((n / 8 + 1) * 8)%nat by lia.
    rewrite Nat.div_mul by lia. lia.
Qed.

Lemma pad8_01 l : bits01 l -> bits01 (pad8 l).
Proof. intros H. unfold pad8, bits01. rewrite Forall_app. split; [exact H|]. apply repeatz_01. now left. Qed.

Lemma unpack_pack_bits bits : bits01 bits -> unpack_bits (pack_bits bits) = pad8 bits.
Proof.
  intros H. unfold pack_bits. cbv zeta.
  destruct (pad8_length bits) as [k Hk]. rewrite Hk.
  replace (8 * k / 8)%nat with k by (rewrite (Nat.mul_comm 8 k), Nat.div_mul; lia).
  apply unpack_to_be; [lia | now apply pad8_01].
Qed.

Lemma pack_bits_length bits : (length (pack_bits bits) * 8 = length (pad8 bits))%nat.
Proof.
  unfold pack_bits. cbv zeta. rewrite to_be_length.
  destruct (pad8_length bits) as [k Hk]. rewrite Hk.
  replace (8 * k / 8)%nat with k by (rewrite (Nat.mul_comm 8 k), Nat.div_mul; lia). lia.
Qed.

Lemma pack_bits_ok bits : bytes_ok (pack_bits bits).
Proof. unfold pack_bits. apply to_be_ok. Qed.

(* ---------------- GCS ---------------- *)

(* non-decreasing from [last] on, all >= last *)
Fixpoint ascending (last : Z) (l : list Z) : Prop :=
  match l with
  | [] => True
  | x :: r => last <= x /\ ascending x r
  end.

Lemma gcs_deltas_01 items : forall last, bits01 (gcs_deltas items last).
Proof.
  induction items as [|x r IH]; intros last; cbn [gcs_deltas].
  - constructor.
  - unfold bits01. rewrite Forall_app. split; [apply encode_golomb_01 | apply IH].
Qed.

Lemma gcs_deltas_length items : forall last, (length items <= length (gcs_deltas items last))%nat.
Proof.
  induction items as [|x r IH]; intros last; cbn [gcs_deltas length]; [lia|].
  rewrite app_length. pose proof (encode_golomb_length (x - last) GOLOMB_P). specialize (IH x). lia.
Qed.

Lemma gcs_loop_roundtrip items : forall fuel last acc rest,
  ascending last items -> (length items <= fuel)%nat ->
  gcs_loop fuel (zlen items) (gcs_deltas items last ++ rest) last acc = Ok (rev acc ++ items).
Proof.
  induction items as [|x r IH]; intros fuel last acc rest Ha Hf.
  - destruct fuel; cbn; now rewrite app_nil_r.
  - destruct Ha as [Hx Hr]. destruct fuel as [|f]; [cbn in Hf; lia|].
    cbn [gcs_loop]. unfold zlen. cbn [length]. rewrite Nat2Z.inj_succ.
    destruct (Z.succ (Z.of_nat (length r)) <=? 0) eqn:E; [apply Z.leb_le in E; lia|].
    cbn [gcs_deltas]. rewrite <- app_assoc.
    rewrite golomb_roundtrip by lia. cbn [bind].
    replace (last + (x - last)) with x by lia.
    replace (Z.succ (Z.of_nat (length r)) - 1) with (zlen r) by (unfold zlen; lia).
    rewrite IH; [|assumption|cbn in Hf; lia].
    cbn [rev]. now rewrite <- app_assoc.
Qed.

Lemma gcs_roundtrip items :
  ascending 0 items -> zlen items < 18446744073709551616 ->
  exists b, serialize_gcs items = Ok b /\ decode_gcs b = Ok items.
Proof.
  intros Ha Hl. unfold serialize_gcs.
  destruct (varint_roundtrip (zlen items) (pack_bits (gcs_deltas items 0))) as [nb [En Rn]];
    [pose proof (zlen_nonneg items); lia|].
  rewrite En. cbn [bind]. eexists. split; [reflexivity|].
  unfold decode_gcs. rewrite Rn. cbn [bind].
  rewrite unpack_pack_bits by apply gcs_deltas_01.
  unfold pad8 at 2. rewrite (gcs_loop_roundtrip items _ 0 [] _ Ha).
  - reflexivity.
  - unfold pad8. rewrite app_length. pose proof (gcs_deltas_length items 0). lia.
Qed.
