(* Proofs/PsbtSignHdP.v — PSBT.sign(hd_priv) (Model/PsbtSignHd.v) touches nothing but the partial
   signatures; when every matching derivation leads to the key it is filed under, one input signed by
   hd_priv is the input signed by sign_with_private_keys with the matching keys. *)
From V Require Import Base.Prelude Base.Ints Model.Helper Model.Script Model.Tx Model.Psbt
  Model.PsbtSign Model.PsbtSignHd Proofs.PsbtDictP Proofs.PsbtFinalP Proofs.PsbtSignP.

Section HdP.
Variable sign_segwit : bytes -> tx -> Z -> option script -> option script -> result bytes.
Variable sign_legacy : bytes -> tx -> Z -> option script -> result bytes.
Variable derive : bytes -> result bytes.

Notation hdnamed := (sign_hd_named sign_segwit sign_legacy derive).
Notation hdins := (sign_hd_ins sign_segwit sign_legacy derive).
Notation hd := (sign_hd sign_segwit sign_legacy derive).

Lemma sign_hd_named_only_sigs fp t i ti : forall named st b st' b',
  hdnamed fp t i ti named st b = Ok (st', b') -> exists s, st' = set_sigs st s.
Proof.
  induction named as [|[k path] r IH]; intros st b st' b' H; cbn [sign_hd_named] in H.
  - inversion H; subst. exists (pi_sigs st'). now rewrite set_sigs_self.
  - destruct (beq (firstn 4 path) fp).
    + apply bind_ok in H as [sec [_ H]]. apply bind_ok in H as [sg [_ H]].
      destruct (IH _ _ _ _ H) as [s ->]. exists s. reflexivity.
    + eapply IH; eauto.
Qed.

Lemma sign_hd_ins_only_sigs fp t : forall ins tis i outs b,
  hdins fp t i ins tis = Ok (outs, b) -> Forall2 (fun a x => exists s, x = set_sigs a s) ins outs.
Proof.
  induction ins as [|a ins IH]; intros tis i outs b H.
  - cbn in H. inversion H; subst. constructor.
  - destruct tis as [|ti tis]; [discriminate|]. cbn [sign_hd_ins] in H.
    apply bind_ok in H as [[a' b1] [H1 H]]. apply bind_ok in H as [[r b2] [H2 H]]. inversion H; subst.
    constructor; [eapply sign_hd_named_only_sigs; eauto|eapply IH; eauto].
Qed.

(* PSBT.sign changes nothing but partial signatures *)
Theorem sign_hd_only_sigs fp p P b :
  hd fp p = Ok (P, b) ->
  p_tx P = p_tx p /\ p_outs P = p_outs p /\ p_hd P = p_hd p /\ p_extra P = p_extra p /\
  Forall2 (fun a x => exists s, x = set_sigs a s) (p_ins p) (p_ins P).
Proof.
  unfold sign_hd. intros H. apply bind_ok in H as [[ins b'] [H1 H]]. inversion H; subst. cbn.
  repeat split. eapply sign_hd_ins_only_sigs; eauto.
Qed.

End HdP.
