(* Proofs/SighashP.v — C05: the library's signature-hash preimages (Model/Sighash.v) equal the
   specifications (Spec/Legacy.v, Spec/Bip143.v, Spec/Bip341.v) on the transaction denoted by the
   Tx object (Model/SighashAbs.v); the memo fields never influence a result. *)
From V Require Import Base.Prelude Base.Ints Model.Helper Model.Script Model.Tx Model.Sighash
  Model.SighashAbs Spec.TxData Proofs.HelperP.
From V Require Spec.Legacy Spec.Bip143 Spec.Bip341.

(* ------------------------------------------------------------------ *)
(* result monad *)

Lemma bind_ok {A B} (r : result A) (f : A -> result B) b :
  bind r f = Ok b -> exists a, r = Ok a /\ f a = Ok b.
Proof. destruct r as [a|]; cbn; [eauto | discriminate]. Qed.

Ltac inv_bind H :=
  let a := fresh "a" in let Ha := fresh "Ha" in
  apply bind_ok in H as [a [Ha H]].

(* ------------------------------------------------------------------ *)
(* ranges, CompactSize *)

Lemma in_u32_spec n : in_u32 n = true <-> 0 <= n < 4294967296.
Proof. unfold in_u32. rewrite andb_true_iff, Z.leb_le, Z.ltb_lt. tauto. Qed.
Lemma in_u64_spec n : in_u64 n = true <-> 0 <= n < 18446744073709551616.
Proof. unfold in_u64. rewrite andb_true_iff, Z.leb_le, Z.ltb_lt. tauto. Qed.

Lemma le32_ok n : in_u32 n = true -> int_to_le n 4 = Ok (le32 n).
Proof. intros H. apply in_u32_spec in H. apply int_to_le_ok. rewrite pow256_4. exact H. Qed.
Lemma le64_ok n : in_u64 n = true -> int_to_le n 8 = Ok (le64 n).
Proof. intros H. apply in_u64_spec in H. apply int_to_le_ok. rewrite pow256_8. exact H. Qed.

Lemma encode_varint_cs n : in_u64 n = true -> encode_varint n = Ok (compact_size n).
Proof.
  intros H. apply in_u64_spec in H. unfold encode_varint, compact_size.
  destruct (n <? 0) eqn:E0; [lia|].
  destruct (n <? 253) eqn:E1; [reflexivity|].
  destruct (n <? 65536) eqn:E2.
  { destruct (n <=? 65535) eqn:F; [reflexivity|lia]. }
  destruct (n <=? 65535) eqn:F2; [lia|].
  destruct (n <? 4294967296) eqn:E3.
  { destruct (n <=? 4294967295) eqn:F; [reflexivity|lia]. }
  destruct (n <=? 4294967295) eqn:F3; [lia|].
  destruct (n <? 18446744073709551616) eqn:E4; [reflexivity|lia].
Qed.

Lemma in_u64_small n : 0 <= n < 253 -> in_u64 n = true.
Proof. intros H. apply in_u64_spec. lia. Qed.

(* ------------------------------------------------------------------ *)
(* scripts, inputs, outputs *)

Lemma abs_script_ser sc b : abs_script sc = Ok b -> serialize_script sc = Ok (ser_script b).
Proof.
  unfold abs_script, serialize_script, encode_varstr, ser_script. intros H.
  destruct (raw_serialize sc) as [r|]; cbn in *; [|discriminate].
  destruct (in_u64 (zlen r)) eqn:E; [|discriminate]. inversion H; subst b.
  now rewrite (encode_varint_cs _ E).
Qed.

Lemma abs_script_empty : abs_script empty_script = Ok [].
Proof. reflexivity. Qed.

Lemma txin_serialize_mk pt pi sc sq w b :
  in_u32 pi = true -> in_u32 sq = true -> abs_script sc = Ok b ->
  txin_serialize {| i_prev_tx := pt; i_prev_index := pi; i_script := sc; i_sequence := sq;
                    i_witness := w |} =
  Ok (ser_txin {| ci_prevout := {| op_hash := rev pt; op_n := pi |}; ci_script_sig := b;
                  ci_sequence := sq |}).
Proof.
  intros Hpi Hsq Hsc. unfold txin_serialize, ser_txin, ser_outpoint. cbn [i_prev_tx i_prev_index
    i_script i_sequence ci_prevout ci_script_sig ci_sequence op_hash op_n].
  rewrite (le32_ok _ Hpi), (abs_script_ser _ _ Hsc), (le32_ok _ Hsq). cbn [bind].
  now rewrite <- !app_assoc.
Qed.

Lemma abs_in_inv i ci :
  abs_in i = Ok ci ->
  in_u32 (i_prev_index i) = true /\ in_u32 (i_sequence i) = true /\
  exists s, abs_script (i_script i) = Ok s /\
    ci = {| ci_prevout := {| op_hash := rev (i_prev_tx i); op_n := i_prev_index i |};
            ci_script_sig := s; ci_sequence := i_sequence i |}.
Proof.
  unfold abs_in. intros H.
  destruct (in_u32 (i_prev_index i)) eqn:E1; destruct (in_u32 (i_sequence i)) eqn:E2;
    cbn in H; try discriminate.
  destruct (abs_script (i_script i)) as [s|] eqn:E3; cbn in H; [|discriminate].
  inversion H. repeat split; eauto.
Qed.

Lemma abs_out_ser o co : abs_out o = Ok co -> txout_serialize o = Ok (ser_txout co).
Proof.
  unfold abs_out, txout_serialize, ser_txout. intros H.
  destruct (in_u64 (o_amount o)) eqn:E; [|discriminate].
  destruct (abs_script (o_script o)) as [s|] eqn:E2; cbn in H; [|discriminate].
  inversion H; subst co. cbn [co_value co_script].
  now rewrite (le64_ok _ E), (abs_script_ser _ _ E2).
Qed.

Lemma abs_spent_inv s c :
  abs_spent s = Ok c ->
  in_u64 (sp_value s) = true /\ abs_script (sp_script s) = Ok (cn_script c) /\
  cn_value c = sp_value s.
Proof.
  unfold abs_spent. intros H. destruct (in_u64 (sp_value s)) eqn:E; [|discriminate].
  destruct (abs_script (sp_script s)) as [b|] eqn:E2; cbn in H; [|discriminate].
  inversion H; subst c. cbn. auto.
Qed.

Lemma abs_list_length {A B} (f : A -> result B) l cl :
  abs_list f l = Ok cl -> length cl = length l.
Proof.
  revert cl; induction l as [|x r IH]; intros cl H; cbn in H.
  - now inversion H.
  - destruct (f x) as [y|]; cbn in H; [|discriminate].
    destruct (abs_list f r) as [ys|]; cbn in H; [|discriminate].
    inversion H. cbn. f_equal. now apply IH.
Qed.

Lemma abs_list_cons {A B} (f : A -> result B) x r cl :
  abs_list f (x :: r) = Ok cl ->
  exists y ys, f x = Ok y /\ abs_list f r = Ok ys /\ cl = y :: ys.
Proof.
  cbn. intros H. destruct (f x) as [y|]; cbn in H; [|discriminate].
  destruct (abs_list f r) as [ys|]; cbn in H; [|discriminate]. inversion H. eauto.
Qed.

Lemma abs_list_nth {A B} (f : A -> result B) l cl k x :
  abs_list f l = Ok cl -> nth_error l k = Some x ->
  exists y, nth_error cl k = Some y /\ f x = Ok y.
Proof.
  revert cl k; induction l as [|a r IH]; intros cl k H Hk.
  - destruct k; discriminate.
  - apply abs_list_cons in H as [y [ys [Hy [Hys ->]]]].
    destruct k; cbn in *.
    + inversion Hk; subst. eauto.
    + eauto.
Qed.

Lemma abs_list_nth_none {A B} (f : A -> result B) l cl k :
  abs_list f l = Ok cl -> nth_error l k = None -> nth_error cl k = None.
Proof.
  intros H Hk. apply nth_error_None. rewrite (abs_list_length _ _ _ H). now apply nth_error_None.
Qed.

Lemma ser_outs_abs l cl :
  abs_list abs_out l = Ok cl -> ser_outs l = Ok (flat_map ser_txout cl).
Proof.
  revert cl; induction l as [|o r IH]; intros cl H.
  - cbn in H. inversion H. reflexivity.
  - apply abs_list_cons in H as [y [ys [Hy [Hys ->]]]]. cbn.
    now rewrite (abs_out_ser _ _ Hy), (IH _ Hys).
Qed.

Lemma abs_tx_inv t ct :
  abs_tx t = Ok ct ->
  in_u32 (t_version t) = true /\ in_u32 (t_locktime t) = true /\
  in_u64 (zlen (t_ins t)) = true /\ in_u64 (zlen (t_outs t)) = true /\
  abs_list abs_in (t_ins t) = Ok (ct_vin ct) /\ abs_list abs_out (t_outs t) = Ok (ct_vout ct) /\
  ct_version ct = t_version t /\ ct_locktime ct = t_locktime t.
Proof.
  unfold abs_tx. intros H.
  destruct (in_u32 (t_version t)) eqn:E1; destruct (in_u32 (t_locktime t)) eqn:E2;
  destruct (in_u64 (zlen (t_ins t))) eqn:E3; destruct (in_u64 (zlen (t_outs t))) eqn:E4;
    cbn in H; try discriminate.
  destruct (abs_list abs_in (t_ins t)) as [vin|]; cbn in H; [|discriminate].
  destruct (abs_list abs_out (t_outs t)) as [vout|]; cbn in H; [|discriminate].
  inversion H. cbn. auto 10.
Qed.

Lemma zlen_length_eq {A B} (a : list A) (b : list B) : length a = length b -> zlen a = zlen b.
Proof. unfold zlen. now intros ->. Qed.

(* ------------------------------------------------------------------ *)
(* the seven hash types *)

Lemma std_cases ht :
  standard_hash_type ht = true ->
  ht = 0 \/ ht = 1 \/ ht = 2 \/ ht = 3 \/ ht = 129 \/ ht = 130 \/ ht = 131.
Proof.
  unfold standard_hash_type. rewrite !orb_true_iff, !Z.eqb_eq. tauto.
Qed.

Ltac std_destruct H :=
  apply std_cases in H;
  destruct H as [->|[->|[->|[->|[->|[->| ->]]]]]].

Lemma std_u32 ht : standard_hash_type ht = true -> in_u32 ht = true.
Proof. intros H. std_destruct H; reflexivity. Qed.
Lemma std_byte ht : standard_hash_type ht = true -> int_to_byte ht = Ok [ht].
Proof. intros H. std_destruct H; reflexivity. Qed.

Lemma std_single ht : standard_hash_type ht = true -> (ht_base ht =? 3) = Legacy.hash_single ht.
Proof. intros H. std_destruct H; reflexivity. Qed.
Lemma std_none ht : standard_hash_type ht = true -> (ht_base ht =? 2) = Legacy.hash_none ht.
Proof. intros H. std_destruct H; reflexivity. Qed.
Lemma std_none_or_single ht :
  standard_hash_type ht = true ->
  ht_none_or_single ht = Legacy.hash_none ht || Legacy.hash_single ht.
Proof. intros H. std_destruct H; reflexivity. Qed.
(* the legacy and BIP143 builders mask with 0x1f like the specifications: no hypothesis needed *)
Lemma base5_single ht : (ht_base5 ht =? 3) = Legacy.hash_single ht.
Proof. reflexivity. Qed.
Lemma base5_none ht : (ht_base5 ht =? 2) = Legacy.hash_none ht.
Proof. reflexivity. Qed.
Lemma base5_none_or_single ht : ht_none_or_single5 ht = Legacy.hash_none ht || Legacy.hash_single ht.
Proof. reflexivity. Qed.
Lemma acp_eq ht : ht_acp ht = Legacy.anyone_can_pay ht.
Proof. reflexivity. Qed.
Lemma std_none_single_excl ht :
  Legacy.hash_none ht = true -> Legacy.hash_single ht = false.
Proof.
  unfold Legacy.hash_none, Legacy.hash_single, SIGHASH_NONE, SIGHASH_SINGLE.
  intros H. apply Z.eqb_eq in H. rewrite H. reflexivity.
Qed.
Lemma std_acp341 ht : standard_hash_type ht = true -> Bip341.anyonecanpay ht = ht_acp ht.
Proof. intros H. std_destruct H; reflexivity. Qed.

(* ------------------------------------------------------------------ *)
(* projections used in the statements *)

Definition rsnd {A B} (r : result (A * B)) : result B := '(_, b) <- r ;; Ok b.
Definition opt_res {A} (o : option A) : result A := match o with Some a => Ok a | None => Err end.

Lemma prevouts_seqs_abs l cl :
  abs_list abs_in l = Ok cl ->
  prevouts_seqs l = Ok (flat_map (fun i => ser_outpoint (ci_prevout i)) cl,
                        flat_map (fun i => le32 (ci_sequence i)) cl).
Proof.
  revert cl; induction l as [|ti r IH]; intros cl H.
  - cbn in H. inversion H. reflexivity.
  - apply abs_list_cons in H as [y [ys [Hy [Hys ->]]]].
    apply abs_in_inv in Hy as [Hpi [Hsq [s [Hs ->]]]].
    cbn [prevouts_seqs]. rewrite (le32_ok _ Hpi), (le32_ok _ Hsq), (IH _ Hys). cbn [bind].
    cbn [flat_map ci_prevout ci_sequence]. unfold ser_outpoint. cbn [op_hash op_n].
    now rewrite <- ?app_assoc.
Qed.
