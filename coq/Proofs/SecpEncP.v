(* Proofs/SecpEncP.v — the encodings clause of C03 on the secp256k1 constants themselves, with
   [prime p] as the ONLY premise (no group-law hypothesis): SEC round trips for every curve point and both
   compressions, x-only round trip for every point INCLUDING infinity (x = 0 is not the abscissa of a curve
   point, so the code's "32 zero bytes = infinity" convention never collides with a point), and the exact
   characterisation of what parse_sec / parse_xonly / parse accept. *)
From Coq Require Import ZArith Znumtheory Lia.
From V Require Import Base.Prelude Base.Ints Base.Fermat Model.Pecc Proofs.GroupHyp Proofs.CurveSweep
  Proofs.SmallFields Proofs.CurveGeneral Proofs.CurveLawsP Proofs.PeccEnc Proofs.EncGeneralP
  Proofs.Secp256k1P.
Open Scope Z_scope.

Section SecpEnc.
Hypothesis Hp : prime sp.

Local Notation S := secp256k1.

Theorem secp_sec_roundtrip x y c s : valid S (Some (x, y)) -> sec (Some (x, y)) c = Ok s ->
  parse_sec S s = Ok (Some (x, y)) /\ parse_point S s = Ok (Some (x, y)).
Proof.
  intros HV Hs. pose proof (secp_no_y0 Hp x y HV) as Hy. split.
  - exact (parse_sec_sec_gen S Hp secp_a0 secp_p_mod4 secp_p_lt256 x y c s HV (fun _ => Hy) Hs).
  - exact (parse_point_sec_gen S Hp secp_a0 secp_p_mod4 secp_p_lt256 x y c s HV (fun _ => Hy) Hs).
Qed.

(* the even-y representative *)
Definition evenP (P : point) : point :=
  match P with None => None | Some (x, y) => Some (x, even_lift S y) end.

(* x-only: EVERY valid point, infinity included *)
Theorem secp_xonly_roundtrip P : valid S P ->
  parse_xonly S (xonly P) = Ok (evenP P) /\ parse_point S (xonly P) = Ok (evenP P).
Proof.
  intros HV.
  assert (E : parse_xonly S (xonly P) = Ok (evenP P)).
  { destruct P as [[x y]|]; [|reflexivity].
    exact (parse_xonly_xonly_gen S Hp secp_a0 secp_p_mod4 secp_p_lt256 x y HV (secp_no_x0 Hp x y HV)). }
  split; [exact E|]. unfold parse_point.
  assert (Hl : length (xonly P) = 32%nat) by (destruct P as [[x y]|]; apply to_be_length).
  rewrite Hl. exact E.
Qed.

(* acceptance of parse_sec on secp256k1, exactly: the SEC encodings of the curve points *)
Theorem secp_parse_sec_iff b P : bytes_ok b ->
  (parse_sec S b = Ok P <-> exists x y c, P = Some (x, y) /\ valid S P /\ sec P c = Ok b).
Proof.
  intros B. rewrite (parse_sec_iff S Hp secp_a0 secp_p_mod4 secp_p_lt256 b P B). split.
  - intros (x & y & c & HP & HV & Hs & _). eauto 6.
  - intros (x & y & c & -> & HV & Hs). exists x, y, c.
    split; [reflexivity|]. split; [exact HV|]. split; [exact Hs|]. intros _. exact (secp_no_y0 Hp x y HV).
Qed.

Theorem secp_parse_sec_rejects b : bytes_ok b ->
  (parse_sec S b = Err <-> forall x y c, valid S (Some (x, y)) -> sec (Some (x, y)) c <> Ok b).
Proof.
  intros B. rewrite (parse_sec_err_iff S Hp secp_a0 secp_p_mod4 secp_p_lt256 b B). split.
  - intros H x y c HV. exact (H x y c HV (fun _ => secp_no_y0 Hp x y HV)).
  - intros H x y c HV _. exact (H x y c HV).
Qed.

(* acceptance of parse_xonly on 32 bytes, exactly: infinity (zero bytes) and the even-y points *)
Theorem secp_parse_xonly_iff b P : length b = 32%nat -> bytes_ok b ->
  (parse_xonly S b = Ok P <->
   valid S P /\ (forall x y, P = Some (x, y) -> y mod 2 = 0) /\ xonly P = b).
Proof.
  intros Hl B. split.
  - intros H. pose proof (parse_xonly_canonical S Hp secp_p_mod4 b P Hl B H) as Hc.
    destruct (parse_xonly_inv S Hp secp_p_mod4 b P H) as [[-> _]|(y & -> & HV & Hy & _)].
    + split; [exact I|]. split; [discriminate|exact Hc].
    + split; [exact HV|]. split; [|exact Hc]. intros x' y' [= _ <-]. exact Hy.
  - intros (HV & Hev & Hx). destruct (secp_xonly_roundtrip P HV) as [E _]. rewrite Hx in E.
    rewrite E. f_equal. destruct P as [[x y]|]; [|reflexivity]. cbn [evenP]. unfold even_lift.
    pose proof (Hev x y eq_refl) as Hy. apply Z.eqb_eq in Hy. now rewrite Hy.
Qed.

(* the outer entry point S256Point.parse: sound and canonical *)
Theorem secp_parse_sound b P : bytes_ok b -> parse_point S b = Ok P ->
  valid S P /\ ((length b = 32%nat /\ xonly P = b) \/ (P <> None /\ exists c, sec P c = Ok b)).
Proof.
  intros B H. split.
  - exact (parse_point_valid S Hp secp_p_mod4 b P H).
  - exact (parse_point_canonical S Hp secp_p_mod4 b P B H).
Qed.

(* no two different byte strings of the same format decode to the same point *)
Theorem secp_parse_injective b1 b2 P : bytes_ok b1 -> bytes_ok b2 -> length b1 = length b2 ->
  parse_point S b1 = Ok P -> parse_point S b2 = Ok P -> b1 = b2.
Proof.
  intros B1 B2 Hl H1 H2.
  destruct (secp_parse_sound b1 P B1 H1) as [_ [[L1 X1]|[_ [c1 S1]]]];
  destruct (secp_parse_sound b2 P B2 H2) as [_ [[L2 X2]|[_ [c2 S2]]]].
  - congruence.
  - destruct (sec_length _ _ _ S2); lia.
  - destruct (sec_length _ _ _ S1); lia.
  - destruct P as [[x y]|]; [|discriminate]. destruct c1, c2; try congruence;
      pose proof (sec_length _ _ _ S1) as L1; pose proof (sec_length _ _ _ S2) as L2;
      cbn [sec] in S1, S2; apply Ok_inj in S1, S2; subst b1 b2; exfalso; revert Hl;
      cbn [length]; rewrite !app_length, !to_be_length; lia.
Qed.

End SecpEnc.
