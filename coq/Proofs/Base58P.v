(* Proofs/Base58P.v — base58 / Base58Check: digit expansions, round trip, alphabet,
   acceptance criterion. *)
From V Require Import Base.Prelude Base.Ints Model.Base58.

(* ---------- big-endian digit lists ---------- *)

Definition horner (B : Z) (ds : list Z) (a : Z) : Z := fold_left (fun a d => B * a + d) ds a.
Definition val (B : Z) (ds : list Z) : Z := horner B ds 0.

Definition digit (B d : Z) : Prop := 0 <= d < B.
Definition head_nz (ds : list Z) : Prop := match ds with d :: _ => d <> 0 | [] => True end.
Definition canonical (B : Z) (ds : list Z) : Prop := Forall (digit B) ds /\ head_nz ds.

Lemma horner_app B a b x : horner B (a ++ b) x = horner B b (horner B a x).
Proof. unfold horner. apply fold_left_app. Qed.

Lemma val_snoc B p d : val B (p ++ [d]) = B * val B p + d.
Proof. unfold val. rewrite horner_app. reflexivity. Qed.

Lemma horner_lower B ds a :
  1 <= B -> Forall (digit B) ds -> 0 <= a -> a * B ^ Z.of_nat (length ds) <= horner B ds a.
Proof.
  intros HB. revert a; induction ds as [|d r IH]; intros a HF Ha.
  - cbn. lia.
  - inversion HF as [|? ? Hd HF']; subst. unfold digit in Hd.
    change (horner B (d :: r) a) with (horner B r (B * a + d)).
    specialize (IH (B * a + d) HF' ltac:(nia)).
    cbn [length]. rewrite Nat2Z.inj_succ, Z.pow_succ_r by lia.
    assert (0 <= B ^ Z.of_nat (length r)) by (apply Z.pow_nonneg; lia). nia.
Qed.

Lemma val_upper B ds : 1 <= B -> Forall (digit B) ds -> 0 <= val B ds < B ^ Z.of_nat (length ds).
Proof.
  intros HB. induction ds as [|d p IH] using rev_ind; intros HF.
  - cbn. lia.
  - apply Forall_app in HF as [HF1 HF2]. inversion HF2 as [|? ? Hd _]; subst. unfold digit in Hd.
    specialize (IH HF1). rewrite val_snoc, app_length. cbn [length].
    rewrite Nat.add_1_r, Nat2Z.inj_succ, Z.pow_succ_r by lia. nia.
Qed.

Lemma val_lower B d r :
  1 <= B -> canonical B (d :: r) -> B ^ Z.of_nat (length r) <= val B (d :: r).
Proof.
  intros HB [HF HN]. inversion HF as [|? ? Hd HF']; subst. unfold digit in Hd. cbn in HN.
  change (val B (d :: r)) with (horner B r (B * 0 + d)).
  pose proof (horner_lower B r (B * 0 + d) HB HF' ltac:(lia)).
  assert (0 <= B ^ Z.of_nat (length r)) by (apply Z.pow_nonneg; lia). nia.
Qed.

Lemma val_pos B ds : 1 <= B -> canonical B ds -> ds <> [] -> 0 < val B ds.
Proof.
  intros HB HC HN. destruct ds as [|d r]; [congruence|].
  pose proof (val_lower B d r HB HC).
  assert (0 < B ^ Z.of_nat (length r)) by (apply Z.pow_pos_nonneg; lia). lia.
Qed.

Lemma canonical_prefix B p d : canonical B (p ++ [d]) -> canonical B p.
Proof.
  intros [HF HN]. apply Forall_app in HF as [HF1 _]. split; [exact HF1|].
  destruct p; cbn in *; auto.
Qed.

(* the loop computes the canonical expansion, given enough fuel *)
Lemma digits_be_spec B : 2 <= B -> forall fuel n acc,
  0 <= n < B ^ Z.of_nat fuel ->
  exists pre, digits_be B fuel n acc = Ok (pre ++ acc) /\ val B pre = n /\ canonical B pre /\
              (n = 0 -> pre = []) /\ (length pre <= fuel)%nat.
Proof.
  intros HB. induction fuel as [|f IH]; intros n acc Hn.
  - cbn in Hn. assert (n = 0) by lia. subst. exists []. cbn. repeat split; auto; constructor.
  - cbn [digits_be]. destruct (n <=? 0) eqn:E.
    + assert (n = 0) by lia. subst. exists []. repeat split; auto; try constructor. cbn. lia.
    + apply Z.leb_gt in E.
      rewrite Nat2Z.inj_succ, Z.pow_succ_r in Hn by lia.
      assert (Hq : 0 <= n / B < B ^ Z.of_nat f).
      { split; [apply Z.div_pos; lia|]. apply Z.div_lt_upper_bound; lia. }
      destruct (IH (n / B) (n mod B :: acc) Hq) as [pre [E1 [E2 [[C1 C2] [E3 E4]]]]].
      pose proof (Z.mod_pos_bound n B ltac:(lia)) as Hm.
      exists (pre ++ [n mod B]). rewrite <- app_assoc. cbn [app]. split; [exact E1|].
      split; [rewrite val_snoc, E2; symmetry; apply Z.div_mod; lia|].
      split; [split|split].
      * apply Forall_app. split; [exact C1|]. constructor; [exact Hm|constructor].
      * destruct pre as [|x pre']; cbn in *; [|exact C2].
        unfold val in E2. cbn in E2. symmetry in E2. apply Z.div_small_iff in E2; [|lia].
        rewrite Z.mod_small; lia.
      * intros; lia.
      * rewrite app_length. cbn. lia.
Qed.

(* ... and it recovers any canonical digit list from its value *)
Lemma digits_be_val B : 2 <= B -> forall pre, canonical B pre -> forall fuel acc,
  (length pre <= fuel)%nat -> digits_be B fuel (val B pre) acc = Ok (pre ++ acc).
Proof.
  intros HB. induction pre as [|d p IH] using rev_ind; intros HC fuel acc HL.
  - destruct fuel; reflexivity.
  - pose proof (val_pos B (p ++ [d]) ltac:(lia) HC ltac:(now destruct p)) as Hpos.
    pose proof (canonical_prefix B p d HC) as HCp.
    destruct HC as [HF _]. apply Forall_app in HF as [_ HF2].
    inversion HF2 as [|? ? Hd _]; subst. unfold digit in Hd.
    rewrite app_length in HL. cbn in HL. destruct fuel as [|f]; [lia|].
    cbn [digits_be]. destruct (val B (p ++ [d]) <=? 0) eqn:E; [lia|].
    rewrite val_snoc.
    replace ((B * val B p + d) / B) with (val B p)
      by (rewrite Z.mul_comm, Z.div_add_l, Z.div_small; lia).
    replace ((B * val B p + d) mod B) with d
      by (rewrite Z.add_comm, Z.mul_comm, Z.mod_add, Z.mod_small; lia).
    rewrite IH by (auto; lia). now rewrite <- app_assoc.
Qed.

Lemma bytes_be_min_digits fuel : forall num acc,
  0 <= num -> bytes_be_min fuel num acc = digits_be 256 fuel num acc.
Proof.
  induction fuel as [|f IH]; intros num acc Hn; cbn [bytes_be_min digits_be]; [reflexivity|].
  destruct (num <=? 0); [reflexivity|].
  rewrite Z.shiftr_div_pow2 by lia. change (2 ^ 8) with 256.
  change 255 with (Z.ones 8). rewrite Z.land_ones by lia. change (2 ^ 8) with 256.
  apply IH. apply Z.div_pos; lia.
Qed.

Lemma from_be_val l : from_be l = val 256 l.
Proof.
  unfold from_be. induction l as [|d p IH] using rev_ind; [reflexivity|].
  rewrite rev_app_distr. cbn [rev app from_le]. rewrite IH, val_snoc. lia.
Qed.

Lemma horner_zeros B z t : horner B (repeatz 0 z ++ t) 0 = horner B t 0.
Proof.
  induction z as [|z IH]; [reflexivity|]. cbn [repeatz app].
  change (horner B (0 :: repeatz 0 z ++ t) 0) with (horner B (repeatz 0 z ++ t) (B * 0 + 0)).
  replace (B * 0 + 0) with 0 by lia. exact IH.
Qed.

Lemma lz_split s :
  s = repeatz 0 (count_lz s) ++ skipn (count_lz s) s /\ head_nz (skipn (count_lz s) s).
Proof.
  induction s as [|b r [IH1 IH2]]; [split; [reflexivity|exact I]|].
  cbn [count_lz]. destruct (b =? 0) eqn:E.
  - apply Z.eqb_eq in E. subst b. cbn [repeatz skipn app]. split; [now f_equal|exact IH2].
  - apply Z.eqb_neq in E. cbn. split; [reflexivity|exact E].
Qed.

(* ---------- alphabet facts (finite checks) ---------- *)

Lemma index_of_in c l i j : index_of c l i = Ok j -> In c l.
Proof.
  revert i; induction l as [|x r IH]; intros i H; cbn in H; [discriminate|].
  destruct (x =? c) eqn:E; [apply Z.eqb_eq in E; now left|]. right. eapply IH; eauto.
Qed.

Lemma index_of_total c l i : In c l -> exists j, index_of c l i = Ok j /\ i <= j < i + zlen l.
Proof.
  unfold zlen. revert i; induction l as [|x r IH]; intros i H; [destruct H|].
  cbn [index_of]. destruct (x =? c) eqn:E.
  - exists i. split; [reflexivity|]. cbn [length]. lia.
  - destruct H as [H|H]; [apply Z.eqb_neq in E; congruence|].
    destruct (IH (i + 1) H) as [j [E1 E2]]. exists j. split; [exact E1|]. cbn [length]. lia.
Qed.

Lemma b58_index_char_all :
  forallb (fun d => match b58_index (b58_char (Z.of_nat d)) with
                    | Ok i => i =? Z.of_nat d | Err => false end) (seq 0 58) = true.
Proof. vm_compute. reflexivity. Qed.

Lemma b58_index_char d : 0 <= d < 58 -> b58_index (b58_char d) = Ok d.
Proof.
  intros H. pose proof b58_index_char_all as A. rewrite forallb_forall in A.
  specialize (A (Z.to_nat d)). rewrite Z2Nat.id in A by lia.
  assert (I : In (Z.to_nat d) (seq 0 58)) by (apply in_seq; lia). specialize (A I).
  destruct (b58_index (b58_char d)) as [i|]; [|discriminate]. apply Z.eqb_eq in A. now subst.
Qed.

Lemma b58_char_in d : 0 <= d < 58 -> In (b58_char d) b58_alphabet.
Proof.
  intros H. pose proof (b58_index_char d H) as A. unfold b58_index in A.
  exact (index_of_in _ _ _ _ A).
Qed.

Lemma b58_char_not_one d : 0 <= d < 58 -> d <> 0 -> (b58_char d =? 49) = false.
Proof.
  intros H Hn. destruct (b58_char d =? 49) eqn:E; [|reflexivity]. apply Z.eqb_eq in E.
  pose proof (b58_index_char d H) as A. rewrite E in A. vm_compute in A. congruence.
Qed.

(* ---------- the decoding loop ---------- *)

Lemma dec_pos ds : forall num p, Forall (digit 58) ds -> 0 < num ->
  b58_dec_loop (map b58_char ds) num p = Ok (horner 58 ds num, p).
Proof.
  induction ds as [|d r IH]; intros num p HF Hn; [reflexivity|].
  inversion HF as [|? ? Hd HF']; subst. unfold digit in Hd.
  cbn [map b58_dec_loop]. destruct (num =? 0) eqn:E; [lia|]. cbn [andb].
  rewrite (b58_index_char d Hd). cbn [bind]. rewrite IH by (auto; lia). reflexivity.
Qed.

Lemma dec_ones z : forall s p,
  b58_dec_loop (repeatz 49 z ++ s) 0 p = b58_dec_loop s 0 (p + z)%nat.
Proof.
  induction z as [|z IH]; intros s p; [now rewrite Nat.add_0_r|].
  cbn [repeatz app b58_dec_loop]. change ((0 =? 0) && (49 =? 49)) with true. cbn iota.
  rewrite IH. f_equal. lia.
Qed.

Lemma dec_canonical pre p : canonical 58 pre ->
  b58_dec_loop (map b58_char pre) 0 p = Ok (val 58 pre, p).
Proof.
  intros [HF HN]. destruct pre as [|d r]; [reflexivity|].
  inversion HF as [|? ? Hd HF']; subst. unfold digit in Hd. cbn in HN.
  cbn [map b58_dec_loop]. rewrite (b58_char_not_one d Hd HN).
  change ((0 =? 0) && false) with false. cbn iota.
  rewrite (b58_index_char d Hd). cbn [bind]. rewrite dec_pos by (auto; lia). reflexivity.
Qed.

(* a character outside the alphabet makes the loop raise *)
Lemma dec_bad s : forall num p, (exists c, In c s /\ ~ In c b58_alphabet) ->
  b58_dec_loop s num p = Err.
Proof.
  induction s as [|x r IH]; intros num p [c [Hin Hbad]]; [destruct Hin|].
  cbn [b58_dec_loop]. destruct ((num =? 0) && (x =? 49)) eqn:E.
  - apply andb_true_iff in E as [_ E]. apply Z.eqb_eq in E. subst x.
    apply IH. exists c. split; [|exact Hbad]. destruct Hin as [<-|H]; [|exact H].
    exfalso. apply Hbad. vm_compute. now left.
  - destruct (b58_index x) as [i|] eqn:EI; [|reflexivity]. cbn [bind].
    apply IH. exists c. split; [|exact Hbad]. destruct Hin as [<-|H]; [|exact H].
    exfalso. apply Hbad. eapply index_of_in. exact EI.
Qed.

Lemma dec_total s : forall num p, Forall (fun c => In c b58_alphabet) s -> 0 <= num ->
  exists n' p', b58_dec_loop s num p = Ok (n', p') /\
                0 <= n' < (num + 1) * 58 ^ Z.of_nat (length s).
Proof.
  induction s as [|x r IH]; intros num p HF Hn.
  - exists num, p. split; [reflexivity|]. cbn. lia.
  - inversion HF as [|? ? Hx HF']; subst. cbn [b58_dec_loop length].
    rewrite Nat2Z.inj_succ, Z.pow_succ_r by lia.
    assert (0 < 58 ^ Z.of_nat (length r)) by (apply Z.pow_pos_nonneg; lia).
    destruct ((num =? 0) && (x =? 49)) eqn:E.
    + apply andb_true_iff in E as [E _]. apply Z.eqb_eq in E. subst num.
      destruct (IH 0 (S p) HF' ltac:(lia)) as [n' [p' [E1 E2]]].
      exists n', p'. split; [exact E1|]. nia.
    + destruct (index_of_total x b58_alphabet 0 Hx) as [i [EI Hi]].
      unfold b58_index. rewrite EI. cbn [bind].
      change (zlen b58_alphabet) with 58 in Hi.
      destruct (IH (58 * num + i) p HF' ltac:(lia)) as [n' [p' [E1 E2]]].
      exists n', p'. split; [exact E1|]. nia.
Qed.

(* ---------- encode_base58 ---------- *)

Lemma pow_256_58 n : 256 ^ Z.of_nat n <= 58 ^ Z.of_nat (2 * n).
Proof.
  rewrite Nat2Z.inj_mul, Z.pow_mul_r by lia. change (58 ^ Z.of_nat 2) with 3364.
  apply Z.pow_le_mono_l. lia.
Qed.

Lemma pow_58_256 n : 58 ^ Z.of_nat n <= 256 ^ Z.of_nat n.
Proof. apply Z.pow_le_mono_l. lia. Qed.

Lemma encode_base58_spec s : s <> [] -> bytes_ok s ->
  exists pre, encode_base58 s = Ok (repeatz 49 (count_lz s) ++ map b58_char pre) /\
              canonical 58 pre /\ val 58 pre = from_be s.
Proof.
  intros HN HB. unfold encode_base58. destruct s as [|b0 s0]; [congruence|].
  set (s := b0 :: s0) in *.
  assert (Hr : 0 <= from_be s < 58 ^ Z.of_nat (2 * length s)).
  { unfold from_be. pose proof (from_le_bound (rev s) (bytes_ok_rev s HB)) as H.
    rewrite rev_length in H. unfold pow256 in H. pose proof (pow_256_58 (length s)). lia. }
  destruct (digits_be_spec 58 ltac:(lia) (2 * length s) (from_be s) [] Hr)
    as [pre [E1 [E2 [C [_ _]]]]].
  rewrite E1. cbn [bind]. rewrite app_nil_r. exists pre. auto.
Qed.

Lemma Forall_repeatz (P : Z -> Prop) x n : P x -> Forall P (repeatz x n).
Proof. intros H. induction n; cbn [repeatz]; constructor; auto. Qed.

Lemma encode_base58_alphabet s t :
  bytes_ok s -> encode_base58 s = Ok t -> Forall (fun c => In c b58_alphabet) t.
Proof.
  intros HB E. destruct s as [|b0 s0]; [discriminate|].
  destruct (encode_base58_spec (b0 :: s0) ltac:(discriminate) HB) as [pre [E1 [[C _] _]]].
  rewrite E1 in E. injection E as <-. apply Forall_app. split.
  - apply Forall_repeatz. vm_compute. now left.
  - apply Forall_forall. intros c Hc. apply in_map_iff in Hc as [d [<- Hd]].
    rewrite Forall_forall in C. apply b58_char_in. apply (C d Hd).
Qed.

(* decoding the encoding gives the bytes back (no checksum involved) *)
Lemma b58_to_bytes_encode s t : bytes_ok s -> encode_base58 s = Ok t -> b58_to_bytes t = Ok s.
Proof.
  intros HB E. destruct s as [|b0 s0]; [discriminate|].
  remember (b0 :: s0) as s eqn:Es.
  assert (HNs : s <> []) by (subst; discriminate).
  destruct (encode_base58_spec s HNs HB) as [pre [E1 [C E2]]].
  rewrite E1 in E. injection E as <-.
  destruct (lz_split s) as [S1 S2].
  remember (count_lz s) as z eqn:Ez. remember (skipn z s) as t eqn:Et.
  assert (HBt : bytes_ok t) by (rewrite Et; apply bytes_ok_skipn; exact HB).
  assert (Ct : canonical 256 t) by (split; [exact HBt|exact S2]).
  assert (EV : val 256 t = val 58 pre).
  { rewrite E2, from_be_val. rewrite S1 at 1. unfold val. now rewrite horner_zeros. }
  clear Es Ez Et E1 E2.
  unfold b58_to_bytes. rewrite dec_ones, (dec_canonical pre _ C). cbn [bind].
  pose proof (val_upper 58 pre ltac:(lia) (proj1 C)) as U.
  rewrite bytes_be_min_digits by lia. rewrite <- EV.
  rewrite digits_be_val; [cbn [bind Nat.add]; rewrite app_nil_r; now rewrite <- S1 | lia | exact Ct |].
  rewrite app_length, repeatz_length, map_length.
  destruct t as [|d r]; [cbn; lia|].
  pose proof (val_lower 256 d r ltac:(lia) Ct) as L.
  pose proof (pow_58_256 (length pre)).
  assert (Z.of_nat (length r) < Z.of_nat (length pre)).
  { apply (Z.pow_lt_mono_r_iff 256); lia. }
  cbn [length]. lia.
Qed.

(* ---------- Base58Check ---------- *)

Section WithHash.
Variable hash256 : bytes -> bytes.
Hypothesis hash_len : forall x, length (hash256 x) = 32%nat.
Hypothesis hash_ok : forall x, bytes_ok (hash256 x).

Lemma chk_len raw : length (firstn 4 (hash256 raw)) = 4%nat.
Proof. rewrite firstn_length, hash_len. reflexivity. Qed.

Lemma split_last4 raw c : length c = 4%nat -> but_last4 (raw ++ c) = raw /\ last4 (raw ++ c) = c.
Proof.
  intros H. unfold but_last4, last4. rewrite app_length, H.
  replace (length raw + 4 - 4)%nat with (length raw) by lia.
  rewrite firstn_app, Nat.sub_diag, firstn_all, skipn_app, Nat.sub_diag, skipn_all.
  cbn. now rewrite app_nil_r.
Qed.

Theorem base58check_roundtrip b : bytes_ok b ->
  exists s, encode_base58_checksum hash256 b = Ok s /\
            Forall (fun c => In c b58_alphabet) s /\
            raw_decode_base58 hash256 s = Ok b.
Proof.
  intros HB. unfold encode_base58_checksum.
  set (c := firstn 4 (hash256 b)).
  assert (Hc : length c = 4%nat) by apply chk_len.
  assert (HBs : bytes_ok (b ++ c)).
  { apply bytes_ok_app. split; [exact HB|]. apply bytes_ok_firstn, hash_ok. }
  assert (HN : b ++ c <> []).
  { intros E. apply (f_equal (@length Z)) in E. rewrite app_length, Hc in E. cbn in E. lia. }
  destruct (encode_base58_spec (b ++ c) HN HBs) as [pre [E1 _]].
  eexists. split; [exact E1|]. split; [eapply encode_base58_alphabet; eauto|].
  unfold raw_decode_base58. rewrite (b58_to_bytes_encode _ _ HBs E1). cbn [bind].
  destruct (split_last4 b c Hc) as [-> ->]. fold c. now rewrite beq_refl.
Qed.

(* acceptance criterion, exactly as the code computes it *)
Theorem base58check_accept_iff s b :
  raw_decode_base58 hash256 s = Ok b <->
  exists c, b58_to_bytes s = Ok c /\ b = but_last4 c /\ firstn 4 (hash256 b) = last4 c.
Proof.
  unfold raw_decode_base58. split.
  - destruct (b58_to_bytes s) as [c|]; [|discriminate]. cbn [bind].
    destruct (beq _ _) eqn:E; [|discriminate]. intros [= <-].
    exists c. apply beq_eq in E. auto.
  - intros [c [E1 [E2 E3]]]. rewrite E1. cbn [bind]. subst b. rewrite E3, beq_refl. reflexivity.
Qed.

(* the conversion raises exactly on characters outside the alphabet *)
Theorem b58_to_bytes_ok_iff s :
  (exists c, b58_to_bytes s = Ok c) <-> Forall (fun ch => In ch b58_alphabet) s.
Proof.
  split.
  - intros [c E]. apply Forall_forall. intros ch Hch.
    destruct (in_dec Z.eq_dec ch b58_alphabet) as [I|NI]; [exact I|].
    unfold b58_to_bytes in E. rewrite (dec_bad s 0 0) in E by (exists ch; auto). discriminate.
  - intros HF. unfold b58_to_bytes.
    destruct (dec_total s 0 0 HF ltac:(lia)) as [n' [p' [E1 E2]]]. rewrite E1. cbn [bind].
    rewrite bytes_be_min_digits by lia.
    pose proof (pow_58_256 (length s)).
    destruct (digits_be_spec 256 ltac:(lia) (length s) n' [] ltac:(lia)) as [pre [E3 _]].
    rewrite E3. cbn [bind]. eauto.
Qed.

(* fewer than 4 decoded bytes can never carry a matching checksum *)
Theorem base58check_short_rejected s c :
  b58_to_bytes s = Ok c -> (length c < 4)%nat -> raw_decode_base58 hash256 s = Err.
Proof.
  intros E HL. unfold raw_decode_base58. rewrite E. cbn [bind].
  destruct (beq _ _) eqn:EB; [|reflexivity]. apply beq_eq in EB.
  apply (f_equal (@length Z)) in EB. rewrite chk_len in EB. unfold last4 in EB.
  rewrite skipn_length in EB. lia.
Qed.

End WithHash.
