(* Proofs/HdBlindP.v — C08, blinding in the positive direction: blind_xpub on canonical path
   texts SUCCEEDS and returns exactly the xpub at the concatenated path from the root, together
   with the text of that path; the degenerate cases (root starting path "m", empty secret path
   "m") are instances.  (Proofs/HdCodecP.blind_xpub_correct is the conditional direction for
   arbitrary tidy text.) *)
From V Require Import Base.Prelude Base.Ints Model.Pecc Model.Hd Model.HdText Generated.HdVersions
  Proofs.GroupHyp Proofs.HdP Proofs.HdPathP Proofs.HdCodecP Proofs.HdTextP Proofs.HdSpecP.

Section Blind.
Variable C : curve.
Variable hmac512 : bytes -> bytes -> bytes.
Variable hash160 : bytes -> bytes.
Hypothesis sec_roundtrip : forall P s, valid C P -> sec P true = Ok s -> parse_point C s = Ok P.
Hypothesis SL : scalar_laws C.

Definition unhardened (i : Z) : Prop := 0 <= i < 2147483648.

Theorem blind_xpub_text root a b ks kf raw x m1 k1 m2 k2 :
  wf_priv C root -> sk_depth root = 0 ->
  Forall idx_ok a -> Forall unhardened b -> zlen a <= 255 -> zlen b <= 255 ->
  derive_priv C hmac512 hash160 root a = Ok ks ->
  derive_priv C hmac512 hash160 ks b = Ok kf ->
  known_xpub (sk_pubver ks) = true -> length (sk_pfp ks) = 4%nat -> length (sk_cc ks) = 32%nat ->
  xpub_raw (pub_of ks) None = Ok raw ->
  xpub_raw (pub_of kf) None = Ok x ->
  mP m1 -> markP k1 -> mP m2 -> markP k2 ->
  blind_xpub C hmac512 hash160 raw (path_text m1 k1 a) (path_text m2 k2 b) =
  Ok (x, path_text 109 104 (a ++ b)).
Proof.
  intros Hwf Hd0 Fa Fb La Lb Hks Hkf Kv Kp Kc Hraw Hx Hm1 Hk1 Hm2 Hk2.
  assert (Fb' : Forall idx_ok b).
  { eapply Forall_impl; [|exact Fb]. unfold unhardened, idx_ok. intros; lia. }
  pose proof (derive_priv_wf C hmac512 hash160 a root ks Hwf Hks) as Hwfs.
  destruct (wf_priv_inv C SL ks Hwfs) as (_ & _ & Hv & _).
  assert (Hok : codec_ok_pub C (pub_of ks) (sk_pubver ks)) by (repeat split; assumption).
  unfold xpub_raw in Hraw. cbn [pub_of pk_ver] in Hraw.
  destruct (xpub_roundtrip C sec_roundtrip _ _ _ Hok Hraw) as (_ & Hparse).
  set (nn := net_of_xpub (sk_pubver ks)) in *.
  assert (Hparse' : parse_pub C raw = Ok (with_net (pub_of ks) nn)) by (rewrite Hparse; reflexivity).
  unfold blind_xpub. rewrite Hparse'. cbn [bind].
  change (pk_depth (with_net (pub_of ks) nn)) with (sk_depth ks).
  destruct (derive_depth C hmac512 hash160 a root ks Hks) as (Dd & _).
  rewrite (path_text_count m1 k1 a Hm1 Hk1 Fa), Dd, Hd0, Z.add_0_l, Z.eqb_refl. cbn [negb].
  destruct (derive_commute C hmac512 hash160 SL b ks kf Hwfs Hkf Fb) as (_ & Hpub).
  rewrite (traverse_pub_text C hmac512 hash160 _ m2 k2 b Hm2 Hk2 Fb'), derive_pub_with_net, Hpub.
  cbn [bind]. rewrite xpub_raw_with_net, Hx. cbn [bind].
  rewrite (path_text_combine m1 k1 a m2 k2 b) by assumption. reflexivity.
Qed.

(* the empty secret path "m": blinding returns the starting xpub itself and the normalised
   starting path *)
Corollary blind_xpub_empty_secret root a ks raw m1 k1 m2 :
  wf_priv C root -> sk_depth root = 0 -> Forall idx_ok a -> zlen a <= 255 ->
  derive_priv C hmac512 hash160 root a = Ok ks ->
  known_xpub (sk_pubver ks) = true -> length (sk_pfp ks) = 4%nat -> length (sk_cc ks) = 32%nat ->
  xpub_raw (pub_of ks) None = Ok raw ->
  mP m1 -> markP k1 -> mP m2 ->
  blind_xpub C hmac512 hash160 raw (path_text m1 k1 a) [m2] = Ok (raw, path_text 109 104 a).
Proof.
  intros Hwf Hd0 Fa La Hks Kv Kp Kc Hraw Hm1 Hk1 Hm2.
  pose proof (blind_xpub_text root a [] ks ks raw raw m1 k1 m2 39 Hwf Hd0 Fa (Forall_nil _) La
                ltac:(unfold zlen; cbn; lia) Hks eq_refl Kv Kp Kc Hraw Hraw Hm1 Hk1 Hm2
                ltac:(left; reflexivity)) as H.
  rewrite app_nil_r in H. exact H.
Qed.

(* the root starting path "m" (the xpub of the master key itself) *)
Corollary blind_xpub_root root b kf raw x m1 m2 k2 :
  wf_priv C root -> sk_depth root = 0 -> Forall unhardened b -> zlen b <= 255 ->
  derive_priv C hmac512 hash160 root b = Ok kf ->
  known_xpub (sk_pubver root) = true -> length (sk_pfp root) = 4%nat -> length (sk_cc root) = 32%nat ->
  xpub_raw (pub_of root) None = Ok raw ->
  xpub_raw (pub_of kf) None = Ok x ->
  mP m1 -> mP m2 -> markP k2 ->
  blind_xpub C hmac512 hash160 raw [m1] (path_text m2 k2 b) = Ok (x, path_text 109 104 b).
Proof.
  intros Hwf Hd0 Fb Lb Hkf Kv Kp Kc Hraw Hx Hm1 Hm2 Hk2.
  exact (blind_xpub_text root [] b root kf raw x m1 39 m2 k2 Hwf Hd0 (Forall_nil _) Fb
           ltac:(unfold zlen; cbn; lia) Lb eq_refl Hkf Kv Kp Kc Hraw Hx Hm1
           ltac:(left; reflexivity) Hm2 Hk2).
Qed.

(* a hardened step anywhere in the secret path: blind_xpub refuses (public derivation) *)
Theorem blind_xpub_refuses_hardened raw sp b m2 k2 :
  Forall idx_ok b -> Exists (fun i => 2147483648 <= i) b -> mP m2 -> markP k2 ->
  blind_xpub C hmac512 hash160 raw sp (path_text m2 k2 b) = Err.
Proof.
  intros Fb Hex Hm2 Hk2. unfold blind_xpub.
  destruct (parse_pub C raw) as [k|]; cbn [bind]; [|reflexivity].
  destruct (negb (pk_depth k =? count_c 47 sp)); [reflexivity|].
  rewrite (traverse_pub_text C hmac512 hash160 k m2 k2 b Hm2 Hk2 Fb).
  rewrite derive_pub_refuses_hardened; [reflexivity|].
  eapply Exists_impl; [|exact Hex]. intros i Hi. left. exact Hi.
Qed.
End Blind.
