(* Proofs/Bech32Sweep.v — the complete kernel computation behind the bech32/bech32m
   error-detection theorem: for all error positions p2 < p1 < 90 (counted from the end of
   the data part) and all non-zero 5-bit symbol differences e1, e2, neither the single-error
   syndrome T p1 e1 nor the double-error syndrome T p1 e1 xor T p2 e2 is 0 or the
   bech32 <-> bech32m confusion value 1 xor 0x2bc830a3.  (90*31 + 4005*961 = 3,851,595
   syndromes, vm_compute.) *)
From V Require Import Base.Prelude Base.Lfsr Model.Bech32.

Definition CONFUSION : Z := Z.lxor 1 BECH32M_CONSTANT.

Lemma bech32_sweep_90 : sweep GEN 25 5 90 CONFUSION = true.
Proof. vm_compute. reflexivity. Qed.
