(* Proofs/BcurSingleSubstP.v — one replaced character in a BCURSingle string WITH checksum,
   "ur:bytes/<checksum>/<payload>".  New compared with the multi-part strings: replacing the
   inner '/' by a bech32 character merges checksum and payload into one checksum-less bc32
   text <checksum><c><payload>.  Such a text never passes the bc32 polymod test: both halves are
   valid bc32 words, so the polymod state after <checksum> is the bc32 constant, and no 5-bit
   symbol leads from there back to the start state (algebra of the LFSR, any lengths). *)
From V Require Import Base.Prelude Base.Ints Base.Lfsr Model.Helper Model.Base58 Model.Bech32
  Model.Bcur Model.BcurStr Proofs.Base58P Proofs.PolymodP Proofs.Bech32DetectP
  Proofs.ConvertbitsP Proofs.BcurP Proofs.Bc32P Proofs.Bc32SubP Proofs.BcurStrP Proofs.BcurSubstP.

(* ---------- two valid bc32 words glued by one symbol are never a valid bc32 word ---------- *)

Lemma run_cons c v r : run GEN 25 5 c (v :: r) = run GEN 25 5 (step GEN 25 5 c v) r.
Proof. reflexivity. Qed.

Lemma lxor_cancel_r a b v : Z.lxor a v = Z.lxor b v -> a = b.
Proof.
  intros H. apply (f_equal (fun z => Z.lxor z v)) in H.
  now rewrite !Z.lxor_assoc, Z.lxor_nilpotent, !Z.lxor_0_r in H.
Qed.

Lemma run_inj L : forall a b, st_ok a -> st_ok b -> Forall sym5 L ->
  run GEN 25 5 a L = run GEN 25 5 b L -> a = b.
Proof.
  induction L as [|v r IH]; intros a b Ha Hb HF H; [exact H|].
  inversion HF as [|? ? Hv Hr]; subst. rewrite !run_cons in H.
  apply IH in H; [|apply pm_step_bound; assumption|apply pm_step_bound; assumption|exact Hr].
  rewrite (step_split GEN 25 5 a v), (step_split GEN 25 5 b v) in H. apply lxor_cancel_r in H.
  assert (K : step0 GEN 25 5 (Z.lxor a b) = 0).
  { unfold step0. rewrite <- (Z.lxor_0_r 0) at 1. rewrite step_lxor. fold (step0 GEN 25 5 a).
    fold (step0 GEN 25 5 b). rewrite H. apply Z.lxor_nilpotent. }
  apply step0_kernel in K.
  - now apply Z.lxor_eq.
  - unfold st_ok, P30 in *. apply lxor_bound; lia.
Qed.

Lemma glue_const : step0 GEN 25 5 BC32_CONSTANT = 724725419 /\ c0 = 32.
Proof. split; vm_compute; reflexivity. Qed.

Theorem merged_polymod rc x re :
  Forall sym5 rc -> sym5 x -> Forall sym5 re ->
  bech32_polymod (0 :: rc) = BC32_CONSTANT -> bech32_polymod (0 :: re) = BC32_CONSTANT ->
  bech32_polymod (0 :: rc ++ x :: re) <> BC32_CONSTANT.
Proof.
  intros Fc Hx Fe Vc Ve. rewrite polymod_cons0 in *. rewrite run_app, Vc, run_cons. intros H.
  rewrite <- Ve in H at 2.
  apply run_inj in H; [|apply pm_step_bound; [exact BC32_ok|exact Hx]|exact c0_ok|exact Fe].
  rewrite step_split in H. destruct glue_const as [G1 G2]. rewrite G1, G2 in H.
  assert (x = Z.lxor 724725419 32).
  { rewrite <- H. now rewrite <- Z.lxor_assoc, Z.lxor_nilpotent, Z.lxor_0_l. }
  unfold sym5 in Hx. subst x. vm_compute in Hx. destruct Hx as [_ Hx]. discriminate.
Qed.

Lemma mapr_app {A B} (f : A -> result B) a : forall b,
  mapr f (a ++ b) = (ra <- mapr f a ;; rb <- mapr f b ;; Ok (ra ++ rb)).
Proof.
  induction a as [|x r IH]; intros b; cbn [app mapr bind].
  - destruct (mapr f b); reflexivity.
  - destruct (f x); cbn [bind]; [|reflexivity]. rewrite IH.
    destruct (mapr f r); cbn [bind]; [|reflexivity]. destruct (mapr f b); reflexivity.
Qed.

(* text level: <valid bc32 word><any character><valid bc32 word> is not decoded *)
Theorem bc32_glued_rejected rc re a x :
  Forall sym5 rc -> Forall sym5 re ->
  bech32_polymod (0 :: rc) = BC32_CONSTANT -> bech32_polymod (0 :: re) = BC32_CONSTANT ->
  bc32decode (map b32c rc ++ a :: map b32c re) <> Ok (Some x).
Proof.
  intros Fc Fe Vc Ve. rewrite bc32decode_tail.
  destruct (negb _ && negb _); [discriminate|].
  assert (LW : lower (map b32c rc ++ a :: map b32c re) = map b32c rc ++ lower_c a :: map b32c re).
  { unfold lower. rewrite map_app. cbn [map]. fold (lower (map b32c rc)). fold (lower (map b32c re)).
    now rewrite (gchar_lower _ (gchar_map _ Fc)), (gchar_lower _ (gchar_map _ Fe)). }
  rewrite LW. unfold bc32_tail. destruct (negb (forallb _ _)); [discriminate|].
  rewrite mapr_app, (index_map_b32c _ Fc). cbn [bind mapr].
  destruct (bech32_index (lower_c a)) as [i|] eqn:EI; cbn [bind]; [|discriminate].
  rewrite (index_map_b32c _ Fe). cbn [bind].
  destruct (bech32_index_sym _ _ EI) as [Si _].
  destruct (bech32_polymod (0 :: rc ++ i :: re) =? BC32_CONSTANT) eqn:EQ; [|discriminate].
  apply Z.eqb_eq in EQ. exfalso. exact (merged_polymod rc i re Fc Si Fe Vc Ve EQ).
Qed.

(* ---------- helpers ---------- *)

Lemma hamming1_chars C : forall C' z, length C = length C' -> (hamming C C' <= 1)%nat ->
  In z C' -> ~ In z C -> forall c, In c C' -> c = z \/ In c C.
Proof.
  induction C as [|x r IH]; intros [|y r'] z HL HH Hz Nz c Hc; cbn in HL; try discriminate;
    [destruct Hc|].
  cbn [hamming] in HH. destruct (x =? y) eqn:E.
  - apply Z.eqb_eq in E. subst y. destruct Hz as [Hz|Hz]; [exfalso; apply Nz; now left|].
    destruct Hc as [<-|Hc]; [right; now left|].
    destruct (IH r' z ltac:(lia) ltac:(lia) Hz ltac:(intros Q; apply Nz; now right) c Hc) as [->|Q];
      [now left|right; now right].
  - assert (r' = r) as -> by (symmetry; apply hamming_0_eq; lia).
    destruct Hz as [<-|Hz]; [|exfalso; apply Nz; now right].
    destruct Hc as [<-|Hc]; [now left|right; now right].
Qed.

Lemma split_on_in sep s : forall seg, In seg (split_on sep s) -> forall c, In c seg -> In c s.
Proof.
  induction s as [|x r IH]; intros seg HI c Hc; cbn [split_on] in HI.
  - destruct HI as [<-|[]]. destruct Hc.
  - destruct (x =? sep).
    + destruct HI as [<-|HI]; [destruct Hc|]. right. eapply IH; eauto.
    + destruct (split_on sep r) as [|s0 ss] eqn:ES; cbn [cons_hd] in HI.
      * destruct HI as [<-|[]]. destruct Hc as [<-|[]]. now left.
      * destruct HI as [<-|HI].
        -- destruct Hc as [<-|Hc]; [now left|]. right. apply (IH s0); [now left|exact Hc].
        -- right. apply (IH seg); [now right|exact Hc].
Qed.

Lemma split_on_has sep s : (2 <= length (split_on sep s))%nat -> In sep s.
Proof.
  intros H. destruct (in_dec Z.eq_dec sep s) as [I|N]; [exact I|]. exfalso.
  rewrite split_on_nosep in H; [cbn in H; lia|].
  apply Forall_forall. intros c Hc ->. contradiction.
Qed.

Lemma lstrip_in s : forall c, In c (lstrip s) -> In c s.
Proof.
  induction s as [|x r IH]; intros c H; [exact H|]. cbn [lstrip] in H.
  destruct (is_ws x); [right; now apply IH|exact H].
Qed.

Lemma rstrip_in s c : In c (rstrip s) -> In c s.
Proof. unfold rstrip. intros H. apply in_rev in H. apply lstrip_in in H. now apply in_rev in H. Qed.

Lemma parse_xofy_o s r : parse_xofy s = Ok r -> In 111 s.
Proof.
  intros H. destruct (in_dec Z.eq_dec 111 s) as [I|N]; [exact I|]. exfalso.
  unfold parse_xofy in H. rewrite split_of_noo in H; [discriminate|].
  apply Forall_forall. intros c Hc ->. contradiction.
Qed.

Lemma gchar_no_o s : Forall gchar s -> ~ In 111 s.
Proof.
  intros F HI. rewrite Forall_forall in F. destruct (F 111 HI) as [_ A]. vm_compute in A. discriminate.
Qed.

Lemma gchar_no_slash s : Forall gchar s -> ~ In 47 s.
Proof.
  intros F HI. rewrite Forall_forall in F. destruct (F 47 HI) as [_ A]. vm_compute in A. discriminate.
Qed.

Section WithHash.
Variable sha256 : bytes -> bytes.
Hypothesis sha_ok : forall x, bytes_ok (sha256 x).
Hypothesis sha_len : forall x, length (sha256 x) = 32%nat.

Lemma single_parse_inv p d' : single_parse sha256 p = Ok d' ->
  exists payload c x y, parse_part p = Ok (payload, c, x, y) /\
                        bcur_decode sha256 payload c = Ok (Some d').
Proof.
  unfold single_parse. destruct (parse_part p) as [[[[payload c] x] y]|] eqn:EP; [|discriminate].
  cbn [bind]. destruct (negb (x =? 1) || negb (y =? 1)); [discriminate|].
  destruct (bcur_decode sha256 payload c) as [[dd|]|] eqn:ED; try discriminate. cbn [bind].
  destruct (bcur_init sha256 dd (Some payload) c); [|discriminate]. cbn [bind]. intros [= <-].
  exists payload, c, x, y. split; [reflexivity|exact ED].
Qed.

Lemma bcur_decode_chk text c d' : bcur_decode sha256 text (Some c) = Ok (Some d') ->
  exists h, bc32decode c = Ok (Some h).
Proof.
  unfold bcur_decode. destruct (bc32decode text) as [[cb|]|]; try discriminate. cbn [bind].
  destruct (bc32decode c) as [[h|]|]; try discriminate. eauto.
Qed.

Lemma bcur_decode_text text c d' : bcur_decode sha256 text c = Ok (Some d') ->
  exists cb, bc32decode text = Ok (Some cb).
Proof. unfold bcur_decode. destruct (bc32decode text) as [[cb|]|]; try discriminate. eauto. Qed.

(* the checksum text with at most one replaced character, if it passes bc32decode, is the original *)
Lemma chk_recover cbor C C' h : bc32encode (sha256 cbor) = Ok C -> Forall gchar C ->
  length C' = length C -> (hamming C C' <= 1)%nat ->
  bc32decode (lower C') = Ok (Some h) -> lower C' = C.
Proof.
  intros EH Gc LC HC DH. pose proof (gchar_lower _ Gc) as LCk.
  assert (LL : length C = length (lower C')) by (unfold lower; rewrite map_length; lia).
  pose proof (hamming_lower C C' ltac:(lia) LCk) as HLE.
  destruct (Nat.eq_dec (hamming C (lower C')) 0) as [H0|H0].
  - symmetry. exact (hamming_0_eq _ _ LL H0).
  - destruct (bc32_detects_single_text (sha256 cbor) C (lower C') h
                (sha_ok cbor) EH ltac:(lia) ltac:(lia) DH) as [A _].
    rewrite lower_idem in A. exact A.
Qed.

(* BCURSingle(b).encode(use_checksum=True) with at most one character replaced, anywhere *)
Theorem single_str_detects_single d s s' d' :
  bytes_ok d -> zlen d < 4294967296 ->
  single_encode_str sha256 d true = Ok s ->
  length s' = length s -> (hamming s s' <= 1)%nat ->
  single_parse_str sha256 s' = Ok d' ->
  d' = d \/ exists cbor cbor', cbor_encode d = Ok cbor /\ cbor' <> cbor /\
                               sha256 cbor' = sha256 cbor.
Proof.
  intros HB HLd HE HLen HH HP.
  destruct (bcur_encode_facts sha256 sha_ok sha_len d HB HLd)
    as [enc [chk [cbor [EE [EC [DC [D1 [D2 [G1 [G2 [L2 L1]]]]]]]]]]].
  destruct (bcur_encode_inv sha256 d enc chk EE) as [cbor0 [EC0 [EB EH]]].
  rewrite EC in EC0. injection EC0 as <-.
  revert HE. unfold single_encode_str, single_encode.
  rewrite (bcur_init_ok sha256 d enc chk None None EE) by auto. cbn [bind]. unfold fmt_part.
  cbn [p_form p_chk p_payload]. change (3 =? 2) with false. change (3 =? 3) with true. cbn iota.
  intros [= E1].
  change (ur_prefix ++ chk ++ 47 :: enc = s) in E1.
  pose proof (gchar_plain _ G2) as Pc. pose proof (gchar_plain _ G1) as Pe.
  assert (NEe : enc <> []) by (intros ->; cbn in L1; lia).
  assert (LS : lower s = s).
  { rewrite <- E1. apply lower_fix. apply Forall_app. split.
    - eapply Forall_impl; [|exact ur_prefix_okc]. intros c [_ B]. exact B.
    - apply Forall_app. split; [eapply Forall_impl; [|exact Pc]; intros c [_ [_ B]]; exact B|].
      constructor; [reflexivity|]. eapply Forall_impl; [|exact Pe]. intros c [_ [_ B]]. exact B. }
  rewrite single_parse_str_refines in HP. unfold str_fields in HP.
  destruct (str_core (strip (lower s'))) as [p|] eqn:SF; [|discriminate]. cbn [bind] in HP.
  destruct (single_parse_inv p d' HP) as [payload [c [x [y [PP BD]]]]].
  set (t := lower s') in *.
  assert (HLt : length t = length (ur_prefix ++ chk ++ [47] ++ enc)).
  { unfold t, lower. rewrite map_length. change (chk ++ [47] ++ enc) with (chk ++ 47 :: enc).
    rewrite E1. exact HLen. }
  assert (HHt : (hamming (ur_prefix ++ chk ++ [47%Z] ++ enc) t <= 1)%nat).
  { change (chk ++ [47] ++ enc) with (chk ++ 47 :: enc). rewrite E1.
    pose proof (hamming_lower s s' ltac:(lia) LS). fold t in H. lia. }
  destruct (hamming_app_inv ur_prefix _ t HLt) as [P' [t1 [Et [LP [Lt1 H1]]]]].
  destruct (hamming_app_inv chk _ t1 Lt1) as [C' [t2 [-> [LC [Lt2 H2]]]]].
  destruct (hamming_app_inv [47] _ t2 Lt2) as [A' [E' [-> [LA [LE H3]]]]].
  destruct A' as [|a [|? ?]]; try discriminate LA.
  rewrite Et in *. clear Et. rewrite H1, H2, H3 in HHt. cbn [hamming] in HHt.
  assert (lastE : forall z, is_ws (hd 0 (rev (z ++ enc))) = false).
  { intros z. rewrite hd_rev_app by exact NEe. apply (Forall_hd0 nows); [reflexivity|].
    apply Forall_rev. eapply Forall_impl; [|exact Pe]. intros q [_ [A _]]. exact A. }
  destruct (Nat.eq_dec (hamming ur_prefix P') 0) as [EP|NP].
  2:{ exfalso.
      assert (C' = chk) as -> by (symmetry; apply hamming_0_eq; [lia|lia]).
      assert (E' = enc) as -> by (symmetry; apply hamming_0_eq; [lia|lia]).
      rewrite prefix_bad in SF; [discriminate|exact LP|lia| |].
      - intros Q. apply app_eq_nil in Q as [_ Q]. discriminate.
      - replace (chk ++ [a] ++ enc) with ((chk ++ [a]) ++ enc) by (now rewrite <- app_assoc).
        apply lastE. }
  assert (P' = ur_prefix) as -> by (symmetry; apply hamming_0_eq; [lia|exact EP]).
  destruct (47 =? a) eqn:EA.
  - (* the inner '/' is intact *)
    apply Z.eqb_eq in EA. subst a.
    replace (ur_prefix ++ C' ++ [47] ++ E') with ((ur_prefix ++ C' ++ [47]) ++ E') in SF
      by (now rewrite <- !app_assoc).
    rewrite strip_app in SF; [|discriminate|reflexivity|].
    2:{ replace (ur_prefix ++ C' ++ [47]) with ((ur_prefix ++ C') ++ [47]) by (now rewrite <- app_assoc).
        rewrite hd_rev_app by discriminate. reflexivity. }
    replace ((ur_prefix ++ C' ++ [47]) ++ rstrip E') with (ur_prefix ++ C' ++ 47 :: rstrip E') in SF
      by (now rewrite <- !app_assoc).
    rewrite str_core_shape, split_on_app in SF.
    pose proof (split_on_len 47 C') as LC1. pose proof (split_on_len 47 (rstrip E')) as LE1.
    destruct (split_on 47 C') as [|x1 [|x2 [|x3 xr]]] eqn:SC; [cbn in LC1; lia| | |].
    + destruct (split_on 47 (rstrip E')) as [|e1 [|e2 [|e3 er]]] eqn:SE; [cbn in LE1; lia| | |].
      * (* three segments: checksum field C', payload field rstrip E' *)
        assert (x1 = C') as -> by (destruct (split_on_single 47 C' ltac:(now rewrite SC)) as [Q _];
                                   rewrite SC in Q; now injection Q).
        cbn [app fields_of_segs] in SF. injection SF as <-.
        pose proof (parse_part_chk34 _ _ _ _ _ PP (or_introl eq_refl)) as Hc. cbn [p_chk] in Hc. subst c.
        destruct (bcur_decode_chk _ _ _ BD) as [h DH].
        rewrite (chk_recover cbor chk C' h EH G2 LC ltac:(lia) DH) in BD.
        destruct (bcur_decode_exact_or_collision_full sha256 sha_ok payload d enc chk d' EE BD)
          as [->|[cb [cb' [A [B [Cc _]]]]]]; [now left|right; exists cb, cb'; auto].
      * (* a '/' inside the payload: 4 segments, x-of-y field = C' = checksum text, no "of" in it *)
        exfalso. cbn [app fields_of_segs] in SF.
        assert (x1 = C') as -> by (destruct (split_on_single 47 C' ltac:(now rewrite SC)) as [Q _];
                                   rewrite SC in Q; now injection Q).
        destruct (parse_xofy C') as [[xx yy]|] eqn:PX; [|discriminate].
        apply parse_xofy_o in PX.
        assert (I47 : In 47 E').
        { apply rstrip_in. apply split_on_has. rewrite SE. cbn; lia. }
        assert (hamming enc E' <> 0)%nat.
        { intros Q. apply hamming_0_eq in Q; [|lia]. subst E'. exact (gchar_no_slash _ G1 I47). }
        assert (C' = chk) as Q by (symmetry; apply hamming_0_eq; [lia|lia]). subst C'.
        exact (gchar_no_o _ G2 PX).
      * cbn [app] in SF. rewrite fos_long in SF; [discriminate|cbn [length]; lia].
    + destruct (split_on 47 (rstrip E')) as [|e1 [|e2 er]] eqn:SE; [cbn in LE1; lia| |].
      * (* a '/' inside the checksum: 4 segments, x-of-y field = its first piece, no "of" in it *)
        exfalso. cbn [app fields_of_segs] in SF.
        destruct (parse_xofy x1) as [[xx yy]|] eqn:PX; [|discriminate].
        apply parse_xofy_o in PX.
        assert (I47 : In 47 C') by (apply split_on_has; rewrite SC; cbn; lia).
        assert (IO : In 111 C') by (apply (split_on_in 47 C' x1); [rewrite SC; now left|exact PX]).
        destruct (hamming1_chars chk C' 47 ltac:(lia) ltac:(lia) I47 (gchar_no_slash _ G2) 111 IO) as [Q|Q];
          [discriminate|exact (gchar_no_o _ G2 Q)].
      * cbn [app] in SF. rewrite fos_long in SF; [discriminate|cbn [length]; lia].
    + cbn [app] in SF. rewrite fos_long in SF; [discriminate|cbn [length]; rewrite app_length; cbn [length]; lia].
  - (* the inner '/' replaced: checksum, the new character and payload form one checksum-less text *)
    exfalso.
    assert (C' = chk) as -> by (symmetry; apply hamming_0_eq; [lia|lia]).
    assert (E' = enc) as -> by (symmetry; apply hamming_0_eq; [lia|lia]).
    rewrite strip_ends in SF; [|reflexivity|].
    2:{ replace (ur_prefix ++ chk ++ [a] ++ enc) with ((ur_prefix ++ chk ++ [a]) ++ enc)
          by (now rewrite <- !app_assoc). apply lastE. }
    rewrite str_core_shape in SF.
    rewrite (split_on_nosep 47 (chk ++ [a] ++ enc)) in SF.
    2:{ apply Forall_app. split; [exact (plain_noslash _ Pc)|].
        constructor; [lia|exact (plain_noslash _ Pe)]. }
    cbn [fields_of_segs] in SF. injection SF as <-.
    destruct (parse_part_fields _ _ _ _ _ PP) as [_ [_ [-> _]]]. cbn [p_payload] in BD.
    destruct (bcur_decode_text _ _ _ BD) as [cb DT].
    destruct (bc32encode_shape cbor (proj1 (cbor_bytes_ok d cbor HB EC))) as [dd [ck [E2 [FA [_ [_ [_ [PV _]]]]]]]].
    rewrite EB in E2. injection E2 as E2.
    destruct (bc32encode_shape (sha256 cbor) (sha_ok cbor)) as [dh [kh [E3 [FH [_ [_ [_ [PH _]]]]]]]].
    rewrite EH in E3. injection E3 as E3.
    change (chk ++ [a] ++ enc) with (chk ++ a :: enc) in DT.
    assert (LW : lower (chk ++ a :: enc) = chk ++ lower_c a :: enc).
    { unfold lower. rewrite map_app. cbn [map app]. fold (lower chk). fold (lower enc).
      now rewrite (gchar_lower _ G2), (gchar_lower _ G1). }
    rewrite LW, E2, E3 in DT.
    exact (bc32_glued_rejected (dh ++ kh) (dd ++ ck) (lower_c a) cb FH FA PH PV DT).
Qed.

End WithHash.
