(* Proofs/P2PSpecP.v — C19: the serialisers of buidl/network.py and buidl/compactfilter.py
   against the protocol layouts of Spec/P2P.v, and the strict protocol decoders applied to
   what the library emits (the library has no parser for version / getheaders / getdata /
   getcfilters / getcfheaders / getcfcheckpt). *)
From V Require Import Base.Prelude Base.Ints Model.Helper Model.Block Model.Gcs Model.Network
  Spec.P2P Proofs.HelperP Proofs.NetworkP.

Lemma Ok_inj' {A} (a b : A) : Ok a = Ok b -> a = b.
Proof. congruence. Qed.

(* ---------------- strict readers ---------------- *)

Lemma take_app n a b : length a = n -> take n (a ++ b) = Ok (a, b).
Proof.
  intros <-. unfold take. rewrite app_length.
  destruct (length a + length b <? length a)%nat eqn:E; [apply Nat.ltb_lt in E; lia|].
  now rewrite firstn_app_exact, skipn_app_exact.
Qed.

Lemma take_ok n s a r : take n s = Ok (a, r) -> s = a ++ r /\ length a = n.
Proof.
  unfold take. destruct (length s <? n)%nat eqn:E; [discriminate|]. apply Nat.ltb_ge in E.
  intros H. apply Ok_inj' in H. inversion H; subst. split; [now rewrite firstn_skipn|].
  rewrite firstn_length. lia.
Qed.

Lemma takez_app a b : takez (zlen a) (a ++ b) = Ok (a, b).
Proof.
  unfold takez. pose proof (zlen_nonneg a). pose proof (zlen_nonneg b). rewrite zlen_app.
  destruct (zlen a <? 0) eqn:E1; [lia|]. destruct (zlen a + zlen b <? zlen a) eqn:E2; [lia|].
  cbn [orb]. unfold zlen. rewrite Nat2Z.id. now rewrite firstn_app_exact, skipn_app_exact.
Qed.

(* ---------------- CompactSize ---------------- *)

Lemma encode_varint_inv i b :
  encode_varint i = Ok b -> 0 <= i < 18446744073709551616 /\ b = cs_bytes i.
Proof.
  unfold encode_varint, cs_bytes.
  destruct (i <? 0) eqn:E0; [discriminate|].
  destruct (i <? 253) eqn:E1; [intros H; apply Ok_inj' in H; split; [lia|now subst]|].
  destruct (i <? 65536) eqn:E2.
  { intros H; apply Ok_inj' in H. destruct (i <=? 65535) eqn:E2'; [|lia]. split; [lia|now subst]. }
  destruct (i <=? 65535) eqn:E2'; [lia|].
  destruct (i <? 4294967296) eqn:E3.
  { intros H; apply Ok_inj' in H. destruct (i <=? 4294967295) eqn:E3'; [|lia]. split; [lia|now subst]. }
  destruct (i <=? 4294967295) eqn:E3'; [lia|].
  destruct (i <? 18446744073709551616) eqn:E4; [|discriminate].
  intros H; apply Ok_inj' in H. split; [lia|now subst].
Qed.

(* encode_varint IS WriteCompactSize on its whole domain *)
Lemma encode_varint_eq_spec i :
  0 <= i < 18446744073709551616 -> encode_varint i = Ok (cs_bytes i).
Proof.
  intros H. destruct (varint_roundtrip i [] H) as [b [E _]].
  rewrite E. f_equal. now apply encode_varint_inv in E as [_ ->].
Qed.

Lemma read_cs_roundtrip i rest :
  0 <= i < 18446744073709551616 -> read_cs (cs_bytes i ++ rest) = Ok (i, rest).
Proof.
  intros H. unfold cs_bytes.
  destruct (i <? 253) eqn:E1.
  { cbn [app read_cs]. now rewrite E1. }
  destruct (i <=? 65535) eqn:E2.
  { cbn [app read_cs]. cbn [Z.ltb Z.eqb Z.compare Pos.compare Pos.compare_cont Pos.eqb].
    rewrite take_app by apply to_le_length. cbn [bind].
    rewrite from_le_to_le by (rewrite pow256_2; lia). now rewrite E1. }
  destruct (i <=? 4294967295) eqn:E3.
  { cbn [app read_cs]. cbn [Z.ltb Z.eqb Z.compare Pos.compare Pos.compare_cont Pos.eqb].
    rewrite take_app by apply to_le_length. cbn [bind].
    rewrite from_le_to_le by (rewrite pow256_4; lia).
    destruct (i <? 65536) eqn:E; [lia|reflexivity]. }
  cbn [app read_cs]. cbn [Z.ltb Z.eqb Z.compare Pos.compare Pos.compare_cont Pos.eqb].
  rewrite take_app by apply to_le_length. cbn [bind].
  rewrite from_le_to_le by (rewrite pow256_8; lia).
  destruct (i <? 4294967296) eqn:E; [lia|reflexivity].
Qed.

(* whatever the strict protocol reader accepts, read_varint accepts with the same result *)
Lemma read_cs_implies_read_varint s n r : read_cs s = Ok (n, r) -> read_varint s = Ok (n, r).
Proof.
  destruct s as [|c t]; [discriminate|]. cbn [read_cs read_varint].
  destruct (c <? 253) eqn:E0.
  { intros H. apply Ok_inj' in H. inversion H; subst.
    destruct (n =? 253) eqn:A; [lia|]. destruct (n =? 254) eqn:B; [lia|].
    destruct (n =? 255) eqn:C; [lia|]. reflexivity. }
  destruct (c =? 253) eqn:E1.
  { destruct (take 2 t) as [[b r']|] eqn:T; [|discriminate]. cbn [bind].
    destruct (from_le b <? 253); [discriminate|]. intros H. apply Ok_inj' in H. inversion H; subst.
    unfold take in T. destruct (length t <? 2)%nat; [discriminate|]. apply Ok_inj' in T.
    now inversion T. }
  destruct (c =? 254) eqn:E2.
  { destruct (take 4 t) as [[b r']|] eqn:T; [|discriminate]. cbn [bind].
    destruct (from_le b <? 65536); [discriminate|]. intros H. apply Ok_inj' in H. inversion H; subst.
    unfold take in T. destruct (length t <? 4)%nat; [discriminate|]. apply Ok_inj' in T.
    now inversion T. }
  destruct (c =? 255) eqn:E3; [|discriminate].
  destruct (take 8 t) as [[b r']|] eqn:T; [|discriminate]. cbn [bind].
  destruct (from_le b <? 4294967296); [discriminate|]. intros H. apply Ok_inj' in H. inversion H; subst.
  unfold take in T. destruct (length t <? 8)%nat; [discriminate|]. apply Ok_inj' in T.
  now inversion T.
Qed.

(* the strict reader accepts canonical encodings only *)
Lemma read_cs_canonical s n r :
  bytes_ok s -> read_cs s = Ok (n, r) ->
  0 <= n < 18446744073709551616 /\ s = cs_bytes n ++ r.
Proof.
  intros Hs. destruct s as [|c t]; [discriminate|]. cbn [read_cs].
  inversion Hs as [|? ? Hc Ht]; subst. unfold byte_ok in Hc.
  destruct (c <? 253) eqn:E0.
  { intros H. apply Ok_inj' in H. inversion H; subst. unfold cs_bytes. rewrite E0.
    split; [lia|reflexivity]. }
  destruct (c =? 253) eqn:E1.
  { destruct (take 2 t) as [[b r']|] eqn:T; [|discriminate]. cbn [bind].
    destruct (from_le b <? 253) eqn:L; [discriminate|]. intros H. apply Ok_inj' in H.
    inversion H; subst. apply take_ok in T as [-> Lb].
    apply bytes_ok_app in Ht as [Hb _]. pose proof (from_le_bound b Hb) as B.
    rewrite Lb, pow256_2 in B. split; [lia|]. unfold cs_bytes. rewrite L.
    destruct (from_le b <=? 65535) eqn:L2; [|lia].
    rewrite (to_le_from_le_n 2 b Lb Hb). apply Z.eqb_eq in E1. now subst. }
  destruct (c =? 254) eqn:E2.
  { destruct (take 4 t) as [[b r']|] eqn:T; [|discriminate]. cbn [bind].
    destruct (from_le b <? 65536) eqn:L; [discriminate|]. intros H. apply Ok_inj' in H.
    inversion H; subst. apply take_ok in T as [-> Lb].
    apply bytes_ok_app in Ht as [Hb _]. pose proof (from_le_bound b Hb) as B.
    rewrite Lb, pow256_4 in B. split; [lia|]. unfold cs_bytes.
    destruct (from_le b <? 253) eqn:L0; [lia|].
    destruct (from_le b <=? 65535) eqn:L2; [lia|].
    destruct (from_le b <=? 4294967295) eqn:L3; [|lia].
    rewrite (to_le_from_le_n 4 b Lb Hb). apply Z.eqb_eq in E2. now subst. }
  destruct (c =? 255) eqn:E3; [|discriminate].
  destruct (take 8 t) as [[b r']|] eqn:T; [|discriminate]. cbn [bind].
  destruct (from_le b <? 4294967296) eqn:L; [discriminate|]. intros H. apply Ok_inj' in H.
  inversion H; subst. apply take_ok in T as [-> Lb].
  apply bytes_ok_app in Ht as [Hb _]. pose proof (from_le_bound b Hb) as B.
  rewrite Lb, pow256_8 in B. split; [lia|]. unfold cs_bytes.
  destruct (from_le b <? 253) eqn:L0; [lia|].
  destruct (from_le b <=? 65535) eqn:L2; [lia|].
  destruct (from_le b <=? 4294967295) eqn:L3; [lia|].
  rewrite (to_le_from_le_n 8 b Lb Hb). apply Z.eqb_eq in E3. now subst.
Qed.

(* every value read_varint returns from a byte stream can be encoded again *)
Lemma read_varint_range s n r :
  bytes_ok s -> read_varint s = Ok (n, r) -> 0 <= n < 18446744073709551616.
Proof.
  intros Hs. destruct s as [|c t]; [discriminate|]. cbn [read_varint].
  inversion Hs as [|? ? Hc Ht]; subst. unfold byte_ok in Hc.
  assert (forall k, (k <= 8)%nat -> 0 <= from_le (firstn k t) < 18446744073709551616) as B.
  { intros k Hk. pose proof (from_le_bound (firstn k t) (bytes_ok_firstn k t Ht)) as B.
    assert (pow256 (length (firstn k t)) <= pow256 8) as M.
    { unfold pow256. apply Z.pow_le_mono_r; [lia|]. rewrite firstn_length. lia. }
    rewrite pow256_8 in M. lia. }
  destruct (c =? 253);
    [intros H; assert (n = from_le (firstn 2 t)) as -> by congruence; apply B; lia|].
  destruct (c =? 254);
    [intros H; assert (n = from_le (firstn 4 t)) as -> by congruence; apply B; lia|].
  destruct (c =? 255);
    [intros H; assert (n = from_le (firstn 8 t)) as -> by congruence; apply B; lia|].
  intros H. assert (n = c) as -> by congruence. lia.
Qed.

(* ---------------- version ---------------- *)

(* the two bytes of a port exchanged *)
Definition swap16 (p : Z) : Z := (p mod 256) * 256 + p / 256.

Lemma swap16_range p : 0 <= p < 65536 -> 0 <= swap16 p < 65536.
Proof. intros H. unfold swap16. Z.div_mod_to_equations. lia. Qed.

Lemma swap16_involutive p : 0 <= p < 65536 -> swap16 (swap16 p) = p.
Proof. intros H. unfold swap16. Z.div_mod_to_equations. lia. Qed.

Lemma swap16_fixed_iff p : 0 <= p < 65536 -> (swap16 p = p <-> p / 256 = p mod 256).
Proof. intros H. unfold swap16. Z.div_mod_to_equations. lia. Qed.

(* little-endian p = big-endian swap16 p *)
Lemma to_le2_swap p : 0 <= p < 65536 -> to_le 2 p = to_be 2 (swap16 p).
Proof.
  intros H. unfold to_be. cbn [to_le rev app]. unfold swap16.
  f_equal; [|f_equal]; Z.div_mod_to_equations; lia.
Qed.

(* the protocol-level reading of a VersionMessage; [f] says how each port is read *)
Definition version_to_spec (f : Z -> Z) (m : version_msg) : p2p_version :=
  {| pv_version := vm_version m; pv_services := vm_services m; pv_timestamp := vm_timestamp m;
     pv_addr_recv := {| na_services := vm_recv_services m; na_ip := ip_prefix ++ vm_recv_ip m;
                        na_port := f (vm_recv_port m) |};
     pv_addr_from := {| na_services := vm_send_services m; na_ip := ip_prefix ++ vm_send_ip m;
                        na_port := f (vm_send_port m) |};
     pv_nonce := vm_nonce m; pv_user_agent := vm_user_agent m;
     pv_start_height := vm_latest_block m; pv_relay := vm_relay m |}.

(* exactly the field values for which VersionMessage.serialize does not raise *)
Definition version_fields_ok (m : version_msg) : Prop :=
  0 <= vm_version m < 4294967296 /\ 0 <= vm_services m < 18446744073709551616 /\
  0 <= vm_timestamp m < 18446744073709551616 /\
  0 <= vm_recv_services m < 18446744073709551616 /\ 0 <= vm_recv_port m < 65536 /\
  0 <= vm_send_services m < 18446744073709551616 /\ 0 <= vm_send_port m < 65536 /\
  zlen (vm_user_agent m) < 18446744073709551616 /\ 0 <= vm_latest_block m < 4294967296.

(* ... and with IPv4 addresses and an 8-byte nonce the message is a protocol message *)
Definition version_wf (m : version_msg) : Prop :=
  version_fields_ok m /\ length (vm_recv_ip m) = 4%nat /\ length (vm_send_ip m) = 4%nat /\
  length (vm_nonce m) = 8%nat.

Ltac inv_le H :=
  match type of H with
  | context [int_to_le ?n ?l] =>
      let E := fresh "E" in let R := fresh "R" in
      destruct (int_to_le n l) as [?|] eqn:E; [|discriminate H]; cbn [bind] in H;
      apply int_to_le_inv in E as [R ->]
  end.

Lemma version_serialize_inv m b :
  version_serialize m = Ok b ->
  version_fields_ok m /\ b = p2p_version_bytes (version_to_spec swap16 m).
Proof.
  unfold version_serialize. intros H. do 7 inv_le H.
  destruct (encode_varint (zlen (vm_user_agent m))) as [ual|] eqn:EU; [|discriminate H].
  cbn [bind] in H. apply encode_varint_inv in EU as [RU ->]. inv_le H.
  apply Ok_inj' in H. rewrite pow256_4 in *. rewrite pow256_8 in *. rewrite pow256_2 in *.
  split; [unfold version_fields_ok; repeat split; lia|].
  subst b. unfold p2p_version_bytes, net_addr_bytes, version_to_spec.
  cbn [pv_version pv_services pv_timestamp pv_addr_recv pv_addr_from pv_nonce pv_user_agent
       pv_start_height pv_relay na_services na_ip na_port].
  rewrite <- !to_le2_swap by lia. now rewrite <- !app_assoc.
Qed.

Lemma version_serialize_ok m :
  version_fields_ok m ->
  version_serialize m = Ok (p2p_version_bytes (version_to_spec swap16 m)).
Proof.
  intros (H1 & H2 & H3 & H4 & H5 & H6 & H7 & H8 & H9).
  assert (exists b, version_serialize m = Ok b) as [b Hb].
  { unfold version_serialize.
    rewrite !int_to_le_ok by (rewrite ?pow256_4, ?pow256_8, ?pow256_2; lia). cbn [bind].
    rewrite encode_varint_eq_spec by (pose proof (zlen_nonneg (vm_user_agent m)); lia).
    cbn [bind]. eauto. }
  rewrite Hb. f_equal. now apply version_serialize_inv in Hb as [_ ->].
Qed.

Lemma version_serialize_ok_iff m :
  (exists b, version_serialize m = Ok b) <-> version_fields_ok m.
Proof.
  split; [intros [b H]; now apply version_serialize_inv in H|].
  intros H. eexists. now apply version_serialize_ok.
Qed.

Lemma net_addr_decode_bytes a rest :
  net_addr_wf a -> net_addr_decode (net_addr_bytes a ++ rest) = Ok (a, rest).
Proof.
  intros (Hs & Li & Hp). unfold net_addr_decode, net_addr_bytes. rewrite <- !app_assoc.
  rewrite take_app by apply to_le_length. cbn [bind].
  rewrite take_app by exact Li. cbn [bind].
  rewrite take_app by apply to_be_length. cbn [bind].
  rewrite from_le_to_le by (rewrite pow256_8; lia).
  rewrite from_be_to_be by (rewrite pow256_2; lia). now destruct a.
Qed.

(* the protocol layout is decoded by the protocol decoder (the Spec is self-consistent) *)
Lemma p2p_version_decode_bytes v rest :
  p2p_version_wf v -> p2p_version_decode (p2p_version_bytes v ++ rest) = Ok (v, rest).
Proof.
  intros (H1 & H2 & H3 & H4 & H5 & H6 & H7 & H8).
  unfold p2p_version_decode, p2p_version_bytes. rewrite <- !app_assoc.
  rewrite take_app by apply to_le_length. cbn [bind].
  rewrite take_app by apply to_le_length. cbn [bind].
  rewrite take_app by apply to_le_length. cbn [bind].
  rewrite net_addr_decode_bytes by exact H4. cbn [bind].
  rewrite net_addr_decode_bytes by exact H5. cbn [bind].
  rewrite take_app by exact H6. cbn [bind].
  rewrite read_cs_roundtrip by (pose proof (zlen_nonneg (pv_user_agent v)); lia). cbn [bind].
  rewrite takez_app. cbn [bind].
  rewrite take_app by apply to_le_length. cbn [bind]. cbn [app].
  rewrite !from_le_to_le by (rewrite ?pow256_4, ?pow256_8; lia).
  destruct v as [a b c d e f g h r]. cbn. now destruct r.
Qed.

Lemma ip_prefix_length : length ip_prefix = 12%nat.
Proof. reflexivity. Qed.

Lemma version_to_spec_wf m : version_wf m -> p2p_version_wf (version_to_spec swap16 m).
Proof.
  intros ((H1 & H2 & H3 & H4 & H5 & H6 & H7 & H8 & H9) & L1 & L2 & L3).
  unfold p2p_version_wf, net_addr_wf, version_to_spec.
  cbn [pv_version pv_services pv_timestamp pv_addr_recv pv_addr_from pv_nonce pv_user_agent
       pv_start_height pv_relay na_services na_ip na_port].
  pose proof (swap16_range _ H5). pose proof (swap16_range _ H7).
  rewrite !app_length, ip_prefix_length, L1, L2. repeat split; try assumption; lia.
Qed.

(* a peer that follows the protocol reads every field of the message as it was set —
   except the two ports, which arrive with their bytes exchanged *)
Lemma version_decoded_by_protocol m rest :
  version_wf m ->
  exists b, version_serialize m = Ok b /\
    p2p_version_decode (b ++ rest) = Ok (version_to_spec swap16 m, rest).
Proof.
  intros H. eexists. split; [apply version_serialize_ok, H|].
  apply p2p_version_decode_bytes, version_to_spec_wf, H.
Qed.

Lemma version_to_spec_inj m1 m2 :
  version_wf m1 -> version_wf m2 ->
  version_to_spec swap16 m1 = version_to_spec swap16 m2 -> m1 = m2.
Proof.
  intros ((_ & _ & _ & _ & P1 & _ & Q1 & _) & _) ((_ & _ & _ & _ & P2 & _ & Q2 & _) & _) E.
  assert (forall {B} (g : p2p_version -> B),
            g (version_to_spec swap16 m1) = g (version_to_spec swap16 m2)) as G
    by (intros B g; now rewrite E).
  pose proof (G _ pv_version) as G1. pose proof (G _ pv_services) as G2.
  pose proof (G _ pv_timestamp) as G3.
  pose proof (G _ (fun v => na_services (pv_addr_recv v))) as G4.
  pose proof (G _ (fun v => na_ip (pv_addr_recv v))) as G5.
  pose proof (G _ (fun v => na_port (pv_addr_recv v))) as G6.
  pose proof (G _ (fun v => na_services (pv_addr_from v))) as G7.
  pose proof (G _ (fun v => na_ip (pv_addr_from v))) as G8.
  pose proof (G _ (fun v => na_port (pv_addr_from v))) as G9.
  pose proof (G _ pv_nonce) as G10. pose proof (G _ pv_user_agent) as G11.
  pose proof (G _ pv_start_height) as G12. pose proof (G _ pv_relay) as G13.
  unfold version_to_spec in *.
  cbn [pv_version pv_services pv_timestamp pv_addr_recv pv_addr_from pv_nonce pv_user_agent
       pv_start_height pv_relay na_services na_ip na_port] in *.
  apply app_inv_head in G5, G8.
  apply (f_equal swap16) in G6, G9. rewrite !swap16_involutive in G6, G9 by assumption.
  destruct m1, m2. cbn in *. congruence.
Qed.

(* two different well-formed messages never serialise to the same bytes *)
Lemma version_serialize_inj m1 m2 b :
  version_wf m1 -> version_wf m2 ->
  version_serialize m1 = Ok b -> version_serialize m2 = Ok b -> m1 = m2.
Proof.
  intros W1 W2 S1 S2.
  destruct (version_decoded_by_protocol m1 [] W1) as [b1 [E1 D1]].
  destruct (version_decoded_by_protocol m2 [] W2) as [b2 [E2 D2]].
  rewrite S1 in E1. rewrite S2 in E2. apply Ok_inj' in E1, E2. subst b1 b2.
  rewrite D1 in D2.
  assert (version_to_spec swap16 m1 = version_to_spec swap16 m2) as D by congruence.
  now apply version_to_spec_inj.
Qed.

(* the emitted bytes ARE the protocol layout exactly when each port reads the same in both
   byte orders *)
Lemma version_layout_eq_protocol_iff m b :
  version_wf m -> version_serialize m = Ok b ->
  (b = p2p_version_bytes (version_to_spec (fun p => p) m) <->
   (vm_recv_port m / 256 = vm_recv_port m mod 256 /\
    vm_send_port m / 256 = vm_send_port m mod 256)).
Proof.
  intros W S. pose proof W as ((_ & _ & _ & _ & P1 & _ & P2 & _) & _).
  apply version_serialize_inv in S as [_ ->]. split.
  - intros E.
    assert (p2p_version_wf (version_to_spec (fun p => p) m)) as W'.
    { destruct W as ((H1 & H2 & H3 & H4 & H5 & H6 & H7 & H8 & H9) & L1 & L2 & L3).
      unfold p2p_version_wf, net_addr_wf, version_to_spec.
      cbn [pv_version pv_services pv_timestamp pv_addr_recv pv_addr_from pv_nonce pv_user_agent
           pv_start_height pv_relay na_services na_ip na_port].
      rewrite !app_length, ip_prefix_length, L1, L2. repeat split; try assumption; lia. }
    pose proof (p2p_version_decode_bytes _ [] (version_to_spec_wf m W)) as D1.
    pose proof (p2p_version_decode_bytes _ [] W') as D2.
    rewrite E, D2 in D1.
    assert (version_to_spec (fun p => p) m = version_to_spec swap16 m) as D by congruence.
    pose proof (f_equal (fun v => na_port (pv_addr_recv v)) D) as E1.
    pose proof (f_equal (fun v => na_port (pv_addr_from v)) D) as E2.
    cbn in E1, E2. rewrite <- !swap16_fixed_iff by assumption. split; congruence.
  - intros [E1 E2]. apply swap16_fixed_iff in E1, E2; try assumption.
    unfold version_to_spec. now rewrite E1, E2.
Qed.

(* ---------------- getheaders ---------------- *)

Lemma getheaders_serialize_inv v n s e b :
  getheaders_serialize v n s e = Ok b ->
  0 <= v < 4294967296 /\ 0 <= n < 18446744073709551616 /\
  b = to_le 4 v ++ cs_bytes n ++ rev s ++ rev e.
Proof.
  unfold getheaders_serialize. intros H. inv_le H.
  destruct (encode_varint n) as [nb|] eqn:EN; [|discriminate H]. cbn [bind] in H.
  apply encode_varint_inv in EN as [RN ->]. apply Ok_inj' in H. rewrite pow256_4 in R.
  repeat split; try lia. now subst.
Qed.

Lemma getheaders_serialize_ok_iff v n s e :
  (exists b, getheaders_serialize v n s e = Ok b) <->
  0 <= v < 4294967296 /\ 0 <= n < 18446744073709551616.
Proof.
  split.
  - intros [b H]. apply getheaders_serialize_inv in H. tauto.
  - intros [Hv Hn]. unfold getheaders_serialize.
    rewrite int_to_le_ok by (rewrite pow256_4; lia). cbn [bind].
    rewrite encode_varint_eq_spec by lia. cbn [bind]. eauto.
Qed.

(* with num_hashes = 1 (the default; the message carries exactly one locator hash) the bytes
   are the protocol's getheaders with locator [start_block] *)
Lemma getheaders_eq_protocol v s e b :
  getheaders_serialize v 1 s e = Ok b -> b = p2p_getheaders_bytes v [s] e.
Proof.
  intros H. apply getheaders_serialize_inv in H as (_ & _ & ->).
  unfold p2p_getheaders_bytes. cbn [map concat]. now rewrite app_nil_r.
Qed.

Lemma take_hashes_roundtrip hs rest :
  Forall (fun h => length h = 32%nat) hs ->
  take_hashes (length hs) (concat (map (@rev Z) hs) ++ rest) = Ok (hs, rest).
Proof.
  induction hs as [|h r IH]; intros Hw; [reflexivity|].
  inversion Hw; subst. cbn [length take_hashes map concat]. rewrite <- app_assoc.
  rewrite take_app by (now rewrite rev_length). cbn [bind]. rewrite IH by assumption.
  cbn [bind]. now rewrite rev_involutive.
Qed.

Lemma zlen_concat_32 (f : bytes -> bytes) hs :
  Forall (fun h => length (f h) = 32%nat) hs -> zlen (concat (map f hs)) = 32 * zlen hs.
Proof.
  induction hs as [|h r IH]; intros Hw; [reflexivity|]. inversion Hw; subst.
  cbn [map concat]. rewrite zlen_app, IH by assumption. unfold zlen. cbn [length]. lia.
Qed.

Lemma p2p_getheaders_decode_bytes v loc stop rest :
  0 <= v < 4294967296 -> zlen loc < 18446744073709551616 ->
  Forall (fun h => length h = 32%nat) loc -> length stop = 32%nat ->
  p2p_getheaders_decode (p2p_getheaders_bytes v loc stop ++ rest) = Ok (v, loc, stop, rest).
Proof.
  intros Hv Hn Hw Ls. unfold p2p_getheaders_decode, p2p_getheaders_bytes. rewrite <- !app_assoc.
  rewrite take_app by apply to_le_length. cbn [bind].
  rewrite read_cs_roundtrip by (pose proof (zlen_nonneg loc); lia). cbn [bind].
  rewrite !zlen_app.
  rewrite (zlen_concat_32 (@rev Z)) by (eapply Forall_impl; [|exact Hw]; intros a Ha; now rewrite rev_length).
  pose proof (zlen_nonneg (rev stop)). pose proof (zlen_nonneg rest).
  destruct (32 * zlen loc + (zlen (rev stop) + zlen rest) <? 32 * zlen loc) eqn:E; [lia|].
  unfold zlen at 1. rewrite Nat2Z.id. rewrite take_hashes_roundtrip by exact Hw. cbn [bind].
  rewrite take_app by (now rewrite rev_length). cbn [bind].
  rewrite from_le_to_le by (rewrite pow256_4; lia). now rewrite rev_involutive.
Qed.

Lemma getheaders_decoded_by_protocol v s e rest :
  0 <= v < 4294967296 -> length s = 32%nat -> length e = 32%nat ->
  exists b, getheaders_serialize v 1 s e = Ok b /\
    p2p_getheaders_decode (b ++ rest) = Ok (v, [s], e, rest).
Proof.
  intros Hv Ls Le.
  destruct (proj2 (getheaders_serialize_ok_iff v 1 s e)) as [b Hb]; [lia|].
  exists b. split; [exact Hb|]. rewrite (getheaders_eq_protocol _ _ _ _ Hb).
  apply p2p_getheaders_decode_bytes; try assumption; [reflexivity | now constructor].
Qed.

(* ---------------- getdata ---------------- *)

Lemma getdata_items_inv items b :
  getdata_items items = Ok b ->
  Forall (fun it => 0 <= fst it < 4294967296) items /\ b = concat (map inv_bytes items).
Proof.
  revert b; induction items as [|[t id] r IH]; intros b; cbn [getdata_items].
  - intros H. apply Ok_inj' in H. subst. split; [constructor|reflexivity].
  - intros H. inv_le H. destruct (getdata_items r) as [rb|] eqn:ER; [|discriminate H].
    cbn [bind] in H. apply Ok_inj' in H. destruct (IH rb eq_refl) as [F ->].
    rewrite pow256_4 in R. split; [constructor; [exact R|exact F]|].
    subst b. cbn [map concat]. unfold inv_bytes. cbn [fst snd]. now rewrite <- app_assoc.
Qed.

Lemma getdata_items_ok items :
  Forall (fun it => 0 <= fst it < 4294967296) items ->
  getdata_items items = Ok (concat (map inv_bytes items)).
Proof.
  induction items as [|[t id] r IH]; intros Hw; [reflexivity|]. inversion Hw; subst.
  cbn [getdata_items]. cbn [fst] in *. rewrite int_to_le_ok by (rewrite pow256_4; lia). cbn [bind].
  rewrite IH by assumption. cbn [bind map concat]. unfold inv_bytes. cbn [fst snd].
  now rewrite <- app_assoc.
Qed.

(* GetDataMessage.serialize is the protocol's inventory vector, on exactly the values for
   which it does not raise *)
Lemma getdata_serialize_iff items b :
  getdata_serialize items = Ok b <->
  (zlen items < 18446744073709551616 /\ Forall (fun it => 0 <= fst it < 4294967296) items /\
   b = p2p_getdata_bytes items).
Proof.
  unfold getdata_serialize, p2p_getdata_bytes. split.
  - intros H. destruct (encode_varint (zlen items)) as [nb|] eqn:EN; [|discriminate H].
    cbn [bind] in H. apply encode_varint_inv in EN as [RN ->].
    destruct (getdata_items items) as [ib|] eqn:EI; [|discriminate H]. cbn [bind] in H.
    apply Ok_inj' in H. apply getdata_items_inv in EI as [F ->]. repeat split; try lia; auto.
  - intros (Hn & F & ->).
    rewrite encode_varint_eq_spec by (pose proof (zlen_nonneg items); lia). cbn [bind].
    rewrite getdata_items_ok by exact F. reflexivity.
Qed.

Lemma take_invs_roundtrip items rest :
  Forall (fun it => 0 <= fst it < 4294967296 /\ length (snd it) = 32%nat) items ->
  take_invs (length items) (concat (map inv_bytes items) ++ rest) = Ok (items, rest).
Proof.
  induction items as [|[t id] r IH]; intros Hw; [reflexivity|].
  inversion Hw as [|? ? [Ht Li] Hr]; subst. cbn [fst snd] in *.
  cbn [length take_invs map concat]. unfold inv_bytes at 1. cbn [fst snd]. rewrite <- !app_assoc.
  rewrite take_app by apply to_le_length. cbn [bind].
  rewrite take_app by (now rewrite rev_length). cbn [bind].
  rewrite IH by assumption. cbn [bind].
  rewrite from_le_to_le by (rewrite pow256_4; lia). now rewrite rev_involutive.
Qed.

Lemma zlen_concat_inv items :
  Forall (fun it => length (snd it) = 32%nat) items ->
  zlen (concat (map inv_bytes items)) = 36 * zlen items.
Proof.
  induction items as [|it r IH]; intros Hw; [reflexivity|]. inversion Hw; subst.
  cbn [map concat]. rewrite zlen_app, IH by assumption. unfold inv_bytes, zlen.
  rewrite app_length, to_le_length, rev_length. cbn [length]. lia.
Qed.

Lemma getdata_decoded_by_protocol items rest :
  zlen items < 18446744073709551616 ->
  Forall (fun it => 0 <= fst it < 4294967296 /\ length (snd it) = 32%nat) items ->
  exists b, getdata_serialize items = Ok b /\ p2p_getdata_decode (b ++ rest) = Ok (items, rest).
Proof.
  intros Hn Hw. exists (p2p_getdata_bytes items). split.
  - apply getdata_serialize_iff. repeat split; auto.
    eapply Forall_impl; [|exact Hw]. intros a [Ha _]. exact Ha.
  - unfold p2p_getdata_decode, p2p_getdata_bytes. rewrite <- app_assoc.
    rewrite read_cs_roundtrip by (pose proof (zlen_nonneg items); lia). cbn [bind].
    rewrite zlen_app, zlen_concat_inv
      by (eapply Forall_impl; [|exact Hw]; intros a [_ Ha]; exact Ha).
    pose proof (zlen_nonneg rest).
    destruct (36 * zlen items + zlen rest <? 36 * zlen items) eqn:E; [lia|].
    unfold zlen at 1. rewrite Nat2Z.id. now apply take_invs_roundtrip.
Qed.

Lemma getdata_serialize_inj i1 i2 b :
  Forall (fun it => length (snd it) = 32%nat) i1 -> Forall (fun it => length (snd it) = 32%nat) i2 ->
  getdata_serialize i1 = Ok b -> getdata_serialize i2 = Ok b -> i1 = i2.
Proof.
  intros W1 W2 S1 S2.
  apply getdata_serialize_iff in S1 as (N1 & F1 & E1). apply getdata_serialize_iff in S2 as (N2 & F2 & E2).
  assert (forall i : list (Z * bytes), Forall (fun it => length (snd it) = 32%nat) i ->
                    Forall (fun it => 0 <= fst it < 4294967296) i ->
                    Forall (fun it => 0 <= fst it < 4294967296 /\ length (snd it) = 32%nat) i) as J.
  { intros i A B. rewrite Forall_forall in *. intros x Hx. split; auto. }
  destruct (getdata_decoded_by_protocol i1 [] N1 (J _ W1 F1)) as [b1 [S1 D1]].
  destruct (getdata_decoded_by_protocol i2 [] N2 (J _ W2 F2)) as [b2 [S2 D2]].
  apply getdata_serialize_iff in S1 as (_ & _ & ->). apply getdata_serialize_iff in S2 as (_ & _ & ->).
  rewrite <- E1 in D1. rewrite <- E2 in D2. rewrite D1 in D2. apply Ok_inj' in D2. congruence.
Qed.

(* ---------------- BIP157 requests ---------------- *)

Lemma int_to_be_1 t b : int_to_be t 1 = Ok b <-> (0 <= t < 256 /\ b = [t]).
Proof.
  unfold int_to_be. rewrite pow256_1. split.
  - destruct (0 <=? t) eqn:E1; destruct (t <? 256) eqn:E2; cbn [andb]; try discriminate.
    intros H. apply Ok_inj' in H. subst. cbn [to_le rev app].
    split; [lia|]. f_equal. apply Z.mod_small. lia.
  - intros [H ->]. destruct (0 <=? t) eqn:E1; destruct (t <? 256) eqn:E2; try lia.
    cbn [andb to_le rev app]. do 2 f_equal. apply Z.mod_small. lia.
Qed.

Lemma getcfilters_serialize_iff t h stop b :
  getcfilters_serialize t h stop = Ok b <->
  (0 <= t < 256 /\ 0 <= h < 4294967296 /\ b = p2p_getcfilters_bytes t h stop).
Proof.
  unfold getcfilters_serialize, p2p_getcfilters_bytes. split.
  - intros H. destruct (int_to_be t 1) as [tb|] eqn:ET; [|discriminate H]. cbn [bind] in H.
    apply int_to_be_1 in ET as [Rt ->]. inv_le H. apply Ok_inj' in H. rewrite pow256_4 in R.
    repeat split; try lia. now subst.
  - intros (Ht & Hh & ->). rewrite (proj2 (int_to_be_1 t [t])) by auto. cbn [bind].
    rewrite int_to_le_ok by (rewrite pow256_4; lia). reflexivity.
Qed.

Lemma p2p_getcfilters_decode_bytes t h stop rest :
  0 <= t < 256 -> 0 <= h < 4294967296 -> length stop = 32%nat ->
  p2p_getcfilters_decode (p2p_getcfilters_bytes t h stop ++ rest) = Ok (t, h, stop, rest).
Proof.
  intros Ht Hh Ls. unfold p2p_getcfilters_decode, p2p_getcfilters_bytes. rewrite <- !app_assoc.
  rewrite (take_app 1 [t]) by reflexivity. cbn [bind].
  rewrite take_app by apply to_le_length. cbn [bind].
  rewrite take_app by (now rewrite rev_length). cbn [bind].
  rewrite from_le_to_le by (rewrite pow256_4; lia). rewrite rev_involutive.
  cbn [from_le]. do 4 f_equal. lia.
Qed.

Lemma getcfcheckpt_serialize_iff t stop b :
  getcfcheckpt_serialize t stop = Ok b <-> (0 <= t < 256 /\ b = p2p_getcfcheckpt_bytes t stop).
Proof.
  unfold getcfcheckpt_serialize, p2p_getcfcheckpt_bytes. split.
  - intros H. destruct (int_to_be t 1) as [tb|] eqn:ET; [|discriminate H]. cbn [bind] in H.
    apply int_to_be_1 in ET as [Rt ->]. apply Ok_inj' in H. split; [lia|now subst].
  - intros (Ht & ->). rewrite (proj2 (int_to_be_1 t [t])) by auto. reflexivity.
Qed.

Lemma p2p_getcfcheckpt_decode_bytes t stop rest :
  0 <= t < 256 -> length stop = 32%nat ->
  p2p_getcfcheckpt_decode (p2p_getcfcheckpt_bytes t stop ++ rest) = Ok (t, stop, rest).
Proof.
  intros Ht Ls. unfold p2p_getcfcheckpt_decode, p2p_getcfcheckpt_bytes. rewrite <- !app_assoc.
  rewrite (take_app 1 [t]) by reflexivity. cbn [bind].
  rewrite take_app by (now rewrite rev_length). cbn [bind].
  rewrite rev_involutive. cbn [from_le]. do 3 f_equal. lia.
Qed.

(* ---------------- witnesses ---------------- *)

(* VersionMessage(timestamp=0, nonce=8 zero bytes, user_agent=b"/b/") — ports at the default 8333 *)
Definition version_example : version_msg :=
  {| vm_version := 70015; vm_services := 0; vm_timestamp := 0;
     vm_recv_services := 0; vm_recv_ip := [0; 0; 0; 0]; vm_recv_port := 8333;
     vm_send_services := 0; vm_send_ip := [0; 0; 0; 0]; vm_send_port := 8333;
     vm_nonce := repeatz 0 8; vm_user_agent := [47; 98; 47]; vm_latest_block := 0;
     vm_relay := true |}.

Lemma version_example_wf : version_wf version_example.
Proof.
  unfold version_wf, version_fields_ok, version_example, zlen. cbn. repeat split; lia.
Qed.

(* The port fields leave the library in little-endian order; the protocol (and every other
   implementation) reads them big-endian: 8333 = 0x208d is sent as 8d 20 and read as 36128. *)
Lemma version_port_byte_order_refuted :
  exists m b v, version_wf m /\ version_serialize m = Ok b /\
    b <> p2p_version_bytes (version_to_spec (fun p => p) m) /\
    p2p_version_decode b = Ok (v, []) /\
    vm_recv_port m = 8333 /\ na_port (pv_addr_recv v) = 36128 /\
    vm_send_port m = 8333 /\ na_port (pv_addr_from v) = 36128.
Proof.
  exists version_example, (p2p_version_bytes (version_to_spec swap16 version_example)),
    (version_to_spec swap16 version_example).
  split; [exact version_example_wf|].
  split; [apply version_serialize_ok, version_example_wf|].
  split; [intros E; vm_compute in E; discriminate E|].
  split.
  { rewrite <- (app_nil_r (p2p_version_bytes _)).
    apply p2p_version_decode_bytes, version_to_spec_wf, version_example_wf. }
  repeat split; reflexivity.
Qed.

(* lenient decoding: non-canonical and truncated compact-size integers are accepted *)
Lemma varint_noncanonical_accepted :
  read_varint [253; 1; 0] = Ok (1, []) /\ encode_varint 1 = Ok [1] /\ read_cs [253; 1; 0] = Err.
Proof. repeat split; reflexivity. Qed.

Lemma varint_truncated_accepted :
  encode_varint 253 = Ok [253; 253; 0] /\
  read_varint [253] = Ok (0, []) /\ read_varint [253; 253] = Ok (253, []) /\
  read_varint [255; 1] = Ok (1, []) /\
  read_cs [253] = Err /\ read_cs [253; 253] = Err /\ read_cs [255; 1] = Err.
Proof. repeat split; reflexivity. Qed.

Lemma varstr_truncated_accepted :
  encode_varstr [1; 2; 3; 4; 5] = Ok [5; 1; 2; 3; 4; 5] /\
  read_varstr [5; 1; 2] = Ok ([1; 2], []).
Proof. split; reflexivity. Qed.

(* a getheaders whose num_hashes is not 1 is not a protocol message: the strict decoder fails
   or leaves bytes over *)
Lemma getheaders_count_mismatch_example :
  let h := repeatz 7 32 in
  (exists b, getheaders_serialize 70015 2 h h = Ok b /\ p2p_getheaders_decode b = Err) /\
  (exists b, getheaders_serialize 70015 1 h h = Ok b /\
             p2p_getheaders_decode b = Ok (70015, [h], h, [])).
Proof. split; eexists; split; reflexivity. Qed.
