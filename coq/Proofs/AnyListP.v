(* Proofs/AnyListP.v — whole-program conformance for ARBITRARY command lists (no nesting
   hypothesis) and with the failure mode.

   Proofs/ProgramP.v states conformance for flattenings of program ASTs, which are well nested by
   construction.  Here the hypothesis is dropped: for every list of commands (pushes of byte
   strings, any integer commands except OP_2ROT — known finding), the library's evaluation by
   splicing and the consensus evaluation with the vfExec condition stack give the same verdict
   unless the spec is OutOfScope.  Ill-nested lists:
     * OP_ELSE / OP_ENDIF met outside a conditional: the library raises KeyError (they are not in
       OP_CODE_FUNCTIONS), consensus fails the script (unbalanced conditional);
     * an OP_IF / OP_NOTIF without matching OP_ENDIF: op_if's scan does not find it and returns
       False; consensus runs on and rejects at the end (vfExec not empty) unless it fails before.
   The statement is about the failure-mode model (Model/OpMode.v): where consensus rejects, the
   library RETURNS False, except that it raises KeyError when [ns 0 cmds = false], i.e. when the
   list has an OP_ELSE / OP_ENDIF outside every conditional.

   Method: a parser [pb] rebuilds the AST of the body of the conditional at the head of the list
   (every stretch between an OP_IF and its matching OP_ENDIF is a well-formed item list), which
   reduces the general case to the lemmas of Proofs/InterpP.v. *)
From V Require Import Base.Prelude Base.Ints Model.Script Model.Op Model.Interp Model.OpMode
  Spec.Consensus Proofs.OpP Proofs.ConformP Proofs.StackOkP Proofs.InterpP Proofs.ProgramP Proofs.P2shP
  Proofs.OpModeP.

(* ------------------------------------------------------------------ command lists *)

Definition cmd_okb (cm : cmd) : bool :=
  match cm with Push b => bytes_okb b | Op o => negb (o =? 113) end.
Definition cmds_okb (l : list cmd) : bool := forallb cmd_okb l.

(* no OP_ELSE / OP_ENDIF outside a conditional ([d] = number of conditionals open) *)
Fixpoint ns (d : nat) (cmds : list cmd) : bool :=
  match cmds with
  | [] => true
  | Push _ :: r => ns d r
  | Op o :: r =>
      if (o =? 99) || (o =? 100) then ns (S d) r
      else if o =? 103 then match d with O => false | S _ => ns d r end
      else if o =? 104 then match d with O => false | S k => ns k r end
      else ns d r
  end.

(* ------------------------------------------------------------------ the parser *)

Definition frame : Type := (bool * list item)%type.

(* reads up to the OP_ENDIF that closes the conditional whose OP_IF has just been consumed;
   [stk]: the enclosing nested conditionals (their kind and the items read before them, reversed),
   [cur]: the items of the innermost open body, reversed *)
Fixpoint pb (items : list cmd) (stk : list frame) (cur : list item) : option (list item * list cmd) :=
  match items with
  | [] => None
  | cm :: r =>
      match cm with
      | Push _ => pb r stk (IPlain cm :: cur)
      | Op o =>
          if o =? 99 then pb r ((false, cur) :: stk) []
          else if o =? 100 then pb r ((true, cur) :: stk) []
          else if o =? 103 then pb r stk (IElse :: cur)
          else if o =? 104 then
            match stk with
            | [] => Some (rev cur, r)
            | (neg, outer) :: stk' => pb r stk' (IIf neg (rev cur) :: outer)
            end
          else pb r stk (IPlain cm :: cur)
      end
  end.

(* the commands consumed so far *)
Fixpoint pre (stk : list frame) (cur : list item) : list cmd :=
  match stk with
  | [] => flatten (rev cur)
  | (neg, outer) :: stk' => pre stk' outer ++ Op (if neg then 100 else 99) :: flatten (rev cur)
  end.

Lemma flatten_one i : flatten [i] = flat_item i.
Proof. unfold flatten. cbn [flat_map]. apply app_nil_r. Qed.

Lemma pre_snoc stk i cur : pre stk (i :: cur) = pre stk cur ++ flat_item i.
Proof.
  destruct stk as [|[neg outer] stk']; cbn [pre rev]; rewrite flatten_app, flatten_one; [reflexivity|].
  rewrite <- app_assoc. reflexivity.
Qed.

Lemma pb_sound items : forall stk cur body rest,
  pb items stk cur = Some (body, rest) -> pre stk cur ++ items = flatten body ++ Op 104 :: rest.
Proof.
  induction items as [|cm r IH]; intros stk cur body rest E; [discriminate|].
  cbn [pb] in E. destruct cm as [o|b].
  - destruct (o =? 99) eqn:E99.
    { apply Z.eqb_eq in E99. subst o. apply IH in E. cbn [pre rev flatten flat_map] in E.
      rewrite <- app_assoc in E. exact E. }
    destruct (o =? 100) eqn:E100.
    { apply Z.eqb_eq in E100. subst o. apply IH in E. cbn [pre rev flatten flat_map] in E.
      rewrite <- app_assoc in E. exact E. }
    destruct (o =? 103) eqn:E103.
    { apply Z.eqb_eq in E103. subst o. apply IH in E. rewrite pre_snoc, <- app_assoc in E. exact E. }
    destruct (o =? 104) eqn:E104.
    { apply Z.eqb_eq in E104. subst o. destruct stk as [|[neg outer] stk'].
      - injection E as <- <-. reflexivity.
      - apply IH in E. rewrite pre_snoc, flat_item_if in E. rewrite <- E. cbn [pre].
        rewrite <- !app_assoc. cbn [app]. rewrite <- app_assoc. reflexivity. }
    apply IH in E. rewrite pre_snoc, <- app_assoc in E. exact E.
  - apply IH in E. rewrite pre_snoc, <- app_assoc in E. exact E.
Qed.

Lemma forallb_rev {A} (f : A -> bool) l : forallb f (rev l) = forallb f l.
Proof.
  induction l as [|x l IH]; [reflexivity|]. cbn [rev forallb]. rewrite forallb_app, IH. cbn [forallb].
  rewrite andb_true_r. apply andb_comm.
Qed.

Definition frames_wf (stk : list frame) : bool := forallb (fun fr => wf_items (snd fr)) stk.

Lemma pb_wf items : forall stk cur body rest,
  cmds_okb items = true -> frames_wf stk = true -> wf_items cur = true ->
  pb items stk cur = Some (body, rest) -> wf_items body = true.
Proof.
  induction items as [|cm r IH]; intros stk cur body rest Hok Hs Hc E; [discriminate|].
  cbn [cmds_okb forallb] in Hok. apply andb_true_iff in Hok as [Hcm Hr]. fold (cmds_okb r) in Hr.
  cbn [pb] in E. destruct cm as [o|b].
  - destruct (o =? 99) eqn:E99.
    { eapply IH; [exact Hr | | | exact E]; [cbn [frames_wf forallb snd]; rewrite Hc; exact Hs | reflexivity]. }
    destruct (o =? 100) eqn:E100.
    { eapply IH; [exact Hr | | | exact E]; [cbn [frames_wf forallb snd]; rewrite Hc; exact Hs | reflexivity]. }
    destruct (o =? 103) eqn:E103.
    { eapply IH; [exact Hr | exact Hs | | exact E]. cbn [wf_items forallb wf_item]. exact Hc. }
    destruct (o =? 104) eqn:E104.
    { destruct stk as [|[neg outer] stk'].
      - injection E as <- <-. unfold wf_items. rewrite forallb_rev. exact Hc.
      - cbn [frames_wf forallb snd] in Hs. apply andb_true_iff in Hs as [Ho Hs'].
        eapply IH; [exact Hr | exact Hs' | | exact E].
        cbn [wf_items forallb]. rewrite wf_item_if. unfold wf_items at 1. rewrite forallb_rev.
        fold (wf_items cur). rewrite Hc. exact Ho. }
    eapply IH; [exact Hr | exact Hs | | exact E].
    cbn [wf_items forallb wf_item]. unfold is_ctl. rewrite E99, E100, E103, E104. cbn [orb negb andb].
    cbn [cmd_okb] in Hcm. rewrite Hcm. exact Hc.
  - eapply IH; [exact Hr | exact Hs | | exact E].
    cbn [wf_items forallb wf_item]. cbn [cmd_okb] in Hcm. rewrite Hcm. exact Hc.
Qed.

(* no matching OP_ENDIF for the parser = none for the scan of op_if *)
Lemma pb_none_scan items : forall stk cur,
  pb items stk cur = None -> forall cur' t f, if_scan items (length stk) cur' t f = None.
Proof.
  induction items as [|cm r IH]; intros stk cur E cur' t f; [reflexivity|].
  cbn [pb] in E. destruct cm as [o|b].
  - destruct (o =? 99) eqn:E99.
    { apply Z.eqb_eq in E99. subst o. cbn [if_scan].
      destruct cur'; exact (IH _ _ E _ _ _). }
    destruct (o =? 100) eqn:E100.
    { apply Z.eqb_eq in E100. subst o. cbn [if_scan].
      destruct cur'; exact (IH _ _ E _ _ _). }
    destruct (o =? 103) eqn:E103.
    { apply Z.eqb_eq in E103. subst o. cbn [if_scan].
      destruct stk as [|fr stk']; cbn [length]; [exact (IH _ _ E _ _ _)|].
      destruct cur'; exact (IH _ _ E _ _ _). }
    destruct (o =? 104) eqn:E104.
    { apply Z.eqb_eq in E104. subst o. cbn [if_scan].
      destruct stk as [|[neg outer] stk']; [discriminate|]. cbn [length].
      destruct cur'; exact (IH _ _ E _ _ _). }
    rewrite if_scan_plain by (cbn; unfold is_ctl; rewrite E99, E100, E103, E104; reflexivity).
    destruct cur'; cbn [push_cur]; exact (IH _ _ E _ _ _).
  - cbn [if_scan]. destruct cur'; exact (IH _ _ E _ _ _).
Qed.

Lemma In_select x b body : In x (flatten (select b body)) -> In x (flatten body).
Proof.
  revert b; induction body as [|i r IH]; intros b H; [exact H|].
  rewrite flatten_cons. apply in_or_app.
  destruct i; cbn [select] in H.
  - destruct b; [rewrite flatten_cons in H; apply in_app_or in H as [H|H]; [now left | right; eauto]
               | right; eauto].
  - right; eauto.
  - destruct b; [rewrite flatten_cons in H; apply in_app_or in H as [H|H]; [now left | right; eauto]
               | right; eauto].
Qed.

Lemma cmds_okb_select b body rest :
  cmds_okb (flatten body ++ Op 104 :: rest) = true -> cmds_okb (flatten (select b body) ++ rest) = true.
Proof.
  unfold cmds_okb. rewrite !forallb_app. cbn [forallb]. intros H.
  apply andb_true_iff in H as [H1 H2]. apply andb_true_iff in H2 as [_ H2]. rewrite H2, andb_true_r.
  rewrite forallb_forall in *. intros x Hx. apply H1. eapply In_select. exact Hx.
Qed.

Lemma ns_plain cm d R : plain_cmd cm -> ns d (cm :: R) = ns d R.
Proof.
  destruct cm as [o|b]; [|reflexivity]. cbn [plain_cmd ns]. unfold is_ctl. intros H.
  repeat (apply orb_false_iff in H as [H ?E]). rewrite H, E1, E0, E. reflexivity.
Qed.

(* a flattened item list neither opens nor closes anything for what follows *)
Lemma ns_flat n : forall q, (psize q <= n)%nat -> wf_items q = true ->
  forall d R, (d <> O \/ no_else q = true) -> ns d (flatten q ++ R) = ns d R.
Proof.
  induction n as [|n IH]; intros q Hn Hw d R Hd.
  - destruct q as [|i r]; [reflexivity|]. rewrite psize_cons in Hn. pose proof (isize_pos i). lia.
  - destruct q as [|i r]; [reflexivity|].
    rewrite psize_cons in Hn. cbn [wf_items forallb] in Hw. apply andb_true_iff in Hw as [Hi Hr].
    fold (wf_items r) in Hr. pose proof (isize_pos i) as Hp.
    assert (Hd' : d <> O \/ no_else r = true).
    { destruct Hd as [Hd|Hd]; [now left|]. cbn [no_else forallb] in Hd. apply andb_true_iff in Hd as [_ Hd].
      now right. }
    rewrite flatten_cons, <- app_assoc.
    destruct i as [cm| |neg body].
    + cbn [flat_item app]. rewrite ns_plain by now apply plain_of_wf. apply IH; auto; lia.
    + destruct d as [|k]; [destruct Hd as [Hd|Hd]; [congruence | discriminate]|].
      cbn [flat_item app ns]. lit. apply IH; auto; lia.
    + rewrite flat_item_if. rewrite isize_if in Hn. rewrite wf_item_if in Hi.
      cbn [app]. rewrite <- app_assoc.
      assert (H1 : ns d (Op (if neg then 100 else 99) :: flatten body ++ [Op 104] ++ flatten r ++ R)
                   = ns (S d) (flatten body ++ [Op 104] ++ flatten r ++ R)) by (destruct neg; reflexivity).
      rewrite H1. rewrite (IH body) by (auto; lia). cbn [app ns]. lit. apply IH; auto; lia.
Qed.

Lemma wf_flat_ok n : forall q, (psize q <= n)%nat -> wf_items q = true -> cmds_okb (flatten q) = true.
Proof.
  induction n as [|n IH]; intros q Hn Hw.
  - destruct q as [|i r]; [reflexivity|]. rewrite psize_cons in Hn. pose proof (isize_pos i). lia.
  - destruct q as [|i r]; [reflexivity|].
    rewrite psize_cons in Hn. cbn [wf_items forallb] in Hw. apply andb_true_iff in Hw as [Hi Hr].
    fold (wf_items r) in Hr. pose proof (isize_pos i) as Hp.
    rewrite flatten_cons. unfold cmds_okb. rewrite forallb_app. fold (cmds_okb (flatten r)).
    rewrite (IH r) by (auto; lia). rewrite andb_true_r.
    destruct i as [cm| |neg body].
    + cbn [flat_item forallb]. rewrite andb_true_r. destruct cm as [o|b]; cbn [wf_item cmd_okb] in *; [|exact Hi].
      apply andb_true_iff in Hi as [_ Hi]. exact Hi.
    + reflexivity.
    + rewrite flat_item_if. rewrite isize_if in Hn. rewrite wf_item_if in Hi.
      cbn [forallb]. rewrite forallb_app. fold (cmds_okb (flatten body)). rewrite (IH body) by (auto; lia).
      destruct neg; reflexivity.
Qed.

(* ------------------------------------------------------------------ verdicts with the mode *)

(* library outcome (with failure mode) vs. consensus verdict; [strict]: no KeyError allowed *)
Definition rel_m (strict : bool) (x : xoutcome) (v : verdict) : Prop :=
  match v with
  | OutOfScope => True
  | Accept => x = XTrue
  | Reject => x = XFalse \/ (strict = false /\ x = XRaise EKey)
  end.

Lemma rel_m_rel strict x v : rel_m strict x v -> rel (xcollapse x) v.
Proof. destruct v; cbn; [intros ->; reflexivity | intros [-> | [_ ->]]; reflexivity | trivial]. Qed.

Lemma rel_m_oos_or strict x (r1 r2 : sres (list bool * cstate)) :
  oos_or r1 r2 -> rel_m strict x (fin r2) -> rel_m strict x (fin r1).
Proof. intros [-> | ->]; [intros _; exact I | auto]. Qed.

(* the agreement of one integer command, with the mode *)
Definition agree_m (m : mres (list cmd * stack * stack)) (rest : list cmd) (sp : sres cstate) : Prop :=
  match sp with
  | SOOS => True
  | SFail => m = MFalse
  | SOk (s', a') => m = MOk (rest, s', a')
  end.

Section Any.
  Variables ripemd160 sha1 sha256 : bytes -> bytes.
  Hypothesis ripemd160_ok : forall x, bytes_ok (ripemd160 x).
  Hypothesis sha1_ok : forall x, bytes_ok (sha1 x).
  Hypothesis sha256_ok : forall x, bytes_ok (sha256 x).
  Variable c : txctx.

  Notation table := (lib_table ripemd160 sha1 sha256).
  Notation mtable := (m_lib_table ripemd160 sha1 sha256).
  Notation sexec := (Consensus.exec_op ripemd160 sha1 sha256 (to_ctx c)).

  Lemma not_in_table_oos o st : in_table o = false -> sexec o st = SOOS.
  Proof.
    intros H. unfold in_table in H.
    repeat match goal with
           | H : (_ || _) = false |- _ => apply orb_false_iff in H as [? ?]
           | H : (_ =? _) = false |- _ => apply Z.eqb_neq in H
           end.
    repeat match goal with
           | H : (_ && _) = false |- _ => apply andb_false_iff in H; rewrite !Z.leb_gt in H
           end.
    unfold Consensus.exec_op. destruct st as [s alt].
    repeat match goal with
           | |- context [if ?b then _ else _] =>
               let E := fresh "E" in
               destruct b eqn:E;
               [exfalso;
                repeat match goal with
                       | H : (_ || _) = true |- _ => apply orb_true_iff in H as [H|H]
                       | H : (_ && _) = true |- _ => apply andb_true_iff in H as [? ?]
                       | H : (_ =? _) = true |- _ => apply Z.eqb_eq in H
                       | H : (_ <=? _) = true |- _ => apply Z.leb_le in H
                       end; lia|]
           end.
    reflexivity.
  Qed.

  Lemma sig_oos o st : (172 <=? o) && (o <=? 175) = true -> sexec o st = SOOS.
  Proof.
    intros H. apply andb_true_iff in H as [L U]. apply Z.leb_le in L, U.
    unfold Consensus.exec_op. destruct st as [s alt].
    repeat match goal with
           | |- context [if ?b then _ else _] =>
               let E := fresh "E" in
               destruct b eqn:E;
               [exfalso;
                repeat match goal with
                       | H : (_ || _) = true |- _ => apply orb_true_iff in H as [H|H]
                       | H : (_ && _) = true |- _ => apply andb_true_iff in H as [? ?]
                       | H : (_ =? _) = true |- _ => apply Z.eqb_eq in H
                       | H : (_ <=? _) = true |- _ => apply Z.leb_le in H
                       end; lia|]
           end.
    reflexivity.
  Qed.

  Lemma nat_ltb_of_leb a b : (b <=? a)%nat = true -> (a <? b)%nat = false.
  Proof. intros H. apply Nat.leb_le in H. apply Nat.ltb_ge. exact H. Qed.

  Lemma cltv_raises_oos s a : Forall bytes_ok s -> cltv_raises c s = true -> sexec 177 (s, a) = SOOS.
  Proof.
    intros Hs H. unfold cltv_raises in H. apply andb_true_iff in H as [_ H].
    destruct s as [|e r]; [discriminate|]. apply andb_true_iff in H as [H1 H2].
    apply Forall_cons_iff in Hs as [Be _].
    unfold Consensus.exec_op. lit. unfold scriptnum. rewrite (nat_ltb_of_leb _ _ H1).
    rewrite (sn_value_decode e Be). unfold MAX_LOCKTIME in H2. unfold operand_max.
    destruct (decode_num e <? 0) eqn:E0; [lia|]. rewrite H2. reflexivity.
  Qed.

  Lemma csv_raises_oos s a : Forall bytes_ok s -> csv_raises c s = true -> sexec 178 (s, a) = SOOS.
  Proof.
    intros Hs H. unfold csv_raises in H. destruct s as [|e r]; [discriminate|].
    repeat (apply andb_true_iff in H as [H ?H]).
    apply Forall_cons_iff in Hs as [Be _].
    unfold Consensus.exec_op. lit. unfold scriptnum. rewrite (nat_ltb_of_leb _ _ H).
    rewrite (sn_value_decode e Be). unfold MAX_SEQUENCE in H3. unfold operand_max.
    destruct (decode_num e <? 0) eqn:E0; [lia|]. rewrite H3. reflexivity.
  Qed.

  (* Single integer command, any op code but OP_2ROT: where the spec has an opinion, the library
     function RETURNS False (does not raise) exactly where consensus fails, and otherwise
     produces the consensus stacks *)
  Theorem step_mode_conformance o rest s a :
    is_ctl o = false -> o <> 113 -> Forall bytes_ok s -> Forall bytes_ok a ->
    agree_m (m_exec_op mtable c o rest s a) rest (spec_step ripemd160 sha1 sha256 c o s a).
  Proof.
    intros Hc N Hs Ha. rewrite exec_mode. unfold step_raise, spec_step.
    destruct (in_table o) eqn:T; cbn [negb]; [|rewrite not_in_table_oos by exact T; exact I].
    destruct ((172 <=? o) && (o <=? 175)) eqn:S1; [rewrite sig_oos by exact S1; exact I|].
    destruct ((o =? 177) && cltv_raises c s) eqn:S2.
    { apply andb_true_iff in S2 as [E R]. apply Z.eqb_eq in E. subst o. now rewrite cltv_raises_oos. }
    destruct ((o =? 178) && csv_raises c s) eqn:S3.
    { apply andb_true_iff in S3 as [E R]. apply Z.eqb_eq in E. subst o. now rewrite csv_raises_oos. }
    rewrite (lib_exec_plain ripemd160 sha1 sha256 c o rest s a Hc).
    assert (A : agree (lib_step ripemd160 sha1 sha256 c o s a) (spec_step ripemd160 sha1 sha256 c o s a)).
    { destruct (Z.eq_dec o 177) as [->|N1]; [now apply cltv_conformance|].
      destruct (Z.eq_dec o 178) as [->|N2]; [now apply csv_conformance|].
      now apply opcode_conformance. }
    unfold spec_step in A.
    match goal with
    | |- context [Consensus.exec_op ?h1 ?h2 ?h3 ?cc ?oo ?st] =>
        destruct (Consensus.exec_op h1 h2 h3 cc oo st) as [[s1 a1]| |]
    end; cbn [agree agree_m] in *; [rewrite A | rewrite A |]; trivial.
  Qed.

  Variable xw : bool.
  Notation run := (Consensus.run ripemd160 sha1 sha256 (to_ctx c) xw).

  (* an unclosed conditional leaves the condition stack non-empty *)
  Lemma pb_none_run items : forall stk cur V st V' st',
    pb items stk cur = None -> (length stk < length V)%nat ->
    run items V st = SOk (V', st') -> (length V <= length V' + length stk)%nat.
  Proof.
    induction items as [|cm r IH]; intros stk cur V st V' st' E L R.
    - cbn in R. injection R as <- <-. lia.
    - cbn [pb] in E. destruct cm as [o|b].
      + destruct (o =? 99) eqn:E99.
        { apply Z.eqb_eq in E99. subst o.
          rewrite (run_if ripemd160 sha1 sha256 c xw false) in R.
          destruct (fex V); [destruct (fst st); [discriminate|]|];
            eapply IH in R; try exact E; cbn [length] in *; lia. }
        destruct (o =? 100) eqn:E100.
        { apply Z.eqb_eq in E100. subst o.
          rewrite (run_if ripemd160 sha1 sha256 c xw true) in R.
          destruct (fex V); [destruct (fst st); [discriminate|]|];
            eapply IH in R; try exact E; cbn [length] in *; lia. }
        destruct (o =? 103) eqn:E103.
        { apply Z.eqb_eq in E103. subst o. destruct V as [|h V1]; [cbn [length] in L; lia|].
          rewrite run_else in R. eapply IH in R; try exact E; cbn [length] in *; lia. }
        destruct (o =? 104) eqn:E104.
        { apply Z.eqb_eq in E104. subst o. destruct stk as [|[neg outer] stk']; [discriminate|].
          destruct V as [|h V1]; [cbn [length] in L; lia|].
          rewrite run_endif in R. eapply IH in R; try exact E; cbn [length] in *; lia. }
        rewrite run_plain in R by (cbn; unfold is_ctl; rewrite E99, E100, E103, E104; reflexivity).
        destruct (fex V).
        * destruct (spec_cmd ripemd160 sha1 sha256 c xw (Op o) st) as [st1| |]; cbn [sbind] in R;
            try discriminate. eapply IH in R; try exact E; lia.
        * destruct (scan_oos (Op o)); [discriminate|]. eapply IH in R; try exact E; lia.
      + rewrite run_plain in R by exact I.
        destruct (fex V).
        * destruct (spec_cmd ripemd160 sha1 sha256 c xw (Push b) st) as [st1| |]; cbn [sbind] in R;
            try discriminate. eapply IH in R; try exact E; lia.
        * destruct (scan_oos (Push b)); [discriminate|]. eapply IH in R; try exact E; lia.
  Qed.

  Lemma final_rel_m strict s a : Forall bytes_ok s ->
    rel_m strict (m_final_test s) (fin (SOk ([], (s, a)))).
  Proof.
    intros Hs. destruct s as [|v s]; [left; reflexivity|].
    apply Forall_cons_iff in Hs as [B _]. cbn [fin]. rewrite (cast_decode v B).
    unfold m_final_test.
    assert (G : (zlen (v :: s) =? 0) = false) by (apply Z.eqb_neq; unfold zlen; cbn [length]; lia).
    rewrite G. cbn [m_pop]. destruct (decode_num v =? 0); cbn; [left; reflexivity | reflexivity].
  Qed.

  Lemma ctl_cases o : is_ctl o = true -> o = 99 \/ o = 100 \/ o = 103 \/ o = 104.
  Proof.
    unfold is_ctl. intros H. repeat (apply orb_true_iff in H as [H|H]); apply Z.eqb_eq in H; auto.
  Qed.

  Lemma in_set_in_table o : in_set o = true -> is_ctl o = false -> in_table o = true.
  Proof.
    intros H Hc.
    assert (R : 0 <= o <= 185).
    { unfold in_set in H.
      repeat match type of H with
             | (_ || _) = true => apply orb_true_iff in H as [H|H]
             end;
      repeat match goal with
             | H : (_ && _) = true |- _ => apply andb_true_iff in H as [? ?]
             end; lia. }
    assert (A : forallb (fun k => implb (in_set (Z.of_nat k) && negb (is_ctl (Z.of_nat k))) (in_table (Z.of_nat k)))
                  (seq 0 186) = true) by (vm_compute; reflexivity).
    rewrite forallb_forall in A.
    specialize (A (Z.to_nat o)). rewrite Z2Nat.id in A by lia. rewrite H, Hc in A. cbn [implb negb andb] in A.
    apply A. apply in_seq. lia.
  Qed.

  (* ---------------------------------------------------------------- the main induction *)

  Lemma any_conf n : forall cmds, (length cmds <= n)%nat -> cmds_okb cmds = true ->
    forall fuel s a, (length cmds <= fuel)%nat -> Forall bytes_ok s -> Forall bytes_ok a ->
    rel_m (ns 0 cmds) (m_eval_loop mtable c false xw fuel cmds s a) (fin (run cmds [] (s, a))).
  Proof.
    induction n as [|n IH]; intros cmds Hn Hok fuel s a Hf Hs Ha.
    - destruct cmds; [|cbn [length] in Hn; lia]. destruct fuel; now apply final_rel_m.
    - destruct cmds as [|cm rest]; [destruct fuel; now apply final_rel_m|].
      cbn [length] in Hn, Hf. destruct fuel as [|f]; [lia|]. apply le_S_n in Hf. apply le_S_n in Hn.
      cbn [cmds_okb forallb] in Hok. apply andb_true_iff in Hok as [Hcm Hr]. fold (cmds_okb rest) in Hr.
      destruct cm as [o|b].
      + destruct (is_ctl o) eqn:Hc.
        * (* a conditional op code *)
          apply ctl_cases in Hc.
          assert (Stray : o = 103 \/ o = 104 ->
                    rel_m (ns 0 (Op o :: rest)) (m_eval_loop mtable c false xw (S f) (Op o :: rest) s a)
                      (fin (run (Op o :: rest) [] (s, a)))).
          { intros [-> | ->]; cbn [m_eval_loop]; rewrite exec_mode; cbn; right; split; reflexivity. }
          assert (IfCase : forall neg : bool,
                    rel_m (ns 0 (Op (if neg then 100 else 99) :: rest))
                      (m_eval_loop mtable c false xw (S f) (Op (if neg then 100 else 99) :: rest) s a)
                      (fin (run (Op (if neg then 100 else 99) :: rest) [] (s, a)))).
          { intros neg.
            rewrite run_if; change (fex []) with true; cbv iota; cbn [fst snd].
            cbn [m_eval_loop]. rewrite (if_inj ripemd160 sha1 sha256 c _ rest s a) by (destruct neg; auto).
            rewrite (lib_exec_if ripemd160 sha1 sha256 c neg rest s a).
            destruct s as [|e s']; [left; reflexivity|].
            apply Forall_cons_iff in Hs as [Be Hs'].
            destruct (pb rest [] []) as [[body rest']|] eqn:P.
            - pose proof (pb_sound _ _ _ _ _ P) as Hrest. cbn [pre rev flatten flat_map app] in Hrest.
              pose proof (pb_wf rest [] [] body rest' Hr eq_refl eq_refl P) as Hw. subst rest.
              rewrite (op_if_flat neg e s' body rest' Hw). cbn [inj].
              rewrite (cast_decode e Be).
              set (bsel := xorb (negb (decode_num e =? 0)) neg).
              eapply rel_m_oos_or; [apply run_splice; exact Hw|].
              assert (Hns : ns 0 (Op (if neg then 100 else 99) :: flatten body ++ Op 104 :: rest')
                            = ns 0 (flatten (select bsel body) ++ rest')).
              { assert (H1 : ns 0 (Op (if neg then 100 else 99) :: flatten body ++ Op 104 :: rest')
                             = ns 1 (flatten body ++ Op 104 :: rest')) by (destruct neg; reflexivity).
                rewrite H1, (ns_flat (psize body) body (le_n _) Hw 1%nat) by (left; lia).
                rewrite (ns_flat (psize (select bsel body)) (select bsel body) (le_n _)
                           (wf_select bsel body Hw) 0%nat) by (right; apply no_else_select).
                reflexivity. }
              rewrite Hns.
              apply IH; auto.
              + rewrite app_length in *; cbn [length] in *; pose proof (length_select bsel body); lia.
              + now apply cmds_okb_select.
              + rewrite app_length in *; cbn [length] in *; pose proof (length_select bsel body); lia.
            - pose proof (pb_none_scan _ _ _ P true [] []) as Hscan. cbn [length] in Hscan.
              unfold op_if_gen; rewrite Hscan; cbn [inj].
              destruct (run rest [xorb (cast_to_bool e) neg] (s', a)) as [[V' st']| |] eqn:R;
                [ apply (pb_none_run _ _ _ _ _ _ _ P) in R; [|cbn [length]; lia];
                  destruct V'; [cbn [length] in R; lia | left; reflexivity]
                | left; reflexivity | exact I ]. }
          destruct Hc as [->|[->|[Hc|Hc]]];
            [exact (IfCase false) | exact (IfCase true) | now apply Stray; left | now apply Stray; right].
        * (* a plain op code *)
          cbn [cmd_okb] in Hcm. apply negb_true_iff, Z.eqb_neq in Hcm.
          rewrite (run_plain ripemd160 sha1 sha256 c xw (Op o)) by exact Hc.
          change (fex []) with true. cbv iota. cbn [spec_cmd].
          rewrite (ns_plain (Op o)) by exact Hc.
          destruct (negb (in_set o)) eqn:Hin; [exact I|].
          pose proof (step_mode_conformance o rest s a Hc Hcm Hs Ha) as A. unfold spec_step in A.
          cbn [m_eval_loop].
          match goal with
          | |- context [sbind ?X _] => set (sx := X)
          end.
          change (agree_m (m_exec_op mtable c o rest s a) rest sx) in A.
          assert (Es : spec_step ripemd160 sha1 sha256 c o s a = sx) by reflexivity.
          destruct sx as [[s1 a1]| |]; cbn [agree_m sbind fin rel_m] in A |- *;
            [| rewrite A; left; reflexivity | exact I].
          rewrite A.
          destruct (exec_ok ripemd160 sha1 sha256 ripemd160_ok sha1_ok sha256_ok c o s a s1 a1 Hs Ha Es)
            as [Hs1 Ha1].
          apply IH; auto.
      + (* a push *)
        cbn [cmd_okb] in Hcm. apply bytes_okb_ok in Hcm.
        rewrite (run_plain ripemd160 sha1 sha256 c xw (Push b)) by exact I.
        change (fex []) with true. cbv iota. cbn [spec_cmd fst snd m_eval_loop ns].
        destruct (520 <? zlen b); [exact I|].
        unfold special_after_push. cbn [andb orb].
        change (special_stack (b :: s)) with (witness_shape (b :: s)).
        destruct (xw && witness_shape (b :: s)); [exact I|]. cbn [sbind].
        apply IH; auto.
  Qed.

  (* Script(cmds).evaluate(tx, i, allow_p2sh=False, allow_witness=xw), with the failure mode,
     against EvalScript — for EVERY command list *)
  Theorem any_list_mode cmds : cmds_okb cmds = true ->
    rel_m (ns 0 cmds) (m_evaluate mtable c false xw cmds)
          (eval_script ripemd160 sha1 sha256 (to_ctx c) xw cmds).
  Proof.
    intros Hok. unfold m_evaluate.
    change (eval_script ripemd160 sha1 sha256 (to_ctx c) xw cmds) with (fin (run cmds [] ([], []))).
    apply (any_conf (length cmds)); auto.
  Qed.

  Corollary any_list_conformance cmds : cmds_okb cmds = true ->
    rel (evaluate table c false xw cmds) (eval_script ripemd160 sha1 sha256 (to_ctx c) xw cmds).
  Proof.
    intros Hok. rewrite <- evaluate_collapse. eapply rel_m_rel. now apply any_list_mode.
  Qed.
End Any.

(* ------------------------------------------------------------------ the keyword flags *)

Section MP2sh.
  Variables ripemd160 sha1 sha256 : bytes -> bytes.
  Variable c : txctx.
  Variable aw : bool.
  Notation table := (lib_table ripemd160 sha1 sha256).
  Notation mtable := (m_lib_table ripemd160 sha1 sha256).

  Lemma m_exec_op_sub o rest s a rest' s' a' :
    m_exec_op mtable c o rest s a = MOk (rest', s', a') -> sub rest' rest.
  Proof.
    intros E. apply (exec_op_sub table c o rest s a rest' s' a').
    rewrite <- exec_collapse, E. reflexivity.
  Qed.

  (* without the P2SH pattern allow_p2sh makes no difference, also for the failure mode *)
  Theorem m_p2sh_flag_irrelevant f : forall cmds s a,
    mentions_p2sh cmds = false ->
    m_eval_loop mtable c true aw f cmds s a = m_eval_loop mtable c false aw f cmds s a.
  Proof.
    induction f as [|f IH]; intros cmds s a M; [destruct cmds; reflexivity|].
    destruct cmds as [|cm rest]; [reflexivity|].
    assert (Mr : mentions_p2sh rest = false)
      by (eapply sub_mentions; [apply sub_skip, sub_refl | exact M]).
    cbn [m_eval_loop]. destruct cm as [o|b].
    - destruct (m_exec_op mtable c o rest s a) as [[[rest' s'] a']| |e] eqn:E; try reflexivity.
      apply IH. eapply sub_mentions; [eapply m_exec_op_sub; exact E | exact Mr].
    - unfold special_after_push. cbn [andb].
      destruct (is_p2sh rest) eqn:P; [apply is_p2sh_mentions in P; congruence|].
      cbn [orb]. destruct (aw && special_stack (b :: s)); [reflexivity|]. now apply IH.
  Qed.
End MP2sh.

Section AnyFlags.
  Variables ripemd160 sha1 sha256 : bytes -> bytes.
  Hypothesis ripemd160_ok : forall x, bytes_ok (ripemd160 x).
  Hypothesis sha1_ok : forall x, bytes_ok (sha1 x).
  Hypothesis sha256_ok : forall x, bytes_ok (sha256 x).
  Notation table := (lib_table ripemd160 sha1 sha256).
  Notation mtable := (m_lib_table ripemd160 sha1 sha256).

  (* Script(cmds).evaluate(tx, i, allow_p2sh, allow_witness) for EVERY command list and every flag
     combination (in particular the defaults), with the failure mode, against the verdict function *)
  Theorem any_list_mode_flags c (ap aw : bool) cmds : cmds_okb cmds = true ->
    rel_m (ns 0 cmds) (m_evaluate mtable c ap aw cmds)
          (consensus_verdict ripemd160 sha1 sha256 (to_ctx c) ap aw cmds).
  Proof.
    intros Hok. unfold consensus_verdict.
    destruct (ap && mentions_p2sh cmds) eqn:E; [exact I|].
    destruct (10000 <? script_size cmds); [exact I|].
    destruct ap.
    - cbn [andb] in E. unfold m_evaluate. rewrite m_p2sh_flag_irrelevant by exact E.
      now apply any_list_mode.
    - now apply any_list_mode.
  Qed.

  Corollary any_list_conformance_flags c (ap aw : bool) cmds : cmds_okb cmds = true ->
    rel (evaluate table c ap aw cmds) (consensus_verdict ripemd160 sha1 sha256 (to_ctx c) ap aw cmds).
  Proof.
    intros Hok. rewrite <- evaluate_collapse. eapply rel_m_rel. now apply any_list_mode_flags.
  Qed.

  (* well-formed programs (the ASTs of Proofs/InterpP.v): never an exception where the spec has an
     opinion — consensus rejects <-> the library returns False *)
  Lemma wf_prog_ok p : wf_prog p = true -> cmds_okb (flatten p) = true /\ ns 0 (flatten p) = true.
  Proof.
    intros Hw. unfold wf_prog in Hw. apply andb_true_iff in Hw as [Hw Hne]. split.
    - exact (wf_flat_ok (psize p) p (le_n _) Hw).
    - rewrite <- (app_nil_r (flatten p)).
      rewrite (ns_flat (psize p) p (le_n _) Hw 0%nat []) by (right; exact Hne). reflexivity.
  Qed.

  Theorem program_mode_flags c (ap aw : bool) p : wf_prog p = true ->
    rel_m true (m_evaluate mtable c ap aw (flatten p))
          (consensus_verdict ripemd160 sha1 sha256 (to_ctx c) ap aw (flatten p)).
  Proof.
    intros Hw. destruct (wf_prog_ok p Hw) as [H1 H2]. rewrite <- H2. now apply any_list_mode_flags.
  Qed.

  (* the only exception an in-scope evaluation can end with is the KeyError of a stray
     OP_ELSE / OP_ENDIF, and only on a script that consensus rejects *)
  Corollary raise_only_stray c (ap aw : bool) cmds e : cmds_okb cmds = true ->
    m_evaluate mtable c ap aw cmds = XRaise e ->
    consensus_verdict ripemd160 sha1 sha256 (to_ctx c) ap aw cmds <> OutOfScope ->
    e = EKey /\ ns 0 cmds = false /\
    consensus_verdict ripemd160 sha1 sha256 (to_ctx c) ap aw cmds = Reject.
  Proof.
    intros Hok E N. pose proof (any_list_mode_flags c ap aw cmds Hok) as R. rewrite E in R.
    destruct (consensus_verdict ripemd160 sha1 sha256 (to_ctx c) ap aw cmds); cbn [rel_m] in R;
      [discriminate | | congruence].
    destruct R as [R|[R1 R2]]; [discriminate|]. injection R2 as ->. auto.
  Qed.
End AnyFlags.

(* the witness: 1 ELSE — consensus rejects (unbalanced conditional), the library raises KeyError(103) *)
Lemma stray_else_raises :
  exists cmds c, cmds_okb cmds = true /\
  forall (r1 r2 r3 : bytes -> bytes) (ap aw : bool),
    consensus_verdict r1 r2 r3 (to_ctx c) ap aw cmds = Reject /\
    m_evaluate (m_lib_table r1 r2 r3) c ap aw cmds = XRaise EKey /\
    evaluate (lib_table r1 r2 r3) c ap aw cmds = OFalse.
Proof.
  exists [Op 81; Op 103], {| t_locktime := 0; t_sequence := 0; t_version := 2 |}.
  split; [reflexivity|]. intros r1 r2 r3 ap aw. destruct ap, aw; repeat split; reflexivity.
Qed.

(* what op_if's scan accepts: it finds "the matching OP_ENDIF" exactly when the commands up to it
   are the flattening of a well-formed item list (nested conditionals closed, any number of
   OP_ELSE), and then it splices the selected alternatives; otherwise op_if returns False *)
Theorem op_if_characterised neg e s items : cmds_okb items = true ->
  (exists body rest, wf_items body = true /\ items = flatten body ++ Op 104 :: rest /\
     op_if_gen neg (e :: s) items =
     Ok (s, flatten (select (xorb (negb (decode_num e =? 0)) neg) body) ++ rest))
  \/ ((forall body rest, wf_items body = true -> items <> flatten body ++ Op 104 :: rest) /\
      op_if_gen neg (e :: s) items = Err).
Proof.
  intros Hok. destruct (pb items [] []) as [[body rest]|] eqn:P.
  - left. exists body, rest.
    pose proof (pb_sound _ _ _ _ _ P) as Hi. cbn [pre rev flatten flat_map app] in Hi.
    pose proof (pb_wf items [] [] body rest Hok eq_refl eq_refl P) as Hw.
    repeat split; auto. subst items. now apply op_if_flat.
  - right. pose proof (pb_none_scan _ _ _ P true [] []) as Hscan. cbn [length] in Hscan.
    split; [|unfold op_if_gen; now rewrite Hscan].
    intros body rest Hw ->. rewrite (if_scan_body body Hw) in Hscan. discriminate.
Qed.
