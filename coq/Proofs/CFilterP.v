(* Proofs/CFilterP.v — CompactFilter: decoding inverts encoding, no false negatives.
   SipHash is an arbitrary keyed function with range [0, 2^64). *)
From Coq Require Import Sorting.Sorted Sorting.Permutation.
From V Require Import Base.Prelude Base.Ints Model.Helper Model.Gcs Model.CFilter
  Proofs.HelperP Proofs.GcsP.

Lemma map_res_length {A B} (f : A -> result B) l : forall ys,
  map_res f l = Ok ys -> length ys = length l.
Proof.
  induction l as [|x r IH]; intros ys H; cbn in H.
  - now inversion H.
  - destruct (f x) as [y|]; [|discriminate]. cbn in H.
    destruct (map_res f r) as [t|]; [|discriminate]. cbn in H. inversion H; subst. cbn. f_equal. now apply IH.
Qed.

Lemma map_res_in {A B} (f : A -> result B) l : forall ys x,
  map_res f l = Ok ys -> In x l -> exists y, f x = Ok y /\ In y ys.
Proof.
  induction l as [|a r IH]; intros ys x H Hin; [contradiction|]. cbn in H.
  destruct (f a) as [y|] eqn:Ea; [|discriminate]. cbn in H.
  destruct (map_res f r) as [t|] eqn:Er; [|discriminate]. cbn in H. inversion H; subst.
  destruct Hin as [<-|Hin].
  - exists y. split; [assumption|now left].
  - destruct (IH t x eq_refl Hin) as [y' [E I]]. exists y'. split; [assumption|now right].
Qed.

Lemma map_res_out {A B} (f : A -> result B) l : forall ys y,
  map_res f l = Ok ys -> In y ys -> exists x, In x l /\ f x = Ok y.
Proof.
  induction l as [|a r IH]; intros ys y H Hin; cbn in H.
  - inversion H; subst. contradiction.
  - destruct (f a) as [y0|] eqn:Ea; [|discriminate]. cbn in H.
    destruct (map_res f r) as [t|] eqn:Er; [|discriminate]. cbn in H. inversion H; subst.
    destruct Hin as [<-|Hin].
    + exists a. split; [now left|assumption].
    + destruct (IH t y eq_refl Hin) as [x [I E]]. exists x. split; [now right|assumption].
Qed.

Lemma map_res_total {A B} (f : A -> result B) l :
  (forall x, In x l -> exists y, f x = Ok y) -> exists ys, map_res f l = Ok ys.
Proof.
  induction l as [|a r IH]; intros H; cbn.
  - now eexists.
  - destruct (H a (or_introl eq_refl)) as [y ->]. cbn.
    destruct IH as [ys ->]; [intros x Hx; apply H; now right|]. cbn. now eexists.
Qed.

Lemma sorted_hd_le r : Sorted (fun x y => is_true (x <=? y)) r ->
  forall a, HdRel (fun x y => is_true (x <=? y)) a r -> forall x, In x r -> a <= x.
Proof.
  induction 1 as [|b r' Hs IH Hd']; intros a Hd x Hx; [contradiction|].
  inversion Hd as [|? ? Hab]; subst. apply Z.leb_le in Hab.
  destruct Hx as [<-|Hx]; [assumption|].
  specialize (IH b Hd' x Hx). lia.
Qed.

Lemma ascending_of_sorted l : forall last,
  Sorted (fun x y => is_true (x <=? y)) l -> (forall x, In x l -> last <= x) -> ascending last l.
Proof.
  induction l as [|a r IH]; intros last Hs Hl; cbn; [exact I|].
  split; [apply Hl; now left|].
  inversion Hs as [|? ? Hs' Hd]; subst. apply IH; [assumption|].
  now apply sorted_hd_le.
Qed.

Lemma zsort_length l : length (zsort l) = length l.
Proof. unfold zsort. symmetry. apply Permutation_length, ZSort.Permuted_sort. Qed.

Lemma zsort_in l x : In x (zsort l) <-> In x l.
Proof.
  unfold zsort. split; intros H.
  - eapply Permutation_in; [apply Permutation_sym, ZSort.Permuted_sort|exact H].
  - eapply Permutation_in; [apply ZSort.Permuted_sort|exact H].
Qed.

Lemma zmem_in x l : zmem x l = true <-> In x l.
Proof.
  unfold zmem. rewrite existsb_exists. split.
  - intros [y [Hy E]]. apply Z.eqb_eq in E. now subst.
  - intros H. exists x. split; [assumption|apply Z.eqb_refl].
Qed.

Lemma serialize_gcs_len items b : serialize_gcs items = Ok b -> zlen items < 18446744073709551616.
Proof.
  unfold serialize_gcs. intros H.
  destruct (Z_lt_dec (zlen items) 18446744073709551616) as [L|L]; [assumption|].
  rewrite varint_rejects in H by lia. discriminate.
Qed.

Section WithSip.
Variable sip : bytes -> bytes -> result Z.
(* the keyed hash maps the elements of the list into [0, 2^64) under this key *)
Definition sip_range (key : bytes) (items : list bytes) : Prop :=
  forall v h, In v items -> sip key v = Ok h -> 0 <= h < 18446744073709551616.

Lemma hash_to_range_bounds key v f h :
  (forall s, sip key v = Ok s -> 0 <= s < 18446744073709551616) ->
  0 <= f -> hash_to_range sip key v f = Ok h -> 0 <= h /\ (0 < f -> h < f).
Proof.
  intros sip_range Hf. unfold hash_to_range. destruct (sip key v) as [s|] eqn:E; [|discriminate].
  cbn [bind]. intros [= <-]. clear E. pose proof (sip_range s eq_refl) as E. rewrite Z.shiftr_div_pow2 by lia.
  change (2 ^ 64) with 18446744073709551616. split.
  - apply Z.div_pos; [apply Z.mul_nonneg_nonneg; lia | lia].
  - intros Hp. apply Z.div_lt_upper_bound; [lia|].
    apply (proj1 (Z.mul_lt_mono_pos_r f s 18446744073709551616 Hp)). lia.
Qed.

Lemma hashed_items_props key items l :
  sip_range key items ->
  hashed_items sip key items = Ok l ->
  length l = length items /\ ascending 0 l /\
  (forall x, In x items -> exists h, hash_to_range sip key x (zlen items * GOLOMB_M) = Ok h /\ In h l) /\
  (forall h, In h l -> 0 <= h < zlen items * GOLOMB_M).
Proof.
  intros Hr. unfold hashed_items.
  destruct (map_res _ items) as [m|] eqn:Em; [|discriminate]. cbn. intros [= <-].
  assert (Hf : 0 <= zlen items * GOLOMB_M) by (pose proof (zlen_nonneg items); unfold GOLOMB_M; lia).
  repeat split.
  - rewrite zsort_length. eapply map_res_length; eassumption.
  - apply ascending_of_sorted; [apply ZSort.Sorted_sort|].
    intros x Hx. apply (proj1 (zsort_in _ _)) in Hx.
    destruct (map_res_out _ _ _ _ Em Hx) as [it [Hit E]].
    now apply (hash_to_range_bounds _ _ _ _ (fun s => Hr it s Hit) Hf) in E.
  - intros x Hx. destruct (map_res_in _ _ _ _ Em Hx) as [h [E I]]. exists h. split; [assumption|].
    now apply zsort_in.
  - apply (proj1 (zsort_in _ _)) in H. destruct (map_res_out _ _ _ _ Em H) as [it [Hit E]].
    now apply (hash_to_range_bounds _ _ _ _ (fun s => Hr it s Hit) Hf) in E.
  - apply (proj1 (zsort_in _ _)) in H. destruct (map_res_out _ _ _ _ Em H) as [it [Hit E]].
    apply (hash_to_range_bounds _ _ _ _ (fun s => Hr it s Hit) Hf) in E. apply E.
    destruct items; [contradiction|]. unfold zlen, GOLOMB_M. cbn [length]. lia.
Qed.

(* decoding inverts encoding: the decoded list is the sorted list of hashed items *)
Lemma encode_decode_gcs key items fb :
  sip_range key items ->
  encode_gcs sip key items = Ok fb ->
  exists l, hashed_items sip key items = Ok l /\ decode_gcs fb = Ok l.
Proof.
  intros Hr. unfold encode_gcs. destruct (hashed_items sip key items) as [l|] eqn:Eh; [|discriminate]. cbn [bind].
  intros Hs. exists l. split; [reflexivity|].
  destruct (hashed_items_props _ _ _ Hr Eh) as [Hl [Ha _]].
  destruct (gcs_roundtrip l Ha (serialize_gcs_len _ _ Hs)) as [b [E1 E2]]. congruence.
Qed.

(* no false negatives: N of the parsed filter = number of encoded elements = len(items) *)
Lemma cf_no_false_negative key items fb :
  sip_range key items ->
  encode_gcs sip key items = Ok fb ->
  exists cf, cf_parse key fb = Ok cf /\ cf_key cf = key /\ cf_f cf = zlen items * GOLOMB_M /\
             forall x, In x items -> cf_contains sip cf x = Ok true.
Proof.
  intros Hr He. destruct (encode_decode_gcs _ _ _ Hr He) as [l [Eh Ed]].
  destruct (hashed_items_props _ _ _ Hr Eh) as [Hl [_ [Hin _]]].
  unfold cf_parse. rewrite Ed. cbn [bind]. eexists. split; [reflexivity|].
  assert (Hf : zlen l * GOLOMB_M = zlen items * GOLOMB_M) by (unfold zlen; now rewrite Hl).
  repeat split; [exact Hf|].
  intros x Hx. destruct (Hin x Hx) as [h [E I]].
  unfold cf_contains, cf_compute_hash, cf_new. cbn [cf_key cf_f cf_hashes].
  rewrite Hf, E. cbn [bind]. f_equal. now apply zmem_in.
Qed.

Lemma cf_build_query_member key items fb x :
  sip_range key items ->
  encode_gcs sip key items = Ok fb -> In x items -> cf_build_query sip key items x = Ok true.
Proof.
  intros Hr He Hx. unfold cf_build_query. rewrite He. cbn [bind].
  destruct (cf_no_false_negative _ _ _ Hr He) as [cf [-> [_ [_ H]]]]. cbn [bind]. now apply H.
Qed.

(* encoding succeeds whenever the hash is defined on every item and N fits the varint *)
Lemma encode_gcs_total key items :
  (forall x, In x items -> exists h, sip key x = Ok h) -> zlen items < 18446744073709551616 ->
  exists fb, encode_gcs sip key items = Ok fb.
Proof.
  intros Hs Hl. unfold encode_gcs, hashed_items.
  destruct (map_res_total (fun it => hash_to_range sip key it (zlen items * GOLOMB_M)) items) as [m Em].
  { intros x Hx. destruct (Hs x Hx) as [h E]. unfold hash_to_range. rewrite E. cbn. now eexists. }
  rewrite Em. cbn [bind]. unfold serialize_gcs.
  assert (Hz : zlen (zsort m) = zlen items).
  { unfold zlen. rewrite zsort_length. f_equal. eapply map_res_length; eassumption. }
  destruct (varint_roundtrip (zlen (zsort m)) []) as [nb [En _]];
    [rewrite Hz; pose proof (zlen_nonneg items); lia|].
  rewrite En. cbn [bind]. now eexists.
Qed.
End WithSip.

(* ------------------------------------------------------------------ *)
(* serialize() inverts parse(): sorting an already sorted list is the identity *)

Local Notation lebR := (fun x y : Z => is_true (x <=? y)).

Lemma lebR_trans : RelationClasses.Transitive lebR.
Proof. intros x y z H1 H2. apply Z.leb_le in H1, H2. apply Z.leb_le. lia. Qed.

Lemma sorted_perm_eq l1 : forall l2,
  StronglySorted lebR l1 -> StronglySorted lebR l2 -> Permutation l1 l2 -> l1 = l2.
Proof.
  induction l1 as [|a r1 IH]; intros l2 S1 S2 P.
  - apply Permutation_nil in P. now subst.
  - destruct l2 as [|b r2]; [apply Permutation_sym, Permutation_nil in P; discriminate|].
    inversion S1 as [|? ? S1' F1]; subst. inversion S2 as [|? ? S2' F2]; subst.
    assert (E : a = b).
    { rewrite Forall_forall in F1, F2.
      assert (Ha : In a (b :: r2)) by (eapply Permutation_in; [exact P|now left]).
      assert (Hb : In b (a :: r1)) by (eapply Permutation_in; [apply Permutation_sym; exact P|now left]).
      destruct Ha as [->|Ha]; [reflexivity|]. destruct Hb as [->|Hb]; [reflexivity|].
      pose proof (F2 a Ha) as L1. pose proof (F1 b Hb) as L2.
      apply Z.leb_le in L1, L2. lia. }
    subst b. f_equal. apply IH; try assumption. eapply Permutation_cons_inv; exact P.
Qed.

Lemma ascending_sorted l : forall last, ascending last l -> Sorted lebR l.
Proof.
  induction l as [|x r IH]; intros last H; [constructor|].
  destruct H as [_ Hr]. constructor; [eapply IH; exact Hr|].
  destruct r as [|y r']; constructor. destruct Hr as [Hxy _]. now apply Z.leb_le.
Qed.

Lemma zsort_sorted_id l last : ascending last l -> zsort l = l.
Proof.
  intros H. unfold zsort. apply sorted_perm_eq.
  - apply ZSort.StronglySorted_sort. exact lebR_trans.
  - apply Sorted_StronglySorted; [exact lebR_trans | eapply ascending_sorted; exact H].
  - apply Permutation_sym, ZSort.Permuted_sort.
Qed.

(* every canonical GCS (the serialisation of a non-negative non-decreasing list) *)
Lemma cf_serialize_parse key items raw :
  ascending 0 items -> serialize_gcs items = Ok raw ->
  exists cf, cf_parse key raw = Ok cf /\ cf_items cf = items /\ cf_serialize cf = Ok raw /\
             forall hash256, cf_hash hash256 cf = Ok (hash256 raw).
Proof.
  intros Ha Hs.
  destruct (gcs_roundtrip items Ha (serialize_gcs_len _ _ Hs)) as [b [E1 E2]].
  assert (b = raw) by congruence. subst b.
  unfold cf_parse. rewrite E2. cbn [bind]. eexists. split; [reflexivity|].
  assert (Ei : cf_items (cf_new key items) = items)
    by (unfold cf_items, cf_new; cbn [cf_hashes]; eapply zsort_sorted_id; exact Ha).
  assert (Es : cf_serialize (cf_new key items) = Ok raw) by (unfold cf_serialize; now rewrite Ei).
  split; [exact Ei|]. split; [exact Es|]. intros h. unfold cf_hash. now rewrite Es.
Qed.

(* ------------------------------------------------------------------ *)
(* instantiation with the SipHash-2-4 model of siphash.py *)
From V Require Import Model.Siphash Proofs.SiphashP.
From V Require Spec.Siphash.

Lemma siphash_eq_spec key v : length key = 16%nat -> bytes_ok key -> bytes_ok v ->
  siphash key v = Ok (Spec.Siphash.siphash24 key v).
Proof.
  intros L Hk Hv. unfold siphash.
  rewrite (siphash_chunks_spec key [v] L Hk) by (constructor; [assumption|constructor]).
  cbn [concat]. now rewrite app_nil_r.
Qed.

Lemma siphash_range key items : length key = 16%nat -> bytes_ok key -> Forall bytes_ok items ->
  sip_range siphash key items.
Proof.
  intros L Hk Hi v h Hin E. rewrite Forall_forall in Hi.
  rewrite (siphash_eq_spec key v L Hk (Hi v Hin)) in E. injection E as <-.
  apply (siphash24_in64 key v Hk (Hi v Hin)).
Qed.

Lemma compact_filter_siphash key items :
  length key = 16%nat -> bytes_ok key -> Forall bytes_ok items -> zlen items < 18446744073709551616 ->
  exists fb cf,
    encode_gcs siphash key items = Ok fb /\ cf_parse key fb = Ok cf /\
    cf_f cf = zlen items * GOLOMB_M /\
    (forall x, In x items -> cf_contains siphash cf x = Ok true) /\
    exists l, decode_gcs fb = Ok l /\
      l = zsort (map (fun x => Z.shiftr (Spec.Siphash.siphash24 key x * (zlen items * GOLOMB_M)) 64) items).
Proof.
  intros L Hk Hi Hl.
  pose proof (siphash_range key items L Hk Hi) as Hr.
  destruct (encode_gcs_total siphash key items) as [fb He]; [|assumption|].
  { intros x Hx. rewrite Forall_forall in Hi. rewrite (siphash_eq_spec key x L Hk (Hi x Hx)). now eexists. }
  destruct (cf_no_false_negative siphash key items fb Hr He) as [cf [Ep [_ [Ef Hc]]]].
  destruct (encode_decode_gcs siphash key items fb Hr He) as [l [Eh Ed]].
  exists fb, cf. repeat split; try assumption.
  exists l. split; [assumption|].
  unfold hashed_items in Eh.
  assert (Em : map_res (fun it => hash_to_range siphash key it (zlen items * GOLOMB_M)) items =
               Ok (map (fun x => Z.shiftr (Spec.Siphash.siphash24 key x * (zlen items * GOLOMB_M)) 64) items)).
  { generalize (zlen items * GOLOMB_M) as f. intros f. clear -L Hk Hi.
    induction items as [|x r IH]; [reflexivity|].
    inversion Hi as [|? ? Hx Hr]; subst. cbn [map_res map].
    unfold hash_to_range at 1. rewrite (siphash_eq_spec key x L Hk Hx). cbn [bind].
    rewrite (IH Hr). reflexivity. }
  rewrite Em in Eh. cbn [bind] in Eh. now injection Eh as <-.
Qed.

(* every filter produced by encode_gcs, for any keyed hash into [0, 2^64) *)
Lemma cf_serialize_parse_encode (sip : bytes -> bytes -> result Z) key items raw :
  sip_range sip key items -> encode_gcs sip key items = Ok raw ->
  exists cf, cf_parse key raw = Ok cf /\ cf_serialize cf = Ok raw /\
             forall hash256, cf_hash hash256 cf = Ok (hash256 raw).
Proof.
  intros Hr He. unfold encode_gcs in He.
  destruct (hashed_items sip key items) as [l|] eqn:Eh; [|discriminate]. cbn [bind] in He.
  destruct (hashed_items_props sip key items l Hr Eh) as [_ [Ha _]].
  destruct (cf_serialize_parse key l raw Ha He) as [cf [E1 [_ [E2 E3]]]].
  exists cf. repeat split; assumption.
Qed.
