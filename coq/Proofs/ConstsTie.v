(* Proofs/ConstsTie.v — the constants written by hand in the models equal the constants that
   harness/gen_coq_consts.py extracts from the SOURCE of /repo on every run (coq/Generated/SrcConsts.v).
   An edit of a constant in /repo therefore breaks a proof obligation here (and the properties that
   import this file), before any test input is tried. *)
From V Require Import Base.Prelude Base.Ints Model.Helper Model.Pecc Model.Gcs Model.Network Model.Script
  Model.Op Model.Bech32 Model.Base58 Model.Bloom Model.Pow Model.Pbkdf2 Model.Psbt Model.Shamir
  Generated.SrcConsts.

Definition secp256k1_is_source_stmt : Prop :=
  cp secp256k1 = pecc_P /\ cn secp256k1 = pecc_N /\ ca secp256k1 = pecc_A /\ cb secp256k1 = pecc_B /\
  cgx secp256k1 = pecc_Gx /\ cgy secp256k1 = pecc_Gy.
Lemma secp256k1_is_source : secp256k1_is_source_stmt.
Proof. unfold secp256k1_is_source_stmt. repeat split; reflexivity. Qed.

Definition golomb_is_source_stmt : Prop :=
  Z.of_nat GOLOMB_P = helper_GOLOMB_P /\ Z.of_nat GOLOMB_P = compactfilter_GOLOMB_P /\
  GOLOMB_M = helper_GOLOMB_M /\ GOLOMB_M = compactfilter_GOLOMB_M.
Lemma golomb_is_source : golomb_is_source_stmt.
Proof. unfold golomb_is_source_stmt. repeat split; reflexivity. Qed.

Definition magic_is_source_stmt : Prop :=
  magic_of 0 = network_MAGIC_mainnet /\ magic_of 1 = network_MAGIC_testnet /\
  magic_of 2 = network_MAGIC_signet /\ magic_of 3 = network_MAGIC_regtest.
Lemma magic_is_source : magic_is_source_stmt.
Proof. unfold magic_is_source_stmt. repeat split; reflexivity. Qed.

Definition timelock_is_source_stmt : Prop :=
  MAX_LOCKTIME = timelock_MAX_LOCKTIME /\ MAX_SEQUENCE = timelock_MAX_SEQUENCE /\
  BLOCK_LIMIT = timelock_BLOCK_LIMIT /\ SEQ_DISABLE = timelock_SEQUENCE_DISABLE_RELATIVE_FLAG /\
  SEQ_TIME = timelock_SEQUENCE_RELATIVE_TIME_FLAG /\ SEQ_MASK = timelock_SEQUENCE_MASK.
Lemma timelock_is_source : timelock_is_source_stmt.
Proof. unfold timelock_is_source_stmt. repeat split; reflexivity. Qed.

Definition bech32_is_source_stmt : Prop :=
  GEN = bech32_GEN /\ BECH32M_CONSTANT = bech32_BECH32M_CONSTANT /\ bech32_alphabet = bech32_BECH32_ALPHABET /\
  hrp_bc = bech32_PREFIX_mainnet /\ hrp_tb = bech32_PREFIX_testnet /\ hrp_tb = bech32_PREFIX_signet /\
  hrp_bcrt = bech32_PREFIX_regtest.
Lemma bech32_is_source : bech32_is_source_stmt.
Proof. unfold bech32_is_source_stmt. repeat split; reflexivity. Qed.

Definition base58_is_source_stmt : Prop :=
  b58_alphabet = helper_BASE58_ALPHABET.
Lemma base58_is_source : base58_is_source_stmt.
Proof. unfold base58_is_source_stmt. reflexivity. Qed.

Definition bloom_is_source_stmt : Prop :=
  BIP37_CONSTANT = bloomfilter_BIP37_CONSTANT.
Lemma bloom_is_source : bloom_is_source_stmt.
Proof. unfold bloom_is_source_stmt. reflexivity. Qed.

Definition pow_is_source_stmt : Prop :=
  TWO_WEEKS = helper_TWO_WEEKS /\ MAX_TARGET = helper_MAX_TARGET.
Lemma pow_is_source : pow_is_source_stmt.
Proof. unfold pow_is_source_stmt. split; reflexivity. Qed.

Definition pbkdf2_is_source_stmt : Prop :=
  PBKDF2_ROUNDS = helper_PBKDF2_ROUNDS.
Lemma pbkdf2_is_source : pbkdf2_is_source_stmt.
Proof. unfold pbkdf2_is_source_stmt. reflexivity. Qed.

Definition psbt_magic_is_source_stmt : Prop :=
  Psbt.magic = psbt_PSBT_MAGIC ++ psbt_PSBT_SEPARATOR.
Lemma psbt_magic_is_source : psbt_magic_is_source_stmt.
Proof. unfold psbt_magic_is_source_stmt. reflexivity. Qed.

Definition rs1024_is_source_stmt : Prop :=
  RS_GEN = shamir_RS1024_GEN.
Lemma rs1024_is_source : rs1024_is_source_stmt.
Proof. unfold rs1024_is_source_stmt. reflexivity. Qed.

(* the op codes the model's dispatch tables know are exactly the keys of the source dictionaries *)
Definition dummy_h (x : bytes) : bytes := x.
Definition defined_in (tbl : Z -> option opfn) (o : Z) : bool :=
  match tbl o with Some _ => true | None => false end.
Definition zmem (o : Z) (l : list Z) : bool := existsb (Z.eqb o) l.
Definition all_ops : list Z := map Z.of_nat (seq 0 300).

Definition op_table_domain_is_source_stmt : Prop :=
  forallb (fun o => Bool.eqb (defined_in (op_code_functions dummy_h dummy_h dummy_h dummy_h dummy_h no_sigops) o)
                             (zmem o op_OP_CODE_FUNCTIONS_keys)) (-1 :: all_ops) = true /\
  forallb (fun o => Bool.eqb (defined_in (taproot_op_code_functions dummy_h dummy_h dummy_h dummy_h dummy_h no_sigops) o)
                             (zmem o op_TAPROOT_OP_CODE_FUNCTIONS_keys)) (-1 :: all_ops) = true.
Lemma op_table_domain_is_source : op_table_domain_is_source_stmt.
Proof. unfold op_table_domain_is_source_stmt. split; vm_compute; reflexivity. Qed.

(* which op codes are bound to the no-op, the always-fail and the op_success functions in the source *)
Definition behaves_like (f : stack -> result stack) (tbl : Z -> option opfn) (o : Z) : bool :=
  match tbl o with
  | Some (FStack g) =>
      forallb (fun s => match g s, f s with
                        | Ok a, Ok b => (fix eq (x y : list bytes) : bool :=
                                           match x, y with
                                           | [], [] => true
                                           | u :: x', v :: y' => beq u v && eq x' y'
                                           | _, _ => false
                                           end) a b
                        | Err, Err => true
                        | _, _ => false
                        end) [[]; [[1]]; [[]; [2; 3]]]
  | _ => false
  end.

Definition op_nop_codes_are_source_stmt : Prop :=
  forallb (behaves_like op_nop (op_code_functions dummy_h dummy_h dummy_h dummy_h dummy_h no_sigops))
          op_OP_CODE_FUNCTIONS_op_nop = true /\
  forallb (behaves_like op_success (taproot_op_code_functions dummy_h dummy_h dummy_h dummy_h dummy_h no_sigops))
          op_TAPROOT_OP_CODE_FUNCTIONS_op_success = true /\
  forallb (behaves_like op_return (taproot_op_code_functions dummy_h dummy_h dummy_h dummy_h dummy_h no_sigops))
          op_TAPROOT_OP_CODE_FUNCTIONS_op_return = true.
Lemma op_nop_codes_are_source : op_nop_codes_are_source_stmt.
Proof. unfold op_nop_codes_are_source_stmt. repeat split; vm_compute; reflexivity. Qed.
