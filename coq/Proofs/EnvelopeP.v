(* Proofs/EnvelopeP.v — C19: exact acceptance set of NetworkEnvelope.parse, truncation and
   single-byte corruption, other-network rejection, the NUL guard of the command round trip. *)
From V Require Import Base.Prelude Base.Ints Model.Helper Model.Block Model.Gcs Model.Network
  Proofs.HelperP Proofs.NetworkP.

(* ---------------- list plumbing ---------------- *)

Lemma Ok_inj {A} (a b : A) : Ok a = Ok b -> a = b.
Proof. congruence. Qed.

Lemma app_inv_length {A} (a a' b b' : list A) :
  a ++ b = a' ++ b' -> length a = length a' -> a = a' /\ b = b'.
Proof.
  intros E L. split.
  - rewrite <- (firstn_app_exact a b (length a) eq_refl).
    rewrite <- (firstn_app_exact a' b' (length a) (eq_sym L)). now rewrite E.
  - rewrite <- (skipn_app_exact a b (length a) eq_refl).
    rewrite <- (skipn_app_exact a' b' (length a) (eq_sym L)). now rewrite E.
Qed.

(* One field of length n is peeled off two strings that differ in exactly one position
   (|a| is the position): either the position is inside the field — then the remainders are
   equal and the fields differ exactly there — or the fields are equal and the remainders
   differ in the position shifted by n. *)
Lemma subst_split {A} (n : nat) (a : list A) x x' b l1 l2 r1 r2 :
  a ++ x :: b = l1 ++ r1 -> a ++ x' :: b = l2 ++ r2 -> length l1 = n -> length l2 = n ->
  ((length a < n)%nat -> r1 = r2 /\ exists t, l1 = a ++ x :: t /\ l2 = a ++ x' :: t) /\
  ((n <= length a)%nat ->
     l1 = l2 /\ exists a', r1 = a' ++ x :: b /\ r2 = a' ++ x' :: b /\ length a = (n + length a')%nat).
Proof.
  intros E1 E2 L1 L2.
  assert (l1 = firstn n (a ++ x :: b) /\ r1 = skipn n (a ++ x :: b)) as [F1 S1].
  { rewrite E1. now rewrite firstn_app_exact, skipn_app_exact. }
  assert (l2 = firstn n (a ++ x' :: b) /\ r2 = skipn n (a ++ x' :: b)) as [F2 S2].
  { rewrite E2. now rewrite firstn_app_exact, skipn_app_exact. }
  split; intros H.
  - assert (exists m, n - length a = S m)%nat as [m Hm] by (exists (n - length a - 1)%nat; lia).
    rewrite firstn_app, Hm in F1, F2. rewrite skipn_app, Hm in S1, S2.
    rewrite firstn_all2 in F1, F2 by lia. rewrite skipn_all2 in S1, S2 by lia.
    cbn in F1, F2, S1, S2. split; [congruence|]. exists (firstn m b). now subst.
  - assert (n - length a = 0)%nat as Hm by lia.
    rewrite firstn_app, Hm in F1, F2. rewrite skipn_app, Hm in S1, S2. cbn in F1, F2, S1, S2.
    rewrite app_nil_r in F1, F2.
    split; [congruence|]. exists (skipn n a). repeat split; try assumption.
    rewrite skipn_length. lia.
Qed.

Lemma from_le_subst_neq a x x' t : x <> x' -> from_le (a ++ x :: t) <> from_le (a ++ x' :: t).
Proof. intros H. induction a as [|y a IH]; cbn [app from_le]; lia. Qed.

(* ---------------- strip(b"\x00") ---------------- *)

Lemma lstrip0_length l : (length (lstrip0 l) <= length l)%nat.
Proof. induction l as [|y r IH]; cbn; [lia|]. destruct (y =? 0); cbn; lia. Qed.

Lemma lstrip0_fixed l : length (lstrip0 l) = length l -> lstrip0 l = l.
Proof.
  destruct l as [|y r]; [reflexivity|]. cbn. destruct (y =? 0); [|reflexivity].
  intros H. pose proof (lstrip0_length r). cbn in H. lia.
Qed.

Lemma strip0_fixed_iff c : strip0 c = c <-> no_nul_ends c.
Proof.
  unfold strip0, no_nul_ends. split.
  - intros H.
    assert (length (lstrip0 c) = length c) as L.
    { pose proof (lstrip0_length c). pose proof (lstrip0_length (rev (lstrip0 c))) as L2.
      rewrite rev_length in L2. apply (f_equal (@length Z)) in H. rewrite rev_length in H. lia. }
    apply lstrip0_fixed in L. rewrite L in H. split; [exact L|].
    apply (f_equal (@rev Z)) in H. now rewrite rev_involutive in H.
  - intros [H1 H2]. rewrite H1, H2. apply rev_involutive.
Qed.

Lemma lstrip0_app_nonnil c z : lstrip0 c <> [] -> lstrip0 (c ++ z) = lstrip0 c ++ z.
Proof.
  induction c as [|y r IH]; cbn; [congruence|]. destruct (y =? 0); [exact IH | reflexivity].
Qed.

Lemma lstrip0_app_zeros_nil c k : lstrip0 c = [] -> lstrip0 (c ++ repeatz 0 k) = [].
Proof.
  induction c as [|y r IH]; cbn.
  - intros _. rewrite <- (app_nil_r (repeatz 0 k)). now rewrite lstrip0_zeros.
  - destruct (y =? 0); [exact IH | discriminate].
Qed.

(* the zero padding of the command field disappears again: strip(pad(c)) = strip(c) *)
Lemma strip0_pad c k : strip0 (c ++ repeatz 0 k) = strip0 c.
Proof.
  unfold strip0. destruct (lstrip0 c) as [|y r] eqn:E.
  - now rewrite lstrip0_app_zeros_nil.
  - rewrite lstrip0_app_nonnil by congruence. rewrite E.
    now rewrite rev_app_distr, rev_repeatz, lstrip0_zeros.
Qed.

(* ---------------- magic ---------------- *)

Lemma magic_inj n1 n2 : 0 <= n1 <= 3 -> 0 <= n2 <= 3 -> magic_of n1 = magic_of n2 -> n1 = n2.
Proof.
  intros H1 H2.
  assert (n1 = 0 \/ n1 = 1 \/ n1 = 2 \/ n1 = 3) as C1 by lia.
  assert (n2 = 0 \/ n2 = 1 \/ n2 = 2 \/ n2 = 3) as C2 by lia.
  destruct C1 as [-> | [-> | [-> | ->]]]; destruct C2 as [-> | [-> | [-> | ->]]]; cbn; intros E;
    try reflexivity; discriminate.
Qed.

Section WithHash.
Variable hash256 : bytes -> bytes.
Hypothesis hash256_len : forall x, length (hash256 x) = 32%nat.

Definition ck (p : bytes) : bytes := firstn 4 (hash256 p).

(* a collision of the 4-byte envelope checksum *)
Definition ck_collision : Prop := exists u v : bytes, u <> v /\ ck u = ck v.

Lemma ck_len p : length (ck p) = 4%nat.
Proof. apply ck_length. exact hash256_len. Qed.

(* ---------------- serialize ---------------- *)

Lemma env_serialize_layout net cmd payload :
  zlen payload < 4294967296 ->
  env_serialize hash256 net cmd payload =
    Ok (magic_of net ++ (cmd ++ repeatz 0 (12 - length cmd)) ++ to_le 4 (zlen payload)
        ++ ck payload ++ payload).
Proof.
  intros H. unfold env_serialize.
  rewrite int_to_le_ok by (rewrite pow256_4; pose proof (zlen_nonneg payload); lia).
  cbn [bind]. now rewrite <- app_assoc.
Qed.

Lemma env_serialize_length net cmd payload e :
  (length cmd <= 12)%nat -> env_serialize hash256 net cmd payload = Ok e ->
  length e = (24 + length payload)%nat.
Proof.
  intros Hc H.
  assert (zlen payload < 4294967296) as Hp.
  { unfold env_serialize in H.
    destruct (int_to_le (zlen payload) 4) as [lb|] eqn:E; [|discriminate].
    apply int_to_le_inv in E as [R _]. rewrite pow256_4 in R. lia. }
  rewrite env_serialize_layout in H by exact Hp.
  assert (e = magic_of net ++ (cmd ++ repeatz 0 (12 - length cmd)) ++ to_le 4 (zlen payload)
              ++ ck payload ++ payload) as -> by congruence.
  rewrite !app_length, magic_length, repeatz_length, to_le_length, ck_len. lia.
Qed.

Lemma env_serialize_ok_iff net cmd payload :
  (exists e, env_serialize hash256 net cmd payload = Ok e) <-> zlen payload < 4294967296.
Proof.
  split.
  - intros [e H]. unfold env_serialize in H.
    destruct (int_to_le (zlen payload) 4) as [lb|] eqn:E; [|discriminate].
    apply int_to_le_inv in E as [R _]. rewrite pow256_4 in R. lia.
  - intros H. eexists. now apply env_serialize_layout.
Qed.

Lemma env_serialize_rejects net cmd payload :
  4294967296 <= zlen payload -> env_serialize hash256 net cmd payload = Err.
Proof.
  intros H. unfold env_serialize. rewrite int_to_le_err by (rewrite pow256_4; lia). reflexivity.
Qed.

(* ---------------- parse: exact acceptance set ---------------- *)

(* every frame with the right magic, ANY 12-byte command field, the right length and
   checksum is accepted (the command field is not covered by the checksum) *)
Lemma env_parse_frame net c p rest :
  length c = 12%nat -> zlen p < 4294967296 ->
  env_parse hash256 net (magic_of net ++ c ++ to_le 4 (zlen p) ++ ck p ++ p ++ rest)
  = Ok (strip0 c, p, rest).
Proof.
  intros Lc Hp. unfold env_parse.
  rewrite (read_app 4) by apply magic_length.
  assert (beq (magic_of net) [] = false) as E1.
  { apply beq_neq. intros E. pose proof (magic_length net) as L. rewrite E in L. discriminate. }
  rewrite E1, beq_refl. cbn [negb].
  rewrite (read_app 12) by exact Lc. rewrite (read_app 4) by apply to_le_length.
  rewrite from_le_to_le by (rewrite pow256_4; pose proof (zlen_nonneg p); lia).
  rewrite (read_app 4) by apply ck_len.
  rewrite readz_app, Z.eqb_refl. cbn [negb]. unfold ck. now rewrite beq_refl.
Qed.

(* the shape of whatever is accepted; no assumption on the stream *)
Lemma env_parse_shape net s cmd p rest :
  env_parse hash256 net s = Ok (cmd, p, rest) ->
  exists c lb, length c = 12%nat /\ length lb = 4%nat /\ strip0 c = cmd /\ from_le lb = zlen p /\
    s = magic_of net ++ c ++ lb ++ ck p ++ p ++ rest.
Proof.
  unfold env_parse, read.
  destruct (beq (firstn 4 s) []) eqn:E1; [discriminate|].
  destruct (beq (firstn 4 s) (magic_of net)) eqn:E2; [|discriminate]. cbn [negb].
  set (s1 := skipn 4 s). set (s2 := skipn 12 s1). set (s3 := skipn 4 s2). set (s4 := skipn 4 s3).
  destruct (readz (from_le (firstn 4 s2)) s4) as [pl s5] eqn:ER.
  destruct (zlen pl =? from_le (firstn 4 s2)) eqn:E3; [|discriminate]. cbn [negb].
  destruct (beq (firstn 4 (hash256 pl)) (firstn 4 s3)) eqn:E4; [|discriminate].
  intros [= <- <- <-].
  apply beq_eq in E2, E4. apply Z.eqb_eq in E3.
  assert (length (firstn 4 s3) = 4%nat) as L3 by (rewrite <- E4; apply ck_len).
  assert (s3 <> []) as N3 by (intros E; rewrite E in L3; discriminate).
  assert (length (firstn 4 s2) = 4%nat) as L2 by (apply skipn_nonnil_firstn; exact N3).
  assert (s2 <> []) as N2 by (intros E; rewrite E in L2; discriminate).
  assert (length (firstn 12 s1) = 12%nat) as L1 by (apply skipn_nonnil_firstn; exact N2).
  exists (firstn 12 s1), (firstn 4 s2). repeat split; try assumption; [now symmetry|].
  unfold ck. rewrite E4, <- E2.
  pose proof (readz_split (from_le (firstn 4 s2)) s4) as SP. rewrite ER in SP. cbn [fst snd] in SP.
  rewrite SP. unfold s4. rewrite (firstn_skipn 4 s3). unfold s3. rewrite (firstn_skipn 4 s2).
  unfold s2. rewrite (firstn_skipn 12 s1). unfold s1. now rewrite (firstn_skipn 4 s).
Qed.

(* acceptance is EXACTLY: a complete frame *)
Lemma env_parse_accepts_iff net s cmd p rest :
  bytes_ok s ->
  (env_parse hash256 net s = Ok (cmd, p, rest) <->
   exists c, length c = 12%nat /\ strip0 c = cmd /\ zlen p < 4294967296 /\
     s = magic_of net ++ c ++ to_le 4 (zlen p) ++ ck p ++ p ++ rest).
Proof.
  intros Hs. split.
  - intros H. destruct (env_parse_shape _ _ _ _ _ H) as (c & lb & Lc & Ll & Sc & Fl & Es).
    assert (bytes_ok lb) as Bl.
    { rewrite Es in Hs. apply bytes_ok_app in Hs as [_ Hs]. apply bytes_ok_app in Hs as [_ Hs].
      now apply bytes_ok_app in Hs as [Hs _]. }
    exists c. repeat split; try assumption.
    + pose proof (from_le_bound lb Bl) as B. rewrite Ll, pow256_4 in B. lia.
    + rewrite <- Fl. now rewrite (to_le_from_le_n 4 lb Ll Bl).
  - intros (c & Lc & Sc & Hp & ->). rewrite <- Sc. now apply env_parse_frame.
Qed.

(* each accepted envelope takes at least the 24 header bytes off the stream *)
Lemma env_parse_consumes net s cmd p rest :
  env_parse hash256 net s = Ok (cmd, p, rest) -> (24 + length p + length rest = length s)%nat.
Proof.
  intros H. destruct (env_parse_shape _ _ _ _ _ H) as (c & lb & Lc & Ll & _ & _ & ->).
  rewrite !app_length, magic_length, Lc, Ll, ck_len. lia.
Qed.

(* ---------------- round trip with the exact NUL guard ---------------- *)

Lemma env_roundtrip_guard_exact net cmd payload rest :
  (length cmd <= 12)%nat -> zlen payload < 4294967296 ->
  exists e, env_serialize hash256 net cmd payload = Ok e /\
    env_parse hash256 net (e ++ rest) = Ok (strip0 cmd, payload, rest) /\
    (strip0 cmd = cmd <-> no_nul_ends cmd).
Proof.
  intros Hc Hp. eexists. split; [now apply env_serialize_layout|]. split; [|apply strip0_fixed_iff].
  rewrite <- !app_assoc. rewrite (app_assoc cmd).
  rewrite env_parse_frame by (try rewrite app_length, repeatz_length; lia).
  now rewrite strip0_pad.
Qed.

(* ---------------- another network ---------------- *)

Lemma env_rejects_other_network net net' cmd payload e rest :
  0 <= net <= 3 -> 0 <= net' <= 3 -> net <> net' ->
  env_serialize hash256 net cmd payload = Ok e ->
  env_parse hash256 net' (e ++ rest) = Err.
Proof.
  intros H1 H2 Hn He. apply env_rejects_magic.
  unfold env_serialize in He.
  destruct (int_to_le (zlen payload) 4) as [lb|]; [|discriminate]. cbn [bind] in He.
  apply Ok_inj in He; subst e. rewrite <- app_assoc.
  rewrite firstn_app_exact by apply magic_length.
  intros E. apply Hn. now apply magic_inj.
Qed.

(* ---------------- truncation at every offset ---------------- *)

Lemma env_rejects_truncation net cmd payload e k :
  (length cmd <= 12)%nat ->
  env_serialize hash256 net cmd payload = Ok e -> (k < length e)%nat ->
  env_parse hash256 net (firstn k e) = Err.
Proof.
  intros Hc He Hk.
  destruct (env_parse hash256 net (firstn k e)) as [[[cmd' p'] rest']|] eqn:EP; [|reflexivity].
  exfalso.
  pose proof (env_serialize_length _ _ _ _ Hc He) as Le.
  assert (zlen payload < 4294967296) as Hp by (apply (env_serialize_ok_iff net cmd); eauto).
  rewrite env_serialize_layout in He by exact Hp. apply Ok_inj in He.
  pose proof (env_parse_consumes _ _ _ _ _ EP) as LC. rewrite firstn_length in LC.
  destruct (env_parse_shape _ _ _ _ _ EP) as (c & lb & Lc & Ll & _ & Fl & Es).
  (* the prefix starts with the header of e, hence carries the same length field *)
  pose proof (firstn_skipn k e) as FS. remember (skipn k e) as tl eqn:Etl. clear Etl.
  rewrite Es in FS. rewrite <- He in FS. rewrite <- !app_assoc in FS.
  apply app_inv_head in FS. rewrite (app_assoc cmd) in FS.
  apply app_inv_length in FS as [_ FS]; [|rewrite app_length, repeatz_length; lia].
  apply app_inv_length in FS as [FS _]; [|now rewrite to_le_length].
  rewrite FS in Fl.
  rewrite from_le_to_le in Fl by (rewrite pow256_4; pose proof (zlen_nonneg payload); lia).
  unfold zlen in Fl. lia.
Qed.

(* ---------------- single-byte corruption ---------------- *)

(* One byte of the envelope (position |a|, anywhere except the command field) is replaced
   by a different value; the stream continues with [rest].  The result is rejected — or the
   4-byte checksum has a collision, which is exhibited. *)
Lemma env_single_byte_corruption net cmd payload e rest a x x' b :
  (length cmd <= 12)%nat ->
  env_serialize hash256 net cmd payload = Ok e ->
  e ++ rest = a ++ x :: b -> x <> x' ->
  (length a < length e)%nat -> (length a < 4 \/ 16 <= length a)%nat ->
  env_parse hash256 net (a ++ x' :: b) = Err \/ ck_collision.
Proof.
  intros Hc He Eab Hx Hpos Hfield.
  destruct (env_parse hash256 net (a ++ x' :: b)) as [[[cmd' p'] rest']|] eqn:EP;
    [right | left; reflexivity].
  pose proof (env_serialize_length _ _ _ _ Hc He) as Le.
  assert (zlen payload < 4294967296) as Hp by (apply (env_serialize_ok_iff net cmd); eauto).
  rewrite env_serialize_layout in He by exact Hp. apply Ok_inj in He.
  destruct (env_parse_shape _ _ _ _ _ EP) as (c & lb & Lc & Ll & _ & Fl & Es).
  rewrite <- He in Eab. rewrite <- !app_assoc in Eab. symmetry in Eab.
  (* magic *)
  destruct (subst_split 4 a x x' b _ _ _ _ Eab Es (magic_length net) (magic_length net))
    as [M1 M2].
  destruct (Nat.lt_ge_cases (length a) 4) as [P0|P0].
  { exfalso. destruct (M1 P0) as [_ [t [T1 T2]]]. rewrite T1 in T2.
    apply app_inv_head in T2. congruence. }
  destruct (M2 P0) as [_ (a1 & Ea1 & Ea1' & La1)]. clear M1 M2.
  (* command field: excluded by hypothesis *)
  rewrite (app_assoc cmd) in Ea1.
  assert (length (cmd ++ repeatz 0 (12 - length cmd)) = 12%nat) as Lpad
    by (rewrite app_length, repeatz_length; lia).
  destruct (subst_split 12 a1 x x' b _ _ _ _ (eq_sym Ea1) (eq_sym Ea1') Lpad Lc) as [_ C2].
  destruct (C2 ltac:(lia)) as [_ (a2 & Ea2 & Ea2' & La2)]. clear C2.
  (* length field *)
  destruct (subst_split 4 a2 x x' b _ _ _ _ (eq_sym Ea2) (eq_sym Ea2') (to_le_length 4 _) Ll) as [L1 L2].
  destruct (Nat.lt_ge_cases (length a2) 4) as [P2|P2].
  { destruct (L1 P2) as [ER [t [T1 T2]]].
    apply app_inv_length in ER as [EK EPR]; [|now rewrite !ck_len].
    exists payload, p'. split; [|exact EK].
    intros ->. apply (from_le_subst_neq a2 x x' t Hx). rewrite <- T1, <- T2, Fl.
    apply from_le_to_le. rewrite pow256_4. pose proof (zlen_nonneg p'). lia. }
  destruct (L2 P2) as [EL (a3 & Ea3 & Ea3' & La3)]. clear L1 L2.
  assert (zlen p' = zlen payload) as Zp.
  { rewrite <- Fl, <- EL. apply from_le_to_le. rewrite pow256_4.
    pose proof (zlen_nonneg payload). lia. }
  assert (length p' = length payload) as Lp by (unfold zlen in Zp; lia).
  (* checksum field *)
  destruct (subst_split 4 a3 x x' b _ _ _ _ (eq_sym Ea3) (eq_sym Ea3') (ck_len _) (ck_len _)) as [K1 K2].
  destruct (Nat.lt_ge_cases (length a3) 4) as [P3|P3].
  { exfalso. destruct (K1 P3) as [ER [t [T1 T2]]].
    apply app_inv_length in ER as [EPP _]; [|now symmetry].
    rewrite EPP, T2 in T1. apply app_inv_head in T1. congruence. }
  destruct (K2 P3) as [EK (a4 & Ea4 & Ea4' & La4)]. clear K1 K2.
  (* payload *)
  destruct (subst_split (length payload) a4 x x' b _ _ _ _ (eq_sym Ea4) (eq_sym Ea4') eq_refl Lp) as [Q1 _].
  destruct (Q1 ltac:(lia)) as [_ [t [T1 T2]]].
  exists payload, p'. split; [|exact EK].
  rewrite T1, T2. intros E. apply app_inv_head in E. congruence.
Qed.

(* a change inside the command field is NOT detected: the frame is accepted with the payload
   intact and whatever command the field now spells *)
Lemma env_command_corruption_accepted net cmd payload e c' rest :
  (length cmd <= 12)%nat -> length c' = 12%nat ->
  env_serialize hash256 net cmd payload = Ok e ->
  env_parse hash256 net (firstn 4 e ++ c' ++ skipn 16 e ++ rest) = Ok (strip0 c', payload, rest).
Proof.
  intros Hc Lc He.
  assert (zlen payload < 4294967296) as Hp by (apply (env_serialize_ok_iff net cmd); eauto).
  rewrite env_serialize_layout in He by exact Hp. apply Ok_inj in He; subst e.
  rewrite firstn_app_exact by apply magic_length.
  rewrite (app_assoc (magic_of net) (cmd ++ repeatz 0 (12 - length cmd))).
  rewrite (skipn_app_exact (magic_of net ++ cmd ++ repeatz 0 (12 - length cmd)))
    by (rewrite !app_length, magic_length, repeatz_length; lia).
  rewrite <- !app_assoc. now apply env_parse_frame.
Qed.

End WithHash.
