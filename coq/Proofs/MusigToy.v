(* Proofs/MusigToy.v — concrete instances on the toy curve (y^2 = x^3 + 7 over F_43, order 31) showing that
   the hypotheses of the C13 theorems are satisfiable and that every parity branch of the signing flow occurs. *)
From Coq Require Import Permutation.
From V Require Import Base.Prelude Base.Ints Model.Helper Model.Script Model.Op Model.Interp Model.Pecc
  Model.Taproot Model.Verify Model.Musig Proofs.GroupHyp Proofs.ToyCurve Proofs.VerifyP Proofs.TapMultisigP
  Proofs.VerifyTapP Proofs.MusigP Proofs.MusigTreeP Proofs.MusigFinalP.

(* a toy "hash" with some diffusion *)
Definition toy_sha (b : bytes) : bytes := [(fold_right Z.add 0 b * 7 + Z.of_nat (length b)) mod 251].

(* parities of (aggregate point, R, external key) of a session, and whether the aggregate signature verifies *)
Definition session_parities (parts : list (Z * (Z * Z))) (msg root : bytes) : result (Z * Z * Z * bool) :=
  pts <- mapM (fun p => pubkey toy (fst p)) parts ;;
  ms <- musig_init toy toy_sha pts ;;
  '(sums, r) <- musig_session_r toy toy_sha ms parts msg ;;
  ext <- musig_external toy toy_sha ms root ;;
  a <- parity (ms_point ms) ;; b <- parity r ;; c <- parity ext ;;
  sg <- musig_session toy toy_sha parts msg root ;;
  ok <- schnorr_verify toy toy_sha ext msg (fst sg) (snd sg) ;;
  Ok (a, b, c, ok).

(* all eight combinations of (aggregate parity, R parity, tweaked-key parity) occur with a merkle root,
   and both R parities for either aggregate parity without one; every session verifies *)
Lemma toy_parity_branches :
  map (fun '(d, m) => session_parities [(d, (5, 7)); (4, (2, 9)); (10, (1, 30))] [m; 2; 3] [7; 7])
      [(3, 3); (3, 1); (9, 6); (9, 1); (13, 3); (13, 1); (6, 1); (6, 2)]
  = [Ok (0, 0, 0, true); Ok (0, 1, 0, true); Ok (0, 0, 1, true); Ok (0, 1, 1, true);
     Ok (1, 0, 0, true); Ok (1, 1, 0, true); Ok (1, 0, 1, true); Ok (1, 1, 1, true)] /\
  map (fun '(d, m) => session_parities [(d, (5, 7)); (4, (2, 9)); (10, (1, 30))] [m; 2; 3] [])
      [(3, 3); (3, 1); (13, 3); (13, 1)]
  = [Ok (0, 0, 0, true); Ok (0, 1, 0, true); Ok (1, 0, 0, true); Ok (1, 1, 0, true)].
Proof. vm_compute. split; reflexivity. Qed.

(* ---- trees ---- *)
Definition tpub (d : Z) : point := match pubkey toy d with Ok p => p | Err => None end.
Definition toy_keys : list point := map tpub [3; 4; 10; 6].

Lemma toy_keys_nodup : NoDup (map xonly toy_keys).
Proof.
  vm_compute. repeat (constructor; [cbn [In]; intuition discriminate|]). constructor.
Qed.

Lemma toy_multi_leaf_tree : exists t, multi_leaf_tree toy toy_keys 2 NoLock = Ok t.
Proof. vm_compute. eexists. reflexivity. Qed.

(* MuSig leaves of different subsets need not differ: on the toy curve (15 x coordinates) the subsets
   {10, 6} and {4, 6}... of four keys with pairwise distinct x-only encodings aggregate to the same x-only key,
   so "one leaf per k-subset" holds positionally (musig_tree_leaves) but distinctness of the leaf scripts is
   a property of the hash and the curve size, not of the construction *)
Lemma toy_musig_tree : exists t, musig_tree toy toy_sha toy_keys 2 NoLock = Ok t /\
  length (leaves t) = 6%nat /\ ~ NoDup (leaves t).
Proof.
  vm_compute. eexists. split; [reflexivity|]. split; [reflexivity|].
  intros H. do 4 (apply NoDup_cons_iff in H as [_ H]). apply NoDup_cons_iff in H as [H _]. apply H. now left.
Qed.

Lemma toy_degrading_tree : exists t, degrading_multisig_tree toy toy_keys 2 1 144 = Ok t /\ length (leaves t) = 10%nat.
Proof. vm_compute. eexists. split; reflexivity. Qed.

(* ---- finalize_p2tr_multisig: three keys, threshold 2, signers 3 and 10, the signature of 10 with an
   explicit hash type byte; the signatures are handed over in an order unrelated to the keys ---- *)
Definition toy_k3 : list point := map tpub [3; 4; 10].
Definition toy_msg0 : bytes := repeat 5 32.
Definition toy_msg1 : bytes := repeat 9 32.
Definition toy_sighash (ht : Z) : result bytes :=
  if ht =? 0 then Ok toy_msg0 else if ht =? 1 then Ok toy_msg1 else Err.
Definition toy_sig (d : Z) (m : bytes) : bytes :=
  match schnorr_sign toy toy_sha d m (repeat 0 32) with Ok s => s | Err => [] end.
Definition toy_sigs : list bytes := [toy_sig 10 toy_msg1 ++ [1]; []; toy_sig 3 toy_msg0].
Definition toy_pts : list point := [Some (21, 18); Some (35, 22); Some (42, 36)].
Definition toy_st : tap_in := {| ti_items := [[1]; [192]]; ti_points := Some toy_pts |}.

Lemma toy_points : multisig_points toy toy_k3 = Ok toy_pts.
Proof. vm_compute. reflexivity. Qed.

(* the slots are in KEY order (x = 21: nobody, x = 35: signer 3, x = 42: signer 10), last key first *)
Lemma toy_finalize :
  finalize_p2tr_multisig toy toy_sha toy_sighash toy_st toy_sigs
  = Ok ([toy_sig 10 toy_msg1 ++ [1]; toy_sig 3 toy_msg0; []; [1]; [192]], true) /\
  finalize_p2tr_multisig toy toy_sha toy_sighash toy_st (rev toy_sigs)
  = finalize_p2tr_multisig toy toy_sha toy_sighash toy_st toy_sigs.
Proof. vm_compute. split; reflexivity. Qed.

Lemma toy_no_raise : forall P, In P toy_pts -> no_raise toy toy_sha toy_sighash P toy_sigs.
Proof.
  intros P HP sg Hsg Hne. cbn [In toy_pts toy_sigs] in HP, Hsg.
  destruct HP as [<-|[<-|[<-|[]]]]; destruct Hsg as [<-|[<-|[<-|[]]]]; try congruence; vm_compute; discriminate.
Qed.

Lemma toy_at_most_one : forall P, In P toy_pts -> at_most_one toy toy_sha toy_sighash P toy_sigs.
Proof.
  intros P HP s1 s2 H1 H2 N1 N2 V1 V2. cbn [In toy_pts toy_sigs] in HP, H1, H2.
  destruct HP as [<-|[<-|[<-|[]]]]; destruct H1 as [<-|[<-|[<-|[]]]]; destruct H2 as [<-|[<-|[<-|[]]]];
    try congruence; try reflexivity; exfalso; vm_compute in V1; vm_compute in V2; discriminate.
Qed.

(* a wrong length raises and leaves the slots inserted so far behind *)
Lemma toy_finalize_raise :
  finalize_p2tr_multisig toy toy_sha toy_sighash toy_st [toy_sig 4 toy_msg0; [1; 2; 3]]
  = Ok ([toy_sig 4 toy_msg0; [1]; [192]], false).
Proof. vm_compute. reflexivity. Qed.

(* the 2-of-3 leaf accepts the assembled witness (instance of finalize_spend_iff) *)
Lemma toy_spend_accepted ripemd160 sha1 hash160 hash256 c w r a :
  exists cs slots fuel,
    multisig_cmds toy NoLock toy_k3 2 = Ok cs /\
    slots = [[]; toy_sig 3 toy_msg0; toy_sig 10 toy_msg1 ++ [1]] /\
    vloop toy ripemd160 sha1 toy_sha hash160 hash256 (the_tap_sigops toy toy_sha toy_sighash) c w fuel cs
      (slots ++ r) a (fl_off true) = OTrue.
Proof.
  destruct (multisig_cmds toy NoLock toy_k3 2) as [cs|] eqn:Ecs; [|vm_compute in Ecs; discriminate].
  destruct toy_finalize as [Hfin _].
  assert (Hform : sigs_defined_ht toy_sigs).
  { unfold sigs_defined_ht, toy_sigs. repeat constructor; intros H; vm_compute in H; try discriminate H;
      vm_compute; reflexivity. }
  destruct (finalize_spend_iff toy toy_sha toy_sighash (the_tap_sigops toy toy_sha toy_sighash)
              (the_tap_sigops_ok toy toy_sha toy_sighash) ripemd160 sha1 hash160 hash256 c w
              toy_k3 2 cs toy_pts [1] [192] toy_sigs _ r a ltac:(cbn; lia) ltac:(lia) Ecs toy_points Hfin Hform)
    as (slots & _ & _ & Hrev & _ & _ & Hiff).
  assert (Hs : slots = [[]; toy_sig 3 toy_msg0; toy_sig 10 toy_msg1 ++ [1]]).
  { rewrite <- Hrev. reflexivity. }
  destruct Hiff as [_ Hacc]. destruct Hacc as [fuel Hv]; [vm_compute; reflexivity|].
  exists cs, slots, fuel. split; [reflexivity|]. split; [exact Hs | exact Hv].
Qed.
