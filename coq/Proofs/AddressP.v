(* Proofs/AddressP.v — WIF round trip; segwit scriptPubKey <-> address. *)
From V Require Import Base.Prelude Base.Ints Base.Lfsr Model.Helper Model.Script Model.Base58
  Model.Bech32 Model.Address
  Proofs.Base58P Proofs.PolymodP Proofs.Bech32Sweep Proofs.Bech32DetectP Proofs.Bech32P.

Lemma int_to_be_ok2 n len : 0 <= n < pow256 len -> int_to_be n len = Ok (to_be len n).
Proof.
  intros H. unfold int_to_be, to_be.
  destruct (0 <=? n) eqn:E1; destruct (n <? pow256 len) eqn:E2; cbn; try reflexivity; lia.
Qed.

Lemma secp_n_lt : secp_n < pow256 32.
Proof. vm_compute. reflexivity. Qed.

Lemma privkey_ok_iff s : privkey_ok s = true <-> 1 <= s < secp_n.
Proof. unfold privkey_ok. rewrite andb_true_iff, Z.leb_le, Z.leb_le. lia. Qed.

Section WithHash.
Variable hash256 : bytes -> bytes.
Hypothesis hash_len : forall x, length (hash256 x) = 32%nat.
Hypothesis hash_ok : forall x, bytes_ok (hash256 x).

Theorem wif_range secret mainnet compressed :
  ~ (1 <= secret < secp_n) -> wif_encode hash256 secret mainnet compressed = Err.
Proof.
  intros H. unfold wif_encode. destruct (privkey_ok secret) eqn:E; [|reflexivity].
  apply privkey_ok_iff in E. contradiction.
Qed.

Theorem wif_roundtrip secret mainnet compressed : 1 <= secret < secp_n ->
  exists w, wif_encode hash256 secret mainnet compressed = Ok w /\
            wif_parse hash256 w = Ok (secret, mainnet, compressed).
Proof.
  intros HS. pose proof secp_n_lt as HN.
  assert (PK : privkey_ok secret = true) by (apply privkey_ok_iff; exact HS).
  assert (HB : 0 <= secret < pow256 32) by lia.
  unfold wif_encode. rewrite PK, (int_to_be_ok2 secret 32 HB). cbn [bind].
  set (sb := to_be 32 secret).
  assert (Lsb : length sb = 32%nat) by apply to_be_length.
  assert (Osb : bytes_ok sb) by apply to_be_ok.
  assert (Fsb : from_be sb = secret) by (apply from_be_to_be; exact HB).
  set (p := if mainnet then 128 else 239).
  set (suffix := if compressed then [1] else []).
  assert (HBraw : bytes_ok (p :: sb ++ suffix)).
  { constructor; [unfold p, byte_ok; destruct mainnet; lia|]. apply bytes_ok_app. split; [exact Osb|].
    unfold suffix. destruct compressed; repeat constructor; unfold byte_ok; lia. }
  destruct (base58check_roundtrip hash256 hash_len hash_ok _ HBraw) as [w [E1 [_ E2]]].
  exists w. split; [exact E1|]. unfold wif_parse. rewrite E2. cbn [bind].
  assert (Hp : (if p =? 239 then Ok false else if p =? 128 then Ok true else Err) = Ok mainnet)
    by (unfold p; destruct mainnet; reflexivity).
  unfold suffix. destruct compressed.
  - assert (L : length (p :: sb ++ [1]) = 34%nat) by (cbn [length]; rewrite app_length, Lsb; reflexivity).
    rewrite L. change (34 =? 34)%nat with true. cbn iota.
    assert (N : nth 33 (p :: sb ++ [1]) 0 = 1).
    { cbn [nth]. rewrite app_nth2 by lia. rewrite Lsb. reflexivity. }
    rewrite N. change (1 =? 1) with true. cbn iota. cbn [bind].
    assert (F : firstn 33 (p :: sb ++ [1]) = p :: sb).
    { change 33%nat with (S 32). rewrite firstn_cons, firstn_app, Lsb.
      replace (32 - 32)%nat with 0%nat by lia.
      rewrite firstn_all2 by lia. cbn [firstn]. now rewrite app_nil_r. }
    rewrite F. cbn [skipn]. rewrite Fsb, Hp. cbn [bind]. now rewrite PK.
  - rewrite app_nil_r.
    assert (L : length (p :: sb) = 33%nat) by (cbn [length]; now rewrite Lsb).
    rewrite L. change (33 =? 34)%nat with false. change (33 =? 33)%nat with true. cbn iota. cbn [bind skipn].
    rewrite Fsb, Hp. cbn [bind]. now rewrite PK.
Qed.

(* ---------- segwit templates ---------- *)

(* the three native segwit templates: 2 = P2WPKH, 3 = P2WSH, 4 = P2TR *)
Definition seg_version (t : Z) : Z := if t =? 4 then 1 else 0.
Definition seg_script (t : Z) (h : bytes) : list cmd :=
  if t =? 2 then p2wpkh_script h else if t =? 3 then p2wsh_script h else p2tr_script h.
Definition seg_template (t : Z) (h : bytes) : Prop :=
  bytes_ok h /\ ((t = 2 /\ length h = 20%nat) \/ ((t = 3 \/ t = 4) /\ length h = 32%nat)).

Lemma ser_two o h : 0 <= o <= 255 -> zlen h <= 75 ->
  ser_cmds [Op o; Push h] = Ok (o :: zlen h :: h).
Proof.
  intros Ho HL. cbn [ser_cmds]. unfold ser_cmd.
  destruct (o <? 0) eqn:E1; [lia|]. destruct (255 <? o) eqn:E2; [lia|]. cbn [orb bind].
  destruct (zlen h <=? 75) eqn:E3; [|lia]. cbn [bind app]. now rewrite app_nil_r.
Qed.

Lemma seg_raw_serialize t h : seg_template t h ->
  raw_serialize (mk_script (seg_script t h)) = Ok (witness_program (seg_version t) h).
Proof.
  intros [HB HT]. unfold raw_serialize, mk_script. cbn [s_raw s_cmds].
  assert (HL : zlen h <= 75) by (unfold zlen; destruct HT as [[_ ->]|[_ ->]]; lia).
  destruct HT as [[-> _]|[[-> | ->] _]].
  - exact (ser_two 0 h ltac:(lia) HL).
  - exact (ser_two 0 h ltac:(lia) HL).
  - exact (ser_two 81 h ltac:(lia) HL).
Qed.


(* length of the data part for 20- and 32-byte programs *)
Lemma group_len h g : bytes_ok h -> group_32 h = Ok g ->
  (length h = 20%nat -> length g = 32%nat) /\ (length h = 32%nat -> length g = 52%nat).
Proof.
  intros HB EG. destruct (group_32_spec h HB) as [g' [EG' [_ [_ SP]]]].
  rewrite EG in EG'. injection EG' as <-.
  split; intros HL; (destruct SP as [p [Hp [SL _]]]; [intros ->; discriminate|]);
    unfold zlen in SL; rewrite HL in SL; lia.
Qed.

Ltac a2s_case LT DEC HLh :=
  cbn [app hrp_bc hrp_tb hrp_bcrt] in DEC;
  cbn -[decode_bech32 raw_decode_base58 Nat.eqb length];
  rewrite ?DEC;
  cbn -[decode_bech32 raw_decode_base58 length Nat.eqb]; rewrite ?HLh; reflexivity.

(* P2WPKH / P2WSH / P2TR: script -> address -> script, on the four networks *)
Theorem segwit_address_roundtrip t h net :
  seg_template t h -> 0 <= net <= 3 ->
  exists a, segwit_address (seg_script t h) net = Ok a /\
            decode_bech32 a = Ok (net_back net, seg_version t, h) /\
            address_to_script_pubkey hash256 a = Ok (seg_script t h) /\
            to_address_spk hash256 a = Ok (seg_script t h).
Proof.
  intros HT Hnet. pose proof HT as [HB HT'].
  assert (HV : 0 <= seg_version t <= 16) by (unfold seg_version; destruct (t =? 4); lia).
  assert (HL : (2 <= length h <= 40)%nat) by (destruct HT' as [[_ ->]|[_ ->]]; lia).
  destruct (encode_segwit_shape net (seg_version t) h HV HB HL Hnet)
    as [hrp [g [chk [EP [HK [EG [FA [LC [EE _]]]]]]]]].
  destruct (segwit_roundtrip net (seg_version t) h HV HB HL Hnet) as [a [EA DEC]].
  rewrite EE in EA. injection EA as <-.
  destruct (group_len h g HB EG) as [G20 G32].
  unfold segwit_address. rewrite (seg_raw_serialize t h HT). cbn [bind].
  eexists. split; [exact EE|]. split; [exact DEC|].
  remember (map b32c (g ++ chk)) as tail eqn:ET.
  assert (LT : length tail = (length g + 6)%nat) by (subst tail; rewrite map_length, app_length, LC; lia).
  cbn [map app] in DEC |- *. rewrite <- ET.
  destruct HT' as [[-> H20]|[[-> | ->] H32]].
  - (* P2WPKH *)
    rename H20 into HLh.
    rewrite (G20 HLh) in LT. cbn [Nat.add] in LT.
    change (b32c (seg_version 2)) with 113 in *. change (seg_version 2) with 0 in *.
    change (seg_script 2 h) with (p2wpkh_script h).
    destruct HK as [-> | [-> | ->]]; split.
    + unfold address_to_script_pubkey. a2s_case LT DEC HLh.
    + unfold to_address_spk. a2s_case LT DEC HLh.
    + unfold address_to_script_pubkey. a2s_case LT DEC HLh.
    + unfold to_address_spk. a2s_case LT DEC HLh.
    + unfold address_to_script_pubkey. a2s_case LT DEC HLh.
    + unfold to_address_spk. a2s_case LT DEC HLh.
  - (* P2WSH *)
    rename H32 into HLh.
    rewrite (G32 HLh) in LT. cbn [Nat.add] in LT.
    change (b32c (seg_version 3)) with 113 in *. change (seg_version 3) with 0 in *.
    change (seg_script 3 h) with (p2wsh_script h).
    destruct HK as [-> | [-> | ->]]; split.
    + unfold address_to_script_pubkey. a2s_case LT DEC HLh.
    + unfold to_address_spk. a2s_case LT DEC HLh.
    + unfold address_to_script_pubkey. a2s_case LT DEC HLh.
    + unfold to_address_spk. a2s_case LT DEC HLh.
    + unfold address_to_script_pubkey. a2s_case LT DEC HLh.
    + unfold to_address_spk. a2s_case LT DEC HLh.
  - (* P2TR *)
    rename H32 into HLh.
    rewrite (G32 HLh) in LT. cbn [Nat.add] in LT.
    change (b32c (seg_version 4)) with 112 in *. change (seg_version 4) with 1 in *.
    change (seg_script 4 h) with (p2tr_script h).
    destruct HK as [-> | [-> | ->]]; split.
    + unfold address_to_script_pubkey. a2s_case LT DEC HLh.
    + unfold to_address_spk. a2s_case LT DEC HLh.
    + unfold address_to_script_pubkey. a2s_case LT DEC HLh.
    + unfold to_address_spk. a2s_case LT DEC HLh.
    + unfold address_to_script_pubkey. a2s_case LT DEC HLh.
    + unfold to_address_spk. a2s_case LT DEC HLh.
Qed.


(* ---------- P2PKH / P2SH: leading character of the Base58Check text ---------- *)

Lemma horner_val B r : forall a, horner B r a = a * B ^ Z.of_nat (length r) + val B r.
Proof.
  induction r as [|x r IH]; intros a.
  - cbn. lia.
  - change (horner B (x :: r) a) with (horner B r (B * a + x)).
    change (val B (x :: r)) with (horner B r (B * 0 + x)).
    rewrite (IH (B * a + x)), (IH (B * 0 + x)). cbn [length].
    rewrite Nat2Z.inj_succ, Z.pow_succ_r by lia. ring.
Qed.

(* the leading digit of a canonical expansion whose value lies in [58^k, 58^(k+1)) *)
Lemma first_digit dg r k :
  canonical 58 (dg :: r) -> 58 ^ Z.of_nat k <= val 58 (dg :: r) < 58 ^ Z.of_nat (S k) ->
  length r = k /\ dg * 58 ^ Z.of_nat k <= val 58 (dg :: r) < (dg + 1) * 58 ^ Z.of_nat k.
Proof.
  intros HC HB. pose proof (val_lower 58 dg r ltac:(lia) HC) as L.
  pose proof (val_upper 58 (dg :: r) ltac:(lia) (proj1 HC)) as U. cbn [length] in U.
  assert (Z.of_nat (length r) < Z.of_nat (S k)) by (apply (Z.pow_lt_mono_r_iff 58); lia).
  assert (Z.of_nat k < Z.of_nat (S (length r))) by (apply (Z.pow_lt_mono_r_iff 58); lia).
  assert (E : length r = k) by lia. split; [exact E|].
  change (val 58 (dg :: r)) with (horner 58 r (58 * 0 + dg)). rewrite horner_val, E.
  destruct HC as [HF _]. inversion HF as [|? ? _ HF']; subst.
  pose proof (val_upper 58 r ltac:(lia) HF'). lia.
Qed.

Definition P24 : Z := 256 ^ 24.

(* Base58Check text of a 21-byte payload ver :: h (25 bytes with the checksum), ver <> 0 *)
Lemma b58_first_char ver h t :
  0 < ver < 256 -> bytes_ok h -> length h = 20%nat ->
  encode_base58_checksum hash256 (ver :: h) = Ok t ->
  exists dg r, t = b58_char dg :: map b58_char r /\ 0 <= dg < 58 /\
    (forall k, 58 ^ Z.of_nat k <= ver * P24 -> (ver + 1) * P24 <= 58 ^ Z.of_nat (S k) ->
     dg * 58 ^ Z.of_nat k < (ver + 1) * P24 /\ ver * P24 < (dg + 1) * 58 ^ Z.of_nat k).
Proof.
  intros Hv HB HL E. unfold encode_base58_checksum in E.
  set (c := firstn 4 (hash256 (ver :: h))) in *.
  assert (Lc : length c = 4%nat) by (unfold c; rewrite firstn_length, hash_len; reflexivity).
  assert (HBs : bytes_ok ((ver :: h) ++ c)).
  { apply bytes_ok_app. split; [constructor; [unfold byte_ok; lia|exact HB]|apply bytes_ok_firstn, hash_ok]. }
  assert (HNe : (ver :: h) ++ c <> []) by (cbn [app]; discriminate).
  destruct (encode_base58_spec _ HNe HBs) as [pre [E1 [C EV]]].
  rewrite E1 in E. injection E as <-.
  cbn [app count_lz]. destruct (ver =? 0) eqn:E0; [lia|]. cbn [repeatz app].
  (* the value *)
  rewrite from_be_val in EV. cbn [app] in EV.
  change (val 256 (ver :: h ++ c)) with (horner 256 (h ++ c) (256 * 0 + ver)) in EV.
  rewrite horner_val in EV. rewrite app_length, HL, Lc in EV. change (Z.of_nat (20 + 4)) with 24 in EV.
  assert (HBr : bytes_ok (h ++ c)) by (apply bytes_ok_app; split; [exact HB|apply bytes_ok_firstn, hash_ok]).
  pose proof (val_upper 256 (h ++ c) ltac:(lia) HBr) as UR.
  rewrite app_length, HL, Lc in UR. change (Z.of_nat (20 + 4)) with 24 in UR. fold P24 in EV, UR.
  destruct pre as [|dg r].
  { exfalso. change (val 58 []) with 0 in EV. assert (0 < P24) by (unfold P24; lia). nia. }
  exists dg, r. destruct C as [CF CN]. inversion CF as [|? ? Hd _]; subst. unfold digit in Hd.
  split; [reflexivity|]. split; [exact Hd|].
  intros k K1 K2.
  destruct (first_digit dg r k (conj CF CN) ltac:(rewrite EV; split; lia)) as [_ FD].
  rewrite EV in FD. lia.
Qed.

(* base58 templates: the address payload is version byte :: hash, and decode_base58 gives the
   hash back (the first-character dispatch of address_to_script_pubkey is not covered here) *)
Theorem base58_address_payload t h net : (t = 0 \/ t = 1) -> bytes_ok h ->
  exists a, (if t =? 0 then p2pkh_address hash256 h net else p2sh_address hash256 h net) = Ok a /\
            Forall (fun c => In c b58_alphabet) a /\
            decode_base58 hash256 a = Ok h.
Proof.
  intros Ht HB.
  set (ver := if t =? 0 then (if net =? 0 then 0 else 111) else (if net =? 0 then 5 else 196)).
  assert (HBr : bytes_ok (ver :: h)).
  { constructor; [|exact HB]. unfold ver, byte_ok. destruct (t =? 0), (net =? 0); lia. }
  destruct (base58check_roundtrip hash256 hash_len hash_ok _ HBr) as [a [E1 [E2 E3]]].
  exists a. split; [|split; [exact E2|]].
  - unfold p2pkh_address, p2sh_address, ver in *. destruct Ht as [-> | ->]; exact E1.
  - unfold decode_base58. rewrite E3. reflexivity.
Qed.

Lemma b58_zero_first h t :
  encode_base58_checksum hash256 (0 :: h) = Ok t -> bytes_ok h -> exists rest, t = 49 :: rest.
Proof.
  intros E HB. unfold encode_base58_checksum in E.
  assert (HBs : bytes_ok ((0 :: h) ++ firstn 4 (hash256 (0 :: h)))).
  { apply bytes_ok_app. split; [constructor; [unfold byte_ok; lia|exact HB]|apply bytes_ok_firstn, hash_ok]. }
  assert (HNe : (0 :: h) ++ firstn 4 (hash256 (0 :: h)) <> []) by (cbn [app]; discriminate).
  destruct (encode_base58_spec _ HNe HBs) as [pre [E1 _]].
  rewrite E1 in E. injection E as <-. cbn [app count_lz]. change (0 =? 0) with true. cbn iota.
  cbn [repeatz app]. eauto.
Qed.

Definition b58_script (t : Z) (h : bytes) : list cmd :=
  if t =? 0 then p2pkh_script h else p2sh_script h.

Lemma enc_raw_decode raw a : bytes_ok raw ->
  encode_base58_checksum hash256 raw = Ok a -> raw_decode_base58 hash256 a = Ok raw.
Proof.
  intros HB E. destruct (base58check_roundtrip hash256 hash_len hash_ok raw HB) as [s [E1 [_ E2]]].
  rewrite E in E1. injection E1 as <-. exact E2.
Qed.

Ltac b58_case RAW HLh :=
  cbn -[raw_decode_base58 decode_bech32 length Nat.eqb b58_raw_bad]; rewrite ?RAW;
  cbn [bind]; unfold b58_raw_bad; cbn [length nth skipn]; rewrite ?HLh; reflexivity.

(* P2PKH (t = 0) and P2SH (t = 1), 20-byte hash: script -> address -> script through both
   address_to_script_pubkey and TxOut.to_address, on every network (mainnet versions
   0x00 / 0x05 give '1' / '3', all other networks 0x6f / 0xc4 give 'm' or 'n' / '2') *)
Theorem base58_address_roundtrip t h net :
  (t = 0 \/ t = 1) -> bytes_ok h -> length h = 20%nat ->
  exists a, (if t =? 0 then p2pkh_address hash256 h net else p2sh_address hash256 h net) = Ok a /\
            address_to_script_pubkey hash256 a = Ok (b58_script t h) /\
            to_address_spk hash256 a = Ok (b58_script t h).
Proof.
  intros Ht HB HL.
  destruct (base58_address_payload t h net Ht HB) as [a [EA [_ _]]].
  exists a. split; [exact EA|].
  assert (RAWOF : forall v, 0 <= v < 256 -> encode_base58_checksum hash256 (v :: h) = Ok a ->
                            raw_decode_base58 hash256 a = Ok (v :: h)).
  { intros v Hv E. apply enc_raw_decode; [constructor; [exact Hv|exact HB]|exact E]. }
  assert (K33 : 58 ^ Z.of_nat 33 = 58 ^ 33) by reflexivity.
  assert (K34 : 58 ^ Z.of_nat 34 = 58 ^ 34) by reflexivity.
  assert (K35 : 58 ^ Z.of_nat 35 = 58 ^ 35) by reflexivity.
  unfold p2pkh_address, p2sh_address in EA.
  destruct Ht as [-> | ->]; change (0 =? 0) with true in *; change (1 =? 0) with false in *;
    cbv iota in EA; unfold b58_script; cbv iota beta;
    [change (0 =? 0) with true | change (1 =? 0) with false]; cbv iota;
    destruct (net =? 0).
  - (* P2PKH mainnet: '1' *)
    pose proof (RAWOF 0 ltac:(lia) EA) as DEC.
    destruct (b58_zero_first h a EA HB) as [rest ->].
    split; [unfold address_to_script_pubkey | unfold to_address_spk]; b58_case DEC HL.
  - (* P2PKH other: 'm' / 'n' *)
    pose proof (RAWOF 111 ltac:(lia) EA) as DEC.
    destruct (b58_first_char 111 h a ltac:(lia) HB HL EA) as [dg [r [-> [Hd HK]]]].
    destruct (HK 33%nat) as [B1 B2]; [rewrite K33; unfold P24; lia|rewrite K34; unfold P24; lia|].
    rewrite K33 in B1, B2. unfold P24 in B1, B2.
    assert (dg = 44 \/ dg = 45) as [-> | ->] by lia.
    + change (b58_char 44) with 109 in *.
      split; [unfold address_to_script_pubkey | unfold to_address_spk]; b58_case DEC HL.
    + change (b58_char 45) with 110 in *.
      split; [unfold address_to_script_pubkey | unfold to_address_spk]; b58_case DEC HL.
  - (* P2SH mainnet: '3' *)
    pose proof (RAWOF 5 ltac:(lia) EA) as DEC.
    destruct (b58_first_char 5 h a ltac:(lia) HB HL EA) as [dg [r [-> [Hd HK]]]].
    destruct (HK 33%nat) as [B1 B2]; [rewrite K33; unfold P24; lia|rewrite K34; unfold P24; lia|].
    rewrite K33 in B1, B2. unfold P24 in B1, B2.
    assert (dg = 2) as -> by lia. change (b58_char 2) with 51 in *.
    split; [unfold address_to_script_pubkey | unfold to_address_spk]; b58_case DEC HL.
  - (* P2SH other: '2' *)
    pose proof (RAWOF 196 ltac:(lia) EA) as DEC.
    destruct (b58_first_char 196 h a ltac:(lia) HB HL EA) as [dg [r [-> [Hd HK]]]].
    destruct (HK 34%nat) as [B1 B2]; [rewrite K34; unfold P24; lia|rewrite K35; unfold P24; lia|].
    rewrite K34 in B1, B2. unfold P24 in B1, B2.
    assert (dg = 1) as -> by lia. change (b58_char 1) with 50 in *.
    split; [unfold address_to_script_pubkey | unfold to_address_spk]; b58_case DEC HL.
Qed.

Definition b58_address (t : Z) (h : bytes) (net : Z) : result (list Z) :=
  if t =? 0 then p2pkh_address hash256 h net else p2sh_address hash256 h net.

(* per network, different P2PKH/P2SH scripts have different addresses *)
Theorem base58_address_injective t1 h1 t2 h2 net a :
  (t1 = 0 \/ t1 = 1) -> bytes_ok h1 -> length h1 = 20%nat ->
  (t2 = 0 \/ t2 = 1) -> bytes_ok h2 -> length h2 = 20%nat ->
  b58_address t1 h1 net = Ok a -> b58_address t2 h2 net = Ok a ->
  b58_script t1 h1 = b58_script t2 h2.
Proof.
  intros T1 B1 L1 T2 B2 L2 E1 E2.
  destruct (base58_address_roundtrip t1 h1 net T1 B1 L1) as [a1 [A1 [R1 _]]].
  destruct (base58_address_roundtrip t2 h2 net T2 B2 L2) as [a2 [A2 [R2 _]]].
  unfold b58_address in *. rewrite E1 in A1. rewrite E2 in A2.
  injection A1 as <-. injection A2 as <-. rewrite R1 in R2. now injection R2.
Qed.

End WithHash.
