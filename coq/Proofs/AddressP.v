(* Proofs/AddressP.v — WIF round trip; segwit scriptPubKey <-> address. *)
From V Require Import Base.Prelude Base.Ints Base.Lfsr Model.Helper Model.Script Model.Base58
  Model.Bech32 Model.Address
  Proofs.Base58P Proofs.PolymodP Proofs.Bech32Sweep Proofs.Bech32DetectP Proofs.Bech32P.

Lemma int_to_be_ok2 n len : 0 <= n < pow256 len -> int_to_be n len = Ok (to_be len n).
Proof.
  intros H. unfold int_to_be, to_be.
  destruct (0 <=? n) eqn:E1; destruct (n <? pow256 len) eqn:E2; cbn; try reflexivity; lia.
Qed.

Lemma secp_n_lt : secp_n < pow256 32.
Proof. vm_compute. reflexivity. Qed.

Lemma privkey_ok_iff s : privkey_ok s = true <-> 1 <= s < secp_n.
Proof. unfold privkey_ok. rewrite andb_true_iff, Z.leb_le, Z.leb_le. lia. Qed.

Section WithHash.
Variable hash256 : bytes -> bytes.
Hypothesis hash_len : forall x, length (hash256 x) = 32%nat.
Hypothesis hash_ok : forall x, bytes_ok (hash256 x).

Theorem wif_range secret mainnet compressed :
  ~ (1 <= secret < secp_n) -> wif_encode hash256 secret mainnet compressed = Err.
Proof.
  intros H. unfold wif_encode. destruct (privkey_ok secret) eqn:E; [|reflexivity].
  apply privkey_ok_iff in E. contradiction.
Qed.

Theorem wif_roundtrip secret mainnet compressed : 1 <= secret < secp_n ->
  exists w, wif_encode hash256 secret mainnet compressed = Ok w /\
            wif_parse hash256 w = Ok (secret, mainnet, compressed).
Proof.
  intros HS. pose proof secp_n_lt as HN.
  assert (PK : privkey_ok secret = true) by (apply privkey_ok_iff; exact HS).
  assert (HB : 0 <= secret < pow256 32) by lia.
  unfold wif_encode. rewrite PK, (int_to_be_ok2 secret 32 HB). cbn [bind].
  set (sb := to_be 32 secret).
  assert (Lsb : length sb = 32%nat) by apply to_be_length.
  assert (Osb : bytes_ok sb) by apply to_be_ok.
  assert (Fsb : from_be sb = secret) by (apply from_be_to_be; exact HB).
  set (p := if mainnet then 128 else 239).
  set (suffix := if compressed then [1] else []).
  assert (HBraw : bytes_ok (p :: sb ++ suffix)).
  { constructor; [unfold p, byte_ok; destruct mainnet; lia|]. apply bytes_ok_app. split; [exact Osb|].
    unfold suffix. destruct compressed; repeat constructor; unfold byte_ok; lia. }
  destruct (base58check_roundtrip hash256 hash_len hash_ok _ HBraw) as [w [E1 [_ E2]]].
  exists w. split; [exact E1|]. unfold wif_parse. rewrite E2. cbn [bind].
  assert (Hp : (if p =? 239 then Ok false else if p =? 128 then Ok true else Err) = Ok mainnet)
    by (unfold p; destruct mainnet; reflexivity).
  unfold suffix. destruct compressed.
  - assert (L : length (p :: sb ++ [1]) = 34%nat) by (cbn [length]; rewrite app_length, Lsb; reflexivity).
    rewrite L. change (34 =? 34)%nat with true. cbn iota.
    assert (N : nth 33 (p :: sb ++ [1]) 0 = 1).
    { cbn [nth]. rewrite app_nth2 by lia. rewrite Lsb. reflexivity. }
    rewrite N. change (1 =? 1) with true. cbn iota. cbn [bind].
    assert (F : firstn 33 (p :: sb ++ [1]) = p :: sb).
    { change 33%nat with (S 32). rewrite firstn_cons, firstn_app, Lsb.
      replace (32 - 32)%nat with 0%nat by lia.
      rewrite firstn_all2 by lia. cbn [firstn]. now rewrite app_nil_r. }
    rewrite F. cbn [skipn]. rewrite Fsb, Hp. cbn [bind]. now rewrite PK.
  - rewrite app_nil_r.
    assert (L : length (p :: sb) = 33%nat) by (cbn [length]; now rewrite Lsb).
    rewrite L. change (33 =? 34)%nat with false. cbn iota. cbn [bind skipn].
    rewrite Fsb, Hp. cbn [bind]. now rewrite PK.
Qed.

(* ---------- segwit templates ---------- *)

(* the three native segwit templates: 2 = P2WPKH, 3 = P2WSH, 4 = P2TR *)
Definition seg_version (t : Z) : Z := if t =? 4 then 1 else 0.
Definition seg_script (t : Z) (h : bytes) : list cmd :=
  if t =? 2 then p2wpkh_script h else if t =? 3 then p2wsh_script h else p2tr_script h.
Definition seg_template (t : Z) (h : bytes) : Prop :=
  bytes_ok h /\ ((t = 2 /\ length h = 20%nat) \/ ((t = 3 \/ t = 4) /\ length h = 32%nat)).

Lemma ser_two o h : 0 <= o <= 255 -> zlen h <= 75 ->
  ser_cmds [Op o; Push h] = Ok (o :: zlen h :: h).
Proof.
  intros Ho HL. cbn [ser_cmds]. unfold ser_cmd.
  destruct (o <? 0) eqn:E1; [lia|]. destruct (255 <? o) eqn:E2; [lia|]. cbn [orb bind].
  destruct (zlen h <=? 75) eqn:E3; [|lia]. cbn [bind app]. now rewrite app_nil_r.
Qed.

Lemma seg_raw_serialize t h : seg_template t h ->
  raw_serialize (mk_script (seg_script t h)) = Ok (witness_program (seg_version t) h).
Proof.
  intros [HB HT]. unfold raw_serialize, mk_script. cbn [s_raw s_cmds].
  assert (HL : zlen h <= 75) by (unfold zlen; destruct HT as [[_ ->]|[_ ->]]; lia).
  destruct HT as [[-> _]|[[-> | ->] _]].
  - exact (ser_two 0 h ltac:(lia) HL).
  - exact (ser_two 0 h ltac:(lia) HL).
  - exact (ser_two 81 h ltac:(lia) HL).
Qed.


(* length of the data part for 20- and 32-byte programs *)
Lemma group_len h g : bytes_ok h -> group_32 h = Ok g ->
  (length h = 20%nat -> length g = 32%nat) /\ (length h = 32%nat -> length g = 52%nat).
Proof.
  intros HB EG. destruct (group_32_spec h HB) as [g' [EG' [_ [_ SP]]]].
  rewrite EG in EG'. injection EG' as <-.
  split; intros HL; (destruct SP as [p [Hp [SL _]]]; [intros ->; discriminate|]);
    unfold zlen in SL; rewrite HL in SL; lia.
Qed.

Ltac a2s_case LT DEC HLh :=
  cbn [app hrp_bc hrp_tb hrp_bcrt] in DEC;
  cbn -[decode_bech32 decode_base58 Nat.eqb length];
  cbn [length]; rewrite ?LT;
  cbn -[decode_bech32 decode_base58]; rewrite ?DEC;
  cbn -[decode_bech32 decode_base58 length Nat.eqb]; rewrite ?HLh; reflexivity.

(* P2WPKH / P2WSH / P2TR: script -> address -> script, on the four networks *)
Theorem segwit_address_roundtrip t h net :
  seg_template t h -> 0 <= net <= 3 ->
  exists a, segwit_address (seg_script t h) net = Ok a /\
            decode_bech32 a = Ok (net_back net, seg_version t, h) /\
            address_to_script_pubkey hash256 a = Ok (seg_script t h) /\
            to_address_spk hash256 a = Ok (seg_script t h).
Proof.
  intros HT Hnet. pose proof HT as [HB HT'].
  assert (HV : 0 <= seg_version t <= 16) by (unfold seg_version; destruct (t =? 4); lia).
  assert (HL : (2 <= length h <= 40)%nat) by (destruct HT' as [[_ ->]|[_ ->]]; lia).
  destruct (encode_segwit_shape net (seg_version t) h HV HB HL Hnet)
    as [hrp [g [chk [EP [HK [EG [FA [LC [EE _]]]]]]]]].
  destruct (segwit_roundtrip net (seg_version t) h HV HB HL Hnet) as [a [EA DEC]].
  rewrite EE in EA. injection EA as <-.
  destruct (group_len h g HB EG) as [G20 G32].
  unfold segwit_address. rewrite (seg_raw_serialize t h HT). cbn [bind].
  eexists. split; [exact EE|]. split; [exact DEC|].
  remember (map b32c (g ++ chk)) as tail eqn:ET.
  assert (LT : length tail = (length g + 6)%nat) by (subst tail; rewrite map_length, app_length, LC; lia).
  cbn [map app] in DEC |- *. rewrite <- ET.
  destruct HT' as [[-> H20]|[[-> | ->] H32]].
  - (* P2WPKH *)
    rename H20 into HLh.
    rewrite (G20 HLh) in LT. cbn [Nat.add] in LT.
    change (b32c (seg_version 2)) with 113 in *. change (seg_version 2) with 0 in *.
    change (seg_script 2 h) with (p2wpkh_script h).
    destruct HK as [-> | [-> | ->]]; split.
    + unfold address_to_script_pubkey, len_in. a2s_case LT DEC HLh.
    + unfold to_address_spk. a2s_case LT DEC HLh.
    + unfold address_to_script_pubkey, len_in. a2s_case LT DEC HLh.
    + unfold to_address_spk. a2s_case LT DEC HLh.
    + unfold address_to_script_pubkey, len_in. a2s_case LT DEC HLh.
    + unfold to_address_spk. a2s_case LT DEC HLh.
  - (* P2WSH *)
    rename H32 into HLh.
    rewrite (G32 HLh) in LT. cbn [Nat.add] in LT.
    change (b32c (seg_version 3)) with 113 in *. change (seg_version 3) with 0 in *.
    change (seg_script 3 h) with (p2wsh_script h).
    destruct HK as [-> | [-> | ->]]; split.
    + unfold address_to_script_pubkey, len_in. a2s_case LT DEC HLh.
    + unfold to_address_spk. a2s_case LT DEC HLh.
    + unfold address_to_script_pubkey, len_in. a2s_case LT DEC HLh.
    + unfold to_address_spk. a2s_case LT DEC HLh.
    + unfold address_to_script_pubkey, len_in. a2s_case LT DEC HLh.
    + unfold to_address_spk. a2s_case LT DEC HLh.
  - (* P2TR *)
    rename H32 into HLh.
    rewrite (G32 HLh) in LT. cbn [Nat.add] in LT.
    change (b32c (seg_version 4)) with 112 in *. change (seg_version 4) with 1 in *.
    change (seg_script 4 h) with (p2tr_script h).
    destruct HK as [-> | [-> | ->]]; split.
    + unfold address_to_script_pubkey, len_in. a2s_case LT DEC HLh.
    + unfold to_address_spk. a2s_case LT DEC HLh.
    + unfold address_to_script_pubkey, len_in. a2s_case LT DEC HLh.
    + unfold to_address_spk. a2s_case LT DEC HLh.
    + unfold address_to_script_pubkey, len_in. a2s_case LT DEC HLh.
    + unfold to_address_spk. a2s_case LT DEC HLh.
Qed.

(* base58 templates: the address payload is version byte :: hash, and decode_base58 gives the
   hash back (the first-character dispatch of address_to_script_pubkey is not covered here) *)
Theorem base58_address_payload t h net : (t = 0 \/ t = 1) -> bytes_ok h ->
  exists a, (if t =? 0 then p2pkh_address hash256 h net else p2sh_address hash256 h net) = Ok a /\
            Forall (fun c => In c b58_alphabet) a /\
            decode_base58 hash256 a = Ok h.
Proof.
  intros Ht HB.
  set (ver := if t =? 0 then (if net =? 0 then 0 else 111) else (if net =? 0 then 5 else 196)).
  assert (HBr : bytes_ok (ver :: h)).
  { constructor; [|exact HB]. unfold ver, byte_ok. destruct (t =? 0), (net =? 0); lia. }
  destruct (base58check_roundtrip hash256 hash_len hash_ok _ HBr) as [a [E1 [E2 E3]]].
  exists a. split; [|split; [exact E2|]].
  - unfold p2pkh_address, p2sh_address, ver in *. destruct Ht as [-> | ->]; exact E1.
  - unfold decode_base58. rewrite E3. reflexivity.
Qed.

End WithHash.
