(* Proofs/TxStreamP.v — Tx.parse is position independent: the step back of seek(-5, 1) lands on
   the first byte of the object wherever the stream was positioned; objects in the middle of a
   stream; transactions back to back; parse_hex / clone / Script + Script / Script == (C04). *)
From V Require Import Base.Prelude Base.Ints Model.Helper Model.Script Model.Tx Model.Fetcher
  Model.TxStream Proofs.HelperP Proofs.ScriptP Proofs.TxP Proofs.TxidP.

(* ================= parse_legacy needs more than 5 bytes ================= *)
Lemma ins_loop_nil n acc : 0 < n -> ins_loop 0 n [] acc = Err.
Proof. intros H. cbn [ins_loop length]. destruct (n <=? 0) eqn:E; [lia|reflexivity]. Qed.

Lemma parse_legacy_short s : (length s <= 5)%nat -> parse_legacy s = Err.
Proof.
  intros H. unfold parse_legacy, read.
  destruct (skipn 4 s) as [|i r] eqn:E; [reflexivity|].
  assert (r = []) as ->.
  { assert (length (skipn 4 s) <= 1)%nat as L by (rewrite skipn_length; lia).
    rewrite E in L. cbn [length] in L. destruct r; [reflexivity|cbn [length] in L; lia]. }
  cbn [read_varint firstn skipn from_le].
  destruct (i =? 253); [reflexivity|]. destruct (i =? 254); [reflexivity|].
  destruct (i =? 255); [reflexivity|]. cbn [bind length].
  cbn [ins_loop]. destruct (i <=? 0); reflexivity.
Qed.

(* ================= the stream primitives ================= *)
Lemma st_rest_at pre s : st_rest (st_at pre s) = s.
Proof. unfold st_rest, st_at. cbn [st_pos st_data]. apply skipn_app_exact. reflexivity. Qed.

Lemma skipn_add {A} (l : list A) a b : skipn (a + b) l = skipn b (skipn a l).
Proof.
  revert l. induction a as [|a IH]; intros l; [reflexivity|].
  destruct l as [|x l]; cbn [Nat.add skipn]; [now rewrite skipn_nil|apply IH].
Qed.

(* Tx.parse on a stream at any position behaves as the forward-only function tx_parse of the
   remaining bytes: same result, same final position *)
Lemma tx_parse_st_run st : tx_parse_st st = st_run tx_parse st.
Proof.
  destruct st as [data pos]. unfold tx_parse_st, st_run, st_read, st_seek_cur, st_rest.
  cbn [st_data st_pos].
  remember (skipn pos data) as rest eqn:Er.
  assert (forall k, skipn (pos + k) data = skipn k rest) as Sk
    by (intros k; rewrite skipn_add; now subst).
  destruct (Nat.le_gt_cases 5 (length rest)) as [L|L].
  - (* at least five bytes left: the step back returns to the start *)
    destruct rest as [|a [|b [|c [|d [|e tl]]]]]; cbn [length] in L; try lia. clear L.
    replace (Nat.min 4 (length (a :: b :: c :: d :: e :: tl))) with 4%nat by (cbn [length]; lia).
    rewrite Sk. cbn [skipn firstn].
    replace (Nat.min 1 (length (e :: tl))) with 1%nat by (cbn [length]; lia).
    cbn [firstn].
    replace (Z.to_nat (Z.max 0 (Z.of_nat (pos + 4 + 1) + -5))) with pos by lia.
    rewrite <- Er. unfold tx_parse. cbn [nth_error beq]. rewrite andb_true_r.
    destruct e as [|p|p]; cbn [Z.eqb]; reflexivity.
  - (* fewer than five bytes: nothing is read as the marker, the legacy parser is started on at
       most five bytes and fails; so does tx_parse *)
    assert (tx_parse rest = Err) as T by (apply tx_parse_short; lia).
    rewrite T. cbn [bind]. rewrite Sk.
    assert (skipn (Nat.min 4 (length rest)) rest = []) as -> by (apply skipn_all2; lia).
    cbn [length]. rewrite Nat.min_0_r. cbn [firstn beq].
    rewrite parse_legacy_short; [reflexivity|].
    rewrite skipn_length.
    assert (length rest = length data - pos)%nat as Lr by (subst rest; apply skipn_length). lia.
Qed.

Lemma st_run_at {A} (p : bytes -> result (A * bytes)) pre s :
  st_run p (st_at pre s) =
  '(x, r) <- p s ;; Ok (x, {| st_data := pre ++ s; st_pos := (length pre + (length s - length r))%nat |}).
Proof. unfold st_run. rewrite st_rest_at. reflexivity. Qed.

(* a forward-only parser that reads b from b ++ rest and leaves rest, started in the middle of
   a stream, stops right behind b *)
Lemma st_run_mid {A} (p : bytes -> result (A * bytes)) pre b rest x :
  p (b ++ rest) = Ok (x, rest) ->
  st_run p (st_at pre (b ++ rest)) = Ok (x, st_at (pre ++ b) rest).
Proof.
  intros H. rewrite st_run_at, H. cbn [bind]. unfold st_at. do 3 f_equal.
  - now rewrite <- app_assoc.
  - rewrite !app_length. lia.
Qed.

Lemma tx_parse_at pre s :
  tx_parse_st (st_at pre s) =
  '(t, r) <- tx_parse s ;;
  Ok (t, {| st_data := pre ++ s; st_pos := (length pre + (length s - length r))%nat |}).
Proof. rewrite tx_parse_st_run. apply st_run_at. Qed.

(* ================= objects in the middle of a stream ================= *)
Lemma tx_mid_stream t :
  tx_wfb t = true -> t_segwit t = true \/ t_ins t <> [] ->
  exists b, tx_serialize t = Ok b /\
    forall pre rest, tx_parse_st (st_at pre (b ++ rest)) = Ok (canon_tx t, st_at (pre ++ b) rest).
Proof.
  intros W Z. destruct (tx_roundtrip t W Z) as [b [Hb Hp]]. exists b. split; [exact Hb|].
  intros pre rest. rewrite tx_parse_st_run. apply st_run_mid. apply Hp.
Qed.

Lemma tx_mid_stream_strict t :
  tx_strictb t = true -> t_segwit t = true \/ t_ins t <> [] ->
  exists b, tx_serialize t = Ok b /\
    forall pre rest, tx_parse_st (st_at pre (b ++ rest)) = Ok (t, st_at (pre ++ b) rest).
Proof.
  intros S Z. assert (tx_wfb t = true) as W by (unfold tx_strictb in S; split_andb; assumption).
  destruct (tx_mid_stream t W Z) as [b [Hb Hp]]. exists b. split; [exact Hb|].
  intros pre rest. rewrite Hp. now rewrite canon_tx_strict.
Qed.

(* the segwit parser and the legacy parser called directly (they never seek) *)
Lemma legacy_mid_stream t :
  tx_wfb t = true ->
  exists b, serialize_legacy t = Ok b /\
    forall pre rest,
      st_run parse_legacy (st_at pre (b ++ rest)) = Ok (strip_tx (canon_tx t), st_at (pre ++ b) rest).
Proof.
  intros W. destruct (legacy_roundtrip t W) as [b [Hb Hp]]. exists b. split; [exact Hb|].
  intros pre rest. apply st_run_mid, Hp.
Qed.

(* TxIn / TxOut / Script / ScriptPubKey / Witness / compact size / var-string: forward-only *)
Lemma parts_mid_stream :
  (forall i, txin_wfb i = true -> exists b, txin_serialize i = Ok b /\ forall pre rest,
     st_run txin_parse (st_at pre (b ++ rest)) = Ok (strip_in (canon_in i), st_at (pre ++ b) rest)) /\
  (forall o, txout_wfb o = true -> exists b, txout_serialize o = Ok b /\ forall pre rest,
     st_run txout_parse (st_at pre (b ++ rest)) = Ok (canon_out o, st_at (pre ++ b) rest)) /\
  (forall s, script_wfb s = true -> exists b, serialize_script s = Ok b /\ forall pre rest,
     st_run parse_script (st_at pre (b ++ rest)) = Ok (canon_script s, st_at (pre ++ b) rest) /\
     st_run parse_script_pubkey (st_at pre (b ++ rest)) = Ok (canon_script s, st_at (pre ++ b) rest)) /\
  (forall items, lenb items = true -> forallb (fun it => len63b it) items = true ->
     exists b, witness_serialize items = Ok b /\ forall pre rest,
     st_run witness_parse (st_at pre (b ++ rest)) = Ok (items, st_at (pre ++ b) rest)) /\
  (forall n, 0 <= n < 18446744073709551616 -> exists b, encode_varint n = Ok b /\ forall pre rest,
     st_run read_varint (st_at pre (b ++ rest)) = Ok (n, st_at (pre ++ b) rest)) /\
  (forall d, zlen d < 9223372036854775808 -> exists b, encode_varstr d = Ok b /\ forall pre rest,
     st_run read_varstr (st_at pre (b ++ rest)) = Ok (d, st_at (pre ++ b) rest)).
Proof.
  repeat split.
  - intros i W. destruct (txin_roundtrip i W) as [b [Hb [_ Hp]]]. exists b. split; [exact Hb|].
    intros pre rest. apply st_run_mid, Hp.
  - intros o W. destruct (txout_roundtrip o W) as [b [Hb [_ Hp]]]. exists b. split; [exact Hb|].
    intros pre rest. apply st_run_mid, Hp.
  - intros s W. destruct (script_wf_roundtrip s W) as [b [Hb [_ Hp]]]. exists b. split; [exact Hb|].
    intros pre rest. split; apply st_run_mid; [apply Hp|].
    unfold canon_script. apply parse_script_pubkey_exact. apply Hp.
  - intros items L F. destruct (witness_roundtrip items L F) as [b [Hb [_ Hp]]]. exists b.
    split; [exact Hb|]. intros pre rest. apply st_run_mid, Hp.
  - intros n R. destruct (varint_roundtrip n [] R) as [b [Hb _]]. exists b. split; [exact Hb|].
    intros pre rest. apply st_run_mid.
    destruct (varint_roundtrip n rest R) as [b' [Hb' Hr]]. rewrite Hb in Hb'. inversion Hb'; subst b'.
    exact Hr.
  - intros d L. destruct (varstr_roundtrip d [] L) as [b [Hb _]]. exists b. split; [exact Hb|].
    intros pre rest. apply st_run_mid.
    destruct (varstr_roundtrip d rest L) as [b' [Hb' Hr]]. rewrite Hb in Hb'. inversion Hb'; subst b'.
    exact Hr.
Qed.

(* ================= transactions back to back ================= *)
Definition tx_ok (t : tx) : Prop := tx_strictb t = true /\ (t_segwit t = true \/ t_ins t <> []).

Lemma tx_sequence ts : Forall tx_ok ts ->
  exists b, ser_txs ts = Ok b /\
    forall pre rest, tx_parse_seq (length ts) (st_at pre (b ++ rest)) = Ok (ts, st_at (pre ++ b) rest).
Proof.
  induction ts as [|t r IH]; intros F.
  - exists []. split; [reflexivity|]. intros pre rest. cbn. now rewrite app_nil_r.
  - inversion F as [|? ? [S Z] Fr]; subst. destruct (IH Fr) as [br [Hbr Hr]].
    destruct (tx_mid_stream_strict t S Z) as [b [Hb Hp]].
    exists (b ++ br). split; [cbn [ser_txs]; rewrite Hb, Hbr; reflexivity|].
    intros pre rest. cbn [length tx_parse_seq]. rewrite <- app_assoc, Hp. cbn [bind].
    rewrite Hr. cbn [bind]. now rewrite <- app_assoc.
Qed.

(* ================= parse_hex, clone ================= *)
Lemma hexdig_hexval x : 0 <= x < 16 -> hexval (hexdig x) = Some x /\ aspace (hexdig x) = false.
Proof.
  intros H.
  assert (x = 0 \/ x = 1 \/ x = 2 \/ x = 3 \/ x = 4 \/ x = 5 \/ x = 6 \/ x = 7 \/ x = 8 \/ x = 9 \/
          x = 10 \/ x = 11 \/ x = 12 \/ x = 13 \/ x = 14 \/ x = 15) as C by lia.
  repeat (destruct C as [->|C]; [split; reflexivity|]). subst x. split; reflexivity.
Qed.

Lemma fromhex_hexlify b : bytes_ok b -> fromhex (hexlify b) = Ok b.
Proof.
  induction 1 as [|x r Hx Hr IH]; [reflexivity|].
  unfold hexlify. cbn [flat_map app]. fold (hexlify r).
  unfold byte_ok in Hx.
  assert (0 <= x / 16 < 16) as H1 by (split; [apply Z.div_pos; lia|apply Z.div_lt_upper_bound; lia]).
  assert (0 <= x mod 16 < 16) as H2 by (apply Z.mod_pos_bound; lia).
  destruct (hexdig_hexval _ H1) as [V1 A1]. destruct (hexdig_hexval _ H2) as [V2 _].
  cbn [fromhex]. rewrite A1, V1, V2, IH. cbn [bind]. do 2 f_equal.
  rewrite (Z.div_mod x 16) at 3 by lia. lia.
Qed.

Lemma tx_clone_wf t :
  tx_wfb t = true -> t_segwit t = true \/ t_ins t <> [] -> tx_clone t = Ok (canon_tx t).
Proof.
  intros W Z. destruct (tx_roundtrip t W Z) as [b [Hb Hp]]. unfold tx_clone. rewrite Hb. cbn [bind].
  specialize (Hp []). rewrite app_nil_r in Hp. now rewrite Hp.
Qed.

Lemma tx_parse_hex_wf t b :
  tx_wfb t = true -> t_segwit t = true \/ t_ins t <> [] -> tx_serialize t = Ok b -> bytes_ok b ->
  tx_parse_hex (hexlify b) = Ok (canon_tx t).
Proof.
  intros W Z Hb Ok_b. destruct (tx_roundtrip t W Z) as [b' [Hb' Hp]]. rewrite Hb in Hb'. inversion Hb'; subst b'.
  unfold tx_parse_hex. rewrite fromhex_hexlify by exact Ok_b. cbn [bind].
  specialize (Hp []). rewrite app_nil_r in Hp. now rewrite Hp.
Qed.

(* ================= Script + Script, Script == ================= *)
Lemma ser_cmds_app a b :
  ser_cmds (a ++ b) = x <- ser_cmds a ;; y <- ser_cmds b ;; Ok (x ++ y).
Proof.
  induction a as [|c r IH]; cbn [app ser_cmds].
  - cbn [bind]. destruct (ser_cmds b); reflexivity.
  - destruct (ser_cmd c) as [x|]; cbn [bind]; [|reflexivity]. rewrite IH.
    destruct (ser_cmds r) as [y|]; cbn [bind]; [|reflexivity].
    destruct (ser_cmds b) as [z|]; cbn [bind]; [|reflexivity]. now rewrite app_assoc.
Qed.

Lemma script_add_serialize a b :
  raw_serialize (script_add a b) =
  x <- ser_cmds (s_cmds a) ;; y <- ser_cmds (s_cmds b) ;; Ok (x ++ y).
Proof. unfold script_add, raw_serialize. cbn [mk_script s_raw s_cmds]. apply ser_cmds_app. Qed.

Lemma cmds_wfb_app a b : cmds_wfb (a ++ b) = cmds_wfb a && cmds_wfb b.
Proof. unfold cmds_wfb. apply forallb_app. Qed.

Lemma canon_cmds_app a b : canon_cmds (a ++ b) = canon_cmds a ++ canon_cmds b.
Proof. unfold canon_cmds. apply map_app. Qed.

(* the concatenation of two serialised scripts parses to the concatenated commands *)
Lemma script_add_roundtrip a b :
  cmds_wfb (s_cmds a) = true -> cmds_wfb (s_cmds b) = true ->
  exists x y, ser_cmds (s_cmds a) = Ok x /\ ser_cmds (s_cmds b) = Ok y /\
    raw_serialize (script_add a b) = Ok (x ++ y) /\
    parse_raw (x ++ y) = Ok (mk_script (canon_cmds (s_cmds a) ++ canon_cmds (s_cmds b))).
Proof.
  intros Wa Wb.
  destruct (script_roundtrip (s_cmds a ++ s_cmds b)) as [z [Hz Hp]];
    [rewrite cmds_wfb_app, Wa, Wb; reflexivity|].
  rewrite ser_cmds_app in Hz.
  apply bind_ok in Hz as [x [Hx Hz]]. apply bind_ok in Hz as [y [Hy Hz]]. inversion Hz; subst z.
  exists x, y. split; [exact Hx|]. split; [exact Hy|]. split.
  - rewrite script_add_serialize, Hx, Hy. reflexivity.
  - rewrite Hp. now rewrite canon_cmds_app.
Qed.

Lemma cmd_eqb_eq x y : cmd_eqb x y = true <-> x = y.
Proof.
  destruct x as [a|a], y as [b|b]; cbn [cmd_eqb]; split; intros H; try discriminate.
  - apply Z.eqb_eq in H. now subst.
  - inversion H. apply Z.eqb_refl.
  - apply beq_eq in H. now subst.
  - inversion H. apply beq_refl.
Qed.

Lemma cmds_eqb_eq a b : cmds_eqb a b = true <-> a = b.
Proof.
  revert b. induction a as [|x a IH]; intros [|y b]; cbn [cmds_eqb]; split; intros H;
    try discriminate; try reflexivity.
  - apply andb_true_iff in H as [H1 H2]. apply cmd_eqb_eq in H1. apply IH in H2. now subst.
  - inversion H; subst. apply andb_true_iff. split; [now apply cmd_eqb_eq|now apply IH].
Qed.

(* Script ==: equal exactly when the command lists are equal; in particular a script parsed
   from the serialisation of strict commands == the original *)
Lemma script_eqb_spec a b : script_eqb a b = true <-> s_cmds a = s_cmds b.
Proof. unfold script_eqb. apply cmds_eqb_eq. Qed.

Lemma script_eq_roundtrip cs :
  cmds_wfb cs = true ->
  exists b sc, ser_cmds cs = Ok b /\ parse_raw b = Ok sc /\
    script_eqb sc (mk_script (canon_cmds cs)) = true /\
    (cmds_strictb cs = true -> script_eqb sc (mk_script cs) = true).
Proof.
  intros W. destruct (script_roundtrip cs W) as [b [Hb Hp]]. exists b, (mk_script (canon_cmds cs)).
  split; [exact Hb|]. split; [exact Hp|]. split; [now apply script_eqb_spec|].
  intros S. apply script_eqb_spec. cbn [mk_script s_cmds]. now apply canon_cmds_strict.
Qed.
