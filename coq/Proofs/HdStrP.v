(* Proofs/HdStrP.v — extended-key STRINGS survive parse exactly: the 78-byte round trip of
   Proofs/HdCodecP.v composed with the Base58Check round trip of Proofs/Base58P.v (C09). *)
From V Require Import Base.Prelude Base.Ints Model.Pecc Model.Base58 Model.Hd Model.HdStr
  Generated.HdVersions Proofs.GroupHyp Proofs.HdP Proofs.HdCodecP Proofs.Base58P.

Lemma known_xprv_bytes v : known_xprv v = true -> bytes_ok v.
Proof.
  unfold known_xprv, mem_bytes. intros H. apply orb_true_iff in H.
  assert (HA : forallb bytes_okb (all_testnet_xprvs ++ all_mainnet_xprvs) = true) by (vm_compute; reflexivity).
  rewrite forallb_forall in HA. apply bytes_okb_ok, HA, in_or_app.
  destruct H as [H|H]; apply existsb_exists in H as (w & Hw & E); apply beq_eq in E; subst; auto.
Qed.

Lemma known_xpub_bytes v : known_xpub v = true -> bytes_ok v.
Proof.
  unfold known_xpub, mem_bytes. intros H. apply orb_true_iff in H.
  assert (HA : forallb bytes_okb (all_testnet_xpubs ++ all_mainnet_xpubs) = true) by (vm_compute; reflexivity).
  rewrite forallb_forall in HA. apply bytes_okb_ok, HA, in_or_app.
  destruct H as [H|H]; apply existsb_exists in H as (w & Hw & E); apply beq_eq in E; subst; auto.
Qed.

Lemma sec_bytes_ok (P : Pecc.point) s : sec P true = Ok s -> bytes_ok s.
Proof.
  destruct P as [[x y]|]; [|discriminate]. unfold sec. intros H. injection H as <-.
  constructor; [unfold byte_ok; destruct (y mod 2 =? 1); lia | apply to_be_ok].
Qed.

Section Str.
Variable C : curve.
Variable hash256 : bytes -> bytes.
Hypothesis hash_len : forall x, length (hash256 x) = 32%nat.
Hypothesis hash_ok : forall x, bytes_ok (hash256 x).

Lemma xprv_str_roundtrip (k : hdpriv) ver s :
  cn C < pow256 32 -> 2 < cn C ->
  codec_ok_priv C k ver -> bytes_ok (sk_pfp k) -> bytes_ok (sk_cc k) ->
  xprv_str hash256 k (Some ver) = Ok s ->
  exists pv, tbl_get tbl_xpub (net_of_xprv ver) = Ok pv /\
  parse_priv_str C hash256 s =
    Ok {| sk := sk k; sk_pt := sk_pt k; sk_cc := sk_cc k; sk_depth := sk_depth k; sk_pfp := sk_pfp k;
          sk_num := sk_num k; sk_net := net_of_xprv ver; sk_ver := ver; sk_pubver := pv |}.
Proof.
  intros Hn1 Hn2 Hok Hbp Hbc Hs. unfold xprv_str in Hs. apply bind_ok in Hs as (raw & Hraw & Henc).
  unfold xprv_raw in Hraw.
  destruct (xprv_roundtrip C Hn1 Hn2 k ver raw Hok Hraw) as (_ & pv & Hpv & Hparse).
  exists pv. split; [exact Hpv|].
  assert (Hb : bytes_ok raw).
  { destruct Hok as (Hk & _). apply (ser_priv_inv C) in Hraw as (Hd & _ & _ & ->).
    rewrite !bytes_ok_app. repeat split; auto using known_xprv_bytes, to_be_ok.
    constructor; [unfold byte_ok; lia | constructor]. }
  destruct (base58check_roundtrip hash256 hash_len hash_ok raw Hb) as (s' & He & _ & Hdec).
  rewrite Henc in He. inversion He; subst s'.
  unfold parse_priv_str. rewrite Hdec. cbn [bind]. exact Hparse.
Qed.

Lemma xpub_str_roundtrip (k : hdpub) ver s :
  (forall P s, valid C P -> sec P true = Ok s -> parse_point C s = Ok P) ->
  codec_ok_pub C k ver -> bytes_ok (pk_pfp k) -> bytes_ok (pk_cc k) ->
  xpub_str hash256 k (Some ver) = Ok s ->
  parse_pub_str C hash256 s =
    Ok {| pk := pk k; pk_cc := pk_cc k; pk_depth := pk_depth k; pk_pfp := pk_pfp k;
          pk_num := pk_num k; pk_net := net_of_xpub ver; pk_ver := ver |}.
Proof.
  intros Hrt Hok Hbp Hbc Hs. unfold xpub_str in Hs. apply bind_ok in Hs as (raw & Hraw & Henc).
  unfold xpub_raw in Hraw.
  destruct (xpub_roundtrip C Hrt k ver raw Hok Hraw) as (_ & Hparse).
  assert (Hb : bytes_ok raw).
  { destruct Hok as (Hk & _). apply (ser_pub_inv C) in Hraw as (s0 & Hsec & Hd & _ & ->).
    rewrite !bytes_ok_app. repeat split; auto using known_xpub_bytes, to_be_ok.
    - constructor; [unfold byte_ok; lia | constructor].
    - eapply sec_bytes_ok; eauto. }
  destruct (base58check_roundtrip hash256 hash_len hash_ok raw Hb) as (s' & He & _ & Hdec).
  rewrite Henc in He. inversion He; subst s'.
  unfold parse_pub_str. rewrite Hdec. cbn [bind]. exact Hparse.
Qed.

(* the string of a key that serialises exists (Base58Check never fails on bytes) *)
Lemma xprv_str_exists (k : hdpriv) ver raw :
  ser_priv k ver = Ok raw -> bytes_ok raw -> exists s, xprv_str hash256 k (Some ver) = Ok s.
Proof.
  intros Hraw Hb. destruct (base58check_roundtrip hash256 hash_len hash_ok raw Hb) as (s & He & _).
  exists s. unfold xprv_str, xprv_raw. rewrite Hraw. exact He.
Qed.
End Str.
