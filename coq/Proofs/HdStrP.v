(* Proofs/HdStrP.v — extended-key STRINGS survive parse exactly: the 78-byte round trip of
   Proofs/HdCodecP.v composed with the Base58Check round trip of Proofs/Base58P.v (C09). *)
From V Require Import Base.Prelude Base.Ints Model.Pecc Model.Base58 Model.Hd Model.HdStr
  Generated.HdVersions Proofs.GroupHyp Proofs.PeccEnc Proofs.HdP Proofs.HdCodecP Proofs.Base58P Proofs.Base58ConvP.

Lemma known_xprv_bytes v : known_xprv v = true -> bytes_ok v.
Proof.
  unfold known_xprv, mem_bytes. intros H. apply orb_true_iff in H.
  assert (HA : forallb bytes_okb (all_testnet_xprvs ++ all_mainnet_xprvs) = true) by (vm_compute; reflexivity).
  rewrite forallb_forall in HA. apply bytes_okb_ok, HA, in_or_app.
  destruct H as [H|H]; apply existsb_exists in H as (w & Hw & E); apply beq_eq in E; subst; auto.
Qed.

Lemma known_xpub_bytes v : known_xpub v = true -> bytes_ok v.
Proof.
  unfold known_xpub, mem_bytes. intros H. apply orb_true_iff in H.
  assert (HA : forallb bytes_okb (all_testnet_xpubs ++ all_mainnet_xpubs) = true) by (vm_compute; reflexivity).
  rewrite forallb_forall in HA. apply bytes_okb_ok, HA, in_or_app.
  destruct H as [H|H]; apply existsb_exists in H as (w & Hw & E); apply beq_eq in E; subst; auto.
Qed.

Lemma sec_bytes_ok (P : Pecc.point) s : sec P true = Ok s -> bytes_ok s.
Proof.
  destruct P as [[x y]|]; [|discriminate]. unfold sec. intros H. injection H as <-.
  constructor; [unfold byte_ok; destruct (y mod 2 =? 1); lia | apply to_be_ok].
Qed.

Section Str.
Variable C : curve.
Variable hash256 : bytes -> bytes.
Hypothesis hash_len : forall x, length (hash256 x) = 32%nat.
Hypothesis hash_ok : forall x, bytes_ok (hash256 x).

Lemma xprv_str_roundtrip (k : hdpriv) ver s :
  cn C < pow256 32 -> 2 < cn C ->
  codec_ok_priv C k ver -> bytes_ok (sk_pfp k) -> bytes_ok (sk_cc k) ->
  xprv_str hash256 k (Some ver) = Ok s ->
  exists pv, tbl_get tbl_xpub (net_of_xprv ver) = Ok pv /\
  parse_priv_str C hash256 s =
    Ok {| sk := sk k; sk_pt := sk_pt k; sk_cc := sk_cc k; sk_depth := sk_depth k; sk_pfp := sk_pfp k;
          sk_num := sk_num k; sk_net := net_of_xprv ver; sk_ver := ver; sk_pubver := pv |}.
Proof.
  intros Hn1 Hn2 Hok Hbp Hbc Hs. unfold xprv_str in Hs. apply bind_ok in Hs as (raw & Hraw & Henc).
  unfold xprv_raw in Hraw.
  destruct (xprv_roundtrip C Hn1 Hn2 k ver raw Hok Hraw) as (_ & pv & Hpv & Hparse).
  exists pv. split; [exact Hpv|].
  assert (Hb : bytes_ok raw).
  { destruct Hok as (Hk & _). apply (ser_priv_inv C) in Hraw as (Hd & _ & _ & ->).
    rewrite !bytes_ok_app. repeat split; auto using known_xprv_bytes, to_be_ok.
    constructor; [unfold byte_ok; lia | constructor]. }
  destruct (base58check_roundtrip hash256 hash_len hash_ok raw Hb) as (s' & He & _ & Hdec).
  rewrite Henc in He. inversion He; subst s'.
  unfold parse_priv_str. rewrite Hdec. cbn [bind]. exact Hparse.
Qed.

Lemma xpub_str_roundtrip (k : hdpub) ver s :
  (forall P s, valid C P -> sec P true = Ok s -> parse_point C s = Ok P) ->
  codec_ok_pub C k ver -> bytes_ok (pk_pfp k) -> bytes_ok (pk_cc k) ->
  xpub_str hash256 k (Some ver) = Ok s ->
  parse_pub_str C hash256 s =
    Ok {| pk := pk k; pk_cc := pk_cc k; pk_depth := pk_depth k; pk_pfp := pk_pfp k;
          pk_num := pk_num k; pk_net := net_of_xpub ver; pk_ver := ver |}.
Proof.
  intros Hrt Hok Hbp Hbc Hs. unfold xpub_str in Hs. apply bind_ok in Hs as (raw & Hraw & Henc).
  unfold xpub_raw in Hraw.
  destruct (xpub_roundtrip C Hrt k ver raw Hok Hraw) as (_ & Hparse).
  assert (Hb : bytes_ok raw).
  { destruct Hok as (Hk & _). apply (ser_pub_inv C) in Hraw as (s0 & Hsec & Hd & _ & ->).
    rewrite !bytes_ok_app. repeat split; auto using known_xpub_bytes, to_be_ok.
    - constructor; [unfold byte_ok; lia | constructor].
    - eapply sec_bytes_ok; eauto. }
  destruct (base58check_roundtrip hash256 hash_len hash_ok raw Hb) as (s' & He & _ & Hdec).
  rewrite Henc in He. inversion He; subst s'.
  unfold parse_pub_str. rewrite Hdec. cbn [bind]. exact Hparse.
Qed.

(* the string of a key that serialises exists (Base58Check never fails on bytes) *)
Lemma xprv_str_exists (k : hdpriv) ver raw :
  ser_priv k ver = Ok raw -> bytes_ok raw -> exists s, xprv_str hash256 k (Some ver) = Ok s.
Proof.
  intros Hraw Hb. destruct (base58check_roundtrip hash256 hash_len hash_ok raw Hb) as (s & He & _).
  exists s. unfold xprv_str, xprv_raw. rewrite Hraw. exact He.
Qed.

(* version=None is the key's own version *)
Lemma xprv_str_default (k : hdpriv) : xprv_str hash256 k None = xprv_str hash256 k (Some (sk_ver k)).
Proof. reflexivity. Qed.
Lemma xpub_str_default (k : hdpub) : xpub_str hash256 k None = xpub_str hash256 k (Some (pk_ver k)).
Proof. reflexivity. Qed.

(* ---- rejection at the string level ----
   [raw ++ c] is what the Base58 digits carry: payload and four check bytes. *)

(* check bytes different from hash256(payload)[:4]: raw_decode_base58 raises *)
Lemma raw_decode_bad_checksum raw c s :
  bytes_ok raw -> bytes_ok c -> length c = 4%nat -> c <> firstn 4 (hash256 raw) ->
  encode_base58 (raw ++ c) = Ok s -> raw_decode_base58 hash256 s = Err.
Proof.
  intros Hr Hc Hl Hne He. unfold raw_decode_base58.
  rewrite (b58_to_bytes_encode _ _ (proj2 (bytes_ok_app raw c) (conj Hr Hc)) He). cbn [bind].
  destruct (split_last4 raw c Hl) as [-> ->].
  destruct (beq _ _) eqn:E; [|reflexivity]. apply beq_eq in E. congruence.
Qed.

Lemma xkey_str_bad_checksum raw c s :
  bytes_ok raw -> bytes_ok c -> length c = 4%nat -> c <> firstn 4 (hash256 raw) ->
  encode_base58 (raw ++ c) = Ok s ->
  parse_priv_str C hash256 s = Err /\ parse_pub_str C hash256 s = Err.
Proof.
  intros Hr Hc Hl Hne He. unfold parse_priv_str, parse_pub_str.
  rewrite (raw_decode_bad_checksum raw c s Hr Hc Hl Hne He). split; reflexivity.
Qed.

(* a correctly checksummed payload that is not 78 bytes long: "Not a proper extended key" *)
Lemma xkey_str_wrong_length b s :
  bytes_ok b -> length b <> 78%nat -> encode_base58_checksum hash256 b = Ok s ->
  parse_priv_str C hash256 s = Err /\ parse_pub_str C hash256 s = Err.
Proof.
  intros Hb Hl He.
  destruct (base58check_roundtrip hash256 hash_len hash_ok b Hb) as (s' & He' & _ & Hdec).
  rewrite He in He'. inversion He'; subst s'.
  unfold parse_priv_str, parse_pub_str. rewrite Hdec. cbn [bind]. unfold parse_priv, parse_pub.
  apply Nat.eqb_neq in Hl. rewrite Hl. split; reflexivity.
Qed.

(* the payload was altered and the check bytes of the original kept: refused, unless the two
   payloads collide on the first four bytes of hash256 *)
Lemma xkey_str_tamper raw raw' s' :
  bytes_ok raw -> bytes_ok raw' -> raw' <> raw ->
  encode_base58 (raw' ++ firstn 4 (hash256 raw)) = Ok s' ->
  (parse_priv_str C hash256 s' = Err /\ parse_pub_str C hash256 s' = Err) \/
  firstn 4 (hash256 raw') = firstn 4 (hash256 raw).
Proof.
  intros Hr Hr' Hne He.
  destruct (beq (firstn 4 (hash256 raw)) (firstn 4 (hash256 raw'))) eqn:E.
  - right. apply beq_eq in E. congruence.
  - left. apply (xkey_str_bad_checksum raw' (firstn 4 (hash256 raw)) s'); auto.
    + apply bytes_ok_firstn, hash_ok.
    + apply chk_len, hash_len.
    + intros Heq. rewrite Heq, beq_refl in E. discriminate.
Qed.
End Str.

(* ---- the statements of Props/C08.v ---- *)
Theorem xprv_string_roundtrip :
  forall C hash256,
  (forall x, length (hash256 x) = 32%nat) -> (forall x, bytes_ok (hash256 x)) ->
  cn C < pow256 32 -> 2 < cn C ->
  forall (k : hdpriv) ver s,
  known_xprv ver = true -> length (sk_pfp k) = 4%nat -> length (sk_cc k) = 32%nat ->
  bytes_ok (sk_pfp k) -> bytes_ok (sk_cc k) -> pubkey C (sk k) = Ok (sk_pt k) ->
  xprv_str hash256 k (Some ver) = Ok s ->
  exists pv, tbl_get tbl_xpub (net_of_xprv ver) = Ok pv /\
  parse_priv_str C hash256 s =
    Ok {| sk := sk k; sk_pt := sk_pt k; sk_cc := sk_cc k; sk_depth := sk_depth k; sk_pfp := sk_pfp k;
          sk_num := sk_num k; sk_net := net_of_xprv ver; sk_ver := ver; sk_pubver := pv |}.
Proof.
  intros C h Hl Ho Hn1 Hn2 k ver s A B D E F G.
  apply (xprv_str_roundtrip C h Hl Ho k ver s Hn1 Hn2); auto. repeat split; assumption.
Qed.

(* version=None: the key's own version bytes *)
Theorem xprv_string_roundtrip_default :
  forall C hash256,
  (forall x, length (hash256 x) = 32%nat) -> (forall x, bytes_ok (hash256 x)) ->
  cn C < pow256 32 -> 2 < cn C ->
  forall (k : hdpriv) s,
  known_xprv (sk_ver k) = true -> length (sk_pfp k) = 4%nat -> length (sk_cc k) = 32%nat ->
  bytes_ok (sk_pfp k) -> bytes_ok (sk_cc k) -> pubkey C (sk k) = Ok (sk_pt k) ->
  xprv_str hash256 k None = Ok s ->
  exists pv, tbl_get tbl_xpub (net_of_xprv (sk_ver k)) = Ok pv /\
  parse_priv_str C hash256 s =
    Ok {| sk := sk k; sk_pt := sk_pt k; sk_cc := sk_cc k; sk_depth := sk_depth k; sk_pfp := sk_pfp k;
          sk_num := sk_num k; sk_net := net_of_xprv (sk_ver k); sk_ver := sk_ver k; sk_pubver := pv |}.
Proof.
  intros C h Hl Ho Hn1 Hn2 k s. rewrite xprv_str_default.
  exact (xprv_string_roundtrip C h Hl Ho Hn1 Hn2 k (sk_ver k) s).
Qed.

Theorem xpub_string_roundtrip_enc :
  forall C hash256,
  (forall x, length (hash256 x) = 32%nat) -> (forall x, bytes_ok (hash256 x)) ->
  (forall P s, valid C P -> sec P true = Ok s -> parse_point C s = Ok P) ->
  forall (k : hdpub) ver s,
  known_xpub ver = true -> length (pk_pfp k) = 4%nat -> length (pk_cc k) = 32%nat ->
  bytes_ok (pk_pfp k) -> bytes_ok (pk_cc k) -> valid C (pk k) ->
  xpub_str hash256 k (Some ver) = Ok s ->
  parse_pub_str C hash256 s =
    Ok {| pk := pk k; pk_cc := pk_cc k; pk_depth := pk_depth k; pk_pfp := pk_pfp k;
          pk_num := pk_num k; pk_net := net_of_xpub ver; pk_ver := ver |}.
Proof.
  intros C h Hl Ho Hrt k ver s A B D E F G.
  apply (xpub_str_roundtrip C h Hl Ho k ver s Hrt); auto. repeat split; assumption.
Qed.

(* the encoding hypothesis discharged from Proofs/PeccEnc.v (C03) *)
Theorem xpub_string_roundtrip :
  forall C hash256,
  (forall x, length (hash256 x) = 32%nat) -> (forall x, bytes_ok (hash256 x)) ->
  scalar_laws C -> ca C = 0 -> cp C mod 4 = 3 -> cp C < pow256 32 ->
  forall (k : hdpub) ver s,
  known_xpub ver = true -> length (pk_pfp k) = 4%nat -> length (pk_cc k) = 32%nat ->
  bytes_ok (pk_pfp k) -> bytes_ok (pk_cc k) -> valid C (pk k) ->
  xpub_str hash256 k (Some ver) = Ok s ->
  parse_pub_str C hash256 s =
    Ok {| pk := pk k; pk_cc := pk_cc k; pk_depth := pk_depth k; pk_pfp := pk_pfp k;
          pk_num := pk_num k; pk_net := net_of_xpub ver; pk_ver := ver |}.
Proof.
  intros C h Hl Ho SL Ha H4 H256. apply (xpub_string_roundtrip_enc C h Hl Ho).
  intros [[x y]|] s Hv Hs; [|discriminate].
  exact (parse_point_sec C SL Ha H4 H256 x y true s Hv Hs).
Qed.

Theorem xpub_string_roundtrip_default :
  forall C hash256,
  (forall x, length (hash256 x) = 32%nat) -> (forall x, bytes_ok (hash256 x)) ->
  scalar_laws C -> ca C = 0 -> cp C mod 4 = 3 -> cp C < pow256 32 ->
  forall (k : hdpub) s,
  known_xpub (pk_ver k) = true -> length (pk_pfp k) = 4%nat -> length (pk_cc k) = 32%nat ->
  bytes_ok (pk_pfp k) -> bytes_ok (pk_cc k) -> valid C (pk k) ->
  xpub_str hash256 k None = Ok s ->
  parse_pub_str C hash256 s =
    Ok {| pk := pk k; pk_cc := pk_cc k; pk_depth := pk_depth k; pk_pfp := pk_pfp k;
          pk_num := pk_num k; pk_net := net_of_xpub (pk_ver k); pk_ver := pk_ver k |}.
Proof.
  intros C h Hl Ho SL Ha H4 H256 k s. rewrite xpub_str_default.
  exact (xpub_string_roundtrip C h Hl Ho SL Ha H4 H256 k (pk_ver k) s).
Qed.

(* the converse at STRING level: a string that parses is exactly what the parsed key prints
   (Base58 decoding is injective: Proofs/Base58ConvP.v) *)
Theorem xprv_string_parse_serialize :
  forall C hash256, (forall x, length (hash256 x) = 32%nat) ->
  forall s k, parse_priv_str C hash256 s = Ok k -> xprv_str hash256 k None = Ok s.
Proof.
  intros C h Hl s k H. unfold parse_priv_str in H. apply bind_ok in H as (raw & Hdec & Hp).
  destruct (raw_decode_base58_encode h s raw Hdec Hl) as [Hb He].
  unfold xprv_str. rewrite (xprv_parse_serialize C raw k Hb Hp). exact He.
Qed.

Theorem xpub_string_parse_serialize :
  forall C hash256, (forall x, length (hash256 x) = 32%nat) -> cp C mod 2 = 1 ->
  forall s k, parse_pub_str C hash256 s = Ok k -> xpub_str hash256 k None = Ok s.
Proof.
  intros C h Hl Hodd s k H. unfold parse_pub_str in H. apply bind_ok in H as (raw & Hdec & Hp).
  destruct (raw_decode_base58_encode h s raw Hdec Hl) as [Hb He].
  unfold xpub_str. rewrite (xpub_parse_serialize C Hodd raw k Hb Hp). exact He.
Qed.

(* malformed strings: wrong check bytes, wrong payload length, altered payload *)
Theorem xkey_string_rejects :
  forall C hash256,
  (forall x, length (hash256 x) = 32%nat) -> (forall x, bytes_ok (hash256 x)) ->
  (forall raw c s, bytes_ok raw -> bytes_ok c -> length c = 4%nat -> c <> firstn 4 (hash256 raw) ->
     encode_base58 (raw ++ c) = Ok s ->
     parse_priv_str C hash256 s = Err /\ parse_pub_str C hash256 s = Err) /\
  (forall b s, bytes_ok b -> length b <> 78%nat -> encode_base58_checksum hash256 b = Ok s ->
     parse_priv_str C hash256 s = Err /\ parse_pub_str C hash256 s = Err) /\
  (forall raw raw' s', bytes_ok raw -> bytes_ok raw' -> raw' <> raw ->
     encode_base58 (raw' ++ firstn 4 (hash256 raw)) = Ok s' ->
     (parse_priv_str C hash256 s' = Err /\ parse_pub_str C hash256 s' = Err) \/
     firstn 4 (hash256 raw') = firstn 4 (hash256 raw)) /\
  (forall s, ~ Forall (fun ch => In ch b58_alphabet) s ->
     parse_priv_str C hash256 s = Err /\ parse_pub_str C hash256 s = Err).
Proof.
  intros C h Hl Ho. split; [|split; [|split]].
  - intros raw c s. exact (xkey_str_bad_checksum C h raw c s).
  - intros b s. exact (xkey_str_wrong_length C h Hl Ho b s).
  - intros raw raw' s'. exact (xkey_str_tamper C h Hl Ho raw raw' s').
  - intros s Hs. unfold parse_priv_str, parse_pub_str, raw_decode_base58.
    destruct (b58_to_bytes s) as [c|] eqn:E; [|split; reflexivity].
    exfalso. apply Hs. apply b58_to_bytes_ok_iff. eauto.
Qed.
