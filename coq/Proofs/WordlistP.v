(* Proofs/WordlistP.v — facts about the shipped word lists (Generated/Wordlists.v),
   established by computation on the generated constants: boolean checker for wl_good,
   soundness, vm_compute. *)
From V Require Import Base.Prelude Base.Ints Model.Mnemonic Proofs.MnemonicP Generated.Wordlists.

Definition res_is (r : result Z) (i : Z) : bool :=
  match r with Ok j => j =? i | Err => false end.

Definition word_okb (w : list Z) : bool :=
  match w with [] => false | _ :: _ => true end &&
  forallb (fun c => negb (is_space c) && (0 <=? c) && (c <? 128)) w.

Fixpoint check_from (all ws : list (list Z)) (i : Z) : bool :=
  match ws with
  | [] => true
  | w :: r =>
      word_okb w && res_is (wl_index all w) i &&
      (if 4 <? zlen w then res_is (wl_index all (firstn 4 w)) i else true) &&
      check_from all r (i + 1)
  end.

Definition wl_goodb (ws : list (list Z)) (n : Z) : bool :=
  (zlen ws =? n) && check_from ws ws 0.

Lemma res_is_ok r i : res_is r i = true -> r = Ok i.
Proof. destruct r as [j|]; cbn; [|discriminate]. intros H. apply Z.eqb_eq in H. now subst. Qed.

Lemma word_okb_ok w : word_okb w = true ->
  w <> [] /\ Forall (fun c => is_space c = false) w /\ Forall (fun c => 0 <= c < 128) w.
Proof.
  unfold word_okb. rewrite andb_true_iff, forallb_forall. intros [H1 H2].
  split; [destruct w; [discriminate H1 | discriminate]|].
  split; apply Forall_forall; intros c Hc; specialize (H2 c Hc);
    rewrite !andb_true_iff, negb_true_iff in H2; destruct H2 as [[A B] C].
  - exact A.
  - apply Z.leb_le in B. apply Z.ltb_lt in C. lia.
Qed.

Lemma check_from_sound all : forall ws i, check_from all ws i = true ->
  forall k w, nth_error ws k = Some w ->
    w <> [] /\ Forall (fun c => is_space c = false) w /\ Forall (fun c => 0 <= c < 128) w /\
    wl_index all w = Ok (i + Z.of_nat k) /\
    (4 < zlen w -> wl_index all (firstn 4 w) = Ok (i + Z.of_nat k)).
Proof.
  induction ws as [|w0 r IH]; intros i H k w N; [destruct k; discriminate|].
  cbn [check_from] in H. rewrite !andb_true_iff in H. destruct H as [[[H1 H2] H3] H4].
  destruct k as [|k]; cbn [nth_error] in N.
  - assert (w0 = w) by congruence. subst w0.
    replace (i + Z.of_nat 0) with i by lia.
    destruct (word_okb_ok w H1) as (A & B & C).
    split; [exact A|]. split; [exact B|]. split; [exact C|].
    split; [now apply res_is_ok|].
    intros L. apply Z.ltb_lt in L. rewrite L in H3. now apply res_is_ok.
  - replace (i + Z.of_nat (S k)) with (i + 1 + Z.of_nat k) by lia.
    exact (IH (i + 1) H4 k w N).
Qed.

Lemma wl_goodb_sound ws n : wl_goodb ws n = true -> wl_good ws n.
Proof.
  unfold wl_goodb. rewrite andb_true_iff, Z.eqb_eq. intros [H1 H2].
  split; [exact H1|]. intros i w N.
  exact (check_from_sound ws ws 0 H2 i w N).
Qed.

(* ------------------------------------------------------------------ the shipped lists *)

Theorem bip39_good : wl_good bip39_words 2048.
Proof. apply wl_goodb_sound. vm_compute. reflexivity. Qed.

Theorem slip39_good : wl_good slip39_words 1024.
Proof. apply wl_goodb_sound. vm_compute. reflexivity. Qed.

Theorem bip39_prefix4_unique : NoDup (map (firstn 4) bip39_words).
Proof. exact (wl_good_prefix4_unique _ _ bip39_good). Qed.

Theorem slip39_prefix4_unique : NoDup (map (firstn 4) slip39_words).
Proof. exact (wl_good_prefix4_unique _ _ slip39_good). Qed.

Theorem bip39_nodup : NoDup bip39_words.
Proof. exact (wl_good_nodup _ _ bip39_good). Qed.

Theorem slip39_nodup : NoDup slip39_words.
Proof. exact (wl_good_nodup _ _ slip39_good). Qed.

Theorem bip39_lookup : forall key i,
  wl_index bip39_words key = Ok i <->
  (0 <= i < 2048 /\ exists w, nth_error bip39_words (Z.to_nat i) = Some w /\
     (key = w \/ (4 < zlen w /\ key = firstn 4 w))).
Proof. intros key i. exact (wl_good_lookup _ _ key i bip39_good). Qed.

Theorem slip39_lookup : forall key i,
  wl_index slip39_words key = Ok i <->
  (0 <= i < 1024 /\ exists w, nth_error slip39_words (Z.to_nat i) = Some w /\
     (key = w \/ (4 < zlen w /\ key = firstn 4 w))).
Proof. intros key i. exact (wl_good_lookup _ _ key i slip39_good). Qed.

(* the generic text-level theorems instantiated at the shipped BIP39 list *)
Section Bip39.
  Variable sha256 : bytes -> bytes.
  Hypothesis sha_ok : forall x, exists h t, sha256 x = h :: t /\ 0 <= h < 256.

  Theorem bip39_mnemonic_roundtrip : forall e, ent_ok e ->
    exists m, bytes_to_mnemonic sha256 bip39_words e (8 * zlen e) = Ok m /\
              mnemonic_to_bytes sha256 bip39_words m = Ok e.
  Proof. exact (mnemonic_roundtrip sha256 sha_ok bip39_words bip39_good). Qed.

  Theorem bip39_mnemonic_prefix_roundtrip : forall e, ent_ok e ->
    exists ws, bytes_to_mnemonic sha256 bip39_words e (8 * zlen e) = Ok (join_sp ws) /\
      mnemonic_to_bytes sha256 bip39_words (join_sp (map (firstn 4) ws)) = Ok e.
  Proof. exact (mnemonic_prefix_roundtrip sha256 sha_ok bip39_words bip39_good). Qed.

  Theorem bip39_secure_mnemonic_ok : forall nb extra rnd t,
    valid_num_bits nb = true -> 0 <= extra -> 0 <= rnd < 2 ^ nb -> 0 <= t < 2 ^ nb ->
    exists m, secure_mnemonic sha256 bip39_words nb extra rnd t = Ok m /\
      mnemonic_to_bytes sha256 bip39_words m =
      Ok (to_be (Z.to_nat (nb / 8))
            (Z.lxor rnd (Z.lxor (if len_bin extra >? nb + 2
                                 then Z.land extra (Z.shiftl 1 nb - 1) else extra) t))).
  Proof. exact (secure_mnemonic_ok sha256 sha_ok bip39_words bip39_good). Qed.
End Bip39.

Print Assumptions bip39_good.
Print Assumptions slip39_good.
Print Assumptions bip39_prefix4_unique.
Print Assumptions slip39_prefix4_unique.
Print Assumptions bip39_nodup.
Print Assumptions slip39_nodup.
Print Assumptions bip39_lookup.
Print Assumptions slip39_lookup.
Print Assumptions bip39_mnemonic_roundtrip.
Print Assumptions bip39_mnemonic_prefix_roundtrip.
Print Assumptions bip39_secure_mnemonic_ok.
