(* Proofs/LagrangeP.v — exactness of Lagrange interpolation (Proofs/LagrangeDefs.v) over an
   abstract field: the interpolant passes through its nodes, it is a polynomial of degree
   below the number of nodes, it reproduces every such polynomial, and hence re-interpolating
   from any sufficiently large set of distinct nodes gives the same function. *)
From Coq Require Import List Arith Lia Ring Field Field_theory Ring_theory.
Import ListNotations.
From V Require Import Proofs.LagrangeDefs.

Section Lagrange.
  Variable F : Type.
  Variables (zero one : F) (add mul sub : F -> F -> F) (opp : F -> F)
            (div : F -> F -> F) (inv : F -> F).
  Hypothesis Fth : field_theory zero one add mul sub opp div inv eq.
  Add Field FF : Fth.
  Notation interp := (interp F zero one add mul sub div).
  Notation fsum := (fsum F zero add).
  Notation fprod := (fprod F one mul).
  Notation lcoef := (lcoef F one mul sub div).

  (* ---------- field facts (no decidable equality needed) ---------- *)

  Lemma mul_zero_cancel : forall a b, a <> zero -> mul a b = zero -> b = zero.
  Proof.
    intros a b Ha H.
    assert (E : b = mul (inv a) (mul a b)) by (field; exact Ha).
    rewrite E, H. ring.
  Qed.

  Lemma mul_nonzero : forall a b, a <> zero -> b <> zero -> mul a b <> zero.
  Proof. intros a b Ha Hb H. apply Hb. exact (mul_zero_cancel a b Ha H). Qed.

  Lemma sub_nonzero : forall a b, a <> b -> sub a b <> zero.
  Proof.
    intros a b H E. apply H.
    assert (E2 : a = add (sub a b) b) by ring.
    rewrite E2, E. ring.
  Qed.

  (* ---------- fsum / fprod ---------- *)

  Lemma fsum_nil : fsum [] = zero.
  Proof. reflexivity. Qed.

  Lemma fsum_cons : forall a l, fsum (a :: l) = add a (fsum l).
  Proof. reflexivity. Qed.

  Lemma fprod_nil : fprod [] = one.
  Proof. reflexivity. Qed.

  Lemma fprod_cons : forall a l, fprod (a :: l) = mul a (fprod l).
  Proof. reflexivity. Qed.

  Lemma fsum_app : forall l1 l2, fsum (l1 ++ l2) = add (fsum l1) (fsum l2).
  Proof.
    induction l1 as [|a l1 IH]; intros l2.
    - change (fsum l2 = add zero (fsum l2)). ring.
    - change ((a :: l1) ++ l2) with (a :: (l1 ++ l2)). rewrite !fsum_cons, IH. ring.
  Qed.

  Lemma fsum_map_zero : forall (A : Type) (g : A -> F) (l : list A),
    (forall a, In a l -> g a = zero) -> fsum (map g l) = zero.
  Proof.
    intros A g l. induction l as [|a l IH]; intros H.
    - reflexivity.
    - cbn [map]. rewrite fsum_cons, (H a (or_introl eq_refl)), IH.
      + ring.
      + intros b Hb. apply H. right. exact Hb.
  Qed.

  Lemma fprod_zero : forall l, In zero l -> fprod l = zero.
  Proof.
    induction l as [|a l IH]; intros H.
    - destruct H.
    - rewrite fprod_cons. destruct H as [H | H].
      + subst a. ring.
      + rewrite (IH H). ring.
  Qed.

  Lemma fprod_nonzero : forall l, (forall a, In a l -> a <> zero) -> fprod l <> zero.
  Proof.
    induction l as [|a l IH]; intros H.
    - rewrite fprod_nil. exact (F_1_neq_0 Fth).
    - rewrite fprod_cons. apply mul_nonzero.
      + apply H. left. reflexivity.
      + apply IH. intros b Hb. apply H. right. exact Hb.
  Qed.

  (* ---------- picks ---------- *)

  Lemma picks_app : forall (A : Type) (l1 l2 : list A),
    picks (l1 ++ l2) =
    map (fun p => (fst p, snd p ++ l2)) (picks l1) ++
    map (fun p => (fst p, l1 ++ snd p)) (picks l2).
  Proof.
    intros A l1 l2. induction l1 as [|a l1 IH].
    - simpl. symmetry. erewrite map_ext; [apply map_id|].
      intros [x r]. reflexivity.
    - simpl. rewrite IH, map_app, !map_map. reflexivity.
  Qed.

  Lemma picks_split : forall (A : Type) (l1 : list A) (a : A) (l2 : list A),
    picks (l1 ++ a :: l2) =
    map (fun p => (fst p, snd p ++ a :: l2)) (picks l1) ++
    (a, l1 ++ l2) :: map (fun p => (fst p, l1 ++ a :: snd p)) (picks l2).
  Proof.
    intros A l1 a l2. rewrite picks_app. simpl. rewrite map_map. reflexivity.
  Qed.

  Lemma picks_fst : forall (A : Type) (l : list A), map fst (picks l) = l.
  Proof.
    intros A l. induction l as [|a l IH].
    - reflexivity.
    - simpl. rewrite map_map. simpl. f_equal. exact IH.
  Qed.

  Lemma picks_length : forall (A : Type) (l : list A), length (picks l) = length l.
  Proof. intros A l. rewrite <- (picks_fst A l) at 2. rewrite map_length. reflexivity. Qed.

  Lemma picks_length_snd : forall (A : Type) (l : list A) (p : A * list A),
    In p (picks l) -> S (length (snd p)) = length l.
  Proof.
    intros A l. induction l as [|a l IH]; intros p H.
    - destruct H.
    - simpl in H. destruct H as [H | H].
      + subst p. reflexivity.
      + apply in_map_iff in H. destruct H as [q [E Hq]]. subst p. simpl.
        rewrite (IH q Hq). reflexivity.
  Qed.

  Lemma picks_In : forall (A : Type) (l : list A) (a : A) (r : list A),
    In (a, r) (picks l) <-> exists l1 l2, l = l1 ++ a :: l2 /\ r = l1 ++ l2.
  Proof.
    intros A l. induction l as [|b l IH]; intros a r.
    - simpl. split.
      + intros [].
      + intros [l1 [l2 [E _]]]. destruct l1; discriminate E.
    - simpl. split.
      + intros [H | H].
        * inversion H. subst. exists [], r. split; reflexivity.
        * apply in_map_iff in H. destruct H as [[a' r'] [E Hq]]. simpl in E.
          inversion E. subst. apply IH in Hq. destruct Hq as [l1 [l2 [E1 E2]]].
          exists (b :: l1), l2. subst. split; reflexivity.
      + intros [l1 [l2 [E1 E2]]]. destruct l1 as [|c l1].
        * simpl in *. inversion E1. subst. left. reflexivity.
        * simpl in *. inversion E1. subst. right. apply in_map_iff.
          exists (a, l1 ++ l2). split; [reflexivity|].
          apply IH. exists l1, l2. split; reflexivity.
  Qed.

  Lemma picks_NoDup_notin : forall (A : Type) (l : list A) (a : A) (r : list A),
    NoDup l -> In (a, r) (picks l) -> ~ In a r.
  Proof.
    intros A l a r ND H. apply picks_In in H. destruct H as [l1 [l2 [E1 E2]]]. subst.
    apply NoDup_remove_2 in ND. exact ND.
  Qed.

  Lemma picks_incl : forall (A : Type) (l : list A) (a : A) (r : list A),
    In (a, r) (picks l) -> forall b, In b r -> In b l.
  Proof.
    intros A l a r H b Hb. apply picks_In in H. destruct H as [l1 [l2 [E1 E2]]]. subst.
    apply in_app_or in Hb. apply in_or_app. destruct Hb as [Hb | Hb]; [left | right; right]; exact Hb.
  Qed.

  Lemma picks_map : forall (A B : Type) (f : A -> B) (l : list A),
    picks (map f l) = map (fun p => (f (fst p), map f (snd p))) (picks l).
  Proof.
    intros A B f l. induction l as [|a l IH].
    - reflexivity.
    - simpl. rewrite IH, !map_map. reflexivity.
  Qed.

  Lemma combine_map_self : forall (A B : Type) (f : A -> B) (l : list A),
    combine l (map f l) = map (fun a => (a, f a)) l.
  Proof.
    intros A B f l. induction l as [|a l IH].
    - reflexivity.
    - simpl. rewrite IH. reflexivity.
  Qed.

  (* ---------- Lagrange basis at the nodes ---------- *)

  Lemma lcoef_zero : forall x xi rest, In x rest -> lcoef x xi rest = zero.
  Proof.
    intros x xi rest H. unfold LagrangeDefs.lcoef. rewrite (Fdiv_def Fth).
    rewrite (fprod_zero (map (fun xj => sub x xj) rest)).
    - ring.
    - apply in_map_iff. exists x. split; [ring | exact H].
  Qed.

  Lemma lcoef_denom_nonzero : forall xi rest, ~ In xi rest ->
    fprod (map (fun xj => sub xi xj) rest) <> zero.
  Proof.
    intros xi rest H. apply fprod_nonzero. intros a Ha.
    apply in_map_iff in Ha. destruct Ha as [xj [E Hj]]. subst a.
    apply sub_nonzero. intros E. subst xj. exact (H Hj).
  Qed.

  Lemma lcoef_one : forall xi rest, ~ In xi rest -> lcoef xi xi rest = one.
  Proof.
    intros xi rest H. unfold LagrangeDefs.lcoef.
    pose proof (lcoef_denom_nonzero xi rest H) as HD.
    set (D := fprod (map (fun xj => sub xi xj) rest)) in *.
    field. exact HD.
  Qed.

  (* REQUIRED THEOREM 1: the interpolant passes through its nodes *)
  Theorem interp_at_node : forall (pts : list (F * F)) (i : nat) (xi yi : F),
    NoDup (map fst pts) -> nth_error pts i = Some (xi, yi) -> interp xi pts = yi.
  Proof.
    intros pts i xi yi ND Hn.
    apply nth_error_split in Hn. destruct Hn as [l1 [l2 [E _]]]. subst pts.
    rewrite map_app in ND. simpl in ND. apply NoDup_remove_2 in ND.
    unfold LagrangeDefs.interp. rewrite picks_split, map_app. cbn [map].
    rewrite fsum_app, fsum_cons. cbn [fst snd].
    rewrite !map_map.
    rewrite fsum_map_zero, fsum_map_zero.
    - rewrite lcoef_one.
      + ring.
      + rewrite map_app. exact ND.
    - intros [[a b] r] _. cbn [fst snd]. rewrite lcoef_zero; [ring|].
      rewrite map_app. apply in_or_app. right. left. reflexivity.
    - intros [[a b] r] _. cbn [fst snd]. rewrite lcoef_zero; [ring|].
      rewrite map_app. apply in_or_app. right. left. reflexivity.
  Qed.

  (* ---------- polynomials as coefficient lists, lowest degree first ---------- *)

  Fixpoint peval (p : list F) (x : F) : F :=
    match p with [] => zero | c :: r => add c (mul x (peval r x)) end.

  Fixpoint padd (p q : list F) : list F :=
    match p, q with
    | [], _ => q
    | _, [] => p
    | a :: p', b :: q' => add a b :: padd p' q'
    end.

  Definition pscale (c : F) (p : list F) : list F := map (mul c) p.

  (* multiplication by the linear factor (X - a) *)
  Definition pmulX (a : F) (p : list F) : list F := padd (zero :: p) (pscale (opp a) p).

  (* prod_j (X - x_j) *)
  Definition plin (rest : list F) : list F := fold_right pmulX [one] rest.

  Lemma padd_length : forall p q, length (padd p q) = Nat.max (length p) (length q).
  Proof.
    induction p as [|a p IH]; intros q.
    - reflexivity.
    - destruct q as [|b q].
      + reflexivity.
      + simpl. rewrite IH. reflexivity.
  Qed.

  Lemma peval_padd : forall p q x, peval (padd p q) x = add (peval p x) (peval q x).
  Proof.
    induction p as [|a p IH]; intros q x.
    - simpl. ring.
    - destruct q as [|b q].
      + simpl. ring.
      + simpl. rewrite IH. ring.
  Qed.

  Lemma pscale_length : forall c p, length (pscale c p) = length p.
  Proof. intros c p. unfold pscale. apply map_length. Qed.

  Lemma peval_pscale : forall c p x, peval (pscale c p) x = mul c (peval p x).
  Proof.
    intros c p x. induction p as [|a p IH].
    - simpl. ring.
    - simpl. fold (pscale c p). rewrite IH. ring.
  Qed.

  Lemma pmulX_length : forall a p, length (pmulX a p) = S (length p).
  Proof.
    intros a p. unfold pmulX. rewrite padd_length, pscale_length. simpl length. lia.
  Qed.

  Lemma peval_pmulX : forall a p x, peval (pmulX a p) x = mul (sub x a) (peval p x).
  Proof.
    intros a p x. unfold pmulX. rewrite peval_padd, peval_pscale. simpl. ring.
  Qed.

  Lemma plin_length : forall rest, length (plin rest) = S (length rest).
  Proof.
    induction rest as [|a rest IH].
    - reflexivity.
    - simpl. rewrite pmulX_length. fold (plin rest). rewrite IH. reflexivity.
  Qed.

  Lemma peval_plin : forall rest x,
    peval (plin rest) x = fprod (map (fun xj => sub x xj) rest).
  Proof.
    intros rest x. induction rest as [|a rest IH].
    - change (add one (mul x zero) = one). ring.
    - change (plin (a :: rest)) with (pmulX a (plin rest)).
      rewrite peval_pmulX, IH. cbn [map]. rewrite fprod_cons. reflexivity.
  Qed.

  (* factor theorem by synthetic division *)
  Lemma synth_div_cons : forall (a : F) (p : list F) (c : F),
    exists q r, length q = length p /\
      forall x, peval (c :: p) x = add (mul (sub x a) (peval q x)) r.
  Proof.
    intros a p. induction p as [|d p IH]; intros c.
    - exists [], c. split; [reflexivity|]. intros x. simpl. ring.
    - destruct (IH d) as [q [r [Hl Hq]]].
      exists (r :: q), (add c (mul a r)). split.
      + simpl. rewrite Hl. reflexivity.
      + intros x. change (peval (c :: d :: p) x) with (add c (mul x (peval (d :: p) x))).
        rewrite Hq. simpl. ring.
  Qed.

  Theorem factor_theorem : forall (a : F) (p : list F),
    exists q, length q = pred (length p) /\
      forall x, peval p x = add (mul (sub x a) (peval q x)) (peval p a).
  Proof.
    intros a p. destruct p as [|c p].
    - exists []. split; [reflexivity|]. intros x. simpl. ring.
    - destruct (synth_div_cons a p c) as [q [r [Hl Hq]]].
      exists q. split; [exact Hl|].
      assert (Hr : peval (c :: p) a = r) by (rewrite Hq; ring).
      intros x. rewrite Hr. apply Hq.
  Qed.

  (* root counting: a polynomial of degree < m with m distinct roots is zero *)
  Theorem poly_roots_zero : forall (S : list F) (p : list F),
    NoDup S -> length p <= length S ->
    (forall s, In s S -> peval p s = zero) ->
    forall x, peval p x = zero.
  Proof.
    induction S as [|a S IH]; intros p ND Hl Hz x.
    - destruct p; [reflexivity | simpl in Hl; lia].
    - destruct (factor_theorem a p) as [q [Hql Hq]].
      rewrite (Hz a (or_introl eq_refl)) in Hq.
      inversion ND as [|a' S' Hnotin ND']. subst.
      assert (Hq0 : forall y, peval q y = zero).
      { apply IH.
        - exact ND'.
        - rewrite Hql. simpl in Hl. lia.
        - intros s Hs.
          apply (mul_zero_cancel (sub s a)).
          + apply sub_nonzero. intros E. subst s. exact (Hnotin Hs).
          + pose proof (Hq s) as Hqs. rewrite (Hz s (or_intror Hs)) in Hqs.
            rewrite Hqs. ring. }
      rewrite Hq, Hq0. ring.
  Qed.

  (* ---------- the interpolant is a polynomial ---------- *)

  Lemma fsum_poly : forall (A : Type) (l : list A) (g : A -> F -> F) (n : nat),
    (forall a, In a l -> exists p, length p <= n /\ forall x, g a x = peval p x) ->
    exists p, length p <= n /\ forall x, fsum (map (fun a => g a x) l) = peval p x.
  Proof.
    intros A l g n. induction l as [|a l IH]; intros H.
    - exists []. split; [simpl; lia|]. intros x. reflexivity.
    - destruct (H a (or_introl eq_refl)) as [p1 [Hl1 Hp1]].
      destruct IH as [p2 [Hl2 Hp2]].
      { intros b Hb. apply H. right. exact Hb. }
      exists (padd p1 p2). split.
      + rewrite padd_length. lia.
      + intros x. cbn [map]. rewrite fsum_cons, peval_padd, Hp1, Hp2. reflexivity.
  Qed.

  Lemma lcoef_poly : forall (xi : F) (rest : list F),
    exists p, length p = S (length rest) /\ forall x, lcoef x xi rest = peval p x.
  Proof.
    intros xi rest.
    exists (pscale (inv (fprod (map (fun xj => sub xi xj) rest))) (plin rest)). split.
    - rewrite pscale_length. apply plin_length.
    - intros x. unfold LagrangeDefs.lcoef.
      rewrite (Fdiv_def Fth), peval_pscale, peval_plin. ring.
  Qed.

  Theorem interp_poly : forall (pts : list (F * F)),
    exists p, length p <= length pts /\ forall x, interp x pts = peval p x.
  Proof.
    intros pts. unfold LagrangeDefs.interp.
    apply (fsum_poly _ (picks pts)
             (fun p x => mul (snd (fst p)) (lcoef x (fst (fst p)) (map fst (snd p))))
             (length pts)).
    intros a Ha.
    destruct (lcoef_poly (fst (fst a)) (map fst (snd a))) as [q [Hl Hq]].
    exists (pscale (snd (fst a)) q). split.
    - rewrite pscale_length, Hl, map_length, (picks_length_snd _ pts a Ha). lia.
    - intros x. rewrite peval_pscale, Hq. reflexivity.
  Qed.

  Theorem interp_is_poly : forall (B V : list F), NoDup B -> length V = length B ->
    exists p, length p <= length B /\ forall x, interp x (combine B V) = peval p x.
  Proof.
    intros B V _ HV. destruct (interp_poly (combine B V)) as [p [Hl Hp]].
    exists p. split; [|exact Hp].
    rewrite combine_length in Hl. lia.
  Qed.

  (* ---------- exactness ---------- *)

  Theorem lagrange_exact : forall (p : list F) (S : list F) (x : F),
    NoDup S -> length p <= length S ->
    interp x (combine S (map (peval p) S)) = peval p x.
  Proof.
    intros p S x ND Hl. rewrite combine_map_self.
    set (pts := map (fun a => (a, peval p a)) S).
    assert (Hfst : map fst pts = S).
    { unfold pts. rewrite map_map. simpl. apply map_id. }
    destruct (interp_poly pts) as [q [Hql Hq]].
    assert (Hlen : length pts = length S) by (unfold pts; apply map_length).
    set (d := padd q (pscale (opp one) p)).
    assert (Hd : forall y, peval d y = zero).
    { apply (poly_roots_zero S).
      - exact ND.
      - unfold d. rewrite padd_length, pscale_length. lia.
      - intros s Hs. unfold d. rewrite peval_padd, peval_pscale, <- Hq.
        apply In_nth_error in Hs. destruct Hs as [i Hi].
        rewrite (interp_at_node pts i s (peval p s)).
        + ring.
        + rewrite Hfst. exact ND.
        + unfold pts. rewrite (map_nth_error _ _ _ Hi). reflexivity. }
    rewrite Hq.
    assert (E : peval q x = add (peval d x) (peval p x)).
    { unfold d. rewrite peval_padd, peval_pscale. ring. }
    rewrite E, Hd. ring.
  Qed.

  (* REQUIRED THEOREM 2: re-interpolating the interpolant of k points from any set of at least
     k distinct nodes gives the same function (Lagrange exactness for polynomials of degree < k) *)
  Theorem lagrange_reinterpolate : forall (B V S : list F) (x : F),
    NoDup B -> length V = length B -> NoDup S -> length B <= length S ->
    interp x (combine S (map (fun s => interp s (combine B V)) S)) = interp x (combine B V).
  Proof.
    intros B V S x NDB HV NDS Hl.
    destruct (interp_is_poly B V NDB HV) as [p [Hpl Hp]].
    rewrite (map_ext _ (peval p) Hp), Hp.
    apply lagrange_exact.
    - exact NDS.
    - lia.
  Qed.
End Lagrange.

Print Assumptions interp_at_node.
Print Assumptions lagrange_reinterpolate.
