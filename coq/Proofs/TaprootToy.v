(* Proofs/TaprootToy.v — a cheap function with 32-byte output standing in for sha256 in the
   computed non-vacuity examples of Props/C12.v (toy curve, 31 points). *)
From V Require Import Base.Prelude Base.Ints.

Definition toy_sha (b : bytes) : bytes :=
  to_be 32 (fold_left (fun a x => (a * 131 + x + 7) mod 1000003) b 5).

Lemma toy_sha_len : forall x, length (toy_sha x) = 32%nat.
Proof. intros x. apply to_be_length. Qed.
