(* Proofs/Gf256P.v — the exp/log tables of ShareSet._load (Model/Shamir.v) are the field
   GF(2)[x]/(x^8+x^4+x^3+x+1): Z-level laws for bytes derived from the finite facts of
   Proofs/Gf256Sweep.v, then the field packaged as the type [gf] with a [field_theory]. *)
From Coq Require Import ZArith List Bool Lia Eqdep_dec Ring_theory Field_theory Ring Field.
From V Require Import Base.Prelude Model.Shamir.
From V Require Export Proofs.Gf256Sweep.
Import ListNotations.
Open Scope Z_scope.

(* ---------------------------------------------------------------- gmulZ basics *)

Lemma gmulZ_0_l : forall a, gmulZ 0 a = 0.
Proof. intros a. unfold gmulZ. reflexivity. Qed.

Lemma gmulZ_0_r : forall a, gmulZ a 0 = 0.
Proof. intros a. unfold gmulZ. rewrite Z.eqb_refl, orb_true_r. reflexivity. Qed.

Lemma gmulZ_nz : forall a b, a <> 0 -> b <> 0 ->
  gmulZ a b = gexp ((glog a + glog b) mod 255).
Proof.
  intros a b Ha Hb. unfold gmulZ.
  apply Z.eqb_neq in Ha. apply Z.eqb_neq in Hb. rewrite Ha, Hb. reflexivity.
Qed.

Lemma gmulZ_comm : forall a b, gmulZ a b = gmulZ b a.
Proof. intros a b. unfold gmulZ. rewrite orb_comm, Z.add_comm. reflexivity. Qed.

Theorem glog_gmulZ : forall a b, 1 <= a < 256 -> 1 <= b < 256 ->
  1 <= gmulZ a b < 256 /\ glog (gmulZ a b) = (glog a + glog b) mod 255.
Proof.
  intros a b Ha Hb. rewrite gmulZ_nz by lia.
  assert (Hm : 0 <= (glog a + glog b) mod 255 < 255) by (apply Z.mod_pos_bound; lia).
  destruct (log_exp_inverse _ Hm) as [H1 H2]. split; assumption.
Qed.

Theorem gmulZ_byte : forall a b, 0 <= a < 256 -> 0 <= b < 256 -> 0 <= gmulZ a b < 256.
Proof.
  intros a b Ha Hb.
  destruct (Z.eq_dec a 0) as [->|Na]; [rewrite gmulZ_0_l; lia|].
  destruct (Z.eq_dec b 0) as [->|Nb]; [rewrite gmulZ_0_r; lia|].
  destruct (glog_gmulZ a b) as [H _]; lia.
Qed.

Lemma gmulZ_nonzero : forall a b, 1 <= a < 256 -> 1 <= b < 256 -> gmulZ a b <> 0.
Proof. intros a b Ha Hb. destruct (glog_gmulZ a b Ha Hb) as [H _]. lia. Qed.

Theorem gmulZ_1_l : forall a, 0 <= a < 256 -> gmulZ 1 a = a.
Proof.
  intros a Ha. destruct (Z.eq_dec a 0) as [->|Na]; [apply gmulZ_0_r|].
  rewrite gmulZ_nz by lia. rewrite glog_1, Z.add_0_l.
  destruct (exp_log_inverse a) as [H1 H2]; [lia|].
  rewrite Z.mod_small by lia. exact H1.
Qed.

Theorem gmulZ_1_r : forall a, 0 <= a < 256 -> gmulZ a 1 = a.
Proof. intros a Ha. rewrite gmulZ_comm. apply gmulZ_1_l. exact Ha. Qed.

(* ---------------------------------------------------------------- exponent arithmetic *)

Lemma gexp_mod_range : forall s, 1 <= gexp (s mod 255) < 256.
Proof.
  intros s. assert (H : 0 <= s mod 255 < 255) by (apply Z.mod_pos_bound; lia).
  destruct (log_exp_inverse _ H) as [_ H2]. exact H2.
Qed.

Lemma glog_gexp_mod : forall s, glog (gexp (s mod 255)) = s mod 255.
Proof.
  intros s. assert (H : 0 <= s mod 255 < 255) by (apply Z.mod_pos_bound; lia).
  destruct (log_exp_inverse _ H) as [H1 _]. exact H1.
Qed.

Theorem gexp_add : forall s t : Z,
  gexp ((s + t) mod 255) = gmulZ (gexp (s mod 255)) (gexp (t mod 255)).
Proof.
  intros s t.
  pose proof (gexp_mod_range s) as Hs. pose proof (gexp_mod_range t) as Ht.
  rewrite gmulZ_nz by lia. rewrite !glog_gexp_mod.
  rewrite <- Z.add_mod by lia. reflexivity.
Qed.

Theorem ginvZ_range : forall a, 1 <= ginvZ a < 256.
Proof. intros a. unfold ginvZ. apply gexp_mod_range. Qed.

Theorem ginvZ_byte : forall a, 0 <= ginvZ a < 256.
Proof. intros a. pose proof (ginvZ_range a). lia. Qed.

Lemma glog_ginvZ : forall a, glog (ginvZ a) = (255 - glog a) mod 255.
Proof. intros a. unfold ginvZ. apply glog_gexp_mod. Qed.

Theorem gexp_sub : forall s t : Z,
  gexp ((s - t) mod 255) = gdivZ (gexp (s mod 255)) (gexp (t mod 255)).
Proof.
  intros s t. unfold gdivZ.
  pose proof (gexp_mod_range s) as Hs. pose proof (ginvZ_range (gexp (t mod 255))) as Hi.
  rewrite gmulZ_nz by lia.
  rewrite glog_ginvZ, !glog_gexp_mod.
  f_equal.
  rewrite Z.add_mod_idemp_r by lia.
  rewrite Zminus_mod.
  replace (s mod 255 + (255 - t mod 255)) with ((s mod 255 - t mod 255) + 1 * 255) by lia.
  rewrite Z.mod_add by lia. reflexivity.
Qed.

Theorem gmulZ_inv_l : forall a, 1 <= a < 256 -> gmulZ (ginvZ a) a = 1.
Proof.
  intros a Ha. pose proof (ginvZ_range a) as Hi.
  rewrite gmulZ_nz by lia. rewrite glog_ginvZ.
  rewrite Z.add_mod_idemp_l by lia.
  replace (255 - glog a + glog a) with 255 by lia.
  change (255 mod 255) with 0. apply gexp_0.
Qed.

Theorem gmulZ_inv_r : forall a, 1 <= a < 256 -> gmulZ a (ginvZ a) = 1.
Proof. intros a Ha. rewrite gmulZ_comm. apply gmulZ_inv_l. exact Ha. Qed.

Theorem gdivZ_byte : forall a b, 0 <= a < 256 -> 0 <= gdivZ a b < 256.
Proof. intros a b Ha. unfold gdivZ. apply gmulZ_byte; [exact Ha|apply ginvZ_byte]. Qed.

(* ---------------------------------------------------------------- product of a list *)

Lemma fold_left_add_acc : forall l acc, fold_left Z.add l acc = acc + fold_left Z.add l 0.
Proof.
  induction l as [|x l IH]; intros acc; cbn [fold_left].
  - lia.
  - rewrite (IH (acc + x)), (IH (0 + x)). lia.
Qed.

Lemma zsum_cons : forall x l, zsum (x :: l) = x + zsum l.
Proof. intros x l. unfold zsum. cbn [fold_left]. rewrite fold_left_add_acc. lia. Qed.

Lemma gprod_range : forall ds, Forall (fun d => 1 <= d < 256) ds ->
  1 <= fold_right gmulZ 1 ds < 256.
Proof.
  induction 1 as [|d ds Hd _ IH]; cbn [fold_right].
  - lia.
  - destruct (glog_gmulZ d (fold_right gmulZ 1 ds) Hd IH) as [H _]. exact H.
Qed.

Theorem gexp_sum_logs : forall ds : list Z, Forall (fun d => 1 <= d < 256) ds ->
  gexp ((zsum (map glog ds)) mod 255) = fold_right gmulZ 1 ds.
Proof.
  induction 1 as [|d ds Hd _ IH].
  - cbn [map fold_right]. unfold zsum. cbn [fold_left].
    change (0 mod 255) with 0. apply gexp_0.
  - cbn [map fold_right]. rewrite zsum_cons, gexp_add, IH.
    destruct (exp_log_inverse d Hd) as [H1 H2].
    rewrite (Z.mod_small (glog d)) by lia. rewrite H1. reflexivity.
Qed.

(* the same statement spelled with fold_left *)
Corollary gexp_sum_logs_fold : forall ds : list Z, Forall (fun d => 1 <= d < 256) ds ->
  gexp ((fold_left Z.add (map glog ds) 0) mod 255) = fold_right gmulZ 1 ds.
Proof. exact gexp_sum_logs. Qed.

(* ---------------------------------------------------------------- associativity *)

Theorem gmulZ_assoc : forall a b c, 0 <= a < 256 -> 0 <= b < 256 -> 0 <= c < 256 ->
  gmulZ a (gmulZ b c) = gmulZ (gmulZ a b) c.
Proof.
  intros a b c Ha Hb Hc.
  destruct (Z.eq_dec a 0) as [->|Na]; [rewrite !gmulZ_0_l; reflexivity|].
  destruct (Z.eq_dec b 0) as [->|Nb]; [rewrite gmulZ_0_l, gmulZ_0_r, gmulZ_0_l; reflexivity|].
  destruct (Z.eq_dec c 0) as [->|Nc]; [rewrite !gmulZ_0_r; reflexivity|].
  destruct (glog_gmulZ b c) as [Rbc Lbc]; [lia|lia|].
  destruct (glog_gmulZ a b) as [Rab Lab]; [lia|lia|].
  rewrite (gmulZ_nz a (gmulZ b c)) by lia.
  rewrite (gmulZ_nz (gmulZ a b) c) by lia.
  rewrite Lbc, Lab. f_equal.
  rewrite Z.add_mod_idemp_r, Z.add_mod_idemp_l by lia.
  f_equal. lia.
Qed.

(* ---------------------------------------------------------------- addition = xor *)

Lemma gadd_comm : forall a b, Z.lxor a b = Z.lxor b a.
Proof. exact Z.lxor_comm. Qed.

Lemma gadd_assoc : forall a b c, Z.lxor a (Z.lxor b c) = Z.lxor (Z.lxor a b) c.
Proof. intros a b c. symmetry. apply Z.lxor_assoc. Qed.

Lemma gadd_0_l : forall a, Z.lxor 0 a = a.
Proof. exact Z.lxor_0_l. Qed.

Lemma gadd_self : forall a, Z.lxor a a = 0.
Proof. exact Z.lxor_nilpotent. Qed.

(* ---------------------------------------------------------------- distributivity *)

(* every non-zero element is a power of the generator 3 = gexp 1 *)
Lemma gexp_succ : forall i, 0 <= i -> i + 1 < 255 -> gexp (i + 1) = gmulZ 3 (gexp i).
Proof.
  intros i H0 H1.
  pose proof (gexp_add 1 i) as H.
  rewrite (Z.mod_small (1 + i)), (Z.mod_small 1), (Z.mod_small i) in H by lia.
  rewrite gexp_1 in H. rewrite <- H. f_equal. lia.
Qed.

Lemma gmulZ_gexp_distr : forall n : nat, (n < 255)%nat ->
  forall b c, 0 <= b < 256 -> 0 <= c < 256 ->
  gmulZ (gexp (Z.of_nat n)) (Z.lxor b c) =
  Z.lxor (gmulZ (gexp (Z.of_nat n)) b) (gmulZ (gexp (Z.of_nat n)) c).
Proof.
  induction n as [|n IH]; intros Hn b c Hb Hc.
  - change (Z.of_nat 0) with 0. rewrite gexp_0.
    pose proof (lxor_byte b c Hb Hc). rewrite !gmulZ_1_l by assumption. reflexivity.
  - replace (Z.of_nat (S n)) with (Z.of_nat n + 1) by lia.
    rewrite gexp_succ by lia.
    set (g := gexp (Z.of_nat n)).
    assert (Hg : 0 <= g < 256).
    { destruct (log_exp_inverse (Z.of_nat n)) as [_ H]; [lia|]. unfold g. lia. }
    assert (H3 : 0 <= 3 < 256) by lia.
    pose proof (lxor_byte b c Hb Hc) as Hx.
    rewrite <- !gmulZ_assoc by assumption.
    fold g in IH. rewrite IH by (assumption || lia).
    apply gmulZ_3_distr; apply gmulZ_byte; assumption.
Qed.

Theorem gmulZ_distr_l : forall a b c, 0 <= a < 256 -> 0 <= b < 256 -> 0 <= c < 256 ->
  gmulZ a (Z.lxor b c) = Z.lxor (gmulZ a b) (gmulZ a c).
Proof.
  intros a b c Ha Hb Hc.
  destruct (Z.eq_dec a 0) as [->|Na]; [rewrite !gmulZ_0_l; reflexivity|].
  destruct (exp_log_inverse a) as [H1 H2]; [lia|].
  rewrite <- H1. rewrite <- (Z2Nat.id (glog a)) by lia.
  apply gmulZ_gexp_distr; try assumption. lia.
Qed.

Theorem gmulZ_distr_r : forall a b c, 0 <= a < 256 -> 0 <= b < 256 -> 0 <= c < 256 ->
  gmulZ (Z.lxor a b) c = Z.lxor (gmulZ a c) (gmulZ b c).
Proof.
  intros a b c Ha Hb Hc.
  rewrite (gmulZ_comm (Z.lxor a b)), (gmulZ_comm a), (gmulZ_comm b).
  apply gmulZ_distr_l; assumption.
Qed.

(* ---------------------------------------------------------------- the field as a type *)

Record gf := mkgf { gfz : Z; gf_ok : (0 <=? gfz) && (gfz <? 256) = true }.

Lemma mod256_ok : forall z, (0 <=? z mod 256) && (z mod 256 <? 256) = true.
Proof.
  intros z. assert (H : 0 <= z mod 256 < 256) by (apply Z.mod_pos_bound; lia).
  apply andb_true_iff. split; [apply Z.leb_le|apply Z.ltb_lt]; lia.
Qed.

Definition gf_of (z : Z) : gf := mkgf (z mod 256) (mod256_ok z).

Lemma gf_eq : forall a b : gf, gfz a = gfz b -> a = b.
Proof.
  intros [a Ha] [b Hb]. cbn [gfz]. intros E. subst b.
  f_equal. apply UIP_dec. apply bool_dec.
Qed.

Lemma gfz_range : forall a, 0 <= gfz a < 256.
Proof.
  intros [a Ha]. cbn [gfz]. apply andb_true_iff in Ha as [H1 H2].
  apply Z.leb_le in H1. apply Z.ltb_lt in H2. lia.
Qed.

Lemma gfz_of : forall z, 0 <= z < 256 -> gfz (gf_of z) = z.
Proof. intros z Hz. cbn [gf_of gfz]. apply Z.mod_small. exact Hz. Qed.

Lemma gf_of_z : forall a, gf_of (gfz a) = a.
Proof. intros a. apply gf_eq. apply gfz_of. apply gfz_range. Qed.

Lemma gf_of_inj : forall a b, 0 <= a < 256 -> 0 <= b < 256 -> gf_of a = gf_of b -> a = b.
Proof.
  intros a b Ha Hb E. rewrite <- (gfz_of a Ha), <- (gfz_of b Hb), E. reflexivity.
Qed.

Definition gf0 : gf := gf_of 0.
Definition gf1 : gf := gf_of 1.
Definition gfadd (a b : gf) : gf := gf_of (Z.lxor (gfz a) (gfz b)).
Definition gfsub : gf -> gf -> gf := gfadd.
Definition gfopp (a : gf) : gf := a.
Definition gfmul (a b : gf) : gf := gf_of (gmulZ (gfz a) (gfz b)).
Definition gfinv (a : gf) : gf := gf_of (ginvZ (gfz a)).
Definition gfdiv (a b : gf) : gf := gfmul a (gfinv b).

Lemma gfz_0 : gfz gf0 = 0.
Proof. reflexivity. Qed.

Lemma gfz_1 : gfz gf1 = 1.
Proof. reflexivity. Qed.

Lemma gfz_add : forall a b, gfz (gfadd a b) = Z.lxor (gfz a) (gfz b).
Proof. intros a b. unfold gfadd. apply gfz_of. apply lxor_byte; apply gfz_range. Qed.

Lemma gfz_sub : forall a b, gfz (gfsub a b) = Z.lxor (gfz a) (gfz b).
Proof. exact gfz_add. Qed.

Lemma gfz_opp : forall a, gfz (gfopp a) = gfz a.
Proof. reflexivity. Qed.

Lemma gfz_mul : forall a b, gfz (gfmul a b) = gmulZ (gfz a) (gfz b).
Proof. intros a b. unfold gfmul. apply gfz_of. apply gmulZ_byte; apply gfz_range. Qed.

Lemma gfz_inv : forall a, gfz (gfinv a) = ginvZ (gfz a).
Proof. intros a. unfold gfinv. apply gfz_of. apply ginvZ_byte. Qed.

Lemma gfz_div : forall a b, gfz (gfdiv a b) = gdivZ (gfz a) (gfz b).
Proof. intros a b. unfold gfdiv, gdivZ. rewrite gfz_mul, gfz_inv. reflexivity. Qed.

(* gf_of is a homomorphism from bytes *)
Lemma gf_of_add : forall a b, 0 <= a < 256 -> 0 <= b < 256 ->
  gf_of (Z.lxor a b) = gfadd (gf_of a) (gf_of b).
Proof. intros a b Ha Hb. unfold gfadd. rewrite !gfz_of by assumption. reflexivity. Qed.

Lemma gf_of_mul : forall a b, 0 <= a < 256 -> 0 <= b < 256 ->
  gf_of (gmulZ a b) = gfmul (gf_of a) (gf_of b).
Proof. intros a b Ha Hb. unfold gfmul. rewrite !gfz_of by assumption. reflexivity. Qed.

Lemma gf_of_div : forall a b, 0 <= a < 256 -> 0 <= b < 256 ->
  gf_of (gdivZ a b) = gfdiv (gf_of a) (gf_of b).
Proof.
  intros a b Ha Hb. apply gf_eq. rewrite gfz_div, !gfz_of; try assumption.
  - reflexivity.
  - apply gdivZ_byte. exact Ha.
Qed.

Lemma gf_neq_0 : forall a : gf, a <> gf0 <-> gfz a <> 0.
Proof.
  intros a. split; intros H E; apply H.
  - apply gf_eq. rewrite E. reflexivity.
  - rewrite E. reflexivity.
Qed.

Theorem gf_ring : ring_theory gf0 gf1 gfadd gfmul gfsub gfopp eq.
Proof.
  constructor.
  - intros x. apply gf_eq. rewrite gfz_add, gfz_0. apply Z.lxor_0_l.
  - intros x y. apply gf_eq. rewrite !gfz_add. apply Z.lxor_comm.
  - intros x y z. apply gf_eq. rewrite !gfz_add. apply gadd_assoc.
  - intros x. apply gf_eq. rewrite gfz_mul, gfz_1. apply gmulZ_1_l. apply gfz_range.
  - intros x y. apply gf_eq. rewrite !gfz_mul. apply gmulZ_comm.
  - intros x y z. apply gf_eq. rewrite !gfz_mul. apply gmulZ_assoc; apply gfz_range.
  - intros x y z. apply gf_eq. rewrite gfz_mul, !gfz_add, !gfz_mul.
    apply gmulZ_distr_r; apply gfz_range.
  - intros x y. reflexivity.
  - intros x. apply gf_eq. rewrite gfz_add, gfz_opp, gfz_0. apply Z.lxor_nilpotent.
Qed.

Theorem gf_field : field_theory gf0 gf1 gfadd gfmul gfsub gfopp gfdiv gfinv eq.
Proof.
  constructor.
  - exact gf_ring.
  - intros E. apply (f_equal gfz) in E. rewrite gfz_0, gfz_1 in E. discriminate E.
  - intros p q. reflexivity.
  - intros p Hp. apply gf_neq_0 in Hp. apply gf_eq.
    rewrite gfz_mul, gfz_inv, gfz_1. apply gmulZ_inv_l.
    pose proof (gfz_range p). lia.
Qed.

Add Field GFF : gf_field.

Goal forall a b : gf, gfmul a (gfadd a b) = gfadd (gfmul a a) (gfmul a b).
Proof. intros; ring. Qed.

Goal forall a b : gf, b <> gf0 -> gfmul (gfdiv a b) b = a.
Proof. intros; field; assumption. Qed.

Print Assumptions exp_log_inverse.
Print Assumptions log_exp_inverse.
Print Assumptions gmulZ_clmul.
Print Assumptions glog_gmulZ.
Print Assumptions gexp_add.
Print Assumptions gexp_sub.
Print Assumptions gexp_sum_logs.
Print Assumptions gmulZ_assoc.
Print Assumptions gmulZ_distr_l.
Print Assumptions gf_eq.
Print Assumptions gf_of_inj.
Print Assumptions gf_field.
