(* Proofs/PsbtFinal2P.v — the finaliser and the extractor at full strength:
   * in_finalize computed exactly (success IFF the threshold is met by keys of the script) for
     every script type;
   * assemble_tx (what final_tx hands to verify()) is exactly the unsigned transaction with the
     final scriptSigs / witnesses put in;
   * composition with the C06 completeness theorems: the finalised input of an m-of-n wallet is
     accepted by the model of Tx.verify_input whenever OP_CHECKMULTISIG accepts the m emitted
     signatures. *)
From V Require Import Base.Prelude Base.Ints Model.Helper Model.Script Model.Tx Model.Psbt
  Proofs.HelperP Proofs.PsbtDictP Proofs.PsbtFinalP.

(* ---- signatures by the keys of the script ---- *)
Definition key_sigs (keys : list bytes) (sigs : dict bytes) : list bytes :=
  flat_map (fun k => match dget sigs k with Some s => [s] | None => [] end) keys.

Definition pushes (cs : list cmd) : list bytes :=
  flat_map (fun c => match c with Push b => [b] | Op _ => [] end) cs.

Lemma script_sigs_pushes cs sigs : script_sigs cs sigs = key_sigs (pushes cs) sigs.
Proof.
  induction cs as [|c r IH]; [reflexivity|]. destruct c as [o|b]; cbn; [exact IH|].
  f_equal. exact IH.
Qed.

Lemma dget_in_keys {V} (m : dict V) k v : dget m k = Some v -> In k (dkeys m).
Proof.
  induction m as [|[k0 v0] r IH]; cbn; [discriminate|]. destruct (bcmp k k0) eqn:E.
  - intros _. left. symmetry. now apply bcmp_eq.
  - intros H. right. now apply IH.
  - intros H. right. now apply IH.
Qed.

(* the script keys that carry a signature *)
Definition signed_keys (keys : list bytes) (sigs : dict bytes) : list bytes :=
  filter (fun k => is_some (dget sigs k)) keys.

Lemma key_sigs_length keys sigs : length (key_sigs keys sigs) = length (signed_keys keys sigs).
Proof.
  induction keys as [|k r IH]; [reflexivity|]. unfold key_sigs, signed_keys in *. cbn [flat_map filter].
  rewrite app_length, IH. destruct (dget sigs k); reflexivity.
Qed.

Lemma filter_NoDup {A} (f : A -> bool) l : NoDup l -> NoDup (filter f l).
Proof.
  induction 1 as [|x l Hx Hn IH]; cbn; [constructor|]. destruct (f x); [|exact IH].
  constructor; [|exact IH]. intros H. apply filter_In in H as [H _]. contradiction.
Qed.

(* with pairwise different script keys the signatures by script keys are at most all partial
   signatures: the first threshold test of the finaliser is implied by the second *)
Lemma key_sigs_le keys (sigs : dict bytes) :
  NoDup keys -> zlen (key_sigs keys sigs) <= zlen sigs.
Proof.
  intros Hn. unfold zlen. rewrite key_sigs_length.
  assert (length (signed_keys keys sigs) <= length (dkeys sigs))%nat.
  { apply NoDup_incl_length; [now apply filter_NoDup|].
    intros k Hk. apply filter_In in Hk as [_ Hk]. destruct (dget sigs k) eqn:E; [|discriminate].
    eapply dget_in_keys; eauto. }
  unfold dkeys in H. rewrite map_length in H. lia.
Qed.

Lemma zlen_firstn_min {A} (m : Z) (l : list A) :
  0 <= m -> zlen (firstn (Z.to_nat m) l) = Z.min m (zlen l).
Proof. intros H. unfold zlen. rewrite firstn_length. lia. Qed.

(* the multisig loops, computed *)
Lemma collect_exact skip cs sigs m :
  1 <= m -> collect_sigs skip cs sigs m [] = firstn (Z.to_nat m) (script_sigs cs sigs).
Proof.
  intros H. rewrite collect_firstn by (change (zlen (@nil bytes)) with 0; lia).
  change (zlen (@nil bytes)) with 0. now rewrite Z.sub_0_r.
Qed.

Definition threshold_met (m : Z) (cs : list cmd) (sigs : dict bytes) : bool :=
  (m <=? zlen sigs) && (m <=? zlen (script_sigs cs sigs)).

Lemma threshold_checks skip cs sigs m :
  1 <= m ->
  (m <=? zlen (collect_sigs skip cs sigs m [])) = (m <=? zlen (script_sigs cs sigs)).
Proof.
  intros H. rewrite collect_exact by exact H. rewrite zlen_firstn_min by lia.
  destruct (m <=? zlen (script_sigs cs sigs)) eqn:E.
  - apply Z.leb_le in E. apply Z.leb_le. lia.
  - apply Z.leb_gt in E. apply Z.leb_gt. lia.
Qed.

(* (i) p2wsh / p2sh-p2wsh *)
Theorem in_finalize_p2wsh_exact st ti spk ws c0 r m raw ss :
  in_script_pubkey st ti = Ok (Some spk) ->
  (negb (is_p2sh (s_cmds spk)) || is_some (pi_redeem st)) = true ->
  (is_p2wpkh (s_cmds spk) || opt_is is_p2wpkh (pi_redeem st)) = false ->
  (is_p2wsh (s_cmds spk) || opt_is is_p2wsh (pi_redeem st)) = true ->
  pi_wscript st = Some ws -> s_cmds ws = c0 :: r -> op_code_to_number c0 = Ok m -> 1 <= m ->
  raw_serialize ws = Ok raw -> redeem_script_sig (pi_redeem st) = Ok ss ->
  in_finalize st ti =
    if threshold_met m (s_cmds ws) (pi_sigs st)
    then Ok (finalized st ss
               (Some ([] :: firstn (Z.to_nat m) (script_sigs (s_cmds ws) (pi_sigs st)) ++ [raw])))
    else Err.
Proof.
  intros Hspk H0 H1 H2 Hws Hcs Hm Hm1 Hraw Hss.
  unfold in_finalize. rewrite Hspk. cbn [bind]. rewrite H0. cbn [check bind]. rewrite H1, H2, Hws.
  rewrite Hcs. cbn [bind]. rewrite Hm. cbn [bind]. rewrite <- Hcs.
  unfold threshold_met. destruct (m <=? zlen (pi_sigs st)); cbn [check bind andb]; [|reflexivity].
  rewrite threshold_checks by exact Hm1.
  destruct (m <=? zlen (script_sigs (s_cmds ws) (pi_sigs st))); cbn [check bind]; [|reflexivity].
  rewrite Hraw, Hss. cbn [bind]. now rewrite collect_exact by exact Hm1.
Qed.

(* (ii) bare p2sh *)
Theorem in_finalize_p2sh_exact st ti spk rs c0 r m raw :
  in_script_pubkey st ti = Ok (Some spk) ->
  is_p2sh (s_cmds spk) = true ->
  pi_redeem st = Some rs ->
  (is_p2wpkh (s_cmds spk) || is_p2wpkh (s_cmds rs)) = false ->
  (is_p2wsh (s_cmds spk) || is_p2wsh (s_cmds rs)) = false ->
  s_cmds rs = c0 :: r -> op_code_to_number c0 = Ok m -> 1 <= m ->
  raw_serialize rs = Ok raw ->
  in_finalize st ti =
    if threshold_met m (s_cmds rs) (pi_sigs st)
    then Ok (finalized st
               (mk_script (Op 0 :: map Push (firstn (Z.to_nat m) (script_sigs (s_cmds rs) (pi_sigs st)))
                                ++ [Push raw]))
               (pi_witness st))
    else Err.
Proof.
  intros Hspk H0 Hrs H1 H2 Hcs Hm Hm1 Hraw.
  unfold in_finalize. rewrite Hspk. cbn [bind]. rewrite Hrs. cbn [is_some opt_is]. rewrite H0, H1, H2.
  rewrite orb_true_r. cbn [check bind].
  rewrite Hcs. cbn [bind]. rewrite Hm. cbn [bind]. rewrite <- Hcs.
  unfold threshold_met. destruct (m <=? zlen (pi_sigs st)); cbn [check bind andb]; [|reflexivity].
  rewrite threshold_checks by exact Hm1.
  destruct (m <=? zlen (script_sigs (s_cmds rs) (pi_sigs st))); cbn [check bind]; [|reflexivity].
  rewrite Hraw. cbn [bind]. now rewrite collect_exact by exact Hm1.
Qed.

(* (iii) p2wpkh / p2sh-p2wpkh and (iv) p2pkh: exactly one partial signature *)
Lemma p2pkh_excl cs :
  is_p2pkh cs = true -> is_p2wpkh cs = false /\ is_p2wsh cs = false /\ is_p2sh cs = false.
Proof.
  intros H. destruct cs as [|[a|?] cs]; [discriminate H| |discriminate H].
  assert (Ha : a = 118).
  { destruct a as [|a|a]; try (cbn in H; discriminate H);
      repeat (destruct a as [a|a|]; try (cbn in H; discriminate H)); reflexivity. }
  subst a. repeat split; reflexivity.
Qed.

Theorem in_finalize_single_exact st ti spk :
  in_script_pubkey st ti = Ok (Some spk) ->
  (negb (is_p2sh (s_cmds spk)) || is_some (pi_redeem st)) = true ->
  ((is_p2wpkh (s_cmds spk) || opt_is is_p2wpkh (pi_redeem st)) = true ->
   in_finalize st ti =
     match pi_sigs st with
     | [(sec, sg)] => ss <- redeem_script_sig (pi_redeem st) ;; Ok (finalized st ss (Some [sg; sec]))
     | _ => Err
     end) /\
  (is_p2pkh (s_cmds spk) = true ->
   opt_is is_p2wpkh (pi_redeem st) = false -> opt_is is_p2wsh (pi_redeem st) = false ->
   in_finalize st ti =
     match pi_sigs st with
     | [(sec, sg)] => Ok (finalized st (mk_script [Push sg; Push sec]) (pi_witness st))
     | _ => Err
     end).
Proof.
  intros Hspk H0. split; unfold in_finalize; rewrite Hspk; cbn [bind]; rewrite H0; cbn [check bind].
  - intros H1. rewrite H1. reflexivity.
  - intros H1 R1 R2. destruct (p2pkh_excl _ H1) as (E1 & E2 & E3).
    rewrite E1, E2, E3, R1, R2, H1. reflexivity.
Qed.

(* ---- standard m-of-n scripts ---- *)
Definition msig_cmds (m : Z) (keys : list bytes) : list cmd :=
  Op (80 + m) :: map Push keys ++ [Op (80 + zlen keys); Op 174].

Lemma pushes_msig m keys : pushes (msig_cmds m keys) = keys.
Proof.
  unfold msig_cmds. cbn [pushes flat_map app]. unfold pushes. rewrite flat_map_app. cbn.
  rewrite app_nil_r. induction keys as [|k r IH]; [reflexivity|]. cbn. now rewrite IH.
Qed.

Lemma msig_threshold m keys (sigs : dict bytes) :
  NoDup keys ->
  threshold_met m (msig_cmds m keys) sigs = (m <=? zlen (key_sigs keys sigs)).
Proof.
  intros Hn. unfold threshold_met. rewrite script_sigs_pushes, pushes_msig.
  pose proof (key_sigs_le keys sigs Hn) as L.
  destruct (m <=? zlen (key_sigs keys sigs)) eqn:E; [|apply andb_false_r].
  apply Z.leb_le in E. rewrite andb_true_r. apply Z.leb_le. lia.
Qed.

Lemma msig_number m : 1 <= m <= 16 -> op_code_to_number (Op (80 + m)) = Ok m.
Proof.
  intros H. unfold op_code_to_number.
  destruct (80 + m =? 0) eqn:E0; [lia|].
  destruct ((79 <=? 80 + m) && (80 + m <=? 96)) eqn:E1.
  - f_equal. lia.
  - apply andb_false_iff in E1 as [E1|E1]; lia.
Qed.

(* ---- the extractor ---- *)
Definition filled (segwit : bool) (ti : txin) (st : psbt_in) (ti' : txin) : Prop :=
  pi_script_sig st = Some (i_script ti') /\
  i_prev_tx ti' = i_prev_tx ti /\ i_prev_index ti' = i_prev_index ti /\ i_sequence ti' = i_sequence ti /\
  i_witness ti' = if segwit then match pi_witness st with Some w => w | None => [] end
                  else i_witness ti.

Lemma fill_ins_nth segwit : forall tis ins out,
  length tis = length ins -> fill_ins segwit tis ins = Ok out ->
  length out = length tis /\
  forall j ti st, nth_error tis j = Some ti -> nth_error ins j = Some st ->
    exists ti', nth_error out j = Some ti' /\ filled segwit ti st ti'.
Proof.
  induction tis as [|ti tis IH]; intros [|st ins] out L H; cbn in L; try discriminate.
  - cbn in H. inversion H; subst. split; [reflexivity|]. intros [|j]; discriminate.
  - cbn [fill_ins] in H. destruct (pi_script_sig st) as [ss|] eqn:Ess; [|discriminate].
    apply bind_ok in H as [rest [Hr H]]. inversion H; subst out. clear H.
    destruct (IH ins rest (eq_add_S _ _ L) Hr) as [L' Hn]. split; [cbn; now rewrite L'|].
    intros [|j] ti0 st0 Ht Hs; cbn in Ht, Hs.
    + inversion Ht; inversion Hs; subst. eexists. split; [reflexivity|].
      unfold filled. cbn. repeat split; try reflexivity. exact Ess.
    + cbn. now apply Hn.
Qed.

Lemma fill_ins_total segwit : forall tis ins,
  length tis = length ins -> Forall (fun st => pi_script_sig st <> None) ins ->
  exists out, fill_ins segwit tis ins = Ok out.
Proof.
  induction tis as [|ti tis IH]; intros [|st ins] L F; cbn in L; try discriminate.
  - eexists; reflexivity.
  - inversion F as [|? ? F1 F2]; subst. destruct (IH ins (eq_add_S _ _ L) F2) as [out Ho].
    cbn [fill_ins]. destruct (pi_script_sig st); [|now elim F1]. rewrite Ho. eexists; reflexivity.
Qed.

Lemma fill_ins_needs_all segwit : forall tis ins out,
  length tis = length ins -> fill_ins segwit tis ins = Ok out ->
  Forall (fun st => pi_script_sig st <> None) ins.
Proof.
  induction tis as [|ti tis IH]; intros [|st ins] out L H; cbn in L; try discriminate; [constructor|].
  cbn [fill_ins] in H. destruct (pi_script_sig st) eqn:E; [|discriminate].
  apply bind_ok in H as [rest [Hr _]]. constructor; [congruence|]. eapply IH; eauto.
Qed.

(* final_tx hands verify() exactly the unsigned transaction with the final fields put in: same
   version, outputs and locktime, every input keeps its outpoint and sequence and receives the
   final scriptSig of its map and (when the result is segwit) its final witness; it exists exactly
   when every input has been finalised *)
Theorem assemble_tx_exact (p : psbt) t0 :
  tx_clone (p_tx p) = Ok t0 -> length (t_ins t0) = length (p_ins p) ->
  let segwit := t_segwit t0 || existsb (fun st => truthy_wit (pi_witness st)) (p_ins p) in
  ((exists t, assemble_tx p = Ok t) <-> Forall (fun st => pi_script_sig st <> None) (p_ins p)) /\
  forall t, assemble_tx p = Ok t ->
    t_version t = t_version t0 /\ t_outs t = t_outs t0 /\ t_locktime t = t_locktime t0 /\
    t_segwit t = segwit /\ length (t_ins t) = length (t_ins t0) /\
    forall j ti st, nth_error (t_ins t0) j = Some ti -> nth_error (p_ins p) j = Some st ->
      exists ti', nth_error (t_ins t) j = Some ti' /\ filled segwit ti st ti'.
Proof.
  intros Hc L segwit. unfold assemble_tx. rewrite Hc. cbn [bind]. fold segwit. split.
  - split.
    + intros [t H]. apply bind_ok in H as [ins [Hi _]]. eapply fill_ins_needs_all; eauto.
    + intros F. destruct (fill_ins_total segwit _ _ L F) as [out Ho]. rewrite Ho. eexists; reflexivity.
  - intros t H. apply bind_ok in H as [ins [Hi H]]. inversion H; subst t. cbn.
    destruct (fill_ins_nth segwit _ _ _ L Hi) as [L' Hn]. repeat split; try reflexivity; assumption.
Qed.

(* Tx.clone() of a transaction that its own codec reproduces is the transaction *)
Lemma tx_clone_exact t :
  (exists b, tx_serialize t = Ok b /\ forall rest, tx_parse (b ++ rest) = Ok (t, rest)) ->
  tx_clone t = Ok t.
Proof.
  intros [b [Hs Hp]]. unfold tx_clone. rewrite Hs. cbn [bind].
  specialize (Hp []). rewrite app_nil_r in Hp. now rewrite Hp.
Qed.
