(* Proofs/Bip158P.v — the compact-filter code of compactfilter.py against the BIP158
   transcription of Spec/Bip158.v:
   (A) the streaming bit writer produces byte for byte what pack_bits produces, hence
       serialize_gcs / encode_gcs = CompactSize N ++ construct_gcs;
   (B) the streaming reader follows decode_golomb / decode_gcs, hence CompactFilter.__contains__
       on every decodable filter = gcs_match of the BIP. *)
From Coq Require Import Sorting.Sorted Sorting.Permutation.
From V Require Import Base.Prelude Base.Ints Model.Helper Model.Gcs Model.CFilter Model.Siphash
  Proofs.HelperP Proofs.GcsP Proofs.CFilterP Proofs.SiphashP.
From V Require Spec.Siphash.
From V Require Import Spec.Bip158.

(* ================================================================== *)
(* (A) writer                                                          *)

Definition b2bit (b : Z) : bool := negb (b =? 0).

(* writing a list of 0/1 values bit by bit *)
Definition bw_write (w : bitw) (bits : list Z) : bitw :=
  fold_left (fun w b => bw_bit w (b2bit b)) bits w.

Lemma bw_write_app w a b : bw_write w (a ++ b) = bw_write (bw_write w a) b.
Proof. unfold bw_write. apply fold_left_app. Qed.

Lemma bw_write_cons w x r : bw_write w (x :: r) = bw_write (bw_bit w (b2bit x)) r.
Proof. reflexivity. Qed.

(* the bits a writer state holds *)
Definition bw_view (w : bitw) : list Z :=
  let '(done, buf, n) := w in unpack_bits (rev done) ++ low_bits n buf.

Definition bw_wf (w : bitw) : Prop :=
  let '(done, buf, n) := w in (n < 8)%nat /\ 0 <= buf < 2 ^ Z.of_nat n /\ bytes_ok done.

Lemma low_bits_snoc n : forall buf (b : bool),
  low_bits (S n) (2 * buf + Z.b2z b) = low_bits n buf ++ [Z.b2z b].
Proof.
  induction n as [|n IH]; intros buf b.
  - cbn [low_bits app]. change (Z.of_nat 0) with 0. rewrite Z.testbit_0_r. now destruct b.
  - change (low_bits (S (S n)) (2 * buf + Z.b2z b))
      with ((if Z.testbit (2 * buf + Z.b2z b) (Z.of_nat (S n)) then 1 else 0) :: low_bits (S n) (2 * buf + Z.b2z b)).
    rewrite IH. rewrite Nat2Z.inj_succ, Z.testbit_succ_r by lia. reflexivity.
Qed.

Lemma b2z_if (b : bool) : (if b then 1 else 0) = Z.b2z b.
Proof. now destruct b. Qed.

Lemma byte_bits_low x : byte_bits x = low_bits 8 x.
Proof. reflexivity. Qed.

Lemma bw_bit_view w b : bw_wf w -> bw_view (bw_bit w b) = bw_view w ++ [Z.b2z b] /\ bw_wf (bw_bit w b).
Proof.
  destruct w as [[done buf] n]. intros [Hn [Hb Hd]]. unfold bw_bit. rewrite b2z_if.
  destruct (Nat.eqb n 7) eqn:E.
  - apply Nat.eqb_eq in E. subst n. split.
    + unfold bw_view. cbn [rev]. rewrite unpack_bits_app. unfold unpack_bits at 2. cbn [flat_map].
      rewrite !app_nil_r, byte_bits_low, low_bits_snoc. cbn [low_bits]. now rewrite <- app_assoc.
    + unfold bw_wf. split; [lia|]. split; [cbn; lia|]. constructor; [|assumption].
      unfold byte_ok. change (2 ^ Z.of_nat 7) with 128 in Hb. destruct b; cbn [Z.b2z]; lia.
  - apply Nat.eqb_neq in E. split.
    + unfold bw_view. rewrite low_bits_snoc. now rewrite <- app_assoc.
    + unfold bw_wf. split; [lia|]. split; [|assumption].
      rewrite Nat2Z.inj_succ, Z.pow_succ_r by lia. destruct b; cbn [Z.b2z]; lia.
Qed.

Lemma b2z_b2bit x : bit01 x -> Z.b2z (b2bit x) = x.
Proof. intros [->| ->]; reflexivity. Qed.

Lemma bw_write_view bits : forall w, bw_wf w -> bits01 bits ->
  bw_view (bw_write w bits) = bw_view w ++ bits /\ bw_wf (bw_write w bits).
Proof.
  induction bits as [|x r IH]; intros w Hw Hb.
  - unfold bw_write. cbn [fold_left]. rewrite app_nil_r. split; [reflexivity|assumption].
  - inversion Hb as [|? ? Hx Hr]; subst. rewrite bw_write_cons.
    destruct (bw_bit_view w (b2bit x) Hw) as [V W]. destruct (IH _ W Hr) as [V2 W2].
    split; [|exact W2]. rewrite V2, V, b2z_b2bit by assumption. now rewrite <- app_assoc.
Qed.

Lemma repeatz_snoc x n : repeatz x n ++ [x] = repeatz x (S n).
Proof. induction n as [|n IH]; cbn; [reflexivity|]. now rewrite IH. Qed.

Lemma low_bits_shift k : forall n x,
  low_bits (n + k) (x * 2 ^ Z.of_nat k) = low_bits n x ++ repeatz 0 k.
Proof.
  induction k as [|k IH]; intros n x.
  - rewrite Nat.add_0_r. change (2 ^ Z.of_nat 0) with 1. rewrite Z.mul_1_r. cbn [repeatz]. now rewrite app_nil_r.
  - rewrite Nat.add_succ_r, Nat2Z.inj_succ, Z.pow_succ_r by lia.
    replace (x * (2 * 2 ^ Z.of_nat k)) with (2 * (x * 2 ^ Z.of_nat k) + Z.b2z false) by (cbn [Z.b2z]; lia).
    rewrite low_bits_snoc, IH. cbn [Z.b2z]. rewrite <- app_assoc. now rewrite repeatz_snoc.
Qed.

Lemma unpack_bits_length s : length (unpack_bits s) = (8 * length s)%nat.
Proof. induction s as [|b r IH]; [reflexivity|]. unfold unpack_bits in *. cbn [flat_map]. rewrite app_length, IH. cbn. lia. Qed.

(* flushing: the bits written so far followed by fewer than 8 zero bits, a whole number of bytes *)
Lemma bw_flush_view w : bw_wf w ->
  exists k, (k < 8)%nat /\ unpack_bits (bw_flush w) = bw_view w ++ repeatz 0 k /\ bytes_ok (bw_flush w).
Proof.
  destruct w as [[done buf] n]. intros [Hn [Hb Hd]]. unfold bw_flush, bw_view.
  destruct n as [|n].
  - exists 0%nat. split; [lia|]. cbn [low_bits repeatz]. split; [now rewrite !app_nil_r|]. now apply bytes_ok_rev.
  - exists (8 - S n)%nat. split; [lia|]. split.
    + cbn [rev]. rewrite unpack_bits_app, <- app_assoc. f_equal. unfold unpack_bits. cbn [flat_map]. rewrite app_nil_r, byte_bits_low.
      replace 8%nat with (S n + (8 - S n))%nat at 1 by lia. apply low_bits_shift.
    + apply bytes_ok_rev. constructor; [|assumption]. unfold byte_ok.
      assert (E : 2 ^ Z.of_nat (S n) * 2 ^ Z.of_nat (8 - S n) = 256).
      { rewrite <- Z.pow_add_r by lia. replace (Z.of_nat (S n) + Z.of_nat (8 - S n)) with 8 by lia. reflexivity. }
      pose proof (Z.pow_pos_nonneg 2 (Z.of_nat (8 - S n)) ltac:(lia) ltac:(lia)). nia.
Qed.

(* unpack_bits is injective on byte strings *)
Fixpoint zrange (n : nat) (i : Z) : list Z :=
  match n with O => [] | S k => i :: zrange k (i + 1) end.

Lemma zrange_in n : forall i x, i <= x < i + Z.of_nat n -> In x (zrange n i).
Proof.
  induction n as [|n IH]; intros i x H; [lia|]. cbn [zrange].
  destruct (Z.eq_dec x i) as [->|Ne]; [now left|right]. apply IH. lia.
Qed.

Lemma byte_of_bits_all :
  forallb (fun a => bits_to_int (byte_bits a) 0 =? a) (zrange 256 0) = true.
Proof. vm_compute. reflexivity. Qed.

Lemma byte_of_bits a : byte_ok a -> bits_to_int (byte_bits a) 0 = a.
Proof.
  intros H. pose proof byte_of_bits_all as A. rewrite forallb_forall in A.
  apply Z.eqb_eq. apply A. apply zrange_in. unfold byte_ok in H. lia.
Qed.

Lemma byte_bits_length a : length (byte_bits a) = 8%nat.
Proof. reflexivity. Qed.

Lemma unpack_bits_inj a : forall b, bytes_ok a -> bytes_ok b -> unpack_bits a = unpack_bits b -> a = b.
Proof.
  induction a as [|x a IH]; intros [|y b] Ha Hb E.
  - reflexivity.
  - apply (f_equal (@length Z)) in E. rewrite !unpack_bits_length in E. cbn in E. lia.
  - apply (f_equal (@length Z)) in E. rewrite !unpack_bits_length in E. cbn in E. lia.
  - inversion Ha as [|? ? Hx Ha']; subst. inversion Hb as [|? ? Hy Hb']; subst.
    unfold unpack_bits in E. cbn [flat_map] in E.
    assert (E1 : byte_bits x = byte_bits y).
    { apply (f_equal (firstn 8)) in E.
      now rewrite !firstn_app_exact in E by apply byte_bits_length. }
    assert (E2 : flat_map byte_bits a = flat_map byte_bits b).
    { apply (f_equal (skipn 8)) in E.
      now rewrite !skipn_app_exact in E by apply byte_bits_length. }
    f_equal.
    + rewrite <- (byte_of_bits x Hx), <- (byte_of_bits y Hy). now rewrite E1.
    + now apply IH.
Qed.

Lemma bw_empty_wf : bw_wf bw_empty.
Proof. cbn. repeat split; try lia. constructor. Qed.

(* the streaming writer = pack_bits, byte for byte *)
Lemma bw_flush_write bits : bits01 bits -> bw_flush (bw_write bw_empty bits) = pack_bits bits.
Proof.
  intros Hb. destruct (bw_write_view bits bw_empty bw_empty_wf Hb) as [V W].
  destruct (bw_flush_view _ W) as [k [Hk [U O]]].
  apply unpack_bits_inj; [exact O | apply pack_bits_ok |].
  rewrite U, V, unpack_pack_bits by assumption. cbn [bw_view bw_empty rev unpack_bits flat_map low_bits app].
  unfold pad8. f_equal. f_equal.
  (* both paddings are < 8 and complete the length to a multiple of 8 *)
  assert (L1 : length (bits ++ repeatz 0 k) = (8 * length (bw_flush (bw_write bw_empty bits)))%nat).
  { rewrite <- unpack_bits_length, U, V. reflexivity. }
  destruct (pad8_length bits) as [m L2]. unfold pad8 in L2.
  rewrite app_length, repeatz_length in L1, L2.
  pose proof (Nat.mod_upper_bound (8 - length bits mod 8) 8 ltac:(lia)). lia.
Qed.

(* the spec functions are writes of the bit lists the model builds *)
Lemma bw_unary_write q : forall w, bw_unary q w = bw_write w (repeatz 1 q ++ [0]).
Proof.
  induction q as [|q IH]; intros w; [reflexivity|].
  cbn [bw_unary repeatz app]. rewrite bw_write_cons. apply IH.
Qed.

Lemma odd_div_testbit x k : 0 <= k -> Z.odd (x / 2 ^ k) = Z.testbit x k.
Proof. intros H. rewrite Z.testbit_odd, Z.shiftr_div_pow2 by assumption. reflexivity. Qed.

Lemma bw_bits_be_write p x : forall w, bw_bits_be p x w = bw_write w (low_bits p x).
Proof.
  induction p as [|p IH]; intros w; [reflexivity|].
  cbn [bw_bits_be low_bits]. rewrite bw_write_cons, IH. f_equal. f_equal.
  rewrite odd_div_testbit by lia. unfold b2bit. now destruct (Z.testbit x (Z.of_nat p)).
Qed.

Lemma golomb_encode_write w x p : golomb_encode w x p = bw_write w (encode_golomb x p).
Proof.
  unfold golomb_encode, encode_golomb. rewrite bw_bits_be_write, bw_unary_write.
  rewrite Z.shiftr_div_pow2 by lia. now rewrite <- !bw_write_app, <- app_assoc.
Qed.

Lemma gcs_compress_write items : forall last w,
  gcs_compress items last w = bw_write w (gcs_deltas items last).
Proof.
  induction items as [|x r IH]; intros last w; [reflexivity|].
  cbn [gcs_compress gcs_deltas]. rewrite IH, golomb_encode_write. now rewrite bw_write_app.
Qed.

Lemma compact_size_varint n : 0 <= n < 18446744073709551616 -> encode_varint n = Ok (compact_size n).
Proof.
  intros H. unfold encode_varint, compact_size.
  destruct (n <? 0) eqn:E0; [apply Z.ltb_lt in E0; lia|].
  destruct (n <? 253) eqn:E1; [reflexivity|].
  destruct (n <? 65536) eqn:E2; destruct (n <=? 65535) eqn:E2'; try reflexivity;
    try (apply Z.ltb_lt in E2; apply Z.leb_gt in E2'; lia); try (apply Z.ltb_ge in E2; apply Z.leb_le in E2'; lia).
  destruct (n <? 4294967296) eqn:E3; destruct (n <=? 4294967295) eqn:E3'; try reflexivity;
    try (apply Z.ltb_lt in E3; apply Z.leb_gt in E3'; lia); try (apply Z.ltb_ge in E3; apply Z.leb_le in E3'; lia).
  destruct (n <? 18446744073709551616) eqn:E4; [reflexivity|apply Z.ltb_ge in E4; lia].
Qed.

(* serialize_gcs of ANY list of values = CompactSize count, then the streamed Golomb-Rice deltas *)
Theorem serialize_gcs_bip158 items : zlen items < 18446744073709551616 ->
  serialize_gcs items = Ok (compact_size (zlen items) ++ bw_flush (gcs_compress items 0 bw_empty)).
Proof.
  intros H. unfold serialize_gcs.
  rewrite compact_size_varint by (pose proof (zlen_nonneg items); lia). cbn [bind].
  rewrite gcs_compress_write, bw_flush_write by apply gcs_deltas_01. reflexivity.
Qed.

(* ---------------- the sort ---------------- *)
Local Notation lebR := (fun x y : Z => is_true (x <=? y)).

Lemma insert_asc_perm x l : Permutation (x :: l) (insert_asc x l).
Proof.
  induction l as [|y r IH]; cbn [insert_asc]; [apply Permutation_refl|].
  destruct (x <=? y); [apply Permutation_refl|].
  eapply perm_trans; [apply perm_swap|]. now apply perm_skip.
Qed.

Lemma insert_asc_sorted x l : StronglySorted lebR l -> StronglySorted lebR (insert_asc x l).
Proof.
  induction 1 as [|y r Hs IH Hf]; cbn [insert_asc].
  - constructor; constructor.
  - destruct (x <=? y) eqn:E.
    + constructor; [now constructor|]. constructor; [exact E|].
      rewrite Forall_forall in *. intros z Hz. specialize (Hf z Hz).
      apply Z.leb_le in E, Hf. apply Z.leb_le. lia.
    + constructor; [exact IH|]. rewrite Forall_forall in *. intros z Hz.
      apply (Permutation_in _ (Permutation_sym (insert_asc_perm x r))) in Hz.
      destruct Hz as [<-|Hz]; [|now apply Hf]. apply Z.leb_gt in E. apply Z.leb_le. lia.
Qed.

Lemma sort_asc_zsort l : sort_asc l = zsort l.
Proof.
  apply sorted_perm_eq.
  - induction l as [|x r IH]; cbn; [constructor|]. now apply insert_asc_sorted.
  - apply ZSort.StronglySorted_sort. exact lebR_trans.
  - eapply perm_trans; [|apply ZSort.Permuted_sort].
    induction l as [|x r IH]; cbn; [constructor|].
    eapply perm_trans; [apply Permutation_sym, insert_asc_perm|]. now apply perm_skip.
Qed.

(* ---------------- the whole construction ---------------- *)
Lemma hashed_map_spec key items f :
  length key = 16%nat -> bytes_ok key -> Forall bytes_ok items ->
  map_res (fun it => CFilter.hash_to_range siphash key it f) items =
  Ok (map (fun it => Spec.Bip158.hash_to_range key it f) items).
Proof.
  intros L Hk Hi. induction items as [|x r IH]; [reflexivity|].
  inversion Hi as [|? ? Hx Hr]; subst. cbn [map_res map].
  unfold CFilter.hash_to_range at 1. rewrite (siphash_eq_spec key x L Hk Hx). cbn [bind].
  rewrite (IH Hr). cbn [bind]. unfold Spec.Bip158.hash_to_range.
  rewrite Z.shiftr_div_pow2 by lia. reflexivity.
Qed.

Theorem encode_gcs_bip158 key items :
  length key = 16%nat -> bytes_ok key -> Forall bytes_ok items -> zlen items < 18446744073709551616 ->
  encode_gcs siphash key items = Ok (Spec.Bip158.filter_bytes key items).
Proof.
  intros L Hk Hi Hn. unfold encode_gcs, hashed_items.
  change GOLOMB_M with M158.
  rewrite (hashed_map_spec key items _ L Hk Hi). cbn [bind].
  rewrite serialize_gcs_bip158.
  - unfold Spec.Bip158.filter_bytes, construct_gcs, hashed_set. rewrite sort_asc_zsort.
    f_equal. f_equal. unfold zlen. now rewrite zsort_length, map_length.
  - unfold zlen. rewrite zsort_length, map_length. exact Hn.
Qed.

(* ================================================================== *)
(* (B) reader                                                          *)

(* the bits a reader state has not consumed yet *)
Definition br_view (r : bitr) : list Z := skipn (snd r) (unpack_bits (fst r)).
Definition br_wf (r : bitr) : Prop := (snd r < 8)%nat.

Lemma byte_bits_01 b : bits01 (byte_bits b).
Proof. rewrite byte_bits_low. apply low_bits_01. Qed.

Lemma unpack_bits_01 s : bits01 (unpack_bits s).
Proof.
  induction s as [|b r IH]; [constructor|]. unfold unpack_bits, bits01 in *. cbn [flat_map].
  apply Forall_app. split; [apply byte_bits_01|exact IH].
Qed.

Lemma br_view_01 r : bits01 (br_view r).
Proof.
  unfold br_view. pose proof (unpack_bits_01 (fst r)) as H. unfold bits01 in *.
  rewrite <- (firstn_skipn (snd r) (unpack_bits (fst r))) in H. now apply Forall_app in H.
Qed.

Lemma br_view_length r : (length (br_view r) <= 8 * length (fst r))%nat.
Proof. unfold br_view. rewrite skipn_length, unpack_bits_length. lia. Qed.

Lemma b2bit_if (c : bool) : b2bit (if c then 1 else 0) = c.
Proof. now destruct c. Qed.

Lemma read_bit_view r : br_wf r ->
  match br_view r with
  | [] => read_bit r = None
  | v :: t => exists r', read_bit r = Some (b2bit v, r') /\ br_view r' = t /\ br_wf r'
  end.
Proof.
  destruct r as [s k]. unfold br_wf, br_view. cbn [fst snd]. intros Hk.
  destruct s as [|b t].
  - unfold unpack_bits. cbn [flat_map]. now rewrite skipn_nil.
  - unfold unpack_bits. cbn [flat_map]. fold (unpack_bits t). unfold read_bit.
    do 8 (destruct k as [|k];
          [ cbn [byte_bits map skipn app Nat.eqb Nat.sub]; eexists; split;
            [ rewrite b2bit_if, odd_div_testbit by lia; reflexivity
            | split; [reflexivity | cbn [snd]; lia] ] | ]).
    lia.
Qed.

Lemma read_unary_ok bits : forall q q' rest,
  golomb_unary bits q = Ok (q', rest) ->
  forall fuel r, br_wf r -> br_view r = bits -> (length bits < fuel)%nat ->
  q <= q' /\ exists r', read_unary fuel r q = Some (q', r') /\ br_view r' = rest /\ br_wf r'.
Proof.
  induction bits as [|b t IH]; intros q q' rest H fuel r Hw Hv Hf; [discriminate|].
  destruct fuel as [|f]; [cbn in Hf; lia|]. cbn [read_unary].
  pose proof (read_bit_view r Hw) as R. rewrite Hv in R. destruct R as [r' [E [V W]]]. rewrite E.
  cbn [golomb_unary] in H. unfold b2bit. destruct (b =? 0) eqn:B; cbn [negb].
  - injection H as <- <-. split; [lia|]. exists r'. repeat split; assumption.
  - destruct (IH _ _ _ H f r' W V ltac:(cbn in Hf; lia)) as [L X]. split; [lia|exact X].
Qed.

Lemma read_bits_be_ok p : forall bits acc x rest,
  golomb_rem p bits acc = Ok (x, rest) -> 0 <= acc ->
  forall r, br_wf r -> br_view r = bits ->
  0 <= x /\ exists r', read_bits_be p r acc = Some (x, r') /\ br_view r' = rest /\ br_wf r'.
Proof.
  induction p as [|p IH]; intros bits acc x rest H Ha r Hw Hv.
  - cbn in H. injection H as <- <-. split; [assumption|]. exists r. repeat split; assumption.
  - cbn [golomb_rem] in H. destruct bits as [|b t]; [discriminate|].
    pose proof (br_view_01 r) as B01. rewrite Hv in B01. inversion B01 as [|? ? Hb _]; subst.
    pose proof (read_bit_view r Hw) as R. rewrite Hv in R. destruct R as [r' [E [V W]]].
    cbn [read_bits_be]. rewrite E.
    assert (Eacc : 2 * acc + (if b2bit b then 1 else 0) = (if b =? 1 then 2 * acc + 1 else 2 * acc)).
    { destruct Hb as [->| ->]; cbn; lia. }
    rewrite Eacc. apply (IH _ _ _ _ H); try assumption. destruct (b =? 1); lia.
Qed.

Lemma golomb_decode_ok bits p x rest r :
  decode_golomb bits p = Ok (x, rest) -> br_wf r -> br_view r = bits ->
  0 <= x /\ exists r', golomb_decode r p = Some (x, r') /\ br_view r' = rest /\ br_wf r'.
Proof.
  unfold decode_golomb. intros H Hw Hv.
  destruct (golomb_unary bits 0) as [[q b1]|] eqn:E1; [|discriminate]. cbn [bind] in H.
  destruct (golomb_rem p b1 0) as [[x1 b2]|] eqn:E2; [|discriminate]. cbn [bind] in H.
  injection H as <- <-.
  destruct (read_unary_ok bits 0 q b1 E1 (S (8 * length (fst r))) r Hw Hv) as [Hq [r1 [R1 [V1 W1]]]].
  { rewrite <- Hv. pose proof (br_view_length r). lia. }
  destruct (read_bits_be_ok p b1 0 x1 b2 E2 ltac:(lia) r1 W1 V1) as [Hx [r2 [R2 [V2 W2]]]].
  split.
  - rewrite Z.shiftl_mul_pow2 by lia. pose proof (Z.pow_pos_nonneg 2 (Z.of_nat p) ltac:(lia) ltac:(lia)). nia.
  - exists r2. unfold golomb_decode. rewrite R1, R2. rewrite Z.shiftl_mul_pow2 by lia. repeat split; assumption.
Qed.

Lemma ascending_ge l : forall a x, ascending a l -> In x l -> a <= x.
Proof.
  induction l as [|y r IH]; intros a x H Hx; [contradiction|]. destruct H as [H1 H2].
  destruct Hx as [<-|Hx]; [assumption|]. specialize (IH y x H2 Hx). lia.
Qed.

(* a decoded value is never negative (whatever the bit list holds) *)
Lemma golomb_unary_ge bits : forall q q' rest, golomb_unary bits q = Ok (q', rest) -> q <= q'.
Proof.
  induction bits as [|b t IH]; intros q q' rest H; [discriminate|].
  cbn [golomb_unary] in H. destruct (b =? 0); [injection H as <- <-; lia|].
  specialize (IH _ _ _ H). lia.
Qed.

Lemma golomb_rem_nonneg p : forall bits acc x rest, golomb_rem p bits acc = Ok (x, rest) -> 0 <= acc -> 0 <= x.
Proof.
  induction p as [|p IH]; intros bits acc x rest H Ha.
  - cbn in H. injection H as <- <-. assumption.
  - cbn [golomb_rem] in H. destruct bits as [|b t]; [discriminate|].
    apply (IH _ _ _ _ H). destruct (b =? 1); lia.
Qed.

Lemma decode_golomb_nonneg bits p x rest : decode_golomb bits p = Ok (x, rest) -> 0 <= x.
Proof.
  unfold decode_golomb. intros H.
  destruct (golomb_unary bits 0) as [[q b1]|] eqn:E1; [|discriminate]. cbn [bind] in H.
  destruct (golomb_rem p b1 0) as [[x1 b2]|] eqn:E2; [|discriminate]. cbn [bind] in H.
  injection H as <- <-.
  pose proof (golomb_unary_ge _ _ _ _ E1). pose proof (golomb_rem_nonneg _ _ _ _ _ E2 ltac:(lia)).
  rewrite Z.shiftl_mul_pow2 by lia. pose proof (Z.pow_pos_nonneg 2 (Z.of_nat p) ltac:(lia) ltac:(lia)). nia.
Qed.

(* whatever decode_gcs returns, the streaming loops of the BIP walk the same values *)
Lemma gcs_loop_spec fuel : forall n bits cur acc l,
  gcs_loop fuel n bits cur acc = Ok l ->
  exists suf, l = rev acc ++ suf /\ zlen suf = Z.max 0 n /\ ascending cur suf /\
    forall r, br_wf r -> br_view r = bits ->
      decompress_loop (Z.to_nat n) r cur = Some suf /\
      forall target, match_loop (Z.to_nat n) r cur target = Some (zmem target suf).
Proof.
  induction fuel as [|f IH]; intros n bits cur acc l H.
  - cbn [gcs_loop] in H. destruct (n <=? 0) eqn:E; [|discriminate]. apply Z.leb_le in E.
    injection H as <-. exists []. rewrite app_nil_r. repeat split; try (cbn; lia).
    + replace (Z.to_nat n) with 0%nat by lia. reflexivity.
    + intros target. replace (Z.to_nat n) with 0%nat by lia. reflexivity.
  - cbn [gcs_loop] in H. destruct (n <=? 0) eqn:E.
    + apply Z.leb_le in E. injection H as <-. exists []. rewrite app_nil_r. repeat split; try (cbn; lia).
      * replace (Z.to_nat n) with 0%nat by lia. reflexivity.
      * intros target. replace (Z.to_nat n) with 0%nat by lia. reflexivity.
    + apply Z.leb_gt in E.
      destruct (decode_golomb bits GOLOMB_P) as [[d bits']|] eqn:D; [|discriminate]. cbn [bind] in H.
      destruct (IH _ _ _ _ _ H) as [suf [El [Ls [As Sp]]]].
      exists ((cur + d) :: suf). split; [rewrite El; cbn [rev]; now rewrite <- app_assoc|].
      split; [unfold zlen in *; cbn [length]; lia|].
      assert (En : Z.to_nat n = S (Z.to_nat (n - 1))) by lia.
      split; [split; [pose proof (decode_golomb_nonneg _ _ _ _ D); lia | exact As]|].
      intros r Hw Hv.
      destruct (golomb_decode_ok bits GOLOMB_P d bits' r D Hw Hv) as [Hd [r' [G [V W]]]].
      destruct (Sp r' W V) as [Sd Sm].
      rewrite En. cbn [decompress_loop match_loop]. change P158 with GOLOMB_P. rewrite G, Sd.
      split; [reflexivity|]. intros target. cbv zeta.
      unfold zmem. cbn [existsb]. fold (zmem target suf). rewrite (Z.eqb_sym target (cur + d)).
      destruct (cur + d =? target) eqn:Eq; [reflexivity|]. cbn [orb].
      destruct (target <? cur + d) eqn:Lt; [|apply Sm].
      apply Z.ltb_lt in Lt. symmetry. destruct (zmem target suf) eqn:Zm; [|reflexivity].
      apply zmem_in in Zm. pose proof (ascending_ge _ _ _ As Zm). lia.
Qed.

Lemma read_varint_nonneg s n r : bytes_ok s -> read_varint s = Ok (n, r) -> 0 <= n.
Proof.
  intros Hs. unfold read_varint. destruct s as [|i t]; [discriminate|].
  inversion Hs as [|? ? Hi Ht]; subst.
  assert (F : forall k, 0 <= from_le (firstn k t))
    by (intros k; pose proof (from_le_bound _ (bytes_ok_firstn k t Ht)); lia).
  destruct (i =? 253); [|destruct (i =? 254); [|destruct (i =? 255)]]; intros H; injection H as Hn _; subst n;
    first [apply (F 2%nat) | apply (F 4%nat) | apply (F 8%nat) | unfold byte_ok in Hi; lia].
Qed.

(* decode_gcs = CompactSize count, then gcs decompression of the BIP on the remaining bytes *)
Theorem decode_gcs_decompress fb n r l :
  read_varint fb = Ok (n, r) -> decode_gcs fb = Ok l ->
  gcs_decompress r n = Some l /\ zlen l = Z.max 0 n /\ ascending 0 l.
Proof.
  intros Hv. unfold decode_gcs. rewrite Hv. cbn [bind]. intros H.
  destruct (gcs_loop_spec _ _ _ _ _ _ H) as [suf [El [Ls [As Sp]]]]. cbn [rev app] in El. subst suf.
  destruct (Sp (r, 0%nat)) as [Sd _]; [unfold br_wf; cbn; lia | reflexivity |].
  repeat split; assumption.
Qed.

(* CompactFilter.parse(key, fb).__contains__ = gcs_match of BIP158, on EVERY filter that parses *)
Theorem cf_contains_bip158_match key fb n r cf x :
  length key = 16%nat -> bytes_ok key -> bytes_ok x -> bytes_ok fb ->
  read_varint fb = Ok (n, r) -> cf_parse key fb = Ok cf ->
  cf_f cf = n * M158 /\ gcs_decompress r n = Some (cf_hashes cf) /\
  exists b, cf_contains siphash cf x = Ok b /\ gcs_match key r x n = Some b.
Proof.
  intros L Hk Hx Hfb Hv. unfold cf_parse.
  destruct (decode_gcs fb) as [l|] eqn:D; [|discriminate]. cbn [bind]. intros [= <-].
  pose proof (read_varint_nonneg _ _ _ Hfb Hv) as Hn.
  assert (D' := D). unfold decode_gcs in D'. rewrite Hv in D'. cbn [bind] in D'.
  destruct (gcs_loop_spec _ _ _ _ _ _ D') as [suf [El [Ls [As Sp]]]]. cbn [rev app] in El. subst suf.
  destruct (Sp (r, 0%nat)) as [Sd Sm]; [unfold br_wf; cbn; lia | reflexivity |].
  assert (Ef : cf_f (cf_new key l) = n * M158).
  { unfold cf_new. cbn [cf_f]. rewrite Ls, Z.max_r by lia. reflexivity. }
  split; [exact Ef|]. split; [exact Sd|].
  unfold cf_contains, cf_compute_hash. rewrite Ef. cbn [cf_new cf_key cf_hashes].
  unfold CFilter.hash_to_range. rewrite (siphash_eq_spec key x L Hk Hx). cbn [bind].
  eexists. split; [reflexivity|]. unfold gcs_match.
  rewrite Sm. unfold Spec.Bip158.hash_to_range. now rewrite Z.shiftr_div_pow2 by lia.
Qed.

Lemma read_compact_size n rest : 0 <= n < 18446744073709551616 ->
  read_varint (compact_size n ++ rest) = Ok (n, rest).
Proof.
  intros H. destruct (varint_roundtrip n rest H) as [b [E R]].
  rewrite compact_size_varint in E by assumption. injection E as <-. exact R.
Qed.

(* the filter BIP158 defines for a block, queried through the library: the answer is the BIP's gcs_match,
   and it is True for every element of the filter *)
Theorem bip158_filter_query key items x :
  length key = 16%nat -> bytes_ok key -> Forall bytes_ok items -> zlen items < 18446744073709551616 ->
  bytes_ok x ->
  exists cf b, cf_parse key (Spec.Bip158.filter_bytes key items) = Ok cf /\
    cf_contains siphash cf x = Ok b /\
    gcs_match key (construct_gcs key items) x (zlen items) = Some b /\
    gcs_decompress (construct_gcs key items) (zlen items) = Some (sort_asc (hashed_set key items)) /\
    (In x items -> b = true).
Proof.
  intros L Hk Hi Hn Hx.
  pose proof (encode_gcs_bip158 key items L Hk Hi Hn) as He.
  pose proof (siphash_range key items L Hk Hi) as Hr.
  destruct (cf_no_false_negative siphash key items _ Hr He) as [cf [Ep [_ [_ Hc]]]].
  assert (Hv : read_varint (Spec.Bip158.filter_bytes key items) = Ok (zlen items, construct_gcs key items)).
  { unfold Spec.Bip158.filter_bytes. apply read_compact_size. pose proof (zlen_nonneg items). lia. }
  assert (Hok : bytes_ok (Spec.Bip158.filter_bytes key items)).
  { unfold encode_gcs in He. destruct (hashed_items siphash key items) as [l|]; [|discriminate]. cbn [bind] in He.
    unfold serialize_gcs in He. destruct (encode_varint (zlen l)) as [nb|] eqn:En; [|discriminate]. cbn [bind] in He.
    injection He as <-. apply bytes_ok_app. split; [eapply encode_varint_ok; exact En | apply pack_bits_ok]. }
  destruct (cf_contains_bip158_match key _ _ _ cf x L Hk Hx Hok Hv Ep) as [_ [Sd [b [Eb Em]]]].
  exists cf, b. split; [exact Ep|]. split; [exact Eb|]. split; [exact Em|]. split.
  - rewrite Sd. f_equal.
    destruct (encode_decode_gcs siphash key items _ Hr He) as [l [Eh Ed]].
    unfold cf_parse in Ep. rewrite Ed in Ep. cbn [bind] in Ep. injection Ep as <-. cbn [cf_new cf_hashes].
    unfold hashed_items in Eh. change GOLOMB_M with M158 in Eh.
    rewrite (hashed_map_spec key items _ L Hk Hi) in Eh. cbn [bind] in Eh. injection Eh as <-.
    unfold hashed_set. now rewrite sort_asc_zsort.
  - intros Hin. specialize (Hc x Hin). congruence.
Qed.

(* ================================================================== *)
(* (B') the failure direction: when decode_gcs raises, the BIP's reader runs off the stream too *)

Lemma read_unary_err bits : forall q, golomb_unary bits q = Err ->
  forall fuel r, br_wf r -> br_view r = bits -> read_unary fuel r q = None.
Proof.
  induction bits as [|b t IH]; intros q H fuel r Hw Hv.
  - destruct fuel as [|f]; [reflexivity|]. cbn [read_unary].
    pose proof (read_bit_view r Hw) as R. rewrite Hv in R. now rewrite R.
  - destruct fuel as [|f]; [reflexivity|]. cbn [read_unary].
    pose proof (read_bit_view r Hw) as R. rewrite Hv in R. destruct R as [r' [E [V W]]]. rewrite E.
    cbn [golomb_unary] in H. unfold b2bit. destruct (b =? 0); [discriminate|]. cbn [negb].
    now apply IH.
Qed.

Lemma read_bits_be_err p : forall bits acc, golomb_rem p bits acc = Err ->
  forall r, br_wf r -> br_view r = bits -> read_bits_be p r acc = None.
Proof.
  induction p as [|p IH]; intros bits acc H r Hw Hv; [discriminate|].
  cbn [golomb_rem] in H. cbn [read_bits_be].
  pose proof (read_bit_view r Hw) as R. rewrite Hv in R.
  destruct bits as [|b t]; [now rewrite R|].
  destruct R as [r' [E [V W]]]. rewrite E.
  pose proof (br_view_01 r) as B01. rewrite Hv in B01. inversion B01 as [|? ? Hb _]; subst.
  assert (Eacc : 2 * acc + (if b2bit b then 1 else 0) = (if b =? 1 then 2 * acc + 1 else 2 * acc)).
  { destruct Hb as [->| ->]; cbn; lia. }
  rewrite Eacc. now apply (IH _ _ H).
Qed.

Lemma golomb_decode_err bits p r :
  decode_golomb bits p = Err -> br_wf r -> br_view r = bits -> golomb_decode r p = None.
Proof.
  unfold decode_golomb, golomb_decode. intros H Hw Hv.
  destruct (golomb_unary bits 0) as [[q b1]|] eqn:E1.
  - cbn [bind] in H.
    destruct (read_unary_ok bits 0 q b1 E1 (S (8 * length (fst r))) r Hw Hv) as [_ [r1 [R1 [V1 W1]]]].
    { rewrite <- Hv. pose proof (br_view_length r). lia. }
    rewrite R1. destruct (golomb_rem p b1 0) as [[x1 b2]|] eqn:E2; [discriminate|].
    now rewrite (read_bits_be_err p b1 0 E2 r1 W1 V1).
  - now rewrite (read_unary_err bits 0 E1 _ r Hw Hv).
Qed.

Lemma golomb_unary_shrinks bits : forall q q' rest,
  golomb_unary bits q = Ok (q', rest) -> (length rest < length bits)%nat.
Proof.
  induction bits as [|b t IH]; intros q q' rest H; [discriminate|].
  cbn [golomb_unary] in H. destruct (b =? 0); [injection H as <- <-; cbn; lia|].
  specialize (IH _ _ _ H). cbn [length]. lia.
Qed.

Lemma golomb_rem_shrinks p : forall bits acc x rest,
  golomb_rem p bits acc = Ok (x, rest) -> (length rest <= length bits)%nat.
Proof.
  induction p as [|p IH]; intros bits acc x rest H.
  - cbn in H. injection H as <- <-. lia.
  - cbn [golomb_rem] in H. destruct bits as [|b t]; [discriminate|]. specialize (IH _ _ _ _ H). cbn [length]. lia.
Qed.

Lemma decode_golomb_shrinks bits p x rest :
  decode_golomb bits p = Ok (x, rest) -> (length rest < length bits)%nat.
Proof.
  unfold decode_golomb. intros H.
  destruct (golomb_unary bits 0) as [[q b1]|] eqn:E1; [|discriminate]. cbn [bind] in H.
  destruct (golomb_rem p b1 0) as [[x1 b2]|] eqn:E2; [|discriminate]. cbn [bind] in H.
  injection H as <- <-.
  pose proof (golomb_unary_shrinks _ _ _ _ E1). pose proof (golomb_rem_shrinks _ _ _ _ _ E2). lia.
Qed.

Lemma gcs_loop_err fuel : forall n bits cur acc,
  (length bits <= fuel)%nat -> gcs_loop fuel n bits cur acc = Err ->
  forall r, br_wf r -> br_view r = bits -> decompress_loop (Z.to_nat n) r cur = None.
Proof.
  induction fuel as [|f IH]; intros n bits cur acc Hf H r Hw Hv.
  - cbn [gcs_loop] in H. destruct (n <=? 0) eqn:E; [discriminate|]. apply Z.leb_gt in E.
    assert (Eb : bits = []) by (destruct bits; [reflexivity|cbn in Hf; lia]). rewrite Eb in Hv.
    replace (Z.to_nat n) with (S (Z.to_nat (n - 1))) by lia. cbn [decompress_loop].
    now rewrite (golomb_decode_err [] P158 r eq_refl Hw Hv).
  - cbn [gcs_loop] in H. destruct (n <=? 0) eqn:E; [discriminate|]. apply Z.leb_gt in E.
    replace (Z.to_nat n) with (S (Z.to_nat (n - 1))) by lia. cbn [decompress_loop].
    destruct (decode_golomb bits GOLOMB_P) as [[d bits']|] eqn:D.
    + cbn [bind] in H.
      destruct (golomb_decode_ok bits GOLOMB_P d bits' r D Hw Hv) as [_ [r' [G [V W]]]].
      change P158 with GOLOMB_P. rewrite G.
      pose proof (decode_golomb_shrinks _ _ _ _ D) as Sh.
      assert (Hf' : (length bits' <= f)%nat) by lia.
      now rewrite (IH _ _ _ _ Hf' H r' W V).
    + change P158 with GOLOMB_P. now rewrite (golomb_decode_err bits GOLOMB_P r D Hw Hv).
Qed.

(* decode_gcs = CompactSize count + the gcs decompression of BIP158, on ALL inputs (raises exactly when the
   BIP's reader runs off the end of the stream) *)
Theorem decode_gcs_eq_decompress fb n r :
  read_varint fb = Ok (n, r) ->
  decode_gcs fb = match gcs_decompress r n with Some l => Ok l | None => Err end.
Proof.
  intros Hv. destruct (decode_gcs fb) as [l|] eqn:D.
  - destruct (decode_gcs_decompress fb n r l Hv D) as [-> _]. reflexivity.
  - unfold decode_gcs in D. rewrite Hv in D. cbn [bind] in D. unfold gcs_decompress.
    rewrite (gcs_loop_err _ _ _ _ _ (le_n _) D (r, 0%nat)); [reflexivity | unfold br_wf; cbn; lia | reflexivity].
Qed.

Lemma decode_gcs_no_count fb : read_varint fb = Err -> decode_gcs fb = Err.
Proof. intros H. unfold decode_gcs. now rewrite H. Qed.
