(* Proofs/TaprootCodecP.v — ControlBlock.parse / serialize / __eq__ as a codec:
   parse accepts exactly the lengths 33 + 32 m (m <= 128) whose key bytes lift; every accepted
   byte string is the serialisation of the parsed control block (converse round trip), so parse is
   injective and ControlBlock.__eq__ on parsed blocks is equality of the wire bytes; with the
   x-only lift hypothesis, parse (serialize cb) is `==` to cb.  No hash hypotheses. *)
From V Require Import Base.Prelude Base.Ints Model.Helper Model.Script Model.Pecc Model.Taproot
  Model.TaprootExt Proofs.GroupHyp Proofs.CurveAlg Proofs.TaprootP Proofs.TaprootTamper
  Proofs.TaprootBytes Proofs.TaprootLift.

(* the lengths ControlBlock.parse accepts *)
Definition cb_len_ok (len : nat) : Prop := exists m, (m <= 128)%nat /\ len = (33 + 32 * m)%nat.

Lemma cb_len_ok_guards (raw : bytes) :
  cb_len_ok (length raw) <-> zlen raw mod 32 = 1 /\ 33 <= zlen raw <= 33 + 128 * 32.
Proof.
  unfold cb_len_ok, zlen. split.
  - intros (m & Hm & ->). split; [|lia].
    replace (Z.of_nat (33 + 32 * m)) with (1 + (1 + Z.of_nat m) * 32) by lia.
    rewrite Z.mod_add by lia. reflexivity.
  - intros [Hmod Hr]. set (L := Z.of_nat (length raw)) in *.
    pose proof (Z.div_mod (L - 33) 32 ltac:(lia)) as Hd.
    assert (Hm0 : (L - 33) mod 32 = 0) by (rewrite Zminus_mod, Hmod; reflexivity).
    rewrite Hm0 in Hd.
    assert (Hq : 0 <= (L - 33) / 32) by (apply Z.div_pos; lia).
    exists (Z.to_nat ((L - 33) / 32)). split; [lia|].
    apply Nat2Z.inj. rewrite Nat2Z.inj_add, Nat2Z.inj_mul, Z2Nat.id by lia. fold L. lia.
Qed.

(* ---------------- chunks32 ---------------- *)
Lemma chunks32_length m : forall b, length (chunks32 m b) = m.
Proof. induction m as [|m IH]; intros b; cbn [chunks32 length]; [reflexivity | now rewrite IH]. Qed.

Lemma chunks32_len32 m : forall b, (32 * m <= length b)%nat -> Forall len32 (chunks32 m b).
Proof.
  induction m as [|m IH]; intros b H; cbn [chunks32]; constructor.
  - unfold len32. rewrite firstn_length. lia.
  - apply IH. rewrite skipn_length. lia.
Qed.

Lemma concat_chunks32 m : forall b, length b = (32 * m)%nat -> concat (chunks32 m b) = b.
Proof.
  induction m as [|m IH]; intros b H; cbn [chunks32 concat].
  - destruct b; [reflexivity | cbn in H; lia].
  - rewrite IH by (rewrite skipn_length; lia). apply firstn_skipn.
Qed.

Section Codec.
Variable C : curve.

(* what parse computes on an accepted length *)
Lemma cb_parse_unfold b0 rest m :
  (m <= 128)%nat -> length rest = (32 + 32 * m)%nat ->
  cb_parse C (b0 :: rest) =
    (k <- parse_xonly C (firstn 32 rest) ;;
     Ok {| cb_version := Z.land b0 254; cb_parity := Z.land b0 1; cb_key := k;
           cb_hashes := chunks32 m (skipn 32 rest) |}).
Proof.
  intros Hm Hl. unfold cb_parse.
  assert (Hz : zlen (b0 :: rest) = 1 + (1 + Z.of_nat m) * 32) by (unfold zlen; cbn [length]; lia).
  rewrite Hz. rewrite Z.mod_add by lia. change (1 mod 32 =? 1) with true. cbn [negb].
  destruct (1 + (1 + Z.of_nat m) * 32 <? 33) eqn:E1; [lia|].
  destruct (33 + 128 * 32 <? 1 + (1 + Z.of_nat m) * 32) eqn:E2; [lia|]. cbn [orb].
  replace ((1 + (1 + Z.of_nat m) * 32 - 33) / 32) with (Z.of_nat m).
  2:{ replace (1 + (1 + Z.of_nat m) * 32 - 33) with (Z.of_nat m * 32) by lia. now rewrite Z.div_mul by lia. }
  now rewrite Nat2Z.id.
Qed.

Lemma cb_parse_ok_len raw cb : cb_parse C raw = Ok cb -> cb_len_ok (length raw).
Proof.
  unfold cb_parse. intros H.
  destruct (zlen raw mod 32 =? 1) eqn:E1; [|discriminate]. cbn [negb] in H.
  destruct (zlen raw <? 33) eqn:E2; [discriminate|].
  destruct (33 + 128 * 32 <? zlen raw) eqn:E3; [discriminate|].
  apply cb_len_ok_guards. apply Z.eqb_eq in E1. lia.
Qed.

(* rejection outside the lengths 33 + 32 m, m <= 128 *)
Theorem cb_parse_rejects_length raw : ~ cb_len_ok (length raw) -> cb_parse C raw = Err.
Proof.
  intros N. destruct (cb_parse C raw) as [cb|] eqn:E; [|reflexivity].
  exfalso. exact (N (cb_parse_ok_len raw cb E)).
Qed.

(* ... and acceptance exactly when, in addition, the 32 key bytes lift *)
Theorem cb_parse_accepts_iff raw :
  (exists cb, cb_parse C raw = Ok cb) <->
  cb_len_ok (length raw) /\ exists k, parse_xonly C (firstn 32 (tl raw)) = Ok k.
Proof.
  split.
  - intros [cb H]. pose proof (cb_parse_ok_len raw cb H) as L. split; [exact L|].
    destruct L as (m & Hm & Hl). destruct raw as [|b0 rest]; [cbn in Hl; lia|].
    cbn [length] in Hl. rewrite (cb_parse_unfold b0 rest m Hm ltac:(lia)) in H. cbn [tl].
    destruct (parse_xonly C (firstn 32 rest)) as [k|]; [eauto | discriminate].
  - intros [(m & Hm & Hl) [k Hk]]. destruct raw as [|b0 rest]; [cbn in Hl; lia|].
    cbn [length] in Hl. cbn [tl] in Hk. rewrite (cb_parse_unfold b0 rest m Hm ltac:(lia)), Hk. cbn [bind]. eauto.
Qed.

(* everything parse returns is a well-formed control block, and its fields are slices of the input *)
Theorem cb_parse_wf raw cb :
  bytes_ok raw -> cb_parse C raw = Ok cb ->
  0 <= cb_version cb <= 254 /\ cb_version cb mod 2 = 0 /\
  (cb_parity cb = 0 \/ cb_parity cb = 1) /\
  Forall len32 (cb_hashes cb) /\ (length (cb_hashes cb) <= 128)%nat /\
  length raw = (33 + 32 * length (cb_hashes cb))%nat /\
  [cb_version cb + cb_parity cb] = firstn 1 raw /\
  xonly (cb_key cb) = firstn 32 (skipn 1 raw) /\
  concat (cb_hashes cb) = skipn 33 raw.
Proof.
  intros Hok H. destruct (cb_parse_ok_len raw cb H) as (m & Hm & Hl).
  destruct raw as [|b0 rest]; [cbn in Hl; lia|]. cbn [length] in Hl.
  assert (Hlr : length rest = (32 + 32 * m)%nat) by lia.
  rewrite (cb_parse_unfold b0 rest m Hm Hlr) in H.
  destruct (parse_xonly C (firstn 32 rest)) as [k|] eqn:Ek; [|discriminate]. cbn [bind] in H.
  assert (Hcb : cb = {| cb_version := Z.land b0 254; cb_parity := Z.land b0 1; cb_key := k;
                        cb_hashes := chunks32 m (skipn 32 rest) |}) by congruence.
  subst cb. cbn [cb_version cb_parity cb_key cb_hashes].
  inversion Hok as [|? ? Hb0 Hrest]; subst.
  destruct (byte_land b0 Hb0) as [L1 L2]. rewrite L1, L2.
  pose proof (Z.mod_pos_bound b0 2 ltac:(lia)) as Hr.
  pose proof (Z.div_mod b0 2 ltac:(lia)) as Hd.
  rewrite chunks32_length.
  repeat split.
  - unfold byte_ok in Hb0. lia.
  - unfold byte_ok in Hb0. lia.
  - replace (b0 - b0 mod 2) with (b0 / 2 * 2) by lia. apply Z.mod_mul. lia.
  - lia.
  - apply chunks32_len32. rewrite skipn_length. lia.
  - exact Hm.
  - cbn [length]. lia.
  - cbn [firstn]. f_equal. lia.
  - cbn [skipn]. apply (parse_xonly_bytes C); [exact Ek | now apply bytes_ok_firstn |].
    rewrite firstn_length. lia.
  - change (skipn 33 (b0 :: rest)) with (skipn 32 rest).
    apply concat_chunks32. rewrite skipn_length. lia.
Qed.

(* the converse round trip: every accepted byte string is the serialisation of what it parses to *)
Theorem cb_serialize_parse raw cb :
  bytes_ok raw -> cb_parse C raw = Ok cb -> cb_serialize cb = Ok raw.
Proof.
  intros Hok H.
  destruct (cb_parse_wf raw cb Hok H) as (Hv & _ & Hp & _ & _ & Hl & H0 & Hk & Hh).
  unfold cb_serialize, int_to_byte.
  destruct (255 <? cb_version cb + cb_parity cb) eqn:E1; [lia|].
  destruct (cb_version cb + cb_parity cb <? 0) eqn:E2; [lia|]. cbn [orb bind].
  rewrite H0, Hk, Hh. f_equal.
  destruct raw as [|b0 rest]; [cbn in Hl; lia|].
  change (firstn 1 (b0 :: rest)) with [b0]. change (skipn 1 (b0 :: rest)) with rest.
  change (skipn 33 (b0 :: rest)) with (skipn 32 rest). cbn [app]. f_equal.
  apply firstn_skipn.
Qed.

(* parse is injective on byte strings *)
Theorem cb_parse_inj raw raw' cb :
  bytes_ok raw -> bytes_ok raw' -> cb_parse C raw = Ok cb -> cb_parse C raw' = Ok cb -> raw = raw'.
Proof.
  intros O O' H H'. pose proof (cb_serialize_parse raw cb O H) as S.
  pose proof (cb_serialize_parse raw' cb O' H') as S'. congruence.
Qed.

(* ControlBlock.__eq__ on two parsed control blocks is equality of the wire bytes *)
Theorem cb_eqb_parsed raw raw' a b :
  bytes_ok raw -> bytes_ok raw' -> cb_parse C raw = Ok a -> cb_parse C raw' = Ok b ->
  cb_eqb a b = Ok (beq raw raw').
Proof.
  intros O O' H H'. unfold cb_eqb.
  rewrite (cb_serialize_parse raw a O H), (cb_serialize_parse raw' b O' H'). reflexivity.
Qed.

(* __eq__ is reflexive whenever serialize succeeds, and decides equality of the serialisations *)
Lemma cb_eqb_spec a b sa sb :
  cb_serialize a = Ok sa -> cb_serialize b = Ok sb -> cb_eqb a b = Ok true <-> sa = sb.
Proof.
  intros Ha Hb. unfold cb_eqb. rewrite Ha, Hb. cbn [bind]. split.
  - intros [= E]. now apply beq_eq.
  - intros ->. now rewrite beq_refl.
Qed.

(* parse (serialize cb) with the key lifted: every field is recovered, the key as its even-y
   representative, and the result is `==` to cb *)
Theorem cb_roundtrip_lift cb :
  scalar_laws C -> lift_x_ok C ->
  valid C (cb_key cb) -> cb_key cb <> None ->
  0 <= cb_version cb <= 254 -> cb_version cb mod 2 = 0 ->
  (cb_parity cb = 0 \/ cb_parity cb = 1) ->
  Forall len32 (cb_hashes cb) -> (length (cb_hashes cb) <= 128)%nat ->
  exists raw cb',
    cb_serialize cb = Ok raw /\ length raw = (33 + 32 * length (cb_hashes cb))%nat /\
    cb_parse C raw = Ok cb' /\
    cb' = {| cb_version := cb_version cb; cb_parity := cb_parity cb;
             cb_key := evenT C (cb_key cb); cb_hashes := cb_hashes cb |} /\
    cb_serialize cb' = Ok raw /\ cb_eqb cb' cb = Ok true.
Proof.
  intros SL LIFT Hv Hn Hver Hev Hpar Hhs Hlen.
  destruct (cb_roundtrip C cb Hver Hev Hpar Hhs Hlen) as (raw & Hs & Hl & Hp).
  rewrite (lift_x_point C LIFT _ Hv Hn) in Hp. cbn [bind] in Hp.
  eexists raw, _. split; [exact Hs|]. split; [exact Hl|]. split; [exact Hp|]. split; [reflexivity|].
  assert (Hs' : cb_serialize {| cb_version := cb_version cb; cb_parity := cb_parity cb;
                                cb_key := evenT C (cb_key cb); cb_hashes := cb_hashes cb |} = Ok raw).
  { unfold cb_serialize in *. cbn [cb_version cb_parity cb_key cb_hashes].
    now rewrite (xonly_evenT_eq C SL _ Hv). }
  split; [exact Hs'|].
  apply (cb_eqb_spec _ _ raw raw Hs' Hs). reflexivity.
Qed.

End Codec.
