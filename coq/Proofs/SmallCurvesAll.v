(* Proofs/SmallCurvesAll.v — group laws of the Point model on y^2 = x^3 + 7 over F_p for every prime
   5 <= p <= 101, p <> 7 (triples included), and all pair laws on F_223 *)
From Coq Require Import Znumtheory.
From V Require Import Base.Prelude Model.Pecc Proofs.GroupHyp Proofs.CurveSweep Proofs.SmallFields Proofs.CurveAssoc Proofs.SmallCurvesS1 Proofs.SmallCurvesS2 Proofs.SmallCurvesS3 Proofs.SmallCurvesS4.

Theorem curve_group_small_all p : prime p -> 5 <= p <= 101 -> p <> 7 -> curve_laws (fcurve p).
Proof.
  intros Hp Hr H7. assert (H3 : p <> 3) by lia.
  destruct (Z_lt_dec p 68); [exact (chk_curve_range_sound 5 63 curve_range_5_68 p Hp ltac:(lia) H3 H7)|].
  destruct (Z_lt_dec p 84); [exact (chk_curve_range_sound 68 16 curve_range_68_84 p Hp ltac:(lia) H3 H7)|].
  destruct (Z_lt_dec p 98); [exact (chk_curve_range_sound 84 14 curve_range_84_98 p Hp ltac:(lia) H3 H7)|].
  exact (chk_curve_range_sound 98 4 curve_range_98_102 p Hp ltac:(lia) H3 H7).
Qed.

(* F_223 (the curve of the book's examples): every pair law, without the triple sweep *)
Lemma f223_prime_b : prime_b 223 = true. Proof. vm_cast_no_check (eq_refl true). Qed.
Lemma f223_add_ok : chk_add_ok (fcurve 223) = true. Proof. vm_cast_no_check (eq_refl true). Qed.
Lemma f223_comm : chk_comm (fcurve 223) = true. Proof. vm_cast_no_check (eq_refl true). Qed.
Lemma f223_neg : chk_neg (fcurve 223) = true. Proof. vm_cast_no_check (eq_refl true). Qed.
Lemma f223_double : chk_double (fcurve 223) = true. Proof. vm_cast_no_check (eq_refl true). Qed.

Theorem curve_pairs_F223 :
  prime 223 /\
  (forall P Q, valid (fcurve 223) P -> valid (fcurve 223) Q ->
     padd (fcurve 223) P Q = Ok (addT (fcurve 223) P Q) /\ valid (fcurve 223) (addT (fcurve 223) P Q)) /\
  (forall P Q, valid (fcurve 223) P -> valid (fcurve 223) Q ->
     addT (fcurve 223) P Q = addT (fcurve 223) Q P) /\
  (forall P, valid (fcurve 223) P ->
     valid (fcurve 223) (negT (fcurve 223) P) /\ addT (fcurve 223) P (negT (fcurve 223) P) = None) /\
  (forall P, valid (fcurve 223) P -> rmul_raw (fcurve 223) 2 P = Ok (addT (fcurve 223) P P)).
Proof.
  split; [apply prime_b_sound, f223_prime_b|].
  split; [apply chk_add_ok_sound, f223_add_ok|].
  split; [apply chk_comm_sound, f223_comm|].
  split; [apply chk_neg_sound, f223_neg|].
  apply chk_double_sound, f223_double.
Qed.
