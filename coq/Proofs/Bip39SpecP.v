(* Proofs/Bip39SpecP.v — the word indices computed by buidl/mnemonic.py (Model/Mnemonic.v:
   big-integer shifts and masks) are the indices of the bit-string transcription of BIP-0039
   (Spec/Bip39S.v), for every entropy of 16/20/24/28/32 bytes and every sha256. *)
From V Require Import Base.Prelude Base.Ints Proofs.BitsP Model.Mnemonic Spec.Bip39S Proofs.MnemonicP.
From V Require Proofs.BytesP.

(* ------------------------------------------------------------------ bit strings *)

Lemma bits_val_fold l : forall a,
  fold_left (fun acc (b : bool) => 2 * acc + (if b then 1 else 0)) l a = a * 2 ^ zlen l + bits_val l.
Proof.
  unfold bits_val. induction l as [|b l IH]; intros a.
  - cbn [fold_left]. unfold zlen. cbn [length]. change (2 ^ Z.of_nat 0) with 1. lia.
  - cbn [fold_left]. rewrite (IH (2 * a + _)), (IH (2 * 0 + _)).
    rewrite zlen_cons, Z.pow_add_r by (try apply zlen_nonneg; lia). change (2 ^ 1) with 2. ring.
Qed.

Lemma bits_val_cons b l : bits_val (b :: l) = (if b then 1 else 0) * 2 ^ zlen l + bits_val l.
Proof. unfold bits_val at 1. cbn [fold_left]. rewrite bits_val_fold. ring. Qed.

Lemma bits_val_app a b : bits_val (a ++ b) = bits_val a * 2 ^ zlen b + bits_val b.
Proof.
  unfold bits_val at 1. rewrite fold_left_app. fold (bits_val a). apply bits_val_fold.
Qed.

Lemma bits_val_bound l : 0 <= bits_val l < 2 ^ zlen l.
Proof.
  induction l as [|b l IH].
  - cbn. lia.
  - rewrite bits_val_cons, zlen_cons, Z.pow_add_r by (try apply zlen_nonneg; lia).
    change (2 ^ 1) with 2. destruct b; lia.
Qed.

(* facts about one octet, by enumeration of the 256 octets *)
Lemma octet_all (P : Z -> bool) :
  forallb P (map Z.of_nat (seq 0 256)) = true -> forall b, 0 <= b < 256 -> P b = true.
Proof.
  intros H b Hb. rewrite forallb_forall in H. apply H. apply in_map_iff.
  exists (Z.to_nat b). split; [lia|]. apply in_seq. lia.
Qed.

Lemma bits_val_octet b : 0 <= b < 256 -> bits_val (octet_bits b) = b.
Proof.
  intros Hb. apply Z.eqb_eq.
  apply (octet_all (fun b => bits_val (octet_bits b) =? b)); [vm_compute; reflexivity | exact Hb].
Qed.

(* the first k bits of an octet are its k high bits *)
Lemma bits_val_octet_prefix h k : 0 <= h < 256 -> (k <= 8)%nat ->
  bits_val (firstn k (octet_bits h)) = h / 2 ^ (8 - Z.of_nat k).
Proof.
  intros Hh Hk.
  pose proof (octet_all
    (fun h => forallb (fun k => bits_val (firstn k (octet_bits h)) =? h / 2 ^ (8 - Z.of_nat k)) (seq 0 9))
    ltac:(vm_compute; reflexivity) h Hh) as H.
  cbv beta in H. rewrite forallb_forall in H. apply Z.eqb_eq, H, in_seq. lia.
Qed.

Lemma octet_bits_length b : length (octet_bits b) = 8%nat.
Proof. reflexivity. Qed.

Lemma bits_of_cons x s : bits_of (x :: s) = octet_bits x ++ bits_of s.
Proof. reflexivity. Qed.

Lemma bits_of_length s : length (bits_of s) = (8 * length s)%nat.
Proof.
  induction s as [|x s IH]; [reflexivity|].
  rewrite bits_of_cons, app_length, IH, octet_bits_length. cbn [length]. lia.
Qed.

(* a byte string read as a bit string is its big-endian value *)
Lemma bits_val_bits_of e : bytes_ok e -> bits_val (bits_of e) = from_be e.
Proof.
  induction 1 as [|x e Hx He IH]; [reflexivity|].
  rewrite bits_of_cons, bits_val_app, IH, BytesP.from_be_cons, pow256_pow2.
  rewrite bits_val_octet by exact Hx. unfold zlen. rewrite bits_of_length.
  f_equal. f_equal. f_equal. lia.
Qed.

(* ------------------------------------------------------------------ groups of 11 *)

Lemma groups_of_11_length n : forall l, length (groups_of_11 n l) = n.
Proof. induction n as [|k IH]; intros l; cbn [groups_of_11 length]; [reflexivity | now rewrite IH]. Qed.

Lemma groups_of_11_range n : forall l,
  Forall (fun i => 0 <= i < 2048) (map bits_val (groups_of_11 n l)).
Proof.
  induction n as [|k IH]; intros l; cbn [groups_of_11 map]; constructor; [|apply IH].
  pose proof (bits_val_bound (firstn 11 l)) as B.
  assert (L : zlen (firstn 11 l) <= 11) by (unfold zlen; rewrite firstn_length; lia).
  assert (2 ^ zlen (firstn 11 l) <= 2 ^ 11) by (apply Z.pow_le_mono_r; lia).
  change (2 ^ 11) with 2048 in *. lia.
Qed.

Lemma groups_of_11_digits n : forall l, length l = (11 * n)%nat ->
  from_digits (map bits_val (groups_of_11 n l)) = bits_val l.
Proof.
  induction n as [|k IH]; intros l HL.
  - destruct l; [reflexivity | discriminate].
  - cbn [groups_of_11 map]. rewrite from_digits_cons.
    assert (Ls : length (skipn 11 l) = (11 * k)%nat) by (rewrite skipn_length; lia).
    rewrite (IH _ Ls). unfold zlen at 1. rewrite map_length, groups_of_11_length.
    rewrite <- (firstn_skipn 11 l) at 3. rewrite bits_val_app.
    unfold zlen. rewrite Ls, pow2048_pow2 by lia. f_equal. f_equal. f_equal. lia.
Qed.

(* ------------------------------------------------------------------ model = specification *)

Section SpecEq.
  Variable sha256 : bytes -> bytes.

  Lemma spec_sizes e : ent_ok e ->
    CS e = zlen e / 4 /\ MS e = 3 * (zlen e / 4) /\ 4 <= zlen e / 4 <= 8 /\
    zlen e = 4 * (zlen e / 4) /\ entropy_size_ok e = true.
  Proof.
    intros He. unfold entropy_size_ok, MS, CS, ENT.
    destruct (ent_len e He) as [->|[->|[->|[->| ->]]]]; repeat split; try reflexivity;
      apply Z.leb_le; reflexivity.
  Qed.

  Lemma checksum_bits_eq e h t : ent_ok e -> sha256 e = h :: t ->
    checksum_bits sha256 e = firstn (Z.to_nat (zlen e / 4)) (octet_bits h).
  Proof.
    intros He Hs. destruct (spec_sizes e He) as (C & _ & R & _).
    unfold checksum_bits. rewrite C, Hs, bits_of_cons, firstn_app, octet_bits_length.
    replace (Z.to_nat (zlen e / 4) - 8)%nat with 0%nat by lia.
    cbn [firstn]. apply app_nil_r.
  Qed.

  Lemma spec_digits e h t : ent_ok e -> sha256 e = h :: t -> 0 <= h < 256 ->
    from_digits (bip39_indices sha256 e) =
    from_be e * 2 ^ (zlen e / 4) + h / 2 ^ (8 - zlen e / 4).
  Proof.
    intros He Hs Hh. destruct (spec_sizes e He) as (C & M & R & L4 & _).
    unfold bip39_indices. rewrite M.
    assert (Lc : length (checksum_bits sha256 e) = Z.to_nat (zlen e / 4)).
    { rewrite (checksum_bits_eq e h t He Hs), firstn_length, octet_bits_length. lia. }
    rewrite groups_of_11_digits.
    2:{ rewrite app_length, bits_of_length, Lc. unfold zlen in *. lia. }
    rewrite bits_val_app, (bits_val_bits_of e (proj1 He)). unfold zlen at 1. rewrite Lc.
    rewrite Z2Nat.id by lia. f_equal.
    rewrite (checksum_bits_eq e h t He Hs), bits_val_octet_prefix by (try exact Hh; lia).
    rewrite Z2Nat.id by lia. reflexivity.
  Qed.

  (* bytes_to_mnemonic selects exactly the words BIP-0039 prescribes *)
  Theorem indices_eq_spec : forall e h t, ent_ok e -> sha256 e = h :: t -> 0 <= h < 256 ->
    bytes_to_indices sha256 e (8 * zlen e) = Ok (bip39_indices sha256 e).
  Proof.
    intros e h t He Hs Hh. destruct (spec_sizes e He) as (C & M & R & L4 & _).
    rewrite (b2i_eq sha256 e h t He Hs Hh). f_equal.
    apply from_digits_inj.
    - rewrite groups11_length. unfold bip39_indices. rewrite map_length, groups_of_11_length, M.
      reflexivity.
    - apply groups11_range.
    - apply groups_of_11_range.
    - rewrite (spec_digits e h t He Hs Hh), groups11_digits, Z2Nat.id by lia.
      apply Z.mod_small. now apply all_bits_bound.
  Qed.

  Lemma spec_indices_shape e : ent_ok e ->
    zlen (bip39_indices sha256 e) = 3 * (zlen e / 4) /\
    Forall (fun i => 0 <= i < 2048) (bip39_indices sha256 e).
  Proof.
    intros He. destruct (spec_sizes e He) as (C & M & R & L4 & _). split.
    - unfold bip39_indices, zlen at 1. rewrite map_length, groups_of_11_length, M. lia.
    - apply groups_of_11_range.
  Qed.
End SpecEq.

Print Assumptions indices_eq_spec.
