(* Proofs/FuelP.v — the fuel of the four parser loops of the model (Script.parse's while loop, the
   input / output / witness-item for loops) is only a termination device: every iteration that
   succeeds consumes at least one byte, so any fuel >= the number of remaining bytes gives the
   same result.  Running out of fuel coincides with Python's next read raising on an exhausted
   stream (C04). *)
From V Require Import Base.Prelude Base.Ints Model.Helper Model.Script Model.Tx
  Proofs.HelperP Proofs.ScriptP Proofs.TxP.

Lemma readz_snd_length n s : (length (snd (readz n s)) <= length s)%nat.
Proof.
  unfold readz. destruct (n <? 0); [cbn; lia|]. destruct (zlen s <=? n); [cbn; lia|].
  cbn [snd]. rewrite skipn_length. lia.
Qed.

Lemma read_varint_consumes s n r : read_varint s = Ok (n, r) -> (length r < length s)%nat.
Proof.
  destruct s as [|i t]; [discriminate|]. cbn [read_varint length].
  destruct (i =? 253); [intros H; assert (r = skipn 2 t) as -> by congruence; rewrite skipn_length; lia|].
  destruct (i =? 254); [intros H; assert (r = skipn 4 t) as -> by congruence; rewrite skipn_length; lia|].
  destruct (i =? 255); [intros H; assert (r = skipn 8 t) as -> by congruence; rewrite skipn_length; lia|].
  intros H; assert (r = t) as -> by congruence. lia.
Qed.

Lemma read_varstr_consumes s d r : read_varstr s = Ok (d, r) -> (length r < length s)%nat.
Proof.
  unfold read_varstr. intros H. apply bind_ok in H as [[n t] [Hv H]]. cbn beta iota in H.
  destruct (9223372036854775808 <=? n); [discriminate|]. inversion H as [E].
  pose proof (read_varint_consumes _ _ _ Hv). pose proof (readz_snd_length n t) as L.
  rewrite E in L. cbn [snd] in L. lia.
Qed.

Lemma parse_script_consumes s sc r : parse_script s = Ok (sc, r) -> (length r < length s)%nat.
Proof.
  unfold parse_script. intros H. apply bind_ok in H as [[raw t] [Hv H]]. cbn beta iota in H.
  apply bind_ok in H as [x [_ H]]. inversion H; subst. eapply read_varstr_consumes; exact Hv.
Qed.

Lemma parse_script_pubkey_consumes s sc r :
  parse_script_pubkey s = Ok (sc, r) -> (length r < length s)%nat.
Proof.
  unfold parse_script_pubkey. intros H. apply bind_ok in H as [[x t] [Hp H]]. cbn beta iota in H.
  pose proof (parse_script_consumes _ _ _ Hp).
  destruct (is_p2pkh (s_cmds x) || is_p2sh (s_cmds x) || is_p2wpkh (s_cmds x) || is_p2wsh (s_cmds x) ||
            is_p2tr (s_cmds x)); inversion H; subst; assumption.
Qed.

Lemma txin_parse_consumes s i r : txin_parse s = Ok (i, r) -> (length r < length s)%nat.
Proof.
  unfold txin_parse, read. cbv beta iota zeta. intros H. apply bind_ok in H as [[sc t] [Hp H]].
  cbv beta iota zeta in H. assert (r = skipn 4 t) as -> by congruence.
  pose proof (parse_script_consumes _ _ _ Hp) as L. rewrite !skipn_length in *. lia.
Qed.

Lemma txout_parse_consumes s o r : txout_parse s = Ok (o, r) -> (length r < length s)%nat.
Proof.
  unfold txout_parse, read. cbv beta iota zeta. intros H. apply bind_ok in H as [[sc t] [Hp H]].
  cbv beta iota zeta in H. assert (r = t) as -> by congruence.
  pose proof (parse_script_pubkey_consumes _ _ _ Hp) as L. rewrite !skipn_length in *. lia.
Qed.

(* a counted loop over a parser that consumes at least one byte per item *)
Section Counted.
Context {A : Type} (p : bytes -> result (A * bytes)).
Hypothesis p_consumes : forall s a r, p s = Ok (a, r) -> (length r < length s)%nat.
Variable loop : nat -> Z -> bytes -> list A -> result (list A * bytes).
Hypothesis loop_eq : forall fuel n s acc,
  loop fuel n s acc =
  if n <=? 0 then Ok (rev acc, s)
  else match fuel with
       | O => Err
       | S f => '(a, r) <- p s ;; loop f (n - 1) r (a :: acc)
       end.

Lemma p_nil : p [] = Err.
Proof. destruct (p []) as [[a r]|] eqn:E; [|reflexivity]. apply p_consumes in E. cbn in E. lia. Qed.

Lemma counted_fuel f1 : forall f2 n s acc,
  (length s <= f1)%nat -> (length s <= f2)%nat -> loop f1 n s acc = loop f2 n s acc.
Proof.
  induction f1 as [|f1 IH]; intros f2 n s acc L1 L2; rewrite (loop_eq _ n s acc), (loop_eq f2 n s acc);
    destruct (n <=? 0); try reflexivity.
  - assert (s = []) as -> by (destruct s; [reflexivity|cbn in L1; lia]).
    destruct f2; [reflexivity|]. now rewrite p_nil.
  - destruct f2 as [|f2].
    + assert (s = []) as -> by (destruct s; [reflexivity|cbn in L2; lia]). now rewrite p_nil.
    + destruct (p s) as [[a r]|] eqn:E; cbn [bind]; [|reflexivity].
      apply p_consumes in E. apply IH; lia.
Qed.
End Counted.

Lemma ins_loop_fuel f1 f2 n s acc :
  (length s <= f1)%nat -> (length s <= f2)%nat -> ins_loop f1 n s acc = ins_loop f2 n s acc.
Proof. apply (counted_fuel txin_parse txin_parse_consumes ins_loop ins_loop_eq). Qed.

Lemma outs_loop_fuel f1 f2 n s acc :
  (length s <= f1)%nat -> (length s <= f2)%nat -> outs_loop f1 n s acc = outs_loop f2 n s acc.
Proof. apply (counted_fuel txout_parse txout_parse_consumes outs_loop outs_loop_eq). Qed.

Lemma witness_loop_fuel f1 f2 n s acc :
  (length s <= f1)%nat -> (length s <= f2)%nat -> witness_loop f1 n s acc = witness_loop f2 n s acc.
Proof. apply (counted_fuel read_varstr read_varstr_consumes witness_loop witness_loop_eq). Qed.

(* Script.parse's while loop: every iteration consumes the byte it dispatches on *)
Lemma parse_loop_fuel f1 : forall f2 s count len acc,
  (length s <= f1)%nat -> (length s <= f2)%nat ->
  parse_loop f1 s count len acc = parse_loop f2 s count len acc.
Proof.
  induction f1 as [|f1 IH]; intros f2 s count len acc L1 L2.
  - assert (s = []) as -> by (destruct s; [reflexivity|cbn in L1; lia]).
    destruct f2; cbn [parse_loop]; destruct (len <=? count); reflexivity.
  - destruct f2 as [|f2].
    + assert (s = []) as -> by (destruct s; [reflexivity|cbn in L2; lia]).
      cbn [parse_loop]. destruct (len <=? count); reflexivity.
    + destruct s as [|b r]; [cbn [parse_loop]; destruct (len <=? count); reflexivity|].
      cbn [length] in L1, L2. rewrite !parse_loop_S. destruct (len <=? count); [reflexivity|].
      cbv zeta.
      destruct ((1 <=? b) && (b <=? 75)).
      { pose proof (readz_snd_length b r) as L. destruct (readz b r) as [d r']. cbn [snd] in L. apply IH; lia. }
      destruct (b =? 76).
      { pose proof (readz_snd_length (from_le (firstn 1 r)) (skipn 1 r)) as L.
        destruct (readz _ (skipn 1 r)) as [d r']. cbn [snd] in L. rewrite skipn_length in L. apply IH; lia. }
      destruct (b =? 77).
      { pose proof (readz_snd_length (from_le (firstn 2 r)) (skipn 2 r)) as L.
        destruct (readz _ (skipn 2 r)) as [d r']. cbn [snd] in L. rewrite skipn_length in L. apply IH; lia. }
      destruct (b =? 78).
      { pose proof (readz_snd_length (from_le (firstn 4 r)) (skipn 4 r)) as L.
        destruct (readz _ (skipn 4 r)) as [d r']. cbn [snd] in L. rewrite skipn_length in L. apply IH; lia. }
      apply IH; lia.
Qed.

(* all four together *)
Lemma fuel_irrelevant :
  (forall f1 f2 s count len acc, (length s <= f1)%nat -> (length s <= f2)%nat ->
     parse_loop f1 s count len acc = parse_loop f2 s count len acc) /\
  (forall f1 f2 n s acc, (length s <= f1)%nat -> (length s <= f2)%nat ->
     ins_loop f1 n s acc = ins_loop f2 n s acc) /\
  (forall f1 f2 n s acc, (length s <= f1)%nat -> (length s <= f2)%nat ->
     outs_loop f1 n s acc = outs_loop f2 n s acc) /\
  (forall f1 f2 n s acc, (length s <= f1)%nat -> (length s <= f2)%nat ->
     witness_loop f1 n s acc = witness_loop f2 n s acc).
Proof.
  split; [intros; now apply parse_loop_fuel|]. split; [intros; now apply ins_loop_fuel|].
  split; [intros; now apply outs_loop_fuel|intros; now apply witness_loop_fuel].
Qed.
