(* Proofs/EcdsaJudgeP.v — C01: the executable judge [ecdsa_okb] of Spec/Ecdsa.v (used by the harness as
   the extracted specification) is COMPLETE as well as sound: for a prime order n <= 2^256 the extended
   Euclidean algorithm with fuel 600 terminates and returns the inverse, so
       ecdsa_okb C Q z r s = true  <->  ecdsa_ok C Q z r s
   and, under scalar_laws, ecdsa_okb agrees with the model's verify on every valid key. *)
From Coq Require Import Znumtheory Zdiv.
From V Require Import Base.Prelude Base.Ints Base.Fermat Model.Pecc Proofs.GroupHyp Spec.Ecdsa Proofs.EcdsaP.

Section Judge.
Variable C : curve.
Local Notation n := (cn C).

Lemma egcd_S f a b x0 x1 :
  egcd (S f) a b x0 x1 = if b =? 0 then x0 else egcd f b (a mod b) x1 (x0 - (a / b) * x1).
Proof. reflexivity. Qed.

(* invariant a = x0 s, b = x1 s (mod n); the product a b at least halves per step, so [fuel] steps suffice
   when a b < 2^fuel *)
Lemma egcd_spec s fuel : forall a b x0 x1,
  0 < n -> 0 <= b <= a -> a * b < 2 ^ Z.of_nat fuel ->
  (x0 * s) mod n = a mod n -> (x1 * s) mod n = b mod n ->
  (egcd fuel a b x0 x1 * s) mod n = Z.gcd a b mod n.
Proof.
  induction fuel as [|f IH]; intros a b x0 x1 Hn Hab Hprod H0 H1.
  - change (2 ^ Z.of_nat 0) with 1 in Hprod.
    assert (b = 0) by nia. subst b. cbn [egcd]. rewrite Z.gcd_0_r, Z.abs_eq by lia. exact H0.
  - rewrite egcd_S. destruct (b =? 0) eqn:Eb.
    + apply Z.eqb_eq in Eb. subst b. rewrite Z.gcd_0_r, Z.abs_eq by lia. exact H0.
    + apply Z.eqb_neq in Eb.
      assert (Hb : 0 < b) by lia.
      pose proof (Z.mod_pos_bound a b Hb) as Hm.
      pose proof (Z_div_mod_eq_full a b) as Hdm.
      assert (Hq : 1 <= a / b) by (apply Z.div_le_lower_bound; lia).
      rewrite IH.
      * rewrite Z.gcd_comm, Z.gcd_mod by lia. rewrite Z.gcd_comm. reflexivity.
      * assumption.
      * lia.
      * rewrite Nat2Z.inj_succ, Z.pow_succ_r in Hprod by lia.
        assert (2 * (a mod b) <= a) by nia. nia.
      * assumption.
      * replace (a mod b) with (a - (a / b) * b) by lia.
        replace ((x0 - a / b * x1) * s) with (x0 * s - (a / b) * (x1 * s)) by ring.
        rewrite Zminus_mod, H0. rewrite (Zmult_mod (a / b) (x1 * s)), H1.
        rewrite <- Zmult_mod, <- Zminus_mod. reflexivity.
Qed.

Theorem euclid_inv_ok s : prime n -> n <= 2 ^ 256 -> 1 <= s < n ->
  0 <= euclid_inv C s < n /\ (s * euclid_inv C s) mod n = 1.
Proof.
  intros Hp Hn256 Hs. assert (Hn : 1 < n) by (destruct Hp; assumption).
  unfold euclid_inv. split; [apply Z.mod_pos_bound; lia|].
  rewrite Z.mul_mod_idemp_r by lia.
  rewrite (Z.mod_small s n) by lia.
  change 600%nat with (S 599). rewrite egcd_S.
  replace (n =? 0) with false by (symmetry; apply Z.eqb_neq; lia).
  rewrite (Z.mod_small s n) by lia.
  rewrite Z.mul_comm.
  rewrite (egcd_spec s 599 n s 0 (1 - s / n * 0)); try lia.
  - assert (Hg : Z.gcd n s = 1).
    { apply Zgcd_1_rel_prime. apply rel_prime_sym. apply rel_prime_le_prime; [assumption|lia]. }
    rewrite Hg. apply Z.mod_small. lia.
  - assert (n * s < 2 ^ 256 * 2 ^ 256) by nia.
    assert (2 ^ 256 * 2 ^ 256 <= 2 ^ Z.of_nat 599).
    { rewrite <- Z.pow_add_r by lia. apply Z.pow_le_mono_r; lia. }
    lia.
  - rewrite Z.mul_0_l. rewrite Z.mod_0_l by lia. symmetry. apply Z_mod_same_full.
  - f_equal. ring.
Qed.

Theorem ecdsa_okb_complete Q z r s : prime n -> n <= 2 ^ 256 ->
  ecdsa_ok C Q z r s -> ecdsa_okb C Q z r s = true.
Proof.
  intros Hp Hn256 [Hr [Hs [w [[Hw Hsw] Hpt]]]]. assert (Hn : 1 < n) by (destruct Hp; assumption).
  destruct (euclid_inv_ok s Hp Hn256 Hs) as [He1 He2].
  assert (Ew : w = euclid_inv C s).
  { pose proof (inv_unique n s w (euclid_inv C s) ltac:(lia) Hsw He2) as E.
    rewrite !Z.mod_small in E; assumption. }
  subst w. unfold ecdsa_okb.
  replace (1 <=? r) with true by (symmetry; apply Z.leb_le; lia).
  replace (r <? n) with true by (symmetry; apply Z.ltb_lt; lia).
  replace (1 <=? s) with true by (symmetry; apply Z.leb_le; lia).
  replace (s <? n) with true by (symmetry; apply Z.ltb_lt; lia).
  cbn [andb]. rewrite He2. cbn [Z.eqb Pos.eqb andb].
  destruct (ecdsa_point C Q z r (euclid_inv C s)) as [[x y]|]; [|contradiction].
  now apply Z.eqb_eq.
Qed.

Theorem ecdsa_okb_iff Q z r s : prime n -> n <= 2 ^ 256 ->
  (ecdsa_okb C Q z r s = true <-> ecdsa_ok C Q z r s).
Proof. intros Hp Hn. split; [apply ecdsa_okb_sound|now apply ecdsa_okb_complete]. Qed.

End Judge.

(* the extracted specification and the model's verify agree on every valid key *)
Theorem okb_eq_verify C : scalar_laws C -> cn C <= 2 ^ 256 -> forall P z r s, valid C P ->
  ecdsa_verify C P z r s = Ok (ecdsa_okb C P z r s).
Proof.
  intros SL Hn P z r s HP.
  destruct (verify_total C SL P z r s HP) as [b Eb]. rewrite Eb. f_equal.
  destruct b.
  - symmetry. apply ecdsa_okb_complete; [exact (sl_n_prime C SL)|assumption|].
    now apply (verify_iff_ecdsa C SL).
  - destruct (ecdsa_okb C P z r s) eqn:Ek; [|reflexivity].
    apply ecdsa_okb_sound in Ek. apply (verify_iff_ecdsa C SL) in Ek; [|assumption]. congruence.
Qed.
