(* Proofs/VerifyTapP.v — the taproot script path at the level of Tx.verify_input (C06), for the
   k-of-n leaf  <x1> CHECKSIG <x2> CHECKSIGADD ... OP_k OP_EQUAL  (MultiSigTapScript):
   soundness without any assumption on the shape of the initial stack, completeness of the
   CHECKSIG/CHECKSIGADD chain (an EMPTY signature leaves the counter unchanged), and both
   connected with the control-block commitment check of the witness-v1 rule. *)
From V Require Import Base.Prelude Base.Ints Model.Helper Model.Script Model.Op Model.Interp
  Model.Pecc Model.Taproot Model.Verify Proofs.HelperP Proofs.ScriptP Proofs.OpP Proofs.MultisigP
  Proofs.VerifyP Proofs.TapMultisigP.

(* ------------------------------------------------------------------ sizes (for the fuel) *)

(* every iteration of Script.parse's loop produces one command *)
Lemma parse_loop_len fuel : forall s count len acc cs cnt,
  parse_loop fuel s count len acc = Ok (cs, cnt) -> (length cs <= length acc + fuel)%nat.
Proof.
  induction fuel as [|f IH]; intros s count len acc cs cnt H.
  - cbn [parse_loop] in H. destruct (len <=? count); [|discriminate H].
    injection H as <- _. rewrite rev_length. lia.
  - destruct s as [|b r].
    + cbn [parse_loop] in H. destruct (len <=? count); [|discriminate H].
      injection H as <- _. rewrite rev_length. lia.
    + rewrite parse_loop_S in H. destruct (len <=? count).
      { injection H as <- _. rewrite rev_length. lia. }
      cbv zeta in H.
      destruct ((1 <=? b) && (b <=? 75)).
      { destruct (readz b r) as [d r']. apply IH in H. cbn [length] in H. lia. }
      destruct (b =? 76).
      { destruct (readz _ _) as [d r']. apply IH in H. cbn [length] in H. lia. }
      destruct (b =? 77).
      { destruct (readz _ _) as [d r']. apply IH in H. cbn [length] in H. lia. }
      destruct (b =? 78).
      { destruct (readz _ _) as [d r']. apply IH in H. cbn [length] in H. lia. }
      apply IH in H. cbn [length] in H. lia.
Qed.

Lemma readz_fst_len n s : (length (fst (readz n s)) <= length s)%nat.
Proof.
  unfold readz. destruct (n <? 0); [cbn; lia|]. destruct (zlen s <=? n); cbn [fst]; [lia|].
  rewrite firstn_length. lia.
Qed.

Lemma read_varint_len s n r : read_varint s = Ok (n, r) -> (length r <= length s)%nat.
Proof.
  unfold read_varint. destruct s as [|i t]; [discriminate|].
  destruct (i =? 253); [intros H; assert (r = skipn 2 t) as -> by congruence; rewrite skipn_length; cbn [length]; lia|].
  destruct (i =? 254); [intros H; assert (r = skipn 4 t) as -> by congruence; rewrite skipn_length; cbn [length]; lia|].
  destruct (i =? 255); [intros H; assert (r = skipn 8 t) as -> by congruence; rewrite skipn_length; cbn [length]; lia|].
  intros [= _ <-]. cbn [length]. lia.
Qed.

(* the tapscript is parsed from one witness item and has at most (its length + 9) commands *)
Lemma witness_tap_script_len items ts :
  witness_tap_script items = Ok ts ->
  exists raw, In raw items /\ (length (s_cmds ts) <= length raw + 9)%nat.
Proof.
  intros H. unfold witness_tap_script, item_from_end in H.
  destruct (length items <? (if has_annex items then 3 else 2))%nat; [discriminate H|].
  destruct (nth_error items (length items - (if has_annex items then 3 else 2))) as [raw|] eqn:En;
    [|discriminate H].
  cbn [bind] in H.
  exists raw. split; [eapply nth_error_In; exact En|].
  unfold encode_varstr in H. destruct (encode_varint (zlen raw)) as [l|] eqn:El; cbn [bind] in H; [|discriminate H].
  unfold parse_script, read_varstr in H.
  destruct (read_varint (l ++ raw)) as [[n r]|] eqn:Er; cbn [bind] in H; [|discriminate H].
  destruct (9223372036854775808 <=? n); [discriminate H|]. cbn [bind] in H.
  pose proof (readz_fst_len n r) as Hz. destruct (readz n r) as [raw' rest]. cbn [fst] in Hz.
  unfold parse_raw in H.
  destruct (parse_loop (length raw') raw' 0 (zlen raw') []) as [[cs cnt]|] eqn:Ep; cbn [bind] in H; [|discriminate H].
  injection H as <-. cbn [s_cmds].
  apply parse_loop_len in Ep. cbn [length] in Ep.
  apply read_varint_len in Er. rewrite app_length in Er.
  destruct (varint_width _ _ El) as [[_ E]|[[_ E]|[[_ E]|[_ E]]]]; rewrite E in Er; lia.
Qed.

Lemma witness_size_len w : (length w <= witness_size w)%nat.
Proof. unfold witness_size. induction w as [|b w IH]; cbn [fold_right length]; lia. Qed.

Lemma witness_size_in w raw : In raw w -> (length w + length raw <= witness_size w)%nat.
Proof.
  induction w as [|b w IH]; intros Hin; [destruct Hin|].
  pose proof (witness_size_len w) as Hw. unfold witness_size in *. cbn [fold_right length].
  destruct Hin as [->|Hin]; [lia|]. specialize (IH Hin). lia.
Qed.

Lemma witness_size_removelast w : (witness_size (removelast w) <= witness_size w)%nat.
Proof.
  unfold witness_size. induction w as [|b w IH]; [cbn; lia|].
  cbn [removelast]. destruct w as [|b' w']; [cbn [fold_right]; lia|].
  cbn [fold_right] in *. lia.
Qed.

(* ------------------------------------------------------------------ the leaf script *)

Section TapPath.
Variable C : curve.
Variables ripemd160 sha1 sha256 hash160 hash256 : bytes -> bytes.
Variable so : sigops.
Variable c : txctx.

Notation vloopw w := (vloop C ripemd160 sha1 sha256 hash160 hash256 so c w).
Notation table := (table ripemd160 sha1 sha256 hash160 hash256 so).
Notation verify_inputw w := (verify_input C ripemd160 sha1 sha256 hash160 hash256 so c w).

Lemma table_tap_small_num k : 1 <= k <= 16 -> table true (80 + k) = Some (FStack (op_push_num k)).
Proof.
  intros H.
  assert (In k [1;2;3;4;5;6;7;8;9;10;11;12;13;14;15;16]) as Hin by (cbn; lia).
  cbn [In] in Hin. repeat (destruct Hin as [<-|Hin]; [reflexivity|]). contradiction.
Qed.

(* the CHECKSIGADD chain consumes one stack element per key *)
Lemma chain_shape w xs : forall fuel tail acc s a,
  vloopw w fuel (flat_map (fun x => [Push x; Op 186]) xs ++ tail) (encode_num acc :: s) a (fl_off true) = OTrue ->
  exists sigs r, s = sigs ++ r /\ length sigs = length xs.
Proof.
  induction xs as [|x xs IH]; intros fuel tail acc s a H.
  - exists [], s. auto.
  - cbn [flat_map app] in H.
    destruct fuel as [|fuel]; [discriminate H|].
    rewrite vloop_push_step, after_push_off in H.
    destruct fuel as [|fuel]; [discriminate H|].
    rewrite vloop_op_step in H. cbn [f_tap fl_off] in H. unfold exec_op in H.
    change (table true 186) with (Some (FTx (fun _ => op_checksigadd_schnorr so))) in H. cbv iota beta in H.
    destruct s as [|sg s]; [cbn [op_checksigadd_schnorr bind] in H; discriminate H|].
    rewrite checksigadd_step in H.
    destruct (pair_ok so x sg) as [b|]; cbn [bind] in H; [|discriminate H].
    destruct (IH _ _ _ _ _ H) as (sigs & r & -> & Hl).
    exists (sg :: sigs), r. cbn [app length]. auto.
Qed.

(* soundness without assuming the shape of the stack: the script pops one element per key, every
   (key, element) pair could be evaluated, and exactly k of them verify *)
Theorem tap_multisig_sound_gen w k x1 xs fuel s a :
  1 <= k <= 16 ->
  vloopw w fuel (tap_multisig_script k (x1 :: xs)) s a (fl_off true) = OTrue ->
  exists sigs r, s = sigs ++ r /\ length sigs = S (length xs) /\ count_ok so (x1 :: xs) sigs = Ok k.
Proof.
  intros Hk H.
  assert (exists sigs r, s = sigs ++ r /\ length sigs = S (length xs)) as (sigs & r & -> & Hl).
  { unfold tap_multisig_script in H.
    destruct fuel as [|fuel]; [discriminate H|].
    rewrite vloop_push_step, after_push_off in H.
    destruct fuel as [|fuel]; [discriminate H|].
    rewrite vloop_op_step in H. cbn [f_tap fl_off] in H. unfold exec_op in H.
    change (table true 172) with (Some (FTx (fun _ => op_checksig_schnorr so))) in H. cbv iota beta in H.
    destruct s as [|sg s]; [cbn [op_checksig_schnorr bind] in H; discriminate H|].
    rewrite checksig_step in H.
    destruct (pair_ok so x1 sg) as [b|]; cbn [bind] in H; [|discriminate H].
    destruct (chain_shape w xs _ _ _ _ _ H) as (sigs & r & -> & Hl).
    exists (sg :: sigs), r. cbn [app length]. auto. }
  exists sigs, r. split; [reflexivity|]. split; [exact Hl|].
  exact (tap_multisig_sound C ripemd160 sha1 sha256 hash160 hash256 so c w k x1 xs fuel sigs r a Hk Hl H).
Qed.

(* ---- completeness of the chain ---- *)

Lemma chain_complete w xs : forall sigs n tail acc r a fuel,
  count_ok so xs sigs = Ok n ->
  vloopw w (2 * length xs + fuel) (flat_map (fun x => [Push x; Op 186]) xs ++ tail)
    (encode_num acc :: sigs ++ r) a (fl_off true)
  = vloopw w fuel tail (encode_num (acc + n) :: r) a (fl_off true).
Proof.
  induction xs as [|x xs IH]; intros sigs n tail acc r a fuel Hc.
  - destruct sigs; [|discriminate Hc]. injection Hc as <-.
    replace (2 * length (@nil bytes) + fuel)%nat with fuel by reflexivity.
    cbn [flat_map app]. now rewrite Z.add_0_r.
  - destruct sigs as [|sg sigs]; [discriminate Hc|]. cbn [count_ok] in Hc.
    destruct (pair_ok so x sg) as [b|] eqn:Eb; cbn [bind] in Hc; [|discriminate Hc].
    destruct (count_ok so xs sigs) as [n'|] eqn:En; cbn [bind] in Hc; [|discriminate Hc].
    injection Hc as <-.
    replace (2 * length (x :: xs) + fuel)%nat with (S (S (2 * length xs + fuel))) by (cbn [length]; lia).
    cbn [flat_map app]. rewrite vloop_push_step, after_push_off.
    rewrite vloop_op_step. cbn [f_tap fl_off]. unfold exec_op.
    change (table true 186) with (Some (FTx (fun _ => op_checksigadd_schnorr so))). cbv iota beta.
    rewrite checksigadd_step, decode_encode, Eb. cbn [bind].
    rewrite (IH sigs n' tail _ r a fuel En).
    replace ((if b then acc + 1 else acc) + n') with (acc + ((if b then 1 else 0) + n')) by (destruct b; lia).
    reflexivity.
Qed.

(* the script is accepted whenever every pair can be evaluated and exactly k of them verify *)
Theorem tap_multisig_complete w k x1 xs sigs r a extra :
  1 <= k <= 16 -> count_ok so (x1 :: xs) sigs = Ok k ->
  vloopw w (2 * length (x1 :: xs) + 2 + extra) (tap_multisig_script k (x1 :: xs)) (sigs ++ r) a (fl_off true) = OTrue.
Proof.
  intros Hk Hc. destruct sigs as [|sg sigs]; [discriminate Hc|]. cbn [count_ok] in Hc.
  destruct (pair_ok so x1 sg) as [b|] eqn:Eb; cbn [bind] in Hc; [|discriminate Hc].
  destruct (count_ok so xs sigs) as [n|] eqn:En; cbn [bind] in Hc; [|discriminate Hc].
  injection Hc as Hk'.
  unfold tap_multisig_script.
  replace (2 * length (x1 :: xs) + 2 + extra)%nat with (S (S (2 * length xs + (2 + extra)))) by (cbn [length]; lia).
  cbn [app]. rewrite vloop_push_step, after_push_off.
  rewrite vloop_op_step. cbn [f_tap fl_off]. unfold exec_op.
  change (table true 172) with (Some (FTx (fun _ => op_checksig_schnorr so))). cbv iota beta.
  rewrite checksig_step, Eb. cbn [bind].
  rewrite (chain_complete w xs sigs n _ _ r a _ En). rewrite Hk'.
  change (2 + extra)%nat with (S (S extra)).
  rewrite vloop_op_step. cbn [f_tap fl_off]. unfold exec_op.
  rewrite (table_tap_small_num k Hk). cbn [op_push_num bind].
  rewrite vloop_op_step. cbn [f_tap fl_off]. unfold exec_op.
  change (table true 135) with (Some (FStack op_equal)). cbv iota beta.
  cbn [op_equal bind]. rewrite beq_refl. destruct extra; reflexivity.
Qed.

(* acceptance of the leaf is EQUIVALENT to "exactly k pairs verify" *)
Corollary tap_multisig_iff w k x1 xs sigs r a :
  1 <= k <= 16 -> length sigs = S (length xs) ->
  ((exists fuel, vloopw w fuel (tap_multisig_script k (x1 :: xs)) (sigs ++ r) a (fl_off true) = OTrue)
   <-> count_ok so (x1 :: xs) sigs = Ok k).
Proof.
  intros Hk Hl. split.
  - intros [fuel H].
    exact (tap_multisig_sound C ripemd160 sha1 sha256 hash160 hash256 so c w k x1 xs fuel sigs r a Hk Hl H).
  - intros Hc. eexists. exact (tap_multisig_complete w k x1 xs sigs r a 0 Hk Hc).
Qed.

(* the canonical witness: a valid signature in the slots of the k signers, an EMPTY element in
   the other slots (op_checksigadd_schnorr skips verification and leaves the counter unchanged) *)
Definition sig_slot_ok (x sg : bytes) : Prop :=
  so_xonly_ok so x = true /\
  (sg = [] \/ (schnorr_form_ok sg = true /\
               so_schnorr so x (fst (schnorr_split sg)) (snd (schnorr_split sg)) = Ok true)).
Definition nonempty_item (sg : bytes) : bool := match sg with [] => false | _ => true end.

Lemma count_ok_canonical keys sigs :
  Forall2 sig_slot_ok keys sigs -> count_ok so keys sigs = Ok (zlen (filter nonempty_item sigs)).
Proof.
  induction 1 as [|x sg keys sigs [Hx Hs] _ IH]; [reflexivity|].
  cbn [count_ok]. rewrite IH. unfold pair_ok. rewrite Hx. cbn [negb].
  destruct sg as [|g0 g].
  - cbn [bind filter nonempty_item]. f_equal.
  - destruct Hs as [Hs|[Hf Hs]]; [discriminate Hs|]. rewrite Hf. cbn [negb]. rewrite Hs.
    cbn [bind filter nonempty_item].
    rewrite zlen_cons. reflexivity.
Qed.

Theorem tap_multisig_complete_canonical w k x1 xs sigs r a extra :
  1 <= k <= 16 -> Forall2 sig_slot_ok (x1 :: xs) sigs -> zlen (filter nonempty_item sigs) = k ->
  vloopw w (2 * length (x1 :: xs) + 2 + extra) (tap_multisig_script k (x1 :: xs)) (sigs ++ r) a (fl_off true) = OTrue.
Proof.
  intros Hk Hf Hz. apply tap_multisig_complete; [exact Hk|]. rewrite <- Hz. now apply count_ok_canonical.
Qed.

(* ------------------------------------------------------------------ Tx.verify_input *)

(* a witness-v1 output spent through the script path with a k-of-n leaf: the control block
   commits the leaf to the output key, and exactly k of the n pairs verify.  The initial stack
   of the leaf is the witness without its last two items (script, control block), last item on top *)
Theorem p2tr_tap_multisig_sound w ss x k x1 xs ts :
  length x = 32%nat -> 1 <= k <= 16 ->
  verify_inputw w ss (p2tr_script x) = OTrue ->
  let items := annex_stripped w in
  (2 <= length items)%nat ->
  witness_tap_script items = Ok ts -> s_cmds ts = tap_multisig_script k (x1 :: xs) ->
  ss = [] /\ script_path_commit_check C sha256 x w = Ok true /\
  exists sigs r, rev (firstn (length items - 2) items) = sigs ++ r /\ length sigs = S (length xs) /\
    count_ok so (x1 :: xs) sigs = Ok k.
Proof.
  intros Hl Hk H items Hn Hts Hcs.
  destruct (p2tr_sound C ripemd160 sha1 sha256 hash160 hash256 so c w ss x Hl H) as (Hss & _ & Hd).
  cbv zeta in Hd. fold items in Hd.
  destruct Hd as [(sg & Hi & _)|(_ & Hc & ts' & fuel & Hts' & Hv)].
  { rewrite Hi in Hn. cbn in Hn. lia. }
  rewrite Hts in Hts'. injection Hts' as <-. rewrite Hcs in Hv.
  split; [exact Hss|]. split; [exact Hc|].
  set (l := firstn (length items - 2) items) in *.
  destruct (Nat.le_gt_cases (length l) fuel) as [Hf|Hf].
  2:{ rewrite vloop_pushes_fuel in Hv by (try discriminate; lia). discriminate Hv. }
  replace fuel with (length l + (fuel - length l))%nat in Hv by lia.
  rewrite vloop_pushes in Hv. rewrite app_nil_r in Hv.
  exact (tap_multisig_sound_gen w k x1 xs _ _ _ Hk Hv).
Qed.

(* the witness-v1 rule on a script-path witness *)
Lemma witness_rule_script_path w rest x fl i0 i1 r :
  f_wit fl = true -> length x = 32%nat -> annex_stripped w = i0 :: i1 :: r ->
  witness_rule C sha256 so w rest [x; [1]] fl =
  (ok <- script_path_commit_check C sha256 x w ;;
   if ok then
     ts <- witness_tap_script (i0 :: i1 :: r) ;;
     Ok (map Push (firstn (length (i0 :: i1 :: r) - 2) (i0 :: i1 :: r)) ++ s_cmds ts, [],
         {| f_p2sh := f_p2sh fl; f_wit := false; f_tap := true |})
   else Err).
Proof.
  intros Hf Hl Hi. unfold witness_rule. rewrite Hf, Hl. cbn [negb Nat.eqb].
  unfold annex_stripped in Hi.
  destruct w as [|w0 ws]; [cbn in Hi; discriminate Hi|].
  cbv zeta. rewrite Hi. reflexivity.
Qed.

(* completeness: a script-path witness  <s_n> .. <s_1> <leaf script> <control block> [annex]
   is accepted when the commitment check succeeds and exactly k pairs verify *)
Theorem p2tr_tap_multisig_complete w x k x1 xs ts :
  length x = 32%nat -> 1 <= k <= 16 ->
  let items := annex_stripped w in
  length items = (S (length xs) + 2)%nat ->
  script_path_commit_check C sha256 x w = Ok true ->
  witness_tap_script items = Ok ts -> s_cmds ts = tap_multisig_script k (x1 :: xs) ->
  count_ok so (x1 :: xs) (rev (firstn (S (length xs)) items)) = Ok k ->
  verify_inputw w [] (p2tr_script x) = OTrue.
Proof.
  intros Hl Hk items Hn Hc Hts Hcs Hcnt.
  (* fuel *)
  assert (exists extra, fuel_for w [Op 81; Push x] =
            (2 + (length (firstn (S (length xs)) items) + (2 * length (x1 :: xs) + 2 + extra)))%nat) as [extra Hfuel].
  { destruct (witness_tap_script_len items ts Hts) as (raw & Hin & Hlen).
    rewrite Hcs in Hlen. unfold tap_multisig_script in Hlen. cbn [length] in Hlen.
    rewrite app_length in Hlen. cbn [length] in Hlen.
    assert (length (flat_map (fun x0 : bytes => [Push x0; Op 186]) xs) = 2 * length xs)%nat as Hfm.
    { clear. induction xs as [|y ys IH]; cbn [flat_map app length]; lia. }
    rewrite Hfm in Hlen.
    pose proof (witness_size_in items raw Hin) as Hws.
    assert (witness_size items <= witness_size w)%nat as Hle.
    { unfold items, annex_stripped. destruct (has_annex w); [apply witness_size_removelast|lia]. }
    rewrite firstn_length. unfold fuel_for. cbn [total_size fold_right push_size length].
    exists (2 * (1 + (S (length x) + 0)) + 2 * witness_size w + 64
            - (2 + (Nat.min (S (length xs)) (length items) + (2 * S (length xs) + 2))))%nat.
    lia. }
  unfold verify_input, p2tr_script. cbn [is_p2wpkh is_p2wsh is_p2tr orb].
  rewrite Hl. cbn [Nat.eqb orb app]. unfold evaluate_full. rewrite Hfuel.
  cbn [plus]. rewrite vloop_op_step. cbn [f_tap]. unfold exec_op.
  change (table false 81) with (Some (FStack (op_push_num 1))).
  cbv iota beta. cbn [op_push_num bind]. change (encode_num 1) with [1].
  rewrite vloop_push_step.
  unfold after_push, p2sh_rule. cbn [bind].
  destruct items as [|i0 [|i1 r]] eqn:Ei; [cbn in Hn; lia|cbn in Hn; lia|].
  rewrite (witness_rule_script_path w [] x {| f_p2sh := false; f_wit := true; f_tap := false |} i0 i1 r eq_refl Hl Ei).
  rewrite Hc. cbn [bind]. rewrite Hts. cbn [bind f_p2sh].
  change {| f_p2sh := false; f_wit := false; f_tap := true |} with (fl_off true).
  rewrite Hcs.
  assert (length (i0 :: i1 :: r) - 2 = S (length xs))%nat as -> by lia.
  rewrite vloop_pushes.
  apply tap_multisig_complete; [exact Hk|exact Hcnt].
Qed.

End TapPath.
