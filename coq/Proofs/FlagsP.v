(* Proofs/FlagsP.v — whole-program conformance for every combination of the keyword flags of
   Script.evaluate, in particular the defaults allow_p2sh=True, allow_witness=True, against the
   verdict function that excludes the byte patterns the library then special-cases. *)
From V Require Import Base.Prelude Base.Ints Model.Script Model.Op Model.Interp Spec.Consensus
  Proofs.OpP Proofs.ConformP Proofs.StackOkP Proofs.InterpP Proofs.ProgramP Proofs.P2shP.

Section Flags.
  Variables ripemd160 sha1 sha256 : bytes -> bytes.
  Hypothesis ripemd160_ok : forall x, bytes_ok (ripemd160 x).
  Hypothesis sha1_ok : forall x, bytes_ok (sha1 x).
  Hypothesis sha256_ok : forall x, bytes_ok (sha256 x).

  Theorem program_conformance_flags c (ap aw : bool) p : wf_prog p = true ->
    rel (evaluate (lib_table ripemd160 sha1 sha256) c ap aw (flatten p))
        (consensus_verdict ripemd160 sha1 sha256 (to_ctx c) ap aw (flatten p)).
  Proof.
    intros Hw. unfold consensus_verdict.
    destruct (ap && mentions_p2sh (flatten p)) eqn:E; [exact I|].
    destruct (10000 <? script_size (flatten p)); [exact I|].
    destruct ap.
    - cbn [andb] in E. unfold evaluate. rewrite p2sh_flag_irrelevant by exact E.
      now apply program_conformance.
    - now apply program_conformance.
  Qed.

  (* the library model reports a special case only where the spec is out of scope *)
  Corollary special_only_out_of_scope c ap aw p : wf_prog p = true ->
    evaluate (lib_table ripemd160 sha1 sha256) c ap aw (flatten p) = OSpecial ->
    consensus_verdict ripemd160 sha1 sha256 (to_ctx c) ap aw (flatten p) = OutOfScope.
  Proof.
    intros Hw E. pose proof (program_conformance_flags c ap aw p Hw) as R. rewrite E in R.
    destruct (consensus_verdict ripemd160 sha1 sha256 (to_ctx c) ap aw (flatten p));
      [discriminate | discriminate | reflexivity].
  Qed.
End Flags.
