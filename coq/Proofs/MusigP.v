(* Proofs/MusigP.v — combinatorial lemmas of Model/Musig.v: itertools.combinations,
   TapBranch.combine, sorting of byte strings (order independence of the aggregation).
   No curve hypotheses in this file. *)
From Coq Require Import Permutation Sorted.
From V Require Import Base.Prelude Base.Ints Model.Helper Model.Script Model.Pecc Model.Taproot
  Model.Musig Proofs.TaprootP.

(* ---------------- combinations ---------------- *)
Inductive subseq {A} : list A -> list A -> Prop :=
| ss_nil l : subseq [] l
| ss_take x c l : subseq c l -> subseq (x :: c) (x :: l)
| ss_skip x c l : subseq c l -> subseq c (x :: l).

Lemma subseq_In {A} (c l : list A) a : subseq c l -> In a c -> In a l.
Proof.
  induction 1 as [l | x c l _ IH | x c l _ IH]; intros Hin.
  - destruct Hin.
  - destruct Hin as [->|Hin]; [now left | right; now apply IH].
  - right. now apply IH.
Qed.

Lemma combos_0 {A} (l : list A) : combos l 0 = [[]].
Proof. destruct l; reflexivity. Qed.

Lemma combos_sound {A} (l : list A) : forall k c, In c (combos l k) -> subseq c l /\ length c = k.
Proof.
  induction l as [|x t IH]; intros [|k] c H.
  - cbn in H. destruct H as [<-|[]]. split; [constructor | reflexivity].
  - destruct H.
  - cbn in H. destruct H as [<-|[]]. split; [constructor | reflexivity].
  - cbn in H. apply in_app_or in H as [H|H].
    + apply in_map_iff in H as (c' & <- & H). apply IH in H as [H1 H2].
      split; [now constructor | cbn; now rewrite H2].
    + apply IH in H as [H1 H2]. split; [now constructor | exact H2].
Qed.

Lemma combos_complete {A} (l : list A) : forall k c, subseq c l -> length c = k -> In c (combos l k).
Proof.
  induction l as [|x t IH]; intros k c Hs Hl.
  - inversion Hs; subst. cbn. now left.
  - destruct k as [|k].
    + destruct c; [|discriminate]. rewrite combos_0. now left.
    + cbn. apply in_or_app. inversion Hs; subst.
      * discriminate.
      * left. apply in_map. apply IH; [assumption | cbn in Hl; lia].
      * right. now apply IH.
Qed.

Lemma NoDup_app_intro {A} (a b : list A) :
  NoDup a -> NoDup b -> (forall x, In x a -> ~ In x b) -> NoDup (a ++ b).
Proof.
  induction a as [|x a IH]; intros Ha Hb Hd; cbn; [exact Hb|].
  inversion Ha; subst. constructor.
  - intros Hin. apply in_app_or in Hin as [Hin|Hin]; [contradiction|]. apply (Hd x); [now left | exact Hin].
  - apply IH; auto. intros y Hy. apply Hd. now right.
Qed.

Lemma combos_NoDup {A} (l : list A) : NoDup l -> forall k, NoDup (combos l k).
Proof.
  induction l as [|x t IH]; intros Hn [|k]; cbn; try (constructor; [intros [] | constructor]); try constructor.
  inversion Hn; subst.
  apply NoDup_app_intro.
  - apply FinFun.Injective_map_NoDup; [|now apply IH]. intros a b E. now inversion E.
  - now apply IH.
  - intros c Hc Hc'. apply in_map_iff in Hc as (c' & <- & _).
    apply combos_sound in Hc' as [Hs _]. apply H1. apply (subseq_In _ _ x Hs). now left.
Qed.

(* ---------------- mapM ---------------- *)
Lemma mapM_Forall2 {A B} (f : A -> result B) l : forall r,
  mapM f l = Ok r -> Forall2 (fun x y => f x = Ok y) l r.
Proof.
  induction l as [|x t IH]; intros r H; cbn in H.
  - inversion H. constructor.
  - destruct (f x) as [y|] eqn:E; [|discriminate]. cbn in H.
    destruct (mapM f t) as [r'|] eqn:E'; [|discriminate]. cbn in H. inversion H; subst.
    constructor; [exact E | now apply IH].
Qed.

Lemma mapM_ok {A B} (f : A -> result B) (g : A -> B) l :
  (forall x, In x l -> f x = Ok (g x)) -> mapM f l = Ok (map g l).
Proof.
  induction l as [|x t IH]; intros H; cbn; [reflexivity|].
  rewrite (H x) by now left. cbn. rewrite IH; [reflexivity|]. intros y Hy. apply H. now right.
Qed.

(* ---------------- TapBranch.combine keeps the leaves in order ---------------- *)
Lemma combine_nodes_nil fuel : combine_nodes fuel [] = Err.
Proof. induction fuel as [|f IH]; [reflexivity|]. cbn. now rewrite IH. Qed.

Lemma combine_nodes_leaves fuel : forall nodes t,
  combine_nodes fuel nodes = Ok t -> leaves t = flat_map leaves nodes.
Proof.
  induction fuel as [|f IH]; intros nodes t H; [discriminate|].
  cbn [combine_nodes] in H.
  destruct nodes as [|x [|y rest]].
  - cbn in H. rewrite combine_nodes_nil in H. discriminate.
  - inversion H; subst. cbn. now rewrite app_nil_r.
  - set (nodes := x :: y :: rest) in *.
    destruct (combine_nodes f (firstn (Nat.div2 (length nodes)) nodes)) as [l|] eqn:El; [|discriminate].
    destruct (combine_nodes f (skipn (Nat.div2 (length nodes)) nodes)) as [r|] eqn:Er; [|discriminate].
    cbn in H. inversion H; subst t. cbn [leaves].
    rewrite (IH _ _ El), (IH _ _ Er), <- flat_map_app, firstn_skipn. reflexivity.
Qed.

Lemma div2_bounds m : (2 <= m)%nat -> (1 <= Nat.div2 m /\ Nat.div2 m < m)%nat.
Proof.
  intros H.
  destruct m as [|[|m]]; try lia. split.
  - cbn. lia.
  - apply Nat.lt_div2. lia.
Qed.

Lemma combine_nodes_ok fuel : forall nodes,
  nodes <> [] -> (length nodes <= fuel)%nat -> exists t, combine_nodes fuel nodes = Ok t.
Proof.
  induction fuel as [|f IH]; intros nodes Hne Hl.
  - destruct nodes; [congruence | cbn in Hl; lia].
  - cbn [combine_nodes]. destruct nodes as [|x [|y rest]]; [congruence | eauto |].
    set (nodes := x :: y :: rest) in *.
    assert (H2 : (2 <= length nodes)%nat) by (cbn; lia).
    destruct (div2_bounds _ H2) as [B1 B2].
    destruct (IH (firstn (Nat.div2 (length nodes)) nodes)) as [l El].
    { intros E. apply (f_equal (@length _)) in E. rewrite firstn_length in E. cbn [length] in E. lia. }
    { rewrite firstn_length. lia. }
    destruct (IH (skipn (Nat.div2 (length nodes)) nodes)) as [r Er].
    { intros E. apply (f_equal (@length _)) in E. rewrite skipn_length in E. cbn [length] in E. lia. }
    { rewrite skipn_length. lia. }
    rewrite El, Er. cbn. eauto.
Qed.

(* ---------------- sorting ---------------- *)
Definition bleP (a b : bytes) : Prop := ble a b = true.

Lemma ble_total a b : ble a b = false -> ble b a = true.
Proof.
  unfold ble. intros H. destruct (blt b a) eqn:E; [|discriminate].
  now rewrite (blt_asym _ _ E).
Qed.

Lemma ble_trans a b c : bleP a b -> bleP b c -> bleP a c.
Proof.
  unfold bleP, ble. intros H1 H2.
  destruct (blt c a) eqn:E; [|reflexivity]. exfalso.
  destruct (list_eq_dec Z.eq_dec a b) as [->|N].
  - rewrite E in H2. discriminate.
  - assert (Hab : blt a b = true) by (rewrite (blt_total a b N); exact H1).
    rewrite (blt_trans c a b E Hab) in H2. discriminate.
Qed.

Lemma ble_antisym a b : bleP a b -> bleP b a -> a = b.
Proof.
  unfold bleP, ble. intros H1 H2. apply blt_trichotomy.
  - now destruct (blt a b).
  - now destruct (blt b a).
Qed.

Lemma insert_perm x l : Permutation (insert_sorted x l) (x :: l).
Proof.
  induction l as [|y t IH]; cbn; [reflexivity|].
  destruct (ble x y); [reflexivity|]. rewrite IH. apply perm_swap.
Qed.

Lemma sort_perm l : Permutation (sort_bytes l) l.
Proof. induction l as [|x t IH]; cbn; [reflexivity|]. rewrite insert_perm. now constructor. Qed.

Lemma insert_sorted_SS x l : StronglySorted bleP l -> StronglySorted bleP (insert_sorted x l).
Proof.
  induction 1 as [|y t Ht IH Hy]; cbn.
  - constructor; constructor.
  - destruct (ble x y) eqn:E.
    + constructor; [constructor; assumption|]. constructor; [exact E|].
      rewrite Forall_forall in *. intros z Hz. apply (ble_trans x y z E). now apply Hy.
    + constructor; [exact IH|]. rewrite Forall_forall in *. intros z Hz.
      apply (Permutation_in _ (insert_perm x t)) in Hz. destruct Hz as [<-|Hz].
      * now apply ble_total.
      * now apply Hy.
Qed.

Lemma sort_SS l : StronglySorted bleP (sort_bytes l).
Proof. induction l as [|x t IH]; cbn; [constructor | now apply insert_sorted_SS]. Qed.

Lemma SS_perm_unique l : forall l',
  StronglySorted bleP l -> StronglySorted bleP l' -> Permutation l l' -> l = l'.
Proof.
  induction l as [|a l IH]; intros l' S S' P.
  - apply Permutation_nil in P. now subst.
  - destruct l' as [|b l']; [apply Permutation_sym, Permutation_nil in P; discriminate|].
    inversion S as [|? ? Sl Fa]; subst. inversion S' as [|? ? Sl' Fb]; subst.
    rewrite Forall_forall in Fa, Fb.
    assert (E : a = b).
    { assert (Ia : In a (b :: l')) by (apply (Permutation_in _ P); now left).
      assert (Ib : In b (a :: l)) by (apply (Permutation_in _ (Permutation_sym P)); now left).
      destruct Ia as [->|Ia]; [reflexivity|]. destruct Ib as [->|Ib]; [reflexivity|].
      apply ble_antisym; [now apply Fa | now apply Fb]. }
    subst b. f_equal. apply IH; auto. now apply Permutation_cons_inv in P.
Qed.

Theorem sort_bytes_perm_eq l l' : Permutation l l' -> sort_bytes l = sort_bytes l'.
Proof.
  intros P. apply SS_perm_unique; try apply sort_SS.
  rewrite sort_perm, P. symmetry. apply sort_perm.
Qed.

(* the aggregation is a function of the sorted x-only encodings: neither the order of the
   participants nor the y parity of their points matters *)
Theorem musig_init_perm C sha256 pts pts' :
  Permutation (map xonly pts) (map xonly pts') ->
  musig_init C sha256 pts = musig_init C sha256 pts'.
Proof.
  intros P. unfold musig_init.
  rewrite (sort_bytes_perm_eq _ _ P).
  destruct pts as [|p0 pts], pts' as [|q0 pts']; try reflexivity;
    try (apply Permutation_nil in P; discriminate);
    try (apply Permutation_sym, Permutation_nil in P; discriminate).
Qed.


(* ---------------- the generated trees: one leaf per combination, in order ---------------- *)
Lemma leaf_list_leaves {A} (f : A -> result (list cmd)) subs ls t :
  mapM (fun sub => cs <- f sub ;; Ok (tap_leaf_of cs)) subs = Ok ls ->
  combine_nodes (length ls) ls = Ok t ->
  Forall2 (fun sub lf => exists cs, f sub = Ok cs /\ lf = (192, mk_script cs)) subs (leaves t).
Proof.
  intros Hm Hc. rewrite (combine_nodes_leaves _ _ _ Hc). apply mapM_Forall2 in Hm. clear Hc.
  induction Hm as [|sub nd subs ls H _ IH]; cbn [flat_map]; [constructor|].
  destruct (f sub) as [cs|] eqn:E; [|discriminate]. cbn in H. inversion H; subst nd.
  cbn [leaves tap_leaf_of app]. constructor; [eauto | exact IH].
Qed.

Theorem multi_leaf_tree_leaves C pts k lk t :
  multi_leaf_tree C pts k lk = Ok t ->
  Forall2 (fun sub lf => exists cs, multisig_cmds C lk sub k = Ok cs /\ lf = (192, mk_script cs))
          (combos pts (Z.to_nat k)) (leaves t).
Proof.
  unfold multi_leaf_tree, multi_leaf_list. intros H.
  destruct (mapM _ (combos pts (Z.to_nat k))) as [ls|] eqn:E; [|discriminate]. cbn [bind] in H.
  exact (leaf_list_leaves (fun sub => multisig_cmds C lk sub k) _ ls t E H).
Qed.

Theorem musig_tree_leaves C sha256 pts k lk t :
  musig_tree C sha256 pts k lk = Ok t ->
  Forall2 (fun sub lf => exists cs, musig_cmds C sha256 lk sub = Ok cs /\ lf = (192, mk_script cs))
          (combos pts (Z.to_nat k)) (leaves t).
Proof.
  unfold musig_tree, musig_leaf_list. intros H.
  destruct (mapM _ (combos pts (Z.to_nat k))) as [ls|] eqn:E; [|discriminate]. cbn [bind] in H.
  exact (leaf_list_leaves (fun sub => musig_cmds C sha256 lk sub) _ ls t E H).
Qed.

(* what MuSigTapScript aggregates: the sorted x-only encodings and their x-only lifts *)
Lemma musig_init_aggregates C sha256 pts ms :
  musig_init C sha256 pts = Ok ms ->
  ms_xonlys ms = sort_bytes (map xonly pts) /\
  mapM (parse_xonly C) (ms_xonlys ms) = Ok (ms_points ms) /\
  (exists sc, scaled C (ms_coefs ms) (ms_points ms) = Ok sc /\ combine_points C sc = Ok (ms_point ms)) /\
  nth_error (ms_coefs ms) 1 = Some 1.
Proof.
  unfold musig_init. destruct pts as [|p0 pts]; [discriminate|].
  set (xs := sort_bytes (map xonly (p0 :: pts))).
  destruct (mapM (parse_xonly C) xs) as [lifted|] eqn:E1; [|discriminate]. cbn [bind].
  destruct (set_second _) as [coefs|] eqn:E2; [|discriminate]. cbn [bind].
  destruct (scaled C coefs lifted) as [sc|] eqn:E3; [|discriminate]. cbn [bind].
  destruct (combine_points C sc) as [agg|] eqn:E4; [|discriminate]. cbn [bind].
  intros H. inversion H; subst ms. cbn. repeat split; auto.
  - eauto.
  - unfold set_second in E2. destruct (map _ xs) as [|a [|b r]]; try discriminate. inversion E2. reflexivity.
Qed.
