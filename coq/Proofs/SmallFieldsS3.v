(* exhaustive field-law sweep (elements, pairs, triples of F_p) for the primes 80 <= p < 90 *)
From V Require Import Base.Prelude Model.Pecc Proofs.CurveSweep Proofs.SmallFields.
Lemma field_range_80_90 : chk_field_range 80 10 = true.
Proof. vm_cast_no_check (eq_refl true). Qed.
