(* Proofs/IfScanCountP.v — a counting bound on the scan of op_if / op_notif (buidl/op.py):
   the scan finds "the matching OP_ENDIF" only if the remaining command list holds MORE OP_ENDIFs than
   the conditionals it has opened on the way (need = num_endifs_needed - 1).  Consequences: a list
   without OP_ENDIF makes OP_IF / OP_NOTIF fail (return False) on every stack, and so does a list whose
   OP_ENDIFs are all used up by nested conditionals — an unterminated conditional can never swallow the
   commands that follow it (the scriptPubKey appended after a scriptSig). *)
From V Require Import Base.Prelude Base.Ints Model.Script Model.Op Model.IfCount Proofs.InterpP.


Lemma is_ctl_cases o : is_ctl o = true -> o = 99 \/ o = 100 \/ o = 103 \/ o = 104.
Proof.
  unfold is_ctl. intros H. repeat (apply orb_true_iff in H as [H|H]); apply Z.eqb_eq in H; lia.
Qed.

Lemma if_scan_needs_endifs items : forall need cur t f r,
  if_scan items need cur t f = Some r -> (need < n_endif items)%nat.
Proof.
  induction items as [|it rest IH]; intros need cur t f r H; [discriminate H|].
  assert (Plain : match it with Op o => is_ctl o = false | Push _ => True end ->
                  (need < n_endif (it :: rest))%nat).
  { intros Hp. rewrite (if_scan_plain it rest need cur t f Hp) in H.
    destruct (push_cur cur [it] t f) as [t' f'] eqn:E. apply IH in H.
    unfold n_endif in *. cbn [filter]. destruct (is_endif it); cbn [length]; lia. }
  destruct it as [o|b]; [|exact (Plain I)].
  destruct (is_ctl o) eqn:Ec; [|exact (Plain eq_refl)].
  clear Plain. apply is_ctl_cases in Ec.
  unfold n_endif in *.
  destruct Ec as [ -> | [ -> | [ -> | -> ] ] ]; cbn [if_scan] in H; cbn [filter is_endif Z.eqb Pos.eqb length].
  - destruct cur; apply IH in H; lia.
  - destruct cur; apply IH in H; lia.
  - destruct need as [|k]; [apply IH in H; lia|]. destruct cur; apply IH in H; lia.
  - destruct need as [|k]; [lia|]. destruct cur; apply IH in H; lia.
Qed.

(* sharper: the OP_ENDIFs must also pay for every conditional opened before the match; stated on the
   consumed prefix: items = pre ++ Op 104 :: rest with n_endif pre = need + n_open pre *)
Lemma if_scan_balance items : forall need cur t f tt ff rest,
  if_scan items need cur t f = Some (tt, ff, rest) ->
  exists pre, items = pre ++ Op 104 :: rest /\ n_endif pre = (need + n_open pre)%nat.
Proof.
  induction items as [|it tl IH]; intros need cur t f tt ff rest H; [discriminate H|].
  assert (Plain : match it with Op o => is_ctl o = false | Push _ => True end ->
                  is_endif it = false -> is_open it = false ->
                  exists pre, it :: tl = pre ++ Op 104 :: rest /\ n_endif pre = (need + n_open pre)%nat).
  { intros Hp He Ho. rewrite (if_scan_plain it tl need cur t f Hp) in H.
    destruct (push_cur cur [it] t f) as [t' f'] eqn:E. apply IH in H as (pre & -> & Hb).
    exists (it :: pre). split; [reflexivity|]. unfold n_endif, n_open in *. cbn [filter]. rewrite He, Ho. exact Hb. }
  destruct it as [o|b]; [|exact (Plain I eq_refl eq_refl)].
  destruct (is_ctl o) eqn:Ec.
  2:{ apply Plain; [reflexivity| |]; unfold is_ctl in Ec; repeat (apply orb_false_iff in Ec as [Ec ?E]);
      cbn [is_endif is_open]; [exact E|]. rewrite Ec, E1. reflexivity. }
  clear Plain. apply is_ctl_cases in Ec.
  destruct Ec as [ -> | [ -> | [ -> | -> ] ] ]; cbn [if_scan] in H.
  - assert (H' : exists c t' f', if_scan tl (S need) c t' f' = Some (tt, ff, rest)) by (destruct cur; eauto).
    destruct H' as (c & t' & f' & H'). apply IH in H' as (pre & -> & Hb).
    exists (Op 99 :: pre). split; [reflexivity|]. unfold n_endif, n_open in *. cbn [filter is_endif is_open Z.eqb Pos.eqb orb length]. lia.
  - assert (H' : exists c t' f', if_scan tl (S need) c t' f' = Some (tt, ff, rest)) by (destruct cur; eauto).
    destruct H' as (c & t' & f' & H'). apply IH in H' as (pre & -> & Hb).
    exists (Op 100 :: pre). split; [reflexivity|]. unfold n_endif, n_open in *. cbn [filter is_endif is_open Z.eqb Pos.eqb orb length]. lia.
  - assert (H' : exists c t' f', if_scan tl need c t' f' = Some (tt, ff, rest)).
    { destruct need as [|k]; [eauto|]. destruct cur; eauto. }
    destruct H' as (c & t' & f' & H'). apply IH in H' as (pre & -> & Hb).
    exists (Op 103 :: pre). split; [reflexivity|]. unfold n_endif, n_open in *. cbn [filter is_endif is_open Z.eqb Pos.eqb orb length]. lia.
  - destruct need as [|k].
    + injection H as _ _ <-. exists []. split; reflexivity.
    + assert (H' : exists c t' f', if_scan tl k c t' f' = Some (tt, ff, rest)) by (destruct cur; eauto).
      destruct H' as (c & t' & f' & H'). apply IH in H' as (pre & -> & Hb).
      exists (Op 104 :: pre). split; [reflexivity|]. unfold n_endif, n_open in *. cbn [filter is_endif is_open Z.eqb Pos.eqb orb length]. lia.
Qed.

(* op_if / op_notif level *)
Lemma op_if_ok_has_endif neg s items r :
  op_if_gen neg s items = Ok r ->
  exists pre rest, items = pre ++ Op 104 :: rest /\ n_endif pre = n_open pre.
Proof.
  unfold op_if_gen. destruct s as [|e s']; [discriminate|].
  destruct (if_scan items 0 true [] []) as [[[tt ff] rest]|] eqn:E; [|discriminate].
  intros _. apply if_scan_balance in E as (pre & -> & Hb). exists pre, rest. split; [reflexivity|exact Hb].
Qed.

Lemma op_if_without_endif_fails neg s items : n_endif items = 0%nat -> op_if_gen neg s items = Err.
Proof.
  intros H0. unfold op_if_gen. destruct s as [|e s']; [reflexivity|].
  destruct (if_scan items 0 true [] []) as [[[tt ff] rest]|] eqn:E; [|reflexivity].
  apply if_scan_needs_endifs in E. lia.
Qed.

(* every OP_ENDIF used up by nested conditionals: still fails *)
Lemma op_if_unbalanced_fails neg s items :
  (forall pre rest, items = pre ++ Op 104 :: rest -> n_endif pre <> n_open pre) -> op_if_gen neg s items = Err.
Proof.
  intros H. destruct (op_if_gen neg s items) as [r|] eqn:E; [|reflexivity].
  apply op_if_ok_has_endif in E as (pre & rest & -> & Hb). exfalso. exact (H pre rest eq_refl Hb).
Qed.

(* non-vacuity on the shapes of the seeded change: OP_1 OP_0 OP_IF <p2pkh scriptPubKey>, a nested pair with
   one OP_ENDIF, and a terminated one that succeeds *)
Example unterminated_if_examples :
  let spk := [Op 118; Op 169; Push [1;2;3]; Op 136; Op 172] in
  op_if [[0]; [1]] spk = Err /\ op_notif [[1]; [1]] spk = Err /\ op_if [[]; [1]] (Op 103 :: spk) = Err /\
  op_if [[]; [1]] (Op 99 :: Op 104 :: spk) = Err /\
  (exists r, op_if [[1]; [1]] (Op 104 :: spk) = Ok r).
Proof. cbv zeta. repeat split; try reflexivity. eexists. reflexivity. Qed.
