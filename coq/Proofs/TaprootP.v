(* Proofs/TaprootP.v — lemmas about Model/Taproot.v: byte-string order, sibling symmetry,
   control-block codec, path recomputation.  No curve hypotheses in this file. *)
From V Require Import Base.Prelude Base.Ints Model.Helper Model.Script Model.Pecc Model.Taproot.

(* ---------------- bytes order ---------------- *)
Lemma blt_irrefl a : blt a a = false.
Proof. induction a as [|x a IH]; cbn; [reflexivity|]. now rewrite Z.ltb_irrefl. Qed.

Lemma blt_total a b : a <> b -> blt a b = negb (blt b a).
Proof.
  revert b; induction a as [|x a IH]; intros [|y b] H; cbn; try reflexivity; [congruence|].
  destruct (x <? y) eqn:E1; destruct (y <? x) eqn:E2; cbn; try reflexivity; try lia.
  assert (x = y) by lia. subst y. apply IH. intros ->. now apply H.
Qed.

Lemma blt_asym a b : blt a b = true -> blt b a = false.
Proof.
  intros H. destruct (list_eq_dec Z.eq_dec a b) as [->|N].
  - now rewrite blt_irrefl in H.
  - rewrite (blt_total a b N) in H. now destruct (blt b a).
Qed.

Lemma blt_trichotomy a b : blt a b = false -> blt b a = false -> a = b.
Proof.
  intros H1 H2. destruct (list_eq_dec Z.eq_dec a b) as [E|N]; [exact E|].
  rewrite (blt_total a b N), H2 in H1. discriminate.
Qed.

Lemma blt_trans a b c : blt a b = true -> blt b c = true -> blt a c = true.
Proof.
  revert b c; induction a as [|x a IH]; intros [|y b] [|z c] H1 H2; cbn in *; try discriminate; try reflexivity.
  destruct (x <? y) eqn:E1; destruct (y <? x) eqn:E2; try lia; try discriminate;
  destruct (y <? z) eqn:E3; destruct (z <? y) eqn:E4; try lia; try discriminate;
  destruct (x <? z) eqn:E5; destruct (z <? x) eqn:E6; try lia; try reflexivity.
  eapply IH; eauto.
Qed.

(* ---------------- command / leaf equality ---------------- *)
Lemma cmd_eqb_eq a b : cmd_eqb a b = true <-> a = b.
Proof.
  destruct a as [x|x], b as [y|y]; cbn; split; intros H; try discriminate; try congruence.
  - apply Z.eqb_eq in H. now subst.
  - inversion H. apply Z.eqb_refl.
  - apply beq_eq in H. now subst.
  - inversion H. apply beq_refl.
Qed.

Lemma cmds_eqb_eq a b : cmds_eqb a b = true <-> a = b.
Proof.
  revert b; induction a as [|x a IH]; intros [|y b]; cbn; split; intros H; try discriminate; try reflexivity.
  - apply andb_true_iff in H as [H1 H2]. apply cmd_eqb_eq in H1. apply IH in H2. now subst.
  - inversion H; subst. apply andb_true_iff. split; [now apply cmd_eqb_eq | now apply IH].
Qed.

Lemma leaf_eqb_spec a b :
  leaf_eqb a b = true <-> fst a = fst b /\ s_cmds (snd a) = s_cmds (snd b).
Proof.
  unfold leaf_eqb. rewrite andb_true_iff, Z.eqb_eq, cmds_eqb_eq. reflexivity.
Qed.

Lemma leaf_eqb_refl a : leaf_eqb a a = true.
Proof. apply leaf_eqb_spec. split; reflexivity. Qed.

Lemma existsb_find {A} (f : A -> bool) l :
  existsb f l = true <-> exists x, find f l = Some x.
Proof.
  induction l as [|a l IH]; cbn.
  - split; [discriminate | intros [x H]; discriminate].
  - destruct (f a); cbn; [split; eauto | exact IH].
Qed.

Lemma find_app {A} (f : A -> bool) l1 l2 :
  find f (l1 ++ l2) = match find f l1 with Some x => Some x | None => find f l2 end.
Proof. induction l1 as [|a l IH]; cbn; [reflexivity|]. destruct (f a); [reflexivity | exact IH]. Qed.

Lemma existsb_false_find {A} (f : A -> bool) l : existsb f l = false -> find f l = None.
Proof.
  intros H. destruct (find f l) eqn:E; [|reflexivity].
  assert (existsb f l = true) by (apply existsb_find; eauto). congruence.
Qed.

Section TaprootP.
Variable C : curve.
Variable sha256 : bytes -> bytes.

Notation tree_hash := (tree_hash sha256).
Notation branch_hash := (branch_hash sha256).
Notation tap_leaf_hash := (tap_leaf_hash sha256).
Notation path_hashes := (path_hashes sha256).
Notation fold_path := (fold_path sha256).

(* ---------------- sibling symmetry ---------------- *)
Lemma branch_preimage_sym a b : branch_preimage a b = branch_preimage b a.
Proof.
  unfold branch_preimage. destruct (list_eq_dec Z.eq_dec a b) as [->|N]; [reflexivity|].
  rewrite (blt_total a b N). destruct (blt b a); reflexivity.
Qed.

Lemma branch_hash_sym a b : branch_hash a b = branch_hash b a.
Proof. unfold Taproot.branch_hash. now rewrite branch_preimage_sym. Qed.

Lemma tree_hash_swap l r : tree_hash (Branch l r) = tree_hash (Branch r l).
Proof.
  cbn. destruct (tree_hash l) as [a|], (tree_hash r) as [b|]; cbn; try reflexivity.
  now rewrite branch_hash_sym.
Qed.

(* the trees obtained from one another by swapping the children of any set of branches *)
Inductive sib_equiv : taptree -> taptree -> Prop :=
| se_refl t : sib_equiv t t
| se_swap l r : sib_equiv (Branch l r) (Branch r l)
| se_cong l l' r r' : sib_equiv l l' -> sib_equiv r r' -> sib_equiv (Branch l r) (Branch l' r')
| se_trans a b c : sib_equiv a b -> sib_equiv b c -> sib_equiv a c.

Lemma tree_hash_sib_equiv t t' : sib_equiv t t' -> tree_hash t = tree_hash t'.
Proof.
  induction 1 as [t | l r | l l' r r' _ IHl _ IHr | a b c _ IH1 _ IH2].
  - reflexivity.
  - apply tree_hash_swap.
  - cbn. now rewrite IHl, IHr.
  - congruence.
Qed.

(* ---------------- path recomputation ---------------- *)
Lemma fold_path_app c a b : fold_path c (a ++ b) = fold_path (fold_path c a) b.
Proof. revert c; induction a as [|h a IH]; intros c; cbn; [reflexivity | apply IH]. Qed.

Lemma path_recomputes t : forall lf lf' root,
  find (leaf_eqb lf) (leaves t) = Some lf' ->
  tree_hash t = Ok root ->
  exists hs lh, path_hashes t lf = Ok (Some hs) /\
                tap_leaf_hash (fst lf') (snd lf') = Ok lh /\ fold_path lh hs = root /\
                length hs = (length hs) /\ leaf_eqb lf lf' = true.
Proof.
  induction t as [v sc | l IHl r IHr]; intros lf lf' root Hf Hh.
  - cbn in Hf. destruct (leaf_eqb lf (v, sc)) eqn:E; [|discriminate]. inversion Hf; subst lf'.
    exists [], root. cbn in *. repeat split; auto.
  - cbn in Hh. destruct (tree_hash l) as [hl|] eqn:El; [|discriminate].
    destruct (tree_hash r) as [hr|] eqn:Er; [|discriminate]. cbn in Hh. inversion Hh; subst root. clear Hh.
    cbn [leaves] in Hf. rewrite find_app in Hf. cbn [Taproot.path_hashes]. unfold leaf_in.
    destruct (find (leaf_eqb lf) (leaves l)) as [x|] eqn:Fl.
    + inversion Hf; subst x. clear Hf.
      assert (Hex : existsb (leaf_eqb lf) (leaves l) = true) by (apply existsb_find; eauto).
      rewrite Hex. destruct (IHl lf lf' hl Fl eq_refl) as (hs & lh & Hp & Hl & Hfold & _ & Heq).
      rewrite Hp. cbn. rewrite Er. cbn. exists (hs ++ [hr]), lh. repeat split; auto.
      rewrite fold_path_app, Hfold. reflexivity.
    + assert (Hex : existsb (leaf_eqb lf) (leaves l) = false).
      { destruct (existsb (leaf_eqb lf) (leaves l)) eqn:E; [|reflexivity].
        apply existsb_find in E as [x Hx]. congruence. }
      rewrite Hex.
      assert (Hex2 : existsb (leaf_eqb lf) (leaves r) = true) by (apply existsb_find; eauto).
      rewrite Hex2. destruct (IHr lf lf' hr Hf eq_refl) as (hs & lh & Hp & Hl & Hfold & _ & Heq).
      rewrite Hp. cbn. rewrite El. cbn. exists (hs ++ [hl]), lh. repeat split; auto.
      rewrite fold_path_app, Hfold. cbn. apply branch_hash_sym.
Qed.

Lemma in_find_leaf lf t : In lf (leaves t) ->
  exists lf', find (leaf_eqb lf) (leaves t) = Some lf' /\ leaf_eqb lf lf' = true.
Proof.
  intros H. assert (E : existsb (leaf_eqb lf) (leaves t) = true).
  { apply existsb_exists. exists lf. split; [exact H | apply leaf_eqb_refl]. }
  apply existsb_find in E as [x Hx]. exists x. split; [exact Hx|].
  apply find_some in Hx. tauto.
Qed.

(* leaves with equal version and commands and no retained .raw hash alike *)
Lemma leaf_hash_eqb lf lf' :
  leaf_eqb lf lf' = true -> s_raw (snd lf) = s_raw (snd lf') ->
  tap_leaf_hash (fst lf) (snd lf) = tap_leaf_hash (fst lf') (snd lf').
Proof.
  intros H Hr. apply leaf_eqb_spec in H as [Hv Hc].
  destruct lf as [v [c rw]], lf' as [v' [c' rw']]; cbn in *. subst. reflexivity.
Qed.

Theorem control_block_recomputes t P lf lf' root Q par :
  find (leaf_eqb lf) (leaves t) = Some lf' ->
  tree_hash t = Ok root ->
  tweaked_key C sha256 P root = Ok Q -> parity Q = Ok par ->
  exists cb,
    tree_control_block C sha256 t P lf = Ok (Some cb) /\
    cb_version cb = fst lf' /\ cb_parity cb = par /\ cb_key cb = P /\
    cb_merkle_root sha256 cb (snd lf') = Ok root /\
    cb_external_pubkey C sha256 cb (snd lf') = Ok Q.
Proof.
  intros Hf Hh HQ Hpar.
  destruct (path_recomputes t lf lf' root Hf Hh) as (hs & lh & Hp & Hl & Hfold & _ & Heq).
  pose proof (proj1 (leaf_eqb_spec _ _) Heq) as [Hv _].
  destruct t as [v sc | l r].
  - cbn in Hf. destruct (leaf_eqb lf (v, sc)) eqn:E; [|discriminate]. inversion Hf; subst lf'.
    cbn in Hp. inversion Hp; subst hs. cbn in Hfold. subst lh.
    unfold tree_control_block. rewrite E. cbn [negb].
    unfold tree_external_pubkey. rewrite Hh. cbn [bind]. rewrite HQ. cbn [bind]. rewrite Hpar. cbn [bind].
    eexists. split; [reflexivity|]. cbn. repeat split; auto.
    + unfold cb_merkle_root. cbn. cbn in Hl. rewrite Hl. reflexivity.
    + unfold cb_external_pubkey, cb_merkle_root. cbn. cbn in Hl. rewrite Hl. cbn. exact HQ.
  - unfold tree_control_block.
    assert (Hin : leaf_in lf (Branch l r) = true) by (apply existsb_find; eauto).
    rewrite Hin. cbn [negb].
    unfold tree_external_pubkey. rewrite Hh. cbn [bind]. rewrite HQ. cbn [bind]. rewrite Hpar. cbn [bind].
    rewrite Hp. cbn [bind].
    eexists. split; [reflexivity|]. cbn [cb_version cb_parity cb_key]. repeat split; auto.
    + unfold cb_merkle_root. cbn [cb_version cb_hashes]. rewrite Hv, Hl. cbn. now rewrite Hfold.
    + unfold cb_external_pubkey, cb_merkle_root. cbn [cb_version cb_hashes cb_key]. rewrite Hv, Hl. cbn.
      rewrite Hfold. exact HQ.
Qed.

(* ---------------- control block codec ---------------- *)
Lemma byte_land b0 : 0 <= b0 < 256 ->
  Z.land b0 254 = b0 - b0 mod 2 /\ Z.land b0 1 = b0 mod 2.
Proof.
  intros H.
  assert (F : forallb (fun b => (Z.land b 254 =? b - b mod 2) && (Z.land b 1 =? b mod 2))
                      (map Z.of_nat (seq 0 256)) = true) by (vm_compute; reflexivity).
  rewrite forallb_forall in F. specialize (F b0).
  assert (I : In b0 (map Z.of_nat (seq 0 256))).
  { apply in_map_iff. exists (Z.to_nat b0). split; [lia|]. apply in_seq. lia. }
  apply F in I. apply andb_true_iff in I as [I1 I2]. lia.
Qed.

Definition len32 (h : bytes) : Prop := length h = 32%nat.

Lemma chunks32_concat hs : Forall len32 hs -> chunks32 (length hs) (concat hs) = hs.
Proof.
  induction 1 as [|h hs Hh _ IH]; [reflexivity|].
  cbn [length chunks32 concat]. f_equal.
  - unfold len32 in Hh. rewrite firstn_app, Hh, Nat.sub_diag, firstn_O, app_nil_r.
    apply firstn_all2. lia.
  - unfold len32 in Hh. rewrite skipn_app, Hh, Nat.sub_diag, skipn_O.
    rewrite skipn_all2 by lia. exact IH.
Qed.

Lemma concat_len32 hs : Forall len32 hs -> length (concat hs) = (32 * length hs)%nat.
Proof.
  induction 1 as [|h hs Hh _ IH]; [reflexivity|]. cbn [concat length]. rewrite app_length, Hh, IH. lia.
Qed.

Lemma xonly_length (P : point) : length (xonly P) = 32%nat.
Proof. destruct P as [[x y]|]; unfold xonly; apply to_be_length. Qed.

(* parse (serialize cb): every field is recovered; the key is re-lifted from its x coordinate *)
Theorem cb_roundtrip cb :
  0 <= cb_version cb <= 254 -> cb_version cb mod 2 = 0 ->
  (cb_parity cb = 0 \/ cb_parity cb = 1) ->
  Forall len32 (cb_hashes cb) -> (length (cb_hashes cb) <= 128)%nat ->
  exists raw,
    cb_serialize cb = Ok raw /\
    length raw = (33 + 32 * length (cb_hashes cb))%nat /\
    cb_parse C raw =
      (k <- parse_xonly C (xonly (cb_key cb)) ;;
       Ok {| cb_version := cb_version cb; cb_parity := cb_parity cb; cb_key := k;
             cb_hashes := cb_hashes cb |}).
Proof.
  intros Hv Hev Hpar Hhs Hlen.
  set (b0 := cb_version cb + cb_parity cb).
  assert (Hb0 : 0 <= b0 < 256) by (unfold b0; lia).
  unfold cb_serialize, int_to_byte. fold b0.
  destruct (255 <? b0) eqn:E1; [lia|]. destruct (b0 <? 0) eqn:E2; [lia|]. cbn [orb bind].
  eexists. split; [reflexivity|].
  assert (Hl : length ([b0] ++ xonly (cb_key cb) ++ concat (cb_hashes cb)) =
               (33 + 32 * length (cb_hashes cb))%nat).
  { cbn [app length]. rewrite app_length, xonly_length, concat_len32 by assumption. lia. }
  split; [exact Hl|].
  unfold cb_parse. unfold zlen. rewrite Hl.
  set (m := length (cb_hashes cb)) in *.
  replace (Z.of_nat (33 + 32 * m)) with (1 + (1 + Z.of_nat m) * 32) by lia.
  rewrite Z.mod_add by lia. cbn [Z.modulo Z.div_eucl Z.eqb negb].
  change (1 mod 32 =? 1) with true. cbn [negb].
  destruct (1 + (1 + Z.of_nat m) * 32 <? 33) eqn:E3; [lia|].
  destruct (33 + 128 * 32 <? 1 + (1 + Z.of_nat m) * 32) eqn:E4; [lia|]. cbn [orb].
  cbn [app].
  rewrite firstn_app, xonly_length, Nat.sub_diag, firstn_O, app_nil_r.
  rewrite (firstn_all2 (xonly (cb_key cb))) by (rewrite xonly_length; lia).
  destruct (parse_xonly C (xonly (cb_key cb))) as [k|]; [|reflexivity]. cbn [bind].
  f_equal.
  destruct (byte_land b0 Hb0) as [L1 L2].
  assert (Hb0m : b0 mod 2 = cb_parity cb).
  { unfold b0. destruct Hpar as [-> | ->].
    - now rewrite Z.add_0_r.
    - replace (cb_version cb + 1) with (1 + cb_version cb) by lia.
      rewrite <- Z.add_mod_idemp_r, Hev by lia. reflexivity. }
  rewrite L1, L2, Hb0m. unfold b0.
  replace (cb_version cb + cb_parity cb - cb_parity cb) with (cb_version cb) by lia.
  replace ((1 + (1 + Z.of_nat m) * 32 - 33) / 32) with (Z.of_nat m).
  2:{ replace (1 + (1 + Z.of_nat m) * 32 - 33) with (Z.of_nat m * 32) by lia. now rewrite Z.div_mul by lia. }
  rewrite Nat2Z.id.
  rewrite skipn_app, xonly_length, Nat.sub_diag, skipn_O.
  rewrite (skipn_all2 (xonly (cb_key cb))) by (rewrite xonly_length; lia). cbn [app].
  unfold m. rewrite chunks32_concat by assumption. reflexivity.
Qed.

End TaprootP.
