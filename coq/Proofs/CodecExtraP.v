(* Proofs/CodecExtraP.v — C19: exact domains of the small codecs, unambiguity of var-strings,
   what HeadersMessage.parse can return, the cfilter message composed with the GCS codec. *)
From V Require Import Base.Prelude Base.Ints Model.Helper Model.Block Model.Gcs Model.Network
  Spec.P2P Proofs.HelperP Proofs.NetworkP Proofs.EnvelopeP Proofs.P2PSpecP Proofs.GcsP.

(* ---------------- big-endian integers, as for little-endian ---------------- *)

Lemma int_to_be_ok n len : 0 <= n < pow256 len -> int_to_be n len = Ok (to_be len n).
Proof.
  intros H. unfold int_to_be, to_be.
  destruct (0 <=? n) eqn:E1; destruct (n <? pow256 len) eqn:E2; cbn; try reflexivity; lia.
Qed.

Lemma int_to_be_err n len : ~ (0 <= n < pow256 len) -> int_to_be n len = Err.
Proof.
  intros H. unfold int_to_be.
  destruct (0 <=? n) eqn:E1; destruct (n <? pow256 len) eqn:E2; cbn; try reflexivity; lia.
Qed.

(* both byte orders of the same number are mirror images *)
Lemma int_le_be_mirror n len a b :
  int_to_le n len = Ok a -> int_to_be n len = Ok b -> b = rev a.
Proof.
  intros Ha Hb. apply int_to_le_inv in Ha as [R ->]. rewrite int_to_be_ok in Hb by exact R.
  apply Ok_inj in Hb. now subst.
Qed.

(* ---------------- var-strings ---------------- *)

Lemma encode_varstr_ok_iff b :
  (exists e, encode_varstr b = Ok e) <-> zlen b < 18446744073709551616.
Proof.
  unfold encode_varstr. split.
  - intros [e H]. destruct (encode_varint (zlen b)) as [l|] eqn:E; [|discriminate].
    apply encode_varint_inv in E. lia.
  - intros H. rewrite encode_varint_eq_spec by (pose proof (zlen_nonneg b); lia). cbn [bind]. eauto.
Qed.

Lemma encode_varstr_layout b e :
  encode_varstr b = Ok e -> e = cs_bytes (zlen b) ++ b.
Proof.
  unfold encode_varstr. destruct (encode_varint (zlen b)) as [l|] eqn:E; [|discriminate].
  apply encode_varint_inv in E as [_ ->]. cbn [bind]. intros H. apply Ok_inj in H. now subst.
Qed.

(* decoding is unambiguous: no var-string is a prefix of a different one *)
Lemma varstr_prefix_free b1 b2 e1 e2 r1 r2 :
  zlen b1 < 9223372036854775808 -> zlen b2 < 9223372036854775808 ->
  encode_varstr b1 = Ok e1 -> encode_varstr b2 = Ok e2 ->
  e1 ++ r1 = e2 ++ r2 -> b1 = b2 /\ r1 = r2.
Proof.
  intros H1 H2 E1 E2 E.
  destruct (varstr_roundtrip b1 r1 H1) as [x [Ex Rx]]. rewrite E1 in Ex. apply Ok_inj in Ex. subst x.
  destruct (varstr_roundtrip b2 r2 H2) as [y [Ey Ry]]. rewrite E2 in Ey. apply Ok_inj in Ey. subst y.
  rewrite E, Ry in Rx. apply Ok_inj in Rx. inversion Rx. auto.
Qed.

(* ---------------- block header: exact domain ---------------- *)

Lemma serialize_header_ok_iff h :
  (exists b, serialize_header h = Ok b) <->
  (0 <= h_version h < 4294967296 /\ 0 <= h_time h < 4294967296).
Proof.
  unfold serialize_header. split.
  - intros [b H].
    destruct (int_to_le (h_version h) 4) as [v|] eqn:E1; [|discriminate]. cbn [bind] in H.
    destruct (int_to_le (h_time h) 4) as [t|] eqn:E2; [|discriminate].
    apply int_to_le_inv in E1 as [R1 _]. apply int_to_le_inv in E2 as [R2 _].
    rewrite pow256_4 in *. lia.
  - intros [H1 H2]. rewrite !int_to_le_ok by (rewrite pow256_4; lia). cbn [bind]. eauto.
Qed.

Lemma serialize_header_layout h b :
  serialize_header h = Ok b ->
  b = to_le 4 (h_version h) ++ rev (h_prev h) ++ rev (h_root h) ++ to_le 4 (h_time h)
      ++ h_bits h ++ h_nonce h.
Proof.
  unfold serialize_header. intros H.
  destruct (int_to_le (h_version h) 4) as [v|] eqn:E1; [|discriminate]. cbn [bind] in H.
  destruct (int_to_le (h_time h) 4) as [t|] eqn:E2; [|discriminate]. cbn [bind] in H.
  apply int_to_le_inv in E1 as [_ ->]. apply int_to_le_inv in E2 as [_ ->].
  apply Ok_inj in H. now subst.
Qed.

(* the header read from at least 80 bytes is well-formed and leaves exactly what follows *)
Lemma parse_header_wf s :
  bytes_ok s -> (80 <= length s)%nat ->
  header_wf (fst (parse_header s)) /\ snd (parse_header s) = skipn 80 s.
Proof.
  intros Hs L. unfold parse_header, read.
  set (s1 := skipn 4 s). set (s2 := skipn 32 s1). set (s3 := skipn 32 s2).
  set (s4 := skipn 4 s3). set (s5 := skipn 4 s4). cbn [fst snd].
  assert (length s1 = (length s - 4)%nat) as L1 by (unfold s1; now rewrite skipn_length).
  assert (length s2 = (length s - 36)%nat) as L2 by (unfold s2; rewrite skipn_length; lia).
  assert (length s3 = (length s - 68)%nat) as L3 by (unfold s3; rewrite skipn_length; lia).
  assert (length s4 = (length s - 72)%nat) as L4 by (unfold s4; rewrite skipn_length; lia).
  assert (length s5 = (length s - 76)%nat) as L5 by (unfold s5; rewrite skipn_length; lia).
  assert (bytes_ok s1) as B1 by now apply bytes_ok_skipn.
  assert (bytes_ok s2) as B2 by now apply bytes_ok_skipn.
  assert (bytes_ok s3) as B3 by now apply bytes_ok_skipn.
  assert (bytes_ok s4) as B4 by now apply bytes_ok_skipn.
  assert (bytes_ok s5) as B5 by now apply bytes_ok_skipn.
  split.
  - unfold header_wf. cbn [h_version h_time h_prev h_root h_bits h_nonce].
    pose proof (from_le_bound _ (bytes_ok_firstn 4 s Hs)) as R0.
    pose proof (from_le_bound _ (bytes_ok_firstn 4 s3 B3)) as R3.
    rewrite firstn_length_ge, pow256_4 in R0, R3 by lia.
    rewrite !rev_length, !firstn_length_ge by lia.
    repeat split; try lia; try apply bytes_ok_rev; now apply bytes_ok_firstn.
  - unfold s5, s4, s3, s2, s1. clear.
    assert (forall a b (l : bytes), skipn a (skipn b l) = skipn (b + a) l) as SS.
    { intros a b. induction b as [|b IH]; intros l; [reflexivity|].
      destruct l as [|x l]; [now rewrite !skipn_nil|]. cbn [skipn Nat.add]. apply IH. }
    now rewrite !SS.
Qed.

Lemma read_varint_rest_ok s n r : bytes_ok s -> read_varint s = Ok (n, r) -> bytes_ok r.
Proof.
  intros Hs. destruct s as [|c t]; [discriminate|]. cbn [read_varint].
  inversion Hs as [|? ? _ Ht]; subst.
  destruct (c =? 253); [intros H; assert (r = skipn 2 t) as -> by congruence; now apply bytes_ok_skipn|].
  destruct (c =? 254); [intros H; assert (r = skipn 4 t) as -> by congruence; now apply bytes_ok_skipn|].
  destruct (c =? 255); [intros H; assert (r = skipn 8 t) as -> by congruence; now apply bytes_ok_skipn|].
  intros H. assert (r = t) as -> by congruence. exact Ht.
Qed.

(* HeadersMessage.parse never returns a header assembled from a short read: a header is
   followed by its transaction count, so the 80 bytes before it were all there *)
Lemma headers_loop_wf : forall fuel n s acc res rest,
  bytes_ok s -> Forall header_wf acc ->
  headers_loop fuel n s acc = Ok (res, rest) -> Forall header_wf res /\ bytes_ok rest.
Proof.
  induction fuel as [|f IH]; intros n s acc res rest Hs Ha; cbn [headers_loop].
  - destruct (n <=? 0); [|discriminate]. intros H.
    assert (res = rev acc /\ rest = s) as [-> ->] by (split; congruence).
    split; [now apply Forall_rev|exact Hs].
  - destruct (n <=? 0).
    { intros H. assert (res = rev acc /\ rest = s) as [-> ->] by (split; congruence).
      split; [now apply Forall_rev|exact Hs]. }
    destruct (parse_header s) as [h s1] eqn:EP.
    destruct (read_varint s1) as [[ntx s2]|] eqn:EV; [|discriminate]. cbn [bind].
    destruct (ntx =? 0); [|discriminate]. intros H.
    destruct (Nat.le_gt_cases 80 (length s)) as [L|L].
    + destruct (parse_header_wf s Hs L) as [W R]. rewrite EP in W, R. cbn [fst snd] in W, R.
      apply (IH _ _ _ _ _ (read_varint_rest_ok s1 ntx s2 ltac:(subst s1; now apply bytes_ok_skipn) EV)
                (Forall_cons h W Ha) H).
    + exfalso.
      assert (s1 = []) as ->; [|discriminate EV].
      assert (snd (parse_header s) = []) as E; [|now rewrite EP in E].
      unfold parse_header, read. cbn [snd].
      apply length_zero_iff_nil. rewrite !skipn_length. lia.
Qed.

Lemma headers_parse_wf s hs rest :
  bytes_ok s -> headers_parse s = Ok (hs, rest) -> Forall header_wf hs /\ bytes_ok rest.
Proof.
  intros Hs. unfold headers_parse.
  destruct (read_varint s) as [[n s1]|] eqn:EV; [|discriminate]. cbn [bind]. intros H.
  apply (headers_loop_wf _ _ _ _ _ _ (read_varint_rest_ok s n s1 Hs EV) (Forall_nil _) H).
Qed.

(* ... hence every header it returns serialises to 80 bytes that parse back to it *)
Lemma headers_parse_reserialize s hs rest :
  bytes_ok s -> headers_parse s = Ok (hs, rest) ->
  Forall (fun h => exists b, serialize_header h = Ok b /\ length b = 80%nat /\
                             parse_header b = (h, [])) hs.
Proof.
  intros Hs H. destruct (headers_parse_wf s hs rest Hs H) as [W _].
  eapply Forall_impl; [|exact W]. intros h Hh.
  destruct (header_roundtrip h [] Hh) as [b (E & L & P)]. exists b. rewrite app_nil_r in P. auto.
Qed.

(* a transaction count other than 0 behind any header is refused *)
Lemma headers_rejects_txcount hs1 h hs2 b1 hb k tail :
  Forall header_wf hs1 -> header_wf h -> headers_body hs1 = Ok b1 -> serialize_header h = Ok hb ->
  zlen (hs1 ++ h :: hs2) < 18446744073709551616 -> 0 < k < 253 ->
  exists nb, encode_varint (zlen (hs1 ++ h :: hs2)) = Ok nb /\
    headers_parse (nb ++ b1 ++ hb ++ [k] ++ tail) = Err.
Proof.
  intros W1 Wh B1 Hb Hl Hk.
  destruct (varint_roundtrip (zlen (hs1 ++ h :: hs2)) (b1 ++ hb ++ [k] ++ tail)) as [nb [En Rn]];
    [pose proof (zlen_nonneg (hs1 ++ h :: hs2)); lia|].
  exists nb. split; [exact En|]. unfold headers_parse. rewrite Rn. cbn [bind].
  (* run the loop over the good headers, then hit the bad count *)
  assert (forall hs1 b1 fuel n acc rest, Forall header_wf hs1 -> headers_body hs1 = Ok b1 ->
            (length hs1 < fuel)%nat -> 0 < n ->
            headers_loop fuel (zlen hs1 + n) (b1 ++ hb ++ [k] ++ rest) acc = Err) as G.
  { clear - Wh Hb Hk. induction hs1 as [|h1 r IH]; intros b1 fuel n acc rest W B F N.
    - cbn in B. apply Ok_inj in B. subst b1. destruct fuel as [|f]; [cbn in F; lia|].
      cbn [headers_loop app]. change (zlen (@nil header)) with 0.
      destruct (0 + n <=? 0) eqn:E; [lia|].
      destruct (header_roundtrip h (k :: rest) Wh) as [hb' (E1 & _ & P)].
      rewrite Hb in E1. apply Ok_inj in E1. subst hb'. rewrite P. cbn [read_varint].
      destruct (k =? 253) eqn:A; [lia|]. destruct (k =? 254) eqn:B; [lia|].
      destruct (k =? 255) eqn:C; [lia|]. cbn [bind]. destruct (k =? 0) eqn:D; [lia|reflexivity].
    - inversion W as [|? ? Wh1 Wr]; subst. cbn [headers_body] in B.
      destruct (serialize_header h1) as [x|] eqn:E1; [|discriminate]. cbn [bind] in B.
      destruct (headers_body r) as [rb|] eqn:E2; [|discriminate]. cbn [bind] in B.
      apply Ok_inj in B. subst b1.
      destruct fuel as [|f]; [cbn in F; lia|]. cbn [headers_loop].
      assert (zlen (h1 :: r) = zlen r + 1) as ZL by (unfold zlen; cbn [length]; lia).
      pose proof (zlen_nonneg r).
      destruct (zlen (h1 :: r) + n <=? 0) eqn:E0; [lia|].
      destruct (header_roundtrip h1 (0 :: rb ++ hb ++ [k] ++ rest) Wh1) as [x' (E1' & _ & P)].
      rewrite E1 in E1'. apply Ok_inj in E1'. subst x'.
      rewrite <- !app_assoc. cbn [app]. cbn [app] in P. rewrite P. cbn [read_varint Z.eqb bind].
      replace (zlen (h1 :: r) + n - 1) with (zlen r + n) by lia.
      apply (IH rb f n (h1 :: acc) rest Wr eq_refl); [cbn [length] in F; lia|exact N]. }
  assert (zlen (hs1 ++ h :: hs2) = zlen hs1 + (1 + zlen hs2)) as ZL
    by (unfold zlen; rewrite app_length; cbn [length]; lia).
  rewrite ZL. apply G; try assumption; [|pose proof (zlen_nonneg hs2); lia].
  destruct (header_roundtrip h [] Wh) as [hb' (E & L & _)]. rewrite Hb in E. apply Ok_inj in E. subst hb'.
  rewrite !app_length, L. pose proof (headers_body_length hs1 b1 W1 B1). lia.
Qed.

(* ---------------- cfilter message over the GCS codec (C18) ---------------- *)

Lemma cfilter_message_roundtrip t bh items fb rest :
  length bh = 32%nat -> ascending 0 items -> zlen items < 18446744073709551616 ->
  serialize_gcs items = Ok fb -> zlen fb < 9223372036854775808 ->
  exists b, cfilter_layout t bh fb = Ok b /\
            cfilter_parse (b ++ rest) = Ok (t, bh, fb, items, rest).
Proof.
  intros Lb Ha Hn Hs Hl.
  destruct (gcs_roundtrip items Ha Hn) as [fb' [E1 E2]].
  rewrite Hs in E1. apply Ok_inj in E1. subst fb'.
  now apply cfilter_roundtrip.
Qed.
