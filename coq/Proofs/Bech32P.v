(* Proofs/Bech32P.v — group_32 is the 8->5 regrouping with zero padding; segwit address
   round trip; constant selection; error detection for the encoder's output. *)
From V Require Import Base.Prelude Base.Ints Base.Lfsr Model.Helper Model.Base58 Model.Bech32
  Proofs.Base58P Proofs.PolymodP Proofs.Bech32Sweep Proofs.Bech32DetectP.

Definition V (acc : list Z) : Z := val 32 (rev acc).

Lemma V_cons x acc : V (x :: acc) = 32 * V acc + x.
Proof. unfold V. cbn [rev]. apply val_snoc. Qed.

Lemma zlen_cons {A} (x : A) l : zlen (x :: l) = zlen l + 1.
Proof. unfold zlen. cbn [length]. lia. Qed.

Lemma rev'_rev {A} (l : list A) : rev' l = rev l.
Proof. unfold rev'. symmetry. apply rev_alt. Qed.

Lemma pow2_split u : 5 <= u -> 2 ^ u = 32 * 2 ^ (u - 5).
Proof. intros H. replace u with (5 + (u - 5)) at 1 by lia. rewrite Z.pow_add_r by lia. reflexivity. Qed.

Lemma g32_while_spec : forall fuel u cur acc,
  (Z.to_nat u <= fuel)%nat -> 0 <= u -> 0 <= cur < 2 ^ u -> Forall sym5 acc ->
  exists u' cur' acc', g32_while fuel u cur acc = Ok (u', cur', acc') /\
    0 <= u' /\ (u' <= 5) /\ (1 <= u -> 1 <= u') /\ 0 <= cur' < 2 ^ u' /\ Forall sym5 acc' /\
    V acc' * 2 ^ u' + cur' = V acc * 2 ^ u + cur /\
    5 * zlen acc' + u' = 5 * zlen acc + u.
Proof.
  induction fuel as [|f IH]; intros u cur acc Hf Hu Hc HF; cbn [g32_while];
    destruct (5 <? u) eqn:E.
  - lia.
  - exists u, cur, acc. repeat split; auto; lia.
  - remember (u - 5) as u2 eqn:Eu2.
    assert (P0 : 0 < 2 ^ u2) by (apply Z.pow_pos_nonneg; lia).
    pose proof (pow2_split u ltac:(lia)) as PS. rewrite <- Eu2 in PS.
    rewrite Z.land_ones, Z.shiftr_div_pow2 by lia.
    pose proof (Z.mod_pos_bound cur (2 ^ u2) P0) as Hm.
    pose proof (Z.div_mod cur (2 ^ u2) ltac:(lia)) as DM.
    assert (Hq : 0 <= cur / 2 ^ u2 < 32).
    { split; [apply Z.div_pos; lia|]. apply Z.div_lt_upper_bound; lia. }
    destruct (IH u2 (cur mod 2 ^ u2) (cur / 2 ^ u2 :: acc)) as [u' [cur' [acc' [E1 [A1 [A2 [A3 [A4 [A5 [A6 A7]]]]]]]]]].
    + lia.
    + lia.
    + exact Hm.
    + constructor; [exact Hq|exact HF].
    + exists u', cur', acc'. split; [exact E1|]. rewrite V_cons in A6. rewrite zlen_cons in A7.
      split; [lia|]. split; [lia|]. split; [intros _; apply A3; lia|].
      split; [exact A4|]. split; [exact A5|]. split; [rewrite A6, PS; nia | lia].
  - exists u, cur, acc. repeat split; auto; lia.
Qed.

Lemma g32_loop_spec : forall s u cur acc,
  bytes_ok s -> 0 <= u <= 5 -> 0 <= cur < 2 ^ u -> Forall sym5 acc ->
  exists u' cur' acc', g32_loop s u cur acc = Ok (u', cur', acc') /\
    0 <= u' <= 5 /\ (s <> [] \/ 1 <= u -> 1 <= u') /\ 0 <= cur' < 2 ^ u' /\ Forall sym5 acc' /\
    V acc' * 2 ^ u' + cur' = horner 256 s (V acc * 2 ^ u + cur) /\
    5 * zlen acc' + u' = 5 * zlen acc + u + 8 * zlen s.
Proof.
  induction s as [|c r IH]; intros u cur acc HB Hu Hc HF.
  - exists u, cur, acc. cbn [g32_loop]. split; [reflexivity|]. split; [lia|].
    split; [intros [H|H]; [congruence|lia]|]. split; [exact Hc|]. split; [exact HF|].
    split; [reflexivity|unfold zlen; cbn [length]; lia].
  - inversion HB as [|? ? Hcb HB']; subst. unfold byte_ok in Hcb.
    cbn [g32_loop]. rewrite Z.shiftl_mul_pow2 by lia.
    assert (PS : 2 ^ (u + 8) = 256 * 2 ^ u).
    { rewrite Z.pow_add_r by lia. change (2 ^ 8) with 256. lia. }
    assert (P0 : 0 < 2 ^ u) by (apply Z.pow_pos_nonneg; lia).
    assert (HB2 : 0 <= cur * 2 ^ 8 + c < 2 ^ (u + 8)).
    { change (2 ^ 8) with 256. rewrite PS. nia. }
    destruct (g32_while_spec (Z.to_nat (u + 8)) (u + 8) (cur * 2 ^ 8 + c) acc
                ltac:(lia) ltac:(lia) HB2 HF)
      as [u1 [cur1 [acc1 [E1 [A1 [A2 [A3 [A4 [A5 [A6 A7]]]]]]]]]].
    rewrite E1. cbn [bind].
    destruct (IH u1 cur1 acc1 HB' ltac:(lia) A4 A5)
      as [u' [cur' [acc' [E2 [B1 [B2 [B3 [B4 [B5 B6]]]]]]]]].
    exists u', cur', acc'. split; [exact E2|].
    split; [exact B1|]. split; [intros _; apply B2; right; apply A3; lia|].
    split; [exact B3|]. split; [exact B4|]. split.
    + rewrite B5, A6. change (horner 256 (c :: r) (V acc * 2 ^ u + cur))
        with (horner 256 r (256 * (V acc * 2 ^ u + cur) + c)).
      f_equal. rewrite PS. change (2 ^ 8) with 256. lia.
    + rewrite B6, A7, zlen_cons. lia.
Qed.

(* group_32 = 8 -> 5 regrouping with zero padding, in numeric form *)
Theorem group_32_spec s : bytes_ok s ->
  exists syms, group_32 s = Ok syms /\ Forall sym5 syms /\
    (s = [] -> syms = [0]) /\
    (s <> [] -> exists p, 0 <= p < 5 /\ 5 * zlen syms = 8 * zlen s + p /\
                          val 32 syms = val 256 s * 2 ^ p).
Proof.
  intros HB. unfold group_32.
  destruct (g32_loop_spec s 0 0 [] HB ltac:(lia) ltac:(cbn; lia) ltac:(constructor))
    as [u [cur [acc [E [A1 [A2 [A3 [A4 [A5 A6]]]]]]]]].
  rewrite E. cbn [bind]. rewrite rev'_rev. eexists. split; [reflexivity|].
  rewrite Z.shiftl_mul_pow2 by lia.
  change (V [] * 2 ^ 0 + 0) with 0 in A5. fold (val 256 s) in A5.
  change (zlen (@nil Z)) with 0 in A6.
  assert (P0 : 0 < 2 ^ (5 - u)) by (apply Z.pow_pos_nonneg; lia).
  assert (PS : 2 ^ u * 2 ^ (5 - u) = 32).
  { rewrite <- Z.pow_add_r by lia. replace (u + (5 - u)) with 5 by lia. reflexivity. }
  split; [|split].
  - change (rev (cur * 2 ^ (5 - u) :: acc)) with (rev acc ++ [cur * 2 ^ (5 - u)]).
    apply Forall_app. split; [apply Forall_rev; exact A4|].
    constructor; [|constructor]. unfold sym5. nia.
  - intros ->. cbn in E. injection E as <- <- <-. reflexivity.
  - intros HN. exists (5 - u). specialize (A2 (or_introl HN)).
    split; [lia|]. split.
    + unfold zlen in *. rewrite rev_length. cbn [length]. lia.
    + fold (V (cur * 2 ^ (5 - u) :: acc)). rewrite V_cons, <- A5, <- PS. ring.
Qed.

(* ---------- segwit address round trip ---------- *)

Lemma number_of_horner ds : forall a,
  fold_left (fun n d => Z.shiftl n 5 + d) ds a = horner 32 ds a.
Proof.
  induction ds as [|d r IH]; intros a; [reflexivity|].
  cbn [fold_left]. rewrite Z.shiftl_mul_pow2 by lia. change (2 ^ 5) with 32.
  rewrite IH. unfold horner. cbn [fold_left]. f_equal. lia.
Qed.

Lemma number_of_val ds : number_of ds = val 32 ds.
Proof. apply number_of_horner. Qed.

Definition wit_version_byte (v : Z) : Z := if v =? 0 then 0 else 80 + v.
(* raw_serialize of [OP_n, program] *)
Definition witness_program (v : Z) (prog : bytes) : bytes := wit_version_byte v :: zlen prog :: prog.
(* what NET_FOR_PREFIX gives back: signet addresses decode as testnet *)
Definition net_back (net : Z) : Z := if net =? 2 then 1 else net.

Lemma prefix_net net hrp : prefix_of net = Ok hrp -> net_for_prefix hrp = Ok (net_back net).
Proof.
  unfold prefix_of, net_back.
  destruct (net =? 0) eqn:E0; [apply Z.eqb_eq in E0; subst; intros [= <-]; reflexivity|].
  destruct (net =? 1) eqn:E1; [apply Z.eqb_eq in E1; subst; intros [= <-]; reflexivity|].
  destruct (net =? 2) eqn:E2; [apply Z.eqb_eq in E2; subst; intros [= <-]; reflexivity|].
  cbn [orb]. destruct (net =? 3) eqn:E3; [apply Z.eqb_eq in E3; subst; intros [= <-]; reflexivity|].
  discriminate.
Qed.

Lemma Forall_sym5_dec l : forallb (fun x => (0 <=? x) && (x <? 32)) l = true -> Forall sym5 l.
Proof.
  intros H. rewrite forallb_forall in H. apply Forall_forall. intros x Hx.
  specialize (H x Hx). unfold sym5. lia.
Qed.

Lemma hrp_expand_ok hrp : known_hrp hrp -> Forall sym5 (hrp_expand hrp).
Proof. intros [-> | [-> | ->]]; apply Forall_sym5_dec; vm_compute; reflexivity. Qed.

Lemma b32c_not_one syms : Forall sym5 syms -> existsb (Z.eqb 49) (map b32c syms) = false.
Proof.
  intros HF. destruct (existsb (Z.eqb 49) (map b32c syms)) eqn:E; [|reflexivity].
  apply existsb_in in E. apply in_map_iff in E as [n [E Hn]]. rewrite Forall_forall in HF.
  pose proof (bech32_index_char n (HF n Hn)) as A. rewrite E in A. vm_compute in A. discriminate.
Qed.

(* the shape of every encoder output, with the facts the other theorems need *)
Theorem encode_segwit_shape32 net v prog :
  0 <= v < 32 -> bytes_ok prog -> (2 <= length prog <= 40)%nat ->
  (0 <= net <= 3) ->
  exists hrp g chk,
    prefix_of net = Ok hrp /\ known_hrp hrp /\
    group_32 prog = Ok g /\ Forall sym5 (v :: g ++ chk) /\ length chk = 6%nat /\
    encode_bech32_checksum (witness_program v prog) net = Ok (hrp ++ [49] ++ map b32c (v :: g ++ chk)) /\
    bech32_polymod (hrp_expand hrp ++ (v :: g ++ chk)) = const_of v /\
    (length (v :: g ++ chk) <= 90)%nat.
Proof.
  intros Hv HB HL Hnet.
  assert (exists hrp, prefix_of net = Ok hrp) as [hrp EP].
  { unfold prefix_of. assert (net = 0 \/ net = 1 \/ net = 2 \/ net = 3) as [-> | [-> | [-> | ->]]] by lia;
      cbn; eauto. }
  pose proof (prefix_known net hrp EP) as HK.
  destruct (group_32_spec prog HB) as [g [EG [FG [_ SP]]]].
  destruct SP as [p [Hp [SL _]]]; [intros ->; cbn in HL; lia|].
  assert (EV : (if 0 <? wit_version_byte v then wit_version_byte v - 80 else wit_version_byte v) = v).
  { unfold wit_version_byte. destruct (v =? 0) eqn:E0; [apply Z.eqb_eq in E0; subst; reflexivity|].
    apply Z.eqb_neq in E0. destruct (0 <? 80 + v) eqn:E1; lia. }
  set (const := const_of v).
  set (data := v :: g).
  set (chk := chk_syms (Z.lxor (bech32_polymod ((hrp_expand hrp ++ data) ++ zeros6)) const)).
  assert (FD : Forall sym5 data) by (constructor; [unfold sym5; lia|exact FG]).
  exists hrp, g, chk.
  assert (FA : Forall sym5 (v :: g ++ chk)).
  { change (v :: g ++ chk) with (data ++ chk). apply Forall_app. split; [exact FD|apply chk_syms_ok]. }
  split; [exact EP|]. split; [exact HK|]. split; [exact EG|]. split; [exact FA|].
  split; [reflexivity|]. split; [|split].
  - unfold encode_bech32_checksum, witness_program. rewrite EP. cbn [bind]. cbv zeta.
    rewrite EV. unfold readz. destruct (zlen prog <? 0) eqn:E1; [unfold zlen in E1; lia|].
    rewrite Z.leb_refl. cbn [fst]. rewrite EG. cbn [bind].
    assert (EC : (if v =? 0 then bech32_create_checksum hrp (v :: g)
                  else bech32m_create_checksum hrp (v :: g)) = chk).
    { unfold chk, const, const_of, bech32_create_checksum, bech32m_create_checksum, create_checksum.
      destruct (v =? 0); reflexivity. }
    rewrite EC. change ((v :: g) ++ chk) with (v :: g ++ chk).
    rewrite (encode_bech32_ok _ FA). reflexivity.
  - change (v :: g ++ chk) with (data ++ chk). rewrite app_assoc.
    unfold chk.
    change (run GEN 25 5 1 ((hrp_expand hrp ++ data) ++
              chk_syms (Z.lxor (run GEN 25 5 1 ((hrp_expand hrp ++ data) ++ zeros6)) const)) = const).
    apply checksum_valid.
    + unfold st_ok, P30. lia.
    + unfold const, const_of, st_ok, P30, BECH32M_CONSTANT. destruct (v =? 0); lia.
    + apply Forall_app. split; [apply hrp_expand_ok; exact HK|exact FD].
  - cbn [length]. rewrite app_length. change (length chk) with 6%nat.
    unfold zlen in SL. lia.
Qed.

(* the version range of the published statements *)
Theorem encode_segwit_shape net v prog :
  0 <= v <= 16 -> bytes_ok prog -> (2 <= length prog <= 40)%nat ->
  (0 <= net <= 3) ->
  exists hrp g chk,
    prefix_of net = Ok hrp /\ known_hrp hrp /\
    group_32 prog = Ok g /\ Forall sym5 (v :: g ++ chk) /\ length chk = 6%nat /\
    encode_bech32_checksum (witness_program v prog) net = Ok (hrp ++ [49] ++ map b32c (v :: g ++ chk)) /\
    bech32_polymod (hrp_expand hrp ++ (v :: g ++ chk)) = const_of v /\
    (length (v :: g ++ chk) <= 90)%nat.
Proof. intros Hv. apply encode_segwit_shape32. lia. Qed.

(* the padding test of decode_bech32 (fix cfb8181) passes on zero padding of p < 5 bits *)
Lemma pad_check_ok x p : 0 <= p < 5 ->
  (4 <? p) || negb (Z.land (x * 2 ^ p) (Z.shiftl 1 p - 1) =? 0) = false.
Proof.
  intros Hp. destruct (4 <? p) eqn:E; [apply Z.ltb_lt in E; lia|]. cbn [orb].
  rewrite Z.sub_1_r. change (Z.pred (Z.shiftl 1 p)) with (Z.ones p).
  rewrite Z.land_ones by lia. rewrite Z.mod_mul by (apply Z.pow_nonzero; lia). reflexivity.
Qed.

(* every version symbol 0..31 (the encoder and the decoder do not restrict it to 0..16) *)
Theorem segwit_roundtrip32 net v prog :
  0 <= v < 32 -> bytes_ok prog -> (2 <= length prog <= 40)%nat -> 0 <= net <= 3 ->
  exists addr, encode_bech32_checksum (witness_program v prog) net = Ok addr /\
               decode_bech32 addr = Ok (net_back net, v, prog).
Proof.
  intros Hv HB HL Hnet.
  destruct (encode_segwit_shape32 net v prog Hv HB HL Hnet)
    as [hrp [g [chk [EP [HK [EG [FA [LC [EE [PV _]]]]]]]]]].
  eexists. split; [exact EE|].
  rewrite (decode_split hrp _ HK). rewrite (b32c_not_one _ FA).
  assert (BODY : decode_body hrp (map b32c (v :: g ++ chk)) = Ok (net_back net, v, prog)).
  { unfold decode_body. rewrite (prefix_net net hrp EP). cbn [bind].
    rewrite (index_map_b32c _ FA). cbn [bind].
    rewrite verify_const, PV, Z.eqb_refl. cbn [negb].
    destruct (group_32_spec prog HB) as [g' [EG' [FG [_ SP]]]].
    rewrite EG in EG'. injection EG' as <-.
    destruct SP as [p [Hp [SL SV]]]; [intros ->; cbn in HL; lia|].
    assert (LD : length (v :: g ++ chk) = (length g + 7)%nat) by (cbn [length]; rewrite app_length, LC; lia).
    rewrite LD. replace (length g + 7 - 7)%nat with (length g) by lia.
    cbn [skipn]. rewrite firstn_app, Nat.sub_diag, firstn_all. cbn [firstn]. rewrite app_nil_r.
    unfold zlen. rewrite LD. replace (Z.of_nat (length g + 7) - 7) with (zlen g) by (unfold zlen; lia).
    rewrite Z.mul_comm, SL.
    replace ((8 * zlen prog + p) / 8) with (zlen prog)
      by (rewrite Z.mul_comm, Z.div_add_l, Z.div_small; lia).
    replace ((8 * zlen prog + p) mod 8) with p
      by (rewrite Z.add_comm, Z.mul_comm, Z.mod_add, Z.mod_small; lia).
    rewrite number_of_val, SV, Z.shiftr_div_pow2, Z.div_mul by (try lia; apply Z.pow_nonzero; lia).
    rewrite (pad_check_ok (val 256 prog) p Hp).
    destruct (zlen prog <? 0) eqn:E1; [apply Z.ltb_lt in E1; unfold zlen in E1; lia|].
    unfold zlen. rewrite Nat2Z.id.
    rewrite <- from_be_val.
    unfold int_to_be.
    pose proof (from_le_bound (rev prog) (bytes_ok_rev prog HB)) as BD. rewrite rev_length in BD.
    fold (from_be prog) in BD.
    destruct (0 <=? from_be prog) eqn:E2; [|lia]. destruct (from_be prog <? pow256 (length prog)) eqn:E3; [|lia].
    cbn [andb bind]. fold (to_be (length prog) (from_be prog)). rewrite (to_be_from_be prog HB).
    destruct (Z.of_nat (length prog) <? 2) eqn:E4; [lia|]. destruct (40 <? Z.of_nat (length prog)) eqn:E5; [lia|].
    reflexivity. }
  rewrite BODY. destruct (beq hrp hrp_bcrt); reflexivity.
Qed.

Theorem segwit_roundtrip net v prog :
  0 <= v <= 16 -> bytes_ok prog -> (2 <= length prog <= 40)%nat -> 0 <= net <= 3 ->
  exists addr, encode_bech32_checksum (witness_program v prog) net = Ok addr /\
               decode_bech32 addr = Ok (net_back net, v, prog).
Proof. intros Hv. apply segwit_roundtrip32. lia. Qed.

(* constant selection: the address verifies against 1 exactly for version 0 and against
   0x2bc830a3 exactly for versions 1..16 *)
Theorem constant_selection net v prog :
  0 <= v <= 16 -> bytes_ok prog -> (2 <= length prog <= 40)%nat -> 0 <= net <= 3 ->
  exists hrp data,
    prefix_of net = Ok hrp /\
    encode_bech32_checksum (witness_program v prog) net = Ok (hrp ++ [49] ++ map b32c data) /\
    bech32_verify_checksum hrp data = (v =? 0) /\
    bech32m_verify_checksum hrp data = negb (v =? 0).
Proof.
  intros Hv HB HL Hnet.
  destruct (encode_segwit_shape net v prog Hv HB HL Hnet)
    as [hrp [g [chk [EP [HK [EG [FA [LC [EE [PV _]]]]]]]]]].
  exists hrp, (v :: g ++ chk). split; [exact EP|]. split; [exact EE|].
  unfold bech32_verify_checksum, bech32m_verify_checksum, verify_checksum. rewrite PV.
  unfold const_of. destruct (v =? 0); split; reflexivity.
Qed.

(* error detection for the encoder's output *)
Theorem segwit_detects_two net v prog :
  0 <= v <= 16 -> bytes_ok prog -> (2 <= length prog <= 40)%nat -> 0 <= net <= 3 ->
  exists hrp d,
    prefix_of net = Ok hrp /\
    encode_bech32_checksum (witness_program v prog) net = Ok (hrp ++ [49] ++ d) /\
    (length d <= 90)%nat /\
    forall d', length d' = length d -> (1 <= hamming d d' <= 2)%nat ->
               decode_bech32 (hrp ++ [49] ++ d') = Err.
Proof.
  intros Hv HB HL Hnet.
  destruct (encode_segwit_shape net v prog Hv HB HL Hnet)
    as [hrp [g [chk [EP [HK [EG [FA [LC [EE [PV L90]]]]]]]]]].
  exists hrp, (map b32c (v :: g ++ chk)). split; [exact EP|]. split; [exact EE|].
  split; [now rewrite map_length|].
  intros d' HLen HH. rewrite map_length in HLen.
  apply (bech32_detects_two hrp (v :: g ++ chk) d' HK FA L90 PV HLen HH).
Qed.
