(* Proofs/LagrangeDefs.v — Lagrange interpolation over an abstract field, in the shape
   used by buidl/shamir.py ShareSet.interpolate: the coefficient of the i-th point is
   (prod_{j<>i} (x - x_j)) / (prod_{j<>i} (x_i - x_j)), positions (not values) decide
   which factors are left out.  Definitions only; theorems in Proofs/LagrangeP.v. *)
From Coq Require Import List.
Import ListNotations.

Section Defs.
  Variable F : Type.
  Variables (zero one : F) (add mul sub : F -> F -> F) (opp : F -> F)
            (div : F -> F -> F) (inv : F -> F).

  (* every element together with the list of the other elements (by position) *)
  Fixpoint picks {A} (l : list A) : list (A * list A) :=
    match l with
    | [] => []
    | a :: r => (a, r) :: map (fun p => (fst p, a :: snd p)) (picks r)
    end.

  Definition fsum (l : list F) : F := fold_right add zero l.
  Definition fprod (l : list F) : F := fold_right mul one l.

  (* Lagrange basis coefficient of node xi among the other nodes `rest`, evaluated at x *)
  Definition lcoef (x xi : F) (rest : list F) : F :=
    div (fprod (map (fun xj => sub x xj) rest)) (fprod (map (fun xj => sub xi xj) rest)).

  (* value at x of the interpolant through pts = [(x_i, y_i)] *)
  Definition interp (x : F) (pts : list (F * F)) : F :=
    fsum (map (fun p => mul (snd (fst p)) (lcoef x (fst (fst p)) (map fst (snd p)))) (picks pts)).
End Defs.
