(* Proofs/EncGeneralP.v — SEC / x-only codecs of the curve model for EVERY curve y^2 = x^3 + b over a
   prime field with p = 3 mod 4 (no group-law premise at all: only [prime p], a = 0, p = 3 mod 4, and
   p < 2^256 where a 32-byte coordinate has to hold the number):
   - S256Field.sqrt: sound, complete, Err exactly on non-residues;
   - round trips with the per-point side condition y <> 0 only where the code really needs it
     (compressed SEC of a 2-torsion point is REJECTED by parse_sec: S256Field(P - 0) raises);
   - the converses: whatever parse_sec / parse_xonly / parse accept is a curve point AND the input is the
     canonical encoding of that point (no second byte string decodes to the same point through the same
     format); exact characterisation of acceptance (iff) and hence of rejection. *)
From Coq Require Import ZArith Znumtheory Lia.
From V Require Import Base.Prelude Base.Ints Base.Fermat Model.Pecc Proofs.GroupHyp
  Proofs.CurveSweep Proofs.SmallFields Proofs.CurveGeneral Proofs.CurveLawsP Proofs.PeccEnc.
Open Scope Z_scope.

Ltac Zify.zify_post_hook ::= Z.to_euclidean_division_equations.

Lemma from_le_app a b : from_le (a ++ b) = from_le a + pow256 (length a) * from_le b.
Proof.
  induction a as [|x a IH]; cbn [app from_le length].
  - change (pow256 0) with 1. lia.
  - rewrite IH, pow256_S. ring.
Qed.

Lemma from_be_cons0 b : from_be (0 :: b) = from_be b.
Proof. unfold from_be. cbn [rev]. rewrite from_le_app. cbn [from_le]. ring. Qed.

Lemma to_be_from_be_n n l : length l = n -> bytes_ok l -> to_be n (from_be l) = l.
Proof. intros <-. apply to_be_from_be. Qed.

(* layout of the encoders: lengths, byte range, prefix; exceptions exactly on infinity *)
Theorem sec_layout P c : 
  (P = None -> sec P c = Err) /\
  (forall x y, P = Some (x, y) -> exists b, sec P c = Ok b /\ bytes_ok b /\
     length b = (if c then 33 else 65)%nat /\
     b = (if c then (2 + y mod 2) :: to_be 32 x else 4 :: to_be 32 x ++ to_be 32 y)).
Proof.
  split; [intros ->; reflexivity|]. intros x y ->. cbn [sec].
  assert (Hm : 0 <= y mod 2 < 2) by (apply Z.mod_pos_bound; lia).
  destruct c.
  - eexists. split; [reflexivity|].
    assert (E : (if y mod 2 =? 1 then 3 else 2) = 2 + y mod 2).
    { destruct (y mod 2 =? 1) eqn:E; [apply Z.eqb_eq in E|apply Z.eqb_neq in E]; lia. }
    rewrite E. split; [|split; [|reflexivity]].
    + constructor; [unfold byte_ok; lia|apply to_be_ok].
    + cbn [length]. now rewrite to_be_length.
  - eexists. split; [reflexivity|]. split; [|split; [|reflexivity]].
    + constructor; [unfold byte_ok; lia|]. apply bytes_ok_app. split; apply to_be_ok.
    + cbn [length]. now rewrite app_length, !to_be_length.
Qed.

Theorem xonly_layout P : length (xonly P) = 32%nat /\ bytes_ok (xonly P).
Proof. destruct P as [[x y]|]; cbn [xonly]; split; try apply to_be_length; apply to_be_ok. Qed.

Section EncG.
Variable C : curve.
Let p := cp C.
Hypothesis Hp : prime p.
Hypothesis Ha : ca C = 0.
Hypothesis Hp4 : p mod 4 = 3.

Lemma gp_gt2 : 2 < p.
Proof. pose proof (prime_ge_2 _ Hp). lia. Qed.
Lemma gp_odd : p mod 2 = 1.
Proof. lia. Qed.

Local Notation alpha := (alpha C).

Lemma fpow_range a e : 0 <= fpow C a e < p.
Proof.
  pose proof gp_gt2. unfold fpow. fold p. destruct (0 <=? e) eqn:E.
  - apply modpow_range; [apply Z.leb_le in E|]; lia.
  - apply modpow_range; [apply Z.mod_pos_bound|]; lia.
Qed.

Lemma alpha_range x : 0 <= alpha x < p.
Proof. unfold PeccEnc.alpha, fadd. fold p. apply Z.mod_pos_bound. pose proof gp_gt2. lia. Qed.

Lemma gvalid_inv x y : valid C (Some (x, y)) ->
  0 <= x < p /\ 0 <= y < p /\ (y * y) mod p = alpha x.
Proof.
  intros (Hx & Hy & Hc). apply felem_ok_range in Hx, Hy. fold p in Hx, Hy.
  repeat split; try lia.
  unfold on_curve in Hc. apply Z.eqb_eq in Hc. rewrite fpow_2 in Hc. unfold fmul in Hc at 1.
  fold p in Hc. rewrite Hc. unfold PeccEnc.alpha. rewrite Ha. unfold fmul, fadd. fold p.
  rewrite Z.mul_0_l, Z.mod_0_l by (pose proof gp_gt2; lia). rewrite Z.add_0_r.
  pose proof (fpow_range x 3). rewrite (Z.mod_small (fpow C x 3) p) by lia. reflexivity.
Qed.

Lemma gvalid_intro x y : 0 <= x < p -> 0 <= y < p -> (y * y) mod p = alpha x -> valid C (Some (x, y)).
Proof.
  intros Hx Hy E. cbn. rewrite !(proj2 (felem_ok_range C _)) by (fold p; lia).
  repeat split. unfold on_curve. apply Z.eqb_eq. rewrite fpow_2. unfold fmul at 1. fold p. rewrite E.
  unfold PeccEnc.alpha. rewrite Ha. unfold fmul, fadd. fold p.
  rewrite Z.mul_0_l, Z.mod_0_l by (pose proof gp_gt2; lia). rewrite Z.add_0_r.
  pose proof (fpow_range x 3). rewrite (Z.mod_small (fpow C x 3) p) by lia. reflexivity.
Qed.

(* ---------------- S256Field.sqrt ---------------- *)
Theorem fsqrt_sound a s : fsqrt C a = Ok s -> 0 <= s < p /\ (s * s) mod p = a.
Proof.
  unfold fsqrt. fold p. destruct (fmul C _ _ =? a) eqn:E; [|discriminate]. intros [= <-].
  apply Z.eqb_eq in E. split; [apply fpow_range|exact E].
Qed.

Theorem fsqrt_complete a : 0 <= a < p -> (exists y, (y * y) mod p = a) ->
  exists s, fsqrt C a = Ok s /\ 0 <= s < p /\ (s * s) mod p = a.
Proof.
  intros Hr [y Hy]. pose proof gp_gt2 as Hp2.
  assert (He : 0 <= (p + 1) / 4) by (apply Z.div_pos; lia).
  set (s := modpow a ((p + 1) / 4) p).
  assert (Hs : (s * s) mod p = a) by (unfold s; rewrite <- Hy; apply sqrt_p34; assumption).
  exists s. split; [|split; [apply modpow_range; lia|exact Hs]].
  unfold fsqrt. fold p. unfold fpow. fold p.
  destruct (0 <=? (p + 1) / 4) eqn:E0; [|apply Z.leb_gt in E0; lia].
  fold s. unfold fmul. fold p. rewrite Hs. now rewrite Z.eqb_refl.
Qed.

(* the (p+1)/4 power is rejected exactly on the non-residues *)
Theorem fsqrt_err_iff a : 0 <= a < p -> (fsqrt C a = Err <-> forall y, (y * y) mod p <> a).
Proof.
  intros Hr. split.
  - intros E y Hy. destruct (fsqrt_complete a Hr (ex_intro _ y Hy)) as (s & Es & _). congruence.
  - intros H. destruct (fsqrt C a) as [s|] eqn:E; [|reflexivity].
    destruct (fsqrt_sound a s E) as [_ Hs]. exfalso. exact (H s Hs).
Qed.

Theorem fsqrt_out_of_range a : ~ (0 <= a < p) -> fsqrt C a = Err.
Proof.
  intros Hr. destruct (fsqrt C a) as [s|] eqn:E; [|reflexivity].
  destruct (fsqrt_sound a s E) as [_ Hs]. pose proof gp_gt2.
  pose proof (Z.mod_pos_bound (s * s) p ltac:(lia)). lia.
Qed.

(* on the right-hand side of a curve point the root is the point's y or its negative *)
Lemma fsqrt_curve x y : valid C (Some (x, y)) ->
  exists beta, fsqrt C (alpha x) = Ok beta /\ 0 <= beta < p /\ (beta = y \/ beta = (- y) mod p).
Proof.
  intros Hv. destruct (gvalid_inv x y Hv) as (Hx & Hy & E).
  destruct (fsqrt_complete (alpha x) (alpha_range x) (ex_intro _ y E)) as (s & Es & Hr & Hs).
  exists s. split; [exact Es|]. split; [exact Hr|].
  assert (Hvs : valid C (Some (x, s))) by (apply gvalid_intro; assumption).
  exact (same_x_general C Hp gp_gt2 x y s Hv Hvs).
Qed.

Lemma neg_small y : 0 < y < p -> (- y) mod p = p - y.
Proof. intros H. symmetry. apply Z.mod_unique with (q := -1); lia. Qed.

(* ---------------- what the parsers accept (no size hypothesis) ---------------- *)
Lemma gmk_point_valid x y P : felem_ok C x = true -> felem_ok C y = true ->
  mk_point C x y = Ok P -> P = Some (x, y) /\ valid C P.
Proof.
  intros Hx Hy. unfold mk_point. destruct (on_curve C x y) eqn:E; [|discriminate].
  intros [= <-]. split; [reflexivity|]. cbn. auto.
Qed.

Theorem parse_sec_inv b P : parse_sec C b = Ok P ->
  exists x y, P = Some (x, y) /\ valid C P /\
    ((exists rest, b = 4 :: rest /\ length rest = 64%nat /\
        x = from_be (firstn 32 rest) /\ y = from_be (skipn 32 rest)) \/
     (exists pre rest, b = pre :: rest /\ length rest = 32%nat /\ (pre = 2 \/ pre = 3) /\
        x = from_be rest /\ y mod 2 = pre - 2 /\ y <> 0)).
Proof.
  destruct b as [|pre rest]; [discriminate|]. unfold parse_sec.
  destruct ((pre =? 4) && (length (pre :: rest) =? 65)%nat) eqn:E1.
  - apply andb_true_iff in E1 as [E1 E2]. apply Z.eqb_eq in E1. apply Nat.eqb_eq in E2. subst pre.
    unfold mk_point_int.
    destruct (felem_ok C (from_be (firstn 32 rest)) && felem_ok C (from_be (skipn 32 rest))) eqn:E3;
      [|discriminate].
    apply andb_true_iff in E3 as [E3 E4]. intros H.
    destruct (gmk_point_valid _ _ _ E3 E4 H) as [-> Hv].
    eexists _, _. split; [reflexivity|]. split; [exact Hv|]. left. exists rest.
    cbn [length] in E2. repeat split; try reflexivity. lia.
  - destruct (negb ((pre =? 2) || (pre =? 3)) || negb (length (pre :: rest) =? 33)%nat) eqn:E2;
      [discriminate|].
    apply orb_false_iff in E2 as [E2 E3]. apply negb_false_iff in E2, E3. apply Nat.eqb_eq in E3.
    destruct (negb (felem_ok C (from_be rest))) eqn:E4; [discriminate|]. apply negb_false_iff in E4.
    fold p. destruct (fsqrt C _) as [beta|] eqn:Es; [|discriminate]. cbn [bind].
    set (eb := if beta mod 2 =? 0 then beta else p - beta).
    set (ob := if beta mod 2 =? 0 then p - beta else beta).
    destruct (negb (felem_ok C eb) || negb (felem_ok C ob)) eqn:E5; [discriminate|].
    apply orb_false_iff in E5 as [E5 E6]. apply negb_false_iff in E5, E6.
    pose proof gp_odd as Hodd.
    pose proof (proj1 (felem_ok_range C _) E5) as R5. pose proof (proj1 (felem_ok_range C _) E6) as R6.
    fold p in R5, R6. cbn [length] in E3.
    intros H. apply orb_true_iff in E2.
    destruct (pre =? 2) eqn:P2.
    + apply Z.eqb_eq in P2. destruct (gmk_point_valid _ _ _ E4 E5 H) as [-> Hv].
      eexists _, _. split; [reflexivity|]. split; [exact Hv|]. right. exists pre, rest.
      repeat split; auto; try lia; subst pre eb ob;
        destruct (beta mod 2 =? 0) eqn:Eb; [apply Z.eqb_eq in Eb|apply Z.eqb_neq in Eb| |]; lia.
    + destruct E2 as [E2|E2]; [discriminate|]. apply Z.eqb_eq in E2.
      destruct (gmk_point_valid _ _ _ E4 E6 H) as [-> Hv].
      eexists _, _. split; [reflexivity|]. split; [exact Hv|]. right. exists pre, rest.
      repeat split; auto; try lia; subst pre eb ob;
        destruct (beta mod 2 =? 0) eqn:Eb; [apply Z.eqb_eq in Eb|apply Z.eqb_neq in Eb| |]; lia.
Qed.

(* parse_sec is injective on byte strings: an accepted string IS the SEC encoding of the returned point *)
Theorem parse_sec_canonical b P : bytes_ok b -> parse_sec C b = Ok P ->
  exists c, sec P c = Ok b.
Proof.
  intros B H. destruct (parse_sec_inv b P H) as (x & y & -> & Hv & [(rest & -> & Hl & -> & ->)|
    (pre & rest & -> & Hl & Hpre & -> & Hpar & _)]); inversion B as [|? ? _ Brest]; subst.
  - exists false. cbn [sec].
    rewrite (to_be_from_be_n 32 (firstn 32 rest)) by (try apply bytes_ok_firstn; try assumption; rewrite firstn_length; lia).
    rewrite (to_be_from_be_n 32 (skipn 32 rest)) by (try apply bytes_ok_skipn; try assumption; rewrite skipn_length; lia).
    now rewrite firstn_skipn.
  - exists true. cbn [sec]. rewrite (to_be_from_be_n 32 rest) by assumption.
    destruct Hpre as [-> | ->].
    + replace (from_be rest) with (from_be rest) by reflexivity.
      destruct (_ mod 2 =? 1) eqn:E; [apply Z.eqb_eq in E; lia|reflexivity].
    + destruct (_ mod 2 =? 1) eqn:E; [reflexivity|apply Z.eqb_neq in E; lia].
Qed.

Theorem parse_xonly_inv b P : parse_xonly C b = Ok P ->
  (P = None /\ from_be b = 0) \/
  (exists y, P = Some (from_be b, y) /\ valid C P /\ y mod 2 = 0 /\ from_be b <> 0).
Proof.
  unfold parse_xonly. destruct (from_be b =? 0) eqn:E0.
  - intros [= <-]. left. apply Z.eqb_eq in E0. auto.
  - apply Z.eqb_neq in E0.
    destruct (negb (felem_ok C (from_be b))) eqn:E1; [discriminate|]. apply negb_false_iff in E1.
    fold p. destruct (fsqrt C _) as [beta|] eqn:Es; [|discriminate]. cbn [bind].
    pose proof gp_odd as Hodd. destruct (fsqrt_sound _ _ Es) as [Hr _].
    destruct (beta mod 2 =? 1) eqn:Eb; [apply Z.eqb_eq in Eb|apply Z.eqb_neq in Eb].
    + destruct (felem_ok C (p - beta)) eqn:E2; [|discriminate]. intros H.
      destruct (gmk_point_valid _ _ _ E1 E2 H) as [-> Hv]. right.
      eexists. split; [reflexivity|]. split; [exact Hv|]. split; [lia|exact E0].
    + intros H. assert (Hb : felem_ok C beta = true) by (apply felem_ok_range; fold p; lia).
      destruct (gmk_point_valid _ _ _ E1 Hb H) as [-> Hv]. right.
      eexists. split; [reflexivity|]. split; [exact Hv|]. split; [lia|exact E0].
Qed.

Theorem parse_xonly_valid b P : parse_xonly C b = Ok P -> valid C P.
Proof.
  intros H. destruct (parse_xonly_inv b P H) as [[-> _]|(y & -> & Hv & _)]; [exact I|exact Hv].
Qed.

(* a 32-byte string accepted by parse_xonly IS the x-only encoding of the returned point *)
Theorem parse_xonly_canonical b P : length b = 32%nat -> bytes_ok b ->
  parse_xonly C b = Ok P -> xonly P = b.
Proof.
  intros Hl B H. destruct (parse_xonly_inv b P H) as [[-> E]|(y & -> & _)]; cbn [xonly].
  - rewrite <- E. now apply to_be_from_be_n.
  - now apply to_be_from_be_n.
Qed.

(* parse_xonly itself does not look at the length: leading zero bytes are ignored
   (S256Point.parse only calls it on 32 bytes) *)
Theorem parse_xonly_leading_zero b : parse_xonly C (0 :: b) = parse_xonly C b.
Proof. unfold parse_xonly. now rewrite from_be_cons0. Qed.

Theorem parse_xonly_rejects b : from_be b <> 0 ->
  (forall y, ~ valid C (Some (from_be b, y))) -> parse_xonly C b = Err.
Proof.
  intros H0 Hn. destruct (parse_xonly C b) as [P|] eqn:E; [exfalso|reflexivity].
  destruct (parse_xonly_inv b P E) as [[_ ?]|(y & -> & Hv & _)]; [contradiction|exact (Hn y Hv)].
Qed.

Theorem parse_xonly_rejects_range b : p <= from_be b -> parse_xonly C b = Err.
Proof.
  intros H. apply parse_xonly_rejects; [pose proof gp_gt2; lia|].
  intros y Hv. destruct (gvalid_inv _ _ Hv) as (Hx & _). lia.
Qed.

Theorem parse_point_valid b P : parse_point C b = Ok P -> valid C P.
Proof.
  unfold parse_point. destruct (length b =? 32)%nat; [apply parse_xonly_valid|].
  destruct ((length b =? 33)%nat || (length b =? 65)%nat); [|discriminate].
  intros H. destruct (parse_sec_inv b P H) as (x & y & -> & Hv & _). exact Hv.
Qed.

(* S256Point.parse: an accepted string is the canonical x-only or SEC encoding of the result *)
Theorem parse_point_canonical b P : bytes_ok b -> parse_point C b = Ok P ->
  (length b = 32%nat /\ xonly P = b) \/ (P <> None /\ exists c, sec P c = Ok b).
Proof.
  intros B. unfold parse_point. destruct (length b =? 32)%nat eqn:E32.
  - apply Nat.eqb_eq in E32. intros H. left. split; [exact E32|]. now apply parse_xonly_canonical.
  - destruct ((length b =? 33)%nat || (length b =? 65)%nat); [|discriminate].
    intros H. right. split; [|now apply parse_sec_canonical].
    destruct (parse_sec_inv b P H) as (x & y & -> & _). discriminate.
Qed.

(* ---------------- round trips ---------------- *)
Section Size.
Hypothesis Hp256 : p < pow256 32.

Lemma gxb_facts x : 0 <= x < p -> length (to_be 32 x) = 32%nat /\ from_be (to_be 32 x) = x.
Proof. intros Hx. split; [apply to_be_length|apply from_be_to_be; lia]. Qed.

(* compressed SEC: every curve point with y <> 0 *)
Theorem parse_sec_compressed_gen x y : valid C (Some (x, y)) -> y <> 0 ->
  parse_sec C ((if y mod 2 =? 1 then 3 else 2) :: to_be 32 x) = Ok (Some (x, y)).
Proof.
  intros Hv Hy0. destruct (gvalid_inv x y Hv) as (Hx & Hy & E).
  destruct (fsqrt_curve x y Hv) as (beta & Hs & Hb & Hcase).
  rewrite neg_small in Hcase by lia.
  destruct (gxb_facts x Hx) as [Hlen Hfrom].
  pose proof gp_odd as Hodd.
  assert (Hon : on_curve C x y = true) by (destruct Hv as (_ & _ & H); exact H).
  unfold parse_sec. remember (to_be 32 x) as xb eqn:Exb.
  cbn [length]. rewrite Hlen. change (33 =? 65)%nat with false. change (33 =? 33)%nat with true.
  rewrite andb_false_r. cbn [negb].
  assert (Hpre : ((if y mod 2 =? 1 then 3 else 2) =? 2) || ((if y mod 2 =? 1 then 3 else 2) =? 3) = true)
    by (destruct (y mod 2 =? 1); reflexivity).
  rewrite Hpre. cbn [negb orb]. rewrite Hfrom.
  rewrite (proj2 (felem_ok_range C x)) by (fold p; lia). cbn [negb].
  fold p. fold (alpha x). rewrite Hs. cbn [bind].
  assert (F1 : forall z, 0 < z < p -> felem_ok C z = true) by (intros z Hz; apply felem_ok_range; fold p; lia).
  destruct (y mod 2 =? 1) eqn:Ey; [apply Z.eqb_eq in Ey|apply Z.eqb_neq in Ey];
  destruct (beta mod 2 =? 0) eqn:Eb; [apply Z.eqb_eq in Eb|apply Z.eqb_neq in Eb| apply Z.eqb_eq in Eb|apply Z.eqb_neq in Eb];
  rewrite !F1 by lia; cbn [negb orb]; unfold mk_point.
  - change (3 =? 2) with false. cbv iota. replace (p - beta) with y by lia. now rewrite Hon.
  - change (3 =? 2) with false. cbv iota. replace beta with y by lia. now rewrite Hon.
  - change (2 =? 2) with true. cbv iota. replace beta with y by lia. now rewrite Hon.
  - change (2 =? 2) with true. cbv iota. replace (p - beta) with y by lia. now rewrite Hon.
Qed.

(* ... and the compressed encoding of a point with y = 0 is REJECTED: S256Field(P - 0) raises.
   (No such point exists on secp256k1, Proofs/Secp256k1P.v.) *)
Theorem parse_sec_compressed_y0_rejected x : valid C (Some (x, 0)) ->
  sec (Some (x, 0)) true = Ok (2 :: to_be 32 x) /\ parse_sec C (2 :: to_be 32 x) = Err.
Proof.
  intros Hv. split; [reflexivity|]. destruct (gvalid_inv x 0 Hv) as (Hx & Hy & E).
  destruct (fsqrt_curve x 0 Hv) as (beta & Hs & Hb & Hcase).
  pose proof gp_gt2 as Hp2. rewrite Z.mod_0_l in Hcase by lia.
  assert (beta = 0) by (destruct Hcase; assumption). subst beta.
  destruct (gxb_facts x Hx) as [Hlen Hfrom].
  unfold parse_sec. remember (to_be 32 x) as xb eqn:Exb.
  cbn [length]. rewrite Hlen. change (33 =? 65)%nat with false. change (33 =? 33)%nat with true.
  change (2 =? 4) with false. cbn [andb negb orb]. change (2 =? 2) with true. cbn [negb orb].
  rewrite Hfrom. rewrite (proj2 (felem_ok_range C x)) by (fold p; lia). cbn [negb].
  fold p. fold (alpha x). rewrite Hs. cbn [bind]. change (0 mod 2 =? 0) with true. cbv iota.
  rewrite Z.sub_0_r.
  assert (F : felem_ok C p = false).
  { destruct (felem_ok C p) eqn:F; [|reflexivity]. apply felem_ok_range in F. fold p in F. lia. }
  rewrite F. cbn [negb]. now rewrite orb_true_r.
Qed.

(* uncompressed SEC: every curve point *)
Theorem parse_sec_uncompressed_gen x y : valid C (Some (x, y)) ->
  parse_sec C (4 :: to_be 32 x ++ to_be 32 y) = Ok (Some (x, y)).
Proof.
  intros Hv. destruct (gvalid_inv x y Hv) as (Hx & Hy & E).
  destruct (gxb_facts x Hx) as [Hlx Hfx]. destruct (gxb_facts y Hy) as [Hly Hfy].
  assert (Hon : on_curve C x y = true) by (destruct Hv as (_ & _ & H); exact H).
  unfold parse_sec. remember (to_be 32 x) as xb. remember (to_be 32 y) as yb.
  cbn [length]. rewrite app_length, Hlx, Hly. change (S (32 + 32) =? 65)%nat with true.
  change (4 =? 4) with true. cbn [andb].
  rewrite firstn_app, Hlx. change (32 - 32)%nat with 0%nat. rewrite firstn_O, app_nil_r.
  rewrite <- Hlx at 1. rewrite firstn_all.
  rewrite skipn_app, Hlx. change (32 - 32)%nat with 0%nat. rewrite skipn_O.
  rewrite <- Hlx at 1. rewrite skipn_all. cbn [app].
  rewrite Hfx, Hfy. unfold mk_point_int, mk_point.
  rewrite !(proj2 (felem_ok_range C _)) by (fold p; lia). cbn [andb]. now rewrite Hon.
Qed.

Theorem parse_sec_sec_gen x y c s : valid C (Some (x, y)) -> (c = true -> y <> 0) ->
  sec (Some (x, y)) c = Ok s -> parse_sec C s = Ok (Some (x, y)).
Proof.
  intros Hv Hy Hs. unfold sec in Hs. destruct c; apply Ok_inj in Hs; subst s.
  - apply parse_sec_compressed_gen; auto.
  - now apply parse_sec_uncompressed_gen.
Qed.

Lemma sec_length P c s : sec P c = Ok s -> length s = 33%nat \/ length s = 65%nat.
Proof.
  destruct P as [[x y]|]; [|discriminate]. unfold sec. destruct c; intros Hs; apply Ok_inj in Hs; subst s.
  - left. remember (to_be 32 x) as xb eqn:E1. cbn [length]. now rewrite E1, to_be_length.
  - right. remember (to_be 32 x) as xb eqn:E1. remember (to_be 32 y) as yb eqn:E2.
    cbn [length]. now rewrite app_length, E1, E2, !to_be_length.
Qed.

Theorem parse_point_sec_gen x y c s : valid C (Some (x, y)) -> (c = true -> y <> 0) ->
  sec (Some (x, y)) c = Ok s -> parse_point C s = Ok (Some (x, y)).
Proof.
  intros Hv Hy Hs. pose proof (parse_sec_sec_gen x y c s Hv Hy Hs) as H.
  unfold parse_point. destruct (sec_length _ _ _ Hs) as [Hl|Hl]; rewrite Hl.
  - change (33 =? 32)%nat with false. change (33 =? 33)%nat with true. cbn [orb]. exact H.
  - change (65 =? 32)%nat with false. change (65 =? 33)%nat with false.
    change (65 =? 65)%nat with true. cbn [orb]. exact H.
Qed.

(* acceptance of parse_sec, exactly *)
Theorem parse_sec_iff b P : bytes_ok b ->
  (parse_sec C b = Ok P <->
   exists x y c, P = Some (x, y) /\ valid C P /\ sec P c = Ok b /\ (c = true -> y <> 0)).
Proof.
  intros B. split.
  - intros H. destruct (parse_sec_inv b P H) as (x & y & -> & Hv & Hcase).
    destruct (parse_sec_canonical b _ B H) as [c Hc].
    exists x, y, c. split; [reflexivity|]. split; [exact Hv|]. split; [exact Hc|]. intros ->.
    destruct Hcase as [(rest & -> & Hl & _)|(pre & rest & -> & _ & _ & _ & _ & Hy0)]; [|exact Hy0].
    cbn [sec] in Hc. apply Ok_inj in Hc. destruct (_ =? 1); discriminate.
  - intros (x & y & c & -> & Hv & Hs & Hy). exact (parse_sec_sec_gen x y c b Hv Hy Hs).
Qed.

(* ... hence of rejection: Err exactly on the strings that are not the encoding of a curve point *)
Theorem parse_sec_err_iff b : bytes_ok b ->
  (parse_sec C b = Err <->
   forall x y c, valid C (Some (x, y)) -> (c = true -> y <> 0) -> sec (Some (x, y)) c <> Ok b).
Proof.
  intros B. split.
  - intros E x y c Hv Hy Hs. rewrite (parse_sec_sec_gen x y c b Hv Hy Hs) in E. discriminate.
  - intros H. destruct (parse_sec C b) as [P|] eqn:E; [exfalso|reflexivity].
    apply (parse_sec_iff b P B) in E. destruct E as (x & y & c & -> & Hv & Hs & Hy).
    exact (H x y c Hv Hy Hs).
Qed.

(* x-only: every curve point with x <> 0 (y = 0 included) decodes to the even-y point above x *)
Theorem parse_xonly_xonly_gen x y : valid C (Some (x, y)) -> x <> 0 ->
  parse_xonly C (xonly (Some (x, y))) = Ok (Some (x, even_lift C y)).
Proof.
  intros Hv Hx0. destruct (gvalid_inv x y Hv) as (Hx & Hy & E).
  destruct (fsqrt_curve x y Hv) as (beta & Hs & Hb & Hcase).
  destruct (gxb_facts x Hx) as [Hlen Hfrom].
  pose proof gp_odd as Hodd. pose proof gp_gt2 as Hp2.
  assert (Hon : on_curve C x y = true) by (destruct Hv as (_ & _ & H); exact H).
  destruct (neg_general C Hp Hp2 x y Hv) as [(_ & _ & Hon') _]. fold p in Hon'.
  unfold parse_xonly, xonly. rewrite Hfrom.
  apply Z.eqb_neq in Hx0. rewrite Hx0.
  rewrite (proj2 (felem_ok_range C x)) by (fold p; lia). cbn [negb].
  fold p. fold (alpha x). rewrite Hs. cbn [bind].
  assert (F1 : forall z, 0 < z < p -> felem_ok C z = true) by (intros z Hz; apply felem_ok_range; fold p; lia).
  unfold even_lift, mk_point. fold p.
  destruct (Z.eq_dec y 0) as [->|Hy0].
  - rewrite Z.mod_0_l in Hcase by lia. assert (beta = 0) by (destruct Hcase; assumption). subst beta.
    change (0 mod 2 =? 1) with false. change (0 mod 2 =? 0) with true. cbv iota. now rewrite Hon.
  - rewrite neg_small in Hcase, Hon' by lia.
    destruct (beta mod 2 =? 1) eqn:Eb; [apply Z.eqb_eq in Eb|apply Z.eqb_neq in Eb];
    destruct (y mod 2 =? 0) eqn:Ey; [apply Z.eqb_eq in Ey|apply Z.eqb_neq in Ey|apply Z.eqb_eq in Ey|apply Z.eqb_neq in Ey].
    + rewrite F1 by lia. replace (p - beta) with y by lia. now rewrite Hon.
    + rewrite F1 by lia. replace beta with y by lia. now rewrite Hon'.
    + replace beta with y by lia. now rewrite Hon.
    + replace beta with (p - y) by lia. now rewrite Hon'.
Qed.

Theorem parse_xonly_iff b P : length b = 32%nat -> bytes_ok b -> from_be b <> 0 ->
  (parse_xonly C b = Ok P <->
   exists x y, P = Some (x, y) /\ valid C P /\ y mod 2 = 0 /\ xonly P = b).
Proof.
  intros Hl B H0. split.
  - intros H. pose proof (parse_xonly_canonical b P Hl B H) as Hc.
    destruct (parse_xonly_inv b P H) as [[_ ?]|(y & -> & Hv & Hy & _)]; [contradiction|].
    exists (from_be b), y. auto.
  - intros (x & y & -> & Hv & Hy & Hx). destruct (gvalid_inv x y Hv) as (Hxr & _).
    assert (Ex : from_be b = x) by (rewrite <- Hx; cbn [xonly]; apply from_be_to_be; lia).
    rewrite <- Hx. rewrite parse_xonly_xonly_gen by (assumption || congruence).
    unfold even_lift. apply Z.eqb_eq in Hy. now rewrite Hy.
Qed.

End Size.
End EncG.
